import MalVerif.Py.TieMSerialFromDict
import MalVerif.Py.TieModelStep
/-!
# The translated `_from_dict` as three loops (base of the general tie to `Ser.fromDoc`)

`fdAssetBody`, `fdAssocBody`, `fdAttBody` are verbatim copies of the three loop bodies of the generated
`model__from_dict`; `from_dict_eq` (by `rfl`) says that the generated function is the sequence of the three loops over
them — so any change of the generated code other than a renaming breaks here.  `forIn_sim_rem` lifts a step-wise
simulation (return ↦ return with related states, raise ↦ reject) to a loop against `List.foldlM`; the invariant may
depend on the elements still to come.  `FDInv` is what every phase of the loader keeps.
-/
namespace MalVerif.PyM.Tie
open MalVerif MalVerif.PyM MalVerif.PyM.Gen MalVerif.Ser

/-- the body of the first loop of `_from_dict` (verbatim copy of the generated statements) -/
def fdAssetBody (env : SEnv) (x : Key × PyAssetV) (s : H) : Except PyErr (ForInStep H) := do
  let mut s := s
  let (asset_id, asset_object) := x
  let mut asset_object : PyAssetD := (match asset_object with | PyAssetV.dict asset_object => asset_object | PyAssetV.str asset_object => { type := some asset_object, name := some (asset_object ++ ":" ++ (Key.text asset_id)) })
  let r_1 ← pjsNewAsset env s (← recGetE asset_object.type) (← recGetE asset_object.name)
  s := r_1.1
  let mut asset : ARef := r_1.2
  if (asset_object.extras).isSome then
    s := s.setA asset { s.a asset with extras := (some (← recGetE asset_object.extras)) }
  let mut defenses : (List (String × String)) := ((asset_object.defenses).getD [])
  for defense in ((defenses).map (·.1)) do
    s ← pjsSetDefense env s asset defense (← dictGetE defenses defense)
  s ← model_add_asset s env.model asset (some (← keyInt asset_id)) true
  pure (ForInStep.yield s)

def fdAssocBody (env : SEnv) (assoc_entry : PyAssocD) (s : H) : Except PyErr (ForInStep H) := do
  let mut s := s
  let mut assoc : String := (← pyIndex0 ((((((assoc_entry).map (·.1))).filter (fun key => !(key == "extras")))).map (fun key => key)))
  let mut assoc_fields : PyAssocV := (← dictGetE assoc_entry assoc)
  let r_2 ← pjsNewAssoc env s assoc
  s := r_2.1
  let mut association : LRef := r_2.2
  for (field, targets) in (← assocFieldsOf assoc_fields) do
    let mut targets : (List Key) := (match targets with | PyTargets.list targets => targets | PyTargets.one targets => [targets])
    s ← pjsSetField env s association field (← (targets).mapM (fun id_ => do return (model_get_asset_by_id s env.model (← keyInt id_))))
  s ← model_add_association s env.model association
  if (dictHas assoc_entry "extras") then
    s := s.setL association { s.l association with extras := (some (← assocJsonOf (← dictGetE assoc_entry "extras"))) }
  pure (ForInStep.yield s)

def fdAttBody (env : SEnv) (attackers_info : List (Key × PyAttD)) (attacker_id : Key) (s : H) : Except PyErr (ForInStep H) := do
  let mut s := s
  let r_3 := (newAttachment s (← recGetE (← dictGetE attackers_info attacker_id).name))
  s := r_3.1
  let mut attacker : TRef := r_3.2
  s := s.setT attacker { s.t attacker with entry_points := [] }
  for asset_id in (((← recGetE (← dictGetE attackers_info attacker_id).entry_points)).map (·.1)) do
    let r_4 := s.allocE { asset := (← objOrOther (model_get_asset_by_id s env.model (← keyInt asset_id))), steps := (← recGetE (← dictGetE (← recGetE (← dictGetE attackers_info attacker_id).entry_points) asset_id).attack_steps) }
    s := r_4.1
    s := s.setT attacker { s.t attacker with entry_points := ((s.t attacker).entry_points ++ [r_4.2]) }
  s := model_add_attacker s env.model attacker (some (← keyInt attacker_id))
  pure (ForInStep.yield s)

/-- the `return model` at the end of `_from_dict` -/
def fdRet (s : H) : Except PyErr H := pure s

theorem from_dict_eq (s : H) (env : SEnv) (d : PyDoc) :
    model__from_dict s env d = (do
      let maltoolbox_version : String ← (if ((← recGetE d.metadata).MAL_Toolbox_Version_space).isSome then (do return (← recGetE (← recGetE d.metadata).MAL_Toolbox_Version_space)) else (do return env.toolbox_version))
      let nm ← recGetE (← recGetE d.metadata).name
      let l ← recGetE d.assets
      let s1 ← forIn l (H.newModel s nm) (fdAssetBody env)
      let s2 ← forIn ((d.associations).getD []) s1 (fdAssocBody env)
      if (d.attackers).isSome then do
        let attackers_info ← recGetE d.attackers
        let r ← forIn ((attackers_info).map (·.1)) s2 (fdAttBody env attackers_info)
        fdRet r
      else fdRet s2) := by
  rfl

/-- a `for` loop whose body is simulated step by step by `g` (normal return ↦ normal return with related states,
exception ↦ some exception) is simulated by `List.foldlM g`; `I rest st`: invariant, given the elements still to come -/
theorem forIn_sim_rem {α σ τ ε : Type} (body : α → σ → Except PyErr (ForInStep σ)) (g : τ → α → Except ε τ)
    (absf : σ → τ) (P : α → Prop) (I : List α → σ → Prop)
    (hok : ∀ x rest st r, P x → I (x :: rest) st → body x st = .ok r →
      ∃ st', r = .yield st' ∧ I rest st' ∧ g (absf st) x = .ok (absf st'))
    (herr : ∀ x rest st e, P x → I (x :: rest) st → body x st = .error e → ∃ e', g (absf st) x = .error e')
    (l : List α) (hl : ∀ x ∈ l, P x) (st : σ) (hI : I l st) :
    (∀ st', forIn l st body = .ok st' → I [] st' ∧ l.foldlM g (absf st) = .ok (absf st')) ∧
    (∀ e, forIn l st body = .error e → ∃ e', l.foldlM g (absf st) = .error e') := by
  induction l generalizing st with
  | nil =>
    refine ⟨fun st' h => ?_, fun e h => ?_⟩
    · cases h; exact ⟨hI, rfl⟩
    · cases h
  | cons x l ih =>
    have hx : P x := hl x List.mem_cons_self
    have hl' : ∀ y ∈ l, P y := fun y hy => hl y (List.mem_cons_of_mem _ hy)
    rw [List.forIn_cons, List.foldlM_cons]
    cases hb : body x st with
    | error e =>
      obtain ⟨e', he'⟩ := herr x l st e hx hI hb
      refine ⟨fun st' h => ?_, fun e2 _ => ⟨e', ?_⟩⟩
      · cases h
      · rw [he']; rfl
    | ok r =>
      obtain ⟨st1, rfl, hI1, hg⟩ := hok x l st r hx hI hb
      rw [hg]
      exact ih hl' st1 hI1

/-- what every phase of `_from_dict` keeps: the abstraction is coherent, the live objects carry the attributes the
`add_*` functions set, and every entry-point tuple an attachment object (live or not) refers to has been allocated -/
structure FDInv (s : H) : Prop where
  inv : MS.Inv (abs s)
  heapset : HeapSet s
  epF : ∀ u, ∀ r ∈ (s.t u).entry_points, r < s.efresh

end MalVerif.PyM.Tie
