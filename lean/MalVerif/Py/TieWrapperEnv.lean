import MalVerif.Py.TieWrapperModelEnv
import MalVerif.Py.TieWrapperLangEnv
/-!
# The environment of the two heaps is the hand model's environment

`evalEnvOf_eq`: the record of GENERATED methods (`model` domain: `get_associated_assets_by_field_name`; `lang` domain:
`_get_attacks_for_asset_type`, `_get_variable_for_asset_type_by_name`, `get_asset_by_name`, `is_subasset_of`) that the
prelude hands to the translated `AttackGraph` methods equals `genEnvOf (langOf lg) (instOf m) …` — the record of hand
models (`Inst.neighbours`, `Lang.foldSteps`, `Lang.lookupVar`, `Lang.findAsset`, `Lang.isSub`) that every tie of the
core domain (C01, C02, C09, C11) is stated for.  The trusted assumption "these methods behave like the hand models"
of the core domain is thereby replaced, for graphs built by the wrapper, by the ties of the other domains.
-/
namespace MalVerif.PyW.Tie
open MalVerif MalVerif.PyW

theorem evalEnvOf_eq (w : WEnv) (lg : Py.LType.TH) (m : PyM.H) (hE : PyM.EqId w.menv) (hm : ModelOK m)
    (hl : LangOK lg) :
    evalEnvOf w lg m = Py.genEnvOf (langOf lg) (instOf m) (attackersOf m) w.evalFuel := by
  have h1 := fun o f => neighbours_env w lg m hE hm o f
  simp only [evalEnvOf] at h1
  simp only [evalEnvOf, Py.genEnvOf, Py.envOf, Py.EvalEnv.mk.injEq]
  refine ⟨?_, ?_, ?_, ?_, ?_, trivial, trivial, trivial, ?_, trivial, ?_, ?_⟩
  · funext o f; exact h1 o f
  · funext t v; exact variable_env lg hl t v
  · funext t; exact get_asset_by_name_env lg hl t
  · funext a b; exact is_subasset_of_env lg hl a b
  · show m.assets.length + 2 = ((instOf m).assets).length + 2
    unfold instOf; rw [List.length_map]
  · exact assets_env m
  · funext t; exact attacks_env lg hl t
  · funext o sn; exact getattr_env lg.spec m o sn

end MalVerif.PyW.Tie
