import MalVerif.Py.AbsEval
import MalVerif.Py.Gen.Eval
/-!
# Tie: translated `_process_step_expression`  =  `Model/Eval.lean`

The Python function recurses on sub-expressions *and* on variable definitions, with no bound; its translation
takes one `fuel` that is decremented by every call (out of fuel = `RecursionError`).  The hand-written model is
structurally recursive on the expression and has fuel only for variable expansion.  The tie: whenever the model
evaluates successfully, the translated function returns the same targets (as asset objects) and the same step
name, for every sufficiently large fuel.
-/
namespace MalVerif.Py.Tie
open MalVerif MalVerif.Py MalVerif.Py.Gen

/-! ### `Except` plumbing -/

theorem ok_bind {ε α β : Type} (x : α) (f : α → Except ε β) : ((Except.ok x : Except ε α) >>= f) = f x := rfl

theorem er_bind_ok {α β} (x : ER α) (f : α → ER β) (b : β) (h : (x >>= f) = .ok b) :
    ∃ a, x = .ok a ∧ f a = .ok b := by
  cases x with
  | error e => cases h
  | ok a => exact ⟨a, rfl, h⟩

theorem er_map_ok {α β} (x : ER α) (f : α → β) (b : β) (h : x.map f = .ok b) : ∃ a, x = .ok a ∧ f a = b := by
  cases x with
  | error e => cases h
  | ok a => cases h; exact ⟨a, rfl, rfl⟩

/-! ### asset objects: `objOf m` is injective, tests by `id` are tests on the ids -/

theorem objOf_id (m : Inst) (i : Int) : (objOf m i).id = i := rfl

theorem objOf_injective (m : Inst) (i j : Int) (h : objOf m i = objOf m j) : i = j := by
  have := congrArg PyAssetObj.id h
  exact this

theorem mem_map_objOf (m : Inst) (xs : List Int) (y : Int) : objOf m y ∈ xs.map (objOf m) ↔ y ∈ xs := by
  constructor
  · intro h
    obtain ⟨z, hz, e⟩ := List.mem_map.1 h
    rw [← objOf_injective m z y e]; exact hz
  · exact fun h => List.mem_map.2 ⟨y, h, rfl⟩

theorem find_isNone (m : Inst) (acc : List Int) (a : Int) :
    ((acc.map (objOf m)).find? (fun l => l.id == (objOf m a).id)).isNone = !acc.contains a := by
  induction acc with
  | nil => rfl
  | cons c acc ih =>
    rw [List.map_cons, List.find?_cons, List.contains_cons, objOf_id, objOf_id]
    by_cases h : c = a
    · subst h; simp
    · have h1 : (c == a) = false := by simpa using h
      have h2 : (a == c) = false := by simpa using fun e : a = c => h e.symm
      rw [h1, h2, Bool.false_or]; exact ih

theorem find_isSome (m : Inst) (acc : List Int) (a : Int) :
    ((acc.map (objOf m)).find? (fun l => l.id == (objOf m a).id)).isSome = acc.contains a := by
  have := find_isNone m acc a
  generalize ((acc.map (objOf m)).find? (fun l => l.id == (objOf m a).id)) = o at this ⊢
  cases o <;> cases h2 : acc.contains a <;> simp_all

/-! ### the loops of the translated code, as closed forms -/

abbrev M := Except PyErr

theorem map_snoc (m : Inst) (acc : List Int) (a : Int) :
    acc.map (objOf m) ++ [objOf m a] = (acc ++ [a]).map (objOf m) := by simp

/-- `union`: `for ag_node in rh_targets: if ag_node.id not in [l.id for l in new]: new.append(ag_node)` -/
theorem forIn_union (m : Inst) (f : PyAssetObj → List PyAssetObj → M (ForInStep (List PyAssetObj)))
    (hf : ∀ ag s, f ag s = if (s.find? (fun l => l.id == ag.id)).isNone = true then pure (.yield (s ++ [ag]))
      else pure (.yield s)) (bs acc new : List Int) :
    forIn (bs.map (objOf m)) (acc.map (objOf m)) f = .ok ((addNew acc new bs).1.map (objOf m)) := by
  induction bs generalizing acc new with
  | nil => rfl
  | cons b bs ih =>
    rw [List.map_cons, List.forIn_cons, hf, find_isNone, addNew]
    cases h : acc.contains b
    · simp only [Bool.not_false, if_true, Bool.false_eq_true, if_false, pure_bind, map_snoc]
      exact ih _ _
    · simp only [Bool.not_true, Bool.false_eq_true, if_false, if_true, pure_bind]
      exact ih _ _

/-- `intersection` -/
theorem forIn_inter (m : Inst) (as : List Int) (f : PyAssetObj → List PyAssetObj → M (ForInStep (List PyAssetObj)))
    (hf : ∀ ag s, f ag s = if ((as.map (objOf m)).find? (fun l => l.id == ag.id)).isSome = true then
      pure (.yield (s ++ [ag])) else pure (.yield s)) (bs acc : List Int) :
    forIn (bs.map (objOf m)) (acc.map (objOf m)) f =
      .ok ((acc ++ bs.filter (fun y => as.contains y)).map (objOf m)) := by
  induction bs generalizing acc with
  | nil => simp only [List.filter_nil, List.append_nil]; rfl
  | cons b bs ih =>
    rw [List.map_cons, List.forIn_cons, hf, find_isSome, List.filter_cons]
    cases h : as.contains b
    · simp only [Bool.false_eq_true, if_false, pure_bind]
      exact ih _
    · simp only [if_true, pure_bind, map_snoc]
      rw [ih]; simp

/-- `difference` -/
theorem forIn_diff (m : Inst) (bs : List Int) (f : PyAssetObj → List PyAssetObj → M (ForInStep (List PyAssetObj)))
    (hf : ∀ ag s, f ag s = if ((bs.map (objOf m)).find? (fun l => l.id == ag.id)).isNone = true then
      pure (.yield (s ++ [ag])) else pure (.yield s)) (as acc : List Int) :
    forIn (as.map (objOf m)) (acc.map (objOf m)) f =
      .ok ((acc ++ as.filter (fun y => !bs.contains y)).map (objOf m)) := by
  induction as generalizing acc with
  | nil => simp only [List.filter_nil, List.append_nil]; rfl
  | cons a as ih =>
    rw [List.map_cons, List.forIn_cons, hf, find_isNone, List.filter_cons]
    cases h : bs.contains a
    · simp only [Bool.not_false, if_true, pure_bind, map_snoc]
      rw [ih]; simp
    · simp only [Bool.not_true, Bool.false_eq_true, if_false, pure_bind]
      exact ih _

/-- `field`: `new_target_assets.extend(model.get_associated_assets_by_field_name(target_asset, name))` -/
theorem forIn_field (L : Lang) (m : Inst) (fld : String)
    (f : PyAssetObj → List PyAssetObj → M (ForInStep (List PyAssetObj)))
    (hf : ∀ t s, f t s = pure (.yield (s ++ (envOf L m).get_associated_assets_by_field_name t fld)))
    (xs acc : List Int) :
    forIn (xs.map (objOf m)) (acc.map (objOf m)) f =
      .ok ((acc ++ xs.flatMap (fun x => m.neighbours x fld)).map (objOf m)) := by
  induction xs generalizing acc with
  | nil => simp only [List.flatMap_nil, List.append_nil]; rfl
  | cons a as ih =>
    rw [List.map_cons, List.forIn_cons, hf]
    simp only [pure_bind, envOf, objOf_id, ← List.map_append]
    rw [ih]; simp

/-- the inner loop of `transitive`: new assets go to the result and to the next frontier -/
theorem forIn_addNew (m : Inst)
    (f : PyAssetObj → List PyAssetObj × List PyAssetObj → M (ForInStep (List PyAssetObj × List PyAssetObj)))
    (hf : ∀ ag s, f ag s = if (s.fst.find? (fun l => l.id == ag.id)).isNone = true then
      pure (.yield (s.fst ++ [ag], s.snd ++ [ag])) else pure (.yield (s.fst, s.snd))) (cs acc new : List Int) :
    forIn (cs.map (objOf m)) (acc.map (objOf m), new.map (objOf m)) f =
      .ok ((addNew acc new cs).1.map (objOf m), (addNew acc new cs).2.map (objOf m)) := by
  induction cs generalizing acc new with
  | nil => rfl
  | cons c cs ih =>
    rw [List.map_cons, List.forIn_cons, hf]
    simp only [find_isNone]
    rw [addNew]
    cases h : acc.contains c
    · simp only [Bool.not_false, if_true, Bool.false_eq_true, if_false, pure_bind, map_snoc]
      exact ih _ _
    · simp only [Bool.not_true, Bool.false_eq_true, if_false, if_true, pure_bind]
      exact ih _ _

/-- one iteration of the translated `while current_assets:` loop (`pf` = the recursive call on the operand) -/
def transBody (pf : List PyAssetObj → M (List PyAssetObj × Option String)) (_ : Nat)
    (s : List PyAssetObj × List PyAssetObj) : M (ForInStep (List PyAssetObj × List PyAssetObj)) :=
  if (!!s.snd.isEmpty) = true then pure (.done (s.fst, s.snd))
  else do
    let r ← pf s.snd
    let s' ← forIn r.fst (s.fst, []) fun asset s =>
      if (List.find? (fun seen => seen.id == asset.id) s.fst).isNone = true then
        pure (ForInStep.yield (s.fst ++ [asset], s.snd ++ [asset]))
      else pure (ForInStep.yield (s.fst, s.snd))
    pure (.yield (s'.fst, s'.snd))

/-- the bounded unrolling of `while` against `closure`: when `closure` (with fuel `k`, i.e. at most `k-1` rounds)
returns `res`, the loop over any list of at least `k-1` dummies returns `res` and an empty frontier -/
theorem forIn_closure (m : Inst) (g : List Int → ER (List Int))
    (pf : Nat → List PyAssetObj → M (List PyAssetObj × Option String))
    (hg : ∀ zs ws, g zs = .ok ws → ∃ N, ∀ fuel, N ≤ fuel →
      ∃ nm, pf fuel (zs.map (objOf m)) = .ok (ws.map (objOf m), nm)) :
    ∀ k fr acc res (l : List Nat), closure g k fr acc = .ok res → k ≤ l.length + 1 →
      ∃ N, ∀ fuel, N ≤ fuel →
        forIn l (acc.map (objOf m), fr.map (objOf m)) (transBody (pf fuel)) = .ok (res.map (objOf m), []) := by
  intro k
  induction k with
  | zero => intro fr acc res l h; cases h
  | succ k ih =>
    intro fr acc res l h hk
    rw [closure] at h
    cases fr with
    | nil =>
      simp only [List.isEmpty_nil, if_true] at h
      cases h
      refine ⟨0, fun fuel _ => ?_⟩
      cases l with
      | nil => rfl
      | cons a t => rw [List.forIn_cons]; rfl
    | cons z fr =>
      simp only [List.isEmpty_cons, Bool.false_eq_true, if_false] at h
      cases hgz : g (z :: fr) with
      | error e => rw [hgz] at h; cases h
      | ok nxt =>
        rw [hgz] at h
        simp only at h
        cases l with
        | nil =>
          have : k = 0 := by simpa using hk
          subst this; cases h
        | cons a t =>
          obtain ⟨N1, h1⟩ := hg _ _ hgz
          obtain ⟨N2, h2⟩ := ih _ _ res t h (by simpa using hk)
          refine ⟨max N1 N2, fun fuel hfuel => ?_⟩
          obtain ⟨nm, h1⟩ := h1 fuel (by omega)
          have h2 := h2 fuel (by omega)
          rw [List.forIn_cons]
          have hb : transBody (pf fuel) a (acc.map (objOf m), (z :: fr).map (objOf m)) =
              pure (.yield ((addNew acc [] nxt).1.map (objOf m), (addNew acc [] nxt).2.map (objOf m))) := by
            unfold transBody
            simp only [List.map_cons, List.isEmpty_cons, Bool.not_false, Bool.not_true, Bool.false_eq_true, if_false]
            rw [← List.map_cons, h1]
            simp only [ok_bind]
            have := forIn_addNew m _ (fun _ _ => rfl) nxt acc []
            rw [List.map_nil] at this
            rw [this]
            rfl
          rw [hb, pure_bind]
          exact h2

/-- `subType`, first loop: the operand is evaluated once per current target, on all targets -/
theorem forIn_const (m : Inst) (c : M (List PyAssetObj × Option String)) (r0 : List Int × Option String)
    (f : PyAssetObj → List PyAssetObj → M (ForInStep (List PyAssetObj)))
    (hf : ∀ t s, f t s = do let r ← c; pure (.yield (s ++ r.fst)))
    (xs acc : List Int) (hc : xs ≠ [] → ∃ nm, c = .ok (r0.1.map (objOf m), nm)) :
    forIn (xs.map (objOf m)) (acc.map (objOf m)) f =
      .ok ((acc ++ (xs.map (fun _ => r0)).flatMap (·.1)).map (objOf m)) := by
  induction xs generalizing acc with
  | nil => simp only [List.map_nil, List.flatMap_nil, List.append_nil]; rfl
  | cons a as ih =>
    obtain ⟨nm, hc'⟩ := hc (by simp)
    rw [List.map_cons, List.forIn_cons, hf, hc']
    simp only [ok_bind, pure_bind, ← List.map_append]
    rw [ih _ (fun _ => ⟨nm, hc'⟩)]; simp

theorem findAsset_name (L : Lang) (n : String) (a : AssetDecl) (h : L.findAsset n = some a) : a.name = n := by
  have := List.find?_some h
  simpa using this

/-- `subType`, second loop: the filter; no `LookupError` when the model's check passes -/
theorem forIn_subFilter (L : Lang) (m : Inst) (t : String)
    (f : PyAssetObj → List PyAssetObj → M (ForInStep (List PyAssetObj)))
    (hf : ∀ asset s, f asset s =
      match (envOf L m).get_asset_by_name asset.type with
      | some v => do
        let a7 ← pure v
        match (envOf L m).get_asset_by_name t with
          | some v => do
            let a8 ← pure v
            if (envOf L m).is_subasset_of a7 a8 = true then pure (ForInStep.yield (s ++ [asset]))
              else pure (ForInStep.yield s)
          | none => do
            let a8 ← throw PyErr.lookupError
            if (envOf L m).is_subasset_of a7 a8 = true then pure (ForInStep.yield (s ++ [asset]))
              else pure (ForInStep.yield s)
      | none => do
        let a7 ← throw PyErr.lookupError
        match (envOf L m).get_asset_by_name t with
          | some v => do
            let a8 ← pure v
            if (envOf L m).is_subasset_of a7 a8 = true then pure (ForInStep.yield (s ++ [asset]))
              else pure (ForInStep.yield s)
          | none => do
            let a8 ← throw PyErr.lookupError
            if (envOf L m).is_subasset_of a7 a8 = true then pure (ForInStep.yield (s ++ [asset]))
              else pure (ForInStep.yield s))
    (all acc : List Int) (h1 : ∀ y ∈ all, ((m.typeOf y).bind L.findAsset).isSome)
    (h2 : all ≠ [] → (L.findAsset t).isSome) :
    forIn (all.map (objOf m)) (acc.map (objOf m)) f =
      .ok ((acc ++ all.filter (fun y => match m.typeOf y with | some ty => L.isSub ty t | none => false)).map
        (objOf m)) := by
  induction all generalizing acc with
  | nil => simp only [List.filter_nil, List.append_nil]; rfl
  | cons y all ih =>
    have hy := h1 y List.mem_cons_self
    have ht := h2 (by simp)
    cases hty : m.typeOf y with
    | none => rw [hty] at hy; cases hy
    | some ty =>
      rw [hty] at hy
      simp only [Option.bind_some] at hy
      cases hfa : L.findAsset ty with
      | none => rw [hfa] at hy; cases hy
      | some a =>
        cases hft : L.findAsset t with
        | none => rw [hft] at ht; cases ht
        | some a' =>
          have e1 : (envOf L m).get_asset_by_name (objOf m y).type = some ty := by
            simp only [envOf, objOf, hty, Option.getD_some, hfa, Option.map_some, findAsset_name L ty a hfa]
          have e2 : (envOf L m).get_asset_by_name t = some t := by
            simp only [envOf, hft, Option.map_some, findAsset_name L t a' hft]
          rw [List.map_cons, List.forIn_cons, hf, e1, e2, List.filter_cons, hty]
          simp only [pure_bind]
          have e3 : (envOf L m).is_subasset_of ty t = L.isSub ty t := rfl
          rw [e3]
          by_cases hs : L.isSub ty t = true
          case neg =>
            rw [if_neg hs, if_neg hs, pure_bind]
            exact ih _ (fun z hz => h1 z (List.mem_cons_of_mem _ hz)) (fun _ => by rw [hft]; rfl)
          case pos =>
            rw [if_pos hs, if_pos hs, pure_bind, map_snoc]
            show forIn (List.map (objOf m) all) (List.map (objOf m) (acc ++ [y])) f = _
            rw [ih _ (fun z hz => h1 z (List.mem_cons_of_mem _ hz)) (fun _ => by rw [hft]; rfl)]
            simp

/-- evaluating the same computation once per element of `xs`: all results are the same -/
theorem mapM_const_ok' {α β} (c : ER β) (xs : List α) (rs : List β) (h : xs.mapM (fun _ => c) = .ok rs) :
    (xs = [] ∧ rs = []) ∨ (xs ≠ [] ∧ ∃ r, c = .ok r ∧ rs = xs.map (fun _ => r)) := by
  induction xs generalizing rs with
  | nil => left; simp only [List.mapM_nil] at h; cases h; exact ⟨rfl, rfl⟩
  | cons x xs ih =>
    right
    refine ⟨by simp, ?_⟩
    rw [List.mapM_cons] at h
    obtain ⟨r, hr, h⟩ := er_bind_ok _ _ _ h
    obtain ⟨rs', hrs', h⟩ := er_bind_ok _ _ _ h
    cases h
    refine ⟨r, hr, ?_⟩
    rcases ih rs' hrs' with ⟨e1, e2⟩ | ⟨_, r', hr', hq⟩
    · subst e1 e2; rfl
    · rw [hr] at hr'; cases hr'
      rw [hq]; rfl

/-! ### the evaluator, one layer -/

/-- `self` (the model's evaluation of variable definitions) is matched by the translated function on `d` -/
def Tied (L : Lang) (m : Inst) (self : Expr → List Int → ER (List Int × Option String)) (d : Expr) : Prop :=
  ∀ xs r, self d xs = .ok r → ∃ N, ∀ fuel, N ≤ fuel →
    _process_step_expression fuel (envOf L m) (xs.map (objOf m)) (exprOf d) = .ok (r.1.map (objOf m), r.2)

theorem succ_of_le {N fuel : Nat} (h : N + 1 ≤ fuel) : ∃ k, fuel = k + 1 ∧ N ≤ k :=
  ⟨fuel - 1, by omega, by omega⟩

theorem evalE_tie (L : Lang) (m : Inst) (self : Expr → List Int → ER (List Int × Option String))
    (hself : ∀ d, Tied L m self d) : ∀ e, Tied L m (evalE L m self) e := by
  intro e
  induction e with
  | step n =>
    intro xs r h
    simp only [evalE] at h; cases h
    refine ⟨1, fun fuel hf => ?_⟩
    obtain ⟨k, rfl, _⟩ := succ_of_le hf
    rw [_process_step_expression, exprOf]
    simp only [PyExpr.type, PyExpr.name, String.reduceBEq, if_true]
    rfl
  | field f =>
    intro xs r h
    simp only [evalE] at h; cases h
    refine ⟨1, fun fuel hf => ?_⟩
    obtain ⟨k, rfl, _⟩ := succ_of_le hf
    rw [_process_step_expression, exprOf]
    simp only [PyExpr.type, PyExpr.name, String.reduceBEq, Bool.false_eq_true, if_false, if_true, Bool.or_false]
    have := forIn_field L m f _ (fun _ _ => rfl) xs []
    rw [List.map_nil] at this
    rw [this]; rfl
  | var v =>
    intro xs r h
    cases xs with
    | nil =>
      simp only [evalE] at h; cases h
      refine ⟨1, fun fuel hf => ?_⟩
      obtain ⟨k, rfl, _⟩ := succ_of_le hf
      rw [_process_step_expression, exprOf]
      simp only [PyExpr.type, PyExpr.name, String.reduceBEq, Bool.false_eq_true, if_false, if_true, Bool.or_false]
      rfl
    | cons x rest =>
      simp only [evalE] at h
      split at h
      · cases h
      · rename_i d hd
        split at h
        · obtain ⟨N, hN⟩ := hself d _ _ h
          refine ⟨N + 1, fun fuel hf => ?_⟩
          obtain ⟨k, rfl, hk⟩ := succ_of_le hf
          have hN := hN k hk
          cases hty : m.typeOf x with
          | none => rw [hty] at hd; cases hd
          | some ty =>
            rw [hty] at hd
            simp only [Option.bind_some] at hd
            have e1 : (envOf L m)._get_variable_for_asset_type_by_name (objOf m x).type v = .ok (exprOf d) := by
              simp only [envOf, objOf, hty, Option.getD_some, hd]
            rw [_process_step_expression, exprOf]
            simp only [PyExpr.type, PyExpr.name, String.reduceBEq, Bool.false_eq_true, if_false, if_true,
              Bool.or_false]
            rw [List.map_cons, List.forIn_cons, e1, ← List.map_cons]
            simp only [ok_bind]
            rw [hN]
            rfl
        · cases h
  | collect l r' ihl ihr =>
    intro xs r h
    simp only [evalE] at h
    obtain ⟨a, ha, h⟩ := er_bind_ok _ _ _ h
    obtain ⟨N1, h1⟩ := ihl _ _ ha
    obtain ⟨N2, h2⟩ := ihr _ _ h
    refine ⟨max N1 N2 + 1, fun fuel hf => ?_⟩
    obtain ⟨k, rfl, hk⟩ := succ_of_le hf
    rw [_process_step_expression, exprOf]
    simp only [PyExpr.type, PyExpr.lhs, PyExpr.rhs, Option.getD_some, String.reduceBEq, Bool.false_eq_true,
      if_false, if_true, Bool.or_false]
    rw [h1 k (by omega)]
    simp only [ok_bind]
    exact h2 k (by omega)
  | union l r' ihl ihr =>
    intro xs r h
    simp only [evalE] at h
    obtain ⟨a, ha, h⟩ := er_bind_ok _ _ _ h
    obtain ⟨b, hb, h⟩ := er_bind_ok _ _ _ h
    cases h
    obtain ⟨N1, h1⟩ := ihl _ _ ha
    obtain ⟨N2, h2⟩ := ihr _ _ hb
    refine ⟨max N1 N2 + 1, fun fuel hf => ?_⟩
    obtain ⟨k, rfl, hk⟩ := succ_of_le hf
    rw [_process_step_expression, exprOf]
    simp only [PyExpr.type, PyExpr.lhs, PyExpr.rhs, Option.getD_some, String.reduceBEq, Bool.false_eq_true,
      if_false, if_true, Bool.or_false]
    rw [h1 k (by omega), h2 k (by omega)]
    simp only [ok_bind]
    rw [forIn_union m _ (fun _ _ => rfl) b.1 a.1 []]
    rfl
  | inter l r' ihl ihr =>
    intro xs r h
    simp only [evalE] at h
    obtain ⟨a, ha, h⟩ := er_bind_ok _ _ _ h
    obtain ⟨b, hb, h⟩ := er_bind_ok _ _ _ h
    cases h
    obtain ⟨N1, h1⟩ := ihl _ _ ha
    obtain ⟨N2, h2⟩ := ihr _ _ hb
    refine ⟨max N1 N2 + 1, fun fuel hf => ?_⟩
    obtain ⟨k, rfl, hk⟩ := succ_of_le hf
    rw [_process_step_expression, exprOf]
    simp only [PyExpr.type, PyExpr.lhs, PyExpr.rhs, Option.getD_some, String.reduceBEq, Bool.false_eq_true,
      if_false, if_true, Bool.or_false, Bool.or_true]
    rw [h1 k (by omega), h2 k (by omega)]
    simp only [ok_bind]
    have := forIn_inter m a.1 _ (fun _ _ => rfl) b.1 []
    rw [List.map_nil] at this
    rw [this]
    rfl
  | diff l r' ihl ihr =>
    intro xs r h
    simp only [evalE] at h
    obtain ⟨a, ha, h⟩ := er_bind_ok _ _ _ h
    obtain ⟨b, hb, h⟩ := er_bind_ok _ _ _ h
    cases h
    obtain ⟨N1, h1⟩ := ihl _ _ ha
    obtain ⟨N2, h2⟩ := ihr _ _ hb
    refine ⟨max N1 N2 + 1, fun fuel hf => ?_⟩
    obtain ⟨k, rfl, hk⟩ := succ_of_le hf
    rw [_process_step_expression, exprOf]
    simp only [PyExpr.type, PyExpr.lhs, PyExpr.rhs, Option.getD_some, String.reduceBEq, Bool.false_eq_true,
      if_false, if_true, Bool.or_false, Bool.or_true]
    rw [h1 k (by omega), h2 k (by omega)]
    simp only [ok_bind]
    have := forIn_diff m b.1 _ (fun _ _ => rfl) a.1 []
    rw [List.map_nil] at this
    rw [this]
    rfl
  | trans e ih =>
    intro xs r h
    simp only [evalE] at h
    obtain ⟨res, hres, h⟩ := er_bind_ok _ _ _ h
    cases h
    obtain ⟨N, hN⟩ := forIn_closure m (fun zs => (evalE L m self e zs).map (·.1))
      (fun fuel ts => _process_step_expression fuel (envOf L m) ts (exprOf e)) (by
        intro zs ws hg
        obtain ⟨r', hr', e'⟩ := er_map_ok _ _ _ hg
        subst e'
        obtain ⟨N, hN⟩ := ih _ _ hr'
        exact ⟨N, fun fuel hf => ⟨r'.2, hN fuel hf⟩⟩)
      (m.assets.length + 2) xs [] res (List.range (m.assets.length + 2)) hres (by simp)
    refine ⟨N + 1, fun fuel hf => ?_⟩
    obtain ⟨k, rfl, hk⟩ := succ_of_le hf
    have hN := hN k hk
    rw [_process_step_expression, exprOf]
    simp only [PyExpr.type, PyExpr.stepExpression, Option.getD_some, String.reduceBEq, Bool.false_eq_true,
      if_false, if_true, Bool.or_false]
    have hw : (envOf L m).whileFuel = m.assets.length + 2 := rfl
    rw [hw]
    rw [List.map_nil] at hN
    have hN' : (forIn (List.range (m.assets.length + 2)) ([], xs.map (objOf m)) fun x __s =>
        transBody (fun ts => _process_step_expression k (envOf L m) ts (exprOf e)) x __s) =
        .ok (res.map (objOf m), []) := hN
    unfold transBody at hN'
    rw [hN']
    rfl
  | sub t e ih =>
    intro xs r h
    simp only [evalE] at h
    obtain ⟨rs, hrs, h⟩ := er_bind_ok _ _ _ h
    split at h
    case isFalse => cases h
    rename_i hchk
    cases h
    simp only [Bool.and_eq_true, Bool.or_eq_true, List.all_eq_true, List.isEmpty_iff] at hchk
    have hchk2 : rs.flatMap (·.1) ≠ [] → (L.findAsset t).isSome := by
      intro hne; rcases hchk.2 with h | h; exact h; exact absurd h hne
    have main : ∀ r0 : List Int × Option String, rs = xs.map (fun _ => r0) →
        (xs ≠ [] → ∃ N, ∀ fuel, N ≤ fuel → _process_step_expression fuel (envOf L m) (xs.map (objOf m)) (exprOf e)
          = .ok (r0.1.map (objOf m), r0.2)) →
        ∃ N, ∀ fuel, N ≤ fuel →
          _process_step_expression fuel (envOf L m) (xs.map (objOf m)) (exprOf (.sub t e)) =
            .ok (((rs.flatMap (·.1)).filter
              (fun y => match m.typeOf y with | some ty => L.isSub ty t | none => false)).map (objOf m), none) := by
      intro r0 hrs0 hc
      have hN : ∃ N, xs ≠ [] → ∀ fuel, N ≤ fuel →
          _process_step_expression fuel (envOf L m) (xs.map (objOf m)) (exprOf e)
            = .ok (r0.1.map (objOf m), r0.2) := by
        by_cases hx : xs = []
        · exact ⟨0, fun h => absurd hx h⟩
        · obtain ⟨N, hN⟩ := hc hx; exact ⟨N, fun _ => hN⟩
      obtain ⟨N, hN⟩ := hN
      refine ⟨N + 1, fun fuel hf => ?_⟩
      obtain ⟨k, rfl, hk⟩ := succ_of_le hf
      rw [_process_step_expression, exprOf]
      simp only [PyExpr.type, PyExpr.stepExpression, PyExpr.subType, Option.getD_some, String.reduceBEq,
        Bool.false_eq_true, if_false, if_true, Bool.or_false]
      have l1 := forIn_const m (_process_step_expression k (envOf L m) (xs.map (objOf m)) (exprOf e)) r0 _
        (fun _ _ => rfl) xs [] (fun hx => ⟨r0.2, hN hx k hk⟩)
      rw [List.map_nil, List.nil_append, ← hrs0] at l1
      rw [l1]
      simp only [ok_bind]
      have l2 := forIn_subFilter L m t _ (fun _ _ => rfl) (rs.flatMap (·.1)) [] hchk.1 hchk2
      rw [List.map_nil, List.nil_append] at l2
      erw [l2]
      rfl
    rcases mapM_const_ok' _ _ _ hrs with ⟨e1, e2⟩ | ⟨hne, r0, hr0, hq⟩
    · exact main ([], none) (by rw [e1, e2]; rfl) (fun h => absurd e1 h)
    · exact main r0 hq (fun _ => ih _ _ hr0)

/-- **the translated evaluator computes what the model computes**.  No hypothesis on the model is needed: a
source without a type makes the hand evaluation of a variable fail, an untyped result makes its subtype filter
fail (so neither "every source has a type" nor "every neighbour has a type" has to be assumed). -/
theorem eval_tie (L : Lang) (m : Inst) (vf : Nat) (e : Expr) (xs : List Int) (r : List Int × Option String)
    (h : evalF L m vf e xs = .ok r) :
    ∃ N, ∀ fuel, N ≤ fuel →
      _process_step_expression fuel (envOf L m) (xs.map (objOf m)) (exprOf e) = .ok (r.1.map (objOf m), r.2) := by
  have key : ∀ vf e, Tied L m (evalF L m vf) e := by
    intro vf
    induction vf with
    | zero => intro e xs r h; cases h
    | succ vf ih => intro e; exact evalE_tie L m (evalF L m vf) ih e
  exact key vf e xs r h

end MalVerif.Py.Tie
