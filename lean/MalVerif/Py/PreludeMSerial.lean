import MalVerif.Py.AbsModel
import MalVerif.Model.Serial
import MalVerif.Py.PyInt
/-!
# Prelude of the translated instance-model serialisation (`translators/py2lean_mserial.py`) — C07

Additions to `MalVerif/Py/PreludeModel.lean` (heap `H`, `ModelEnv`) for `Model.get_asset_defenses`,
`asset_to_dict`, `association_to_dict`, `attacker_to_dict`, `_to_dict` and the classmethod `_from_dict`.
Every definition is a *convention* (trusted): it says what a Python value / library call is in the generated Lean.

* **Documents.**  A dictionary with a *fixed* set of string keys (`contents`, one asset / attacker / entry-point
  dictionary, `metadata`) is a record whose fields are `Option`s (`none` = the key is absent): `d['k']` is `recGetE`
  (`KeyError`), `'k' in d` is `.isSome`, `d.get('k', x)` is `.getD x`, `d['k'] = v` a record update.  The order of
  these keys and keys that `_from_dict` never looks at are not represented.  A dictionary with *computed* keys
  (assets / attackers / entry points by id, defenses by name, an association entry, the fields of an association)
  is an association list in insertion order with Python's "replace in place or append" update (`dictSet` of
  `PreludeModel`); ids are `Ser.Key` (an `int` as `_to_dict` writes it, a `str` after a JSON file).
  Where the file may hold values of two Python types the value is a sum (`PyAssetV`, `PyAssocV`, `PyTargets`).
  `extras` stay canonical JSON text, a `float` is its canonical text (as everywhere in the `model` domain).
  Values of any other Python type (a name that is a number, …) are not representable: the theorems are about
  documents of this shape only.
* **python_jsonschema_objects.**  The class constructors and `setattr` on the generated classes are library code:
  `pjsNewAsset`, `pjsNewAssoc`, `pjsSetDefense`, `pjsSetField` state their assumed behaviour (the same assumptions
  as `MS.addAsset` / `MS.addAssociation` of the hand-written model make: class lookup, range check of a defense
  value, member type and `maxItems` check of an association field).  Allocation is `newAssetObj` / `newAssocObj` /
  `newAttObj` of `AbsModel.lean`.
* **Typed heap.**  Where Python stores `None` in a place that the heap types as an object (`(None, steps)` as an
  entry point when `get_asset_by_id` finds nothing) the generated code stops with `PyErr.other` — *Python does
  not raise there* (it builds a broken attachment and fails later, in `_to_dict`); see `objOrOther`.
-/
namespace MalVerif.PyM
open MalVerif
open MalVerif.Ser (Key)

/-- parameters of the translation: those of the `model` domain, the language the classes factory was built
from, the pjs range check of a `number` with `minimum 0, maximum 1` on a float text, and three strings -/
structure SEnv where
  model : ModelEnv
  lang : Lang
  floatOk : String → Bool
  lang_version : String := ""       -- `lang_graph.metadata['version']`
  lang_id : String := ""            -- `lang_graph.metadata['id']`
  toolbox_version : String := ""    -- `maltoolbox.__version__`

/-! ### documents -/

/-- the dictionary of one asset -/
structure PyAssetD where
  name : Option String := none
  type : Option String := none
  defenses : Option (List (String × String)) := none      -- `{defense name: float}`
  extras : Option String := none
  deriving Repr, DecidableEq, Inhabited

/-- the value under an asset id: a dictionary, or the type-only shorthand (a `str`) -/
inductive PyAssetV
  | dict (d : PyAssetD)
  | str (t : String)
  deriving Repr, DecidableEq, Inhabited

/-- the members of one association field: a list of ids, or a single id (`targets if isinstance(targets, list)
else [targets]`) -/
inductive PyTargets
  | list (l : List Key)
  | one (k : Key)
  deriving Repr, DecidableEq, Inhabited

/-- a value of an association entry: the dictionary of the two fields (under the type name) or the `extras` -/
inductive PyAssocV
  | fields (d : List (String × PyTargets))
  | json (t : String)
  deriving Repr, DecidableEq, Inhabited

abbrev PyAssocD := List (String × PyAssocV)

/-- `{'attack_steps': [...]}` -/
structure PyEpD where
  attack_steps : Option (List String) := none
  deriving Repr, DecidableEq, Inhabited

structure PyAttD where
  name : Option String := none
  entry_points : Option (List (Key × PyEpD)) := none
  deriving Repr, DecidableEq, Inhabited

/-- `metadata`.  NB `_to_dict` writes the key `MAL-Toolbox Version`, `_from_dict` reads `MAL Toolbox Version` -/
structure PyMeta where
  name : Option String := none
  langVersion : Option String := none
  langID : Option String := none
  malVersion : Option String := none
  MAL_Toolbox_Version_hyphen : Option String := none
  MAL_Toolbox_Version_space : Option String := none
  info : Option String := none
  deriving Repr, DecidableEq, Inhabited

structure PyDoc where
  metadata : Option PyMeta := none
  assets : Option (List (Key × PyAssetV)) := none
  associations : Option (List PyAssocD) := none
  attackers : Option (List (Key × PyAttD)) := none
  deriving Repr, DecidableEq, Inhabited

/-- `d['k']` on a record-like dictionary: `KeyError` when the key is absent -/
def recGetE {α} (x : Option α) : Except PyErr α := match x with | some v => .ok v | none => .error .keyError

/-- a dict display `{k1: v1, k2: v2}`: later equal keys replace earlier ones -/
def dictOfList {κ ν} [BEq κ] (l : List (κ × ν)) : List (κ × ν) := l.foldl (fun d e => dictSet d e.1 e.2) []

/-- `k in d` -/
def dictHas {κ ν} [BEq κ] (d : List (κ × ν)) (k : κ) : Bool := d.any (fun e => e.1 == k)

/-- `l[0]`: `IndexError` on the empty list -/
def pyIndex0 {α} (l : List α) : Except PyErr α := match l with | x :: _ => .ok x | [] => .error .other

/-- truthiness of an `extras` value kept as canonical JSON text: only `{}` is falsy -/
def jsonTruthy (t : String) : Bool := t != "{}"

/-- `str(x)` for an `Optional[str]` -/
def pyStrOptStr (x : Option String) : String := match x with | some v => v | none => "None"

/-- a dictionary key made from an `Optional[int]` id (`None` only for an attachment that was never added) -/
def keyOfOptInt (x : Option Int) : Key := match x with | some i => .i i | none => .s "None"

/-- the error of `int(key)` on a key `Key.toInt?` does not read: CPython's `int` strips white space, accepts a leading `+`
and Unicode digits (`int(" 1")`, `int("+1")`, `int("٥")` succeed) — such a text (`pyIntLenient`, `Py/PyInt.lean`) is **not
modelled** (`PyErr.other`: Python may well load the file); any other text is a `ValueError`, as in Python -/
def keyIntErr : Key → PyErr
  | .s t => if pyIntLenient t then .other else .valueError
  | .i _ => .valueError
/-- `int(key)`: the number `Key.toInt?` reads (an `int`; ASCII digits with an optional `-`), as Python; otherwise
`keyIntErr` (`ValueError`, or not modelled) -/
def keyInt (k : Key) : Except PyErr Int := match k.toInt? with | some i => .ok i | none => .error (keyIntErr k)

@[simp] theorem keyInt_of_toInt {k : Key} {i : Int} (h : k.toInt? = some i) : keyInt k = .ok i := by simp [keyInt, h]
theorem keyInt_none_plain {k : Key} (h : k.toInt? = none) (hp : PyInt.keyPlain k = true) : keyInt k = .error .valueError := by
  cases k with
  | i n => simp [Key.toInt?] at h
  | s t =>
    simp only [Key.toInt?] at h
    have hl : pyIntLenient t = false := by simpa [PyInt.keyPlain, h] using hp
    simp [keyInt, Key.toInt?, h, keyIntErr, hl]

/-- a list of `int` stored as the members of an association field -/
def targetsOfInts (l : List Int) : PyTargets := .list (l.map Key.i)

/-- the value under the type key of an association entry is used as a dictionary (`.items()`): anything else is
an `AttributeError` in Python -/
def assocFieldsOf (v : PyAssocV) : Except PyErr (List (String × PyTargets)) :=
  match v with | .fields d => .ok d | .json _ => .error .attributeError

/-- the value under `extras` of an association entry, stored into `association.extras` without a check; the
fields dictionary in that place is not representable in the typed heap -/
def assocJsonOf (v : PyAssocV) : Except PyErr String :=
  match v with | .json t => .ok t | .fields _ => .error .other

/-- Python stores `None` where the heap has an object reference: not representable; the translation stops with
`PyErr.other` (Python continues) -/
def objOrOther (x : Option Nat) : Except PyErr Nat := match x with | some r => .ok r | none => .error .other

/-! ### the `Model` object -/

/-- `Model(name, lang_classes_factory, mt_version)`: a new model object (no assets, associations, attackers;
`next_id` is the class attribute `0`) in the same object stores -/
def H.newModel (s : H) (name : String) : H :=
  { s with name := name, assets := [], associations := [], _type_to_association := [], attackers := [],
           asset_ids := [], asset_names := [], next_id := 0 }

/-! ### python_jsonschema_objects (assumed behaviour of the library) -/

/-- a pjs literal held by a property: its value and `value.default()` (the `default` of the property's schema) -/
structure PjsLit where
  val : String
  dflt : String
  deriving Repr, DecidableEq, Inhabited

/-- one entry of `json_schema[…][type]['properties']`: which keys it has -/
structure PropSchema where
  has_maximum : Bool
  deriving Repr, DecidableEq, Inhabited

/-- `asset._properties.items()`: `id`, `type`, then every defense of the asset's class *in schema order*, holding
the value that was assigned to it, or the schema default when none was (`PyAsset.defenses` lists the assigned
values) -/
def assetProperties (env : SEnv) (s : H) (a : ARef) : List (String × PjsLit) :=
  [("id", ⟨toString (attrInt (s.a a).id), ""⟩), ("type", ⟨(s.a a).type, (s.a a).type⟩)] ++
  (MS.defensesOf env.lang (s.a a).type).map (fun d => (d.1, ⟨dictGetD (s.a a).defenses d.1 d.2, d.2⟩))

/-- `json_schema['definitions']['LanguageAsset']['definitions'][type]['properties'][key]` (`KeyError` if absent);
only the defenses have a `maximum` -/
def schemaProperty (env : SEnv) (type : String) (key : String) : Except PyErr PropSchema :=
  if key == "id" || key == "type" then .ok ⟨false⟩
  else if (MS.defensesOf env.lang type).any (fun d => d.1 == key) then .ok ⟨true⟩ else .error .keyError

/-- `getattr(factory.ns, type)(name = nm)`: `AttributeError` (abstracted as the hand model's lookup error) when the
language has no such asset; otherwise a new object with `name` and `type` set and nothing else -/
def pjsNewAsset (env : SEnv) (s : H) (type : String) (nm : String) : Except PyErr (H × ARef) :=
  if (env.lang.findAsset type).isNone then .error .lookupError
  else .ok (newAssetObj s { name := some nm, type := type }, s.afresh)

/-- `setattr(asset, defense, float(v))`: the range check of a declared defense; an undeclared name becomes an
"extended property" that nothing reads (the heap is unchanged) -/
def pjsSetDefense (env : SEnv) (s : H) (a : ARef) (d : String) (v : String) : Except PyErr H :=
  if !((MS.defensesOf env.lang (s.a a).type).any (fun e => e.1 == d)) then .ok s
  else if !(env.floatOk v) then .error .other
  else .ok (s.setA a { s.a a with defenses := dictSet (s.a a).defenses d v })

/-- `getattr(factory.ns, cls)()`: a new association object of the generated class of that name (the first one when
several classes share the name); its two fields are unset (`[]` stands for `None`) -/
def pjsNewAssoc (env : SEnv) (s : H) (cls : String) : Except PyErr (H × LRef) :=
  match (MS.assocClasses env.lang).find? (fun c => c.cls == cls) with
  | none => .error .lookupError
  | some c =>
    if h : c.lf ≠ c.rf then .ok (newAssocObj s { cls := cls, lf := c.lf, rf := c.rf, distinct := h }, s.lfresh)
    else .error .other

/-- `setattr(association, field, [asset, …])`: pjs validates the new value of a declared field — every member an
object (`None`, for an id that was not found, is rejected) of the declared class or a subclass, at most `maxItems`
members.  An undeclared field name becomes an extended property; the declared field then stays `None` and
`add_association` fails: the translation stops here (`PyErr.other`) -/
def pjsSetField (env : SEnv) (s : H) (l : LRef) (field : String) (members : List (Option ARef)) : Except PyErr H :=
  match (MS.assocClasses env.lang).find? (fun c => c.cls == (s.l l).cls) with
  | none => .error .other
  | some c =>
    match members.mapM id with
    | none => .error .other
    | some ms =>
      if field == (s.l l).lf then
        if ms.all (fun a => MS.okMember env.lang c.ltype (s.a a).type) && MS.okCount c.lmax ms.length
        then .ok (s.setL l { s.l l with left := ms }) else .error .other
      else if field == (s.l l).rf then
        if ms.all (fun a => MS.okMember env.lang c.rtype (s.a a).type) && MS.okCount c.rmax ms.length
        then .ok (s.setL l { s.l l with right := ms }) else .error .other
      else .error .other

/-- `AttackerAttachment(name = nm)`: a new attachment without id and entry points -/
def newAttachment (s : H) (nm : String) : H × TRef := (newAttObj s { name := some nm }, s.tfresh)

end MalVerif.PyM
