import MalVerif.Py.TieLangTypeSpec
/-!
# Tie of `_get_associations_for_asset_type`, and the specification heap loaded from a language value

* TASK A: the translated `LanguageGraph._get_associations_for_asset_type` (`Py/GenLangType/Build.lean`) is the hand
  model's `LG.declaredFor` (`Model/LangGraph.lean`): `get_associations_tie`, `get_associations_declaredFor`,
  `get_associations_error`, `get_associations_congr`.
* TASK B: `loadPy L` (`Py/AbsLang.lean`) represents `L` and satisfies `SpecOK`: `absLang_loadPy`, `specOK_loadPy`.
-/
namespace MalVerif.Py.TieLangType
open MalVerif MalVerif.Py MalVerif.Py.LSpec MalVerif.Py.LType MalVerif.Py.GenLangType MalVerif.LG

/-! ## TASK A -/

/-- the translated function as a recursion on the specification heap alone -/
def assocsPy (s : LS) : Nat → String → Except PyErr (List PyAssocD)
  | 0, _ => .error .recursionError
  | f + 1, t =>
    match s.assets.find? (fun a => a.name == t) with
    | none => .ok []
    | some a =>
      match pyTruthyStr a.superAsset with
      | some p =>
        match assocsPy s f p with
        | .ok up => .ok (up ++ s.associations.filter (fun d => d.leftAsset == t || d.rightAsset == t))
        | .error e => .error e
      | none => .ok (s.associations.filter (fun d => d.leftAsset == t || d.rightAsset == t))

/-- one round of the `while assoc:` loop; the state is `(associations, assoc_iter, assoc)` -/
def nextBody (_x : Nat) (st : List PyAssocD × List PyAssocD × Option PyAssocD) :
    Except PyErr (ForInStep (List PyAssocD × List PyAssocD × Option PyAssocD)) :=
  match st.2.2 with
  | some a => pure (ForInStep.yield (st.1 ++ [a], (pyNextOr st.2.1).2, (pyNextOr st.2.1).1))
  | _ => pure (ForInStep.done (st.1, st.2.1, st.2.2))

/-- the `while` loop: consuming a generator `g` with `next(g, None)` appends all of `g` and ends with `None` -/
theorem next_loop (g : List PyAssocD) : ∀ (l : List Nat) (acc : List PyAssocD), g.length ≤ l.length →
    forIn l (acc, (pyNextOr g).2, (pyNextOr g).1) nextBody = .ok (acc ++ g, [], none) := by
  induction g with
  | nil =>
    intro l acc _
    cases l with
    | nil => simp [pyNextOr, pure, Except.pure]
    | cons x l => simp [pyNextOr, nextBody, pure, Except.pure, bind, Except.bind]
  | cons a g ih =>
    intro l acc h
    cases l with
    | nil => simp at h
    | cons x l =>
      have := ih l (acc ++ [a]) (by simpa using h)
      simp only [List.forIn_cons, pyNextOr, nextBody, pure, Except.pure, bind, Except.bind]
      simp only [pyNextOr] at this
      rw [this]; simp

theorem filter_le_whileFuel (s : TH) (p : PyAssocD → Bool) :
    (s.spec.associations.filter p).length ≤ (List.range (pyWhileFuelT s)).length := by
  have := List.length_filter_le p s.spec.associations
  simp only [List.length_range, pyWhileFuelT]; omega

theorem whileFuel_ge (s : TH) : s.spec.associations.length + 1 ≤ pyWhileFuelT s := by
  unfold pyWhileFuelT; omega

theorem get_associations_eq (s : TH) : ∀ (fuel : Nat) (t : String),
    lg__get_associations_for_asset_type fuel s t = assocsPy s.spec fuel t := by
  intro fuel
  induction fuel with
  | zero => intro t; rfl
  | succ f ih =>
    intro t
    unfold lg__get_associations_for_asset_type assocsPy
    simp only []
    cases hfa : s.spec.assets.find? (fun a => a.name == t) with
    | none => rfl
    | some a =>
      simp only []
      cases hp : pyTruthyStr a.superAsset with
      | none =>
        simp only []
        have := next_loop (s.spec.associations.filter (fun d => d.leftAsset == t || d.rightAsset == t))
          (List.range (pyWhileFuelT s)) [] (filter_le_whileFuel s _)
        unfold nextBody at this
        simp only [bind, Except.bind, pure, Except.pure] at this ⊢
        erw [this]; simp
      | some p =>
        simp only []
        rw [ih p]
        cases hup : assocsPy s.spec f p with
        | error e => rfl
        | ok up =>
          have := next_loop (s.spec.associations.filter (fun d => d.leftAsset == t || d.rightAsset == t))
            (List.range (pyWhileFuelT s)) ([] ++ up) (filter_le_whileFuel s _)
          unfold nextBody at this
          simp only [bind, Except.bind, pure, Except.pure] at this ⊢
          erw [this]; simp

theorem absLang_assocs (s : LS) : (absLang s).assocs = s.associations.map absAssoc := rfl

/-- the filter of the translated generator expression is the hand model's filter, through `absAssoc` -/
theorem filter_abs (s : LS) (t : String) :
    (s.associations.filter (fun d => d.leftAsset == t || d.rightAsset == t)).map absAssoc =
      (absLang s).assocs.filter (fun d => d.leftAsset = t || d.rightAsset = t) := by
  rw [absLang_assocs, List.filter_map]
  congr 1

theorem find_name {s : LS} {t : String} {a : PyAssetD} (h : s.assets.find? (fun a => a.name == t) = some a) :
    a.name = t := by
  have := List.find?_some h
  simpa using this

/-- **tie of the recursion**: without an `extends` cycle above the type (within the fuel) the answer is, through
`absAssoc`, the declarations of the ancestors from the root down, and every element is a declaration of the heap -/
theorem assocsPy_tie (s : LS) : ∀ (fuel : Nat) (t : String), (absLang s).chainOK fuel t = true →
    ∃ l, assocsPy s fuel t = .ok l ∧
      l.map absAssoc = ((absLang s).chain fuel t).reverse.flatMap
        (fun a => (absLang s).assocs.filter (fun d => d.leftAsset = a.name || d.rightAsset = a.name)) ∧
      ∀ d ∈ l, d ∈ s.associations := by
  intro fuel
  induction fuel with
  | zero => intro t h; simp [Lang.chainOK] at h
  | succ f ih =>
    intro t h
    unfold Lang.chainOK at h
    rw [TieLang.absLang_findAsset] at h
    unfold assocsPy Lang.chain
    rw [TieLang.absLang_findAsset]
    cases hfa : s.assets.find? (fun a => a.name == t) with
    | none => exact ⟨[], rfl, rfl, by simp⟩
    | some a =>
      simp only [hfa, Option.map_some] at h ⊢
      have hsup : (readAsset (absStore s) (absAsset s a)).superAsset = pyTruthyStr a.superAsset := rfl
      have hname : (readAsset (absStore s) (absAsset s a)).name = t := find_name hfa
      rw [hsup] at h ⊢
      cases hp : pyTruthyStr a.superAsset with
      | none =>
        refine ⟨_, rfl, ?_, fun d hd => (List.mem_filter.1 hd).1⟩
        simp only [List.reverse_cons, List.reverse_nil, List.nil_append, List.flatMap_cons, List.flatMap_nil,
          List.append_nil, hname]
        exact filter_abs s t
      | some p =>
        simp only [hp] at h ⊢
        obtain ⟨up, e1, r1, m1⟩ := ih p h
        rw [e1]
        refine ⟨_, rfl, ?_, ?_⟩
        · simp only [List.reverse_cons, List.flatMap_append, List.flatMap_cons, List.flatMap_nil,
            List.append_nil, hname, List.map_append, r1, filter_abs]
        · intro d hd
          rcases List.mem_append.1 hd with hd | hd
          · exact m1 d hd
          · exact (List.mem_filter.1 hd).1

/-- raising direction: an `extends` cycle (the walk does not end within the fuel) is a `RecursionError` -/
theorem assocsPy_error (s : LS) : ∀ (fuel : Nat) (t : String), (absLang s).chainOK fuel t = false →
    assocsPy s fuel t = .error .recursionError := by
  intro fuel
  induction fuel with
  | zero => intro t _; rfl
  | succ f ih =>
    intro t h
    unfold Lang.chainOK at h
    rw [TieLang.absLang_findAsset] at h
    unfold assocsPy
    cases hfa : s.assets.find? (fun a => a.name == t) with
    | none => simp [hfa] at h
    | some a =>
      simp only [hfa, Option.map_some] at h ⊢
      have hsup : (readAsset (absStore s) (absAsset s a)).superAsset = pyTruthyStr a.superAsset := rfl
      rw [hsup] at h
      cases hp : pyTruthyStr a.superAsset with
      | none => simp [hp] at h
      | some p =>
        simp only [hp] at h ⊢
        rw [ih p h]

/-- **tie of `_get_associations_for_asset_type`** -/
theorem get_associations_tie (s : TH) (t : String) (fuel : Nat)
    (hok : (absLang s.spec).chainOK fuel t = true) :
    ∃ l, lg__get_associations_for_asset_type fuel s t = .ok l ∧
      l.map absAssoc = ((absLang s.spec).chain fuel t).reverse.flatMap
        (fun a => (absLang s.spec).assocs.filter (fun d => d.leftAsset = a.name || d.rightAsset = a.name)) ∧
      ∀ d ∈ l, d ∈ s.spec.associations := by
  rw [get_associations_eq]
  exact assocsPy_tie s.spec fuel t hok

theorem get_associations_error (s : TH) (t : String) (fuel : Nat)
    (hok : (absLang s.spec).chainOK fuel t = false) :
    lg__get_associations_for_asset_type fuel s t = .error .recursionError := by
  rw [get_associations_eq]
  exact assocsPy_error s.spec fuel t hok

/-- the function reads the specification heap only -/
theorem get_associations_congr (s s' : TH) (h : s.spec = s'.spec) (fuel : Nat) (t : String) :
    lg__get_associations_for_asset_type fuel s t = lg__get_associations_for_asset_type fuel s' t := by
  rw [get_associations_eq, get_associations_eq, h]

/-- at the entry fuel, on an acyclic language: the hand model's `declaredFor` -/
theorem get_associations_declaredFor (s : TH) (t : String) (hac : Acyclic (absLang s.spec)) :
    ∃ l, lg__get_associations_for_asset_type (pyFuelL s.spec) s t = .ok l ∧
      l.map absAssoc = declaredFor (absLang s.spec) t ∧ ∀ d ∈ l, d ∈ s.spec.associations := by
  have hok := hac t
  rw [TieLang.absLang_assets_length] at hok
  obtain ⟨l, e, r, m⟩ := get_associations_tie s t (pyFuelL s.spec) hok
  refine ⟨l, e, ?_, m⟩
  rw [r]
  unfold declaredFor supers
  rw [TieLang.absLang_assets_length]
  unfold pyFuelL
  rw [← List.map_reverse, List.flatMap_map]

/-! ## TASK B — the specification heap loaded from a language value -/

theorem exprOfPyFuel_exprOf : ∀ (e : Expr) (f : Nat), pyExprDepth (exprOf e) ≤ f → exprOfPyFuel f (exprOf e) = e := by
  intro e
  induction e with
  | step n => intro f h; cases f with
    | zero => simp [exprOf, pyExprDepth] at h
    | succ f => simp [exprOf, exprOfPyFuel]
  | field n => intro f h; cases f with
    | zero => simp [exprOf, pyExprDepth] at h
    | succ f => simp [exprOf, exprOfPyFuel]
  | var n => intro f h; cases f with
    | zero => simp [exprOf, pyExprDepth] at h
    | succ f => simp [exprOf, exprOfPyFuel]
  | collect l r ihl ihr => intro f h; cases f with
    | zero => simp [exprOf, pyExprDepth] at h
    | succ f =>
      simp only [exprOf, pyExprDepth] at h
      simp [exprOf, exprOfPyFuel, ihl f (by omega), ihr f (by omega)]
  | union l r ihl ihr => intro f h; cases f with
    | zero => simp [exprOf, pyExprDepth] at h
    | succ f =>
      simp only [exprOf, pyExprDepth] at h
      simp [exprOf, exprOfPyFuel, ihl f (by omega), ihr f (by omega)]
  | inter l r ihl ihr => intro f h; cases f with
    | zero => simp [exprOf, pyExprDepth] at h
    | succ f =>
      simp only [exprOf, pyExprDepth] at h
      simp [exprOf, exprOfPyFuel, ihl f (by omega), ihr f (by omega)]
  | diff l r ihl ihr => intro f h; cases f with
    | zero => simp [exprOf, pyExprDepth] at h
    | succ f =>
      simp only [exprOf, pyExprDepth] at h
      simp [exprOf, exprOfPyFuel, ihl f (by omega), ihr f (by omega)]
  | trans e ih => intro f h; cases f with
    | zero => simp [exprOf, pyExprDepth] at h
    | succ f =>
      simp only [exprOf, pyExprDepth] at h
      simp [exprOf, exprOfPyFuel, ih f (by omega)]
  | sub t e ih => intro f h; cases f with
    | zero => simp [exprOf, pyExprDepth] at h
    | succ f =>
      simp only [exprOf, pyExprDepth] at h
      simp [exprOf, exprOfPyFuel, ih f (by omega)]

theorem exprOfPy_exprOf (e : Expr) : exprOfPy (exprOf e) = e :=
  exprOfPyFuel_exprOf e _ (Nat.le_refl _)

theorem exprWF_exprOf (e : Expr) : ExprWF (exprOf e) := by
  unfold ExprWF; rw [exprOfPy_exprOf]

/-- every store of `s'` extends the store of `s` -/
structure Ext (s s' : LS) : Prop where
  stepD : s.stepD <+: s'.stepD
  reachD : s.reachD <+: s'.reachD
  exprL : s.exprL <+: s'.exprL

theorem Ext.refl (s : LS) : Ext s s := ⟨List.prefix_refl _, List.prefix_refl _, List.prefix_refl _⟩
theorem Ext.trans {s s' s'' : LS} (h1 : Ext s s') (h2 : Ext s' s'') : Ext s s'' :=
  ⟨h1.stepD.trans h2.stepD, h1.reachD.trans h2.reachD, h1.exprL.trans h2.exprL⟩

theorem prefix_get {α : Type} {l l' : List α} (h : l <+: l') {i : Nat} (hi : i < l.length) : l'[i]? = l[i]? := by
  obtain ⟨x, rfl⟩ := h
  exact List.getElem?_append_left hi

theorem Ext.step {s s' : LS} (h : Ext s s') {r : Nat} (hr : r < s.stepD.length) : s'.step r = s.step r :=
  TieLang.step_of_get (prefix_get h.stepD hr)
theorem Ext.reach {s s' : LS} (h : Ext s s') {r : Nat} (hr : r < s.reachD.length) : s'.reach r = s.reach r :=
  TieLang.reach_of_get (prefix_get h.reachD hr)
theorem Ext.list {s s' : LS} (h : Ext s s') {r : Nat} (hr : r < s.exprL.length) : s'.list r = s.list r :=
  TieLang.list_of_get (prefix_get h.exprL hr)

/-- a step-dictionary object read as a value of the hand model -/
def readStepPy (s : LS) (r : SRef) : StepDecl := readStep (absStore s) (absStep s r)

/-- an asset dictionary read as a value of the hand model -/
def readAssetPy (s : LS) (a : PyAssetD) : AssetDecl := readAsset (absStore s) (absAsset s a)

theorem readStepPy_eq (s : LS) (r : SRef) : readStepPy s r =
    { name := (s.step r).name, type := (s.step r).type, tags := (s.step r).tags, ttc := (s.step r).ttc,
      ttcName := (s.step r).ttcName, metaTxt := (s.step r).metaTxt, mitre := (s.step r).mitre,
      risk := (s.step r).risk, requires := (s.step r).requires.map (fun l => l.map exprOfPy),
      reaches := (s.step r).reaches.map (fun rr =>
        { overrides := (s.reach rr).overrides, exprs := (s.list (s.reach rr).stepExpressions).map exprOfPy }) } := by
  unfold readStepPy readStep absStep
  simp only [Option.map_map, StepDecl.mk.injEq, true_and]
  congr 1
  funext rr
  simp only [Function.comp, TieLang.absStore_read]

/-- the objects below a step dictionary exist -/
structure StepClosed (s : LS) (r : SRef) : Prop where
  lt : r < s.stepD.length
  reach : ∀ rr, (s.step r).reaches = some rr → rr < s.reachD.length ∧ (s.reach rr).stepExpressions < s.exprL.length

theorem closed_ext {s s' : LS} (h : Ext s s') {r : SRef} (hc : StepClosed s r) :
    StepClosed s' r ∧ readStepPy s' r = readStepPy s r := by
  have e1 := h.step hc.lt
  constructor
  · refine ⟨Nat.lt_of_lt_of_le hc.lt h.stepD.length_le, ?_⟩
    intro rr hrr
    rw [e1] at hrr
    obtain ⟨h1, h2⟩ := hc.reach rr hrr
    rw [h.reach h1]
    exact ⟨Nat.lt_of_lt_of_le h1 h.reachD.length_le, Nat.lt_of_lt_of_le h2 h.exprL.length_le⟩
  · rw [readStepPy_eq, readStepPy_eq, e1]
    cases hrr : (s.step r).reaches with
    | none => rfl
    | some rr =>
      obtain ⟨h1, h2⟩ := hc.reach rr hrr
      simp only [Option.map_some, h.reach h1, h.list h2]

def ListsWF (s : LS) : Prop := ∀ l ∈ s.exprL, ∀ e ∈ l, ExprWF e

theorem map_exprOf_rt (l : List Expr) : (l.map exprOf).map exprOfPy = l := by
  rw [List.map_map]
  conv => rhs; rw [← List.map_id l]
  apply List.map_congr_left
  intro e _; exact exprOfPy_exprOf e

theorem requires_rt (q : Option (List Expr)) :
    (q.map (fun l => l.map exprOf)).map (fun l => l.map exprOfPy) = q := by
  cases q with
  | none => rfl
  | some l => simp only [Option.map_some, map_exprOf_rt]

theorem comp_rt : (exprOfPy ∘ exprOf) = id := funext exprOfPy_exprOf
theorem comp_map_rt : ((fun l => List.map exprOfPy l) ∘ fun l => List.map exprOf l) = id := by
  funext l; exact map_exprOf_rt l

theorem loadStepPy_spec (s : LS) (d : StepDecl) :
    Ext s (loadStepPy s d).1 ∧ (loadStepPy s d).1.assets = s.assets ∧
    (loadStepPy s d).1.associations = s.associations ∧
    StepClosed (loadStepPy s d).1 (loadStepPy s d).2 ∧ readStepPy (loadStepPy s d).1 (loadStepPy s d).2 = d ∧
    (ListsWF s → ListsWF (loadStepPy s d).1) := by
  obtain ⟨name, type, tags, ttc, ttcName, metaTxt, mitre, risk, requires, reaches⟩ := d
  cases reaches with
  | none =>
    simp only [loadStepPy, LS.allocStep]
    refine ⟨⟨List.prefix_append _ _, List.prefix_refl _, List.prefix_refl _⟩, trivial, trivial, ⟨by simp, ?_⟩, ?_, fun h => h⟩
    · intro rr hrr; simp [LS.step] at hrr
    · rw [readStepPy_eq]; simp [LS.step, comp_map_rt]
  | some r =>
    simp only [loadStepPy, LS.allocStep, LS.allocReach, LS.allocList]
    refine ⟨⟨List.prefix_append _ _, List.prefix_append _ _, List.prefix_append _ _⟩, trivial, trivial, ⟨by simp, ?_⟩, ?_, ?_⟩
    · intro rr hrr
      simp [LS.step] at hrr
      subst hrr
      simp [LS.reach]
    · rw [readStepPy_eq]; simp [LS.step, LS.reach, LS.list, comp_map_rt, comp_rt]
    · intro h l hl e he
      simp only [List.mem_append, List.mem_singleton] at hl
      rcases hl with hl | rfl
      · exact h l hl e he
      · obtain ⟨x, _, rfl⟩ := List.mem_map.1 he
        exact exprWF_exprOf x

theorem loadStepsPy_spec : ∀ (ds : List StepDecl) (s : LS),
    Ext s (loadStepsPy s ds).1 ∧ (loadStepsPy s ds).1.assets = s.assets ∧
    (loadStepsPy s ds).1.associations = s.associations ∧
    (∀ r ∈ (loadStepsPy s ds).2, StepClosed (loadStepsPy s ds).1 r) ∧
    (loadStepsPy s ds).2.map (readStepPy (loadStepsPy s ds).1) = ds ∧
    (ListsWF s → ListsWF (loadStepsPy s ds).1) := by
  intro ds
  induction ds with
  | nil => intro s; exact ⟨Ext.refl s, rfl, rfl, by simp [loadStepsPy], rfl, fun h => h⟩
  | cons d ds ih =>
    intro s
    obtain ⟨e1, a1, c1, k1, r1, w1⟩ := loadStepPy_spec s d
    obtain ⟨e2, a2, c2, k2, r2, w2⟩ := ih (loadStepPy s d).1
    simp only [loadStepsPy]
    have hk := closed_ext e2 k1
    refine ⟨e1.trans e2, a2.trans a1, c2.trans c1, ?_, ?_, fun h => w2 (w1 h)⟩
    · intro r hr
      rcases List.mem_cons.1 hr with rfl | hr
      · exact hk.1
      · exact k2 r hr
    · rw [List.map_cons, r2, hk.2, r1]

/-- the language loads without change of meaning: no asset `extends ''` (the Python tests `superAsset` for
truthiness, so `''` is read as "no super asset") -/
def LoadOK (L : Lang) : Prop := ∀ a ∈ L.assets, a.superAsset ≠ some ""

instance (L : Lang) : Decidable (LoadOK L) := by unfold LoadOK; infer_instance

theorem truthy_of_ne {x : Option String} (h : x ≠ some "") : pyTruthyStr x = x := by
  cases x with
  | none => rfl
  | some v =>
    have : v ≠ "" := fun e => h (by rw [e])
    simp [pyTruthyStr, this]

theorem readAssetPy_name (s : LS) (a : PyAssetD) : (readAssetPy s a).name = a.name := rfl

/-- the asset dictionary `loadAssetsPy` appends for a declaration whose step objects are `steps` -/
def assetDOf (a : AssetDecl) (steps : List SRef) : PyAssetD :=
  { name := a.name, superAsset := a.superAsset, isAbstract := a.isAbstract,
    variables := a.variables.map (fun v => { name := v.1, stepExpression := exprOf v.2 }),
    attackSteps := steps, metaTxt := a.metaTxt, category := a.category }

def pushAsset (s : LS) (d : PyAssetD) : LS := { s with assets := s.assets ++ [d] }

theorem loadAssetsPy_cons (s : LS) (a : AssetDecl) (as : List AssetDecl) :
    loadAssetsPy s (a :: as) =
      loadAssetsPy (pushAsset (loadStepsPy s a.steps).1 (assetDOf a (loadStepsPy s a.steps).2)) as := rfl

theorem loadAssetsPy_spec : ∀ (as : List AssetDecl) (s : LS), (∀ a ∈ as, a.superAsset ≠ some "") →
    Ext s (loadAssetsPy s as) ∧ (loadAssetsPy s as).associations = s.associations ∧
    (ListsWF s → ListsWF (loadAssetsPy s as)) ∧
    ∃ new, (loadAssetsPy s as).assets = s.assets ++ new ∧
      new.map (readAssetPy (loadAssetsPy s as)) = as ∧
      (∀ a ∈ new, ∀ r ∈ a.attackSteps, StepClosed (loadAssetsPy s as) r) ∧
      (∀ a ∈ new, ∀ v ∈ a.variables, ExprWF v.stepExpression) := by
  intro as
  induction as with
  | nil => intro s _; exact ⟨Ext.refl s, rfl, fun h => h, [], by simp [loadAssetsPy], rfl, by simp, by simp⟩
  | cons a as ih =>
    intro s hsup
    obtain ⟨e1, a1, c1, k1, r1, w1⟩ := loadStepsPy_spec a.steps s
    rw [loadAssetsPy_cons]
    generalize hd : assetDOf a (loadStepsPy s a.steps).2 = d
    generalize hs1 : pushAsset (loadStepsPy s a.steps).1 d = s1
    have e1' : Ext (loadStepsPy s a.steps).1 s1 := by
      subst hs1; exact ⟨List.prefix_refl _, List.prefix_refl _, List.prefix_refl _⟩
    obtain ⟨e2, c2, w2, new, a2, r2, k2, v2⟩ := ih s1 (fun x hx => hsup x (List.mem_cons_of_mem _ hx))
    have hs1a : s1.assets = s.assets ++ [d] := by subst hs1; simp [pushAsset, a1]
    have hs1c : s1.associations = s.associations := by subst hs1; exact c1
    have hw1 : ListsWF s → ListsWF s1 := by subst hs1; exact w1
    refine ⟨e1.trans (e1'.trans e2), c2.trans hs1c, fun h => w2 (hw1 h), d :: new, ?_, ?_, ?_, ?_⟩
    · rw [a2, hs1a, List.append_assoc]; rfl
    · rw [List.map_cons, r2]
      congr 1
      have hsteps : d.attackSteps.map (readStepPy (loadAssetsPy s1 as)) = a.steps := by
        subst hd
        show (loadStepsPy s a.steps).2.map _ = _
        conv => rhs; rw [← r1]
        apply List.map_congr_left
        intro r hr
        exact (closed_ext (e1'.trans e2) (k1 r hr)).2
      have hvars : d.variables.map (fun v => (v.name, exprOfPy v.stepExpression)) = a.variables := by
        subst hd
        show (a.variables.map _).map _ = _
        rw [List.map_map]
        conv => rhs; rw [← List.map_id a.variables]
        apply List.map_congr_left
        intro v _; simp [exprOfPy_exprOf]
      have hsa : pyTruthyStr d.superAsset = a.superAsset := by
        subst hd; exact truthy_of_ne (hsup a List.mem_cons_self)
      show readAsset (absStore _) (absAsset _ d) = a
      unfold readAsset absAsset
      simp only [List.map_map]
      have hsteps' : d.attackSteps.map (readStep (absStore (loadAssetsPy s1 as)) ∘ absStep (loadAssetsPy s1 as)) = a.steps := hsteps
      rw [hsteps', hvars, hsa]
      subst hd
      rfl
    · intro x hx r hr
      rcases List.mem_cons.1 hx with rfl | hx
      · have : r ∈ (loadStepsPy s a.steps).2 := by subst hd; exact hr
        exact (closed_ext (e1'.trans e2) (k1 r this)).1
      · exact k2 x hx r hr
    · intro x hx v hv
      rcases List.mem_cons.1 hx with rfl | hx
      · subst hd
        obtain ⟨y, _, rfl⟩ := List.mem_map.1 hv
        exact exprWF_exprOf y.2
      · exact v2 x hx v hv

/-- the association dictionary `loadPy` makes of a declaration -/
def assocDOf (d : AssocDecl) : PyAssocD :=
  { name := d.name, leftAsset := d.leftAsset, leftField := d.leftField, leftMin := d.leftMin, leftMax := d.leftMax,
    rightAsset := d.rightAsset, rightField := d.rightField, rightMin := d.rightMin, rightMax := d.rightMax,
    metaTxt := d.metaTxt }

theorem absAssoc_assocDOf (d : AssocDecl) : absAssoc (assocDOf d) = d := rfl

theorem loadPy_eq (L : Lang) : loadPy L = loadAssetsPy { associations := L.assocs.map assocDOf } L.assets := rfl

theorem absLang_eq (s : LS) :
    absLang s = { assets := s.assets.map (readAssetPy s), assocs := s.associations.map absAssoc } := by
  unfold absLang readLang absLangH
  simp only [List.map_map]; rfl

/-- what loading leaves, in one statement -/
theorem loadPy_spec (L : Lang) (hL : LoadOK L) :
    (loadPy L).associations = L.assocs.map assocDOf ∧ ListsWF (loadPy L) ∧
    (loadPy L).assets.map (readAssetPy (loadPy L)) = L.assets ∧
    (∀ a ∈ (loadPy L).assets, ∀ r ∈ a.attackSteps, StepClosed (loadPy L) r) ∧
    (∀ a ∈ (loadPy L).assets, ∀ v ∈ a.variables, ExprWF v.stepExpression) := by
  rw [loadPy_eq]
  obtain ⟨_, c, w, new, a, r, k, v⟩ := loadAssetsPy_spec L.assets { associations := L.assocs.map assocDOf } hL
  have ha : (loadAssetsPy { associations := L.assocs.map assocDOf } L.assets).assets = new := by
    rw [a]; rfl
  rw [ha]
  exact ⟨c, w (by intro l hl; simp at hl), r, k, v⟩

/-- **the loaded heap represents the language** -/
theorem absLang_loadPy (L : Lang) (hL : LoadOK L) : absLang (loadPy L) = L := by
  obtain ⟨c, _, r, _, _⟩ := loadPy_spec L hL
  rw [absLang_eq, r, c, List.map_map]
  have : (absAssoc ∘ assocDOf) = id := funext absAssoc_assocDOf
  rw [this, List.map_id]

/-- **the loaded heap satisfies the hypotheses of the general tie** -/
theorem specOK_loadPy (L : Lang) (hL : LoadOK L) (hnd : (L.assets.map (·.name)).Nodup) : SpecOK (loadPy L) := by
  obtain ⟨_, w, r, k, v⟩ := loadPy_spec L hL
  refine ⟨⟨Nat.le_refl _, Nat.le_refl _, Nat.le_refl _, ?_, ?_, ?_⟩, ?_, v, w⟩
  · intro a ha x hx; exact (k a ha x hx).lt
  · intro a ha x hx rr hrr; exact ((k a ha x hx).reach rr hrr).1
  · intro a ha x hx rr hrr; exact ((k a ha x hx).reach rr hrr).2
  · have : (loadPy L).assets.map (·.name) = L.assets.map (·.name) := by
      conv => rhs; rw [← r, List.map_map]
      rfl
    rw [this]; exact hnd

/-! ### `LoadOK` on the example languages; the round trip by evaluation -/

example : LoadOK MalVerif.LG.Demo.lgL := by decide
example : LoadOK MalVerif.LG.Demo.kfL := by decide
example : LoadOK MalVerif.LG.Demo.varL := by decide
example : (absLang (loadPy MalVerif.LG.Demo.lgL)).assocs = MalVerif.LG.Demo.lgL.assocs := by decide
example : (absLang (loadPy MalVerif.LG.Demo.lgL)).assets.map (·.name) = MalVerif.LG.Demo.lgL.assets.map (·.name) := by
  decide
example : (absLang (loadPy MalVerif.LG.Demo.lgL)).assets.map (·.superAsset) =
    MalVerif.LG.Demo.lgL.assets.map (·.superAsset) := by decide
example : (absLang (loadPy MalVerif.LG.Demo.lgL)).assets.map (·.steps) = MalVerif.LG.Demo.lgL.assets.map (·.steps) := by
  decide
example : (absLang (loadPy MalVerif.LG.Demo.varL)).assets.map (·.variables) =
    MalVerif.LG.Demo.varL.assets.map (·.variables) := by decide

end MalVerif.Py.TieLangType
