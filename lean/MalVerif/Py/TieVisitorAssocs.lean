import MalVerif.Py.TieVisitorAssoc
/-!
# Tie of the translated `visitAssociations` (the `associations { … }` declaration) to the compiler model
-/
namespace MalVerif.Py.Visitor
open MalVerif MalVerif.Mal MalVerif.Py.GenVisitor

theorem leaf_isRule' (r : String) (t : ITok) : isRule r (leaf t) = false := rfl

theorem rule_isRule (r n : String) (cs : List PT) : isRule r (.rule n cs) = (n == r) := rfl

theorem parseAssociationsBody_step (f : Nat) (acc : List CAssoc) (ts : List Tok) (h : ∀ rest, ts = .rcurly :: rest → False) :
    parseAssociationsBody (f+1) acc ts =
      match parseAssociation f ts with
      | some (a, rest) => parseAssociationsBody f (acc ++ [a]) rest
      | none => none := by
  cases ts with
  | nil => rfl
  | cons t r => cases t <;> first | rfl | exact (h r rfl).elim

theorem not_rcurly_map {ts : List ITok} (hne : ∀ (i : Nat) (rest : List ITok), ts = (Tok.rcurly, i) :: rest → False) :
    ∀ rest, ts.map Prod.fst = .rcurly :: rest → False := by
  intro rest heq
  obtain ⟨i, r, rfl, _⟩ := map_fst_cons heq
  exact hne _ _ rfl

/-- the body of `associations { … }`: the loop `for assoc in ctx.association(): associations.append(self.visit(assoc))` -/
theorem assocs_loop (c : V → M V) (toks : List V) (wf : Nat) (node : PT) (up : List PT) (f : Nat) (its : List ITok)
    (acc0 : List CAssoc) (hint : ∀ x ∈ its, intOK x.1 = true) :
    match treeAssociationsBody f its with
    | none => parseAssociationsBody f acc0 (its.map Prod.fst) = none
    | some (cs, irest) =>
      ∃ as, parseAssociationsBody f acc0 (its.map Prod.fst) = some (acc0 ++ as, irest.map Prod.fst) ∧
        (∀ z ∈ irest, z ∈ its) ∧
        ∀ g, PT.depthL cs ≤ g →
          forIn ((cs.filter (isRule "association")).map (mkCtx node up)) (V.list (acc0.map rAssoc))
              (appendBody (visitF c toks wf g)) = .ok (V.list ((acc0 ++ as).map rAssoc)) := by
  fun_induction treeAssociationsBody f its generalizing acc0 with
  | case1 ts => rfl
  | case2 f i rest =>
    refine ⟨[], ?_, fun z hz => by simp [hz], fun g _ => ?_⟩
    · simp [parseAssociationsBody]
    · simp [leaf_isRule']; rfl
  | case3 f ts a rest ha hne ih =>
    have hl := association_loop c toks wf f ts hint
    rw [ha] at hl
    simp only [ha]
    obtain ⟨av, hp, ⟨acs, rfl⟩, hsub, hv⟩ := hl
    have ih := ih (acc0 ++ [av]) (fun x hx => hint x (hsub x hx))
    have hparse : parseAssociationsBody (f+1) acc0 (ts.map Prod.fst) =
        parseAssociationsBody f (acc0 ++ [av]) (rest.map Prod.fst) := by
      rw [parseAssociationsBody_step _ _ _ (not_rcurly_map hne), hp]
    cases hrec : treeAssociationsBody f rest with
    | none =>
      rw [hrec] at ih
      rw [hparse]; exact ih
    | some p =>
      obtain ⟨cs, irest⟩ := p
      rw [hrec] at ih
      obtain ⟨as, hp2, hs2, hv2⟩ := ih
      refine ⟨av :: as, ?_, ?_, ?_⟩
      · rw [hparse, hp2]; simp
      · intro z hz; exact hsub z (hs2 z hz)
      · intro g hg
        simp only [PT.depthL] at hg
        have hfil : List.filter (isRule "association") (PT.rule "association" acs :: cs) =
            PT.rule "association" acs :: List.filter (isRule "association") cs := rfl
        rw [hfil, List.map_cons]
        refine (forIn_cons_ok _ _ _ _ _ (appendBody_ok _ _ (rAssoc av) _ (hv g _ (by omega)))).trans ?_
        have := hv2 g (by omega)
        simpa using this
  | case4 f ts ha hne =>
    have hl := association_loop c toks wf f ts hint
    rw [ha] at hl
    simp only [ha]
    rw [parseAssociationsBody_step _ _ _ (not_rcurly_map hne), hl]

/-- the `associations` node: `ASSOCIATIONS LCURLY association* RCURLY` -/
def assocsNode (i j : Nat) (cs : List PT) : PT := .rule "associations" (leaf (.kwAssociations, i) :: leaf (.lcurly, j) :: cs)

/-- **`visitAssociations`**: the declaration `associations { … }` -/
theorem associations_tie (c : V → M V) (toks : List V) (wf : Nat) (f : Nat) (its : List ITok)
    (hint : ∀ x ∈ its, intOK x.1 = true) :
    match treeAssociationsBody f its with
    | none => parseAssociationsBody f [] (its.map Prod.fst) = none
    | some (cs, irest) =>
      ∃ as, parseAssociationsBody f [] (its.map Prod.fst) = some (as, irest.map Prod.fst) ∧
        (∀ z ∈ irest, z ∈ its) ∧
        ∀ g i j up, (assocsNode i j cs).depth ≤ g →
          visitF c toks wf g (.ctx (assocsNode i j cs) up) = .ok (.tuple [.str "associations", .list (as.map rAssoc)]) := by
  have hl := fun node up => assocs_loop c toks wf node up f its [] hint
  cases hrec : treeAssociationsBody f its with
  | none => have := hl (.tok "" "" 0) []; rw [hrec] at this; exact this
  | some p =>
    obtain ⟨cs, irest⟩ := p
    simp only [hrec] at hl
    obtain ⟨as, hp, hs, -⟩ := hl (.tok "" "" 0) []
    refine ⟨as, by simpa using hp, hs, fun g i j up hg => ?_⟩
    obtain ⟨as', hp', -, hv⟩ := hl (assocsNode i j cs) up
    obtain rfl : as' = as := by rw [hp] at hp'; simpa using hp'.symm
    simp only [assocsNode, depth_rule, PT.depthL, leaf, depth_tok] at hg
    obtain ⟨g, rfl⟩ : ∃ g', g = g' + 1 := ⟨g - 1, by omega⟩
    have hv := hv g (by omega)
    simp only [assocsNode] at hv ⊢
    rw [visitF_associations]
    unfold visitAssociations
    rw [ctxAcc_eq acc_associations_association]
    simp only [runAcc, PT.children]
    rw [show List.filter (isRule "association") (leaf (Tok.kwAssociations, i) :: leaf (Tok.lcurly, j) :: cs) =
          List.filter (isRule "association") cs from rfl]
    simp only [okBind, pyIter_list, List.map_nil, List.nil_append] at hv ⊢
    simp only [pure_bind, pyIter]
    show ((forIn _ (V.list []) _ : M V) >>= fun r => _) = _
    rw [hv]
    rfl

end MalVerif.Py.Visitor
