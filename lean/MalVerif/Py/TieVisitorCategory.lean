import MalVerif.Py.TieVisitorAsset
/-!
# Tie of the translated `visitCategory` and of one `declaration` to the compiler model (`parseAssets`, `parseDecl`)
-/
namespace MalVerif.Py.Visitor
open MalVerif MalVerif.Mal MalVerif.Py.GenVisitor

/-! ### the assets of a category: `asset* RCURLY` -/

/-- the children `treeAssets` builds: `asset` nodes and the closing brace -/
def AssetsChild (x : PT) : Prop := (∃ cs, x = .rule "asset" cs) ∨ ∃ i, x = leaf (Tok.rcurly, i)

theorem assets_loop (c : V → M V) (all : List Tok) (wf : Nat) (f : Nat) (cat : String) (its : List ITok)
    (acc0 : List CAsset) (hpos : AtPos all its) (hok : ∀ x ∈ its, tokOK x.1 = true) :
    match treeAssets f its with
    | none => parseAssets f cat acc0 (its.map Prod.fst) = none
    | some (cs, irest) =>
      ∃ as, parseAssets f cat acc0 (its.map Prod.fst) = some (acc0 ++ as, irest.map Prod.fst) ∧
        irest <:+ its ∧ (∀ x ∈ cs, AssetsChild x) ∧
        ∀ g ci cj crest up, PT.depthL cs ≤ g → up.length + 1 + PT.depthL cs < wf →
          (∀ p ∈ up, isRule "reaches" p = false) →
          forIn ((cs.filter (isRule "asset")).map (mkCtx (catNode ci cj cat crest) up)) (V.list (acc0.map rAsset))
              (appendBody (visitF c (tokensV all) wf g)) = .ok (V.list ((acc0 ++ as).map rAsset)) := by
  fun_induction treeAssets f its generalizing acc0 with
  | case1 ts => rfl
  | case2 f i rest =>
    refine ⟨[], ?_, ⟨[_], rfl⟩, ?_, fun g ci cj crest up _ _ _ => ?_⟩
    · simp [parseAssets]
    · intro x hx
      simp only [List.mem_singleton] at hx
      exact Or.inr ⟨i, hx⟩
    · simp [leaf_isRule']; rfl
  | case3 f ts a rest ha hne ih =>
    have hl := asset_tie c all wf f cat ts hpos hok
    rw [ha] at hl
    simp only [ha]
    obtain ⟨am, hp, ⟨acs, rfl⟩, hsuf, hv⟩ := hl
    have ih := ih (acc0 ++ [am]) (hpos.suffix hsuf) (fun x hx => hok x (hsuf.subset hx))
    have hparse : parseAssets (f+1) cat acc0 (ts.map Prod.fst) =
        parseAssets f cat (acc0 ++ [am]) (rest.map Prod.fst) := by
      rw [parseAssets_asset _ _ _ _ (not_rcurly_map' hne), hp]; rfl
    cases hrec : treeAssets f rest with
    | none =>
      rw [hrec] at ih
      rw [hparse]; exact ih
    | some p =>
      obtain ⟨cs, irest⟩ := p
      rw [hrec] at ih
      obtain ⟨as, hp2, hs2, hac, hv2⟩ := ih
      refine ⟨am :: as, ?_, hs2.trans hsuf, ?_, ?_⟩
      · rw [hparse, hp2]; simp
      · intro x hx
        rcases List.mem_cons.mp hx with rfl | hx
        · exact Or.inl ⟨_, rfl⟩
        · exact hac x hx
      · intro g ci cj crest up hg hwf hup
        simp only [PT.depthL] at hg hwf
        rw [show List.filter (isRule "asset") (PT.rule "asset" acs :: cs) =
              PT.rule "asset" acs :: List.filter (isRule "asset") cs from rfl, List.map_cons]
        refine (forIn_cons_ok _ _ _ _ _ (appendBody_ok _ _ (rAsset am) _
          (hv g ci cj crest up (by omega) (by omega) hup))).trans ?_
        have := hv2 g ci cj crest up (by omega) (by omega) hup
        simpa using this
  | case4 f ts ha hne =>
    have hl := asset_tie c all wf f cat ts hpos hok
    rw [ha] at hl
    simp only [ha]
    rw [parseAssets_asset _ _ _ _ (not_rcurly_map' hne), hl]; rfl

/-! ### the `category` node -/

theorem assets_filter_rule (r : String) (h1 : (("asset" : String) == r) = false) {cs : List PT}
    (hc : ∀ x ∈ cs, AssetsChild x) : cs.filter (isRule r) = [] := by
  apply List.filter_eq_nil_iff.mpr
  intro x hx
  rcases hc x hx with ⟨cs', rfl⟩ | ⟨i, rfl⟩
  · simp only [isRule, h1]; simp
  · simp [leaf, isRule]

/-- the `category` node `treeDecl` builds -/
def categoryNode (i j : Nat) (n : String) (md : List PT) (k : Nat) (cs : List PT) : PT :=
  catNode i j n (md ++ leaf (Tok.lcurly, k) :: cs)

theorem categoryNode_meta (i j : Nat) (n : String) (f : Nat) (its : List ITok) (k : Nat) (cs up : List PT)
    (hc : ∀ x ∈ cs, AssetsChild x) :
    ctxAcc accTable (.ctx (categoryNode i j n (treeMetas f its).1 k cs) up) "meta" none =
      .ok (.list ((treeMetas f its).1.map (mkCtx (categoryNode i j n (treeMetas f its).1 k cs) up))) := by
  simp only [categoryNode, catNode, ctxAcc_eq acc_category_meta, runAcc, PT.children, List.filter_append,
    filter_metas_meta, List.filter_cons, assets_filter_rule "meta" (by decide) hc,
    leaf_isRule', Bool.false_eq_true, if_false, List.append_nil]
  rfl

theorem categoryNode_asset (i j : Nat) (n : String) (f : Nat) (its : List ITok) (k : Nat) (cs up : List PT) :
    ctxAcc accTable (.ctx (categoryNode i j n (treeMetas f its).1 k cs) up) "asset" none =
      .ok (.list ((cs.filter (isRule "asset")).map (mkCtx (categoryNode i j n (treeMetas f its).1 k cs) up))) := by
  simp only [categoryNode, catNode, ctxAcc_eq acc_category_asset, runAcc, PT.children, List.filter_append,
    filter_metas_rule f its _ (by decide : ("asset" == "meta") = false), List.filter_cons,
    leaf_isRule', Bool.false_eq_true, if_false, List.nil_append]
  rfl

theorem visitCategory_eval (c : V → M V) (toks : List V) (wf : Nat) (i j : Nat) (n : String) (f : Nat) (its : List ITok)
    (k : Nat) (cs up : List PT) (hc : ∀ x ∈ cs, AssetsChild x) (g : Nat) (hgm : PT.depthL (treeMetas f its).1 ≤ g)
    (as : List V)
    (hassets : forIn ((cs.filter (isRule "asset")).map (mkCtx (categoryNode i j n (treeMetas f its).1 k cs) up)) (V.list [])
        (appendBody (visitF c toks wf g)) = .ok (V.list as)) :
    visitCategory (selfAt c toks wf g) (.ctx (categoryNode i j n (treeMetas f its).1 k cs) up) =
      .ok (.tuple [.str "categories", .tuple [.list [rCategory (n, (parseMetas f [] (its.map Prod.fst)).1)], .list as]]) := by
  unfold visitCategory
  rw [show (selfAt c toks wf g).visit = visitF c toks wf g from rfl]
  simp only [categoryNode_meta _ _ _ _ _ _ _ _ hc, categoryNode_asset, okBind, pyIter_list]
  rw [show categoryNode i j n (treeMetas f its).1 k cs = catNode i j n _ from rfl, catNode_ID,
    ← show categoryNode i j n (treeMetas f its).1 k cs = catNode i j n _ from rfl]
  rw [metas_forIn2 c toks wf f its g _ _ hgm]
  unfold appendBody at hassets
  simp only [okBind, hassets, mkCtx, leaf_text]
  rfl

/-! ### suffixes for the `associations` declaration -/

theorem treeMult_suffix (its : List ITok) (t : PT) (irest : List ITok) (h : treeMult its = some (t, irest)) :
    irest <:+ its := by
  unfold treeMult at h
  split at h
  · split at h
    · simp only [Option.some.injEq, Prod.mk.injEq] at h
      obtain ⟨_, rfl⟩ := h
      exact ⟨[_, _, _], rfl⟩
    · cases h
  · split at h
    · simp only [Option.some.injEq, Prod.mk.injEq] at h
      obtain ⟨_, rfl⟩ := h
      exact ⟨[_], rfl⟩
    · cases h
  · cases h

theorem treeAssociation_suffix (f : Nat) (its : List ITok) (t : PT) (irest : List ITok)
    (h : treeAssociation f its = some (t, irest)) : irest <:+ its := by
  unfold treeAssociation at h
  split at h
  · rename_i la i1 i2 lf i3 i4 r1
    split at h
    · rename_i lm i5 name i6 i7 r2 h1
      split at h
      · rename_i rm i8 rf i9 i10 ra i11 r3 h2
        simp only [Option.some.injEq, Prod.mk.injEq] at h
        obtain ⟨_, rfl⟩ := h
        have s1 := treeMult_suffix _ _ _ h1
        have s2 := treeMult_suffix _ _ _ h2
        have s3 := treeMetas_suffix f r3
        have a1 : r2 <:+ r1 := List.IsSuffix.trans ⟨[_, _, _], rfl⟩ s1
        have a2 : r3 <:+ r2 := List.IsSuffix.trans ⟨[_, _, _, _], rfl⟩ s2
        exact (s3.trans (a2.trans a1)).trans ⟨[_, _, _, _], rfl⟩
      · cases h
    · cases h
  · cases h

theorem treeAssociationsBody_suffix (f : Nat) (its : List ITok) :
    ∀ cs irest, treeAssociationsBody f its = some (cs, irest) → irest <:+ its := by
  fun_induction treeAssociationsBody f its with
  | case1 ts => intro cs irest h; cases h
  | case2 f i rest =>
    intro cs irest h
    simp only [Option.some.injEq, Prod.mk.injEq] at h
    obtain ⟨_, rfl⟩ := h
    exact ⟨[_], rfl⟩
  | case3 f ts a rest ha hne ih =>
    intro cs irest h
    simp only [ha] at h
    cases hrec : treeAssociationsBody f rest with
    | none => rw [hrec] at h; cases h
    | some p =>
      rw [hrec] at h
      simp only [Option.map_some, Option.some.injEq, Prod.mk.injEq] at h
      obtain ⟨_, rfl⟩ := h
      exact (ih _ _ hrec).trans (treeAssociation_suffix f ts a rest ha)
  | case4 f ts ha hne =>
    intro cs irest h
    simp only [ha] at h
    cases h

/-! ### one declaration -/

def tCatStage (f : Nat) (i j : Nat) (n : String) (md : List PT) (r1 : List ITok) : TP PT :=
  match r1 with
  | (.lcurly, k) :: r2 =>
    (treeAssets f r2).map (fun x =>
      (.rule "declaration" [.rule "category" (leaf (.kwCategory, i) :: leaf (.id n, j) :: (md ++ leaf (.lcurly, k) :: x.1))], x.2))
  | _ => none

theorem treeDecl_category (f : Nat) (i j : Nat) (n : String) (rest : List ITok) :
    treeDecl f ((Tok.kwCategory, i) :: (Tok.id n, j) :: rest) =
      tCatStage f i j n (treeMetas f rest).1 (treeMetas f rest).2 := by
  unfold treeDecl tCatStage
  rfl

theorem tCatStage_none (f : Nat) (i j : Nat) (n : String) (md : List PT) (r1 : List ITok)
    (hne : ∀ k r2, r1 ≠ (Tok.lcurly, k) :: r2) : tCatStage f i j n md r1 = none := by
  unfold tCatStage
  split
  · exact (hne _ _ rfl).elim
  · rfl

theorem catStage_none (f : Nat) (n : String) (md : Meta) (r1 : List Tok) (hne : ∀ r, r1 ≠ Tok.lcurly :: r) :
    catStage f n md r1 = none := by
  unfold catStage
  split
  · exact (hne _ rfl).elim
  · rfl

/-- the `category` declaration -/
theorem category_tie (c : V → M V) (all : List Tok) (wf : Nat) (f : Nat) (i j : Nat) (n : String) (rest : List ITok)
    (hpos : AtPos all rest) (hok : ∀ x ∈ rest, tokOK x.1 = true) :
    match tCatStage f i j n (treeMetas f rest).1 (treeMetas f rest).2 with
    | none => catStage f n (parseMetas f [] (rest.map Prod.fst)).1 (parseMetas f [] (rest.map Prod.fst)).2 = none
    | some (t, irest) =>
      ∃ d, catStage f n (parseMetas f [] (rest.map Prod.fst)).1 (parseMetas f [] (rest.map Prod.fst)).2 =
          some (d, irest.map Prod.fst) ∧ irest <:+ rest ∧
        ∃ child, t = .rule "declaration" [child] ∧
          ∀ g up, t.depth ≤ g → up.length + t.depth < wf → (∀ p ∈ up, isRule "reaches" p = false) →
            visitF c (tokensV all) wf g (.ctx child (t :: up)) = .ok (rDecl d) := by
  have hsuf1 := treeMetas_suffix f rest
  rw [treeMetas_rest f rest]
  rcases lcurly_split (treeMetas f rest).2 with ⟨k, r2, hr1⟩ | ⟨hne1, hne2⟩
  · have hsuf2 : r2 <:+ rest := List.IsSuffix.trans ⟨[_], hr1.symm⟩ hsuf1
    rw [hr1]
    simp only [tCatStage, catStage, List.map_cons]
    have hl := assets_loop c all wf f n r2 [] (hpos.suffix hsuf2) (fun x hx => hok x (hsuf2.subset hx))
    cases hrec : treeAssets f r2 with
    | none => rw [hrec] at hl; rw [hl]; rfl
    | some p =>
      obtain ⟨cs, irest⟩ := p
      rw [hrec] at hl
      obtain ⟨as, hp, hsuf3, hac, hv⟩ := hl
      simp only [hp, Option.map_some, List.nil_append]
      refine ⟨_, rfl, hsuf3.trans hsuf2, _, rfl, ?_⟩
      intro g up hg hwf hup
      simp only [depth_rule, depthL_append, PT.depthL, leaf, depth_tok] at hg hwf
      obtain ⟨g, rfl⟩ : ∃ g', g = g' + 2 := ⟨g - 2, by omega⟩
      rw [visitF_category]
      have hup' : ∀ p ∈ PT.rule "declaration" [categoryNode i j n (treeMetas f rest).1 k cs] :: up,
          isRule "reaches" p = false := by
        intro p hp
        rcases List.mem_cons.mp hp with rfl | hp
        · rfl
        · exact hup p hp
      have hv := hv (g+1) i j ((treeMetas f rest).1 ++ leaf (Tok.lcurly, k) :: cs)
        (PT.rule "declaration" [categoryNode i j n (treeMetas f rest).1 k cs] :: up)
        (by omega) (by simp only [List.length_cons]; omega) hup'
      simp only [List.map_nil, List.nil_append] at hv
      have hev := visitCategory_eval c (tokensV all) wf i j n f rest k cs
        (PT.rule "declaration" [categoryNode i j n (treeMetas f rest).1 k cs] :: up) hac (g+1) (by omega) _ hv
      exact hev
  · rw [tCatStage_none _ _ _ _ _ _ hne1, catStage_none _ _ _ _ hne2]

theorem decl_cases (f : Nat) (its : List ITok) :
    (∃ i p j rest, its = (Tok.kwInclude, i) :: (Tok.str p, j) :: rest) ∨
    (∃ i k j l v m rest, its = (Tok.hash, i) :: (Tok.id k, j) :: (Tok.colon, l) :: (Tok.str v, m) :: rest) ∨
    (∃ i n j rest, its = (Tok.kwCategory, i) :: (Tok.id n, j) :: rest) ∨
    (∃ i j rest, its = (Tok.kwAssociations, i) :: (Tok.lcurly, j) :: rest) ∨
    (treeDecl f its = none ∧ parseDecl f (its.map Prod.fst) = none) := by
  unfold treeDecl
  split
  · exact Or.inl ⟨_, _, _, _, rfl⟩
  · exact Or.inr (Or.inl ⟨_, _, _, _, _, _, _, rfl⟩)
  · exact Or.inr (Or.inr (Or.inl ⟨_, _, _, _, rfl⟩))
  · exact Or.inr (Or.inr (Or.inr (Or.inl ⟨_, _, _, rfl⟩)))
  · rename_i h1 h2 h3 h4
    refine Or.inr (Or.inr (Or.inr (Or.inr ⟨rfl, ?_⟩)))
    unfold parseDecl
    split
    · rename_i p rest heq
      exfalso
      obtain ⟨i, r1, rfl, e1⟩ := map_fst_cons heq
      obtain ⟨j, r2, rfl, e2⟩ := map_fst_cons e1
      exact h1 _ _ _ _ rfl
    · rename_i k v rest heq
      exfalso
      obtain ⟨i, r1, rfl, e1⟩ := map_fst_cons heq
      obtain ⟨j, r2, rfl, e2⟩ := map_fst_cons e1
      obtain ⟨l, r3, rfl, e3⟩ := map_fst_cons e2
      obtain ⟨m, r4, rfl, e4⟩ := map_fst_cons e3
      exact h2 _ _ _ _ _ _ _ rfl
    · rename_i n rest heq
      exfalso
      obtain ⟨i, r1, rfl, e1⟩ := map_fst_cons heq
      obtain ⟨j, r2, rfl, e2⟩ := map_fst_cons e1
      exact h3 _ _ _ _ rfl
    · rename_i rest heq
      exfalso
      obtain ⟨i, r1, rfl, e1⟩ := map_fst_cons heq
      obtain ⟨j, r2, rfl, e2⟩ := map_fst_cons e1
      exact h4 _ _ _ rfl
    · rfl

/-- **one declaration**: the tree builder fails exactly when the model parser fails; otherwise they consume the same
tokens, the tree is a `declaration` node with one child, and visiting the child gives the rendering of the model's
declaration -/
theorem decl_tie (c : V → M V) (all : List Tok) (wf : Nat) (f : Nat) (its : List ITok)
    (hpos : AtPos all its) (hok : ∀ x ∈ its, tokOK x.1 = true) :
    match treeDecl f its with
    | none => parseDecl f (its.map Prod.fst) = none
    | some (t, irest) =>
      ∃ d, parseDecl f (its.map Prod.fst) = some (d, irest.map Prod.fst) ∧ irest <:+ its ∧
        ∃ child, t = .rule "declaration" [child] ∧
          ∀ g up, t.depth ≤ g → up.length + t.depth < wf → (∀ p ∈ up, isRule "reaches" p = false) →
            visitF c (tokensV all) wf g (.ctx child (t :: up)) = .ok (rDecl d) := by
  rcases decl_cases f its with ⟨i, p, j, rest, rfl⟩ | ⟨i, k, j, l, v, m, rest, rfl⟩ | ⟨i, n, j, rest, rfl⟩ |
    ⟨i, j, rest, rfl⟩ | ⟨h1, h2⟩
  · refine ⟨.incl (stripQuotes p), rfl, ⟨[_, _], rfl⟩, _, rfl, fun g up hg _ _ => ?_⟩
    simp only [depth_rule, PT.depthL, leaf, depth_tok] at hg
    exact include_tie c (tokensV all) wf p i j g _ (by omega)
  · refine ⟨.define k (stripQuotes v), rfl, ⟨[_, _, _, _], rfl⟩, _, rfl, fun g up hg _ _ => ?_⟩
    simp only [depth_rule, PT.depthL, leaf, depth_tok] at hg
    exact define_tie c (tokensV all) wf k v i j l m g _ (by omega)
  · have hsuf : rest <:+ (Tok.kwCategory, i) :: (Tok.id n, j) :: rest := ⟨[_, _], rfl⟩
    have hc := category_tie c all wf f i j n rest (hpos.suffix hsuf) (fun x hx => hok x (hsuf.subset hx))
    rw [treeDecl_category]
    simp only [List.map_cons]
    rw [parseDecl_category]
    cases hst : tCatStage f i j n (treeMetas f rest).1 (treeMetas f rest).2 with
    | none => rw [hst] at hc; exact hc
    | some q =>
      obtain ⟨t, irest⟩ := q
      rw [hst] at hc
      obtain ⟨d, hp, hs, child, rfl, hv⟩ := hc
      exact ⟨d, hp, hs.trans hsuf, child, rfl, hv⟩
  · have hsuf : rest <:+ (Tok.kwAssociations, i) :: (Tok.lcurly, j) :: rest := ⟨[_, _], rfl⟩
    have ha := associations_tie c (tokensV all) wf f rest (fun x hx => tokOK_int (hok x (hsuf.subset hx)))
    have hsf := treeAssociationsBody_suffix f rest
    simp only [treeDecl, List.map_cons]
    rw [parseDecl_associations]
    cases hrec : treeAssociationsBody f rest with
    | none => rw [hrec] at ha; rw [ha]; rfl
    | some q =>
      obtain ⟨cs, irest⟩ := q
      rw [hrec] at ha
      obtain ⟨as, hp, -, hv⟩ := ha
      simp only [hp, Option.map_some]
      refine ⟨_, rfl, (hsf _ _ hrec).trans hsuf, _, rfl, fun g up hg _ _ => ?_⟩
      simp only [depth_rule, PT.depthL] at hg
      exact hv g i j _ (by simp only [assocsNode, depth_rule, PT.depthL]; omega)
  · rw [h1]; exact h2

end MalVerif.Py.Visitor
