import MalVerif.Py.RelNeo4jDefs
import MalVerif.Py.TieModelAssoc
/-!
# `Rel`: the state of the translated `get_model` and the reference state — lemmas

Lookups read the same through `Rel`, allocation garbage keeps `Rel`, the rounds of the two loops keep it, and
`Rel` implies the observational equivalence `Ser.SameModel`.
-/
namespace MalVerif.PyN.Sim
open MalVerif MalVerif.MS

/-! ## P1: lookups -/

theorem find?_congr' {α : Type} {p q : α → Bool} : ∀ {l : List α}, (∀ a ∈ l, p a = q a) → l.find? p = l.find? q
  | [], _ => rfl
  | a :: t, h => by
    simp only [List.find?_cons, h a (List.mem_cons_self ..)]
    rw [find?_congr' (fun b hb => h b (List.mem_cons_of_mem _ hb))]

theorem any_congr' {α : Type} {p q : α → Bool} : ∀ {l : List α}, (∀ a ∈ l, p a = q a) → l.any p = l.any q
  | [], _ => rfl
  | a :: t, h => by
    simp only [List.any_cons, h a (List.mem_cons_self ..)]
    rw [any_congr' (fun b hb => h b (List.mem_cons_of_mem _ hb))]

theorem Rel.getAssetById {m m' : St} (h : Rel m m') (i : Int) : getAssetById m i = getAssetById m' i := by
  unfold MS.getAssetById
  rw [← h.assets]
  apply find?_congr'
  intro a ha
  rw [(h.aobj a (h.live a ha)).1]

theorem getAssetById_mem {m : St} {i : Int} {a : Nat} (h : getAssetById m i = some a) : a ∈ m.assets := by
  unfold MS.getAssetById at h
  exact List.mem_of_find?_eq_some h

theorem Rel.type_eq {m m' : St} (h : Rel m m') {a : Nat} (ha : a ∈ m.assets) : (m.aobj a).type = (m'.aobj a).type :=
  (h.aobj a (h.live a ha)).2.2.1

/-- a group of `_type_to_association` read through the object store -/
def getO (d : List (String × List AssocObj)) (k : String) : List AssocObj :=
  ((d.find? (·.1 = k)).map (·.2)).getD []

theorem matL_ttaGet (m : St) (k : String) : matL m (ttaGet m.typeToAssoc k) = getO (matT m) k := by
  unfold getO matT ttaGet
  induction m.typeToAssoc with
  | nil => rfl
  | cons e t ih =>
    simp only [List.map_cons, List.find?_cons]
    by_cases he : e.1 = k
    · simp [he]
    · simp only [he, decide_false]
      exact ih

theorem getO_mem {d : List (String × List AssocObj)} {k : String} {o : AssocObj} (h : o ∈ getO d k) :
    ∃ e ∈ d, o ∈ e.2 := by
  unfold getO at h
  cases hf : d.find? (·.1 = k) with
  | none => rw [hf] at h; simp at h
  | some e =>
    rw [hf] at h
    exact ⟨e, List.mem_of_find?_eq_some hf, h⟩

/-- the existence test on an association object -/
def linksO (m : St) (a b : Nat) (o : AssocObj) : Bool :=
  (o.left.map (fun x => (m.aobj x).id)).contains (m.aobj a).id &&
  (o.right.map (fun x => (m.aobj x).id)).contains (m.aobj b).id

theorem assocExists_eq (m : St) (cls : String) (a b : Nat) :
    assocExists m cls a b = (getO (matT m) cls).any (linksO m a b) := by
  rw [← matL_ttaGet]
  unfold MS.assocExists matL linksO
  rw [List.any_map]
  rfl

theorem Rel.map_id {m m' : St} (h : Rel m m') {xs : List Nat} (hx : ∀ a ∈ xs, a < m.afresh) :
    xs.map (fun x => (m.aobj x).id) = xs.map (fun x => (m'.aobj x).id) :=
  List.map_congr_left (fun a ha => (h.aobj a (hx a ha)).1)

theorem Rel.assocExists {m m' : St} (h : Rel m m') (cls : String) {a b : Nat} (ha : a < m.afresh) (hb : b < m.afresh) :
    assocExists m cls a b = assocExists m' cls a b := by
  rw [assocExists_eq, assocExists_eq, ← h.tta]
  apply any_congr'
  intro o ho
  obtain ⟨e, he, hoe⟩ := getO_mem ho
  have hm := h.membersT e he o hoe
  unfold linksO
  rw [h.map_id (xs := o.left) (fun x hx => hm x (List.mem_append_left _ hx)),
    h.map_id (xs := o.right) (fun x hx => hm x (List.mem_append_right _ hx)),
    (h.aobj a ha).1, (h.aobj b hb).1]

/-! ## P2: garbage -/

theorem matL_congr {m m2 : St} {ls : List Nat} (h : ∀ l ∈ ls, m2.lobj l = m.lobj l) : matL m2 ls = matL m ls :=
  List.map_congr_left h

theorem garbage_lobj (m : St) (o : AssocObj) {l : Nat} (hl : l < m.lfresh) : (garbage m o).lobj l = m.lobj l := by
  show (if l = m.lfresh then o else m.lobj l) = _
  rw [if_neg (Nat.ne_of_lt hl)]

theorem matT_congr {m m2 : St} (ht : m2.typeToAssoc = m.typeToAssoc)
    (h : ∀ e ∈ m.typeToAssoc, ∀ l ∈ e.2, m2.lobj l = m.lobj l) : matT m2 = matT m := by
  unfold matT
  rw [ht]
  apply List.map_congr_left
  intro e he
  rw [matL_congr (h e he)]

theorem Rel.garbage {m m' : St} (h : Rel m m') (o : AssocObj) : Rel (garbage m o) m' := by
  have hL : matL (Sim.garbage m o) m.associations = matL m m.associations :=
    matL_congr (fun l hl => garbage_lobj m o (h.lfreshL.1 l hl))
  have hT : matT (Sim.garbage m o) = matT m :=
    matT_congr rfl (fun e he l hl => garbage_lobj m o (h.lfreshL.2 e he l hl))
  refine ⟨h.assets, h.afresh, h.live, h.aobj, h.ids, h.names, h.nextId, h.attackers, h.tfresh, h.tlive, h.tobj,
    h.entries, ?_, ?_, ⟨?_, ?_⟩, h.lfreshR, ?_, ?_⟩
  · exact hL.trans h.assocs
  · exact hT.trans h.tta
  · exact fun l hl => Nat.lt_succ_of_lt (h.lfreshL.1 l hl)
  · exact fun e he l hl => Nat.lt_succ_of_lt (h.lfreshL.2 e he l hl)
  · intro o' ho'
    exact h.members o' (hL ▸ ho')
  · intro e he
    exact h.membersT e (hT ▸ he)

/-! ## P3: adding an association -/

theorem mem_ttaAdd {d : List (String × List Nat)} {k : String} {l : Nat} {e : String × List Nat}
    (he : e ∈ ttaAdd d k l) {x : Nat} (hx : x ∈ e.2) : x = l ∨ ∃ e' ∈ d, x ∈ e'.2 := by
  unfold ttaAdd at he
  split at he
  · obtain ⟨e', he', rfl⟩ := List.mem_map.1 he
    split at hx
    · rcases List.mem_append.1 hx with hx | hx
      · exact .inr ⟨e', he', hx⟩
      · exact .inl (List.mem_singleton.1 hx)
    · exact .inr ⟨e', he', hx⟩
  · rcases List.mem_append.1 he with he | he
    · exact .inr ⟨e, he, hx⟩
    · rw [List.mem_singleton.1 he] at hx
      exact .inl (List.mem_singleton.1 hx)

/-- `ttaAdd` on groups of objects -/
def addO (d : List (String × List AssocObj)) (k : String) (o : AssocObj) : List (String × List AssocObj) :=
  if d.any (·.1 = k) then d.map (fun e => if e.1 = k then (k, e.2 ++ [o]) else e) else d ++ [(k, [o])]

theorem map_ttaAdd (f : Nat → AssocObj) (d : List (String × List Nat)) (k : String) (l : Nat) :
    (ttaAdd d k l).map (fun e => (e.1, e.2.map f)) = addO (d.map (fun e => (e.1, e.2.map f))) k (f l) := by
  unfold ttaAdd addO
  rw [List.any_map]
  have hc : ((fun e : String × List AssocObj => decide (e.1 = k)) ∘ fun e : String × List Nat => (e.1, e.2.map f)) =
      fun e => decide (e.1 = k) := rfl
  rw [hc]
  split
  · rw [List.map_map, List.map_map]
    apply List.map_congr_left
    intro e _
    simp only [Function.comp]
    split <;> simp
  · simp

theorem addAssocSt_lobj_lt (m : St) (o : AssocObj) {l : Nat} (hl : l < m.lfresh) : (addAssocSt m o).lobj l = m.lobj l := by
  show (if l = m.lfresh then o else m.lobj l) = _
  rw [if_neg (Nat.ne_of_lt hl)]

theorem addAssocSt_lobj_self (m : St) (o : AssocObj) : (addAssocSt m o).lobj m.lfresh = o := by
  show (if m.lfresh = m.lfresh then o else m.lobj m.lfresh) = _
  rw [if_pos rfl]

theorem matL_addAssocSt {m : St} (o : AssocObj) (hl : ∀ l ∈ m.associations, l < m.lfresh) :
    matL (addAssocSt m o) (addAssocSt m o).associations = matL m m.associations ++ [o] := by
  show matL (addAssocSt m o) (m.associations ++ [m.lfresh]) = _
  unfold matL
  rw [List.map_append, List.map_singleton, addAssocSt_lobj_self]
  congr 1
  exact List.map_congr_left (fun l h => addAssocSt_lobj_lt m o (hl l h))

theorem matT_addAssocSt {m : St} (o : AssocObj) (hl : ∀ e ∈ m.typeToAssoc, ∀ l ∈ e.2, l < m.lfresh) :
    matT (addAssocSt m o) = addO (matT m) o.cls o := by
  show (ttaAdd m.typeToAssoc o.cls m.lfresh).map (fun e => (e.1, e.2.map (addAssocSt m o).lobj)) = _
  rw [map_ttaAdd, addAssocSt_lobj_self]
  congr 1
  unfold matT matL
  apply List.map_congr_left
  intro e he
  rw [List.map_congr_left (fun l h => addAssocSt_lobj_lt m o (hl e he l h))]

theorem addAssocSt_AEq (m : St) (o : AssocObj) (a : Nat) : AEq ((addAssocSt m o).aobj a) (m.aobj a) :=
  ⟨rfl, rfl, rfl, rfl, rfl⟩

theorem AEq.trans {a b c : AssetObj} (h : AEq a b) (h' : AEq b c) : AEq a c :=
  ⟨h.1.trans h'.1, h.2.1.trans h'.2.1, h.2.2.1.trans h'.2.2.1, h.2.2.2.1.trans h'.2.2.2.1, h.2.2.2.2.trans h'.2.2.2.2⟩

theorem AEq.symm {a b : AssetObj} (h : AEq a b) : AEq b a :=
  ⟨h.1.symm, h.2.1.symm, h.2.2.1.symm, h.2.2.2.1.symm, h.2.2.2.2.symm⟩

theorem Rel.addAssocSt {m m' : St} (h : Rel m m') (o : AssocObj) (hm : ∀ a ∈ o.left ++ o.right, a < m.afresh) :
    Rel (addAssocSt m o) (addAssocSt m' o) := by
  have hlt : ∀ {s : St} {l : Nat}, l < s.lfresh → l < (MS.addAssocSt s o).lfresh := fun hl => Nat.lt_succ_of_lt hl
  have hfr : ∀ {s : St}, (∀ l ∈ s.associations, l < s.lfresh) → ∀ l ∈ (MS.addAssocSt s o).associations,
      l < (MS.addAssocSt s o).lfresh := by
    intro s hs l hl
    rcases List.mem_append.1 hl with hl | hl
    · exact Nat.lt_succ_of_lt (hs l hl)
    · rw [List.mem_singleton.1 hl]; exact Nat.lt_succ_self _
  have hfrT : ∀ {s : St}, (∀ e ∈ s.typeToAssoc, ∀ l ∈ e.2, l < s.lfresh) → ∀ e ∈ (MS.addAssocSt s o).typeToAssoc,
      ∀ l ∈ e.2, l < (MS.addAssocSt s o).lfresh := by
    intro s hs e he l hl
    rcases mem_ttaAdd he hl with rfl | ⟨e', he', hl'⟩
    · exact Nat.lt_succ_self _
    · exact Nat.lt_succ_of_lt (hs e' he' l hl')
  refine ⟨h.assets, h.afresh, h.live, ?_, h.ids, h.names, h.nextId, h.attackers, h.tfresh, h.tlive, h.tobj,
    ?_, ?_, ?_, ⟨hfr h.lfreshL.1, hfrT h.lfreshL.2⟩, ⟨hfr h.lfreshR.1, hfrT h.lfreshR.2⟩, ?_, ?_⟩
  · intro a ha
    exact (addAssocSt_AEq m o a).trans ((h.aobj a ha).trans (addAssocSt_AEq m' o a).symm)
  · exact h.entries
  · rw [matL_addAssocSt o h.lfreshL.1, matL_addAssocSt o h.lfreshR.1, h.assocs]
  · rw [matT_addAssocSt o h.lfreshL.2, matT_addAssocSt o h.lfreshR.2, h.tta]
  · rw [matL_addAssocSt o h.lfreshL.1]
    intro o' ho'
    rcases List.mem_append.1 ho' with ho' | ho'
    · exact h.members o' ho'
    · rw [List.mem_singleton.1 ho']; exact hm
  · intro e he o' ho'
    obtain ⟨e0, he0, rfl⟩ := List.mem_map.1 he
    obtain ⟨l, hl, rfl⟩ := List.mem_map.1 ho'
    rcases mem_ttaAdd he0 hl with rfl | ⟨e', he', hl'⟩
    · rw [addAssocSt_lobj_self]; exact hm
    · rw [addAssocSt_lobj_lt m o (h.lfreshL.2 e' he' l hl')]
      exact h.membersT _ (List.mem_map.2 ⟨e', he', rfl⟩) _ (List.mem_map.2 ⟨l, hl', rfl⟩)

theorem Rel.map_name {m m' : St} (h : Rel m m') {xs : List Nat} (hx : ∀ a ∈ xs, a < m.afresh) :
    xs.map (fun x => (m.aobj x).name) = xs.map (fun x => (m'.aobj x).name) :=
  List.map_congr_left (fun a ha => (h.aobj a (hx a ha)).2.1)

theorem any_any_congr {xs ys : List Nat} {p q : Nat → Nat → Bool} (h : ∀ a ∈ xs, ∀ b ∈ ys, p a b = q a b) :
    xs.any (fun a => ys.any (fun b => p a b)) = xs.any (fun a => ys.any (fun b => q a b)) :=
  any_congr' (fun a ha => any_congr' (fun b hb => h a ha b hb))

theorem Rel.assocCheck {m m' : St} (h : Rel m m') (o : AssocObj) (hm : ∀ a ∈ o.left ++ o.right, a < m.afresh) :
    PyM.Tie.assocCheck m o = PyM.Tie.assocCheck m' o := by
  unfold PyM.Tie.assocCheck
  rw [h.assets, h.map_name (xs := o.left) (fun a ha => hm a (List.mem_append_left _ ha)),
    h.map_name (xs := o.right) (fun a ha => hm a (List.mem_append_right _ ha)),
    any_any_congr (p := fun a b => MS.assocExists m o.cls a b) (q := fun a b => MS.assocExists m' o.cls a b)
      (fun a ha b hb => h.assocExists o.cls (hm a (List.mem_append_left _ ha)) (hm b (List.mem_append_right _ hb)))]

theorem Rel.addAssocCore {m m' : St} (h : Rel m m') (o : AssocObj) (hm : ∀ a ∈ o.left ++ o.right, a < m.afresh) :
    RelR (PyM.addAssocCore m o) (PyM.addAssocCore m' o) := by
  rw [PyM.Tie.addAssocCore_eq, PyM.Tie.addAssocCore_eq, h.assocCheck o hm]
  cases PyM.Tie.assocCheck m' o with
  | some e => exact rfl
  | none => exact h.addAssocSt o hm

theorem RelR.of_ok {r : Except Err St} {m2' : St} (h : RelR r (.ok m2')) : ∃ m2, r = .ok m2 ∧ Rel m2 m2' := by
  cases r with
  | ok a => exact ⟨a, rfl, h⟩
  | error e => exact h.elim

theorem Rel.ensurePair {L : Lang} {m m' m2' : St} (h : Rel m m') {cls : String} {c : AssocClass} {fa sa : Nat}
    (hfa : fa ∈ m.assets) (hsa : sa ∈ m.assets) (hc : (assocClasses L).find? (·.cls = cls) = some c)
    (hok : Neo.ensurePair L m' cls fa sa = .ok m2') :
    ∃ m2, ensurePairG m { cls := cls, lf := c.lf, rf := c.rf, left := [fa], right := [sa] } fa sa = .ok m2 ∧ Rel m2 m2' := by
  unfold Neo.ensurePair at hok
  unfold ensurePairG
  have hex := h.assocExists cls (h.live fa hfa) (h.live sa hsa)
  simp only [hex]
  split at hok
  next hE =>
    rw [if_pos hE]
    injection hok with hok
    subst hok
    exact ⟨_, rfl, h.garbage _⟩
  next hE =>
    rw [if_neg hE]
    rw [PyM.addAssociation_eq_core, hc] at hok
    simp only at hok
    split at hok
    · cases hok
    · have hr := h.addAssocCore { cls := cls, lf := c.lf, rf := c.rf, left := [fa], right := [sa] } (by
        intro a ha
        simp only [List.cons_append, List.nil_append, List.mem_cons, List.not_mem_nil, or_false] at ha
        rcases ha with rfl | rfl
        · exact h.live _ hfa
        · exact h.live _ hsa)
      rw [hok] at hr
      exact hr.of_ok

/-! ## P4: a round of the second loop -/

theorem Rel.pairAssoc {L : Lang} {nodes : List AssocDecl} {m m' m2' : St} (h : Rel m m') (ai bi : Nat) (lf rf : String) (lid rid : Int)
    (hlf : lf ≠ "firstSteps") (hrf : rf ≠ "firstSteps")
    (hres : ∀ la ra d, MS.getAssetById m' lid = some la → MS.getAssetById m' rid = some ra →
       LG.lookupAssoc L nodes lf rf (m'.aobj la).type (m'.aobj ra).type = .ok (some d) → Resolved L d)
    (hok : Neo.pairBody L nodes m' (ai, lf, rf, bi) (some lid) (some rid) = .ok m2') :
    ∃ m2, pairAssocG L nodes m lf rf lid rid = .ok m2 ∧ Rel m2 m2' := by
  unfold Neo.pairBody at hok
  simp only [hlf, hrf, decide_false, Bool.or_self, Bool.false_eq_true, if_false] at hok
  unfold pairAssocG
  rw [h.getAssetById lid, h.getAssetById rid]
  cases hla : MS.getAssetById m' lid with
  | none => rw [hla] at hok; cases hok
  | some la =>
    cases hra : MS.getAssetById m' rid with
    | none => rw [hla, hra] at hok; cases hok
    | some ra =>
      rw [hla, hra] at hok
      simp only at hok ⊢
      have hlam : la ∈ m.assets := h.assets ▸ getAssetById_mem hla
      have hram : ra ∈ m.assets := h.assets ▸ getAssetById_mem hra
      rw [h.type_eq hlam, h.type_eq hram]
      cases hlk : LG.lookupAssoc L nodes lf rf (m'.aobj la).type (m'.aobj ra).type with
      | error e => rw [hlk] at hok; cases hok
      | ok od =>
        cases od with
        | none =>
          rw [hlk] at hok
          injection hok with hok
          subst hok
          exact ⟨m, rfl, h⟩
        | some d =>
          rw [hlk] at hok
          simp only at hok ⊢
          have hR := hres la ra d hla hra hlk
          split at hok
          next hd =>
            rw [if_pos hd]
            exact h.ensurePair (c := classOf L d) hlam hram hR.cls hok
          next hd =>
            rw [if_neg hd]
            exact h.ensurePair (c := classOf L d) hram hlam hR.cls hok

/-! ## P6: `Rel` is the observational equivalence of C19 -/

/-- the view of an association object -/
def viewO (m : St) (o : AssocObj) : Ser.AssocView :=
  ⟨o.cls, o.lf, o.left.map (fun a => (m.aobj a).id), o.rf, o.right.map (fun a => (m.aobj a).id), o.extras⟩

theorem map_assocView (m : St) (ls : List Nat) : ls.map (Ser.assocView m) = (matL m ls).map (viewO m) := by
  unfold matL
  rw [List.map_map]
  rfl

theorem AEq.objView {L : Lang} {o o' : AssetObj} (h : AEq o o') : Ser.objView L o = Ser.objView L o' := by
  unfold Ser.objView Ser.effDefenses
  rw [h.1, h.2.1, h.2.2.1, h.2.2.2.1, h.2.2.2.2]

theorem Rel.sameModel {L : Lang} {m m' : St} (h : Rel m m') : Ser.SameModel L m m' := by
  refine ⟨?_, ?_, ?_⟩
  · rw [← h.assets]
    apply List.map_congr_left
    intro a ha
    exact (h.aobj a (h.live a ha)).objView
  · rw [map_assocView, map_assocView, ← h.assocs]
    apply List.map_congr_left
    intro o ho
    have hm := h.members o ho
    unfold viewO
    rw [h.map_id (xs := o.left) (fun x hx => hm x (List.mem_append_left _ hx)),
      h.map_id (xs := o.right) (fun x hx => hm x (List.mem_append_right _ hx))]
  · rw [← h.attackers]
    apply List.map_congr_left
    intro t ht
    have hlt := h.tlive t ht
    unfold Ser.attView
    rw [← h.tobj t hlt]
    congr 1
    apply List.map_congr_left
    intro ep hep
    rw [(h.aobj ep.1 (h.entries t hlt ep hep)).1]

theorem Rel.reserved {m m' : St} (h : Rel m m') : m.assetIds = m'.assetIds ∧ m.assetNames = m'.assetNames ∧ m.nextId = m'.nextId :=
  ⟨h.ids, h.names, h.nextId⟩

/-! ## P7: the invariant on the side of the translated program -/

theorem garbage_inv {m : St} (h : Inv m) (o : AssocObj) : Inv (garbage m o) := by
  have hlo : ∀ l ∈ m.associations, (garbage m o).lobj l = m.lobj l :=
    fun l hl => garbage_lobj m o (h.links.fresh l hl)
  refine ⟨⟨h.assets.nodup, h.assets.fresh, h.assets.ids_inj, h.assets.names_inj, h.assets.ids_exact, h.assets.ids_nodup,
    h.assets.names_exact, h.assets.names_nodup, h.assets.id_lt_next⟩,
    ⟨h.links.nodup, fun l hl => Nat.lt_succ_of_lt (h.links.fresh l hl), ?_, ?_, ?_, ?_, ?_⟩,
    ⟨?_, h.tta.groups_nodup, h.tta.nonempty, h.tta.keys⟩,
    ⟨h.att.nodup, h.att.fresh, h.att.entry_live, h.att.entry_nodup⟩⟩
  · intro l hl; rw [hlo l hl]; exact h.links.left_live l hl
  · intro l hl; rw [hlo l hl]; exact h.links.right_live l hl
  · intro l hl; rw [hlo l hl]; exact h.links.left_nodup l hl
  · intro l hl; rw [hlo l hl]; exact h.links.right_nodup l hl
  · intro a ha l
    show (m.aobj a).assocs.count l = if l ∈ m.associations then _ else 0
    by_cases hl : l ∈ m.associations
    · rw [if_pos hl, hlo l hl]
      have := h.links.mirror a ha l
      rw [if_pos hl] at this
      exact this
    · rw [if_neg hl]
      have := h.links.mirror a ha l
      rw [if_neg hl] at this
      exact this
  · intro c l
    show l ∈ ttaGet m.typeToAssoc c ↔ l ∈ m.associations ∧ ((garbage m o).lobj l).cls = c
    constructor
    · intro hl
      have h2 := (h.tta.iff c l).1 hl
      exact ⟨h2.1, by rw [hlo l h2.1]; exact h2.2⟩
    · intro ⟨h1, h2⟩
      rw [hlo l h1] at h2
      exact (h.tta.iff c l).2 ⟨h1, h2⟩

theorem addAssocCore_inv {m m2 : St} (h : Inv m) {o : AssocObj} (hln : o.left.Nodup) (hrn : o.right.Nodup)
    (hok : PyM.addAssocCore m o = .ok m2) : Inv m2 := by
  unfold PyM.addAssocCore at hok
  split at hok
  · cases hok
  next h1 =>
  split at hok
  · cases hok
  split at hok
  · cases hok
  next h3 =>
  split at hok
  · cases hok
  split at hok
  · cases hok
  injection hok with hok
  subst hok
  simp only [List.all_eq_true, Bool.not_eq_eq_eq_not, Bool.not_true,
    Bool.not_eq_false] at h1 h3
  exact addAssocSt_inv m o h (fun a ha => List.contains_iff_mem.1 (h1 a ha))
    (fun a ha => List.contains_iff_mem.1 (h3 a ha)) hln hrn

theorem ensurePairG_inv {m m2 : St} (h : Inv m) {o : AssocObj} {fa sa : Nat} (hl : o.left = [fa]) (hr : o.right = [sa])
    (hok : ensurePairG m o fa sa = .ok m2) : Inv m2 := by
  unfold ensurePairG at hok
  split at hok
  · injection hok with hok
    subst hok
    exact garbage_inv h o
  · exact addAssocCore_inv h (by rw [hl]; simp) (by rw [hr]; simp) hok

theorem pairAssocG_inv {L : Lang} {nodes : List AssocDecl} {m m2 : St} (h : Inv m) {lf rf : String} {lid rid : Int}
    (hok : pairAssocG L nodes m lf rf lid rid = .ok m2) : Inv m2 := by
  unfold pairAssocG at hok
  split at hok
  · split at hok
    · split at hok
      · exact ensurePairG_inv h rfl rfl hok
      · exact ensurePairG_inv h rfl rfl hok
    · injection hok with hok
      subst hok
      exact h
    · cases hok
  · cases hok

/-! ## P5: the asset loop -/

theorem AEq.refl (o : AssetObj) : AEq o o := ⟨rfl, rfl, rfl, rfl, rfl⟩

theorem Rel.addAssetSt {m m' : St} (h : Rel m m') (o : AssetObj) : Rel (addAssetSt m o) (addAssetSt m' o) := by
  have hao : ∀ a, a < m.afresh → (MS.addAssetSt m o).aobj a = m.aobj a := by
    intro a ha
    show (if a = m.afresh then o else m.aobj a) = _
    rw [if_neg (Nat.ne_of_lt ha)]
  have hao' : ∀ a, a < m.afresh → (MS.addAssetSt m' o).aobj a = m'.aobj a := by
    intro a ha
    show (if a = m'.afresh then o else m'.aobj a) = _
    rw [if_neg (h.afresh ▸ Nat.ne_of_lt ha)]
  refine ⟨?_, ?_, ?_, ?_, ?_, ?_, ?_, h.attackers, h.tfresh, h.tlive, h.tobj, ?_, h.assocs, h.tta, h.lfreshL, h.lfreshR,
    ?_, ?_⟩
  · show m.assets ++ [m.afresh] = m'.assets ++ [m'.afresh]
    rw [h.assets, h.afresh]
  · show m.afresh + 1 = m'.afresh + 1
    rw [h.afresh]
  · intro a ha
    show a < m.afresh + 1
    rcases List.mem_append.1 ha with ha | ha
    · exact Nat.lt_succ_of_lt (h.live a ha)
    · rw [List.mem_singleton.1 ha]; exact Nat.lt_succ_self _
  · intro a ha
    show AEq (if a = m.afresh then o else m.aobj a) (if a = m'.afresh then o else m'.aobj a)
    rw [← h.afresh]
    by_cases hx : a = m.afresh
    · rw [if_pos hx, if_pos hx]; exact AEq.refl o
    · rw [if_neg hx, if_neg hx]
      exact h.aobj a (Nat.lt_of_le_of_ne (Nat.le_of_lt_succ ha) hx)
  · show setAdd m.assetIds o.id = setAdd m'.assetIds o.id
    rw [h.ids]
  · show setAdd m.assetNames o.name = setAdd m'.assetNames o.name
    rw [h.names]
  · show max (o.id + 1) m.nextId = max (o.id + 1) m'.nextId
    rw [h.nextId]
  · intro t ht ep hep
    exact Nat.lt_succ_of_lt (h.entries t ht ep hep)
  · intro o' ho' a ha
    exact Nat.lt_succ_of_lt (h.members o' ho' a ha)
  · intro e he o' ho' a ha
    exact Nat.lt_succ_of_lt (h.membersT e he o' ho' a ha)

theorem Rel.addAsset {L : Lang} {m m' : St} (h : Rel m m') (ty : String) (nm : Option String) (defs : List (String × String)) (ok : Bool) (ex : String) (id : Option Int) (dup : Bool) :
    RelR (addAsset L m ty nm defs ok ex id dup) (addAsset L m' ty nm defs ok ex id dup) := by
  rw [addAsset_eq, addAsset_eq]
  have hd : dupRejected m nm dup = dupRejected m' nm dup := by
    unfold dupRejected; rw [h.names]
  have hn : newAsset m ty nm defs ex id = newAsset m' ty nm defs ex id := by
    unfold newAsset chosenName; rw [h.names, h.nextId]
  rw [hd, hn, h.ids, h.nextId]
  split
  · exact rfl
  split
  · exact rfl
  split
  · exact rfl
  split
  · exact rfl
  exact h.addAssetSt _

theorem addAttacker_entry (m : St) (nm : Option String) (id : Option Int) (t : Nat) :
    ((addAttacker m nm id).tobj t).entry = if t = m.tfresh then [] else (m.tobj t).entry := by
  unfold MS.addAttacker
  simp only
  split <;> rfl

theorem Rel.addAttacker {m m' : St} (h : Rel m m') (nm : Option String) (id : Option Int) : Rel (addAttacker m nm id) (addAttacker m' nm id) := by
  refine ⟨h.assets, h.afresh, h.live, h.aobj, h.ids, h.names, ?_, ?_, ?_, ?_, ?_, ?_, h.assocs, h.tta, h.lfreshL, h.lfreshR,
    h.members, h.membersT⟩
  · show max (id.getD m.nextId + 1) m.nextId = max (id.getD m'.nextId + 1) m'.nextId
    rw [h.nextId]
  · show m.attackers ++ [m.tfresh] = m'.attackers ++ [m'.tfresh]
    rw [h.attackers, h.tfresh]
  · show m.tfresh + 1 = m'.tfresh + 1
    rw [h.tfresh]
  · intro t ht
    show t < m.tfresh + 1
    rcases List.mem_append.1 ht with ht | ht
    · exact Nat.lt_succ_of_lt (h.tlive t ht)
    · rw [List.mem_singleton.1 ht]; exact Nat.lt_succ_self _
  · intro t ht
    unfold MS.addAttacker
    simp only
    rw [← h.tfresh, ← h.nextId]
    by_cases hx : t = m.tfresh
    · rw [if_pos hx, if_pos hx]
    · rw [if_neg hx, if_neg hx]
      exact h.tobj t (Nat.lt_of_le_of_ne (Nat.le_of_lt_succ ht) hx)
  · intro t ht ep hep
    rw [addAttacker_entry] at hep
    by_cases hx : t = m.tfresh
    · rw [if_pos hx] at hep
      cases hep
    · rw [if_neg hx] at hep
      exact h.entries t (Nat.lt_of_le_of_ne (Nat.le_of_lt_succ ht) hx) ep hep

theorem Rel.assetStepN {L : Lang} {m m' : St} (h : Rel m m') (n : Neo.DbNode) : RelR (Neo.assetStepN L m n) (Neo.assetStepN L m' n) := by
  unfold Neo.assetStepN
  split
  · exact rfl
  · split
    · exact h.addAttacker _ _
    · exact h.addAsset _ _ _ _ _ _ _

theorem Rel.foldlM_assetStepN {L : Lang} (ns : List Neo.DbNode) {m m' : St} (h : Rel m m') :
    RelR (ns.foldlM (Neo.assetStepN L) m) (ns.foldlM (Neo.assetStepN L) m') := by
  induction ns generalizing m m' with
  | nil => exact h
  | cons n t ih =>
    rw [List.foldlM_cons, List.foldlM_cons]
    have hs := h.assetStepN (L := L) n
    cases h1 : Neo.assetStepN L m n with
    | error e =>
      cases h2 : Neo.assetStepN L m' n with
      | error e' => rw [h1, h2] at hs; exact hs
      | ok b => rw [h1, h2] at hs; exact hs.elim
    | ok a =>
      cases h2 : Neo.assetStepN L m' n with
      | error e' => rw [h1, h2] at hs; exact hs.elim
      | ok b =>
        rw [h1, h2] at hs
        exact ih hs

end MalVerif.PyN.Sim
