import MalVerif.Py.TieLangTypeSpec
import MalVerif.PropsGen.C03
/-!
# Loop 5 of the translated `_generate_graph` (`phaseSteps`): the attack-step objects

For every asset object, in order, the loop calls the `lang` domain's translated `_get_attacks_for_asset_type` on the
specification heap (which allocates there) and creates one `LanguageGraphAttackStep` object per entry of the answer.

* `phaseSteps_eq`: the loop is `runSteps` (outer body `stepsBody`, inner body `innerBody`, both written by hand);
* `innerBody_*`: frame of one inner iteration (`g`, `cdesc`, `recLimit`, `spec` untouched, one object appended to
  `steps`, its reference appended to `asteps asset` and to `attack_steps`);
* `GInv`: the graph-side invariant; `ginv_inner`, `ginv_addSteps` (inner loop), `ginv_start`;
* `runSteps_spec`: the specification heaps of the loop are those of `TieLang.runLookups` on the names of the asset
  objects, so `PropsGen.C03.lookup_history` reads every answer through the final heap;
* `listsAll_*`: every list cell the lookup allocates or extends is built from elements of existing cells;
* `phaseSteps_spec`: `AfterAssocs` → `AfterSteps`.
-/
namespace MalVerif.Py.TieLangType
open MalVerif MalVerif.Py MalVerif.Py.LSpec MalVerif.Py.LType MalVerif.Py.GenLangType MalVerif.LG

/-! ## every list cell of the specification heap holds only elements of the lists that were there before -/

/-- every element of every list object satisfies `P` -/
def ListsAll (P : PyExpr → Prop) (s : LS) : Prop := ∀ l ∈ s.exprL, ∀ e ∈ l, P e

theorem listsAll_list {P : PyExpr → Prop} {s : LS} (h : ListsAll P s) (l : LRef) : ∀ e ∈ s.list l, P e := by
  intro e he
  unfold LS.list at he
  cases hl : s.exprL[l]? with
  | none => rw [hl] at he; simp at he
  | some c =>
    rw [hl] at he
    exact h c (List.mem_of_getElem? hl) e he

theorem listsAll_append {P : PyExpr → Prop} {s s' : LS} (h : ListsAll P s) (c : List PyExpr) (hc : ∀ e ∈ c, P e)
    (he : s'.exprL = s.exprL ++ [c]) : ListsAll P s' := by
  intro l hl e hel
  rw [he, List.mem_append] at hl
  rcases hl with hl | hl
  · exact h l hl e hel
  · simp only [List.mem_singleton] at hl; subst hl; exact hc e hel

theorem listsAll_deepcopyStep {P : PyExpr → Prop} {s : LS} (h : ListsAll P s) (r : SRef) :
    ListsAll P (LSpec.deepcopyStep s r).1 := by
  unfold LSpec.deepcopyStep
  cases hr : (s.step r).reaches with
  | none => exact h
  | some rr => exact listsAll_append h _ (listsAll_list h _) rfl

theorem listsAll_mergePy {P : PyExpr → Prop} (st : LS × TieLang.Dict) (step : SRef) (h : ListsAll P st.1) :
    ListsAll P (TieLang.mergePy st step).1 := by
  unfold TieLang.mergePy
  split
  · exact listsAll_deepcopyStep h step
  · split
    · exact h
    · split
      · exact listsAll_deepcopyStep h step
      · split
        · intro l hl e hel
          rcases List.mem_or_eq_of_mem_set hl with hl | hl
          · exact h l hl e hel
          · subst hl
            rw [List.mem_append] at hel
            rcases hel with hel | hel
            · exact listsAll_list h _ e hel
            · exact listsAll_list h _ e hel
        · exact listsAll_append h _ (listsAll_list h _) rfl

theorem listsAll_foldl_mergePy {P : PyExpr → Prop} (steps : List SRef) (st : LS × TieLang.Dict) (h : ListsAll P st.1) :
    ListsAll P (steps.foldl TieLang.mergePy st).1 := by
  induction steps generalizing st with
  | nil => exact h
  | cons x xs ih => exact ih _ (listsAll_mergePy st x h)

theorem listsAll_attacksPy {P : PyExpr → Prop} (fuel : Nat) (s : LS) (t : String) (h : ListsAll P s) (r : LS × TieLang.Dict)
    (hr : TieLang.attacksPy fuel s t = .ok r) : ListsAll P r.1 := by
  induction fuel generalizing t r with
  | zero => simp [TieLang.attacksPy] at hr
  | succ f ih =>
    unfold TieLang.attacksPy at hr
    split at hr
    · cases hr; exact h
    · split at hr
      · split at hr
        · next up hup =>
          cases hr
          exact listsAll_foldl_mergePy _ _ (ih _ _ hup)
        · cases hr
      · cases hr
        exact listsAll_foldl_mergePy _ _ h

theorem listsAll_lookup {P : PyExpr → Prop} (s : LS) (t : String) (h : ListsAll P s) (r : LS × TieLang.Dict)
    (hr : TieLang.lookup s t = .ok r) : ListsAll P r.1 := by
  unfold TieLang.lookup at hr
  rw [TieLang.attacks_eq] at hr
  exact listsAll_attacksPy _ s t h r hr

theorem listsAll_runLookups {P : PyExpr → Prop} (qs : List String) (s : LS) (h : ListsAll P s) (r : LS × List TieLang.Dict)
    (hr : TieLang.runLookups s qs = .ok r) : ListsAll P r.1 := by
  induction qs generalizing s r with
  | nil => simp only [TieLang.runLookups] at hr; cases hr; exact h
  | cons t ts ih =>
    simp only [TieLang.runLookups] at hr
    split at hr
    · cases hr
    · next r1 h1 =>
      split at hr
      · cases hr
      · next rest h2 =>
        cases hr
        exact ih _ (listsAll_lookup s t h r1 h1) rest h2

/-- one iteration of the inner loop: a new attack-step object for the entry `e` of the answer -/
def innerBody (asset : GARef) (s : TH) (e : String × SRef) : TH :=
  (((s.newStep e.1 (s.spec.step e.2).type asset (s.spec.step e.2).ttc (s.spec.step e.2).metaTxt).1.setStepObj
      (s.newStep e.1 (s.spec.step e.2).type asset (s.spec.step e.2).ttc (s.spec.step e.2).metaTxt).2
      { (s.newStep e.1 (s.spec.step e.2).type asset (s.spec.step e.2).ttc (s.spec.step e.2).metaTxt).1.gstep
          (s.newStep e.1 (s.spec.step e.2).type asset (s.spec.step e.2).ttc (s.spec.step e.2).metaTxt).2 with
        attributes := some e.2 }).appendAStep asset
      (s.newStep e.1 (s.spec.step e.2).type asset (s.spec.step e.2).ttc (s.spec.step e.2).metaTxt).2).appendAttackSteps
    (s.newStep e.1 (s.spec.step e.2).type asset (s.spec.step e.2).ttc (s.spec.step e.2).metaTxt).2

/-- the inner loop -/
def addSteps (asset : GARef) (acc : TieLang.Dict) (s : TH) : TH := acc.foldl (innerBody asset) s

/-- one iteration of the outer loop -/
def stepsBody (asset : GARef) (s : TH) : Except PyErr TH :=
  match pyStr (s.g.asset asset).name with
  | .error e => .error e
  | .ok n =>
    match TieLang.lookup s.spec n with
    | .error e => .error e
    | .ok r => .ok (addSteps asset r.2 { s with spec := r.1 })

/-- the outer loop -/
def runSteps : List GARef → TH → Except PyErr TH
  | [], s => .ok s
  | a :: as, s =>
    match stepsBody a s with
    | .error e => .error e
    | .ok s1 => runSteps as s1

theorem forIn_runSteps (as : List GARef) (f : GARef → TH → Except PyErr (ForInStep TH))
    (h : ∀ a s, f a s = match stepsBody a s with | .error e => .error e | .ok s1 => .ok (.yield s1)) (s : TH) :
    forIn as s f = runSteps as s := by
  induction as generalizing s with
  | nil => rfl
  | cons a as ih =>
    rw [List.forIn_cons, h a s]
    unfold runSteps
    cases stepsBody a s with
    | error e => rfl
    | ok s1 => exact ih s1

theorem phaseSteps_eq (s : TH) : phaseSteps s = runSteps s.g.assets s := by
  unfold phaseSteps
  simp only [bind_pure]
  apply forIn_runSteps
  intro a s
  unfold stepsBody
  cases hn : pyStr (s.g.asset a).name with
  | error e => rfl
  | ok n =>
    simp only [bind, Except.bind]
    unfold TieLang.lookup
    cases hl : GenLang.lg__get_attacks_for_asset_type (pyFuelL s.spec) s.spec n with
    | error e => rfl
    | ok r =>
      simp only []
      rw [TieLang.forIn_yield_ok r.2 _ (innerBody a) ?hb]
      case hb => intro x st; rfl
      rfl

/-! ## frame of one inner iteration -/

theorem innerBody_g (a : GARef) (s : TH) (e : String × SRef) : (innerBody a s e).g = s.g := rfl
theorem innerBody_cdesc (a : GARef) (s : TH) (e : String × SRef) : (innerBody a s e).cdesc = s.cdesc := rfl
theorem innerBody_recLimit (a : GARef) (s : TH) (e : String × SRef) : (innerBody a s e).recLimit = s.recLimit := rfl
theorem innerBody_spec (a : GARef) (s : TH) (e : String × SRef) : (innerBody a s e).spec = s.spec := rfl
theorem innerBody_attack_steps (a : GARef) (s : TH) (e : String × SRef) :
    (innerBody a s e).attack_steps = s.attack_steps ++ [s.steps.length] := rfl
theorem innerBody_asteps (a : GARef) (s : TH) (e : String × SRef) (x : GARef) :
    (innerBody a s e).asteps x = if x = a then s.asteps a ++ [s.steps.length] else s.asteps x := rfl

/-- the object the iteration creates -/
def stepObj (a : GARef) (s : TH) (e : String × SRef) : PyLGStep :=
  { name := e.1, type := (s.spec.step e.2).type, asset := a, ttc := (s.spec.step e.2).ttc,
    description := (s.spec.step e.2).metaTxt, attributes := some e.2 }

theorem set_append_length {α : Type} (l : List α) (x y : α) : (l ++ [x]).set l.length y = l ++ [y] := by
  induction l with
  | nil => rfl
  | cons z l ih => simp [ih]

theorem innerBody_steps (a : GARef) (s : TH) (e : String × SRef) :
    (innerBody a s e).steps = s.steps ++ [stepObj a s e] := by
  unfold innerBody TH.appendAttackSteps TH.appendAStep TH.setStepObj TH.newStep TH.gstep stepObj
  simp only [set_append_length, List.getElem?_concat_length, Option.getD_some]

theorem innerBody_gstep_old (a : GARef) (s : TH) (e : String × SRef) (t : GSRef) (ht : t < s.steps.length) :
    (innerBody a s e).gstep t = s.gstep t := by
  unfold TH.gstep
  rw [innerBody_steps, List.getElem?_append_left ht]

theorem innerBody_gstep_new (a : GARef) (s : TH) (e : String × SRef) :
    (innerBody a s e).gstep s.steps.length = stepObj a s e := by
  unfold TH.gstep
  rw [innerBody_steps]; simp

theorem flatMap_congr_mem {α β : Type} (l : List α) (f g : α → List β) (h : ∀ x ∈ l, f x = g x) :
    l.flatMap f = l.flatMap g := by
  induction l with
  | nil => rfl
  | cons x l ih =>
    rw [List.flatMap_cons, List.flatMap_cons, h x (by simp), ih (fun y hy => h y (List.mem_cons_of_mem _ hy))]

theorem innerBody_steps_length (a : GARef) (s : TH) (e : String × SRef) :
    (innerBody a s e).steps.length = s.steps.length + 1 := by
  rw [innerBody_steps]; simp

/-- the objects of an asset other than the one being processed -/
theorem stepsOfAsset_old {s : TH} {r : GARef} {acc : TieLang.Dict} (h : StepsOfAsset s r acc) (a : GARef)
    (e : String × SRef) (hr : r ≠ a) : StepsOfAsset (innerBody a s e) r acc := by
  have hast : (innerBody a s e).asteps r = s.asteps r := by rw [innerBody_asteps, if_neg hr]
  have hg : ∀ t ∈ s.asteps r, (innerBody a s e).gstep t = s.gstep t :=
    fun t ht => innerBody_gstep_old a s e t (h.2 t ht).1
  unfold StepsOfAsset
  rw [hast]
  refine ⟨?_, ?_⟩
  · rw [← h.1]
    apply List.map_congr_left
    intro t ht
    rw [hg t ht]
  · intro t ht
    rw [hg t ht, innerBody_steps_length]
    have := h.2 t ht
    exact ⟨Nat.lt_succ_of_lt this.1, this.2⟩

/-- the objects of the asset being processed: one more, for the entry `e` -/
theorem stepsOfAsset_new {s : TH} {a : GARef} {acc : TieLang.Dict} (h : StepsOfAsset s a acc) (e : String × SRef) :
    StepsOfAsset (innerBody a s e) a (acc ++ [e]) := by
  have hast : (innerBody a s e).asteps a = s.asteps a ++ [s.steps.length] := by rw [innerBody_asteps, if_pos rfl]
  have hg : ∀ t ∈ s.asteps a, (innerBody a s e).gstep t = s.gstep t :=
    fun t ht => innerBody_gstep_old a s e t (h.2 t ht).1
  unfold StepsOfAsset
  rw [hast]
  refine ⟨?_, ?_⟩
  · rw [List.map_append, List.map_append, ← h.1]
    congr 1
    · apply List.map_congr_left
      intro t ht
      rw [hg t ht]
    · simp only [List.map_cons, List.map_nil, innerBody_gstep_new, stepObj]
  · intro t ht
    rw [innerBody_steps_length]
    rcases List.mem_append.1 ht with ht | ht
    · rw [hg t ht]
      have := h.2 t ht
      exact ⟨Nat.lt_succ_of_lt this.1, this.2⟩
    · simp only [List.mem_singleton] at ht
      subst ht
      rw [innerBody_gstep_new]
      exact ⟨Nat.lt_succ_self _, rfl, rfl, rfl⟩

/-- the graph side of the loop: nothing of `g` / `cdesc` / `recLimit` changes, the step objects are
`0, …, |steps| - 1` in order of creation, `done` lists the processed asset objects with their answers -/
structure GInv (s0 s : TH) (done : List (GARef × TieLang.Dict)) : Prop where
  g_eq : s.g = s0.g
  cdesc_eq : s.cdesc = s0.cdesc
  rec_eq : s.recLimit = s0.recLimit
  range : s.attack_steps = List.range s.steps.length
  all : s.attack_steps = (done.map (·.1)).flatMap s.asteps
  rest : ∀ r, r ∉ done.map (·.1) → s.asteps r = []
  per : ∀ p ∈ done, StepsOfAsset s p.1 p.2

theorem ginv_inner {s0 s : TH} {done : List (GARef × TieLang.Dict)} {a : GARef} {pre : TieLang.Dict}
    (h : GInv s0 s (done ++ [(a, pre)])) (hna : a ∉ done.map (·.1)) (e : String × SRef) :
    GInv s0 (innerBody a s e) (done ++ [(a, pre ++ [e])]) := by
  have hmap : ∀ q : TieLang.Dict, (done ++ [(a, q)]).map (·.1) = done.map (·.1) ++ [a] := by intro q; simp
  have hcongr : (done.map (·.1)).flatMap (innerBody a s e).asteps = (done.map (·.1)).flatMap s.asteps := by
    apply flatMap_congr_mem
    intro r hr
    have hra : r ≠ a := fun hra => hna (hra ▸ hr)
    rw [innerBody_asteps, if_neg hra]
  refine ⟨h.g_eq, h.cdesc_eq, h.rec_eq, ?_, ?_, ?_, ?_⟩
  · rw [innerBody_attack_steps, innerBody_steps_length, h.range, List.range_succ]
  · rw [innerBody_attack_steps, h.all, hmap, hmap, List.flatMap_append, List.flatMap_append, hcongr]
    simp only [List.flatMap_cons, List.flatMap_nil, List.append_nil, innerBody_asteps, if_true, List.append_assoc]
  · intro r hr
    rw [hmap] at hr
    have hra : r ≠ a := fun hra => hr (by simp [hra])
    rw [innerBody_asteps, if_neg hra]
    exact h.rest r (by rw [hmap]; exact hr)
  · intro p hp
    rcases List.mem_append.1 hp with hp | hp
    · have hpa : p.1 ≠ a := fun hpa => hna (hpa ▸ List.mem_map.2 ⟨p, hp, rfl⟩)
      exact stepsOfAsset_old (h.per p (List.mem_append_left _ hp)) a e hpa
    · simp only [List.mem_singleton] at hp
      subst hp
      exact stepsOfAsset_new (h.per (a, pre) (by simp)) e

theorem addSteps_spec (a : GARef) (acc : TieLang.Dict) (s : TH) : (addSteps a acc s).spec = s.spec := by
  unfold addSteps
  induction acc generalizing s with
  | nil => rfl
  | cons e acc ih => rw [List.foldl_cons, ih, innerBody_spec]

/-- **the inner loop**: one attack-step object per entry of the answer -/
theorem ginv_addSteps {s0 : TH} {done : List (GARef × TieLang.Dict)} {a : GARef} (hna : a ∉ done.map (·.1))
    (acc : TieLang.Dict) : ∀ (s : TH) (pre : TieLang.Dict), GInv s0 s (done ++ [(a, pre)]) →
      GInv s0 (addSteps a acc s) (done ++ [(a, pre ++ acc)]) := by
  unfold addSteps
  induction acc with
  | nil => intro s pre h; simpa using h
  | cons e acc ih =>
    intro s pre h
    have := ih (innerBody a s e) (pre ++ [e]) (ginv_inner h hna e)
    simpa using this

/-- entering the iteration for asset `a`: the new specification heap, no object for `a` yet -/
theorem ginv_start {s0 s : TH} {done : List (GARef × TieLang.Dict)} {a : GARef} (h : GInv s0 s done)
    (hna : a ∉ done.map (·.1)) (sp : LS) : GInv s0 { s with spec := sp } (done ++ [(a, [])]) := by
  have ha : s.asteps a = [] := h.rest a hna
  refine ⟨h.g_eq, h.cdesc_eq, h.rec_eq, h.range, ?_, ?_, ?_⟩
  · show s.attack_steps = _
    rw [List.map_append, List.flatMap_append, ← h.all]
    simp [ha]
  · intro r hr
    exact h.rest r (fun hm => hr (by rw [List.map_append]; exact List.mem_append_left _ hm))
  · intro p hp
    rcases List.mem_append.1 hp with hp | hp
    · exact h.per p hp
    · simp only [List.mem_singleton] at hp
      subst hp
      refine ⟨?_, ?_⟩
      · show (s.asteps a).map _ = _
        rw [ha]; rfl
      · intro t ht
        have ht : t ∈ s.asteps a := ht
        rw [ha] at ht; cases ht

/-- **the outer loop against `runLookups`**: the specification heaps of the loop are those of the history of
lookups for the names of the asset objects, the graph side is `GInv` -/
theorem runSteps_spec {s0 : TH} (nm : GARef → String) (as : List GARef) :
    ∀ (s : TH) (done : List (GARef × TieLang.Dict)) (sp' : LS) (answers : List TieLang.Dict),
      (∀ a ∈ as, (s0.g.asset a).name = some (nm a)) →
      TieLang.runLookups s.spec (as.map nm) = .ok (sp', answers) →
      GInv s0 s done → as.Nodup → (∀ a ∈ as, a ∉ done.map (·.1)) →
      ∃ s', runSteps as s = .ok s' ∧ s'.spec = sp' ∧ answers.length = as.length ∧
        GInv s0 s' (done ++ as.zip answers) := by
  induction as with
  | nil =>
    intro s done sp' answers _ hr hg _ _
    simp only [List.map_nil, TieLang.runLookups] at hr
    cases hr
    exact ⟨s, rfl, rfl, rfl, by simpa using hg⟩
  | cons a as ih =>
    intro s done sp' answers hnm hr hg hnd hdone
    simp only [List.map_cons, TieLang.runLookups] at hr
    split at hr
    · cases hr
    · next r1 h1 =>
      split at hr
      · cases hr
      · next rest h2 =>
        cases hr
        have hna : a ∉ done.map (·.1) := hdone a (by simp)
        have hname : (s.g.asset a).name = some (nm a) := by rw [hg.g_eq]; exact hnm a (by simp)
        have hbody : stepsBody a s = .ok (addSteps a r1.2 { s with spec := r1.1 }) := by
          unfold stepsBody
          rw [hname]
          simp only [pyStr, h1]
        have hg1 : GInv s0 (addSteps a r1.2 { s with spec := r1.1 }) (done ++ [(a, r1.2)]) := by
          have := ginv_addSteps hna r1.2 _ [] (ginv_start hg hna r1.1)
          simpa using this
        obtain ⟨s', e', hsp, hlen, hg'⟩ := ih (addSteps a r1.2 { s with spec := r1.1 }) (done ++ [(a, r1.2)]) rest.1 rest.2
          (fun x hx => hnm x (List.mem_cons_of_mem _ hx))
          (by rw [addSteps_spec]; exact h2) hg1 (List.nodup_cons.1 hnd).2
          (by
            intro x hx hm
            rw [List.map_append, List.mem_append] at hm
            rcases hm with hm | hm
            · exact hdone x (List.mem_cons_of_mem _ hx) hm
            · simp only [List.map_cons, List.map_nil, List.mem_singleton] at hm
              subst hm
              exact (List.nodup_cons.1 hnd).1 hx)
        refine ⟨s', ?_, hsp, by simp [hlen], ?_⟩
        · unfold runSteps; rw [hbody]; exact e'
        · simpa [List.zip_cons_cons, List.append_assoc] using hg'

theorem zip_of_map_eq {α β γ : Type} (f : β → γ) (g : α → γ) : ∀ (as : List α) (bs : List β),
    bs.map f = as.map g → ∀ p ∈ as.zip bs, f p.2 = g p.1 := by
  intro as
  induction as with
  | nil => intro bs _ p hp; simp at hp
  | cons a as ih =>
    intro bs h p hp
    cases bs with
    | nil => simp at hp
    | cons b bs =>
      simp only [List.map_cons, List.cons.injEq] at h
      simp only [List.zip_cons_cons, List.mem_cons] at hp
      rcases hp with hp | hp
      · subst hp; exact h.1
      · exact ih bs h.2 p hp

theorem mem_zip_of_mem {α β : Type} : ∀ (as : List α) (bs : List β), bs.length = as.length →
    ∀ a ∈ as, ∃ b, (a, b) ∈ as.zip bs := by
  intro as
  induction as with
  | nil => intro bs _ a ha; simp at ha
  | cons x as ih =>
    intro bs h a ha
    cases bs with
    | nil => simp at h
    | cons b bs =>
      simp only [List.mem_cons] at ha
      rcases ha with ha | ha
      · subst ha; exact ⟨b, by simp⟩
      · obtain ⟨b', hb'⟩ := ih bs (by simpa using h) a ha
        exact ⟨b', by simp [hb']⟩

/-- **loop 5 of the translated `_generate_graph`** -/
theorem phaseSteps_spec (spec : LS) (R : Nat) (nodes : List AssocDecl) (hok : SpecOK spec) (hac : Acyclic (absLang spec))
    (s4 : TH) (h4 : AfterAssocs s4 spec R nodes) : ∃ s5, phaseSteps s4 = .ok s5 ∧ AfterSteps s5 spec R nodes := by
  obtain ⟨sp', answers, hrun, hval, hlang, _, hassets, _, _, _⟩ :=
    PropsGen.C03.lookup_history spec _ _ _ hok.below (s4.g.assets.map (gname s4.g)) (fun t _ => hac t)
  have hg0 : GInv s4 s4 [] :=
    ⟨rfl, rfl, rfl, by rw [h4.frame.attack_steps, h4.frame.steps]; rfl, by rw [h4.frame.attack_steps]; rfl,
      fun r _ => h4.frame.asteps r, fun p hp => by cases hp⟩
  obtain ⟨s5, hrun5, hsp, hlen, hg⟩ := runSteps_spec (s0 := s4) (gname s4.g) s4.g.assets s4 [] sp' answers
    (fun a ha => TieLangGraph.repG_name_eq h4.repG ha) (by rw [h4.frame.spec_eq]; exact hrun) hg0
    h4.repG.refs_nodup (fun a _ hm => by cases hm)
  rw [List.nil_append] at hg
  have hfst : (s4.g.assets.zip answers).map (·.1) = s4.g.assets := by
    apply List.map_fst_zip; omega
  have hlists : ListsAll ExprWF sp' :=
    listsAll_runLookups _ spec hok.lists_wf (sp', answers) hrun
  refine ⟨s5, by rw [phaseSteps_eq]; exact hrun5, ?_⟩
  refine ⟨?_, ?_, ?_, ?_, ?_, ?_, ?_, ?_, ?_, ?_, ?_, ?_⟩
  · rw [hg.rec_eq]; exact h4.frame.rec_eq
  · rw [hg.g_eq]; exact h4.repG
  · rw [hg.g_eq]; exact h4.repA
  · have := h4.assocs
    unfold RepAssocs at this ⊢
    rw [hg.g_eq]; exact this
  · have : fullDeclOf s5 = fullDeclOf s4 := by
      funext c; unfold fullDeclOf; rw [hg.g_eq, hg.cdesc_eq]
    rw [this, hg.g_eq]; exact h4.full
  · rw [hsp]; exact hlang
  · rw [hsp]; exact hassets
  · rw [hsp, hassets]; exact hok.vars_wf
  · rw [hsp]; exact hlists
  · rw [hg.all, hfst, hg.g_eq]
  · rw [hg.range]; exact List.nodup_range
  · intro r hr
    rw [hg.g_eq] at hr
    obtain ⟨acc, hacc⟩ := mem_zip_of_mem s4.g.assets answers hlen r hr
    refine ⟨acc, ?_, hg.per _ hacc⟩
    rw [hsp, hg.g_eq]
    have := zip_of_map_eq (absAnswer sp') (fun r => (absLang spec).foldSteps (gname s4.g r)) s4.g.assets answers
      (by rw [hval, List.map_map]; rfl) _ hacc
    exact this
end MalVerif.Py.TieLangType
