import MalVerif.Py.TieLangTypeSpec
import MalVerif.Props.C15
/-!
# `Built s L g`: the heap `s` is a finished language graph of `L`, read back it is the hand model's graph `g`

The conclusion of the general tie of `_generate_graph` (`Py/TieLangTypeGeneral.lean`), and what follows from it for
the clauses of C15 — independent of how it was established.
-/
namespace MalVerif.Py.TieLangType
open MalVerif MalVerif.Py MalVerif.Py.LSpec MalVerif.Py.LType MalVerif.Py.GenLangType MalVerif.LG

/-- the heap `s` represents the language graph `g` of `L` -/
structure Built (s : TH) (L : Lang) (g : Graph) : Prop where
  /-- the specification, the asset objects (`RepG`), the association objects (`RepA`) and the per-asset association
  lists (`RepAssocs`) represent `L` and the nodes `g.assocs` -/
  repT : RepT s L g.assocs
  /-- the association objects read back (all ten entries of a declaration) are the nodes -/
  full : s.g.associations.map (fullDeclOf s) = g.assocs
  /-- the attack-step objects of every asset are its own and inherited steps -/
  steps : stepsOf s = L.assets.map (fun a => (a.name, (L.foldSteps a.name).map (·.1)))
  /-- the links in the `children` dictionaries are the hand model's links (as a multiset: a `children` dictionary
  groups the links of a step by the name of the target step, `link_order_differs`) -/
  links : (linksOf s).Perm g.links
  /-- … and the `parents` dictionaries hold the same links -/
  mirrored : (linksOf s).Perm (parentLinksOf s)
  /-- the variable definitions of the specification held by the heap are encoded step expressions -/
  vars_wf : ∀ a ∈ s.spec.assets, ∀ v ∈ a.variables, ExprWF v.stepExpression

variable {s : TH} {L : Lang} {g : Graph}

/-- one asset object per declared asset, in declaration order -/
theorem Built.asset_names (h : Built s L g) : s.g.assets.map (gname s.g) = L.assets.map (·.name) := by
  have hn := h.repT.repG.names
  have : (s.g.assets.map (fun r => (s.g.asset r).name)).map (·.getD "") = (L.assets.map (fun a => some a.name)).map (·.getD "") := by
    rw [hn]
  simp only [List.map_map, Function.comp_def, Option.getD_some] at this
  exact this

/-- `super_assets` of the object of a declaration: the object of its `superAsset` -/
theorem Built.super_assets (h : Built s L g) (r : GARef) (hr : r ∈ s.g.assets) :
    (s.g.asset r).super_assets = ((superOf L (gname s.g r)).bind (refOf s.g)).toList :=
  h.repT.repG.supers r hr

/-- `sub_assets`: the objects that list it as super asset, in creation order -/
theorem Built.sub_assets (h : Built s L g) (r : GARef) (hr : r ∈ s.g.assets) :
    (s.g.asset r).sub_assets = s.g.assets.filter (fun c => (s.g.asset c).super_assets.contains r) :=
  h.repT.repG.subs r hr

/-- every link of the heap is a link of the hand model and conversely -/
theorem Built.mem_links (h : Built s L g) (l : Link) : l ∈ linksOf s ↔ l ∈ g.links := h.links.mem_iff

/-- every link appears in the source's `children` iff it appears in the target's `parents` -/
theorem Built.mem_parent_links (h : Built s L g) (l : Link) : l ∈ linksOf s ↔ l ∈ parentLinksOf s :=
  h.mirrored.mem_iff

/-- the `associations` list of an asset object, read back, is the hand model's `assocsOf` -/
theorem Built.assoc_list (h : Built s L g) (r : GARef) (hr : r ∈ s.g.assets) :
    (s.g.asset r).associations.map (fullDeclOf s) = assocsOf L g.assocs (gname s.g r) := by
  rw [h.repT.assocs r hr, ← h.full]
  unfold assocsOf
  rw [List.filter_map]
  rfl

/-- **each asset lists exactly the associations in which it or an ancestor takes part** (signatures pairwise
distinct; false without, KF-C15-1) -/
theorem Built.assoc_list_exact (h : Built s L g) (hg : generate L = .ok g) (hsig : SigDistinct L) (r : GARef)
    (hr : r ∈ s.g.assets) (d : AssocDecl) :
    d ∈ (s.g.asset r).associations.map (fullDeclOf s) ↔
      d ∈ L.assocs ∧ (L.isSub (gname s.g r) d.leftAsset = true ∨ L.isSub (gname s.g r) d.rightAsset = true) := by
  obtain ⟨_, _, ha, _⟩ := generate_ok hg
  rw [h.assoc_list r hr]
  exact C15.assocs_of_asset L g.assocs ha hsig (gname s.g r) d

/-- **every attack-graph edge is predicted by a link of the heap** (`C15.overapprox` through `Built.links`) -/
theorem Built.overapprox (h : Built s L g) (hg : generate L = .ok g)
    (m : Inst) (ns : List GNode) (es : List (Nat × Nat)) (hgen : genGraph L m = .ok (ns, es))
    (hac : Acyclic L) (hfu : FieldsUnique L g.assocs) (hns : NoShadow L) (hv : ValidFor L m g.assocs)
    (hexpr : ∀ A ∈ L.assets, ∀ st ∈ L.foldSteps A.name, ∀ e ∈ reachExprs st.2,
      StarTyped L g.assocs (genFuel L) e A.name ∧ (lastStep e).isSome = true)
    (a b : Nat) (hab : (a, b) ∈ es) :
    ∃ n ∈ ns, n.id = a ∧ ∃ X ∈ m.assets, n.asset = X.id ∧
    ∃ t ∈ ns, t.id = b ∧ ∃ Y ∈ m.assets, ∃ tn U, t.fullName = Y.name ++ ":" ++ tn ∧
      ({ srcAsset := X.type, srcStep := n.step, dstAsset := U, dstStep := tn } : Link) ∈ linksOf s ∧
      L.isSub Y.type U = true := by
  obtain ⟨n, hn, ha, X, hX, hnx, t, ht, hb, Y, hY, tn, U, hfull, hl, hsub⟩ :=
    C15.overapprox L m g ns es hg hgen hac hfu hns hv hexpr a b hab
  exact ⟨n, hn, ha, X, hX, hnx, t, ht, hb, Y, hY, tn, U, hfull, (h.mem_links _).2 hl, hsub⟩

end MalVerif.Py.TieLangType
