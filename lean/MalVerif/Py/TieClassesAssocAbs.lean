import MalVerif.Py.TieClassesAssoc
/-!
# Tie of the `classes` domain: reading the association group back

* `assocPart_entryAt`: in `assocPart lg` (what the translated `_generate_associations` builds, `generate_associations_eq`)
  the entry of an association is found by the two-level lookup (`entryAt`): under its name, or - for a shared
  name - under `name_Left_Right` inside the container stored under the name.
* `entryClass_assocEntry`: that entry, read as a class of the hand model, has the declared field names, end types
  and maxima (`repAssoc`), provided the two field names differ; `entryClass_same_field` / `assocEntry_same_field`:
  otherwise the entry has a single property, the one of the right end (KF-C06-1).
-/
namespace MalVerif.Py.Classes
open MalVerif.Py.Visitor (V dictPut dictPutAll)
open MalVerif.Py

/-- the class name of an association: its name, or `name_Left_Right` when the name is shared -/
def slotCls (lg : LG) (a : LGAssoc) : String := if isDup lg a then subName lg a else a.name

/-- the entry of `a` is where the two-level lookup looks for it -/
def HasEntry (lg : LG) (defs : List (String × V)) (a : LGAssoc) : Prop :=
  entryAt defs a.name (slotCls lg a) = some (assocEntry lg (slotCls lg a) a)

theorem assocEntry_congr (lg : LG) (t : String) (a b : LGAssoc) (h : assocProps lg b = assocProps lg a) :
    assocEntry lg t b = assocEntry lg t a := by
  unfold assocEntry; rw [h]

theorem step_hasEntry (lg : LG) (a : LGAssoc) (ha : a ∈ lg.associations)
    (hsame : ∀ b ∈ lg.associations, b.name = a.name → slotCls lg b = slotCls lg a → assocProps lg b = assocProps lg a)
    (acc : List V × List (String × V)) (b : LGAssoc) (hb : b ∈ lg.associations) (hinv : AssocInv lg acc.2)
    (h : b = a ∨ HasEntry lg acc.2 a) : HasEntry lg (assocStep lg acc b).2 a := by
  by_cases hn : b.name = a.name
  · have hdup : isDup lg b = isDup lg a := isDup_congr lg a b hn
    cases hd : isDup lg a with
    | false =>
      have hbd : isDup lg b = false := hdup.trans hd
      have hs : slotCls lg a = a.name := by simp [slotCls, hd]
      have hsb : slotCls lg b = b.name := by simp [slotCls, hbd]
      have hprops := hsame b hb hn (by rw [hs, hsb, hn])
      unfold HasEntry entryAt
      simp only [assocStep, hbd, Bool.false_eq_true, if_false]
      rw [← hn, lookup_dictPut_same, hs, ← hn]
      show (if b.name = b.name then some (assocEntry lg b.name b) else none) = _
      rw [if_pos rfl, assocEntry_congr lg _ a b hprops]
    | true =>
      have hbd : isDup lg b = true := hdup.trans hd
      have hs : slotCls lg a = subName lg a := by simp [slotCls, hd]
      have hsb : slotCls lg b = subName lg b := by simp [slotCls, hbd]
      unfold HasEntry entryAt
      simp only [assocStep, hbd, if_true]
      rw [← hn, lookup_dictPut_same, hs]
      show (dictPut (subsOf ((acc.2.lookup b.name).getD (container b.name [] []))) (subName lg b)
        (assocEntry lg (subName lg b) b)).lookup (subName lg a) = _
      by_cases hk : subName lg b = subName lg a
      · have hprops := hsame b hb hn (by rw [hs, hsb, hk])
        rw [← hk, lookup_dictPut_same, assocEntry_congr lg _ a b hprops]
      · rw [lookup_dictPut_other _ _ _ _ (fun e => hk e.symm)]
        have hne : b ≠ a := fun e => hk (by rw [e])
        have he := h.resolve_left hne
        unfold HasEntry entryAt at he
        rw [← hn, hs] at he
        cases hl : acc.2.lookup b.name with
        | none => rw [hl] at he; cases he
        | some c =>
          rw [hl] at he
          have hc := hinv b hb hbd c hl
          rw [hc] at he
          rw [Option.getD_some]
          exact he
  · have hl : (assocStep lg acc b).2.lookup a.name = acc.2.lookup a.name := by
      unfold assocStep
      split <;> exact lookup_dictPut_other _ _ _ _ (fun e => hn e.symm)
    have hne : b ≠ a := fun e => hn (by rw [e])
    have he := h.resolve_left hne
    unfold HasEntry entryAt at he ⊢
    rw [hl]; exact he

theorem fold_hasEntry (lg : LG) (a : LGAssoc) (ha : a ∈ lg.associations)
    (hsame : ∀ b ∈ lg.associations, b.name = a.name → slotCls lg b = slotCls lg a → assocProps lg b = assocProps lg a) :
    ∀ (l : List LGAssoc) (acc : List V × List (String × V)), (∀ b ∈ l, b ∈ lg.associations) → AssocInv lg acc.2 →
      (a ∈ l ∨ HasEntry lg acc.2 a) → HasEntry lg (l.foldl (assocStep lg) acc).2 a := by
  intro l
  induction l with
  | nil => intro acc _ _ h; exact h.resolve_left (by simp)
  | cons b bs ih =>
    intro acc hl hinv h
    rw [List.foldl_cons]
    have hb := hl b List.mem_cons_self
    apply ih _ (fun x hx => hl x (List.mem_cons_of_mem _ hx)) (assocInv_step lg acc b hb hinv)
    by_cases hba : b = a
    · exact Or.inr (step_hasEntry lg a ha hsame acc b hb hinv (Or.inl hba))
    · rcases h with h | h
      · rcases List.mem_cons.1 h with h | h
        · exact absurd h.symm hba
        · exact Or.inl h
      · exact Or.inr (step_hasEntry lg a ha hsame acc b hb hinv (Or.inr h))

theorem fold_inv (lg : LG) : ∀ (l : List LGAssoc) (acc : List V × List (String × V)), (∀ b ∈ l, b ∈ lg.associations) →
    AssocInv lg acc.2 → AssocInv lg (l.foldl (assocStep lg) acc).2 := by
  intro l
  induction l with
  | nil => intro acc _ h; exact h
  | cons b bs ih =>
    intro acc hl hinv
    exact ih _ (fun x hx => hl x (List.mem_cons_of_mem _ hx)) (assocInv_step lg acc b (hl b List.mem_cons_self) hinv)

/-- the invariant holds of the result -/
theorem assocPart_inv (lg : LG) : AssocInv lg (assocPart lg).2 :=
  fold_inv lg lg.associations ([], []) (fun _ h => h) (assocInv_nil lg)

/-- MAIN: the entry of `a` is found where the two-level lookup looks for it -/
theorem assocPart_entryAt (lg : LG) (a : LGAssoc) (ha : a ∈ lg.associations)
    (hsame : ∀ b ∈ lg.associations, b.name = a.name → slotCls lg b = slotCls lg a → assocProps lg b = assocProps lg a) :
    entryAt (assocPart lg).2 a.name (slotCls lg a) = some (assocEntry lg (slotCls lg a) a) :=
  fold_hasEntry lg a ha hsame lg.associations ([], []) (fun _ h => h) (assocInv_nil lg) (Or.inl ha)
end MalVerif.Py.Classes

namespace MalVerif.Py.Classes
open MalVerif.Py.Visitor (V dictPut dictPutAll)
open MalVerif.Py MalVerif MalVerif.MS

theorem assetRef_inj {a b : String} (h : assetRef a = assetRef b) : a = b := by
  unfold assetRef at h
  have := congrArg String.toList h
  rw [String.toList_append, String.toList_append] at this
  exact String.toList_inj.1 (List.append_cancel_left this)

theorem find_assetRef (names : List String) (t : String) (h : t ∈ names) :
    names.find? (fun n => assetRef n == assetRef t) = some t := by
  induction names with
  | nil => cases h
  | cons n ns ih =>
    rw [List.find?_cons]
    by_cases hn : n = t
    · subst hn; simp
    · have : (assetRef n == assetRef t) = false := by
        simpa using fun e => hn (assetRef_inj e)
      rw [this]
      exact ih ((List.mem_cons.1 h).resolve_left (fun e => hn e.symm))

theorem fieldOf_fieldSpec (lg : LG) (f : LGField) (an fn : String) (mx : Option Nat) (names : List String)
    (hn : names = lg.assets.map (fun r => (lg.asset r).name))
    (h : repField lg f an fn mx = true) :
    fieldOf names (f.fieldname, fieldSpec lg f) = some (fn, an, mx) := by
  unfold repField at h
  simp only [Bool.and_eq_true, beq_iff_eq, List.contains_iff_mem] at h
  obtain ⟨⟨⟨hmem, hname⟩, hfn⟩, hmax⟩ := h
  have hin : an ∈ names := by
    rw [hn, ← hname]; exact List.mem_map.2 ⟨_, hmem, rfl⟩
  obtain ⟨fa, ffn, fmax⟩ := f
  simp only at hmem hname hfn hmax hin
  subst hfn
  have hfind := find_assetRef names an hin
  rw [← hname] at hfind
  cases fmax <;> cases mx <;> simp only [repMax, Bool.false_eq_true, beq_iff_eq] at hmax
  · -- None / no maximum
    simp only [fieldOf, fieldSpec, Visitor.isNone, if_true, List.append_nil, dget, List.lookup, Option.bind, strOf,
      String.reduceBEq, maxOf, refV, hfind, Option.map]
    rw [hname]
  · rename_i i k
    subst hmax
    simp only [fieldOf, fieldSpec, Visitor.isNone, Bool.false_eq_true, if_false, dget, List.lookup, Option.bind, strOf,
      String.reduceBEq, maxOf, refV, hfind, Option.map, List.cons_append, List.nil_append]
    simp only [Int.natCast_nonneg, if_true, Int.toNat_natCast]
    rw [hfind, hname]

/-- an association entry read back as a class of the hand model (the two field names differ) -/
theorem entryClass_assocEntry (lg : LG) (a : LGAssoc) (d : AssocDecl) (cls : String) (names : List String)
    (hn : names = lg.assets.map (fun r => (lg.asset r).name))
    (hr : repAssoc lg a d = true) (hf : d.leftField ≠ d.rightField) :
    entryClass names cls (assocEntry lg cls a) =
      some { cls := cls, lf := d.leftField, ltype := d.leftAsset, lmax := d.leftMax,
             rf := d.rightField, rtype := d.rightAsset, rmax := d.rightMax } := by
  unfold repAssoc at hr
  simp only [Bool.and_eq_true, beq_iff_eq] at hr
  obtain ⟨⟨_, hl⟩, hrr⟩ := hr
  have hlf : a.left_field.fieldname = d.leftField := by
    unfold repField at hl; simp only [Bool.and_eq_true, beq_iff_eq] at hl; exact hl.1.2
  have hrf : a.right_field.fieldname = d.rightField := by
    unfold repField at hrr; simp only [Bool.and_eq_true, beq_iff_eq] at hrr; exact hrr.1.2
  have hne : ¬ (a.left_field.fieldname == a.right_field.fieldname) = true := by
    rw [hlf, hrf]; simpa using hf
  have hp : propsOf (assocEntry lg cls a) =
      [(a.left_field.fieldname, fieldSpec lg a.left_field), (a.right_field.fieldname, fieldSpec lg a.right_field)] := by
    show assocProps lg a = _
    unfold assocProps dictPut
    simp only [List.any_cons, List.any_nil, Bool.or_false, hne, if_false, List.cons_append, List.nil_append, Bool.false_eq_true]
  unfold entryClass
  rw [hp]
  simp only [fieldOf_fieldSpec lg _ _ _ _ names hn hl, fieldOf_fieldSpec lg _ _ _ _ names hn hrr]

/-- KF-C06-1: when both ends carry the same field name the entry has ONE property, the one of the right end -/
theorem assocEntry_same_field (lg : LG) (a : LGAssoc) (cls : String)
    (h : a.left_field.fieldname = a.right_field.fieldname) :
    propsOf (assocEntry lg cls a) = [(a.right_field.fieldname, fieldSpec lg a.right_field)] := by
  show assocProps lg a = _
  unfold assocProps dictPut
  simp [h]

theorem entryClass_same_field (lg : LG) (a : LGAssoc) (cls : String) (names : List String)
    (h : a.left_field.fieldname = a.right_field.fieldname) : entryClass names cls (assocEntry lg cls a) = none := by
  unfold entryClass
  rw [assocEntry_same_field lg a cls h]
end MalVerif.Py.Classes
