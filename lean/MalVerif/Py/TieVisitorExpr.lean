import MalVerif.Py.TieVisitorBase
/-!
# The expression part of the visitor tie

`treeExpr` (tree builder) / `parseExpr` (model parser) / `visitExpr` (translated visitor): the builder succeeds exactly
when the parser does, on the same tokens, and the translated visitor turns the tree into the rendering of the
parser's expression.
-/
set_option linter.unusedSimpArgs false
set_option linter.unusedVariables false
set_option linter.unusedSectionVars false
namespace MalVerif.Py.Visitor
open MalVerif MalVerif.Mal MalVerif.Py.GenVisitor

theorem pyGetItem_list (l : List V) (k : Nat) :
    pyGetItem (.list l) (.int (k:Int)) = match l[k]? with | some v => .ok v | Option.none => .error .indexError := by
  simp [pyGetItem]; rfl

theorem pyGetItem_list_succ (l : List V) (k : Nat) :
    pyGetItem (.list l) (.int (1 + (k:Int))) = match l[k+1]? with | some v => .ok v | Option.none => .error .indexError := by
  have : (1 + (k:Int)) = ((k+1 : Nat) : Int) := by omega
  rw [this, pyGetItem_list]

theorem forIn_idx {σ β : Type} (l : List β) (a : Int) (f : V → σ → M (ForInStep σ)) (g : σ → β → σ) (I : σ → Prop)
    (h : ∀ (k : Nat) x, l[k]? = some x → ∀ s, I s → f (.int (a + k)) s = .ok (.yield (g s x)) ∧ I (g s x))
    (s : σ) (hs : I s) :
    forIn ((List.range l.length).map (fun (k:Nat) => V.int (a + (k:Int)))) s f = .ok (l.foldl g s) := by
  induction l generalizing a s with
  | nil => rfl
  | cons x xs ih =>
    rw [List.length_cons, List.range_succ_eq_map, List.map_cons, List.map_map, List.forIn_cons]
    have h0 := h 0 x rfl s hs
    rw [h0.1]
    simp only [bind, Except.bind, List.foldl_cons]
    have := ih (a + 1) (fun k y hy s' hs' => by
      have := h (k+1) y (by simpa using hy) s' hs'
      rw [show a + ((k+1 : Nat) : Int) = a + 1 + (k : Int) by omega] at this
      exact this) (g s x) h0.2
    rw [← this]
    congr 2
    funext k
    simp only [Function.comp, Nat.succ_eq_add_one]
    congr 1
    omega

def Ret3 (ret : V) : Prop := ret = .dict [] ∨ ∃ x y z, ret = .dict [("type",x),("lhs",y),("rhs",z)]

def binV (ty a b : V) : V := .dict [("type", ty), ("lhs", a), ("rhs", b)]
def collectV (a b : V) : V := binV (.str "collect") a b

def dotKids {α : Type} : List (Nat × PT × α) → List PT
  | [] => []
  | x :: r => leaf (.dot, x.1) :: x.2.1 :: dotKids r

theorem isRule_leaf (n : String) (t : ITok) : isRule n (leaf t) = false := rfl

theorem dotKids_filter {α : Type} (l : List (Nat × PT × α)) (h : ∀ x ∈ l, isRule "part" x.2.1 = true) :
    (dotKids l).filter (isRule "part") = l.map (·.2.1) := by
  induction l with
  | nil => rfl
  | cons x r ih =>
    have hx := h x (List.mem_cons_self)
    simp only [dotKids, List.filter_cons, isRule_leaf, hx, List.map_cons, if_true]
    simp [ih (fun y hy => h y (List.mem_cons_of_mem _ hy))]

theorem pyRange_one (n : Nat) :
    pyRange (.int 1) (.int ((n + 1 : Nat) : Int)) = .ok (.list ((List.range n).map (fun (k : Nat) => V.int (1 + (k : Int))))) := by
  have : (((n + 1 : Nat) : Int) - 1).toNat = n := by omega
  simp only [pyRange, this]; rfl

theorem pySetItem_dict (d : List (String × V)) (k : String) (v : V) :
    pySetItem (.dict d) (.str k) v = .ok (.dict (dictPut d k v)) := rfl

theorem set3 (ret a b c : V) (h : Ret3 ret) :
    ∃ r1 r2, pySetItem ret (.str "type") a = .ok r1 ∧ pySetItem r1 (.str "lhs") b = .ok r2 ∧
      pySetItem r2 (.str "rhs") c = .ok (binV a b c) := by
  rcases h with rfl | ⟨x, y, z, rfl⟩
  · exact ⟨_, _, rfl, rfl, rfl⟩
  · exact ⟨_, _, rfl, rfl, by simp [pySetItem_dict, dictPut, binV]⟩

theorem Ret3_binV (a b c : V) : Ret3 (binV a b c) := Or.inr ⟨a, b, c, rfl⟩

/-- the state of the `lhs`/`ret` loops: `(ret, lhs)` -/
def stepS (s : V × V) (ty v : V) : V × V := ⟨binV ty s.2 v, binV ty s.2 v⟩

theorem foldl_stepS_snd {β : Type} (l : List β) (ty v : β → V) (s : V × V) :
    (l.foldl (fun s x => stepS s (ty x) (v x)) s).2 = l.foldl (fun a x => binV (ty x) a (v x)) s.2 := by
  induction l generalizing s with
  | nil => rfl
  | cons x r ih => simp only [List.foldl_cons]; rw [ih]; rfl

theorem foldl_stepS_same {β : Type} (l : List β) (ty v : β → V) (s : V × V) (h : s.1 = s.2) :
    (l.foldl (fun s x => stepS s (ty x) (v x)) s).1 = (l.foldl (fun s x => stepS s (ty x) (v x)) s).2 := by
  induction l generalizing s with
  | nil => exact h
  | cons y r ih => simp only [List.foldl_cons]; exact ih _ rfl

theorem foldl_stepS_fst {β : Type} (l : List β) (ty v : β → V) (s : V × V) (hne : l ≠ []) :
    (l.foldl (fun s x => stepS s (ty x) (v x)) s).1 = l.foldl (fun a x => binV (ty x) a (v x)) s.2 := by
  rw [← foldl_stepS_snd]
  cases l with
  | nil => exact absurd rfl hne
  | cons x r =>
    simp only [List.foldl_cons]
    exact foldl_stepS_same r ty v _ rfl

theorem visitParts_alg (self : Self) (up : List PT) (p0 : PT) (v0 : V) (l : List (Nat × PT × V))
    (hp0 : isRule "part" p0 = true)
    (h0 : self.visit (.ctx p0 (.rule "parts" (p0 :: dotKids l) :: up)) = .ok v0)
    (hl : ∀ x ∈ l, isRule "part" x.2.1 = true ∧ self.visit (.ctx x.2.1 (.rule "parts" (p0 :: dotKids l) :: up)) = .ok x.2.2) :
    visitParts self (.ctx (.rule "parts" (p0 :: dotKids l)) up) = .ok (l.foldl (fun a x => collectV a x.2.2) v0) := by
  unfold visitParts
  simp only [ctxAcc_eq acc_parts_part, runAcc, PT.children, List.filter_cons, hp0, if_true,
    dotKids_filter l (fun x hx => (hl x hx).1), List.map_cons, List.map_map]
  simp only [bind, Except.bind, pure, Except.pure, pyLen, List.length_cons, List.length_map]
  by_cases hnil : l = []
  · subst hnil
    simp [V.eq, pyGetItem, mkCtx]
    exact h0
  · have hne : (V.int ↑(l.length + 1)).eq (V.int 1) = false := by
      have : l.length ≠ 0 := fun h => hnil (List.length_eq_zero_iff.mp h)
      simp [V.eq]; omega
    rw [hne]
    simp only [Bool.false_eq_true, if_false]
    rw [show pyDict [] = .ok (.dict []) from rfl]
    simp only []
    rw [show (V.int 0) = V.int ((0 : Nat) : Int) from rfl, pyGetItem_list]
    simp only [List.getElem?_cons_zero, mkCtx, h0, pyRange_one]
    simp only [pyIter, pure, Except.pure]
    rw [forIn_idx l 1 _ (fun s x => stepS s (.str "collect") x.2.2) (fun s => Ret3 s.1)]
    · simp only [foldl_stepS_fst l (fun _ => .str "collect") (fun x => x.2.2) _ hnil]
      rfl
    · intro k x hk s hs
      obtain ⟨r1, r2, e1, e2, e3⟩ := set3 s.1 (.str "collect") s.2 x.2.2 hs
      rw [pyGetItem_list_succ]
      simp only [e1, e2, List.getElem?_cons_succ, List.getElem?_map, hk, Option.map_some, Function.comp, mkCtx, pyCopy, binV,
        (hl x (List.mem_of_getElem? hk)).2, e3]
      exact ⟨rfl, Ret3_binV _ _ _⟩
    · exact Or.inl rfl

/-! ### `visitExpr` -/

def opKids {α : Type} : List (PT × PT × α) → List PT
  | [] => []
  | x :: r => x.1 :: x.2.1 :: opKids r

theorem opKids_filter {α : Type} (l : List (PT × PT × α))
    (h : ∀ x ∈ l, isRule "parts" x.1 = false ∧ isRule "parts" x.2.1 = true) :
    (opKids l).filter (isRule "parts") = l.map (·.2.1) := by
  induction l with
  | nil => rfl
  | cons x r ih =>
    have hx := h x (List.mem_cons_self)
    simp only [opKids, List.filter_cons, hx.1, hx.2, List.map_cons, if_true]
    simp [ih (fun y hy => h y (List.mem_cons_of_mem _ hy))]

theorem opKids_get {α : Type} (l : List (PT × PT × α)) (k : Nat) (x : PT × PT × α) (h : l[k]? = some x) :
    (opKids l)[2 * k]? = some x.1 := by
  induction l generalizing k with
  | nil => simp at h
  | cons y r ih =>
    cases k with
    | zero => simp at h; subst h; rfl
    | succ k =>
      simp only [List.getElem?_cons_succ] at h
      rw [show 2 * (k + 1) = 2 * k + 1 + 1 from by omega]
      simp only [opKids, List.getElem?_cons_succ]
      exact ih k h

theorem visitExpr_alg (self : Self) (up : List PT) (p0 : PT) (v0 : V) (l : List (PT × PT × V × V))
    (hp0 : isRule "parts" p0 = true)
    (h0 : self.visit (.ctx p0 (.rule "expr" (p0 :: opKids l) :: up)) = .ok v0)
    (hl : ∀ x ∈ l, (isRule "parts" x.1 = false ∧ isRule "parts" x.2.1 = true) ∧
      self.visit (.ctx x.1 (.rule "expr" (p0 :: opKids l) :: up)) = .ok x.2.2.1 ∧
      self.visit (.ctx x.2.1 (.rule "expr" (p0 :: opKids l) :: up)) = .ok x.2.2.2) :
    visitExpr self (.ctx (.rule "expr" (p0 :: opKids l)) up) = .ok (l.foldl (fun a x => binV x.2.2.1 a x.2.2.2) v0) := by
  unfold visitExpr
  simp only [ctxAcc_eq acc_expr_parts, runAcc, PT.children, List.filter_cons, hp0, if_true,
    opKids_filter l (fun x hx => (hl x hx).1), List.map_cons, List.map_map]
  simp only [bind, Except.bind, pure, Except.pure, pyLen, List.length_cons, List.length_map]
  by_cases hnil : l = []
  · subst hnil
    simp [V.eq, pyGetItem, mkCtx]
    exact h0
  · have hne : (V.int ↑(l.length + 1)).eq (V.int 1) = false := by
      have : l.length ≠ 0 := fun h => hnil (List.length_eq_zero_iff.mp h)
      simp [V.eq]; omega
    rw [hne]
    simp only [Bool.false_eq_true, if_false]
    rw [show pyDict [] = .ok (.dict []) from rfl]
    simp only []
    rw [show (V.int 0) = V.int ((0 : Nat) : Int) from rfl, pyGetItem_list]
    simp only [List.getElem?_cons_zero, mkCtx, h0, pyRange_one]
    simp only [pyIter, pure, Except.pure]
    rw [forIn_idx l 1 _ (fun s x => stepS s x.2.2.1 x.2.2.2) (fun s => Ret3 s.1)]
    · simp only [foldl_stepS_fst l (fun x => x.2.2.1) (fun x => x.2.2.2) _ hnil]
    · intro k x hk s hs
      have hx := hl x (List.mem_of_getElem? hk)
      obtain ⟨r1, r2, e1, e2, e3⟩ := set3 s.1 x.2.2.1 s.2 x.2.2.2 hs
      rw [pyGetItem_list_succ]
      have hidx : (2 * (1 + (k : Int)) - 1) = ((2 * k + 1 : Nat) : Int) := by omega
      simp only [pyAttr, PT.children, pyMul, pySub, pure, Except.pure, hidx, pyGetItem_list, List.map_cons,
        List.getElem?_cons_succ, List.getElem?_map, opKids_get l k x hk, Option.map_some, mkCtx, hx.2.1]
      simp only [e1, e2, List.getElem?_cons_succ, List.getElem?_map, hk, Option.map_some, Function.comp, mkCtx, pyCopy, binV,
        hx.2.2, e3]
      exact ⟨rfl, Ret3_binV _ _ _⟩
    · exact Or.inl rfl



/-! ### `visitPart` -/

/-- `[T]` with the three token positions -/
def typeNode (q : Nat × String × Nat × Nat) : PT :=
  .rule "type" [leaf (.lsquare, q.1), leaf (.id q.2.1, q.2.2.1), leaf (.rsquare, q.2.2.2)]

def starKids : Option Nat → List PT
  | Option.none => []
  | some k => [leaf (.star, k)]

def transV (v : V) : V := .dict [("type", .str "transitive"), ("stepExpression", v)]
def subV (t : String) (v : V) : V := .dict [("type", .str "subType"), ("subType", .str t), ("stepExpression", v)]
def wrapStarV (st : Option Nat) (v : V) : V := match st with | some _ => transV v | Option.none => v
def wrapStarE (st : Option Nat) (e : Expr) : Expr := match st with | some _ => Expr.trans e | Option.none => e

theorem filter_types_type (qs : List (Nat × String × Nat × Nat)) :
    (qs.map typeNode).filter (isRule "type") = qs.map typeNode := by
  induction qs with
  | nil => rfl
  | cons q r ih => simp only [List.map_cons, List.filter_cons, ih]; rfl

theorem filter_types_rule (n : String) (h : ("type" == n) = false) (qs : List (Nat × String × Nat × Nat)) :
    (qs.map typeNode).filter (isRule n) = [] := by
  induction qs with
  | nil => rfl
  | cons q r ih => simp only [List.map_cons, List.filter_cons, ih, typeNode, isRule, h]; rfl

theorem filter_types_tok (n : String) (qs : List (Nat × String × Nat × Nat)) :
    (qs.map typeNode).filter (isTok n) = [] := by
  induction qs with
  | nil => rfl
  | cons q r ih => simp only [List.map_cons, List.filter_cons, ih, typeNode, isTok]; rfl

theorem visitType_node (self : Self) (q : Nat × String × Nat × Nat) (up : List PT) :
    visitType self (.ctx (typeNode q) up) = .ok (.str q.2.1) := by
  simp [visitType, typeNode, ctxAcc_eq acc_type_ID, runAcc, leaf, isTok, tokType, mkCtx, optV, pyGetText, PT.text, tokText, PT.children]
  rfl

theorem forIn_map_foldl {α β σ : Type} (l : List β) (ι : β → α) (f : α → σ → M (ForInStep σ)) (g : σ → β → σ)
    (h : ∀ x ∈ l, ∀ s, f (ι x) s = .ok (.yield (g s x))) (s : σ) :
    forIn (l.map ι) s f = .ok (l.foldl g s) := by
  induction l generalizing s with
  | nil => rfl
  | cons x xs ih =>
    rw [List.map_cons, List.forIn_cons, h x (List.mem_cons_self) s]
    simp only [bind, Except.bind, List.foldl_cons]
    exact ih (fun y hy s => h y (List.mem_cons_of_mem _ hy) s) _

theorem visitPart_id (self : Self) (up : List PT) (n : String) (i : Nat) (st : Option Nat)
    (qs : List (Nat × String × Nat × Nat)) (ty : String)
    (hres : _resolve_part_ID_type self (.ctx (.rule "part" (leaf (.id n, i) :: (starKids st ++ qs.map typeNode))) up) = .ok (.str ty))
    (htype : ∀ q ∈ qs, self.visit (.ctx (typeNode q) (.rule "part" (leaf (.id n, i) :: (starKids st ++ qs.map typeNode)) :: up)) = .ok (.str q.2.1)) :
    visitPart self (.ctx (.rule "part" (leaf (.id n, i) :: (starKids st ++ qs.map typeNode))) up) =
      .ok (qs.foldl (fun a q => subV q.2.1 a)
        (wrapStarV st (.dict [("type", .str ty), ("name", .str n)]))) := by
  unfold visitPart
  simp only [ctxAcc_eq acc_part_varsubst, ctxAcc_eq acc_part_LPAREN,ctxAcc_eq acc_part_expr, ctxAcc_eq acc_part_ID,
    ctxAcc_eq acc_part_STAR, ctxAcc_eq acc_part_type_, runAcc, hres, PT.children, List.filter_cons, List.filter_append,
    isRule_leaf, filter_types_type, filter_types_tok, filter_types_rule "varsubst" (by decide),
    filter_types_rule "expr" (by decide)]
  cases st with
  | none =>
    simp only [starKids, leaf, tokType, tokText, List.nil_append, List.cons_append] at htype
    simp [wrapStarV, starKids, leaf, isTok, isRule, tokType, optV, truthy, pyDict, keyOf, dictPutAll, dictPut, pySetItem, mkCtx, pyGetText, PT.text, tokText,
      bind, Except.bind, pure, Except.pure, pyIter]
    rw [forIn_foldl qs _ _ (fun a q => subV q.2.1 a)]
    intro q hq s
    simp [htype q hq, subV]
  | some k =>
    simp only [starKids, leaf, tokType, tokText, List.nil_append, List.cons_append] at htype
    simp [wrapStarV, starKids, leaf, isTok, isRule, tokType, optV, truthy, pyDict, keyOf, dictPutAll, dictPut, pySetItem, mkCtx, pyGetText, PT.text, tokText,
      bind, Except.bind, pure, Except.pure, pyIter]
    rw [forIn_foldl qs _ _ (fun a q => subV q.2.1 a)]
    · rfl
    intro q hq s
    simp [htype q hq, subV]

theorem visitPart_var (self : Self) (up : List PT) (n : String) (i j k : Nat) (st : Option Nat)
    (qs : List (Nat × String × Nat × Nat))
    (hvs : self.visit (.ctx (.rule "varsubst" [leaf (.id n, i)])
      (.rule "part" (.rule "varsubst" [leaf (.id n, i)] :: leaf (.lparen, j) :: leaf (.rparen, k) :: (starKids st ++ qs.map typeNode)) :: up)) = .ok (.str n))
    (htype : ∀ q ∈ qs, self.visit (.ctx (typeNode q)
      (.rule "part" (.rule "varsubst" [leaf (.id n, i)] :: leaf (.lparen, j) :: leaf (.rparen, k) :: (starKids st ++ qs.map typeNode)) :: up)) = .ok (.str q.2.1)) :
    visitPart self (.ctx (.rule "part" (.rule "varsubst" [leaf (.id n, i)] :: leaf (.lparen, j) :: leaf (.rparen, k) :: (starKids st ++ qs.map typeNode))) up) =
      .ok (qs.foldl (fun a q => subV q.2.1 a)
        (wrapStarV st (.dict [("type", .str "variable"), ("name", .str n)]))) := by
  unfold visitPart
  simp only [ctxAcc_eq acc_part_varsubst, ctxAcc_eq acc_part_LPAREN,ctxAcc_eq acc_part_expr, ctxAcc_eq acc_part_ID,
    ctxAcc_eq acc_part_STAR, ctxAcc_eq acc_part_type_, runAcc, PT.children, List.filter_cons, List.filter_append,
    isRule_leaf, filter_types_type, filter_types_tok, filter_types_rule "varsubst" (by decide),
    filter_types_rule "expr" (by decide)]
  cases st with
  | none =>
    simp only [starKids, leaf, tokType, tokText, List.nil_append, List.cons_append] at htype hvs
    simp [wrapStarV, starKids, leaf, isTok, isRule, tokType, optV, truthy, pyDict, keyOf, dictPutAll, dictPut, pySetItem, mkCtx, pyGetText, PT.text, tokText,
      bind, Except.bind, pure, Except.pure, pyIter, hvs]
    rw [forIn_foldl qs _ _ (fun a q => subV q.2.1 a)]
    intro q hq s
    simp [htype q hq, subV]
  | some k =>
    simp only [starKids, leaf, tokType, tokText, List.nil_append, List.cons_append] at htype hvs
    simp [wrapStarV, starKids, leaf, isTok, isRule, tokType, optV, truthy, pyDict, keyOf, dictPutAll, dictPut, pySetItem, mkCtx, pyGetText, PT.text, tokText,
      bind, Except.bind, pure, Except.pure, pyIter, hvs]
    rw [forIn_foldl qs _ _ (fun a q => subV q.2.1 a)]
    · rfl
    intro q hq s
    simp [htype q hq, subV]

theorem visitPart_paren (self : Self) (up : List PT) (ecs : List PT) (i j : Nat) (st : Option Nat)
    (qs : List (Nat × String × Nat × Nat)) (v0 : V)
    (hv : self.visit (.ctx (.rule "expr" ecs)
      (.rule "part" (leaf (.lparen, i) :: .rule "expr" ecs :: leaf (.rparen, j) :: (starKids st ++ qs.map typeNode)) :: up)) = .ok v0)
    (htype : ∀ q ∈ qs, self.visit (.ctx (typeNode q)
      (.rule "part" (leaf (.lparen, i) :: .rule "expr" ecs :: leaf (.rparen, j) :: (starKids st ++ qs.map typeNode)) :: up)) = .ok (.str q.2.1)) :
    visitPart self (.ctx (.rule "part" (leaf (.lparen, i) :: .rule "expr" ecs :: leaf (.rparen, j) :: (starKids st ++ qs.map typeNode))) up) =
      .ok (qs.foldl (fun a q => subV q.2.1 a)
        (wrapStarV st (v0))) := by
  unfold visitPart
  simp only [ctxAcc_eq acc_part_varsubst, ctxAcc_eq acc_part_LPAREN,ctxAcc_eq acc_part_expr, ctxAcc_eq acc_part_ID,
    ctxAcc_eq acc_part_STAR, ctxAcc_eq acc_part_type_, runAcc, PT.children, List.filter_cons, List.filter_append,
    isRule_leaf, filter_types_type, filter_types_tok, filter_types_rule "varsubst" (by decide),
    filter_types_rule "expr" (by decide)]
  cases st with
  | none =>
    simp only [starKids, leaf, tokType, tokText, List.nil_append, List.cons_append] at htype hv
    simp [wrapStarV, starKids, leaf, isTok, isRule, tokType, optV, truthy, pyDict, keyOf, dictPutAll, dictPut, pySetItem, mkCtx, pyGetText, PT.text, tokText,
      bind, Except.bind, pure, Except.pure, pyIter, hv]
    rw [forIn_foldl qs _ _ (fun a q => subV q.2.1 a)]
    intro q hq s
    simp [htype q hq, subV]
  | some k =>
    simp only [starKids, leaf, tokType, tokText, List.nil_append, List.cons_append] at htype hv
    simp [wrapStarV, starKids, leaf, isTok, isRule, tokType, optV, truthy, pyDict, keyOf, dictPutAll, dictPut, pySetItem, mkCtx, pyGetText, PT.text, tokText,
      bind, Except.bind, pure, Except.pure, pyIter, hv]
    rw [forIn_foldl qs _ _ (fun a q => subV q.2.1 a)]
    · rfl
    intro q hq s
    simp [htype q hq, subV]

/-! ### leaves of the expression grammar -/

theorem visitVarsubst_node (self : Self) (n : String) (i : Nat) (up : List PT) :
    visitVarsubst self (.ctx (.rule "varsubst" [leaf (.id n, i)]) up) = .ok (.str n) := by
  simp [visitVarsubst, ctxAcc_eq acc_varsubst_ID, runAcc, leaf, isTok, tokType, mkCtx, optV, pyGetText, PT.text, tokText, PT.children]
  rfl

theorem visitSetop_union (self : Self) (i : Nat) (up : List PT) :
    visitSetop self (.ctx (.rule "setop" [leaf (.union, i)]) up) = .ok (.str "union") := by
  simp [visitSetop, ctxAcc_eq acc_setop_UNION, ctxAcc_eq acc_setop_INTERSECT, runAcc, leaf, isTok, tokType, mkCtx, optV, truthy, PT.children,
    bind, Except.bind, pure, Except.pure]

theorem visitSetop_intersect (self : Self) (i : Nat) (up : List PT) :
    visitSetop self (.ctx (.rule "setop" [leaf (.intersect, i)]) up) = .ok (.str "intersection") := by
  simp [visitSetop, ctxAcc_eq acc_setop_UNION, ctxAcc_eq acc_setop_INTERSECT, runAcc, leaf, isTok, tokType, mkCtx, optV, truthy, PT.children,
    bind, Except.bind, pure, Except.pure]

theorem visitSetop_minus (self : Self) (i : Nat) (up : List PT) :
    visitSetop self (.ctx (.rule "setop" [leaf (.minus, i)]) up) = .ok (.str "difference") := by
  simp [visitSetop, ctxAcc_eq acc_setop_UNION, ctxAcc_eq acc_setop_INTERSECT, runAcc, leaf, isTok, tokType, mkCtx, optV, truthy, PT.children,
    bind, Except.bind, pure, Except.pure, boundMethodTruth, acc_setop_INTERSECT]


theorem suffix_cons' {α : Type} {a b : List α} (x : α) (h : a <:+ b) : a <:+ x :: b := h.trans (List.suffix_cons _ _)

/-- `type*`: same decisions on both sides -/
theorem types_tie (f : Nat) (its : List ITok) :
    (treeTypes f its).2 <:+ its ∧
    ∃ qs : List (Nat × String × Nat × Nat), (treeTypes f its).1 = qs.map typeNode ∧
      ∀ e, parseTypes f e (its.map Prod.fst) = (qs.foldl (fun a q => Expr.sub q.2.1 a) e, (treeTypes f its).2.map Prod.fst) := by
  induction f generalizing its with
  | zero => exact ⟨List.suffix_refl _, [], rfl, fun e => rfl⟩
  | succ f ih =>
    have other : treeTypes (f+1) its = ([], its) → (∀ e, parseTypes (f+1) e (its.map Prod.fst) = (e, its.map Prod.fst)) →
        (treeTypes (f+1) its).2 <:+ its ∧
        ∃ qs : List (Nat × String × Nat × Nat), (treeTypes (f+1) its).1 = qs.map typeNode ∧
        ∀ e, parseTypes (f+1) e (its.map Prod.fst) = (qs.foldl (fun a q => Expr.sub q.2.1 a) e, (treeTypes (f+1) its).2.map Prod.fst) := by
      intro h1 h2
      rw [h1]
      exact ⟨List.suffix_refl _, [], rfl, h2⟩
    rcases its with _ | ⟨⟨tk1, i⟩, r1⟩
    · exact other rfl (fun e => rfl)
    cases tk1 with
    | lsquare =>
      rcases r1 with _ | ⟨⟨tk2, j⟩, r2⟩
      · exact other rfl (fun e => rfl)
      cases tk2 with
      | id t =>
        rcases r2 with _ | ⟨⟨tk3, k⟩, r3⟩
        · exact other rfl (fun e => rfl)
        cases tk3 with
        | rsquare =>
          obtain ⟨hs, qs, h1, h2⟩ := ih r3
          refine ⟨?_, (i, t, j, k) :: qs, ?_, ?_⟩
          · simp only [treeTypes]
            exact suffix_cons' _ (suffix_cons' _ (suffix_cons' _ hs))
          · simp only [treeTypes, h1, List.map_cons]; rfl
          · intro e
            simp only [treeTypes, List.map_cons, parseTypes, h2, List.foldl_cons]
        | _ => exact other rfl (fun e => rfl)
      | _ => exact other rfl (fun e => rfl)
    | _ => exact other rfl (fun e => rfl)



/-- `STAR? type*` -/
theorem suffix_tie (f : Nat) (its : List ITok) :
    (treeSuffix f its).2 <:+ its ∧
    ∃ (st : Option Nat) (qs : List (Nat × String × Nat × Nat)), (treeSuffix f its).1 = starKids st ++ qs.map typeNode ∧
      ∀ e, parseSuffix f e (its.map Prod.fst) =
        (qs.foldl (fun a q => Expr.sub q.2.1 a) (wrapStarE st e),
         (treeSuffix f its).2.map Prod.fst) := by
  have other : treeSuffix f its = treeTypes f its → (∀ e, parseSuffix f e (its.map Prod.fst) = parseTypes f e (its.map Prod.fst)) →
      (treeSuffix f its).2 <:+ its ∧
      ∃ (st : Option Nat) (qs : List (Nat × String × Nat × Nat)), (treeSuffix f its).1 = starKids st ++ qs.map typeNode ∧
      ∀ e, parseSuffix f e (its.map Prod.fst) =
        (qs.foldl (fun a q => Expr.sub q.2.1 a) (wrapStarE st e),
         (treeSuffix f its).2.map Prod.fst) := by
    intro h1 h2
    obtain ⟨hs, qs, e1, e2⟩ := types_tie f its
    rw [h1]
    exact ⟨hs, Option.none, qs, by rw [e1]; rfl, fun e => by rw [h2, e2]; rfl⟩
  rcases its with _ | ⟨⟨tk1, i⟩, r1⟩
  · exact other rfl (fun e => rfl)
  cases tk1 with
  | star =>
    obtain ⟨hs, qs, e1, e2⟩ := types_tie f r1
    refine ⟨suffix_cons' _ hs, some i, qs, ?_, fun e => ?_⟩
    · simp only [treeSuffix, e1]; rfl
    · simp only [treeSuffix, parseSuffix, List.map_cons, e2]; rfl
  | _ => exact other rfl (fun e => rfl)

theorem rExpr_suffix (st : Option Nat) (qs : List (Nat × String × Nat × Nat)) (e : Expr) :
    rExpr (qs.foldl (fun a q => Expr.sub q.2.1 a) (wrapStarE st e)) =
      qs.foldl (fun a q => subV q.2.1 a) (wrapStarV st (rExpr e)) := by
  have : ∀ e0, rExpr (qs.foldl (fun a q => Expr.sub q.2.1 a) e0) = qs.foldl (fun a q => subV q.2.1 a) (rExpr e0) := by
    induction qs with
    | nil => intro e0; rfl
    | cons q r ih => intro e0; simp only [List.foldl_cons]; rw [ih]; rfl
  rw [this]
  cases st <;> rfl

/-! ### going down one level of the tree -/

theorem reachStop_cons (p : PT) (up : List PT) (h : isRule "reaches" p = false) : reachStop (p :: up) = reachStop up := by
  simp [reachStop, h]

theorem stepAt_cons (p : PT) (up : List PT) (toks : List V) (i : Nat) (h : isRule "reaches" p = false) :
    stepAt (p :: up) toks i = stepAt up toks i := by
  simp [stepAt, reachStop_cons p up h]

theorem StopsOK_cons (p : PT) (up : List PT) (toks : List V) (h : isRule "reaches" p = false) (hs : StopsOK up toks) :
    StopsOK (p :: up) toks := by
  intro x hx hr
  rcases List.mem_cons.mp hx with rfl | hx
  · rw [h] at hr; cases hr
  · exact hs x hx hr

/-- the classification hypothesis of `expr_tie` -/
def Classif (toks : List V) (reach : Bool) (up : List PT) (its irest : List ITok) : Prop :=
  ∀ n i r, (Tok.id n, i) :: r <:+ its → irest.length ≤ r.length →
    (reach && !dotAhead (r.map Prod.fst)) = stepAt up toks i

theorem Classif.down {toks : List V} {reach : Bool} {up : List PT} {its irest its' irest' : List ITok}
    (h : Classif toks reach up its irest) (p : PT) (hp : isRule "reaches" p = false)
    (h1 : its' <:+ its) (h2 : irest.length ≤ irest'.length) : Classif toks reach (p :: up) its' irest' := by
  intro n i r hr hl
  rw [stepAt_cons p up toks i hp]
  exact h n i r (hr.trans h1) (Nat.le_trans h2 hl)

theorem Classif.mono {toks : List V} {reach : Bool} {up : List PT} {its irest its' irest' : List ITok}
    (h : Classif toks reach up its irest)
    (h1 : its' <:+ its) (h2 : irest.length ≤ irest'.length) : Classif toks reach up its' irest' := by
  intro n i r hr hl
  exact h n i r (hr.trans h1) (Nat.le_trans h2 hl)

/-- the translated visitor on `t` renders `e` -/
def VisitOK (c : V → M V) (toks : List V) (wf : Nat) (reach : Bool) (t : PT) (e : Expr) (its irest : List ITok) : Prop :=
  ∀ g up, t.depth ≤ g → up.length + t.depth < wf → StopsOK up toks → Classif toks reach up its irest →
    visitF c toks wf g (.ctx t up) = .ok (rExpr e)

theorem VisitOK.mono {c : V → M V} {toks : List V} {wf : Nat} {reach : Bool} {t : PT} {e : Expr} {its irest its' irest' : List ITok}
    (h : VisitOK c toks wf reach t e its' irest') (h1 : its' <:+ its) (h2 : irest.length ≤ irest'.length) :
    VisitOK c toks wf reach t e its irest :=
  fun g up hg hw hs hc => h g up hg hw hs (hc.mono h1 h2)

def Goal1 (c : V → M V) (toks : List V) (wf : Nat) (rule : String) (reach : Bool) (its : List ITok)
    (tr : Option (PT × List ITok)) (pr : Option (Expr × List Tok)) : Prop :=
  match tr with
  | Option.none => pr = Option.none
  | some (t, irest) => irest <:+ its ∧ ∃ e, pr = some (e, irest.map Prod.fst) ∧ (∃ cs, t = .rule rule cs) ∧
      VisitOK c toks wf reach t e its irest

theorem visit_typeNode (c : V → M V) (toks : List V) (wf g : Nat) (q : Nat × String × Nat × Nat) (cs ups : List PT)
    (hq : typeNode q ∈ cs) (hg : PT.depthL cs ≤ g) :
    visitF c toks wf g (.ctx (typeNode q) ups) = .ok (.str q.2.1) := by
  have h1 := depthL_mem hq
  have h2 : 1 ≤ (typeNode q).depth := by simp [typeNode, depth_rule]
  obtain ⟨g', rfl⟩ : ∃ g', g = g' + 1 := ⟨g - 1, by omega⟩
  have := visitType_node (selfAt c toks wf g') q ups
  simp only [typeNode] at this ⊢
  rw [visitF_type]; exact this

theorem suffix_length {α : Type} {a b : List α} (h : a <:+ b) : a.length ≤ b.length := h.length_le

section steps
variable (c : V → M V) (toks : List V) (wf : Nat) (hR : ResolveSpec toks wf)
include hR

theorem part_ident (f : Nat) (reach : Bool) (n : String) (i : Nat) (rest : List ITok)
    (htree : treePart (f+1) ((.id n, i) :: rest) =
      some (.rule "part" (leaf (.id n, i) :: (treeSuffix f rest).1), (treeSuffix f rest).2))
    (hparse : parsePart (f+1) reach (((Tok.id n, i) :: rest).map Prod.fst) =
      some (parseSuffix f (if reach && !dotAhead (rest.map Prod.fst) then .step n else .field n) (rest.map Prod.fst))) :
    Goal1 c toks wf "part" reach ((.id n, i) :: rest) (treePart (f+1) ((.id n, i) :: rest))
      (parsePart (f+1) reach (((Tok.id n, i) :: rest).map Prod.fst)) := by
  rw [htree, hparse]
  obtain ⟨hs, st, qs, e1, e2⟩ := suffix_tie f rest
  refine ⟨suffix_cons' _ hs, _, by rw [e2], ⟨_, rfl⟩, ?_⟩
  intro g up hg hw hst hcl
  rw [e1] at hg hw ⊢
  rw [depth_rule] at hg hw
  obtain ⟨g', rfl⟩ : ∃ g', g = g' + 1 := ⟨g - 1, by omega⟩
  rw [visitF_part, rExpr_suffix]
  have hcl' := hcl n i rest (List.suffix_refl _) (suffix_length hs)
  have hres := hR c g' "part" (leaf (.id n, i) :: (starKids st ++ qs.map typeNode)) up "ID" n i
    (by simp [PT.first, PT.firstL, leaf, tokType, tokText]) (by omega) hst
  have := visitPart_id (selfAt c toks wf g') up n i st qs _ hres (fun q hq =>
    visit_typeNode c toks wf g' q (leaf (.id n, i) :: (starKids st ++ qs.map typeNode)) _
      (List.mem_cons_of_mem _ (List.mem_append_right _ (List.mem_map_of_mem hq))) (by omega))
  rw [this, hcl']
  cases stepAt up toks i <;> rfl

theorem part_var (f : Nat) (reach : Bool) (n : String) (i j k : Nat) (rest : List ITok) :
    Goal1 c toks wf "part" reach ((.id n, i) :: (.lparen, j) :: (.rparen, k) :: rest)
      (treePart (f+1) ((.id n, i) :: (.lparen, j) :: (.rparen, k) :: rest))
      (parsePart (f+1) reach (((Tok.id n, i) :: (.lparen, j) :: (.rparen, k) :: rest).map Prod.fst)) := by
  simp only [treePart, parsePart, List.map_cons]
  obtain ⟨hs, st, qs, e1, e2⟩ := suffix_tie f rest
  refine ⟨suffix_cons' _ (suffix_cons' _ (suffix_cons' _ hs)), _, by rw [e2], ⟨_, rfl⟩, ?_⟩
  intro g up hg hw hst hcl
  rw [e1] at hg hw ⊢
  rw [depth_rule] at hg hw
  obtain ⟨g', rfl⟩ : ∃ g', g = g' + 1 := ⟨g - 1, by omega⟩
  rw [visitF_part, rExpr_suffix]
  have hd : 2 ≤ PT.depthL (PT.rule "varsubst" [leaf (.id n, i)] :: leaf (.lparen, j) :: leaf (.rparen, k) :: (starKids st ++ qs.map typeNode)) := by
    have := depthL_mem (c := PT.rule "varsubst" [leaf (.id n, i)]) (cs := PT.rule "varsubst" [leaf (.id n, i)] :: leaf (.lparen, j) :: leaf (.rparen, k) :: (starKids st ++ qs.map typeNode)) List.mem_cons_self
    simp [depth_rule, PT.depthL, leaf, depth_tok] at this ⊢
    omega
  obtain ⟨g'', rfl⟩ : ∃ g'', g' = g'' + 1 := ⟨g' - 1, by omega⟩
  have := visitPart_var (selfAt c toks wf (g''+1)) up n i j k st qs
    (by dsimp only [selfAt]; rw [visitF_varsubst]; exact visitVarsubst_node _ _ _ _)
    (fun q hq =>
    visit_typeNode c toks wf (g''+1) q (PT.rule "varsubst" [leaf (.id n, i)] :: leaf (.lparen, j) :: leaf (.rparen, k) :: (starKids st ++ qs.map typeNode)) _
      (List.mem_cons_of_mem _ (List.mem_cons_of_mem _ (List.mem_cons_of_mem _ (List.mem_append_right _ (List.mem_map_of_mem hq))))) (by omega))
  rw [this]
  rfl

theorem part_paren (f : Nat) (reach : Bool) (i : Nat) (rest : List ITok)
    (ih : Goal1 c toks wf "expr" reach rest (treeExpr f rest) (parseExpr f reach (rest.map Prod.fst))) :
    Goal1 c toks wf "part" reach ((.lparen, i) :: rest)
      (treePart (f+1) ((.lparen, i) :: rest))
      (parsePart (f+1) reach (((Tok.lparen, i) :: rest).map Prod.fst)) := by
  simp only [treePart, parsePart, List.map_cons]
  cases hte : treeExpr f rest with
  | none => rw [hte] at ih; simp only [Goal1] at ih; simp [Goal1, ih]
  | some x =>
    obtain ⟨e, ir⟩ := x
    rw [hte] at ih
    obtain ⟨hsuf, e', hp, ⟨ecs, rfl⟩, hv⟩ := ih
    rw [hp]
    rcases ir with _ | ⟨⟨tk, j⟩, r'⟩
    · simp [Goal1]
    cases tk with
    | rparen =>
      simp only [List.map_cons]
      obtain ⟨hs, st, qs, e1, e2⟩ := suffix_tie f r'
      have hs2 : (treeSuffix f r').2 <:+ rest := (suffix_cons' _ hs).trans hsuf
      refine ⟨suffix_cons' _ hs2, _, by rw [e2], ⟨_, rfl⟩, ?_⟩
      intro g up hg hw hst hcl
      rw [e1] at hg hw ⊢
      rw [depth_rule] at hg hw
      obtain ⟨g', rfl⟩ : ∃ g', g = g' + 1 := ⟨g - 1, by omega⟩
      rw [visitF_part, rExpr_suffix]
      have hd := depthL_mem (c := PT.rule "expr" ecs) (cs := leaf (.lparen, i) :: PT.rule "expr" ecs :: leaf (.rparen, j) :: (starKids st ++ qs.map typeNode)) (List.mem_cons_of_mem _ List.mem_cons_self)
      have hvis := hv g' (PT.rule "part" (leaf (.lparen, i) :: PT.rule "expr" ecs :: leaf (.rparen, j) :: (starKids st ++ qs.map typeNode)) :: up)
        (by omega) (by simp only [List.length_cons]; omega) (StopsOK_cons _ _ _ rfl hst)
        (hcl.down _ rfl (List.suffix_cons _ _) (by have := suffix_length hs; simp only [List.length_cons]; omega))
      have := visitPart_paren (selfAt c toks wf g') up ecs i j st qs _ hvis
        (fun q hq =>
        visit_typeNode c toks wf g' q (leaf (.lparen, i) :: PT.rule "expr" ecs :: leaf (.rparen, j) :: (starKids st ++ qs.map typeNode)) _
          (List.mem_cons_of_mem _ (List.mem_cons_of_mem _ (List.mem_cons_of_mem _ (List.mem_append_right _ (List.mem_map_of_mem hq))))) (by omega))
      rw [this]
    | _ => simp [Goal1]

end steps


theorem dotKids_map {α β : Type} (l : List (Nat × PT × α)) (φ : α → β) :
    dotKids (l.map (fun x => (x.1, x.2.1, φ x.2.2))) = dotKids l := by
  induction l with
  | nil => rfl
  | cons x r ih => simp only [List.map_cons, dotKids, ih]

theorem dotKids_mem {α : Type} (l : List (Nat × PT × α)) (x : Nat × PT × α) (h : x ∈ l) : x.2.1 ∈ dotKids l := by
  induction l with
  | nil => cases h
  | cons y r ih =>
    simp only [dotKids]
    rcases List.mem_cons.mp h with rfl | h
    · exact List.mem_cons_of_mem _ List.mem_cons_self
    · exact List.mem_cons_of_mem _ (List.mem_cons_of_mem _ (ih h))

theorem rExpr_collect_fold (l : List (Nat × PT × Expr)) (e : Expr) :
    (l.map (fun x => (x.1, x.2.1, rExpr x.2.2))).foldl (fun a x => collectV a x.2.2) (rExpr e) =
      rExpr (l.foldl (fun a x => Expr.collect a x.2.2) e) := by
  induction l generalizing e with
  | nil => rfl
  | cons x r ih => simp only [List.map_cons, List.foldl_cons]; rw [← ih]; rfl

def GoalPL (c : V → M V) (toks : List V) (wf : Nat) (reach : Bool) (its : List ITok)
    (tr : Option (List PT × List ITok)) (pr : Expr → Option (Expr × List Tok)) : Prop :=
  match tr with
  | Option.none => ∀ acc, pr acc = Option.none
  | some (cs, irest) => irest <:+ its ∧ ∃ l : List (Nat × PT × Expr), cs = dotKids l ∧
      (∀ acc, pr acc = some (l.foldl (fun a x => Expr.collect a x.2.2) acc, irest.map Prod.fst)) ∧
      ∀ x ∈ l, (∃ pcs, x.2.1 = .rule "part" pcs) ∧ VisitOK c toks wf reach x.2.1 x.2.2 its irest

section steps
variable (c : V → M V) (toks : List V) (wf : Nat) (hR : ResolveSpec toks wf)
include hR

theorem part_step (f : Nat)
    (ihE : ∀ reach its, Goal1 c toks wf "expr" reach its (treeExpr f its) (parseExpr f reach (its.map Prod.fst)))
    (reach : Bool) (its : List ITok) :
    Goal1 c toks wf "part" reach its (treePart (f+1) its) (parsePart (f+1) reach (its.map Prod.fst)) := by
  rcases its with _ | ⟨⟨tk1, i⟩, r1⟩
  · simp [Goal1, treePart, parsePart]
  cases tk1 with
  | lparen => exact part_paren c toks wf hR f reach i r1 (ihE reach r1)
  | id n =>
    rcases r1 with _ | ⟨⟨tk2, j⟩, r2⟩
    · exact part_ident c toks wf hR f reach n i _ rfl rfl
    cases tk2 with
    | lparen =>
      rcases r2 with _ | ⟨⟨tk3, k⟩, r3⟩
      · exact part_ident c toks wf hR f reach n i _ rfl rfl
      cases tk3 with
      | rparen => exact part_var c toks wf hR f reach n i j k r3
      | _ => exact part_ident c toks wf hR f reach n i _ rfl rfl
    | _ => exact part_ident c toks wf hR f reach n i _ rfl rfl
  | _ => simp [Goal1, treePart, parsePart]

theorem partsLoop_step (f : Nat)
    (ihP : ∀ reach its, Goal1 c toks wf "part" reach its (treePart f its) (parsePart f reach (its.map Prod.fst)))
    (ihL : ∀ reach its, GoalPL c toks wf reach its (treePartsLoop f its) (fun acc => parsePartsLoop f reach acc (its.map Prod.fst)))
    (reach : Bool) (its : List ITok) :
    GoalPL c toks wf reach its (treePartsLoop (f+1) its) (fun acc => parsePartsLoop (f+1) reach acc (its.map Prod.fst)) := by
  have other : treePartsLoop (f+1) its = some ([], its) →
      (∀ acc, parsePartsLoop (f+1) reach acc (its.map Prod.fst) = some (acc, its.map Prod.fst)) →
      GoalPL c toks wf reach its (treePartsLoop (f+1) its) (fun acc => parsePartsLoop (f+1) reach acc (its.map Prod.fst)) := by
    intro h1 h2
    rw [h1]
    exact ⟨List.suffix_refl _, [], rfl, h2, fun x hx => by cases hx⟩
  rcases its with _ | ⟨⟨tk1, i⟩, r1⟩
  · exact other rfl (fun _ => rfl)
  cases tk1 with
  | dot =>
    simp only [treePartsLoop, parsePartsLoop, List.map_cons]
    have hP := ihP reach r1
    cases htp : treePart f r1 with
    | none => rw [htp] at hP; simp only [Goal1] at hP; simp [GoalPL, hP, htp]
    | some x =>
      obtain ⟨p, r'⟩ := x
      rw [htp] at hP
      obtain ⟨hsuf, e, hp, ⟨pcs, rfl⟩, hv⟩ := hP
      have hL := ihL reach r'
      cases htl : treePartsLoop f r' with
      | none => rw [htl] at hL; simp only [GoalPL] at hL; simp [GoalPL, hp, hL, htp, htl]
      | some y =>
        obtain ⟨cs, r''⟩ := y
        rw [htl] at hL
        obtain ⟨hsuf2, l, rfl, hpl, hl⟩ := hL
        simp only [htp, htl, GoalPL]
        refine ⟨suffix_cons' _ (hsuf2.trans hsuf), (i, PT.rule "part" pcs, e) :: l, rfl, ?_, ?_⟩
        · intro acc; simp only [hp, hpl, List.foldl_cons]
        · intro x hx
          rcases List.mem_cons.mp hx with rfl | hx
          · exact ⟨⟨_, rfl⟩, hv.mono (List.suffix_cons _ _) (suffix_length hsuf2)⟩
          · exact ⟨(hl x hx).1, (hl x hx).2.mono (suffix_cons' _ hsuf) (Nat.le_refl _)⟩
  | _ => exact other rfl (fun _ => rfl)

theorem parts_step (f : Nat)
    (ihP : ∀ reach its, Goal1 c toks wf "part" reach its (treePart f its) (parsePart f reach (its.map Prod.fst)))
    (ihL : ∀ reach its, GoalPL c toks wf reach its (treePartsLoop f its) (fun acc => parsePartsLoop f reach acc (its.map Prod.fst)))
    (reach : Bool) (its : List ITok) :
    Goal1 c toks wf "parts" reach its (treeParts (f+1) its) (parseParts (f+1) reach (its.map Prod.fst)) := by
  simp only [treeParts, parseParts]
  have hP := ihP reach its
  cases htp : treePart f its with
  | none => rw [htp] at hP; simp only [Goal1] at hP; simp [Goal1, hP, htp]
  | some x =>
    obtain ⟨p, r'⟩ := x
    rw [htp] at hP
    obtain ⟨hsuf, e, hp, ⟨pcs, rfl⟩, hv⟩ := hP
    have hL := ihL reach r'
    cases htl : treePartsLoop f r' with
    | none => rw [htl] at hL; simp only [GoalPL] at hL; simp [Goal1, hp, hL, htp, htl]
    | some y =>
      obtain ⟨cs, r''⟩ := y
      rw [htl] at hL
      obtain ⟨hsuf2, l, rfl, hpl, hl⟩ := hL
      simp only [hp, hpl, htp, htl, Goal1]
      refine ⟨hsuf2.trans hsuf, _, rfl, ⟨_, rfl⟩, ?_⟩
      intro g up hg hw hst hcl
      rw [depth_rule] at hg hw
      obtain ⟨g', rfl⟩ : ∃ g', g = g' + 1 := ⟨g - 1, by omega⟩
      rw [visitF_parts, ← rExpr_collect_fold]
      have hd0 := depthL_mem (c := PT.rule "part" pcs) (cs := PT.rule "part" pcs :: dotKids l) List.mem_cons_self
      have key := visitParts_alg (selfAt c toks wf g') up (PT.rule "part" pcs) (rExpr e)
        (l.map (fun x => (x.1, x.2.1, rExpr x.2.2))) rfl
        (by
          rw [dotKids_map]
          exact hv g' _ (by omega) (by simp only [List.length_cons]; omega) (StopsOK_cons _ _ _ rfl hst)
            (hcl.down _ rfl (List.suffix_refl _) (suffix_length hsuf2)))
        (by
          intro x hx
          obtain ⟨y, hy, rfl⟩ := List.mem_map.mp hx
          rw [dotKids_map]
          obtain ⟨⟨ycs, hyc⟩, hyv⟩ := hl y hy
          have hdy := depthL_mem (List.mem_cons_of_mem (PT.rule "part" pcs) (dotKids_mem l y hy))
          refine ⟨by simp only [hyc]; rfl, ?_⟩
          exact hyv g' _ (by omega) (by simp only [List.length_cons]; omega) (StopsOK_cons _ _ _ rfl hst)
            (hcl.down _ rfl hsuf (Nat.le_refl _)))
      rw [dotKids_map] at key
      exact key

end steps


/-! ### `expr: parts (setop parts)*` -/

def opE : Tok → Expr → Expr → Expr
  | .union => Expr.union
  | .intersect => Expr.inter
  | _ => Expr.diff

def opName : Tok → String
  | .union => "union"
  | .intersect => "intersection"
  | _ => "difference"

def IsOp (t : Tok) : Prop := t = .union ∨ t = .intersect ∨ t = .minus

def opNode (t : ITok) : PT := .rule "setop" [leaf t]

theorem rExpr_opE (t : Tok) (h : IsOp t) (a b : Expr) :
    rExpr (opE t a b) = binV (.str (opName t)) (rExpr a) (rExpr b) := by
  rcases h with rfl | rfl | rfl <;> rfl

theorem visit_opNode (c : V → M V) (toks : List V) (wf g : Nat) (t : ITok) (h : IsOp t.1) (ups : List PT) :
    visitF c toks wf (g+1) (.ctx (opNode t) ups) = .ok (.str (opName t.1)) := by
  obtain ⟨tk, i⟩ := t
  simp only [opNode]
  rw [visitF_setop]
  rcases h with h | h | h <;> simp only at h <;> subst h
  · exact visitSetop_union _ _ _
  · exact visitSetop_intersect _ _ _
  · exact visitSetop_minus _ _ _

def opKidsE (l : List (ITok × PT × Expr)) : List PT := opKids (l.map (fun x => (opNode x.1, x.2.1, x.2.2)))

theorem opKids_map {α β : Type} (l : List (PT × PT × α)) (φ : PT × PT × α → β) :
    opKids (l.map (fun x => (x.1, x.2.1, φ x))) = opKids l := by
  induction l with
  | nil => rfl
  | cons x r ih => simp only [List.map_cons, opKids, ih]

theorem opKids_mem {α : Type} (l : List (PT × PT × α)) (x : PT × PT × α) (h : x ∈ l) : x.1 ∈ opKids l ∧ x.2.1 ∈ opKids l := by
  induction l with
  | nil => cases h
  | cons y r ih =>
    simp only [opKids]
    rcases List.mem_cons.mp h with rfl | h
    · exact ⟨List.mem_cons_self, List.mem_cons_of_mem _ List.mem_cons_self⟩
    · exact ⟨List.mem_cons_of_mem _ (List.mem_cons_of_mem _ (ih h).1), List.mem_cons_of_mem _ (List.mem_cons_of_mem _ (ih h).2)⟩

def GoalEL (c : V → M V) (toks : List V) (wf : Nat) (reach : Bool) (its : List ITok)
    (tr : Option (List PT × List ITok)) (pr : Expr → Option (Expr × List Tok)) : Prop :=
  match tr with
  | Option.none => ∀ acc, pr acc = Option.none
  | some (cs, irest) => irest <:+ its ∧ ∃ l : List (ITok × PT × Expr), cs = opKidsE l ∧
      (∀ acc, pr acc = some (l.foldl (fun a x => opE x.1.1 a x.2.2) acc, irest.map Prod.fst)) ∧
      ∀ x ∈ l, IsOp x.1.1 ∧ (∃ pcs, x.2.1 = .rule "parts" pcs) ∧ VisitOK c toks wf reach x.2.1 x.2.2 its irest

theorem rExpr_op_fold (l : List (ITok × PT × Expr)) (hl : ∀ x ∈ l, IsOp x.1.1) (e : Expr) :
    (l.map (fun x => (opNode x.1, x.2.1, V.str (opName x.1.1), rExpr x.2.2))).foldl (fun a x => binV x.2.2.1 a x.2.2.2) (rExpr e) =
      rExpr (l.foldl (fun a x => opE x.1.1 a x.2.2) e) := by
  induction l generalizing e with
  | nil => rfl
  | cons x r ih =>
    simp only [List.map_cons, List.foldl_cons]
    rw [← ih (fun y hy => hl y (List.mem_cons_of_mem _ hy)), rExpr_opE _ (hl x List.mem_cons_self)]

theorem opKids_vals (l : List (ITok × PT × Expr)) :
    opKids (l.map (fun x => (opNode x.1, x.2.1, V.str (opName x.1.1), rExpr x.2.2))) = opKidsE l := by
  unfold opKidsE
  induction l with
  | nil => rfl
  | cons x r ih => simp only [List.map_cons, opKids]; rw [ih]

section steps
variable (c : V → M V) (toks : List V) (wf : Nat) (hR : ResolveSpec toks wf)
include hR

theorem exprLoop_op (f : Nat)
    (ihP : ∀ reach its, Goal1 c toks wf "parts" reach its (treeParts f its) (parseParts f reach (its.map Prod.fst)))
    (ihL : ∀ reach its, GoalEL c toks wf reach its (treeExprLoop f its) (fun acc => parseExprLoop f reach acc (its.map Prod.fst)))
    (reach : Bool) (tk : Tok) (i : Nat) (r1 : List ITok) (hop : IsOp tk)
    (htree : treeExprLoop (f+1) ((tk, i) :: r1) =
      match treeParts f r1 with
      | some (p, rest') =>
        match treeExprLoop f rest' with
        | some (cs, rest'') => some (opNode (tk, i) :: p :: cs, rest'')
        | Option.none => Option.none
      | Option.none => Option.none)
    (hparse : ∀ acc, parseExprLoop (f+1) reach acc (((tk, i) :: r1).map Prod.fst) =
      match parseParts f reach (r1.map Prod.fst) with
      | some (e, rest') => parseExprLoop f reach (opE tk acc e) rest'
      | Option.none => Option.none) :
    GoalEL c toks wf reach ((tk, i) :: r1) (treeExprLoop (f+1) ((tk, i) :: r1))
      (fun acc => parseExprLoop (f+1) reach acc (((tk, i) :: r1).map Prod.fst)) := by
  rw [htree]
  simp only [hparse]
  have hP := ihP reach r1
  cases htp : treeParts f r1 with
  | none => rw [htp] at hP; simp only [Goal1] at hP; simp [GoalEL, hP, htp]
  | some x =>
    obtain ⟨p, r'⟩ := x
    rw [htp] at hP
    obtain ⟨hsuf, e, hp, ⟨pcs, rfl⟩, hv⟩ := hP
    have hL := ihL reach r'
    cases htl : treeExprLoop f r' with
    | none => rw [htl] at hL; simp only [GoalEL] at hL; simp [GoalEL, hp, hL, htp, htl]
    | some y =>
      obtain ⟨cs, r''⟩ := y
      rw [htl] at hL
      obtain ⟨hsuf2, l, rfl, hpl, hl⟩ := hL
      simp only [htp, htl, GoalEL]
      refine ⟨suffix_cons' _ (hsuf2.trans hsuf), ((tk, i), PT.rule "parts" pcs, e) :: l, rfl, ?_, ?_⟩
      · intro acc; simp only [hp, hpl, List.foldl_cons]
      · intro x hx
        rcases List.mem_cons.mp hx with rfl | hx
        · exact ⟨hop, ⟨_, rfl⟩, hv.mono (List.suffix_cons _ _) (suffix_length hsuf2)⟩
        · exact ⟨(hl x hx).1, (hl x hx).2.1, (hl x hx).2.2.mono (suffix_cons' _ hsuf) (Nat.le_refl _)⟩

theorem exprLoop_step (f : Nat)
    (ihP : ∀ reach its, Goal1 c toks wf "parts" reach its (treeParts f its) (parseParts f reach (its.map Prod.fst)))
    (ihL : ∀ reach its, GoalEL c toks wf reach its (treeExprLoop f its) (fun acc => parseExprLoop f reach acc (its.map Prod.fst)))
    (reach : Bool) (its : List ITok) :
    GoalEL c toks wf reach its (treeExprLoop (f+1) its) (fun acc => parseExprLoop (f+1) reach acc (its.map Prod.fst)) := by
  have other : treeExprLoop (f+1) its = some ([], its) →
      (∀ acc, parseExprLoop (f+1) reach acc (its.map Prod.fst) = some (acc, its.map Prod.fst)) →
      GoalEL c toks wf reach its (treeExprLoop (f+1) its) (fun acc => parseExprLoop (f+1) reach acc (its.map Prod.fst)) := by
    intro h1 h2
    rw [h1]
    exact ⟨List.suffix_refl _, [], rfl, h2, fun x hx => by cases hx⟩
  rcases its with _ | ⟨⟨tk1, i⟩, r1⟩
  · exact other rfl (fun _ => rfl)
  cases tk1 with
  | union => exact exprLoop_op c toks wf hR f ihP ihL reach _ i r1 (Or.inl rfl) rfl (fun _ => rfl)
  | intersect => exact exprLoop_op c toks wf hR f ihP ihL reach _ i r1 (Or.inr (Or.inl rfl)) rfl (fun _ => rfl)
  | minus => exact exprLoop_op c toks wf hR f ihP ihL reach _ i r1 (Or.inr (Or.inr rfl)) rfl (fun _ => rfl)
  | _ => exact other rfl (fun _ => rfl)

theorem exprNode_step (f : Nat)
    (ihP : ∀ reach its, Goal1 c toks wf "parts" reach its (treeParts f its) (parseParts f reach (its.map Prod.fst)))
    (ihL : ∀ reach its, GoalEL c toks wf reach its (treeExprLoop f its) (fun acc => parseExprLoop f reach acc (its.map Prod.fst)))
    (reach : Bool) (its : List ITok) :
    Goal1 c toks wf "expr" reach its (treeExpr (f+1) its) (parseExpr (f+1) reach (its.map Prod.fst)) := by
  simp only [treeExpr, parseExpr]
  have hP := ihP reach its
  cases htp : treeParts f its with
  | none => rw [htp] at hP; simp only [Goal1] at hP; simp [Goal1, hP, htp]
  | some x =>
    obtain ⟨p, r'⟩ := x
    rw [htp] at hP
    obtain ⟨hsuf, e, hp, ⟨pcs, rfl⟩, hv⟩ := hP
    have hL := ihL reach r'
    cases htl : treeExprLoop f r' with
    | none => rw [htl] at hL; simp only [GoalEL] at hL; simp [Goal1, hp, hL, htp, htl]
    | some y =>
      obtain ⟨cs, r''⟩ := y
      rw [htl] at hL
      obtain ⟨hsuf2, l, rfl, hpl, hl⟩ := hL
      simp only [hp, hpl, htp, htl, Goal1]
      refine ⟨hsuf2.trans hsuf, _, rfl, ⟨_, rfl⟩, ?_⟩
      intro g up hg hw hst hcl
      rw [depth_rule] at hg hw
      obtain ⟨g', rfl⟩ : ∃ g', g = g' + 1 := ⟨g - 1, by omega⟩
      rw [visitF_expr, ← rExpr_op_fold l (fun x hx => (hl x hx).1)]
      have hd0 := depthL_mem (c := PT.rule "parts" pcs) (cs := PT.rule "parts" pcs :: opKidsE l) List.mem_cons_self
      have hk := opKids_vals l
      have key := visitExpr_alg (selfAt c toks wf g') up (PT.rule "parts" pcs) (rExpr e)
        (l.map (fun x => (opNode x.1, x.2.1, V.str (opName x.1.1), rExpr x.2.2))) rfl
        (by
          rw [hk]
          exact hv g' _ (by omega) (by simp only [List.length_cons]; omega) (StopsOK_cons _ _ _ rfl hst)
            (hcl.down _ rfl (List.suffix_refl _) (suffix_length hsuf2)))
        (by
          intro x hx
          obtain ⟨y, hy, rfl⟩ := List.mem_map.mp hx
          rw [hk]
          obtain ⟨hyop, ⟨ycs, hyc⟩, hyv⟩ := hl y hy
          have hmem := opKids_mem _ _ (List.mem_map_of_mem (f := fun x : ITok × PT × Expr => (opNode x.1, x.2.1, x.2.2)) hy)
          have hdy := depthL_mem (List.mem_cons_of_mem (PT.rule "parts" pcs) hmem.2)
          have hdo := depthL_mem (List.mem_cons_of_mem (PT.rule "parts" pcs) hmem.1)
          have hdo2 : 1 ≤ (opNode y.1).depth := by simp [opNode, depth_rule]
          refine ⟨⟨rfl, by simp only [hyc]; rfl⟩, ?_, ?_⟩
          · obtain ⟨g'', rfl⟩ : ∃ g'', g' = g'' + 1 := ⟨g' - 1, by unfold opKidsE at hd0 hg; simp only at hdo; omega⟩
            exact visit_opNode c toks wf g'' y.1 hyop _
          · exact hyv g' _ (by unfold opKidsE at hd0 hg; simp only at hdy; omega)
              (by unfold opKidsE at hw; simp only [List.length_cons] at hdy ⊢; omega) (StopsOK_cons _ _ _ rfl hst)
              (hcl.down _ rfl hsuf (Nat.le_refl _)))
      rw [hk] at key
      exact key

end steps


/-! ### the parallel induction on the fuel -/

theorem all_tie (c : V → M V) (toks : List V) (wf : Nat) (hR : ResolveSpec toks wf) (f : Nat) :
    (∀ reach its, Goal1 c toks wf "part" reach its (treePart f its) (parsePart f reach (its.map Prod.fst))) ∧
    (∀ reach its, GoalPL c toks wf reach its (treePartsLoop f its) (fun acc => parsePartsLoop f reach acc (its.map Prod.fst))) ∧
    (∀ reach its, Goal1 c toks wf "parts" reach its (treeParts f its) (parseParts f reach (its.map Prod.fst))) ∧
    (∀ reach its, GoalEL c toks wf reach its (treeExprLoop f its) (fun acc => parseExprLoop f reach acc (its.map Prod.fst))) ∧
    (∀ reach its, Goal1 c toks wf "expr" reach its (treeExpr f its) (parseExpr f reach (its.map Prod.fst))) := by
  induction f with
  | zero =>
    refine ⟨?_, ?_, ?_, ?_, ?_⟩
    · intro reach its; simp [Goal1, treePart, parsePart]
    · intro reach its; simp [GoalPL, treePartsLoop, parsePartsLoop]
    · intro reach its; simp [Goal1, treeParts, parseParts]
    · intro reach its; simp [GoalEL, treeExprLoop, parseExprLoop]
    · intro reach its; simp [Goal1, treeExpr, parseExpr]
  | succ f ih =>
    obtain ⟨hP, hPL, hPs, hEL, hE⟩ := ih
    exact ⟨part_step c toks wf hR f hE, partsLoop_step c toks wf hR f hP hPL, parts_step c toks wf hR f hP hPL,
      exprLoop_step c toks wf hR f hPs hEL, exprNode_step c toks wf hR f hPs hEL⟩

/-- with no `while` budget the specification of `_resolve_part_ID_type` holds vacuously -/
theorem resolveSpec_zero : ResolveSpec [] 0 := fun _ _ _ _ _ _ _ _ _ h _ => absurd h (Nat.not_lt_zero _)

theorem expr_none (f : Nat) (reach : Bool) (its : List ITok) (h : treeExpr f its = Option.none) :
    parseExpr f reach (its.map Prod.fst) = Option.none := by
  have := (all_tie (fun _ => .error .compileError) [] 0 resolveSpec_zero f).2.2.2.2 reach its
  rw [h] at this
  exact this

theorem treeExpr_suffix (f : Nat) (its : List ITok) (t : PT) (irest : List ITok) (h : treeExpr f its = some (t, irest)) :
    irest <:+ its := by
  have := (all_tie (fun _ => .error .compileError) [] 0 resolveSpec_zero f).2.2.2.2 true its
  rw [h] at this
  exact this.1

theorem expr_tie (c : V → M V) (toks : List V) (wf : Nat) (hR : ResolveSpec toks wf)
    (f : Nat) (reach : Bool) (its : List ITok) (t : PT) (irest : List ITok) (h : treeExpr f its = some (t, irest)) :
    ∃ e, parseExpr f reach (its.map Prod.fst) = some (e, irest.map Prod.fst) ∧ isRule "expr" t = true ∧
      ∀ g up, t.depth ≤ g → up.length + t.depth < wf → StopsOK up toks →
        (∀ n i r, (Tok.id n, i) :: r <:+ its → irest.length ≤ r.length →
            (reach && !dotAhead (r.map Prod.fst)) = stepAt up toks i) →
        visitF c toks wf g (.ctx t up) = .ok (rExpr e) := by
  have := (all_tie c toks wf hR f).2.2.2.2 reach its
  rw [h] at this
  obtain ⟨_, e, hp, ⟨cs, rfl⟩, hv⟩ := this
  exact ⟨e, hp, rfl, fun g up hg hw hst hcl => hv g up hg hw hst hcl⟩

/-! ### `expr (COMMA expr)*` -/

def GoalXL (c : V → M V) (toks : List V) (wf : Nat) (reach : Bool) (its : List ITok)
    (tr : Option (List PT × List ITok)) (pr : Option (List Expr × List Tok)) : Prop :=
  match tr with
  | Option.none => pr = Option.none
  | some (cs, irest) => irest <:+ its ∧ ∃ es, pr = some (es, irest.map Prod.fst) ∧
      (∀ x ∈ cs, isRule "expr" x = true ∨ isTok "COMMA" x = true) ∧
      ∀ g up, PT.depthL cs ≤ g → up.length + PT.depthL cs < wf → StopsOK up toks → Classif toks reach up its irest →
        (cs.filter (isRule "expr")).mapM (fun e => visitF c toks wf g (.ctx e up)) = .ok (es.map rExpr)

theorem xl_single (c : V → M V) (toks : List V) (wf : Nat) (reach : Bool) (its : List ITok) (ecs : List PT) (e : Expr)
    (ir : List ITok) (hsuf : ir <:+ its) (hv : VisitOK c toks wf reach (.rule "expr" ecs) e its ir) :
    GoalXL c toks wf reach its (some ([.rule "expr" ecs], ir)) (some ([e], ir.map Prod.fst)) := by
  refine ⟨hsuf, [e], rfl, ?_, ?_⟩
  · intro x hx; simp only [List.mem_singleton] at hx; subst hx; exact Or.inl rfl
  · intro g up hg hw hst hcl
    have hd : PT.depthL [PT.rule "expr" ecs] = (PT.rule "expr" ecs).depth := by simp [PT.depthL]
    rw [hd] at hg hw
    have := hv g up hg hw hst hcl
    simp [List.filter_cons, isRule, List.mapM_cons, this, bind, Except.bind, pure, Except.pure]

theorem exprlist_all (c : V → M V) (toks : List V) (wf : Nat) (hR : ResolveSpec toks wf) (f : Nat) (reach : Bool) (its : List ITok) :
    GoalXL c toks wf reach its (treeExprList f its) (parseExprList f reach (its.map Prod.fst)) := by
  induction f generalizing its with
  | zero => simp [GoalXL, treeExprList, parseExprList]
  | succ f ih =>
    have hE := (all_tie c toks wf hR f).2.2.2.2 reach its
    cases hte : treeExpr f its with
    | none => rw [hte] at hE; simp only [Goal1] at hE; simp [GoalXL, treeExprList, parseExprList, hte, hE]
    | some x =>
      obtain ⟨t, ir⟩ := x
      rw [hte] at hE
      obtain ⟨hsuf, e, hp, ⟨ecs, rfl⟩, hv⟩ := hE
      rcases ir with _ | ⟨⟨tk, i⟩, rest⟩
      · simp only [treeExprList, parseExprList, hte, hp, List.map_nil]
        exact xl_single c toks wf reach its ecs e [] hsuf hv
      cases tk with
      | comma =>
        simp only [treeExprList, parseExprList, hte, hp, List.map_cons]
        have hX := ih rest
        cases htl : treeExprList f rest with
        | none => rw [htl] at hX; simp only [GoalXL] at hX; simp [GoalXL, hX]
        | some y =>
          obtain ⟨cs, ir2⟩ := y
          rw [htl] at hX
          obtain ⟨hsuf2, es, hpl, hcs, hvl⟩ := hX
          simp only [hpl, Option.map_some, GoalXL]
          have hrest : rest <:+ its := (List.suffix_cons _ _).trans hsuf
          refine ⟨hsuf2.trans hrest, e :: es, rfl, ?_, ?_⟩
          · intro x hx
            rcases List.mem_cons.mp hx with rfl | hx
            · exact Or.inl rfl
            rcases List.mem_cons.mp hx with rfl | hx
            · exact Or.inr rfl
            · exact hcs x hx
          · intro g up hg hw hst hcl
            have hd : PT.depthL (PT.rule "expr" ecs :: leaf (Tok.comma, i) :: cs) =
                max (PT.rule "expr" ecs).depth (max 1 (PT.depthL cs)) := by simp [PT.depthL, leaf, depth_tok]
            rw [hd] at hg hw
            have h1 := hv g up (by omega) (by omega) hst
              (hcl.mono (List.suffix_refl _) (by have := suffix_length hsuf2; simp only [List.length_cons]; omega))
            have h2 := hvl g up (by omega) (by omega) hst (hcl.mono hrest (Nat.le_refl _))
            simp only [List.filter_cons, isRule_leaf]
            simp [isRule, List.mapM_cons, h1, h2, bind, Except.bind, pure, Except.pure]
      | _ =>
        simp only [treeExprList, parseExprList, hte, hp, List.map_cons]
        exact xl_single c toks wf reach its ecs e _ hsuf hv

theorem exprlist_none (f : Nat) (reach : Bool) (its : List ITok) (h : treeExprList f its = Option.none) :
    parseExprList f reach (its.map Prod.fst) = Option.none := by
  have := exprlist_all (fun _ => .error .compileError) [] 0 resolveSpec_zero f reach its
  rw [h] at this
  exact this

theorem treeExprList_suffix (f : Nat) (its : List ITok) (cs : List PT) (irest : List ITok)
    (h : treeExprList f its = some (cs, irest)) : irest <:+ its := by
  have := exprlist_all (fun _ => .error .compileError) [] 0 resolveSpec_zero f true its
  rw [h] at this
  exact this.1

theorem exprlist_tie (c : V → M V) (toks : List V) (wf : Nat) (hR : ResolveSpec toks wf)
    (f : Nat) (reach : Bool) (its : List ITok) (cs : List PT) (irest : List ITok) (h : treeExprList f its = some (cs, irest)) :
    ∃ es, parseExprList f reach (its.map Prod.fst) = some (es, irest.map Prod.fst) ∧
      (∀ x ∈ cs, isRule "expr" x = true ∨ isTok "COMMA" x = true) ∧
      ∀ g up, PT.depthL cs ≤ g → up.length + PT.depthL cs < wf → StopsOK up toks →
        (∀ n i r, (Tok.id n, i) :: r <:+ its → irest.length ≤ r.length →
            (reach && !dotAhead (r.map Prod.fst)) = stepAt up toks i) →
        (cs.filter (isRule "expr")).mapM (fun e => visitF c toks wf g (.ctx e up)) = .ok (es.map rExpr) := by
  have := exprlist_all c toks wf hR f reach its
  rw [h] at this
  obtain ⟨_, es, hp, hcs, hv⟩ := this
  exact ⟨es, hp, hcs, fun g up hg hw hst hcl => hv g up hg hw hst hcl⟩

end MalVerif.Py.Visitor
