import MalVerif.Py.TieClassesAssocAbs
namespace MalVerif.Py.Classes
open MalVerif.Py.Visitor (V dictPut dictPutAll)
open MalVerif.Py MalVerif.Py.Classes.Gen

/-- the body of `get_association_by_signature` after the association definitions have been read -/
def sigBody (lang_assocs_entries : V) (assoc_name left_asset right_asset : String) : M String := do
  if (!(← isIn (V.str assoc_name) lang_assocs_entries)) then
    throw CErr.lookupError
  let mut assoc_entry : V := (← getItem lang_assocs_entries (V.str assoc_name))
  if (← (if (← isIn (V.str "definitions") assoc_entry) then (do pure (decide ((← lenOf (← getItem assoc_entry (V.str "definitions"))) > 1)) : M Bool) else pure false)) then
    let mut full_name : String := (assoc_name ++ "_" ++ left_asset ++ "_" ++ right_asset)
    let mut full_name_flipped : String := (assoc_name ++ "_" ++ right_asset ++ "_" ++ left_asset)
    if (!(← isIn (V.str full_name) (← getItem assoc_entry (V.str "definitions")))) then
      if (!(← isIn (V.str full_name_flipped) (← getItem assoc_entry (V.str "definitions")))) then
        throw CErr.lookupError
      else
        return full_name_flipped
    else
      return full_name
  else
    return assoc_name

theorem signature_unfold (lg : LG) (ga ns : V) (one : Option (List V)) (ld : List (String × V)) (name l r : String) :
    factory_get_association_by_signature lg
      { json_schema := skel ga (group "LanguageAssociation" one ld), ns := ns } name l r = sigBody (.dict ld) name l r := by
  cases one <;> rfl


theorem any_of_lookup_none (d : List (String × V)) (k : String) (h : d.lookup k = none) :
    d.any (fun e => e.1 == k) = false := by
  rw [← lookup_isSome_iff, h]; rfl

theorem any_of_lookup_some (d : List (String × V)) (k : String) (v : V) (h : d.lookup k = some v) :
    d.any (fun e => e.1 == k) = true := by
  rw [← lookup_isSome_iff, h]; rfl

theorem sigBody_unknown (ld : List (String × V)) (name l r : String) (h : ld.lookup name = none) :
    sigBody (.dict ld) name l r = .error .lookupError := by
  unfold sigBody
  rw [isIn_dict, any_of_lookup_none ld name h]
  rfl

theorem sigBody_plain (ld : List (String × V)) (name l r : String) (ed : List (String × V))
    (h : ld.lookup name = some (.dict ed)) (hd : ed.lookup "definitions" = none) :
    sigBody (.dict ld) name l r = .ok name := by
  unfold sigBody
  rw [isIn_dict, any_of_lookup_some ld name _ h, getItem_dict, h]
  show (do
    if (← (if (← isIn (V.str "definitions") (.dict ed)) then (do pure (decide ((← lenOf (← getItem (.dict ed) (V.str "definitions"))) > 1)) : M Bool) else pure false)) then _ else _) = _
  rw [isIn_dict, any_of_lookup_none ed _ hd]
  rfl


theorem sigBody_container (ld : List (String × V)) (name l r : String) (o : List V) (subs : List (String × V))
    (h : ld.lookup name = some (container name o subs)) :
    sigBody (.dict ld) name l r =
      if subs.length > 1 then
        (if subs.any (fun e => e.1 == name ++ "_" ++ l ++ "_" ++ r) then .ok (name ++ "_" ++ l ++ "_" ++ r)
         else if subs.any (fun e => e.1 == name ++ "_" ++ r ++ "_" ++ l) then .ok (name ++ "_" ++ r ++ "_" ++ l)
         else .error .lookupError)
      else .ok name := by
  unfold sigBody
  rw [isIn_dict, any_of_lookup_some ld name _ h, getItem_dict, h]
  have h1 : ∀ (x y : M String),
      (do
        if (← (if (← isIn (V.str "definitions") (container name o subs)) then (do pure (decide ((← lenOf (← getItem (container name o subs) (V.str "definitions"))) > 1)) : M Bool) else pure false)) then x else y)
      = if decide ((subs.length : Int) > 1) = true then x else y := fun _ _ => rfl
  refine (h1 _ _).trans ?_
  by_cases hl : subs.length > 1
  · rw [if_pos hl, if_pos (by simp only [decide_eq_true_eq]; omega)]
    show (do
      if (!(← isIn (V.str (name ++ "_" ++ l ++ "_" ++ r)) (← getItem (container name o subs) (V.str "definitions")))) then
        if (!(← isIn (V.str (name ++ "_" ++ r ++ "_" ++ l)) (← getItem (container name o subs) (V.str "definitions")))) then
          throw CErr.lookupError
        else
          pure (name ++ "_" ++ r ++ "_" ++ l)
      else
        pure (name ++ "_" ++ l ++ "_" ++ r) : M String) = _
    have h2 : getItem (container name o subs) (V.str "definitions") = .ok (.dict subs) := rfl
    rw [h2]
    simp only [bind_ok, isIn_dict]
    cases subs.any (fun e => e.1 == name ++ "_" ++ l ++ "_" ++ r) <;>
      cases subs.any (fun e => e.1 == name ++ "_" ++ r ++ "_" ++ l) <;> rfl
  · rw [if_neg hl, if_neg (by simp only [decide_eq_true_eq]; omega)]
    rfl


/-! ### `get_association_by_signature` on the schema shape -/

/-- an unknown association name: `LookupError` -/
theorem signature_unknown (lg : LG) (ga ns : V) (one : Option (List V)) (ld : List (String × V))
    (name l r : String) (h : ld.lookup name = none) :
    factory_get_association_by_signature lg
      { json_schema := skel ga (group "LanguageAssociation" one ld), ns := ns } name l r = .error .lookupError := by
  rw [signature_unfold]; exact sigBody_unknown ld name l r h

/-- an entry without `definitions` (a name that is not shared): the association name itself -/
theorem signature_plain (lg : LG) (ga ns : V) (one : Option (List V)) (ld : List (String × V))
    (name l r : String) (ed : List (String × V))
    (h : ld.lookup name = some (.dict ed)) (hd : ed.lookup "definitions" = none) :
    factory_get_association_by_signature lg
      { json_schema := skel ga (group "LanguageAssociation" one ld), ns := ns } name l r = .ok name := by
  rw [signature_unfold]; exact sigBody_plain ld name l r ed h hd

/-- a container: `name_l_r` if it is a sub-entry, else `name_r_l` if that is one, else `LookupError`; a container
with at most one sub-entry yields the association name -/
theorem signature_container (lg : LG) (ga ns : V) (one : Option (List V)) (ld : List (String × V))
    (name l r : String) (o : List V) (subs : List (String × V))
    (h : ld.lookup name = some (container name o subs)) :
    factory_get_association_by_signature lg
      { json_schema := skel ga (group "LanguageAssociation" one ld), ns := ns } name l r =
      if subs.length > 1 then
        (if subs.any (fun e => e.1 == name ++ "_" ++ l ++ "_" ++ r) then .ok (name ++ "_" ++ l ++ "_" ++ r)
         else if subs.any (fun e => e.1 == name ++ "_" ++ r ++ "_" ++ l) then .ok (name ++ "_" ++ r ++ "_" ++ l)
         else .error .lookupError)
      else .ok name := by
  rw [signature_unfold]; exact sigBody_container ld name l r o subs h


/-! ### the entries of `assocPart lg`: an invariant of the loop that names the processed associations -/

theorem mem_dictPut (d : List (String × V)) (k : String) (v : V) (x : String × V) :
    x ∈ dictPut d k v ↔ (x ∈ d ∧ x.1 ≠ k) ∨ x = (k, v) := by
  unfold dictPut
  by_cases h : d.any (fun e => e.1 == k) = true
  · rw [if_pos h, List.mem_map]
    constructor
    · rintro ⟨e, he, rfl⟩
      by_cases hek : e.1 = k
      · right; simp [hek]
      · left
        have : (e.1 == k) = false := by simpa using hek
        simp only [this, Bool.false_eq_true, if_false]
        exact ⟨he, hek⟩
    · rintro (⟨hx, hne⟩ | rfl)
      · refine ⟨x, hx, ?_⟩
        have : (x.1 == k) = false := by simpa using hne
        simp only [this, Bool.false_eq_true, if_false]
      · obtain ⟨e, he, hek⟩ := List.any_eq_true.1 h
        exact ⟨e, he, by rw [if_pos hek]⟩
  · rw [if_neg h, List.mem_append, List.mem_singleton]
    constructor
    · rintro (hx | rfl)
      · left
        refine ⟨hx, fun hk => h (List.any_eq_true.2 ⟨x, hx, by simpa using hk⟩)⟩
      · right; rfl
    · rintro (⟨hx, _⟩ | rfl)
      · exact Or.inl hx
      · exact Or.inr rfl

theorem mem_keys_dictPut (d : List (String × V)) (k : String) (v : V) (k' : String) :
    k' ∈ (dictPut d k v).map (·.1) ↔ k' ∈ d.map (·.1) ∨ k' = k := by
  rw [keys_dictPut]
  split
  · rename_i h
    constructor
    · exact Or.inl
    · rintro (h' | rfl)
      · exact h'
      · exact h
  · rw [List.mem_append, List.mem_singleton]

theorem lookup_mem (d : List (String × V)) (k : String) (v : V) (h : d.lookup k = some v) : (k, v) ∈ d := by
  induction d with
  | nil => cases h
  | cons e es ih =>
    rcases e with ⟨a, b⟩
    by_cases hk : k = a
    · subst hk
      simp only [List.lookup, beq_self_eq_true] at h
      cases h
      exact List.mem_cons_self
    · have h2 : (k == a) = false := by simpa using hk
      simp only [List.lookup, h2] at h
      exact List.mem_cons_of_mem _ (ih h)

theorem lookup_of_any (d : List (String × V)) (k : String) (h : d.any (fun e => e.1 == k) = true) :
    ∃ v, d.lookup k = some v := by
  rw [← lookup_isSome_iff] at h
  exact Option.isSome_iff_exists.1 h

/-- what is stored under the name `n` once the associations `done` have been processed -/
def EntryOk (lg : LG) (done : List LGAssoc) (n : String) (e : V) : Prop :=
  ∃ b ∈ done, b.name = n ∧
    (isDup lg b = true → e = container n (oneOfOf e) (subsOf e) ∧
      ∀ k, k ∈ (subsOf e).map (·.1) ↔ ∃ b' ∈ done, b'.name = n ∧ subName lg b' = k) ∧
    (isDup lg b = false → ∃ b' ∈ done, b'.name = n ∧ e = assocEntry lg n b')

/-- the invariant: the keys are the names of the processed associations, the entries are as `EntryOk` says -/
structure SigInv (lg : LG) (done : List LGAssoc) (defs : List (String × V)) : Prop where
  keys : ∀ b ∈ done, defs.any (fun e => e.1 == b.name) = true
  ents : ∀ x ∈ defs, EntryOk lg done x.1 x.2

theorem entryOk_mono (lg : LG) (done : List LGAssoc) (a : LGAssoc) (n : String) (e : V)
    (h : EntryOk lg done n e) (hn : n ≠ a.name) : EntryOk lg (done ++ [a]) n e := by
  obtain ⟨b, hb, hbn, h1, h2⟩ := h
  refine ⟨b, List.mem_append_left _ hb, hbn, ?_, ?_⟩
  · intro hd
    obtain ⟨hc, hk⟩ := h1 hd
    refine ⟨hc, fun k => (hk k).trans ?_⟩
    constructor
    · rintro ⟨b', hb', h'⟩
      exact ⟨b', List.mem_append_left _ hb', h'⟩
    · rintro ⟨b', hb', hn', hs'⟩
      rcases List.mem_append.1 hb' with hb' | hb'
      · exact ⟨b', hb', hn', hs'⟩
      · rw [List.mem_singleton] at hb'
        subst hb'
        exact absurd hn'.symm hn
  · intro hd
    obtain ⟨b', hb', h'⟩ := h2 hd
    exact ⟨b', List.mem_append_left _ hb', h'⟩

theorem sigInv_keys_step (done : List LGAssoc) (defs : List (String × V)) (a : LGAssoc) (v : V)
    (h : ∀ b ∈ done, defs.any (fun e => e.1 == b.name) = true) :
    ∀ b ∈ done ++ [a], (dictPut defs a.name v).any (fun e => e.1 == b.name) = true := by
  intro b hb
  rcases List.mem_append.1 hb with hb | hb
  · rw [any_key_iff, mem_keys_dictPut]
    exact Or.inl ((any_key_iff _ _).1 (h b hb))
  · rw [List.mem_singleton] at hb
    subst hb
    exact dictPut_any _ _ _

/-- the sub-entry keys of the container found (or created) for a shared name -/
theorem sigInv_subs (lg : LG) (done : List LGAssoc) (defs : List (String × V)) (a : LGAssoc)
    (hd : isDup lg a = true) (hinv : SigInv lg done defs) (k : String) :
    k ∈ (subsOf ((defs.lookup a.name).getD (container a.name [] []))).map (·.1) ↔
      ∃ b' ∈ done, b'.name = a.name ∧ subName lg b' = k := by
  cases hl : defs.lookup a.name with
  | none =>
    rw [Option.getD_none, subsOf_container]
    constructor
    · intro h; cases h
    · rintro ⟨b', hb', hn', _⟩
      have := hinv.keys b' hb'
      rw [hn', any_of_lookup_none _ _ hl] at this
      cases this
  | some c =>
    rw [Option.getD_some]
    obtain ⟨b, hb, hbn, h1, _⟩ := hinv.ents _ (lookup_mem _ _ _ hl)
    have hbd : isDup lg b = true := (isDup_congr lg a b hbn).trans hd
    exact (h1 hbd).2 k

theorem sigInv_step (lg : LG) (done : List LGAssoc) (acc : List V × List (String × V)) (a : LGAssoc)
    (hinv : SigInv lg done acc.2) : SigInv lg (done ++ [a]) (assocStep lg acc a).2 := by
  cases hd : isDup lg a with
  | true =>
    rw [assocStep_dup lg acc a hd]
    refine ⟨sigInv_keys_step done acc.2 a _ hinv.keys, ?_⟩
    intro x hx
    rcases (mem_dictPut _ _ _ _).1 hx with ⟨hx, hne⟩ | rfl
    · exact entryOk_mono lg done a _ _ (hinv.ents x hx) hne
    · refine ⟨a, List.mem_append_right _ (List.mem_singleton.2 rfl), rfl, ?_, ?_⟩
      · intro _
        refine ⟨by rw [oneOfOf_container, subsOf_container], fun k => ?_⟩
        show k ∈ (subsOf (container _ _ _)).map (·.1) ↔ _
        rw [subsOf_container, mem_keys_dictPut, sigInv_subs lg done acc.2 a hd hinv k]
        constructor
        · rintro (⟨b', hb', h'⟩ | rfl)
          · exact ⟨b', List.mem_append_left _ hb', h'⟩
          · exact ⟨a, List.mem_append_right _ (List.mem_singleton.2 rfl), rfl, rfl⟩
        · rintro ⟨b', hb', hn', hs'⟩
          rcases List.mem_append.1 hb' with hb' | hb'
          · exact Or.inl ⟨b', hb', hn', hs'⟩
          · rw [List.mem_singleton] at hb'
            subst hb'
            exact Or.inr hs'.symm
      · intro hf
        rw [hd] at hf
        cases hf
  | false =>
    rw [assocStep_nodup lg acc a hd]
    refine ⟨sigInv_keys_step done acc.2 a _ hinv.keys, ?_⟩
    intro x hx
    rcases (mem_dictPut _ _ _ _).1 hx with ⟨hx, hne⟩ | rfl
    · exact entryOk_mono lg done a _ _ (hinv.ents x hx) hne
    · refine ⟨a, List.mem_append_right _ (List.mem_singleton.2 rfl), rfl, ?_, ?_⟩
      · intro hf
        rw [hd] at hf
        cases hf
      · intro _
        exact ⟨a, List.mem_append_right _ (List.mem_singleton.2 rfl), rfl, rfl⟩

theorem sigInv_fold (lg : LG) : ∀ (l done : List LGAssoc) (acc : List V × List (String × V)),
    SigInv lg done acc.2 → SigInv lg (done ++ l) (l.foldl (assocStep lg) acc).2 := by
  intro l
  induction l with
  | nil => intro done acc h; rw [List.append_nil]; exact h
  | cons a l ih =>
    intro done acc h
    rw [List.foldl_cons]
    have := ih (done ++ [a]) _ (sigInv_step lg done acc a h)
    rw [List.append_assoc] at this
    exact this

theorem sigInv_nil (lg : LG) : SigInv lg [] [] where
  keys := fun _ h => nomatch h
  ents := fun _ h => nomatch h

/-- the invariant holds of the result, with all associations processed -/
theorem assocPart_sigInv (lg : LG) : SigInv lg lg.associations (assocPart lg).2 := by
  have := sigInv_fold lg lg.associations [] ([], []) (sigInv_nil lg)
  rw [List.nil_append] at this
  exact this


/-! ### the containers and the plain entries of `assocPart lg` -/

/-- under a shared name there is a container whose sub-entry keys are the `name_Left_Right` of the associations
of that name -/
theorem assocPart_subs_keys (lg : LG) (a : LGAssoc) (ha : a ∈ lg.associations) (hd : isDup lg a = true) :
    ∃ e, (assocPart lg).2.lookup a.name = some e ∧ e = container a.name (oneOfOf e) (subsOf e) ∧
      ∀ k, k ∈ (subsOf e).map (·.1) ↔ ∃ b ∈ lg.associations, b.name = a.name ∧ subName lg b = k := by
  have hinv := assocPart_sigInv lg
  obtain ⟨e, he⟩ := lookup_of_any _ _ (hinv.keys a ha)
  obtain ⟨b, _, hbn, h1, _⟩ := hinv.ents _ (lookup_mem _ _ _ he)
  have hbd : isDup lg b = true := (isDup_congr lg a b hbn).trans hd
  exact ⟨e, he, h1 hbd⟩

/-- under a name that is not shared there is the entry of an association of that name -/
theorem assocPart_plain (lg : LG) (a : LGAssoc) (ha : a ∈ lg.associations) (hd : isDup lg a = false) :
    ∃ b ∈ lg.associations, b.name = a.name ∧ (assocPart lg).2.lookup a.name = some (assocEntry lg a.name b) := by
  have hinv := assocPart_sigInv lg
  obtain ⟨e, he⟩ := lookup_of_any _ _ (hinv.keys a ha)
  obtain ⟨b, _, hbn, _, h2⟩ := hinv.ents _ (lookup_mem _ _ _ he)
  have hbd : isDup lg b = false := (isDup_congr lg a b hbn).trans hd
  obtain ⟨b', hb', hn', he'⟩ := h2 hbd
  have he'' : e = assocEntry lg a.name b' := he'
  exact ⟨b', hb', hn', by rw [he, he'']⟩

theorem length_gt_one_of_two {α} (l : List α) (x y : α) (hx : x ∈ l) (hy : y ∈ l) (h : x ≠ y) : l.length > 1 := by
  match l, hx, hy with
  | [z], hx, hy =>
    rw [List.mem_singleton] at hx hy
    exact absurd (hx.trans hy.symm) h
  | _ :: _ :: _, _, _ => simp

/-- the translated lookup finds the class name of every association of the language graph -/
theorem signature_of_assoc (lg : LG) (ga ns : V) (one : Option (List V)) (a : LGAssoc) (ha : a ∈ lg.associations)
    (h2 : isDup lg a = true → ∃ b ∈ lg.associations, b.name = a.name ∧ subName lg b ≠ subName lg a) :
    factory_get_association_by_signature lg
        { json_schema := skel ga (group "LanguageAssociation" one (assocPart lg).2), ns := ns }
        a.name (lg.asset a.left_field.asset).name (lg.asset a.right_field.asset).name = .ok (slotCls lg a) := by
  cases hd : isDup lg a with
  | false =>
    obtain ⟨b, _, _, hl⟩ := assocPart_plain lg a ha hd
    have hs : slotCls lg a = a.name := by unfold slotCls; rw [hd]; rfl
    rw [hs]
    exact signature_plain lg ga ns one _ _ _ _ _ hl rfl
  | true =>
    obtain ⟨e, hl, he, hk⟩ := assocPart_subs_keys lg a ha hd
    obtain ⟨b, hb, hbn, hne⟩ := h2 hd
    have hs : slotCls lg a = subName lg a := by unfold slotCls; rw [hd]; rfl
    rw [he] at hl
    rw [hs, signature_container lg ga ns one _ _ _ _ _ _ hl]
    have hma : subName lg a ∈ (subsOf e).map (·.1) := (hk _).2 ⟨a, ha, rfl, rfl⟩
    have hmb : subName lg b ∈ (subsOf e).map (·.1) := (hk _).2 ⟨b, hb, hbn, rfl⟩
    have hlen : (subsOf e).length > 1 := by
      have := length_gt_one_of_two _ _ _ hmb hma hne
      rw [List.length_map] at this
      exact this
    have hany : (subsOf e).any (fun x => x.1 == subName lg a) = true := (any_key_iff _ _).2 hma
    rw [if_pos hlen]
    show (if (subsOf e).any (fun x => x.1 == subName lg a) = true then Except.ok (subName lg a) else _) = _
    rw [if_pos hany]


/-! ### the class names of `assocPart lg` -/

theorem mem_flatKeys (defs : List (String × V)) (k : String) :
    k ∈ flatKeys defs ↔ ∃ x ∈ defs, (dget x.2 "definitions" = none ∧ x.1 = k) ∨
      (∃ s, dget x.2 "definitions" = some s ∧ k ∈ (dictOf s).map (·.1)) := by
  unfold flatKeys
  simp only [List.mem_map, List.mem_flatMap]
  constructor
  · rintro ⟨y, ⟨x, hx, hy⟩, rfl⟩
    refine ⟨x, hx, ?_⟩
    cases hdg : dget x.2 "definitions" with
    | none =>
      rw [hdg] at hy
      exact Or.inl ⟨rfl, by rw [List.mem_singleton.1 hy]⟩
    | some s =>
      rw [hdg] at hy
      exact Or.inr ⟨s, rfl, y, hy, rfl⟩
  · rintro ⟨x, hx, ⟨hdg, rfl⟩ | ⟨s, hdg, y, hy, rfl⟩⟩
    · exact ⟨x, ⟨x, hx, by rw [hdg]; exact List.mem_singleton.2 rfl⟩, rfl⟩
    · exact ⟨y, ⟨x, hx, by rw [hdg]; exact hy⟩, rfl⟩

theorem slotCls_dup (lg : LG) (a : LGAssoc) (h : isDup lg a = true) : slotCls lg a = subName lg a := by
  unfold slotCls; rw [h]; rfl
theorem slotCls_nodup (lg : LG) (a : LGAssoc) (h : isDup lg a = false) : slotCls lg a = a.name := by
  unfold slotCls; rw [h]; rfl

theorem sigInv_flatKeys (lg : LG) (done : List LGAssoc) (defs : List (String × V)) (hinv : SigInv lg done defs)
    (k : String) : k ∈ flatKeys defs ↔ ∃ a ∈ done, slotCls lg a = k := by
  rw [mem_flatKeys]
  constructor
  · rintro ⟨⟨n, e⟩, hx, h⟩
    obtain ⟨b, hb, hbn, h1, h2⟩ := hinv.ents _ hx
    change b.name = n at hbn
    cases hbd : isDup lg b with
    | true =>
      obtain ⟨hc, hk⟩ := h1 hbd
      change e = container n (oneOfOf e) (subsOf e) at hc
      have hdg : dget e "definitions" = some (.dict (subsOf e)) := by rw [hc]; rfl
      rcases h with ⟨hn, _⟩ | ⟨s, hs, hm⟩
      · change dget e "definitions" = none at hn
        rw [hdg] at hn; cases hn
      · change dget e "definitions" = some s at hs
        rw [hdg] at hs; cases hs
        obtain ⟨b', hb', hn', hs'⟩ := (hk k).1 hm
        change b'.name = n at hn'
        have hbd' : isDup lg b' = true := (isDup_congr lg b b' (hn'.trans hbn.symm)).trans hbd
        exact ⟨b', hb', by rw [slotCls_dup lg b' hbd', hs']⟩
    | false =>
      obtain ⟨b', hb', hn', he'⟩ := h2 hbd
      change b'.name = n at hn'
      change e = assocEntry lg n b' at he'
      have hdg : dget e "definitions" = none := by rw [he']; rfl
      have hbd' : isDup lg b' = false := (isDup_congr lg b b' (hn'.trans hbn.symm)).trans hbd
      rcases h with ⟨_, hk⟩ | ⟨s, hs, _⟩
      · change n = k at hk
        exact ⟨b', hb', by rw [slotCls_nodup lg b' hbd', hn', hk]⟩
      · change dget e "definitions" = some s at hs
        rw [hdg] at hs; cases hs
  · rintro ⟨a, ha, rfl⟩
    obtain ⟨e, he⟩ := lookup_of_any _ _ (hinv.keys a ha)
    have hm := lookup_mem _ _ _ he
    refine ⟨(a.name, e), hm, ?_⟩
    obtain ⟨b, hb, hbn, h1, h2⟩ := hinv.ents _ hm
    change b.name = a.name at hbn
    cases hd : isDup lg a with
    | true =>
      have hbd : isDup lg b = true := (isDup_congr lg a b hbn).trans hd
      obtain ⟨hc, hk⟩ := h1 hbd
      change e = container a.name (oneOfOf e) (subsOf e) at hc
      have hdg : dget e "definitions" = some (.dict (subsOf e)) := by rw [hc]; rfl
      rw [slotCls_dup lg a hd]
      exact Or.inr ⟨_, hdg, (hk _).2 ⟨a, ha, rfl, rfl⟩⟩
    | false =>
      have hbd : isDup lg b = false := (isDup_congr lg a b hbn).trans hd
      obtain ⟨b', _, _, he'⟩ := h2 hbd
      change e = assocEntry lg a.name b' at he'
      have hdg : dget e "definitions" = none := by rw [he']; rfl
      rw [slotCls_nodup lg a hd]
      exact Or.inl ⟨hdg, rfl⟩

/-- the class names of the association group are the class names of the associations of the language graph -/
theorem assocPart_flatKeys (lg : LG) (k : String) :
    k ∈ flatKeys (assocPart lg).2 ↔ ∃ a ∈ lg.associations, slotCls lg a = k :=
  sigInv_flatKeys lg lg.associations _ (assocPart_sigInv lg) k

end MalVerif.Py.Classes
