import MalVerif.Py.AbsMSerial
import MalVerif.Py.TieModelStep
/-!
# `HeapSet` is an invariant of the translated mutators of the instance model

`HeapSet s` (`AbsMSerial.lean`): every live asset has `extras`, every live association has `extras` and a class name
different from `"extras"`, every live attacker has `id` and `name`.

* `Keep s s'`: the operation did not touch `extras` of any asset cell, `extras` / `cls` of any association cell,
  `id` / `name` of any attachment cell, and the three live lists only shrank.  All removals and the two entry-point
  functions are `Keep` steps (no hypothesis at all is needed: neither the invariant nor `EqId`).
* the three `add_*` functions set the attributes on the new object and append it.
* `heapSet_step`: one operation of a history (`stepGen`), `heapSet_run`: whole histories from the empty heap.
-/
namespace MalVerif.PyM.Tie
open MalVerif MalVerif.PyM MalVerif.PyM.Gen

/-- no generated association class is called `extras` (a reserved key of an association entry) -/
def NoExtrasClass (L : Lang) : Prop := ∀ c ∈ MS.assocClasses L, c.cls ≠ "extras"

/-- the next references of the three object stores are not live (a consequence of `MS.Inv (abs s)`) -/
structure FreshOK (s : H) : Prop where
  a : s.afresh ∉ s.assets
  l : s.lfresh ∉ s.associations
  t : s.tfresh ∉ s.attackers

theorem freshOK_of_inv {s : H} (hI : MS.Inv (abs s)) : FreshOK s :=
  ⟨hI.assets.fresh_not_mem, hI.links.fresh_not_mem, hI.att.fresh_not_mem⟩

theorem heapSet_empty : HeapSet ({} : H) :=
  ⟨fun _ h => absurd h List.not_mem_nil, fun _ h => absurd h List.not_mem_nil, fun _ h => absurd h List.not_mem_nil,
   fun _ h => absurd h List.not_mem_nil, fun _ h => absurd h List.not_mem_nil⟩

/-! ### `Keep`: the attributes `HeapSet` speaks of are untouched, the live lists only shrink -/

structure Keep (s s' : H) : Prop where
  aex : ∀ a, (s'.a a).extras = (s.a a).extras
  lex : ∀ l, (s'.l l).extras = (s.l l).extras
  lcls : ∀ l, (s'.l l).cls = (s.l l).cls
  tid : ∀ t, (s'.t t).id = (s.t t).id
  tname : ∀ t, (s'.t t).name = (s.t t).name
  assets : ∀ a ∈ s'.assets, a ∈ s.assets
  associations : ∀ l ∈ s'.associations, l ∈ s.associations
  attackers : ∀ t ∈ s'.attackers, t ∈ s.attackers

theorem Keep.refl (s : H) : Keep s s :=
  ⟨fun _ => rfl, fun _ => rfl, fun _ => rfl, fun _ => rfl, fun _ => rfl, fun _ h => h, fun _ h => h, fun _ h => h⟩

theorem Keep.trans {s s' s'' : H} (h : Keep s s') (h' : Keep s' s'') : Keep s s'' :=
  ⟨fun a => (h'.aex a).trans (h.aex a), fun l => (h'.lex l).trans (h.lex l), fun l => (h'.lcls l).trans (h.lcls l),
   fun t => (h'.tid t).trans (h.tid t), fun t => (h'.tname t).trans (h.tname t),
   fun a ha => h.assets a (h'.assets a ha), fun l hl => h.associations l (h'.associations l hl),
   fun t ht => h.attackers t (h'.attackers t ht)⟩

theorem Keep.heapSet {s s' : H} (h : Keep s s') (hs : HeapSet s) : HeapSet s' := by
  refine ⟨?_, ?_, ?_, ?_, ?_⟩
  · intro a ha; rw [h.aex]; exact hs.aextras a (h.assets a ha)
  · intro l hl; rw [h.lex]; exact hs.lextras l (h.associations l hl)
  · intro l hl; rw [h.lcls]; exact hs.lcls l (h.associations l hl)
  · intro t ht; rw [h.tid]; exact hs.tid t (h.attackers t ht)
  · intro t ht; rw [h.tname]; exact hs.tname t (h.attackers t ht)

theorem Keep.setA (s : H) (r : ARef) (o : PyAsset) (ho : o.extras = (s.a r).extras) : Keep s (s.setA r o) := by
  refine ⟨?_, fun _ => rfl, fun _ => rfl, fun _ => rfl, fun _ => rfl, fun _ h => h, fun _ h => h, fun _ h => h⟩
  intro x
  show (if x = r then o else s.a x).extras = _
  by_cases hx : x = r
  · subst hx; rw [if_pos rfl]; exact ho
  · rw [if_neg hx]

theorem Keep.setL (s : H) (r : LRef) (o : PyAssoc) (ho : o.extras = (s.l r).extras) (hc : o.cls = (s.l r).cls) :
    Keep s (s.setL r o) := by
  refine ⟨fun _ => rfl, ?_, ?_, fun _ => rfl, fun _ => rfl, fun _ h => h, fun _ h => h, fun _ h => h⟩
  · intro x
    show (if x = r then o else s.l x).extras = _
    by_cases hx : x = r
    · subst hx; rw [if_pos rfl]; exact ho
    · rw [if_neg hx]
  · intro x
    show (if x = r then o else s.l x).cls = _
    by_cases hx : x = r
    · subst hx; rw [if_pos rfl]; exact hc
    · rw [if_neg hx]

theorem Keep.wr (s : H) (f : FieldLoc) (v : List ARef) : Keep s (s.wr f v) := by
  unfold H.wr; split <;> exact Keep.setL _ _ _ rfl rfl

theorem Keep.setT (s : H) (r : TRef) (o : PyAtt) (hi : o.id = (s.t r).id) (hn : o.name = (s.t r).name) :
    Keep s (s.setT r o) := by
  refine ⟨fun _ => rfl, fun _ => rfl, fun _ => rfl, ?_, ?_, fun _ h => h, fun _ h => h, fun _ h => h⟩
  · intro x
    show (if x = r then o else s.t x).id = _
    by_cases hx : x = r
    · subst hx; rw [if_pos rfl]; exact hi
    · rw [if_neg hx]
  · intro x
    show (if x = r then o else s.t x).name = _
    by_cases hx : x = r
    · subst hx; rw [if_pos rfl]; exact hn
    · rw [if_neg hx]

theorem Keep.setE (s : H) (r : ERef) (o : PyEp) : Keep s (s.setE r o) :=
  ⟨fun _ => rfl, fun _ => rfl, fun _ => rfl, fun _ => rfl, fun _ => rfl, fun _ h => h, fun _ h => h, fun _ h => h⟩

theorem Keep.allocE (s : H) (o : PyEp) : Keep s (s.allocE o).1 :=
  ⟨fun _ => rfl, fun _ => rfl, fun _ => rfl, fun _ => rfl, fun _ => rfl, fun _ h => h, fun _ h => h, fun _ h => h⟩

/-- `l.remove(x)` returns a part of `l` -/
theorem pyRemoveBy_sub {α : Type} {eq : α → α → Bool} {l v : List α} {x : α} (h : pyRemoveBy eq l x = .ok v) :
    ∀ y ∈ v, y ∈ l := by
  unfold pyRemoveBy at h
  split at h
  · cases h; exact fun y hy => List.eraseP_subset hy
  · cases h

/-! ### `remove_association` -/

theorem rm_stepY_keep (env : ModelEnv) (l : LRef) (a : ARef) (p : H × List LRef) (q : ForInStep (H × List LRef))
    (h : rmStepY env l a p = .ok q) : Keep p.1 (rmVal q).1 := by
  unfold rmStepY at h
  obtain ⟨v, _, hv⟩ := bind_ok h
  injection hv with hv
  subst hv
  exact Keep.setA _ _ _ rfl

theorem rm_stepG_keep (env : ModelEnv) (l : LRef) (a : ARef) (p : H × List LRef) (q : ForInStep (H × List LRef))
    (h : rmStepG env l a p = .ok q) : Keep p.1 (rmVal q).1 := by
  unfold rmStepG at h
  split at h
  · exact rm_stepY_keep env l a p q h
  · injection h with h
    subst h
    exact Keep.refl _

theorem rm_tail_keep (env : ModelEnv) (l : LRef) (v s' : H) (h : rmTail env l v = .ok s') : Keep v s' := by
  unfold rmTail at h
  obtain ⟨v2, hv2, h⟩ := bind_ok h
  obtain ⟨v3, _, h⟩ := bind_ok h
  obtain ⟨v4, _, h⟩ := bind_ok h
  obtain ⟨v5, _, h⟩ := bind_ok h
  split at h
  · obtain ⟨v6, _, h⟩ := bind_ok h
    injection h with h
    subst h
    exact ⟨fun _ => rfl, fun _ => rfl, fun _ => rfl, fun _ => rfl, fun _ => rfl, fun _ h => h,
      fun x hx => pyRemoveBy_sub hv2 x hx, fun _ h => h⟩
  · injection h with h
    subst h
    exact ⟨fun _ => rfl, fun _ => rfl, fun _ => rfl, fun _ => rfl, fun _ => rfl, fun _ h => h,
      fun x hx => pyRemoveBy_sub hv2 x hx, fun _ h => h⟩

theorem remove_association_keep {env : ModelEnv} (s s' : H) (l : LRef)
    (h : model_remove_association s env l = .ok s') : Keep s s' := by
  rw [rm_eq] at h
  split at h
  · cases h
  unfold rmMain at h
  obtain ⟨lf, _, h⟩ := bind_ok h
  obtain ⟨rf, _, h⟩ := bind_ok h
  obtain ⟨p, hp, h⟩ := bind_ok h
  obtain ⟨q, hq, h⟩ := bind_ok h
  have hR : ∀ x y z : H × List LRef, Keep x.1 y.1 → Keep y.1 z.1 → Keep x.1 z.1 :=
    fun _ _ _ h1 h2 => h1.trans h2
  have f1 := rm_forIn_rel (fun x y : H × List LRef => Keep x.1 y.1) (fun _ => Keep.refl _) hR
    (rmStepY env l) (rm_stepY_keep env l) _ _ _ hp
  have f2 := rm_forIn_rel (fun x y : H × List LRef => Keep x.1 y.1) (fun _ => Keep.refl _) hR
    (rmStepG env l) (rm_stepG_keep env l) _ _ _ hq
  exact (f1.trans f2).trans (rm_tail_keep env l _ _ h)

theorem heapSet_remove_association {env : ModelEnv} {s s' : H} {l : LRef} (hs : HeapSet s)
    (h : model_remove_association s env l = .ok s') : HeapSet s' :=
  (remove_association_keep s s' l h).heapSet hs

/-! ### `remove_asset_from_association` (the field handle writes a whole `PyAssoc` record: `{ o with left := v }`,
`extras` and `cls` are copied) -/

theorem rafa_step2_keep (env : ModelEnv) (a : ARef) (field : FieldLoc) (p : H × Bool) (q : ForInStep (H × Bool))
    (h : rafaStep2 env a field p = .ok q) : Keep p.1 (rmVal q).1 := by
  unfold rafaStep2 at h
  split at h
  · obtain ⟨v, _, hv⟩ := bind_ok h
    injection hv with hv
    subst hv
    exact Keep.wr _ _ _
  · injection h with h
    subst h
    exact Keep.refl _

theorem rafa_finish_keep (env : ModelEnv) (a : ARef) (l : LRef) (lf rf : FieldLoc) (s s' : H) (found : Bool)
    (h : rafaFinish env a l lf rf s found = .ok s') : Keep s s' := by
  unfold rafaFinish at h
  split at h
  · split at h
    · cases h
    · injection h with h
      subst h
      exact Keep.setA _ _ _ rfl
  · split at h
    · cases h
    · injection h with h
      subst h
      exact Keep.refl _

theorem rafa_keep {env : ModelEnv} (s s' : H) (a : ARef) (l : LRef)
    (h : model_remove_asset_from_association s env a l = .ok s') : Keep s s' := by
  rw [rafa_eq] at h
  split at h
  · cases h
  split at h
  · cases h
  unfold rafaMain at h
  obtain ⟨lf, _, h⟩ := bind_ok h
  obtain ⟨rf, _, h⟩ := bind_ok h
  rw [rafa_loop1] at h
  split at h
  · obtain ⟨s1, h1, h⟩ := bind_ok h
    rw [rafaRest_some] at h
    injection h with h
    subst h
    exact remove_association_keep _ _ _ h1
  · rw [rafaRest_none] at h
    obtain ⟨q, hq, h⟩ := bind_ok h
    have hR : ∀ x y z : H × Bool, Keep x.1 y.1 → Keep y.1 z.1 → Keep x.1 z.1 :=
      fun _ _ _ h1 h2 => h1.trans h2
    have f1 := rm_forIn_rel (fun x y : H × Bool => Keep x.1 y.1) (fun _ => Keep.refl _) hR
      (rafaStep2 env a) (rafa_step2_keep env a) _ _ _ hq
    exact f1.trans (rafa_finish_keep env a l lf rf _ _ _ h)

theorem heapSet_remove_asset_from_association {env : ModelEnv} {s s' : H} {a : ARef} {l : LRef} (hs : HeapSet s)
    (h : model_remove_asset_from_association s env a l = .ok s') : HeapSet s' :=
  (rafa_keep s s' a l h).heapSet hs

/-! ### `remove_asset` -/

theorem raB1_keep (env : ModelEnv) (a : ARef) (s : H) (l : LRef) (s' : H)
    (h : raB1 env a s l = .ok s') : Keep s s' := by
  unfold raB1 at h
  split at h
  · exact rafa_keep s s' a l h
  · cases h; exact Keep.refl s

theorem raB2_keep (env : ModelEnv) (a : ARef) (s : H) (t : TRef) (s' : H)
    (h : raB2 env a s t = .ok s') : Keep s s' := by
  unfold raB2 at h
  cases hg : attachment_get_entry_point_tuple s env t a with
  | none => rw [hg] at h; cases h; exact Keep.refl s
  | some r =>
    rw [hg] at h
    dsimp only at h
    obtain ⟨l, _, h2⟩ := bind_ok h
    cases h2
    exact Keep.setT _ _ _ rfl rfl

theorem raFin_keep (env : ModelEnv) (a : ARef) (s s' : H) (h : raFin env a s = .ok s') : Keep s s' := by
  unfold raFin at h
  obtain ⟨l, hl, h2⟩ := bind_ok h
  cases h2
  exact ⟨fun _ => rfl, fun _ => rfl, fun _ => rfl, fun _ => rfl, fun _ => rfl,
    fun x hx => pyRemoveBy_sub hl x hx, fun _ h => h, fun _ h => h⟩

theorem remove_asset_keep {env : ModelEnv} (s s' : H) (a : ARef)
    (h : model_remove_asset s env a = .ok s') : Keep s s' := by
  rw [ra_eq] at h
  split at h
  · obtain ⟨s1, h1, h⟩ := bind_ok h
    obtain ⟨s2, h2, h3⟩ := bind_ok h
    have f1 : Keep s s1 :=
      loopE_rel Keep Keep.refl (fun _ _ _ => Keep.trans) (raB1 env a) (raB1_keep env a) _ s s1 h1
    have f2 : Keep s1 s2 :=
      loopE_rel Keep Keep.refl (fun _ _ _ => Keep.trans) (raB2 env a) (raB2_keep env a) _ s1 s2 h2
    exact (f1.trans f2).trans (raFin_keep env a s2 s' h3)
  · cases h

theorem heapSet_remove_asset {env : ModelEnv} {s s' : H} {a : ARef} (hs : HeapSet s)
    (h : model_remove_asset s env a = .ok s') : HeapSet s' :=
  (remove_asset_keep s s' a h).heapSet hs

/-! ### `remove_attacker` -/

theorem remove_attacker_keep {env : ModelEnv} (s s' : H) (t : TRef)
    (h : model_remove_attacker s env t = .ok s') : Keep s s' := by
  unfold model_remove_attacker at h
  simp only [bind, Except.bind, pure, Except.pure] at h
  split at h
  · cases h
  · next v hv =>
    injection h with h
    subst h
    exact ⟨fun _ => rfl, fun _ => rfl, fun _ => rfl, fun _ => rfl, fun _ => rfl, fun _ h => h, fun _ h => h,
      fun x hx => pyRemoveBy_sub hv x hx⟩

theorem heapSet_remove_attacker {env : ModelEnv} {s s' : H} {t : TRef} (hs : HeapSet s)
    (h : model_remove_attacker s env t = .ok s') : HeapSet s' :=
  (remove_attacker_keep s s' t h).heapSet hs

/-! ### the entry-point functions -/

theorem add_entry_point_keep (s : H) (env : ModelEnv) (t : TRef) (a : ARef) (step : String) :
    Keep s (attachment_add_entry_point s env t a step) := by
  cases hg : attachment_get_entry_point_tuple s env t a with
  | none => rw [at_add_none step hg]; exact (Keep.allocE s _).trans (Keep.setT _ _ _ rfl rfl)
  | some r =>
    rw [at_add_some step hg]
    split
    · exact Keep.refl s
    · exact Keep.setE s _ _

theorem at_rmE_keep (s : H) (r : ERef) (step : String) : Keep s (at_rmE s r step) := by
  unfold at_rmE
  split
  · exact Keep.setE s _ _
  · exact Keep.refl s

theorem remove_entry_point_keep {s s' : H} {env : ModelEnv} {t : TRef} {a : ARef} {step : String}
    (h : attachment_remove_entry_point s env t a step = .ok s') : Keep s s' := by
  rcases at_rm_ok h with rfl | ⟨r, rfl | ⟨v, _, rfl⟩⟩
  · exact Keep.refl _
  · exact at_rmE_keep s r step
  · exact (at_rmE_keep s r step).trans (Keep.setT _ _ _ (by rw [at_rmE_t]) (by rw [at_rmE_t]))

theorem heapSet_add_entry_point {s : H} (hs : HeapSet s) (env : ModelEnv) (t : TRef) (a : ARef) (step : String) :
    HeapSet (attachment_add_entry_point s env t a step) :=
  (add_entry_point_keep s env t a step).heapSet hs

theorem heapSet_remove_entry_point {s s' : H} {env : ModelEnv} {t : TRef} {a : ARef} {step : String} (hs : HeapSet s)
    (h : attachment_remove_entry_point s env t a step = .ok s') : HeapSet s' :=
  (remove_entry_point_keep h).heapSet hs

/-! ### `add_asset` -/

/-- the constructor's allocation keeps `HeapSet` (the new cell is not live) -/
theorem heapSet_newAssetObj (s : H) (o : PyAsset) (hf : s.afresh ∉ s.assets) (hs : HeapSet s) :
    HeapSet (newAssetObj s o) := by
  refine ⟨?_, hs.lextras, hs.lcls, hs.tid, hs.tname⟩
  intro a ha
  show (if a = s.afresh then o else s.a a).extras.isSome = true
  rw [if_neg (fun (e : a = s.afresh) => hf (e ▸ ha))]
  exact hs.aextras a ha

theorem addAssetH_extras (h : H) (a : ARef) (nid : Int) (nm : String) (x : ARef) :
    ((addAssetH h a nid nm).a x).extras = if x = a then some ((h.a a).extras.getD "{}") else (h.a x).extras := by
  unfold addAssetH
  by_cases hx : x = a <;> simp [hx]

theorem heapSet_addAssetH (h : H) (a : ARef) (nid : Int) (nm : String) (hs : HeapSet h) :
    HeapSet (addAssetH h a nid nm) := by
  refine ⟨?_, hs.lextras, hs.lcls, hs.tid, hs.tname⟩
  intro x hx
  have hx' : x ∈ h.assets ++ [a] := hx
  rw [addAssetH_extras]
  by_cases hxa : x = a
  · rw [if_pos hxa]; rfl
  · rw [if_neg hxa]
    rcases List.mem_append.1 hx' with h1 | h1
    · exact hs.aextras x h1
    · exact absurd (List.mem_singleton.1 h1) hxa

/-- a successful `add_asset` keeps `HeapSet` (`extras` is set when absent, the object is appended) -/
theorem heapSet_add_asset (h h' : H) (env : ModelEnv) (a : ARef) (id : Option Int) (dup : Bool) (hnew : a ∉ h.assets)
    (hfuel : h.asset_names.length + 1 ≤ env.whileFuel) (hok : model_add_asset h env a id dup = .ok h')
    (hs : HeapSet h) : HeapSet h' := by
  rw [add_asset_ok_form h h' env a id dup hnew hfuel hok]
  exact heapSet_addAssetH h a _ _ hs

/-! ### `add_association` -/

theorem heapSet_newAssocObj (s : H) (o : PyAssoc) (hf : s.lfresh ∉ s.associations) (hs : HeapSet s) :
    HeapSet (newAssocObj s o) := by
  refine ⟨hs.aextras, ?_, ?_, hs.tid, hs.tname⟩
  · intro l hl
    show (if l = s.lfresh then o else s.l l).extras.isSome = true
    rw [if_neg (fun (e : l = s.lfresh) => hf (e ▸ hl))]
    exact hs.lextras l hl
  · intro l hl
    show (if l = s.lfresh then o else s.l l).cls ≠ "extras"
    rw [if_neg (fun (e : l = s.lfresh) => hf (e ▸ hl))]
    exact hs.lcls l hl

theorem appendLoop_keep (l : LRef) (xs : List ARef) (s : H) : Keep s (appendLoop l xs s) := by
  induction xs generalizing s with
  | nil => exact Keep.refl s
  | cons c xs ih =>
    rw [appendLoop_cons]
    exact (Keep.setA s c { s.a c with associations := (s.a c).associations ++ [l] } rfl).trans (ih _)

theorem heapSet_addFin (s : H) (l : LRef) (hcls : (s.l l).cls ≠ "extras") (hs : HeapSet s) :
    HeapSet (addFin s l) := by
  have K := appendLoop_keep l ((s.l l).left ++ (s.l l).right) (s.setL l { s.l l with extras := some "{}" })
  have hl1 : ∀ x, ((s.setL l { s.l l with extras := some "{}" }).l x) =
      if x = l then { s.l l with extras := some "{}" } else s.l x := fun _ => rfl
  refine ⟨?_, ?_, ?_, ?_, ?_⟩
  · intro a ha
    show ((appendLoop l _ _).a a).extras.isSome = true
    rw [K.aex]
    exact hs.aextras a (K.assets a ha)
  · intro x hx
    have hx' : x ∈ (appendLoop l ((s.l l).left ++ (s.l l).right)
        (s.setL l { s.l l with extras := some "{}" })).associations ++ [l] := hx
    show ((appendLoop l _ _).l x).extras.isSome = true
    rw [K.lex, hl1]
    by_cases hxl : x = l
    · rw [if_pos hxl]; rfl
    · rw [if_neg hxl]
      rcases List.mem_append.1 hx' with h1 | h1
      · exact hs.lextras x (K.associations x h1)
      · exact absurd (List.mem_singleton.1 h1) hxl
  · intro x hx
    have hx' : x ∈ (appendLoop l ((s.l l).left ++ (s.l l).right)
        (s.setL l { s.l l with extras := some "{}" })).associations ++ [l] := hx
    show ((appendLoop l _ _).l x).cls ≠ "extras"
    rw [K.lcls, hl1]
    by_cases hxl : x = l
    · rw [if_pos hxl]; exact hcls
    · rw [if_neg hxl]
      rcases List.mem_append.1 hx' with h1 | h1
      · exact hs.lcls x (K.associations x h1)
      · exact absurd (List.mem_singleton.1 h1) hxl
  · intro t ht
    show ((appendLoop l _ _).t t).id.isSome = true
    rw [K.tid]
    exact hs.tid t (K.attackers t ht)
  · intro t ht
    show ((appendLoop l _ _).t t).name.isSome = true
    rw [K.tname]
    exact hs.tname t (K.attackers t ht)

/-- a successful `add_association` keeps `HeapSet`, when the class of the object is not called `extras` -/
theorem heapSet_add_association {env : ModelEnv} {s s' : H} {l : LRef} (hcls : (s.l l).cls ≠ "extras")
    (hs : HeapSet s) (h : model_add_association s env l = .ok s') : HeapSet s' := by
  rw [(add_association_ok h).2]
  exact heapSet_addFin s l hcls hs

/-! ### `add_attacker` -/

theorem truthy_isSome (n : Option String) (h : truthyOptStr n = true) : n.isSome = true := by
  cases n with
  | none => cases h
  | some v => rfl

theorem addAttackerH_id (h : H) (t : TRef) (id : Option Int) (x : TRef) :
    ((addAttackerH h t id).t x).id = if x = t then some (id.getD h.next_id) else (h.t x).id := by
  unfold addAttackerH
  by_cases hx : x = t <;> simp [hx]

theorem addAttackerH_name (h : H) (t : TRef) (id : Option Int) (x : TRef) :
    ((addAttackerH h t id).t x).name =
      if x = t then (if truthyOptStr (h.t t).name then (h.t t).name
                     else some ("Attacker:" ++ toString (id.getD h.next_id))) else (h.t x).name := by
  unfold addAttackerH
  by_cases hx : x = t <;> simp [hx]

/-- `add_attacker` keeps `HeapSet` when all live attachments *other than the argument* have `id` and `name`
(it assigns `id`, and `name` when the name is `None` or `''`) -/
theorem heapSet_add_attacker' (h : H) (env : ModelEnv) (t : TRef) (id : Option Int)
    (ha : ∀ a ∈ h.assets, (h.a a).extras.isSome = true) (hl : ∀ l ∈ h.associations, (h.l l).extras.isSome = true)
    (hc : ∀ l ∈ h.associations, (h.l l).cls ≠ "extras")
    (hi : ∀ u ∈ h.attackers, u ≠ t → (h.t u).id.isSome = true)
    (hn : ∀ u ∈ h.attackers, u ≠ t → (h.t u).name.isSome = true) :
    HeapSet (model_add_attacker h env t id) := by
  rw [add_attacker_run]
  refine ⟨ha, hl, hc, ?_, ?_⟩
  · intro x hx
    have hx' : x ∈ h.attackers ++ [t] := hx
    rw [addAttackerH_id]
    by_cases hxt : x = t
    · rw [if_pos hxt]; rfl
    · rw [if_neg hxt]
      rcases List.mem_append.1 hx' with h1 | h1
      · exact hi x h1 hxt
      · exact absurd (List.mem_singleton.1 h1) hxt
  · intro x hx
    have hx' : x ∈ h.attackers ++ [t] := hx
    rw [addAttackerH_name]
    by_cases hxt : x = t
    · rw [if_pos hxt]
      by_cases htr : truthyOptStr (h.t t).name = true
      · rw [if_pos htr]; exact truthy_isSome _ htr
      · rw [if_neg htr]; rfl
    · rw [if_neg hxt]
      rcases List.mem_append.1 hx' with h1 | h1
      · exact hn x h1 hxt
      · exact absurd (List.mem_singleton.1 h1) hxt

theorem heapSet_add_attacker (h : H) (env : ModelEnv) (t : TRef) (id : Option Int) (hs : HeapSet h) :
    HeapSet (model_add_attacker h env t id) :=
  heapSet_add_attacker' h env t id hs.aextras hs.lextras hs.lcls (fun u hu _ => hs.tid u hu) (fun u hu _ => hs.tname u hu)

/-- `add_attacker` on a newly built `AttackerAttachment` (no freshness hypothesis is needed: the new cell is the
argument, whose `id` and `name` `add_attacker` assigns) -/
theorem heapSet_add_attacker_new (s : H) (env : ModelEnv) (o : PyAtt) (id : Option Int) (hs : HeapSet s) :
    HeapSet (model_add_attacker (newAttObj s o) env s.tfresh id) := by
  refine heapSet_add_attacker' (newAttObj s o) env s.tfresh id hs.aextras hs.lextras hs.lcls ?_ ?_
  · intro u hu hne
    show (if u = s.tfresh then o else s.t u).id.isSome = true
    rw [if_neg hne]; exact hs.tid u hu
  · intro u hu hne
    show (if u = s.tfresh then o else s.t u).name.isSome = true
    rw [if_neg hne]; exact hs.tname u hu

/-! ### one operation of a history -/

theorem heapSet_okOrH_keep {s : H} (hs : HeapSet s) (r : Except PyErr H) (h : ∀ s', r = .ok s' → Keep s s') :
    HeapSet (okOrH s r) := by
  rcases okOrH_cases s r with e | ⟨s', e, e'⟩
  · rw [e]; exact hs
  · rw [e']; exact (h s' e).heapSet hs

theorem heapSet_step (L : Lang) (hL : NoExtrasClass L) (env : ModelEnv) (s : H) (hs : HeapSet s) (op : MS.Op)
    (hadm : Adm env s op) (hfresh : FreshOK s) : HeapSet (stepGen L env s op) := by
  cases op with
  | addAsset ty nm defs ok ex id dup =>
    rw [stepGen_addAsset]
    split
    · exact hs
    split
    · exact hs
    rcases okOrH_cases s (model_add_asset (newAssetObj s (mkAsset ty nm defs ex)) env s.afresh id dup) with h | ⟨s', h, h'⟩
    · rw [h]; exact hs
    · rw [h']
      exact heapSet_add_asset _ _ _ _ _ _ (show s.afresh ∉ (newAssetObj s _).assets from hfresh.a)
        (show (newAssetObj s _).asset_names.length + 1 ≤ env.whileFuel from hadm) h
        (heapSet_newAssetObj s _ hfresh.a hs)
  | addAssociation cls left right =>
    rw [stepGen_addAssociation]
    split
    · exact hs
    · next c hfind =>
      split
      · exact hs
      · split
        · next hd =>
          rcases okOrH_cases s (model_add_association (newAssocObj s
              { cls := cls, lf := c.lf, rf := c.rf, left := left, right := right, distinct := hd }) env s.lfresh)
            with h | ⟨s', h, h'⟩
          · rw [h]; exact hs
          · rw [h']
            have hc : c ∈ MS.assocClasses L := List.mem_of_find?_eq_some hfind
            have hcc : c.cls = cls := by simpa using List.find?_some hfind
            refine heapSet_add_association ?_ (heapSet_newAssocObj s _ hfresh.l hs) h
            rw [newAssocObj_l_self]
            show cls ≠ "extras"
            rw [← hcc]; exact hL c hc
        · exact hs
  | removeAssociation l =>
    rw [stepGen_removeAssociation]
    exact heapSet_okOrH_keep hs _ (fun s' h => remove_association_keep s s' l h)
  | removeAssetFromAssociation a l =>
    rw [stepGen_rafa]
    exact heapSet_okOrH_keep hs _ (fun s' h => rafa_keep s s' a l h)
  | removeAsset a =>
    rw [stepGen_removeAsset]
    exact heapSet_okOrH_keep hs _ (fun s' h => remove_asset_keep s s' a h)
  | addAttacker nm id =>
    rw [stepGen_addAttacker]
    exact heapSet_add_attacker_new s env _ id hs
  | removeAttacker t =>
    rw [stepGen_removeAttacker]
    exact heapSet_okOrH_keep hs _ (fun s' h => remove_attacker_keep s s' t h)
  | addEntryPoint t a step =>
    rw [stepGen_addEntryPoint]
    split
    · exact heapSet_add_entry_point hs env t a step
    · exact hs
  | removeEntryPoint t a step =>
    rw [stepGen_removeEntryPoint]
    split
    · exact heapSet_okOrH_keep hs _ (fun s' h => remove_entry_point_keep h)
    · exact hs

/-- the same with the invariant as the source of freshness -/
theorem heapSet_step_inv (L : Lang) (hL : NoExtrasClass L) (env : ModelEnv) (s : H) (hs : HeapSet s) (op : MS.Op)
    (hadm : Adm env s op) (hI : MS.Inv (abs s)) : HeapSet (stepGen L env s op) :=
  heapSet_step L hL env s hs op hadm (freshOK_of_inv hI)

/-! ### whole histories -/

theorem heapSet_run_from (L : Lang) (hL : NoExtrasClass L) (hLd : FieldsDistinct L) {env : ModelEnv} (hE : EqId env)
    (ops : List MS.Op) : ∀ (s : H), MS.Inv (abs s) → EpOKAll s → AdmAll L env s ops → HeapSet s →
      HeapSet (ops.foldl (stepGen L env) s) := by
  induction ops with
  | nil => intro s _ _ _ hs; exact hs
  | cons op ops ih =>
    intro s hI hO hA hs
    have h1 := step_sim L hLd hE s hI hO op hA.1
    have hI' : MS.Inv (abs (stepGen L env s op)) := by rw [h1]; exact MS.applyOp_inv' L (abs s) op hI
    have hO' := step_epOKAll L env s hI hO op hA.1
    rw [List.foldl_cons]
    exact ih _ hI' hO' hA.2 (heapSet_step_inv L hL env s hs op hA.1 hI)

/-- every heap reached from the empty model by an admissible history of translated operations satisfies `HeapSet` -/
theorem heapSet_run (L : Lang) (hL : NoExtrasClass L) (hLd : FieldsDistinct L) {env : ModelEnv} (hE : EqId env)
    (ops : List MS.Op) (hA : AdmAll L env {} ops) : HeapSet (ops.foldl (stepGen L env) {}) :=
  heapSet_run_from L hL hLd hE ops {} init_inv epOKAll_empty hA heapSet_empty

end MalVerif.PyM.Tie
