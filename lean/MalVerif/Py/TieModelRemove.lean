import MalVerif.Py.AbsModel
import MalVerif.Py.GenModel.Assoc
namespace MalVerif.PyM.Tie
open MalVerif MalVerif.PyM MalVerif.PyM.Gen

/-! # `Model.remove_association` / `Model.remove_asset_from_association` — tie to `MS` -/

/-! ### (0) small facts -/

theorem rm_getattr_lf (s : H) (l : LRef) : pyGetattr s l (s.l l).lf = .ok (l, false) := by
  unfold pyGetattr
  rw [if_pos (beq_self_eq_true _)]

theorem rm_getattr_rf (s : H) (l : LRef) : pyGetattr s l (s.l l).rf = .ok (l, true) := by
  unfold pyGetattr
  have hd := (s.l l).distinct
  have h1 : ((s.l l).rf == (s.l l).lf) = false := by
    simp only [beq_eq_false_iff_ne, ne_eq]
    exact fun h => hd h.symm
  rw [h1, if_neg (by simp), if_pos (beq_self_eq_true _)]

theorem rm_field_names (s : H) (env : ModelEnv) (l : LRef) :
    model_get_association_field_names s env l = ((s.l l).lf, (s.l l).rf) := rfl

theorem rm_rd_left (s : H) (l : LRef) : s.rd (l, false) = (s.l l).left := by
  unfold H.rd; simp
theorem rm_rd_right (s : H) (l : LRef) : s.rd (l, true) = (s.l l).right := by
  unfold H.rd; simp

theorem rm_wr_left (s : H) (l : LRef) (v : List ARef) :
    s.wr (l, false) v = s.setL l { s.l l with left := v } := by
  unfold H.wr; simp
theorem rm_wr_right (s : H) (l : LRef) (v : List ARef) :
    s.wr (l, true) v = s.setL l { s.l l with right := v } := by
  unfold H.wr; simp

theorem rm_abs_wr_left (s : H) (l : LRef) (v : List ARef) :
    abs (s.wr (l, false) v) = MS.updL (abs s) l (fun o => { o with left := v }) := by
  rw [rm_wr_left]
  exact abs_setL_updL s l _ _ rfl
theorem rm_abs_wr_right (s : H) (l : LRef) (v : List ARef) :
    abs (s.wr (l, true) v) = MS.updL (abs s) l (fun o => { o with right := v }) := by
  rw [rm_wr_right]
  exact abs_setL_updL s l _ _ rfl

theorem rm_setA_self (s : H) (a : ARef) : s.setA a (s.a a) = s := by
  cases s with
  | mk a' afresh l lfresh t tfresh e efresh name assets associations tta attackers ids names next =>
    unfold H.setA
    simp only [H.mk.injEq, and_true]
    funext x
    by_cases hx : x = a
    · subst hx; simp
    · simp [hx]

/-! ### the pieces of the generated `model_remove_association` -/

def rmStepY (env : ModelEnv) (l : LRef) (a : ARef) (p : H × List LRef) : Except PyErr (ForInStep (H × List LRef)) :=
  (pyRemoveBy (eqAssoc env p.1) (p.1.a a).associations l).bind fun v =>
    .ok (ForInStep.yield (p.1.setA a { p.1.a a with associations := v }, v))

def rmStepG (env : ModelEnv) (l : LRef) (a : ARef) (p : H × List LRef) : Except PyErr (ForInStep (H × List LRef)) :=
  if pyIn (eqAssoc env p.1) (p.1.a a).associations l = true then rmStepY env l a p else .ok (ForInStep.yield p)

def rmTail (env : ModelEnv) (l : LRef) (v : H) : Except PyErr H :=
  (pyRemoveBy (eqAssoc env v) v.associations l).bind fun v_2 =>
  (dictGetE v._type_to_association (v.l l).cls).bind fun v_3 =>
  (pyRemoveBy (eqAssoc env { v with associations := v_2 }) v_3 l).bind fun v_4 =>
  (dictGetE (dictSet v._type_to_association (v.l l).cls v_4) (v.l l).cls).bind fun v_5 =>
  if ((v_5.length : Int) == (0 : Int)) = true then
    (dictDel (dictSet v._type_to_association (v.l l).cls v_4) (v.l l).cls).bind fun v_6 =>
      .ok { v with associations := v_2, _type_to_association := v_6 }
  else .ok { v with associations := v_2, _type_to_association := dictSet v._type_to_association (v.l l).cls v_4 }

def rmMain (env : ModelEnv) (l : LRef) (s : H) : Except PyErr H :=
  (pyGetattr s l (model_get_association_field_names s env l).1).bind fun lf =>
  (pyGetattr s l (model_get_association_field_names s env l).2).bind fun rf =>
  (forIn (s.rd lf) (s, ([] : List LRef)) (rmStepY env l)).bind fun p =>
  (forIn (p.1.rd rf) (p.1, p.2) (rmStepG env l)).bind fun q =>
  rmTail env l q.1

theorem rm_eq (s : H) (env : ModelEnv) (l : LRef) :
    model_remove_association s env l =
      if (!pyIn (eqAssoc env s) s.associations l) = true then .error .lookupError else rmMain env l s := by
  unfold model_remove_association
  rfl

/-! ### the two loops: erase `l` from `asset.associations` for every member -/

def rmErase (l : LRef) (s : H) (a : ARef) : H :=
  s.setA a { s.a a with associations := (s.a a).associations.erase l }

def rmEraseAll (l : LRef) (xs : List ARef) (s : H) : H := xs.foldl (rmErase l) s

theorem rmEraseAll_cons (l : LRef) (x : ARef) (xs : List ARef) (s : H) :
    rmEraseAll l (x :: xs) s = rmEraseAll l xs (rmErase l s x) := rfl

theorem rmEraseAll_frame (l : LRef) (xs : List ARef) (s : H) :
    rmEraseAll l xs s = { s with a := (rmEraseAll l xs s).a } := by
  induction xs generalizing s with
  | nil => rfl
  | cons x xs ih => exact ih (rmErase l s x)

theorem rm_abs_erase (l : LRef) (s : H) (a : ARef) :
    abs (rmErase l s a) = MS.updA (abs s) a (fun x => { x with assocs := x.assocs.erase l }) :=
  abs_setA_updA s a _ _ rfl

theorem rm_abs_eraseAll (l : LRef) (xs : List ARef) (s : H) :
    abs (rmEraseAll l xs s) =
      xs.foldl (fun s a => MS.updA s a (fun x => { x with assocs := x.assocs.erase l })) (abs s) := by
  induction xs generalizing s with
  | nil => rfl
  | cons x xs ih => rw [rmEraseAll_cons, ih, rm_abs_erase]; rfl

theorem rm_stepY_ok {env : ModelEnv} (hE : EqId env) (l : LRef) (a : ARef) (s : H) (as : List LRef)
    (h : l ∈ (s.a a).associations) :
    rmStepY env l a (s, as) = .ok (ForInStep.yield (rmErase l s a, (s.a a).associations.erase l)) := by
  unfold rmStepY
  dsimp only
  rw [pyRemoveBy_assoc hE, if_pos (List.contains_iff_mem.2 h)]
  rfl

theorem rm_loopL {env : ModelEnv} (hE : EqId env) (l : LRef) : ∀ (xs : List ARef) (s : H) (as : List LRef),
    (∀ a ∈ xs, xs.count a ≤ (s.a a).associations.count l) →
    ∃ as', forIn xs (s, as) (rmStepY env l) = .ok (rmEraseAll l xs s, as') := by
  intro xs
  induction xs with
  | nil => intro s as _; exact ⟨as, rfl⟩
  | cons x xs ih =>
    intro s as h
    have hx : l ∈ (s.a x).associations := by
      rw [← List.count_pos_iff]
      have := h x List.mem_cons_self
      rw [List.count_cons_self] at this
      omega
    rw [List.forIn_cons, rm_stepY_ok hE l x s as hx]
    simp only [bind, Except.bind]
    rw [rmEraseAll_cons]
    apply ih
    intro a ha
    have h1 := h a (List.mem_cons_of_mem _ ha)
    by_cases hax : a = x
    · subst hax
      rw [List.count_cons_self] at h1
      have : ((rmErase l s a).a a).associations = (s.a a).associations.erase l := by
        unfold rmErase H.setA; simp
      rw [this, List.count_erase_self]
      omega
    · have : ((rmErase l s x).a a) = s.a a := by
        unfold rmErase H.setA; simp [hax]
      rw [this]
      rw [List.count_cons_of_ne (Ne.symm hax)] at h1
      exact h1

theorem rm_loopG {env : ModelEnv} (hE : EqId env) (l : LRef) : ∀ (xs : List ARef) (s : H) (as : List LRef),
    ∃ as', forIn xs (s, as) (rmStepG env l) = .ok (rmEraseAll l xs s, as') := by
  intro xs
  induction xs with
  | nil => intro s as; exact ⟨as, rfl⟩
  | cons x xs ih =>
    intro s as
    rw [List.forIn_cons, rmEraseAll_cons]
    unfold rmStepG
    dsimp only
    rw [pyIn_assoc hE]
    by_cases hx : l ∈ (s.a x).associations
    · rw [if_pos (List.contains_iff_mem.2 hx), rm_stepY_ok hE l x s as hx]
      simp only [bind, Except.bind]
      exact ih _ _
    · rw [if_neg (by rw [List.contains_iff_mem]; exact hx)]
      simp only [bind, Except.bind]
      have : rmErase l s x = s := by
        unfold rmErase
        rw [List.erase_of_not_mem hx]
        exact rm_setA_self s x
      rw [this]
      exact ih _ _

/-! ### `_type_to_association`: `d[k].remove(l)`; `if len(d[k]) == 0: del d[k]`  is  `MS.ttaDel` -/

theorem rm_beq_fun (k : String) :
    (fun e : String × List Nat => e.1 == k) = (fun e => decide (e.1 = k)) := by
  funext e; by_cases h : e.1 = k <;> simp [h]

theorem rm_any_key (d : List (String × List Nat)) (k : String) (hk : k ∈ d.map (·.1)) :
    d.any (fun e => e.1 == k) = true := by
  rw [rm_beq_fun]; exact (MS.any_key_iff d k).2 hk

theorem rm_dictGetE (d : List (String × List Nat)) (k : String) (hk : k ∈ d.map (·.1)) :
    dictGetE d k = .ok (MS.ttaGet d k) := by
  unfold dictGetE dictGet MS.ttaGet
  rw [rm_beq_fun]
  cases hf : d.find? (fun e => decide (e.1 = k)) with
  | none =>
    exfalso
    obtain ⟨e, he, hek⟩ := List.mem_map.1 hk
    have := List.find?_eq_none.1 hf e he
    simp at this
    exact this hek
  | some e => rfl

theorem rm_dictSet (d : List (String × List Nat)) (k : String) (v : List Nat) (hk : k ∈ d.map (·.1)) :
    dictSet d k v = d.map (fun e => if e.1 = k then (k, v) else e) := by
  unfold dictSet
  rw [if_pos (rm_any_key d k hk)]
  apply List.map_congr_left
  intro e _
  by_cases h : e.1 = k <;> simp [h]

theorem rm_dictDel (d : List (String × List Nat)) (k : String) (hk : k ∈ d.map (·.1)) :
    dictDel d k = .ok (d.filter (fun e => !(e.1 == k))) := by
  unfold dictDel
  rw [if_pos (rm_any_key d k hk)]

theorem rm_map_const (d : List (String × List Nat)) (k : String) (l : Nat) (hn : (d.map (·.1)).Nodup) :
    d.map (fun e => if e.1 = k then (k, (MS.ttaGet d k).erase l) else e) =
      d.map (fun e => if e.1 = k then (k, e.2.erase l) else e) := by
  apply List.map_congr_left
  intro e he
  by_cases h : e.1 = k
  · rw [if_pos h, if_pos h, ← h, MS.ttaGet_of_mem d hn e he]
  · rw [if_neg h, if_neg h]

/-- the three dictionary steps of `remove_association` on `_type_to_association` -/
theorem rm_tta (d : List (String × List Nat)) (k : String) (l : Nat) (hn : (d.map (·.1)).Nodup)
    (hk : k ∈ d.map (·.1)) :
    let d1 := dictSet d k ((MS.ttaGet d k).erase l)
    dictGetE d1 k = .ok ((MS.ttaGet d k).erase l) ∧
    (((MS.ttaGet d k).erase l).length = 0 → dictDel d1 k = .ok (MS.ttaDel d k l)) ∧
    (((MS.ttaGet d k).erase l).length ≠ 0 → d1 = MS.ttaDel d k l) := by
  intro d1
  have hd1 : d1 = d.map (fun e => if e.1 = k then (k, e.2.erase l) else e) := by
    show dictSet d k _ = _
    rw [rm_dictSet d k _ hk, rm_map_const d k l hn]
  have hk1 : k ∈ d1.map (·.1) := by
    rw [hd1, MS.map_upd_keys (fun v => v.erase l)]; exact hk
  have hmem : ∀ e ∈ d1, (e.1 = k → e.2 = (MS.ttaGet d k).erase l) := by
    intro e he hek
    rw [hd1] at he
    obtain ⟨e0, he0, rfl⟩ := List.mem_map.1 he
    by_cases h : e0.1 = k
    · rw [if_pos h, ← h, MS.ttaGet_of_mem d hn e0 he0]
    · rw [if_neg h] at hek; exact absurd hek h
  refine ⟨?_, ?_, ?_⟩
  · rw [rm_dictGetE d1 k hk1, hd1, MS.ttaGet_map_upd (fun v => v.erase l), if_pos rfl, if_pos hk]
  · intro hz
    rw [rm_dictDel d1 k hk1]
    unfold MS.ttaDel
    rw [← hd1]
    congr 1
    apply List.filter_congr
    intro e he
    by_cases hek : e.1 = k
    · have := hmem e he hek
      have he2 : e.2 = [] := by rw [this]; exact List.eq_nil_of_length_eq_zero hz
      simp [hek, he2]
    · simp [hek]
  · intro hz
    unfold MS.ttaDel
    rw [← hd1]
    symm
    apply List.filter_eq_self.2
    intro e he
    by_cases hek : e.1 = k
    · have := hmem e he hek
      have he2 : e.2 ≠ [] := by
        rw [this]; intro h0; apply hz; rw [h0]; rfl
      simp [hek, he2]
    · simp [hek]

theorem rm_tail {env : ModelEnv} (hE : EqId env) (l : LRef) (v : H) (hl : l ∈ v.associations)
    (hn : (v._type_to_association.map (·.1)).Nodup)
    (hg : l ∈ MS.ttaGet v._type_to_association (v.l l).cls) :
    rmTail env l v = .ok { v with associations := v.associations.erase l,
                                  _type_to_association := MS.ttaDel v._type_to_association (v.l l).cls l } := by
  have hk : (v.l l).cls ∈ v._type_to_association.map (·.1) := by
    apply Classical.byContradiction
    intro hnk
    rw [MS.ttaGet_eq_nil_of_not_key _ _ hnk] at hg
    exact absurd hg List.not_mem_nil
  obtain ⟨h1, h2, h3⟩ := rm_tta v._type_to_association (v.l l).cls l hn hk
  unfold rmTail
  rw [pyRemoveBy_assoc hE, if_pos (List.contains_iff_mem.2 hl), ok_bind, rm_dictGetE _ _ hk, ok_bind,
    pyRemoveBy_assoc hE, if_pos (List.contains_iff_mem.2 hg), ok_bind, h1, ok_bind]
  by_cases hz : ((MS.ttaGet v._type_to_association (v.l l).cls).erase l).length = 0
  · rw [if_pos (by rw [hz]; rfl), h2 hz, ok_bind]
  · rw [if_neg (by simpa using hz), h3 hz]

/-! ### projections of `rmEraseAll` -/

theorem rmEraseAll_l (l : LRef) (xs : List ARef) (s : H) : (rmEraseAll l xs s).l = s.l := by
  rw [rmEraseAll_frame]
theorem rmEraseAll_associations (l : LRef) (xs : List ARef) (s : H) :
    (rmEraseAll l xs s).associations = s.associations := by rw [rmEraseAll_frame]
theorem rmEraseAll_tta (l : LRef) (xs : List ARef) (s : H) :
    (rmEraseAll l xs s)._type_to_association = s._type_to_association := by rw [rmEraseAll_frame]
theorem rmEraseAll_tframe (l : LRef) (xs : List ARef) (s : H) : TFrame s (rmEraseAll l xs s) := by
  rw [rmEraseAll_frame]; exact ⟨rfl, rfl, rfl, rfl, rfl, rfl, rfl⟩

/-! ### (1) the tie theorem of `remove_association` -/

/-- the heap after a successful `remove_association` -/
def rmAssocH (s : H) (l : LRef) : H :=
  let s2 := rmEraseAll l (s.l l).right (rmEraseAll l (s.l l).left s)
  { s2 with associations := s.associations.erase l,
            _type_to_association := MS.ttaDel s._type_to_association (s.l l).cls l }

theorem rm_main_ok {env : ModelEnv} (hE : EqId env) (s : H) (hI : MS.Inv (abs s)) (l : LRef)
    (hl : l ∈ s.associations) : rmMain env l s = .ok (rmAssocH s l) := by
  have hcount : ∀ a ∈ (s.l l).left, (s.l l).left.count a ≤ (s.a a).associations.count l := by
    intro a ha
    have hlive : a ∈ (abs s).assets := hI.links.left_live l hl a ha
    have hm := hI.links.mirror a hlive l
    rw [if_pos (show l ∈ (abs s).associations from hl)] at hm
    show _ ≤ ((abs s).aobj a).assocs.count l
    rw [hm]; exact Nat.le_add_right _ _
  obtain ⟨as1, h1⟩ := rm_loopL hE l (s.l l).left s [] hcount
  obtain ⟨as2, h2⟩ := rm_loopG hE l (s.l l).right (rmEraseAll l (s.l l).left s) as1
  have hg : l ∈ MS.ttaGet s._type_to_association (s.l l).cls := (hI.tta.iff (s.l l).cls l).2 ⟨hl, rfl⟩
  have hn : (s._type_to_association.map (·.1)).Nodup := hI.tta.keys
  unfold rmMain
  rw [rm_field_names]
  dsimp only
  rw [rm_getattr_lf, ok_bind, rm_getattr_rf, ok_bind, rm_rd_left, h1, ok_bind]
  dsimp only
  rw [rm_rd_right, rmEraseAll_l, h2, ok_bind]
  dsimp only
  rw [rm_tail hE l _ (by rw [rmEraseAll_associations, rmEraseAll_associations]; exact hl)
    (by rw [rmEraseAll_tta, rmEraseAll_tta]; exact hn)
    (by rw [rmEraseAll_tta, rmEraseAll_tta, rmEraseAll_l, rmEraseAll_l]; exact hg)]
  unfold rmAssocH
  dsimp only
  rw [rmEraseAll_associations, rmEraseAll_associations, rmEraseAll_tta, rmEraseAll_tta, rmEraseAll_l, rmEraseAll_l]

theorem rm_ms_eq (S : MS.St) (l : Nat) (hl : l ∈ S.associations) (S2 : MS.St)
    (h2 : S2 = (S.lobj l).right.foldl (fun s a => MS.updA s a (fun x => { x with assocs := x.assocs.erase l }))
      ((S.lobj l).left.foldl (fun s a => MS.updA s a (fun x => { x with assocs := x.assocs.erase l })) S)) :
    MS.removeAssociation S l =
      .ok { S2 with associations := S2.associations.erase l,
                    typeToAssoc := MS.ttaDel S2.typeToAssoc (S.lobj l).cls l } := by
  subst h2
  unfold MS.removeAssociation
  rw [if_neg (by simp [hl])]

theorem rm_abs_assocH (s : H) (l : LRef) (hl : l ∈ s.associations) :
    MS.removeAssociation (abs s) l = .ok (abs (rmAssocH s l)) := by
  have e1 := rm_abs_eraseAll l (s.l l).left s
  have e2 := rm_abs_eraseAll l (s.l l).right (rmEraseAll l (s.l l).left s)
  rw [e1] at e2
  rw [rm_ms_eq (abs s) l hl _ e2]
  have ea : (abs (rmEraseAll l (s.l l).right (rmEraseAll l (s.l l).left s))).associations = s.associations := by
    show (rmEraseAll l (s.l l).right (rmEraseAll l (s.l l).left s)).associations = _
    rw [rmEraseAll_associations, rmEraseAll_associations]
  have et : (abs (rmEraseAll l (s.l l).right (rmEraseAll l (s.l l).left s))).typeToAssoc = s._type_to_association := by
    show (rmEraseAll l (s.l l).right (rmEraseAll l (s.l l).left s))._type_to_association = _
    rw [rmEraseAll_tta, rmEraseAll_tta]
  rw [ea, et]
  rfl

theorem remove_association_tie {env : ModelEnv} (hE : EqId env) (s : H) (hI : MS.Inv (abs s)) (l : LRef) :
    absR (model_remove_association s env l) = MS.removeAssociation (abs s) l := by
  rw [rm_eq, pyIn_assoc hE]
  by_cases hl : l ∈ s.associations
  · rw [if_neg (by simp [hl]), rm_main_ok hE s hI l hl, rm_abs_assocH s l hl]
    rfl
  · rw [if_pos (by simp [hl])]
    unfold MS.removeAssociation
    have hl' : ¬ l ∈ (abs s).associations := hl
    rw [if_pos (by simp [hl'])]
    rfl

/-! ### (2) `remove_association` does not touch attackers, tuples, counters -/

def rmVal {σ : Type} : ForInStep σ → σ
  | .yield b => b
  | .done b => b

/-- a relation kept by every successful step of a `for` loop holds between start and result -/
theorem rm_forIn_rel {α σ : Type} (R : σ → σ → Prop) (hr : ∀ x, R x x) (ht : ∀ x y z, R x y → R y z → R x z)
    (f : α → σ → Except PyErr (ForInStep σ)) (hf : ∀ a p q, f a p = .ok q → R p (rmVal q)) :
    ∀ (xs : List α) (init r : σ), forIn xs init f = .ok r → R init r := by
  intro xs
  induction xs with
  | nil =>
    intro init r h
    have : init = r := by injection h
    subst this; exact hr _
  | cons x xs ih =>
    intro init r h
    rw [List.forIn_cons] at h
    cases hfx : f x init with
    | error e => rw [hfx] at h; cases h
    | ok q =>
      rw [hfx] at h
      have h0 := hf x init q hfx
      cases q with
      | done b =>
        have : b = r := by injection h
        subst this; exact h0
      | yield b => exact ht _ _ _ h0 (ih b r h)

theorem rm_stepY_tframe (env : ModelEnv) (l : LRef) (a : ARef) (p : H × List LRef) (q : ForInStep (H × List LRef))
    (h : rmStepY env l a p = .ok q) : TFrame p.1 (rmVal q).1 := by
  unfold rmStepY at h
  obtain ⟨v, _, hv⟩ := bind_ok h
  injection hv with hv
  subst hv
  exact TFrame.setA _ _ _

theorem rm_stepG_tframe (env : ModelEnv) (l : LRef) (a : ARef) (p : H × List LRef) (q : ForInStep (H × List LRef))
    (h : rmStepG env l a p = .ok q) : TFrame p.1 (rmVal q).1 := by
  unfold rmStepG at h
  split at h
  · exact rm_stepY_tframe env l a p q h
  · injection h with h
    subst h
    exact TFrame.refl _

theorem rm_tail_tframe (env : ModelEnv) (l : LRef) (v s' : H) (h : rmTail env l v = .ok s') : TFrame v s' := by
  unfold rmTail at h
  obtain ⟨v2, _, h⟩ := bind_ok h
  obtain ⟨v3, _, h⟩ := bind_ok h
  obtain ⟨v4, _, h⟩ := bind_ok h
  obtain ⟨v5, _, h⟩ := bind_ok h
  split at h
  · obtain ⟨v6, _, h⟩ := bind_ok h
    injection h with h
    subst h
    exact ⟨rfl, rfl, rfl, rfl, rfl, rfl, rfl⟩
  · injection h with h
    subst h
    exact ⟨rfl, rfl, rfl, rfl, rfl, rfl, rfl⟩

theorem remove_association_tframe {env : ModelEnv} (s s' : H) (l : LRef)
    (h : model_remove_association s env l = .ok s') : TFrame s s' := by
  rw [rm_eq] at h
  split at h
  · cases h
  unfold rmMain at h
  obtain ⟨lf, _, h⟩ := bind_ok h
  obtain ⟨rf, _, h⟩ := bind_ok h
  obtain ⟨p, hp, h⟩ := bind_ok h
  obtain ⟨q, hq, h⟩ := bind_ok h
  have hR : ∀ x y z : H × List LRef, TFrame x.1 y.1 → TFrame y.1 z.1 → TFrame x.1 z.1 :=
    fun _ _ _ h1 h2 => h1.trans h2
  have f1 := rm_forIn_rel (fun x y : H × List LRef => TFrame x.1 y.1) (fun _ => TFrame.refl _) hR
    (rmStepY env l) (rm_stepY_tframe env l) _ _ _ hp
  have f2 := rm_forIn_rel (fun x y : H × List LRef => TFrame x.1 y.1) (fun _ => TFrame.refl _) hR
    (rmStepG env l) (rm_stepG_tframe env l) _ _ _ hq
  exact (f1.trans f2).trans (rm_tail_tframe env l _ _ h)

/-! ### the pieces of the generated `model_remove_asset_from_association` -/

def rafaStep1 (env : ModelEnv) (a : ARef) (l : LRef) (field : FieldLoc) (p : Option H × H) :
    Except PyErr (ForInStep (Option H × H)) :=
  if (pyIn (eqAsset env p.2) (p.2.rd field) a && (((p.2.rd field).length : Int) == (1 : Int))) = true then
    (model_remove_association p.2 env l).bind fun s' => .ok (ForInStep.done (some s', s'))
  else .ok (ForInStep.yield (none, p.2))

def rafaStep2 (env : ModelEnv) (a : ARef) (field : FieldLoc) (p : H × Bool) : Except PyErr (ForInStep (H × Bool)) :=
  if pyIn (eqAsset env p.1) (p.1.rd field) a = true then
    (pyRemoveBy (eqAsset env p.1) (p.1.rd field) a).bind fun l_2 =>
      .ok (ForInStep.yield (p.1.wr field l_2, true))
  else .ok (ForInStep.yield (p.1, p.2))

def rafaFinish (env : ModelEnv) (a : ARef) (l : LRef) (lf rf : FieldLoc) (s : H) (found : Bool) : Except PyErr H :=
  if (found && !pyIn (eqAsset env s) (s.rd lf) a && !pyIn (eqAsset env s) (s.rd rf) a) = true then
    (if (!found) = true then .error .lookupError else
      .ok (s.setA a { s.a a with associations := pyRemoveAllBy (eqAssoc env s) (s.a a).associations l }))
  else (if (!found) = true then .error .lookupError else .ok s)

def rafaRest (env : ModelEnv) (a : ARef) (l : LRef) (lf rf : FieldLoc) (p : Option H × H) : Except PyErr H :=
  Break.runK.match_1 (fun _ => Except PyErr H) p.1 (fun r => .ok r) fun _ =>
    (forIn [lf, rf] (p.2, false) (rafaStep2 env a)).bind fun q => rafaFinish env a l lf rf q.1 q.2

theorem rafaRest_some (env : ModelEnv) (a : ARef) (l : LRef) (lf rf : FieldLoc) (r s : H) :
    rafaRest env a l lf rf (some r, s) = .ok r := rfl
theorem rafaRest_none (env : ModelEnv) (a : ARef) (l : LRef) (lf rf : FieldLoc) (s : H) :
    rafaRest env a l lf rf (none, s) =
      (forIn [lf, rf] (s, false) (rafaStep2 env a)).bind fun q => rafaFinish env a l lf rf q.1 q.2 := rfl

def rafaMain (env : ModelEnv) (a : ARef) (l : LRef) (s : H) : Except PyErr H :=
  (pyGetattr s l (model_get_association_field_names s env l).1).bind fun lf =>
  (pyGetattr s l (model_get_association_field_names s env l).2).bind fun rf =>
  (forIn [lf, rf] ((none : Option H), s) (rafaStep1 env a l)).bind (rafaRest env a l lf rf)

theorem rafa_eq (s : H) (env : ModelEnv) (a : ARef) (l : LRef) :
    model_remove_asset_from_association s env a l =
      if (!pyIn (eqAsset env s) s.assets a) = true then .error .lookupError else
      if (!pyIn (eqAssoc env s) s.associations l) = true then .error .lookupError else rafaMain env a l s := by
  unfold model_remove_asset_from_association
  rfl

/-! ### the first loop (early return through `remove_association`) -/

theorem rafa_loop1 (env : ModelEnv) (a : ARef) (l : LRef) (lf rf : FieldLoc) (s : H)
    (K : Option H × H → Except PyErr H) :
    (forIn [lf, rf] ((none : Option H), s) (rafaStep1 env a l)).bind K =
      if ((pyIn (eqAsset env s) (s.rd lf) a && (((s.rd lf).length : Int) == (1 : Int))) ||
          (pyIn (eqAsset env s) (s.rd rf) a && (((s.rd rf).length : Int) == (1 : Int)))) = true then
        (model_remove_association s env l).bind fun s' => K (some s', s')
      else K (none, s) := by
  rw [List.forIn_cons]
  unfold rafaStep1
  dsimp only
  by_cases c1 : (pyIn (eqAsset env s) (s.rd lf) a && (((s.rd lf).length : Int) == (1 : Int))) = true
  · rw [if_pos c1, if_pos (by rw [c1]; rfl)]
    cases model_remove_association s env l <;> rfl
  · rw [if_neg c1]
    have c1' := Bool.eq_false_iff.2 c1
    rw [c1', Bool.false_or]
    simp only [bind, Except.bind]
    rw [List.forIn_cons]
    dsimp only
    by_cases c2 : (pyIn (eqAsset env s) (s.rd rf) a && (((s.rd rf).length : Int) == (1 : Int))) = true
    · rw [if_pos c2, if_pos c2]
      cases model_remove_association s env l <;> rfl
    · rw [if_neg c2, if_neg c2]
      rfl

theorem rm_len_one (n : Nat) : ((n : Int) == (1 : Int)) = (n == 1) := by
  rw [Bool.eq_iff_iff]
  simp only [beq_iff_eq]
  omega

/-! ### the second loop: `field.remove(asset)` for both fields -/

theorem rm_setL_self (s : H) (l : LRef) : s.setL l (s.l l) = s := by
  cases s with
  | mk a' afresh l' lfresh t tfresh e efresh name assets associations tta attackers ids names next =>
    unfold H.setL
    simp only [H.mk.injEq, and_true, true_and]
    funext x
    by_cases hx : x = l
    · subst hx; simp
    · simp [hx]

theorem rm_setL_setL (s : H) (l : LRef) (o o' : PyAssoc) : (s.setL l o).setL l o' = s.setL l o' := by
  unfold H.setL
  simp only [H.mk.injEq, and_true, true_and]
  funext x
  by_cases hx : x = l <;> simp [hx]

theorem rm_setL_get (s : H) (l : LRef) (o : PyAssoc) : (s.setL l o).l l = o := by
  unfold H.setL; simp

/-- the heap after the two `field.remove(asset)` -/
def rafaH (s : H) (a : ARef) (l : LRef) : H :=
  s.setL l { s.l l with left := (s.l l).left.erase a, right := (s.l l).right.erase a }

theorem rafaH_rd_left (s : H) (a : ARef) (l : LRef) : (rafaH s a l).rd (l, false) = (s.l l).left.erase a := by
  rw [rm_rd_left]; unfold rafaH; rw [rm_setL_get]
theorem rafaH_rd_right (s : H) (a : ARef) (l : LRef) : (rafaH s a l).rd (l, true) = (s.l l).right.erase a := by
  rw [rm_rd_right]; unfold rafaH; rw [rm_setL_get]

theorem rafa_loop2 {env : ModelEnv} (hE : EqId env) (a : ARef) (l : LRef) (s : H) :
    forIn [((l, false) : FieldLoc), (l, true)] (s, false) (rafaStep2 env a) =
      .ok (rafaH s a l, (s.l l).left.contains a || (s.l l).right.contains a) := by
  rw [List.forIn_cons]
  unfold rafaStep2
  dsimp only
  rw [pyIn_asset hE, rm_rd_left]
  by_cases hL : (s.l l).left.contains a = true
  · rw [if_pos hL, pyRemoveBy_asset hE, if_pos hL, ok_bind]
    simp only [bind, Except.bind]
    rw [List.forIn_cons]
    dsimp only
    rw [pyIn_asset hE, rm_rd_right, rm_wr_left, rm_setL_get]
    dsimp only
    by_cases hR : (s.l l).right.contains a = true
    · rw [if_pos hR, pyRemoveBy_asset hE, if_pos hR]
      simp only [bind, Except.bind]
      rw [rm_wr_right, rm_setL_get, rm_setL_setL, hL]
      rfl
    · rw [if_neg hR]
      simp only [bind, Except.bind]
      have hR' : a ∉ (s.l l).right := fun h => hR (List.contains_iff_mem.2 h)
      unfold rafaH
      rw [List.erase_of_not_mem hR', hL]
      rfl
  · rw [if_neg hL]
    simp only [bind, Except.bind]
    rw [List.forIn_cons]
    dsimp only
    have hL' : a ∉ (s.l l).left := fun h => hL (List.contains_iff_mem.2 h)
    rw [pyIn_asset hE, rm_rd_right]
    have hLf := Bool.eq_false_iff.2 hL
    by_cases hR : (s.l l).right.contains a = true
    · rw [if_pos hR, pyRemoveBy_asset hE, if_pos hR]
      simp only [bind, Except.bind]
      rw [rm_wr_right]
      unfold rafaH
      rw [List.erase_of_not_mem hL', hLf, hR]
      rfl
    · rw [if_neg hR]
      simp only [bind, Except.bind]
      have hR' : a ∉ (s.l l).right := fun h => hR (List.contains_iff_mem.2 h)
      have hRf := Bool.eq_false_iff.2 hR
      unfold rafaH
      rw [List.erase_of_not_mem hL', List.erase_of_not_mem hR', hLf, hRf]
      have : s.setL l { s.l l with left := (s.l l).left, right := (s.l l).right } = s := rm_setL_self s l
      rw [this]
      rfl

theorem rafaH_abs (s : H) (a : ARef) (l : LRef) :
    abs (rafaH s a l) =
      MS.updL (abs s) l (fun o => { o with left := o.left.erase a, right := o.right.erase a }) :=
  abs_setL_updL s l _ _ rfl

/-! ### (3) the tie theorem of `remove_asset_from_association` -/

theorem rm_bind_ok_self {ε α : Type} (x : Except ε α) : x.bind (fun v => Except.ok v) = x := by
  cases x <;> rfl

theorem rafa_tie {env : ModelEnv} (hE : EqId env) (s : H) (hI : MS.Inv (abs s)) (a : ARef) (l : LRef) :
    absR (model_remove_asset_from_association s env a l) = MS.removeAssetFromAssociation (abs s) a l := by
  rw [rafa_eq, pyIn_asset hE, pyIn_assoc hE]
  unfold MS.removeAssetFromAssociation
  have eA : (abs s).assets = s.assets := rfl
  have eL : (abs s).associations = s.associations := rfl
  have eLeft : ((abs s).lobj l).left = (s.l l).left := rfl
  have eRight : ((abs s).lobj l).right = (s.l l).right := rfl
  dsimp only
  rw [eA, eL, eLeft, eRight]
  cases ha : s.assets.contains a with
  | false => rfl
  | true =>
  cases hl : s.associations.contains l with
  | false => rfl
  | true =>
  simp only [Bool.not_true, Bool.false_eq_true, if_false]
  unfold rafaMain
  rw [rm_field_names]
  dsimp only
  rw [rm_getattr_lf, ok_bind, rm_getattr_rf, ok_bind, rafa_loop1, pyIn_asset hE, pyIn_asset hE, rm_rd_left,
    rm_rd_right, rm_len_one, rm_len_one]
  by_cases c : (((s.l l).left.contains a && (s.l l).left.length == 1) ||
      ((s.l l).right.contains a && (s.l l).right.length == 1)) = true
  · rw [if_pos c, if_pos c]
    have : (fun s' => rafaRest env a l (l, false) (l, true) (some s', s')) = fun s' => Except.ok s' := rfl
    rw [this, rm_bind_ok_self]
    exact remove_association_tie hE s hI l
  · rw [if_neg c, if_neg c, rafaRest_none, rafa_loop2 hE, ok_bind]
    dsimp only
    unfold rafaFinish
    rw [rafaH_rd_left, rafaH_rd_right, pyIn_asset hE, pyIn_asset hE]
    rw [← rafaH_abs]
    have eL1 : ((abs (rafaH s a l)).lobj l).left = (s.l l).left.erase a := by
      show ((rafaH s a l).l l).left = _
      unfold rafaH; rw [rm_setL_get]
    have eR1 : ((abs (rafaH s a l)).lobj l).right = (s.l l).right.erase a := by
      show ((rafaH s a l).l l).right = _
      unfold rafaH; rw [rm_setL_get]
    rw [eL1, eR1]
    cases hf : ((s.l l).left.contains a || (s.l l).right.contains a) with
    | false => rfl
    | true =>
      simp only [Bool.true_and, Bool.not_true, Bool.false_eq_true, if_false]
      cases hc : (!((s.l l).left.erase a).contains a && !((s.l l).right.erase a).contains a) with
      | false => rfl
      | true =>
        simp only [if_true]
        rw [absR_ok, pyRemoveAllBy_assoc hE]
        congr 1
        exact abs_setA_updA _ _ _ _ rfl

/-! ### (4) `remove_asset_from_association` does not touch attackers, tuples, counters -/

theorem rafa_step2_tframe (env : ModelEnv) (a : ARef) (field : FieldLoc) (p : H × Bool) (q : ForInStep (H × Bool))
    (h : rafaStep2 env a field p = .ok q) : TFrame p.1 (rmVal q).1 := by
  unfold rafaStep2 at h
  split at h
  · obtain ⟨v, _, hv⟩ := bind_ok h
    injection hv with hv
    subst hv
    exact TFrame.wr _ _ _
  · injection h with h
    subst h
    exact TFrame.refl _

theorem rafa_finish_tframe (env : ModelEnv) (a : ARef) (l : LRef) (lf rf : FieldLoc) (s s' : H) (found : Bool)
    (h : rafaFinish env a l lf rf s found = .ok s') : TFrame s s' := by
  unfold rafaFinish at h
  split at h
  · split at h
    · cases h
    · injection h with h
      subst h
      exact TFrame.setA _ _ _
  · split at h
    · cases h
    · injection h with h
      subst h
      exact TFrame.refl _

theorem rafa_tframe {env : ModelEnv} (s s' : H) (a : ARef) (l : LRef)
    (h : model_remove_asset_from_association s env a l = .ok s') : TFrame s s' := by
  rw [rafa_eq] at h
  split at h
  · cases h
  split at h
  · cases h
  unfold rafaMain at h
  obtain ⟨lf, _, h⟩ := bind_ok h
  obtain ⟨rf, _, h⟩ := bind_ok h
  rw [rafa_loop1] at h
  split at h
  · obtain ⟨s1, h1, h⟩ := bind_ok h
    rw [rafaRest_some] at h
    injection h with h
    subst h
    exact remove_association_tframe _ _ _ h1
  · rw [rafaRest_none] at h
    obtain ⟨q, hq, h⟩ := bind_ok h
    have hR : ∀ x y z : H × Bool, TFrame x.1 y.1 → TFrame y.1 z.1 → TFrame x.1 z.1 :=
      fun _ _ _ h1 h2 => h1.trans h2
    have f1 := rm_forIn_rel (fun x y : H × Bool => TFrame x.1 y.1) (fun _ => TFrame.refl _) hR
      (rafaStep2 env a) (rafa_step2_tframe env a) _ _ _ hq
    exact f1.trans (rafa_finish_tframe env a l lf rf _ _ _ h)
end MalVerif.PyM.Tie
