import MalVerif.Py.AbsVisitor
/-!
# Base lemmas for the tie of the translated visitor (`Py/GenVisitor`) to the compiler model

* `selfAt`: the visitor object whose `visit` is `visitF … g`;
* `acc_<rule>_<method>`: the entries of the generated accessor table (each proved by evaluation, so a change of the
  generated parser's context classes breaks them), `ctxAcc_eq`;
* `visitF_<rule>`: `visitF … (g+1)` on a context of that rule is the `visit<Rule>` method (dynamic dispatch);
* `PT.depth`, fuel facts; `forIn` in `Except` as `foldlM`;
* the semantic content of `_resolve_part_ID_type`: `reachStop`, `scanStep`, `stepAt`, `ResolveSpec`.
-/
namespace MalVerif.Py.Visitor
open MalVerif.Mal MalVerif.Py.GenVisitor

/-- the visitor object during a visit with recursion budget `g` -/
abbrev selfAt (c : V → M V) (toks : List V) (wf g : Nat) : Self :=
  { visit := visitF c toks wf g, compile := c, tokens := toks, whileFuel := wf }

theorem ctxAcc_eq {r m : String} {acc : Acc} (h : accTable.lookup (r, m) = some acc) (cs : List PT) (up : List PT) :
    ctxAcc accTable (.ctx (.rule r cs) up) m Option.none = runAcc (.rule r cs) up acc Option.none := by
  simp only [ctxAcc, h]

/-! ### the generated accessor table, entry by entry -/
theorem acc_mal_declaration : accTable.lookup ("mal", "declaration") = some (Acc.rules "declaration") := by decide
theorem acc_mal_EOF : accTable.lookup ("mal", "EOF") = some (Acc.tok1 "EOF") := by decide
theorem acc_declaration_include : accTable.lookup ("declaration", "include") = some (Acc.rule1 "include") := by decide
theorem acc_declaration_define : accTable.lookup ("declaration", "define") = some (Acc.rule1 "define") := by decide
theorem acc_declaration_category : accTable.lookup ("declaration", "category") = some (Acc.rule1 "category") := by decide
theorem acc_declaration_associations : accTable.lookup ("declaration", "associations") = some (Acc.rule1 "associations") := by decide
theorem acc_include_INCLUDE : accTable.lookup ("include", "INCLUDE") = some (Acc.tok1 "INCLUDE") := by decide
theorem acc_include_STRING : accTable.lookup ("include", "STRING") = some (Acc.tok1 "STRING") := by decide
theorem acc_define_HASH : accTable.lookup ("define", "HASH") = some (Acc.tok1 "HASH") := by decide
theorem acc_define_ID : accTable.lookup ("define", "ID") = some (Acc.tok1 "ID") := by decide
theorem acc_define_COLON : accTable.lookup ("define", "COLON") = some (Acc.tok1 "COLON") := by decide
theorem acc_define_STRING : accTable.lookup ("define", "STRING") = some (Acc.tok1 "STRING") := by decide
theorem acc_category_CATEGORY : accTable.lookup ("category", "CATEGORY") = some (Acc.tok1 "CATEGORY") := by decide
theorem acc_category_ID : accTable.lookup ("category", "ID") = some (Acc.tok1 "ID") := by decide
theorem acc_category_LCURLY : accTable.lookup ("category", "LCURLY") = some (Acc.tok1 "LCURLY") := by decide
theorem acc_category_RCURLY : accTable.lookup ("category", "RCURLY") = some (Acc.tok1 "RCURLY") := by decide
theorem acc_category_meta : accTable.lookup ("category", "meta") = some (Acc.rules "meta") := by decide
theorem acc_category_asset : accTable.lookup ("category", "asset") = some (Acc.rules "asset") := by decide
theorem acc_meta_ID : accTable.lookup ("meta", "ID") = some (Acc.tok1 "ID") := by decide
theorem acc_meta_INFO : accTable.lookup ("meta", "INFO") = some (Acc.tok1 "INFO") := by decide
theorem acc_meta_COLON : accTable.lookup ("meta", "COLON") = some (Acc.tok1 "COLON") := by decide
theorem acc_meta_STRING : accTable.lookup ("meta", "STRING") = some (Acc.tok1 "STRING") := by decide
theorem acc_asset_ASSET : accTable.lookup ("asset", "ASSET") = some (Acc.tok1 "ASSET") := by decide
theorem acc_asset_ID : accTable.lookup ("asset", "ID") = some (Acc.toks "ID") := by decide
theorem acc_asset_LCURLY : accTable.lookup ("asset", "LCURLY") = some (Acc.tok1 "LCURLY") := by decide
theorem acc_asset_RCURLY : accTable.lookup ("asset", "RCURLY") = some (Acc.tok1 "RCURLY") := by decide
theorem acc_asset_ABSTRACT : accTable.lookup ("asset", "ABSTRACT") = some (Acc.tok1 "ABSTRACT") := by decide
theorem acc_asset_EXTENDS : accTable.lookup ("asset", "EXTENDS") = some (Acc.tok1 "EXTENDS") := by decide
theorem acc_asset_meta : accTable.lookup ("asset", "meta") = some (Acc.rules "meta") := by decide
theorem acc_asset_step : accTable.lookup ("asset", "step") = some (Acc.rules "step") := by decide
theorem acc_asset_variable : accTable.lookup ("asset", "variable") = some (Acc.rules "variable") := by decide
theorem acc_step_steptype : accTable.lookup ("step", "steptype") = some (Acc.rule1 "steptype") := by decide
theorem acc_step_ID : accTable.lookup ("step", "ID") = some (Acc.tok1 "ID") := by decide
theorem acc_step_tag : accTable.lookup ("step", "tag") = some (Acc.rules "tag") := by decide
theorem acc_step_cias : accTable.lookup ("step", "cias") = some (Acc.rule1 "cias") := by decide
theorem acc_step_ttc : accTable.lookup ("step", "ttc") = some (Acc.rule1 "ttc") := by decide
theorem acc_step_meta : accTable.lookup ("step", "meta") = some (Acc.rules "meta") := by decide
theorem acc_step_precondition : accTable.lookup ("step", "precondition") = some (Acc.rule1 "precondition") := by decide
theorem acc_step_reaches : accTable.lookup ("step", "reaches") = some (Acc.rule1 "reaches") := by decide
theorem acc_steptype_AND : accTable.lookup ("steptype", "AND") = some (Acc.tok1 "AND") := by decide
theorem acc_steptype_OR : accTable.lookup ("steptype", "OR") = some (Acc.tok1 "OR") := by decide
theorem acc_steptype_HASH : accTable.lookup ("steptype", "HASH") = some (Acc.tok1 "HASH") := by decide
theorem acc_steptype_EXISTS : accTable.lookup ("steptype", "EXISTS") = some (Acc.tok1 "EXISTS") := by decide
theorem acc_steptype_NOTEXISTS : accTable.lookup ("steptype", "NOTEXISTS") = some (Acc.tok1 "NOTEXISTS") := by decide
theorem acc_tag_AT : accTable.lookup ("tag", "AT") = some (Acc.tok1 "AT") := by decide
theorem acc_tag_ID : accTable.lookup ("tag", "ID") = some (Acc.tok1 "ID") := by decide
theorem acc_cias_LCURLY : accTable.lookup ("cias", "LCURLY") = some (Acc.tok1 "LCURLY") := by decide
theorem acc_cias_cia : accTable.lookup ("cias", "cia") = some (Acc.rules "cia") := by decide
theorem acc_cias_RCURLY : accTable.lookup ("cias", "RCURLY") = some (Acc.tok1 "RCURLY") := by decide
theorem acc_cias_COMMA : accTable.lookup ("cias", "COMMA") = some (Acc.toks "COMMA") := by decide
theorem acc_cia_C : accTable.lookup ("cia", "C") = some (Acc.tok1 "C") := by decide
theorem acc_cia_I : accTable.lookup ("cia", "I") = some (Acc.tok1 "I") := by decide
theorem acc_cia_A : accTable.lookup ("cia", "A") = some (Acc.tok1 "A") := by decide
theorem acc_ttc_LSQUARE : accTable.lookup ("ttc", "LSQUARE") = some (Acc.tok1 "LSQUARE") := by decide
theorem acc_ttc_ttcexpr : accTable.lookup ("ttc", "ttcexpr") = some (Acc.rule1 "ttcexpr") := by decide
theorem acc_ttc_RSQUARE : accTable.lookup ("ttc", "RSQUARE") = some (Acc.tok1 "RSQUARE") := by decide
theorem acc_ttcexpr_ttcterm : accTable.lookup ("ttcexpr", "ttcterm") = some (Acc.rules "ttcterm") := by decide
theorem acc_ttcexpr_PLUS : accTable.lookup ("ttcexpr", "PLUS") = some (Acc.toks "PLUS") := by decide
theorem acc_ttcexpr_MINUS : accTable.lookup ("ttcexpr", "MINUS") = some (Acc.toks "MINUS") := by decide
theorem acc_ttcterm_ttcfact : accTable.lookup ("ttcterm", "ttcfact") = some (Acc.rules "ttcfact") := by decide
theorem acc_ttcterm_STAR : accTable.lookup ("ttcterm", "STAR") = some (Acc.toks "STAR") := by decide
theorem acc_ttcterm_DIVIDE : accTable.lookup ("ttcterm", "DIVIDE") = some (Acc.toks "DIVIDE") := by decide
theorem acc_ttcfact_ttcatom : accTable.lookup ("ttcfact", "ttcatom") = some (Acc.rules "ttcatom") := by decide
theorem acc_ttcfact_POWER : accTable.lookup ("ttcfact", "POWER") = some (Acc.tok1 "POWER") := by decide
theorem acc_ttcatom_ttcdist : accTable.lookup ("ttcatom", "ttcdist") = some (Acc.rule1 "ttcdist") := by decide
theorem acc_ttcatom_LPAREN : accTable.lookup ("ttcatom", "LPAREN") = some (Acc.tok1 "LPAREN") := by decide
theorem acc_ttcatom_ttcexpr : accTable.lookup ("ttcatom", "ttcexpr") = some (Acc.rule1 "ttcexpr") := by decide
theorem acc_ttcatom_RPAREN : accTable.lookup ("ttcatom", "RPAREN") = some (Acc.tok1 "RPAREN") := by decide
theorem acc_ttcatom_number : accTable.lookup ("ttcatom", "number") = some (Acc.rule1 "number") := by decide
theorem acc_ttcdist_ID : accTable.lookup ("ttcdist", "ID") = some (Acc.tok1 "ID") := by decide
theorem acc_ttcdist_LPAREN : accTable.lookup ("ttcdist", "LPAREN") = some (Acc.tok1 "LPAREN") := by decide
theorem acc_ttcdist_RPAREN : accTable.lookup ("ttcdist", "RPAREN") = some (Acc.tok1 "RPAREN") := by decide
theorem acc_ttcdist_number : accTable.lookup ("ttcdist", "number") = some (Acc.rules "number") := by decide
theorem acc_ttcdist_COMMA : accTable.lookup ("ttcdist", "COMMA") = some (Acc.toks "COMMA") := by decide
theorem acc_precondition_REQUIRES : accTable.lookup ("precondition", "REQUIRES") = some (Acc.tok1 "REQUIRES") := by decide
theorem acc_precondition_expr : accTable.lookup ("precondition", "expr") = some (Acc.rules "expr") := by decide
theorem acc_precondition_COMMA : accTable.lookup ("precondition", "COMMA") = some (Acc.toks "COMMA") := by decide
theorem acc_reaches_expr : accTable.lookup ("reaches", "expr") = some (Acc.rules "expr") := by decide
theorem acc_reaches_INHERITS : accTable.lookup ("reaches", "INHERITS") = some (Acc.tok1 "INHERITS") := by decide
theorem acc_reaches_LEADSTO : accTable.lookup ("reaches", "LEADSTO") = some (Acc.tok1 "LEADSTO") := by decide
theorem acc_reaches_COMMA : accTable.lookup ("reaches", "COMMA") = some (Acc.toks "COMMA") := by decide
theorem acc_number_INT : accTable.lookup ("number", "INT") = some (Acc.tok1 "INT") := by decide
theorem acc_number_FLOAT : accTable.lookup ("number", "FLOAT") = some (Acc.tok1 "FLOAT") := by decide
theorem acc_variable_LET : accTable.lookup ("variable", "LET") = some (Acc.tok1 "LET") := by decide
theorem acc_variable_ID : accTable.lookup ("variable", "ID") = some (Acc.tok1 "ID") := by decide
theorem acc_variable_ASSIGN : accTable.lookup ("variable", "ASSIGN") = some (Acc.tok1 "ASSIGN") := by decide
theorem acc_variable_expr : accTable.lookup ("variable", "expr") = some (Acc.rule1 "expr") := by decide
theorem acc_expr_parts : accTable.lookup ("expr", "parts") = some (Acc.rules "parts") := by decide
theorem acc_expr_setop : accTable.lookup ("expr", "setop") = some (Acc.rules "setop") := by decide
theorem acc_parts_part : accTable.lookup ("parts", "part") = some (Acc.rules "part") := by decide
theorem acc_parts_DOT : accTable.lookup ("parts", "DOT") = some (Acc.toks "DOT") := by decide
theorem acc_part_LPAREN : accTable.lookup ("part", "LPAREN") = some (Acc.tok1 "LPAREN") := by decide
theorem acc_part_expr : accTable.lookup ("part", "expr") = some (Acc.rule1 "expr") := by decide
theorem acc_part_RPAREN : accTable.lookup ("part", "RPAREN") = some (Acc.tok1 "RPAREN") := by decide
theorem acc_part_varsubst : accTable.lookup ("part", "varsubst") = some (Acc.rule1 "varsubst") := by decide
theorem acc_part_ID : accTable.lookup ("part", "ID") = some (Acc.tok1 "ID") := by decide
theorem acc_part_STAR : accTable.lookup ("part", "STAR") = some (Acc.tok1 "STAR") := by decide
theorem acc_part_type_ : accTable.lookup ("part", "type_") = some (Acc.rules "type") := by decide
theorem acc_varsubst_ID : accTable.lookup ("varsubst", "ID") = some (Acc.tok1 "ID") := by decide
theorem acc_type_LSQUARE : accTable.lookup ("type", "LSQUARE") = some (Acc.tok1 "LSQUARE") := by decide
theorem acc_type_ID : accTable.lookup ("type", "ID") = some (Acc.tok1 "ID") := by decide
theorem acc_type_RSQUARE : accTable.lookup ("type", "RSQUARE") = some (Acc.tok1 "RSQUARE") := by decide
theorem acc_setop_UNION : accTable.lookup ("setop", "UNION") = some (Acc.tok1 "UNION") := by decide
theorem acc_setop_INTERSECT : accTable.lookup ("setop", "INTERSECT") = some (Acc.tok1 "INTERSECT") := by decide
theorem acc_setop_MINUS : accTable.lookup ("setop", "MINUS") = some (Acc.tok1 "MINUS") := by decide
theorem acc_associations_ASSOCIATIONS : accTable.lookup ("associations", "ASSOCIATIONS") = some (Acc.tok1 "ASSOCIATIONS") := by decide
theorem acc_associations_LCURLY : accTable.lookup ("associations", "LCURLY") = some (Acc.tok1 "LCURLY") := by decide
theorem acc_associations_RCURLY : accTable.lookup ("associations", "RCURLY") = some (Acc.tok1 "RCURLY") := by decide
theorem acc_associations_association : accTable.lookup ("associations", "association") = some (Acc.rules "association") := by decide
theorem acc_association_ID : accTable.lookup ("association", "ID") = some (Acc.toks "ID") := by decide
theorem acc_association_field : accTable.lookup ("association", "field") = some (Acc.rules "field") := by decide
theorem acc_association_mult : accTable.lookup ("association", "mult") = some (Acc.rules "mult") := by decide
theorem acc_association_LARROW : accTable.lookup ("association", "LARROW") = some (Acc.tok1 "LARROW") := by decide
theorem acc_association_linkname : accTable.lookup ("association", "linkname") = some (Acc.rule1 "linkname") := by decide
theorem acc_association_RARROW : accTable.lookup ("association", "RARROW") = some (Acc.tok1 "RARROW") := by decide
theorem acc_association_meta : accTable.lookup ("association", "meta") = some (Acc.rules "meta") := by decide
theorem acc_field_LSQUARE : accTable.lookup ("field", "LSQUARE") = some (Acc.tok1 "LSQUARE") := by decide
theorem acc_field_ID : accTable.lookup ("field", "ID") = some (Acc.tok1 "ID") := by decide
theorem acc_field_RSQUARE : accTable.lookup ("field", "RSQUARE") = some (Acc.tok1 "RSQUARE") := by decide
theorem acc_mult_multatom : accTable.lookup ("mult", "multatom") = some (Acc.rules "multatom") := by decide
theorem acc_mult_RANGE : accTable.lookup ("mult", "RANGE") = some (Acc.tok1 "RANGE") := by decide
theorem acc_multatom_INT : accTable.lookup ("multatom", "INT") = some (Acc.tok1 "INT") := by decide
theorem acc_multatom_STAR : accTable.lookup ("multatom", "STAR") = some (Acc.tok1 "STAR") := by decide
theorem acc_linkname_ID : accTable.lookup ("linkname", "ID") = some (Acc.tok1 "ID") := by decide

/-! ### dynamic dispatch: `self.visit(ctx)` is the method of the rule of `ctx` -/
theorem visitF_mal (c : V → M V) (toks : List V) (wf g : Nat) (cs up : List PT) :
    visitF c toks wf (g+1) (.ctx (.rule "mal" cs) up) = visitMal (selfAt c toks wf g) (.ctx (.rule "mal" cs) up) := rfl
theorem visitF_include (c : V → M V) (toks : List V) (wf g : Nat) (cs up : List PT) :
    visitF c toks wf (g+1) (.ctx (.rule "include" cs) up) = visitInclude (selfAt c toks wf g) (.ctx (.rule "include" cs) up) := rfl
theorem visitF_define (c : V → M V) (toks : List V) (wf g : Nat) (cs up : List PT) :
    visitF c toks wf (g+1) (.ctx (.rule "define" cs) up) = visitDefine (selfAt c toks wf g) (.ctx (.rule "define" cs) up) := rfl
theorem visitF_category (c : V → M V) (toks : List V) (wf g : Nat) (cs up : List PT) :
    visitF c toks wf (g+1) (.ctx (.rule "category" cs) up) = visitCategory (selfAt c toks wf g) (.ctx (.rule "category" cs) up) := rfl
theorem visitF_meta (c : V → M V) (toks : List V) (wf g : Nat) (cs up : List PT) :
    visitF c toks wf (g+1) (.ctx (.rule "meta" cs) up) = visitMeta (selfAt c toks wf g) (.ctx (.rule "meta" cs) up) := rfl
theorem visitF_asset (c : V → M V) (toks : List V) (wf g : Nat) (cs up : List PT) :
    visitF c toks wf (g+1) (.ctx (.rule "asset" cs) up) = visitAsset (selfAt c toks wf g) (.ctx (.rule "asset" cs) up) := rfl
theorem visitF_step (c : V → M V) (toks : List V) (wf g : Nat) (cs up : List PT) :
    visitF c toks wf (g+1) (.ctx (.rule "step" cs) up) = visitStep (selfAt c toks wf g) (.ctx (.rule "step" cs) up) := rfl
theorem visitF_steptype (c : V → M V) (toks : List V) (wf g : Nat) (cs up : List PT) :
    visitF c toks wf (g+1) (.ctx (.rule "steptype" cs) up) = visitSteptype (selfAt c toks wf g) (.ctx (.rule "steptype" cs) up) := rfl
theorem visitF_tag (c : V → M V) (toks : List V) (wf g : Nat) (cs up : List PT) :
    visitF c toks wf (g+1) (.ctx (.rule "tag" cs) up) = visitTag (selfAt c toks wf g) (.ctx (.rule "tag" cs) up) := rfl
theorem visitF_cias (c : V → M V) (toks : List V) (wf g : Nat) (cs up : List PT) :
    visitF c toks wf (g+1) (.ctx (.rule "cias" cs) up) = visitCias (selfAt c toks wf g) (.ctx (.rule "cias" cs) up) := rfl
theorem visitF_cia (c : V → M V) (toks : List V) (wf g : Nat) (cs up : List PT) :
    visitF c toks wf (g+1) (.ctx (.rule "cia" cs) up) = visitCia (selfAt c toks wf g) (.ctx (.rule "cia" cs) up) := rfl
theorem visitF_ttc (c : V → M V) (toks : List V) (wf g : Nat) (cs up : List PT) :
    visitF c toks wf (g+1) (.ctx (.rule "ttc" cs) up) = visitTtc (selfAt c toks wf g) (.ctx (.rule "ttc" cs) up) := rfl
theorem visitF_ttcexpr (c : V → M V) (toks : List V) (wf g : Nat) (cs up : List PT) :
    visitF c toks wf (g+1) (.ctx (.rule "ttcexpr" cs) up) = visitTtcexpr (selfAt c toks wf g) (.ctx (.rule "ttcexpr" cs) up) := rfl
theorem visitF_ttcterm (c : V → M V) (toks : List V) (wf g : Nat) (cs up : List PT) :
    visitF c toks wf (g+1) (.ctx (.rule "ttcterm" cs) up) = visitTtcterm (selfAt c toks wf g) (.ctx (.rule "ttcterm" cs) up) := rfl
theorem visitF_ttcfact (c : V → M V) (toks : List V) (wf g : Nat) (cs up : List PT) :
    visitF c toks wf (g+1) (.ctx (.rule "ttcfact" cs) up) = visitTtcfact (selfAt c toks wf g) (.ctx (.rule "ttcfact" cs) up) := rfl
theorem visitF_ttcatom (c : V → M V) (toks : List V) (wf g : Nat) (cs up : List PT) :
    visitF c toks wf (g+1) (.ctx (.rule "ttcatom" cs) up) = visitTtcatom (selfAt c toks wf g) (.ctx (.rule "ttcatom" cs) up) := rfl
theorem visitF_ttcdist (c : V → M V) (toks : List V) (wf g : Nat) (cs up : List PT) :
    visitF c toks wf (g+1) (.ctx (.rule "ttcdist" cs) up) = visitTtcdist (selfAt c toks wf g) (.ctx (.rule "ttcdist" cs) up) := rfl
theorem visitF_precondition (c : V → M V) (toks : List V) (wf g : Nat) (cs up : List PT) :
    visitF c toks wf (g+1) (.ctx (.rule "precondition" cs) up) = visitPrecondition (selfAt c toks wf g) (.ctx (.rule "precondition" cs) up) := rfl
theorem visitF_reaches (c : V → M V) (toks : List V) (wf g : Nat) (cs up : List PT) :
    visitF c toks wf (g+1) (.ctx (.rule "reaches" cs) up) = visitReaches (selfAt c toks wf g) (.ctx (.rule "reaches" cs) up) := rfl
theorem visitF_number (c : V → M V) (toks : List V) (wf g : Nat) (cs up : List PT) :
    visitF c toks wf (g+1) (.ctx (.rule "number" cs) up) = visitNumber (selfAt c toks wf g) (.ctx (.rule "number" cs) up) := rfl
theorem visitF_variable (c : V → M V) (toks : List V) (wf g : Nat) (cs up : List PT) :
    visitF c toks wf (g+1) (.ctx (.rule "variable" cs) up) = visitVariable (selfAt c toks wf g) (.ctx (.rule "variable" cs) up) := rfl
theorem visitF_expr (c : V → M V) (toks : List V) (wf g : Nat) (cs up : List PT) :
    visitF c toks wf (g+1) (.ctx (.rule "expr" cs) up) = visitExpr (selfAt c toks wf g) (.ctx (.rule "expr" cs) up) := rfl
theorem visitF_parts (c : V → M V) (toks : List V) (wf g : Nat) (cs up : List PT) :
    visitF c toks wf (g+1) (.ctx (.rule "parts" cs) up) = visitParts (selfAt c toks wf g) (.ctx (.rule "parts" cs) up) := rfl
theorem visitF_part (c : V → M V) (toks : List V) (wf g : Nat) (cs up : List PT) :
    visitF c toks wf (g+1) (.ctx (.rule "part" cs) up) = visitPart (selfAt c toks wf g) (.ctx (.rule "part" cs) up) := rfl
theorem visitF_varsubst (c : V → M V) (toks : List V) (wf g : Nat) (cs up : List PT) :
    visitF c toks wf (g+1) (.ctx (.rule "varsubst" cs) up) = visitVarsubst (selfAt c toks wf g) (.ctx (.rule "varsubst" cs) up) := rfl
theorem visitF_type (c : V → M V) (toks : List V) (wf g : Nat) (cs up : List PT) :
    visitF c toks wf (g+1) (.ctx (.rule "type" cs) up) = visitType (selfAt c toks wf g) (.ctx (.rule "type" cs) up) := rfl
theorem visitF_setop (c : V → M V) (toks : List V) (wf g : Nat) (cs up : List PT) :
    visitF c toks wf (g+1) (.ctx (.rule "setop" cs) up) = visitSetop (selfAt c toks wf g) (.ctx (.rule "setop" cs) up) := rfl
theorem visitF_associations (c : V → M V) (toks : List V) (wf g : Nat) (cs up : List PT) :
    visitF c toks wf (g+1) (.ctx (.rule "associations" cs) up) = visitAssociations (selfAt c toks wf g) (.ctx (.rule "associations" cs) up) := rfl
theorem visitF_association (c : V → M V) (toks : List V) (wf g : Nat) (cs up : List PT) :
    visitF c toks wf (g+1) (.ctx (.rule "association" cs) up) = visitAssociation (selfAt c toks wf g) (.ctx (.rule "association" cs) up) := rfl
theorem visitF_field (c : V → M V) (toks : List V) (wf g : Nat) (cs up : List PT) :
    visitF c toks wf (g+1) (.ctx (.rule "field" cs) up) = visitField (selfAt c toks wf g) (.ctx (.rule "field" cs) up) := rfl
theorem visitF_linkname (c : V → M V) (toks : List V) (wf g : Nat) (cs up : List PT) :
    visitF c toks wf (g+1) (.ctx (.rule "linkname" cs) up) = visitLinkname (selfAt c toks wf g) (.ctx (.rule "linkname" cs) up) := rfl

theorem visitF_tok (c : V → M V) (toks : List V) (wf g : Nat) (t x : String) (i : Nat) (up : List PT) :
    visitF c toks wf (g+1) (.ctx (.tok t x i) up) = .ok V.none := rfl

theorem visitF_zero (c : V → M V) (toks : List V) (wf : Nat) (x : V) : visitF c toks wf 0 x = .error Err.recursion := rfl

/-! ### depth of a tree = the recursion budget a visit needs -/

mutual
def PT.depth : PT → Nat
  | .rule _ cs => 1 + PT.depthL cs
  | .tok .. => 1
def PT.depthL : List PT → Nat
  | [] => 0
  | c :: cs => max c.depth (PT.depthL cs)
end

theorem depthL_mem {c : PT} {cs : List PT} (h : c ∈ cs) : c.depth ≤ PT.depthL cs := by
  induction cs with
  | nil => cases h
  | cons d ds ih =>
    simp only [PT.depthL]
    rcases List.mem_cons.mp h with rfl | h
    · exact Nat.le_max_left _ _
    · exact Nat.le_trans (ih h) (Nat.le_max_right _ _)

theorem depthL_append (a b : List PT) : PT.depthL (a ++ b) = max (PT.depthL a) (PT.depthL b) := by
  induction a with
  | nil => simp [PT.depthL]
  | cons c cs ih => simp only [List.cons_append, PT.depthL, ih, Nat.max_assoc]

theorem depth_rule (n : String) (cs : List PT) : (PT.rule n cs).depth = 1 + PT.depthL cs := by simp [PT.depth]
theorem depth_tok (t x : String) (i : Nat) : (PT.tok t x i).depth = 1 := by simp [PT.depth]

mutual
theorem depth_le_size : ∀ t : PT, t.depth ≤ t.size
  | .rule _ cs => by simp only [PT.depth, PT.size]; have := depthL_le_sizeL cs; omega
  | .tok .. => by simp [PT.depth, PT.size]
theorem depthL_le_sizeL : ∀ cs : List PT, PT.depthL cs ≤ PT.sizeL cs
  | [] => by simp [PT.depthL, PT.sizeL]
  | c :: cs => by
    simp only [PT.depthL, PT.sizeL]
    have := depth_le_size c; have := depthL_le_sizeL cs; omega
end

/-! ### `Except` and `for` -/

theorem bind_ok {α β : Type} {x : M α} {f : α → M β} {b : β} (h : x.bind f = .ok b) : ∃ a, x = .ok a ∧ f a = .ok b := by
  cases x with
  | error e => cases h
  | ok a => exact ⟨a, rfl, h⟩

theorem ok_bind {α β : Type} (a : α) (f : α → M β) : (Except.ok a : M α).bind f = f a := rfl

/-- a `for` whose body never leaves the loop early is a monadic fold -/
theorem forIn_foldlM {α σ : Type} (l : List α) (init : σ) (f : α → σ → M (ForInStep σ)) (g : σ → α → M σ)
    (h : ∀ x ∈ l, ∀ s, f x s = (g s x).bind (fun s' => Except.ok (ForInStep.yield s'))) :
    forIn l init f = l.foldlM g init := by
  induction l generalizing init with
  | nil => rfl
  | cons x xs ih =>
    rw [List.forIn_cons, List.foldlM_cons, h x (List.mem_cons_self) init]
    cases hg : g init x with
    | error e => rfl
    | ok s' =>
      simp only [Except.bind, bind]
      exact ih s' (fun y hy s => h y (List.mem_cons_of_mem _ hy) s)

/-- … and when every step succeeds, a pure fold -/
theorem forIn_foldl {α σ : Type} (l : List α) (init : σ) (f : α → σ → M (ForInStep σ)) (g : σ → α → σ)
    (h : ∀ x ∈ l, ∀ s, f x s = Except.ok (ForInStep.yield (g s x))) :
    forIn l init f = Except.ok (l.foldl g init) := by
  induction l generalizing init with
  | nil => rfl
  | cons x xs ih =>
    rw [List.forIn_cons, h x (List.mem_cons_self) init]
    simp only [bind, Except.bind, List.foldl_cons]
    exact ih _ (fun y hy s => h y (List.mem_cons_of_mem _ hy) s)

/-! ### what `_resolve_part_ID_type` computes -/

def tokIdx : PT → Nat
  | .tok _ _ i => i
  | .rule .. => 0

/-- the token index of `pctx.stop` for the nearest enclosing `reaches` context (`None` when there is none) -/
def reachStop : List PT → Option Nat
  | [] => Option.none
  | p :: ps => if isRule "reaches" p then p.last.map tokIdx else reachStop ps

/-- the type of the `i`-th token of the stream -/
def tokTypeAt (toks : List V) (i : Nat) : String :=
  match toks[i]? with
  | some (.token ty _ _) => ty
  | _ => ""

/-- scanning `n` tokens from position `i`: `false` at the first DOT, `true` at the first COMMA or at the end
(`true` = the name is the attack step) -/
def scanStep (toks : List V) : Nat → Nat → Bool
  | _, 0 => true
  | i, n+1 =>
    if tokTypeAt toks i = "DOT" then false
    else if tokTypeAt toks i = "COMMA" then true
    else scanStep toks (i+1) n

/-- `_resolve_part_ID_type` answers "attackStep" -/
def stepAt (up : List PT) (toks : List V) (i : Nat) : Bool :=
  match reachStop up with
  | Option.none => false
  | some j => scanStep toks i (j + 1 - i)

/-- every entry of the stream is a token object -/
def AllTokens (toks : List V) : Prop := ∀ i, i < toks.length → ∃ ty x k, toks[i]? = some (V.token ty x k)

/-- the enclosing `reaches` contexts end at a token of the stream -/
def StopsOK (up : List PT) (toks : List V) : Prop :=
  ∀ p ∈ up, isRule "reaches" p = true → ∃ t x j, p.last = some (PT.tok t x j) ∧ j < toks.length

/-- the behaviour of the translated `_resolve_part_ID_type` on a context `part` under the ancestors `up` -/
def ResolveSpec (toks : List V) (wf : Nat) : Prop :=
  ∀ (c : V → M V) (g : Nat) (n : String) (cs up : List PT) (t x : String) (i : Nat),
    (PT.rule n cs).first = some (PT.tok t x i) → up.length < wf → StopsOK up toks →
    _resolve_part_ID_type (selfAt c toks wf g) (.ctx (.rule n cs) up) =
      .ok (V.str (if stepAt up toks i then "attackStep" else "field"))

end MalVerif.Py.Visitor
