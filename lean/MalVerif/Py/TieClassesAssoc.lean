import MalVerif.Py.TieClassesBase
namespace MalVerif.Py.Classes
open MalVerif.Py.Visitor (V dictPut dictPutAll)
open MalVerif.Py MalVerif.Py.Classes.Gen

/-! ### dictionaries -/

theorem dictPut_any (d : List (String × V)) (k : String) (v : V) :
    (dictPut d k v).any (fun e => e.1 == k) = true := by
  rw [← lookup_isSome_iff, lookup_dictPut_same]; rfl

theorem dictPut_of_any (d : List (String × V)) (k : String) (v : V) (h : d.any (fun e => e.1 == k) = true) :
    dictPut d k v = d.map (fun e => if e.1 == k then (k, v) else e) := by
  unfold dictPut; rw [if_pos h]

theorem map_put_map_put (d : List (String × V)) (k : String) (a b : V) :
    (d.map (fun e => if e.1 == k then (k, a) else e)).map (fun e => if e.1 == k then (k, b) else e)
      = d.map (fun e => if e.1 == k then (k, b) else e) := by
  rw [List.map_map]
  apply List.map_congr_left
  intro e _
  by_cases he : e.1 = k <;> simp [he]

theorem map_put_absent (d : List (String × V)) (k : String) (b : V) (hd : ¬ d.any (fun e => e.1 == k) = true) :
    d.map (fun e => if e.1 == k then (k, b) else e) = d := by
  induction d with
  | nil => rfl
  | cons e es ih =>
    simp only [List.any_cons, Bool.or_eq_true, not_or] at hd
    rw [List.map_cons, ih hd.2, if_neg hd.1]

theorem dictPut_dictPut (d : List (String × V)) (k : String) (a b : V) :
    dictPut (dictPut d k a) k b = dictPut d k b := by
  have h := dictPut_any d k a
  rw [dictPut_of_any _ _ _ h]
  unfold dictPut
  by_cases hd : d.any (fun e => e.1 == k) = true
  · rw [if_pos hd, if_pos hd]; exact map_put_map_put d k a b
  · rw [if_neg hd, if_neg hd, List.map_append, map_put_absent d k b hd]
    simp

/-! ### `create_association_field` -/

theorem fieldSpec_none (lg : LG) (f : LGField) (h : Visitor.isNone f.maximum = true) :
    fieldSpec lg f = .dict [("type", V.str "array"), ("items", refV (assetRef (lg.asset f.asset).name))] := by
  unfold fieldSpec; rw [h]; rfl

theorem fieldSpec_some (lg : LG) (f : LGField) (h : Visitor.isNone f.maximum = false) :
    fieldSpec lg f = .dict [("type", V.str "array"), ("items", refV (assetRef (lg.asset f.asset).name)),
      ("maxItems", f.maximum)] := by
  unfold fieldSpec; rw [h]; rfl

/-- the body of `create_association_field` after the field has been read -/
def fieldBody (lg : LG) (entry : V) (field_ : LGField) : M V := do
  let mut assoc_json_entry := entry
  assoc_json_entry ← modPath assoc_json_entry [(V.str "properties")] (fun o => setItem o (V.str field_.fieldname) (mkDict [("type", (V.str "array")), ("items", (mkDict [("$ref", (V.str ("#/definitions/LanguageAsset/definitions/" ++ (lg.asset field_.asset).name)))]))]))
  if (!(Visitor.isNone field_.maximum)) then
    assoc_json_entry ← modPath assoc_json_entry [(V.str "properties"), (V.str field_.fieldname)] (fun o => setItem o (V.str "maxItems") field_.maximum)
  return assoc_json_entry

theorem fieldBody_eq (lg : LG) (f : LGField) (d : List (String × V)) (ps : List (String × V))
    (h : d.lookup "properties" = some (.dict ps)) :
    fieldBody lg (.dict d) f =
      .ok (.dict (dictPut d "properties" (.dict (dictPut ps f.fieldname (fieldSpec lg f))))) := by
  unfold fieldBody
  show (modPath (V.dict d) _ _ >>= _) = _
  rw [modPath_dict_cons d "properties" [] _ (.dict ps) _ h (by rw [modPath_nil]; exact setItem_dict _ _ _)]
  rw [bind_ok]
  cases hm : Visitor.isNone f.maximum with
  | true =>
    rw [fieldSpec_none lg f hm]; rfl
  | false =>
    rw [fieldSpec_some lg f hm]
    show (modPath _ _ _ >>= _) = _
    rw [modPath_dict_cons _ "properties" _ _ _ _ (lookup_dictPut_same _ _ _)
      (modPath_dict_cons _ f.fieldname [] _ _ _ (lookup_dictPut_same _ _ _) (by rw [modPath_nil]; exact setItem_dict _ _ _))]
    rw [dictPut_dictPut, dictPut_dictPut]
    rfl

theorem create_association_field_left (lg : LG) (a : LGAssoc) (d : List (String × V)) (ps : List (String × V))
    (h : d.lookup "properties" = some (.dict ps)) :
    factory_generate_associations_create_association_field lg a (.dict d) "left" =
      .ok (.dict (dictPut d "properties" (.dict (dictPut ps a.left_field.fieldname (fieldSpec lg a.left_field))))) := by
  rw [← fieldBody_eq lg a.left_field d ps h]
  rfl

theorem create_association_field_right (lg : LG) (a : LGAssoc) (d : List (String × V)) (ps : List (String × V))
    (h : d.lookup "properties" = some (.dict ps)) :
    factory_generate_associations_create_association_field lg a (.dict d) "right" =
      .ok (.dict (dictPut d "properties" (.dict (dictPut ps a.right_field.fieldname (fieldSpec lg a.right_field))))) := by
  rw [← fieldBody_eq lg a.right_field d ps h]
  rfl

/-! ### `create_association_entry` -/

theorem create_association_entry_eq (lg : LG) (a : LGAssoc) :
    factory_generate_associations_create_association_entry lg a = .ok (assocEntry lg a.name a) := by
  unfold factory_generate_associations_create_association_entry
  show (factory_generate_associations_create_association_field lg a
      (.dict [("title", (V.str a.name)), ("type", (V.str "object")), ("properties", .dict [])]) "left" >>= _) = _
  rw [create_association_field_left lg a _ [] rfl, bind_ok]
  rw [create_association_field_right lg a _ _ (lookup_dictPut_same _ _ _), dictPut_dictPut]
  rfl

/-! ### the invariant -/

theorem oneOfOf_container (n : String) (o : List V) (sb : List (String × V)) : oneOfOf (container n o sb) = o := rfl
theorem subsOf_container (n : String) (o : List V) (sb : List (String × V)) : subsOf (container n o sb) = sb := rfl

theorem isDup_congr (lg : LG) (a b : LGAssoc) (h : b.name = a.name) : isDup lg b = isDup lg a := by
  unfold isDup; rw [h]

theorem assocStep_dup (lg : LG) (acc : List V × List (String × V)) (a : LGAssoc) (hd : isDup lg a = true) :
    assocStep lg acc a =
      (if (acc.2.lookup a.name).isSome then acc.1 else acc.1 ++ [refV (assocRef a.name)],
       dictPut acc.2 a.name
        (container a.name
          (oneOfOf ((acc.2.lookup a.name).getD (container a.name [] [])) ++ [refV (subRef a.name (subName lg a))])
          (dictPut (subsOf ((acc.2.lookup a.name).getD (container a.name [] []))) (subName lg a)
            (assocEntry lg (subName lg a) a)))) := by
  unfold assocStep; rw [if_pos hd]

theorem assocStep_nodup (lg : LG) (acc : List V × List (String × V)) (a : LGAssoc) (hd : isDup lg a = false) :
    assocStep lg acc a = (acc.1 ++ [refV (assocRef a.name)], dictPut acc.2 a.name (assocEntry lg a.name a)) := by
  unfold assocStep; rw [hd]; rfl

set_option linter.unusedVariables false in
/-- the invariant is kept by a step (needed to go through the loop) -/
theorem assocInv_step (lg : LG) (acc : List V × List (String × V)) (a : LGAssoc) (ha : a ∈ lg.associations)
    (hinv : AssocInv lg acc.2) : AssocInv lg (assocStep lg acc a).2 := by
  intro b hb hbd c hc
  by_cases hn : b.name = a.name
  · have hda : isDup lg a = true := by rw [← isDup_congr lg a b hn]; exact hbd
    rw [assocStep_dup lg acc a hda, hn, lookup_dictPut_same] at hc
    cases hc
    rw [oneOfOf_container, subsOf_container, hn]
  · cases hda : isDup lg a with
    | true =>
      rw [assocStep_dup lg acc a hda, lookup_dictPut_other _ _ _ _ hn] at hc
      exact hinv b hb hbd c hc
    | false =>
      rw [assocStep_nodup lg acc a hda, lookup_dictPut_other _ _ _ _ hn] at hc
      exact hinv b hb hbd c hc

/-! ### `create_association_with_subentries` -/

theorem modPath_container_defs (n : String) (o : List V) (sb sb' : List (String × V)) (f : V → M V)
    (h : f (.dict sb) = .ok (.dict sb')) :
    modPath (container n o sb) [.str "definitions"] f = .ok (container n o sb') := by
  unfold container
  rw [modPath_dict_cons _ _ _ _ _ _ rfl (by rw [modPath_nil]; exact h)]
  rfl

theorem modPath_container_oneOf (n : String) (o o' : List V) (sb : List (String × V)) (f : V → M V)
    (h : f (.list o) = .ok (.list o')) :
    modPath (container n o sb) [.str "oneOf"] f = .ok (container n o' sb) := by
  unfold container
  rw [modPath_dict_cons _ _ _ _ _ _ rfl (by rw [modPath_nil]; exact h)]
  rfl

theorem modPath_sub_defs (ld : List (String × V)) (n : String) (o : List V) (sb : List (String × V)) (k : String)
    (v : V) (hl : ld.lookup n = some (container n o sb)) :
    modPath (.dict ld) [.str n, .str "definitions"] (fun o => setItem o (.str k) v) =
      .ok (.dict (dictPut ld n (container n o (dictPut sb k v)))) :=
  modPath_dict_cons ld n _ _ _ _ hl (modPath_container_defs n o sb _ _ (setItem_dict _ _ _))

theorem modPath_sub_oneOf (ld : List (String × V)) (n : String) (o : List V) (sb : List (String × V)) (x : V)
    (hl : ld.lookup n = some (container n o sb)) :
    modPath (.dict ld) [.str n, .str "oneOf"] (fun o => appendTo o x) =
      .ok (.dict (dictPut ld n (container n (o ++ [x]) sb))) :=
  modPath_dict_cons ld n _ _ _ _ hl (modPath_container_oneOf n o _ sb _ (appendTo_list _ _))

/-- the part of `create_association_with_subentries` after the `if` -/
def subTail (lg : LG) (self : Self) (assoc : LGAssoc) : M Self := do
  let mut self := self
  let mut assoc_json_subentry : V := (← factory_generate_associations_create_association_entry lg assoc)
  let mut subentry_name : String := ((((assoc.name ++ "_") ++ (lg.asset assoc.left_field.asset).name) ++ "_") ++ (lg.asset assoc.right_field.asset).name)
  assoc_json_subentry ← setItem assoc_json_subentry (V.str "title") (V.str subentry_name)
  self := { self with json_schema := (← modPath self.json_schema [(V.str "definitions"), (V.str "LanguageAssociation"), (V.str "definitions"), (V.str assoc.name), (V.str "definitions")] (fun o => setItem o (V.str subentry_name) assoc_json_subentry)) }
  self := { self with json_schema := (← modPath self.json_schema [(V.str "definitions"), (V.str "LanguageAssociation"), (V.str "definitions"), (V.str assoc.name), (V.str "oneOf")] (fun o => appendTo o (mkDict [("$ref", (V.str ((("#/definitions/LanguageAssociation/definitions/" ++ assoc.name) ++ "/definitions/") ++ subentry_name)))]))) }
  return self

theorem subTail_eq (lg : LG) (ga ns : V) (one : List V) (ld : List (String × V)) (a : LGAssoc)
    (o : List V) (sb : List (String × V)) (hl : ld.lookup a.name = some (container a.name o sb)) :
    subTail lg { json_schema := skel ga (group "LanguageAssociation" (some one) ld), ns := ns } a =
      .ok { json_schema := skel ga (group "LanguageAssociation" (some one)
              (dictPut ld a.name (container a.name (o ++ [refV (subRef a.name (subName lg a))])
                (dictPut sb (subName lg a) (assocEntry lg (subName lg a) a))))), ns := ns } := by
  unfold subTail
  show (factory_generate_associations_create_association_entry lg a >>= _) = _
  rw [create_association_entry_eq, bind_ok]
  show (setItem (assocEntry lg a.name a) (V.str "title") (V.str (subName lg a)) >>= _) = _
  have h1 : setItem (assocEntry lg a.name a) (V.str "title") (V.str (subName lg a))
      = .ok (assocEntry lg (subName lg a) a) := rfl
  rw [h1, bind_ok]
  show (modPath (skel ga (group "LanguageAssociation" (some one) ld)) _ _ >>= _) = _
  rw [modPath_assocDefs_path one ld _ ga _ _ (modPath_sub_defs ld a.name o sb _ _ hl), bind_ok]
  show (modPath (skel ga (group "LanguageAssociation" (some one) _)) _ _ >>= _) = _
  rw [modPath_assocDefs_path one _ _ ga _ _
    (modPath_sub_oneOf _ a.name o _ _ (lookup_dictPut_same _ _ _)), bind_ok, dictPut_dictPut]
  rfl

theorem subentries_unfold (lg : LG) (ga ns : V) (one : List V) (ld : List (String × V)) (a : LGAssoc) :
    factory_generate_associations_create_association_with_subentries lg
        { json_schema := skel ga (group "LanguageAssociation" (some one) ld), ns := ns } a =
      (if (!(ld.any (fun e => e.1 == a.name))) = true then do
        let s1 ← modPath (skel ga (group "LanguageAssociation" (some one) ld))
          [V.str "definitions", V.str "LanguageAssociation", V.str "definitions"]
          (fun o => setItem o (V.str a.name) (container a.name [] []))
        let s2 ← modPath s1 [V.str "definitions", V.str "LanguageAssociation", V.str "oneOf"]
          (fun o => appendTo o (refV (assocRef a.name)))
        subTail lg { json_schema := s2, ns := ns } a
      else subTail lg { json_schema := skel ga (group "LanguageAssociation" (some one) ld), ns := ns } a) := rfl

theorem create_association_with_subentries_eq (lg : LG) (ga ns : V) (one : List V) (ld : List (String × V))
    (a : LGAssoc) (ha : a ∈ lg.associations) (hd : isDup lg a = true) (hinv : AssocInv lg ld) :
    factory_generate_associations_create_association_with_subentries lg
        { json_schema := skel ga (group "LanguageAssociation" (some one) ld), ns := ns } a =
      .ok { json_schema := skel ga (group "LanguageAssociation" (some (assocStep lg (one, ld) a).1) (assocStep lg (one, ld) a).2), ns := ns } := by
  rw [subentries_unfold, assocStep_dup lg _ a hd, ← lookup_isSome_iff]
  cases hl : ld.lookup a.name with
  | none =>
    show (modPath _ _ _ >>= _) = _
    rw [modPath_assocDefs one ld _ ga (fun o => setItem o (V.str a.name) (container a.name [] []))
      (setItem_dict _ _ _), bind_ok]
    show (modPath _ _ _ >>= _) = _
    rw [modPath_assocOneOf one _ _ ga (fun o => appendTo o (refV (assocRef a.name))) (appendTo_list _ _), bind_ok]
    rw [subTail_eq lg ga ns _ _ a [] [] (lookup_dictPut_same _ _ _), dictPut_dictPut]
    rfl
  | some c =>
    have hc := hinv a ha hd c hl
    show subTail _ _ _ = _
    rw [hc] at hl
    rw [subTail_eq lg ga ns _ _ a _ _ hl]
    rfl

/-! ### `_generate_associations` -/

/-- the body of the loop of `_generate_associations` -/
def assocBody (lg : LG) (assoc : LGAssoc) (self : Self) : M (ForInStep Self) :=
  if decide (Int.ofNat (((lg.associations).filter (fun temp_assoc => (temp_assoc.name == assoc.name)))).length > 1) = true then do
    let self ← factory_generate_associations_create_association_with_subentries lg self assoc
    pure (ForInStep.yield self)
  else do
    let assoc_json_entry ← factory_generate_associations_create_association_entry lg assoc
    let s1 ← modPath self.json_schema [(V.str "definitions"), (V.str "LanguageAssociation"), (V.str "definitions")] (fun o => setItem o (V.str assoc.name) assoc_json_entry)
    let s2 ← modPath s1 [(V.str "definitions"), (V.str "LanguageAssociation"), (V.str "oneOf")] (fun o => appendTo o (mkDict [("$ref", (V.str (("#/definitions/LanguageAssociation/" ++ "definitions/") ++ assoc.name)))]))
    pure (ForInStep.yield { json_schema := s2, ns := self.ns })

theorem generate_associations_unfold (lg : LG) (self : Self) :
    factory_generate_associations lg self = (forIn lg.associations self (assocBody lg) >>= fun s => pure s) := rfl

theorem count_isDup (lg : LG) (a : LGAssoc) :
    decide (Int.ofNat (((lg.associations).filter (fun temp_assoc => (temp_assoc.name == a.name)))).length > 1) = isDup lg a := by
  unfold isDup
  apply decide_eq_decide.2
  simp only [Int.ofNat_eq_natCast]
  omega

theorem assocBody_eq (lg : LG) (ga ns : V) (one : List V) (ld : List (String × V))
    (a : LGAssoc) (ha : a ∈ lg.associations) (hinv : AssocInv lg ld) :
    assocBody lg a { json_schema := skel ga (group "LanguageAssociation" (some one) ld), ns := ns } =
      .ok (.yield { json_schema := skel ga (group "LanguageAssociation" (some (assocStep lg (one, ld) a).1) (assocStep lg (one, ld) a).2), ns := ns }) := by
  unfold assocBody
  rw [count_isDup]
  cases hd : isDup lg a with
  | true =>
    rw [if_pos rfl, create_association_with_subentries_eq lg ga ns one ld a ha hd hinv]
    rfl
  | false =>
    rw [if_neg (by decide), create_association_entry_eq, bind_ok, assocStep_nodup lg _ a hd]
    show (modPath _ _ _ >>= _) = _
    rw [modPath_assocDefs one ld _ ga (fun o => setItem o (V.str a.name) (assocEntry lg a.name a))
      (setItem_dict _ _ _), bind_ok]
    have hs : ("#/definitions/LanguageAssociation/" ++ "definitions/") ++ a.name = assocRef a.name := by
      unfold assocRef
      have : "#/definitions/LanguageAssociation/" ++ "definitions/" = "#/definitions/LanguageAssociation/definitions/" := by
        decide
      rw [this]
    rw [hs]
    show (modPath _ _ _ >>= _) = _
    rw [modPath_assocOneOf one _ _ ga (fun o => appendTo o (mkDict [("$ref", V.str (assocRef a.name))]))
      (appendTo_list _ _), bind_ok]
    rfl

theorem assocLoop_eq (lg : LG) (ga ns : V) (l : List LGAssoc) (hl : ∀ a ∈ l, a ∈ lg.associations) :
    ∀ (one : List V) (ld : List (String × V)), AssocInv lg ld →
    forIn l ({ json_schema := skel ga (group "LanguageAssociation" (some one) ld), ns := ns } : Self) (assocBody lg) =
      .ok { json_schema := skel ga (group "LanguageAssociation" (some (l.foldl (assocStep lg) (one, ld)).1)
              (l.foldl (assocStep lg) (one, ld)).2), ns := ns } := by
  induction l with
  | nil => intro one ld _; rfl
  | cons a l ih =>
    intro one ld hinv
    have ha : a ∈ lg.associations := hl a (List.mem_cons_self ..)
    rw [List.forIn_cons, assocBody_eq lg ga ns one ld a ha hinv, bind_ok]
    show forIn l _ _ = _
    rw [ih (fun b hb => hl b (List.mem_cons_of_mem _ hb)) _ _ (assocInv_step lg (one, ld) a ha hinv)]
    rfl

theorem assocInv_nil (lg : LG) : AssocInv lg [] := by
  intro a _ _ c hc
  cases hc

/-- THE TIE: the translated `_generate_associations` builds `assocPart lg` -/
theorem generate_associations_eq (lg : LG) (ga ns : V) :
    factory_generate_associations lg { json_schema := skel ga (group "LanguageAssociation" (some []) []), ns := ns } =
      .ok { json_schema := skel ga (group "LanguageAssociation" (some (assocPart lg).1) (assocPart lg).2), ns := ns } := by
  rw [generate_associations_unfold, assocLoop_eq lg ga ns lg.associations (fun _ h => h) [] [] (assocInv_nil lg)]
  rfl

end MalVerif.Py.Classes
