import MalVerif.Py.GenLegacy.Updater
import MalVerif.Py.AbsLegacy
import MalVerif.Py.TieModelStep
/-!
# Tie of the translated 0.0.39 loader: the loop bodies, and how the loader is made of them

`assetBody`, `assocBody`, `attackerBody` (with `defenseBody`, `fieldBody`, `epBody`) are the bodies of the loops of
the GENERATED `updater_process_model`, written down once more by hand; `process_model_eq` is checked by `rfl`, so a
change of the generated function (i.e. of the Python source) breaks it.  `loop_sim` is the generic simulation
argument for a `for` loop whose body never leaves the loop early; when the body raises, the step of the hand model
rejects with an error that agrees with the exception up to the listed disagreements (`oldErrAbs`, `OldErrAgree`).
-/
namespace MalVerif.PyLeg.Tie
open MalVerif MalVerif.PyM MalVerif.PyM.Gen MalVerif.PyM.Tie MalVerif.PyLeg MalVerif.PyLeg.Gen MalVerif.Legacy
open MalVerif.Ser (Key)

def defenseBody (fac : Factory) (asset : ARef) (defenses : PyJ) : PyJ → H → Except LErr (ForInStep H) := fun defense s => do
  let v ← jIndex defenses defense
  let v ← jFloat v
  let s ← pjsSetDefense fac s asset defense v
  pure (ForInStep.yield s)

def assetBody (env : ModelEnv) (fac : Factory) : PyJ × PyJ → H → Except LErr (ForInStep H) := fun x s => do
  let asset_object ←
    (if jIsDict x.snd = true then (pure x.snd : Except LErr PyJ)
    else (do
      let a ← jFormat x.snd
      let b ← jFormat x.fst
      pure (PyJ.dict [(Key.s "metaconcept", x.snd), (Key.s "name", PyJ.str (a ++ ":" ++ b))]) : Except LErr PyJ))
  let mc ← jIndex asset_object (PyJ.str "metaconcept")
  let nm ← jIndex asset_object (PyJ.str "name")
  let r_1 ← nsNewAsset fac s mc nm
  let defenses ← jGetD asset_object (PyJ.str "defenses") (PyJ.list [])
  let ks ← jIter defenses
  let s ← forIn ks r_1.fst (defenseBody fac r_1.snd defenses)
  let i ← jInt x.fst
  let s ← liftPy (model_add_asset s env r_1.snd (some i) true)
  pure (ForInStep.yield s)

def fieldBody (env : ModelEnv) (fac : Factory) (association : LRef) : PyJ × PyJ → H → Except LErr (ForInStep H) := fun x s => do
  let targets ← (if jIsList x.snd = true then (pure x.snd : Except LErr PyJ) else (pure (PyJ.list [x.snd]) : Except LErr PyJ))
  let ts ← jIter targets
  let members ← List.mapM (fun id => do
      let i ← jInt id
      pure (model_get_asset_by_id s env i)) ts
  let s ← pjsSetField fac s association x.fst members
  pure (ForInStep.yield s)

def assocBody (env : ModelEnv) (fac : Factory) : PyJ → H → Except LErr (ForInStep H) := fun assoc_dict s => do
  let p_2 ← jPop assoc_dict (PyJ.str "metaconcept")
  let r_3 ← nsNewAssoc fac s p_2.fst
  let inner ← jGetD p_2.snd (PyJ.str "association") p_2.snd
  let items ← jItems inner
  let s ← forIn items r_3.fst (fieldBody env fac r_3.snd)
  let s ← liftPy (model_add_association s env r_3.snd)
  pure (ForInStep.yield s)

def epBody (env : ModelEnv) (info attacker_id : PyJ) (attacker : TRef) : PyJ → H → Except LErr (ForInStep H) := fun asset_id s => do
  let i ← jInt asset_id
  let a ← jIndex info attacker_id
  let a ← jIndex a (PyJ.str "entry_points")
  let a ← jIndex a asset_id
  let a ← jIndex a (PyJ.str "attack_steps")
  let steps ← jStrs a
  let ep_5 ← epTuple (model_get_asset_by_id s env i) steps
  pure (ForInStep.yield ((s.allocE ep_5).fst.setT attacker
    { (s.allocE ep_5).fst.t attacker with
      entry_points := ((s.allocE ep_5).fst.t attacker).entry_points ++ [(s.allocE ep_5).snd] }))

def attackerBody (env : ModelEnv) (info : PyJ) : PyJ → H → Except LErr (ForInStep H) := fun attacker_id s => do
  let a ← jIndex info attacker_id
  let nm ← jIndex a (PyJ.str "name")
  let r_4 ← newAttachment s nm
  let a ← jIndex info attacker_id
  let eps ← jIndex a (PyJ.str "entry_points")
  let ks ← jIter eps
  let s ← forIn ks (r_4.fst.setT r_4.snd { r_4.fst.t r_4.snd with entry_points := [] })
    (epBody env info attacker_id r_4.snd)
  let i ← jInt attacker_id
  pure (ForInStep.yield (model_add_attacker s env r_4.snd (some i)))

/-- the generated loader, in terms of the loop bodies -/
theorem process_model_eq (files : Files) (env : ModelEnv) (md : PyJ) (fac : Factory) :
    updater_process_model files env md fac = (do
      let m ← jIndex md (PyJ.str "metadata")
      let n ← jIndex m (PyJ.str "name")
      let s ← newModel n
      let a ← jIndex md (PyJ.str "assets")
      let items ← jItems a
      let s ← forIn items s (assetBody env fac)
      let l ← jGetD md (PyJ.str "associations") (PyJ.list [])
      let l ← jIter l
      let s ← forIn l s (assocBody env fac)
      let c ← jContains (PyJ.str "attackers") md
      if c = true then do
        let info ← jIndex md (PyJ.str "attackers")
        let ks ← jIter info
        (forIn ks s (attackerBody env info)) >>= fun s => pure s
      else pure s) := by
  unfold updater_process_model assetBody defenseBody assocBody fieldBody attackerBody epBody
  simp only []


/-! ### the exception class -/

/-- the error class of the hand model that an exception of the translated loader stands for (as `errAbsL` of the
securiCAD tie): a Python exception of `model.py` is its `errAbs` (whose catch-all sends `AttributeError`, `KeyError`, …
to `validation`), the pjs `ValidationError` is `validation`; `none`: `unmodelled` (the value is outside the modelled
subset, Python would not raise) and `typeError` (cannot occur on an encoded document). -/
def oldErrAbs : LErr → Option MS.Err
  | .py e => some (errAbs e)
  | .validation => some .validation
  | .typeError => none
  | .unmodelled => none

/-- Python exception `e` of the translated 0.0.39 loader vs. error `er` of `Legacy.loadOld` (both stop at the SAME entry
of the same loop): the same class (`oldErrAbs`), or one of the eight listed disagreements.  Each of them is realised
(witnesses at the end of `TieLegacyOld.lean`).

* `unmodelled` — Python does not raise at all there, the hand model rejects:
  - with `validation`: an asset entry with a `defenses` key that is not a defense of the class (pjs accepts it);
  - with `lookupError`: an attacker with an entry point for an asset id that is not in the file (Python stores `(None, steps)`);
  - with `valueError`: either of the two, in an entry whose own key is not an integer (`loadOldAsset` / `loadAttacker`
    convert the key FIRST, the Python converts it LAST).
* `AttributeError` (`getattr(ns, metaconcept)` for an unknown class):
  - the hand model says `lookupError` (asset and association loop — ONE fault, two names for it);
  - `valueError`: an asset entry of an unknown class whose key is not an integer (hand model: `int(key)` first).
  (In the association loop, unknown class AND a member id that does not resolve: the hand model resolves the ids first
  and says `validation`, which is what `errAbs` makes of `AttributeError` — covered by the first disjunct.)
* `ValidationError` vs `valueError`: an asset entry with a defense value out of range whose key is not an integer.
* `ValueError` (`int(x)` of a string that is not a number — ONE fault):
  - `validation`: `x` is a member id of an association (`Ser.resolveIds` does not tell a non-number from an unknown id);
  - `lookupError`: `x` is the asset id of an entry point (`Ser.loadAttacker` likewise). -/
def OldErrAgree (e : LErr) (er : MS.Err) : Prop :=
  oldErrAbs e = some er ∨
  (e = .unmodelled ∧ (er = .validation ∨ er = .lookupError ∨ er = .valueError)) ∨
  (e = .py .attributeError ∧ (er = .lookupError ∨ er = .valueError)) ∨
  (e = .validation ∧ er = .valueError) ∨
  (e = .py .valueError ∧ (er = .validation ∨ er = .lookupError))

instance (e : LErr) (er : MS.Err) : Decidable (OldErrAgree e er) := by
  unfold OldErrAgree; exact inferInstance

theorem OldErrAgree.py (e : PyErr) : OldErrAgree (.py e) (errAbs e) := Or.inl rfl

/-! ### a `for` loop whose body never leaves early simulates a `foldlM` of the hand model -/

/-- what a loop body does on the encoding of `a`, against one step of the hand model; when the body raises, the step
rejects with an error that agrees with the exception (`OldErrAgree`) -/
structure StepSim {α β : Type} (P : Nat → H → Prop) (Q : α → Prop) (body : β → H → Except LErr (ForInStep H))
    (enc : α → β) (step : MS.St → α → Except MS.Err MS.St) : Prop where
  ok : ∀ n s a r, P (n + 1) s → Q a → body (enc a) s = .ok r →
    ∃ s1, r = .yield s1 ∧ step (abs s) a = .ok (abs s1) ∧ P n s1
  err : ∀ n s a e, P (n + 1) s → Q a → body (enc a) s = .error e →
    ∃ er, step (abs s) a = .error er ∧ OldErrAgree e er

theorem forIn_cons_ok {β : Type} (body : β → H → Except LErr (ForInStep H)) (x : β) (xs : List β) (s s1 : H)
    (h : body x s = .ok (.yield s1)) : forIn (x :: xs) s body = forIn xs s1 body := by
  rw [List.forIn_cons]
  show (body x s).bind _ = _
  rw [h]; rfl

theorem forIn_cons_err {β : Type} (body : β → H → Except LErr (ForInStep H)) (x : β) (xs : List β) (s : H) (e : LErr)
    (h : body x s = .error e) : forIn (x :: xs) s body = .error e := by
  rw [List.forIn_cons]
  show (body x s).bind _ = _
  rw [h]; rfl

theorem loop_sim {α β : Type} {P : Nat → H → Prop} {Q : α → Prop} {body : β → H → Except LErr (ForInStep H)}
    {enc : α → β} {step : MS.St → α → Except MS.Err MS.St} (hsim : StepSim P Q body enc step) :
    ∀ (l : List α), (∀ a ∈ l, Q a) → ∀ (s : H), P l.length s →
      (∀ s', forIn (l.map enc) s body = .ok s' → l.foldlM step (abs s) = .ok (abs s') ∧ P 0 s') ∧
      (∀ e, forIn (l.map enc) s body = .error e → ∃ er, l.foldlM step (abs s) = .error er ∧ OldErrAgree e er) := by
  intro l
  induction l with
  | nil =>
    intro _ s hs
    refine ⟨?_, ?_⟩
    · intro s' h
      have : s' = s := by
        have h' : (Except.ok s : Except LErr H) = .ok s' := h
        injection h' with h'; exact h'.symm
      subst this; exact ⟨rfl, hs⟩
    · intro e h; cases h
  | cons a as ih =>
    intro hq s hs
    have hqa := hq a List.mem_cons_self
    have hqs : ∀ b ∈ as, Q b := fun b hb => hq b (List.mem_cons_of_mem _ hb)
    rw [List.map_cons, List.foldlM_cons]
    cases hb : body (enc a) s with
    | error e =>
      obtain ⟨er, her, hag⟩ := hsim.err as.length s a e hs hqa hb
      rw [forIn_cons_err _ _ _ _ _ hb, her]
      refine ⟨?_, ?_⟩
      · intro s' h; cases h
      · intro e' h
        injection h with h
        subst h
        exact ⟨er, rfl, hag⟩
    | ok r =>
      obtain ⟨s1, hr, hst, hp⟩ := hsim.ok as.length s a r hs hqa hb
      subst hr
      rw [forIn_cons_ok _ _ _ _ _ hb, hst]
      exact ih hqs s1 hp


/-! ### the three simulations to prove (one file each) -/

/-- invariant of the asset loop with `n` entries to go -/
def PA (env : ModelEnv) (n : Nat) (s : H) : Prop :=
  MS.Inv (abs s) ∧ s.asset_names.length + n ≤ env.whileFuel ∧ EpFresh s
/-- what is assumed of one asset entry -/
def QA (fac : Factory) (defsOk : Key → Bool) (e : Key × OldAssetEntry) : Prop :=
  ((assetDefs e.2).map (·.1)).Nodup ∧ defsOk e.1 = (assetDefs e.2).all (fun p => fac.floatOk p.2)
def encA (e : Key × OldAssetEntry) : PyJ × PyJ := (keyJ e.1, encAsset e.2)

/-- invariant of the association loop -/
def PL (_n : Nat) (s : H) : Prop := MS.Inv (abs s) ∧ EpFresh s

/-- the `attackers` member of the document -/
def infoOf (atts : List (Key × Ser.AttackerEntry)) : PyJ := .dict (atts.map (fun e => (e.1, encAttacker e.2)))
def PT (_n : Nat) (s : H) : Prop := EpFresh s
def QT (atts : List (Key × Ser.AttackerEntry)) (e : Key × Ser.AttackerEntry) : Prop :=
  e ∈ atts ∧ (e.2.entry.map (·.1)).Nodup

end MalVerif.PyLeg.Tie
