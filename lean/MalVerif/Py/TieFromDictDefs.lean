import MalVerif.Py.GenAgSerial.FromDict
import MalVerif.Py.AbsAgSerial
import MalVerif.Py.TieGraph
import MalVerif.Proofs.AGSerialLemmas
/-!
# `_from_dict` in three loops — shared definitions of the tie (`TieFromDict*.lean`)

`fdNode'`, `fdLink'`, `fdAtt'` are the bodies of the three `for` loops of the generated `graph__from_dict`
(verbatim; `graph__from_dict_eq'` is `rfl`, so a change of the generated code that is not a mere renaming breaks it).
`forIn_sim` turns a step-wise simulation of a loop body by a step function of the hand-written model into a
simulation of the whole loop by `List.foldlM`.
-/
namespace MalVerif.Py.Tie
open MalVerif.Py MalVerif.Py.Gen MalVerif.AGS MalVerif.AGraph
open MalVerif.Ser (Key)
set_option linter.unusedVariables false
namespace FD

def fdNode' (model : Option PyModel) (e : String × PyDictA) (st : Aux × H) : Except PyErr (ForInStep (Aux × H)) := do
  let mut aux := st.1
  let mut s := st.2
  let node_dict := e.2
  let mut node_asset : (Option PyAssetObj) := none
  if ((model).isSome && (dictIn node_dict "asset")) then
    node_asset := ((← modelOf model).get_asset_by_name (← atomStr (← dictGetE node_dict "asset")))
    let node_asset_1 ← match node_asset with
      | some v => pure v
      | none => throw PyErr.lookupError
  let mut ag_node : NRef := aux.nfresh
  aux := { aux with nfresh := aux.nfresh + 1 }
  s := s.setN ag_node ({ type := (← atomStr (← dictGetE node_dict "type")), name := (← atomStr (← dictGetE node_dict "name")), ttc := (← atomOptDictS (← dictGetE node_dict "ttc")), asset := node_asset } : PyNode)
  match node_asset with
  | some v_2 =>
    if (dictIn aux.asn v_2.id) then
      let mut node_attack_steps : (List NRef) := (← dictGetE aux.asn v_2.id)
      node_attack_steps := (node_attack_steps ++ [ag_node])
      aux := { aux with asn := dictSet aux.asn v_2.id node_attack_steps }
    else
      aux := { aux with asn := dictSet aux.asn v_2.id [ag_node] }
  | none =>
    pure ()
  s := s.setN ag_node { s.n ag_node with defense_status := (← (if (dictIn node_dict "defense_status") then (do pure (some (pyFloatOfStr (← atomStr (← dictGetE node_dict "defense_status"))))) else (do pure none))) }
  s := s.setN ag_node { s.n ag_node with existence_status := (← (if (dictIn node_dict "existence_status") then (do pure (some (atomEqStr (← dictGetE node_dict "existence_status") "True"))) else (do pure none))) }
  s := s.setN ag_node { s.n ag_node with is_viable := (← (if (dictIn node_dict "is_viable") then (do pure (atomEqStr (← dictGetE node_dict "is_viable") "True")) else (do pure true))) }
  s := s.setN ag_node { s.n ag_node with is_necessary := (← (if (dictIn node_dict "is_necessary") then (do pure (atomEqStr (← dictGetE node_dict "is_necessary") "True")) else (do pure true))) }
  s := s.setN ag_node { s.n ag_node with mitre_info := (← (if (dictIn node_dict "mitre_info") then (do pure (some (← atomPyStr (← dictGetE node_dict "mitre_info")))) else (do pure none))) }
  s := s.setN ag_node { s.n ag_node with tags := (← (if (dictIn node_dict "tags") then (do pure (← atomStrs (← dictGetE node_dict "tags"))) else (do pure []))) }
  s := s.setN ag_node { s.n ag_node with extras := (← atomJson (dictGetD node_dict "extras" (PyAtom.idmap []))) }
  s ← graph_add_node s ag_node (← atomOptInt (← dictGetE node_dict "id"))
  pure (ForInStep.yield (aux, s))

def fdLink' (e : String × PyDictA) (s : H) : Except PyErr (ForInStep H) := do
  let mut s := s
  let node_dict := e.2
  let mut _ag_node : (Option NRef) := (graph_get_node_by_id s (← atomInt (← dictGetE node_dict "id")))
  let _ag_node_3 ← match _ag_node with
    | some v => pure v
    | none => throw PyErr.lookupError
  for child_id in (← atomKeys (← dictGetE node_dict "children")) do
    let mut child : (Option NRef) := (graph_get_node_by_id s (← keyInt child_id))
    let child_4 ← match child with
      | some v => pure v
      | none => throw PyErr.lookupError
    s := s.setN _ag_node_3 { s.n _ag_node_3 with children := ((s.n _ag_node_3).children ++ [child_4]) }
  for parent_id in (← atomKeys (← dictGetE node_dict "parents")) do
    let mut parent : (Option NRef) := (graph_get_node_by_id s (← keyInt parent_id))
    let parent_5 ← match parent with
      | some v => pure v
      | none => throw PyErr.lookupError
    s := s.setN _ag_node_3 { s.n _ag_node_3 with parents := ((s.n _ag_node_3).parents ++ [parent_5]) }
  pure (ForInStep.yield s)

def fdAtt' (e : String × PyDictA) (st : Aux × H) : Except PyErr (ForInStep (Aux × H)) := do
  let mut aux := st.1
  let mut s := st.2
  let attacker := e.2
  let mut ag_attacker : ARef := aux.afresh
  aux := { aux with afresh := aux.afresh + 1 }
  s := s.setA ag_attacker ({ name := (← atomStr (← dictGetE attacker "name")), entry_points := [], reached_attack_steps := [] } : PyAttacker)
  s ← graph_add_attacker s ag_attacker (some (← atomToInt (← dictGetE attacker "id"))) (← keysInts (← atomKeys (← dictGetE attacker "entry_points"))) (← ((← atomKeys (← dictGetE attacker "reached_attack_steps"))).mapM (fun node_id => keyInt node_id))
  pure (ForInStep.yield (aux, s))

theorem graph__from_dict_eq' (aux : Aux) (d : PyDoc) (m : Option PyModel) :
    graph__from_dict aux d m = (do
      let steps ← dictGetE d "attack_steps"
      let atts ← dictGetE d "attackers"
      let st1 ← forIn steps (aux, ({} : H)) (fdNode' m)
      let s2 ← forIn steps st1.2 fdLink'
      let st3 ← forIn atts (st1.1, s2) fdAtt'
      pure (st3.2, st3.1)) := by
  rfl

/-- the state of the hand-written model that a loop state (allocation counters, heap) stands for -/
def absX (st : Aux × H) : St := absS st.2 st.1.nfresh st.1.afresh

/-- a `for` loop of the translated code against a `foldlM` of the model: if every iteration is simulated
(normal return ↦ normal return with related states, exception ↦ some exception), so is the loop.
`P` restricts the elements, `I` is an invariant of the loop state. -/
theorem forIn_sim {α σ τ ε : Type} (body : α → σ → Except PyErr (ForInStep σ)) (g : τ → α → Except ε τ)
    (abs : σ → τ) (P : α → Prop) (I : σ → Prop)
    (hok : ∀ x st r, P x → I st → body x st = .ok r → ∃ st', r = .yield st' ∧ I st' ∧ g (abs st) x = .ok (abs st'))
    (herr : ∀ x st e, P x → I st → body x st = .error e → ∃ e', g (abs st) x = .error e')
    (l : List α) (hl : ∀ x ∈ l, P x) (st : σ) (hI : I st) :
    (∀ st', forIn l st body = .ok st' → I st' ∧ l.foldlM g (abs st) = .ok (abs st')) ∧
    (∀ e, forIn l st body = .error e → ∃ e', l.foldlM g (abs st) = .error e') := by
  induction l generalizing st with
  | nil =>
    refine ⟨fun st' h => ?_, fun e h => ?_⟩
    · cases h; exact ⟨hI, rfl⟩
    · cases h
  | cons x l ih =>
    have hx : P x := hl x List.mem_cons_self
    have hl' : ∀ y ∈ l, P y := fun y hy => hl y (List.mem_cons_of_mem _ hy)
    rw [List.forIn_cons, List.foldlM_cons]
    cases hb : body x st with
    | error e =>
      obtain ⟨e', he'⟩ := herr x st e hx hI hb
      refine ⟨fun st' h => ?_, fun e2 _ => ⟨e', ?_⟩⟩
      · cases h
      · rw [he']; rfl
    | ok r =>
      obtain ⟨st1, rfl, hI1, hg⟩ := hok x st r hx hI hb
      rw [hg]
      exact ih hl' st1 hI1
end FD
end MalVerif.Py.Tie
