import MalVerif.Py.AbsGen
import MalVerif.Py.TieAttach
import MalVerif.Py.TieLink
import MalVerif.Py.Gen.Nodes
import MalVerif.Props.C02
/-!
# Tie: the translated first loop of `AttackGraph._generate_graph`  =  `Model/Gen.lean: genNodes`

`graph__generate_graph_nodes` (`Py/Gen/Nodes.lean`, regenerated from the Python on every run) creates, for every
asset of the model and every attack step of its type, an `AttackGraphNode` object (constructor call = allocation
of a fresh reference) and registers it with `add_node`.

* `nodes_eq`: the generated function is a loop of `mkStep` (one node) over the assets and their steps.
* `nodes_tie`: when the hand model's `genNodes L m` returns `ns`, the translated loop — run in the environment
  `genEnvOf L m` from a heap whose graph containers are empty (`FreshGraph`) — returns, for every sufficiently
  large recursion budget of the evaluator, the heap described by `NodesPost`: node `j` of `ns` is the object at
  reference `nfresh + j`, carries exactly the attributes of `ns[j]` (type, name, asset, ttc, tags, mitre, defense
  status, existence status, the resolved step dictionary), id `j`, and is registered under its id and full name;
  nothing else changed.
* `nodes_represents`: from a heap with allocation counter 0 the result `Represents` `ns` (`Py/TieLink.lean`) — the
  hypothesis of `link_tie`.
-/
namespace MalVerif.Py.Tie
open MalVerif MalVerif.Py MalVerif.Py.Gen

/- helper definitions and lemmas of this file live in the sub-namespace `TN` -/
namespace TN
open TG TA

/-! ### the loop body -/

/-- `defense_status` and `existence_status` of a new node (the `match` on the step type) -/
def nodeStatus (env : EvalEnv) (asset : PyAssetObj) (sn : String) (ab : PyAttribs) :
    Except PyErr (Option PyFloat × Option Bool) :=
  if (ab.type == "defense") = true then .ok (env.getattr_asset asset sn, none)
  else if (ab.type == "exist" || ab.type == "notExist") = true then
    (requiresExprs ab.requires).bind fun l => (pyIndex l 0).bind fun e =>
      (_process_step_expression env.evalFuel env [asset] e).bind fun r => .ok (none, some (!r.1.isEmpty))
  else .ok (none, none)

/-- `attack_step_attribs['meta']['mitre'] if 'mitre' in attack_step_attribs['meta'] else None` -/
def mitreOf (ab : PyAttribs) : Option String :=
  if dictHas (some ab.meta_) "mitre" = true then some (dictGetS (some ab.meta_) "mitre") else none

/-- the object `AttackGraphNode(..)` creates, after `ag_node.attributes = attack_step_attribs` -/
def newNode (asset : PyAssetObj) (sn : String) (ab : PyAttribs) (ds : Option PyFloat) (es : Option Bool) : PyNode :=
  { type := ab.type, name := sn, ttc := ab.ttc, asset := some asset, defense_status := ds, existence_status := es,
    mitre_info := mitreOf ab, tags := ab.tags, attributes := some ab }

/-- one iteration of the inner loop: one node -/
def mkStep (env : EvalEnv) (asset : PyAssetObj) (s : H) (x : String × PyAttribs) : Except PyErr H :=
  (nodeStatus env asset x.1 x.2).bind fun st =>
    graph_add_node (s.allocN (newNode asset x.1 x.2 st.1 st.2)).1 s.nfresh none

theorem alloc_setN (s : H) (o o' : PyNode) : (s.allocN o).1.setN s.nfresh o' = (s.allocN o').1 := by
  unfold H.allocN H.setN
  simp only
  congr 1
  funext x
  by_cases hx : x = s.nfresh
  · rw [if_pos hx, if_pos hx]
  · rw [if_neg hx, if_neg hx, if_neg hx]

/-- a loop whose state carries a second component that no iteration reads -/
theorem forIn_fst {α σ τ β : Type} (l : List α) (f : α → σ × τ → Except PyErr (ForInStep (σ × τ)))
    (g : σ → α → Except PyErr σ) (u : α → σ × τ → τ)
    (h : ∀ a st, f a st = (g st.1 a).bind (fun s' => .ok (ForInStep.yield (s', u a st))))
    (k : σ → Except PyErr β) (st : σ × τ) :
    (forIn l st f >>= fun r => k r.1) = (loopE g l st.1).bind k := by
  induction l generalizing st with
  | nil => rfl
  | cons a l ih =>
    rw [List.forIn_cons, loopE_cons, h]
    cases hg : g st.1 a with
    | error e => rfl
    | ok s' => exact ih (s', u a st)

theorem alloc_attr (t : H) (o : PyNode) (ab : PyAttribs) :
    (t.allocN o).1.setN (t.allocN o).2 { (t.allocN o).1.n (t.allocN o).2 with attributes := some ab } =
      (t.allocN { o with attributes := some ab }).1 := by
  rw [allocN_snd, allocN_fst_n, if_pos rfl, alloc_setN]

/-- the body of the inner loop as the translator writes it -/
theorem body_eq (env : EvalEnv) (asset : PyAssetObj) (x : String × PyAttribs) (st : H × List NRef) :
    (match x with
      | (attack_step_name, attack_step_attribs) =>
        have __do_jp := fun (__r : Unit) (defense_status : Option PyFloat) (existence_status : Option Bool) =>
          have mitre_info :=
            if dictHas (some attack_step_attribs.meta_) "mitre" = true then
              some (dictGetS (some attack_step_attribs.meta_) "mitre")
            else none;
          have r_3 :=
            st.1.allocN
              { type := attack_step_attribs.type, name := attack_step_name, ttc := attack_step_attribs.ttc,
                asset := some asset, defense_status := defense_status, existence_status := existence_status,
                mitre_info := mitre_info, tags := attack_step_attribs.tags };
          have s := r_3.fst;
          have ag_node := r_3.snd;
          have s := s.setN ag_node { s.n ag_node with attributes := some attack_step_attribs };
          (do
            let s ← graph_add_node s ag_node none
            pure (ForInStep.yield (s, st.2 ++ [ag_node])) : Except PyErr (ForInStep (H × List NRef)));
        if (attack_step_attribs.type == "defense") = true then
          __do_jp () (env.getattr_asset asset attack_step_name) none
        else
          if (attack_step_attribs.type == "exist" || attack_step_attribs.type == "notExist") = true then do
            let __do_lift ← requiresExprs attack_step_attribs.requires
            let __do_lift ← pyIndex __do_lift 0
            let __do_lift ← _process_step_expression env.evalFuel env [asset] __do_lift
            __do_jp () none (some !__do_lift.fst.isEmpty)
          else __do_jp () none none) =
      (mkStep env asset st.1 x).bind (fun s' => .ok (ForInStep.yield (s', st.2 ++ [st.1.nfresh]))) := by
  obtain ⟨sn, ab⟩ := x
  obtain ⟨t, l⟩ := st
  unfold mkStep nodeStatus
  dsimp only
  simp only [alloc_attr]
  by_cases h1 : (ab.type == "defense") = true
  · rw [if_pos h1, if_pos h1]; rfl
  · rw [if_neg h1, if_neg h1]
    by_cases h2 : (ab.type == "exist" || ab.type == "notExist") = true
    · rw [if_pos h2, if_pos h2]
      show (requiresExprs ab.requires >>= fun l => _) = _
      cases requiresExprs ab.requires with
      | error e => rfl
      | ok es =>
        simp only [TG.ok_bind]
        show (pyIndex es 0 >>= fun l => _) = _
        cases pyIndex es 0 with
        | error e => rfl
        | ok e =>
          simp only [TG.ok_bind]
          show (_process_step_expression env.evalFuel env [asset] e >>= fun l => _) = _
          cases _process_step_expression env.evalFuel env [asset] e with
          | error e => rfl
          | ok r => rfl
    · rw [if_neg h2, if_neg h2]; rfl

theorem nodes_eq (s : H) (env : EvalEnv) :
    graph__generate_graph_nodes s env =
      loopE (fun s asset => loopE (mkStep env asset) (env._get_attacks_for_asset_type asset.type) s) env.assets s := by
  unfold graph__generate_graph_nodes
  show (forIn env.assets s _ >>= fun __s => pure __s) = _
  rw [bind_pure]
  unfold loopE
  congr 1
  funext asset t
  exact forIn_fst (env._get_attacks_for_asset_type asset.type) _ (mkStep env asset)
    (fun x st => st.2 ++ [st.1.nfresh]) (fun x st => body_eq env asset x st)
    (fun s' => Except.pure (ForInStep.yield s')) (t, [])

/-! ### the loops over assets and steps are one loop over the (asset, step) pairs -/

theorem loopE_append {α σ : Type} (f : σ → α → Except PyErr σ) (l1 l2 : List α) (s : σ) :
    loopE f (l1 ++ l2) s = (loopE f l1 s).bind (loopE f l2) := by
  induction l1 generalizing s with
  | nil => rfl
  | cons x l1 ih =>
    rw [List.cons_append, loopE_cons, loopE_cons]
    cases f s x with
    | error e => rfl
    | ok s1 => exact ih s1

theorem loopE_map {α β σ : Type} (f : σ → β → Except PyErr σ) (g : α → β) (l : List α) (s : σ) :
    loopE f (l.map g) s = loopE (fun s a => f s (g a)) l s := by
  induction l generalizing s with
  | nil => rfl
  | cons x l ih =>
    rw [List.map_cons, loopE_cons, loopE_cons]
    cases f s (g x) with
    | error e => rfl
    | ok s1 => exact ih s1

theorem loopE_flatMap {α β σ : Type} (g : α → σ → β → Except PyErr σ) (f : α → List β) (l : List α) (s : σ) :
    loopE (fun s a => loopE (g a) (f a) s) l s =
      loopE (fun s (p : α × β) => g p.1 s p.2) (l.flatMap (fun a => (f a).map (fun b => (a, b)))) s := by
  induction l generalizing s with
  | nil => rfl
  | cons a l ih =>
    rw [loopE_cons, List.flatMap_cons, loopE_append, loopE_map]
    cases loopE (g a) (f a) s with
    | error e => rfl
    | ok s1 => exact ih s1

/-- one (asset, step) pair of the hand model, in the environment `env` -/
def stepOf (env : EvalEnv) (s : H) (p : IAsset × String × StepDecl) : Except PyErr H :=
  mkStep env (assetObj p.1) s (p.2.1, attribsOf p.2.2)

theorem nodes_genEnv (L : Lang) (m : Inst) (atts : List PyAttackerInfo) (fuel : Nat) (s : H) :
    graph__generate_graph_nodes s (genEnvOf L m atts fuel) =
      loopE (stepOf (genEnvOf L m atts fuel)) (nodeSpecs L m) s := by
  rw [nodes_eq]
  show loopE (fun s asset => loopE (mkStep (genEnvOf L m atts fuel) asset)
    ((L.foldSteps asset.type).map (fun e => (e.1, attribsOf e.2))) s) (m.assets.map assetObj) s = _
  rw [loopE_map]
  have : (fun (s : H) (a : IAsset) => loopE (mkStep (genEnvOf L m atts fuel) (assetObj a))
      ((L.foldSteps (assetObj a).type).map (fun e => (e.1, attribsOf e.2))) s) =
      (fun s a => loopE (fun s (e : String × StepDecl) => stepOf (genEnvOf L m atts fuel) s (a, e.1, e.2))
        (L.foldSteps a.type) s) := by
    funext s a
    rw [loopE_map]
    rfl
  rw [this, loopE_flatMap (fun a s (e : String × StepDecl) => stepOf (genEnvOf L m atts fuel) s (a, e.1, e.2))
    (fun a => L.foldSteps a.type)]
  unfold nodeSpecs
  rfl

/-! ### one pair against `mkNode` of the hand model -/

/-- the evaluator reads only the four methods and `whileFuel` of its environment -/
theorem eval_env_irrel (env env' : EvalEnv)
    (h1 : env'.get_associated_assets_by_field_name = env.get_associated_assets_by_field_name)
    (h2 : env'._get_variable_for_asset_type_by_name = env._get_variable_for_asset_type_by_name)
    (h3 : env'.get_asset_by_name = env.get_asset_by_name) (h4 : env'.is_subasset_of = env.is_subasset_of)
    (h5 : env'.whileFuel = env.whileFuel) : ∀ fuel ts e,
    _process_step_expression fuel env' ts e = _process_step_expression fuel env ts e := by
  intro fuel
  induction fuel with
  | zero => intro ts e; rfl
  | succ n ih =>
    intro ts e
    rw [_process_step_expression, _process_step_expression]
    simp only [ih, h1, h2, h3, h4, h5]

theorem eval_genEnv (L : Lang) (m : Inst) (atts : List PyAttackerInfo) (k fuel : Nat) (ts : List PyAssetObj)
    (e : PyExpr) :
    _process_step_expression fuel (genEnvOf L m atts k) ts e = _process_step_expression fuel (envOf L m) ts e :=
  eval_env_irrel (envOf L m) (genEnvOf L m atts k) rfl rfl rfl rfl rfl fuel ts e

/-- what is known about a pair of `nodeSpecs` of a model with distinct asset ids -/
def SpecOK (L : Lang) (m : Inst) (p : IAsset × String × StepDecl) : Prop :=
  m.find p.1.id = some p.1 ∧ (L.foldSteps p.1.type).find? (fun e => e.1 = p.2.1) = some (p.2.1, p.2.2)

theorem find_of_nodup_key {α κ : Type} [DecidableEq κ] (key : α → κ) (l : List α) (hnd : (l.map key).Nodup)
    (x : α) (hx : x ∈ l) : l.find? (fun y => key y = key x) = some x := by
  induction l with
  | nil => cases hx
  | cons c l ih =>
    rw [List.map_cons, List.nodup_cons] at hnd
    rw [List.find?_cons]
    rcases List.mem_cons.1 hx with e | hx'
    · subst e; simp
    · have : ¬ key c = key x := fun e => hnd.1 (e ▸ List.mem_map.2 ⟨x, hx', rfl⟩)
      simp only [this, decide_false]
      exact ih hnd.2 hx'

theorem specOK_of_mem (L : Lang) (m : Inst) (hid : (m.assets.map (·.id)).Nodup)
    (p : IAsset × String × StepDecl) (hp : p ∈ nodeSpecs L m) : SpecOK L m p := by
  obtain ⟨a, ha, e, he, rfl⟩ := mem_nodeSpecs.1 hp
  refine ⟨find_of_nodup_key (fun x : IAsset => x.id) m.assets hid a ha, ?_⟩
  have := find_of_nodup_key (fun e : String × StepDecl => e.1) (L.foldSteps a.type)
    (foldSteps_keys_nodup L a.type) e he
  exact this

/-- the value of `getattr(asset, sn)` recorded in the model (or the default of the defense) -/
def defenseText (a : IAsset) (sn : String) (d : StepDecl) : String :=
  ((a.defenses.find? (·.1 = sn)).map (·.2)).getD (defaultDefense d)

/-- the object the first loop creates for the pair `(a, sn, d)`; `ex` is the existence status -/
def pyNodeOf (a : IAsset) (sn : String) (d : StepDecl) (ex : Option Bool) : PyNode :=
  { type := d.type, name := sn, ttc := ttcDict d.ttc d.ttcName, asset := some (assetObj a),
    defense_status := if d.type = "defense" then some (floatOf (defenseText a sn d)) else none,
    existence_status := ex, mitre_info := d.mitre, tags := d.tags, attributes := some (attribsOf d) }

theorem mitreOf_attribsOf (d : StepDecl) : mitreOf (attribsOf d) = d.mitre := by
  unfold mitreOf attribsOf metaDict dictHas dictGetS
  cases d.mitre with
  | none => simp
  | some x => simp

/-- the heap after `ag_node = AttackGraphNode(..); ..; self.add_node(ag_node)` when the next id is free -/
def regNode (s : H) (o : PyNode) : H := anSt (s.allocN o).1 s.nfresh s.next_node_id

/-- every id registered is below the next id -/
def IdsBelow (s : H) : Prop := ∀ e ∈ s._id_to_node, e.1 < s.next_node_id

theorem idsBelow_free (s : H) (h : IdsBelow s) : dictIn s._id_to_node s.next_node_id = false := by
  unfold dictIn
  rw [Bool.eq_false_iff]
  intro hany
  obtain ⟨e, he, hk⟩ := List.any_eq_true.1 hany
  have := h e he
  have hk' : e.1 = s.next_node_id := by simpa using hk
  rw [hk'] at this
  exact Int.lt_irrefl _ this

/-- `o`: what the constructor call gave — in particular no `id` yet, so the guard of `add_node` against an object
that is already part of the graph does not fire -/
theorem add_node_fresh (s : H) (o : PyNode) (h : IdsBelow s) (hid : o.id = none) :
    graph_add_node (s.allocN o).1 s.nfresh none = .ok (regNode s o) := by
  rw [graph_add_node_eq]
  have hp : nodeIsPart (s.allocN o).1 s.nfresh = false :=
    nodeIsPart_of_id_none _ _ (by
      show (if s.nfresh = s.nfresh then o else s.n s.nfresh).id = none
      rw [if_pos rfl]; exact hid)
  have : dictIn (s.allocN o).1._id_to_node (anKey (s.allocN o).1 none) = false := idsBelow_free s h
  rw [hp, this]
  rfl

theorem stepOf_ok (L : Lang) (m : Inst) (atts : List PyAttackerInfo) (a : IAsset) (sn : String) (d : StepDecl)
    (ex : Option Bool) (hsp : SpecOK L m (a, sn, d)) (hex : existStatus L m a d = .ok ex) :
    ∃ N, ∀ fuel, N ≤ fuel → ∀ s : H, IdsBelow s →
      stepOf (genEnvOf L m atts fuel) s (a, sn, d) = .ok (regNode s (pyNodeOf a sn d ex)) := by
  have hobj : objOf m a.id = assetObj a := by
    unfold objOf assetObj Inst.typeOf
    rw [hsp.1]; rfl
  -- the status pair
  have hst : ∃ N, ∀ fuel, N ≤ fuel →
      nodeStatus (genEnvOf L m atts fuel) (assetObj a) sn (attribsOf d) =
        .ok (if d.type = "defense" then some (floatOf (defenseText a sn d)) else none, ex) := by
    unfold existStatus at hex
    unfold nodeStatus
    by_cases h1 : d.type = "defense"
    · have h1' : ((attribsOf d).type == "defense") = true := by
        show (d.type == "defense") = true
        rw [h1]; rfl
      have hne : ¬ (d.type = "exist" || d.type = "notExist") = true := by rw [h1]; decide
      rw [if_neg hne] at hex
      cases hex
      refine ⟨0, fun fuel _ => ?_⟩
      rw [if_pos h1', if_pos h1]
      show Except.ok (defenseValue L m (assetObj a) sn, none) = _
      unfold defenseValue
      have e1 : m.find (assetObj a).id = some a := hsp.1
      have e2 : (L.foldSteps (assetObj a).type).find? (fun e => e.1 = sn) = some (sn, d) := hsp.2
      rw [e1, e2]
      rfl
    · have h1' : ¬ ((attribsOf d).type == "defense") = true := by
        show ¬ (d.type == "defense") = true
        simpa using h1
      by_cases h2 : (d.type = "exist" || d.type = "notExist") = true
      · have h2' : ((attribsOf d).type == "exist" || (attribsOf d).type == "notExist") = true := by
          show (d.type == "exist" || d.type == "notExist") = true
          simpa using h2
        rw [if_pos h2] at hex
        cases hreq : d.requires with
        | none => rw [hreq] at hex; cases hex
        | some es =>
          cases es with
          | nil => rw [hreq] at hex; cases hex
          | cons e rest =>
            rw [hreq] at hex
            obtain ⟨r, hr, hrx⟩ := er_map_ok _ _ _ hex
            obtain ⟨N, hN⟩ := eval_tie L m L.varFuel e [a.id] r hr
            refine ⟨N, fun fuel hf => ?_⟩
            rw [if_neg h1', if_pos h2', if_neg h1]
            have q1 : requiresExprs (attribsOf d).requires = .ok ((e :: rest).map exprOf) := by
              show requiresExprs (d.requires.map _) = _
              rw [hreq]; rfl
            have q2 : pyIndex ((e :: rest).map exprOf) 0 = .ok (exprOf e) := rfl
            have q3 : _process_step_expression (genEnvOf L m atts fuel).evalFuel (genEnvOf L m atts fuel)
                [assetObj a] (exprOf e) = .ok (r.1.map (objOf m), r.2) := by
              show _process_step_expression fuel (genEnvOf L m atts fuel) [assetObj a] (exprOf e) = _
              rw [eval_genEnv, ← hobj]
              exact hN fuel hf
            rw [q1, TG.ok_bind, q2, TG.ok_bind, q3, TG.ok_bind, ← hrx]
            simp
      · have h2' : ¬ ((attribsOf d).type == "exist" || (attribsOf d).type == "notExist") = true := by
          show ¬ (d.type == "exist" || d.type == "notExist") = true
          simpa using h2
        rw [if_neg h2] at hex
        cases hex
        refine ⟨0, fun fuel _ => ?_⟩
        rw [if_neg h1', if_neg h2', if_neg h1]
  obtain ⟨N, hN⟩ := hst
  refine ⟨N, fun fuel hf s hs => ?_⟩
  unfold stepOf mkStep
  rw [hN fuel hf, TG.ok_bind]
  have : newNode (assetObj a) sn (attribsOf d)
      (if d.type = "defense" then some (floatOf (defenseText a sn d)) else none) ex = pyNodeOf a sn d ex := by
    unfold newNode pyNodeOf
    rw [mitreOf_attribsOf]
    rfl
  show graph_add_node (s.allocN (newNode (assetObj a) sn (attribsOf d) _ ex)).1 s.nfresh none = _
  rw [this]
  exact add_node_fresh s _ hs rfl

/-! ### what `regNode` does to the heap -/

theorem mem_dictSet {κ ν : Type} [BEq κ] [LawfulBEq κ] (d : List (κ × ν)) (k : κ) (v : ν) (e : κ × ν)
    (he : e ∈ dictSet d k v) : e ∈ d ∨ e.1 = k := by
  unfold dictSet at he
  split at he
  · obtain ⟨e', he', rfl⟩ := List.mem_map.1 he
    by_cases hk : (e'.1 == k) = true
    · rw [if_pos hk]; exact Or.inr rfl
    · rw [if_neg hk]; exact Or.inl he'
  · rcases List.mem_append.1 he with h | h
    · exact Or.inl h
    · rw [List.mem_singleton] at h; rw [h]; exact Or.inr rfl

theorem regNode_fields (s : H) (o : PyNode) :
    (regNode s o).nodes = s.nodes ++ [s.nfresh] ∧ (regNode s o).nfresh = s.nfresh + 1 ∧
    (regNode s o).next_node_id = s.next_node_id + 1 ∧
    (regNode s o)._id_to_node = dictSet s._id_to_node s.next_node_id s.nfresh ∧
    (∀ x, (regNode s o).n x = if x = s.nfresh then { o with id := some s.next_node_id } else s.n x) ∧
    (regNode s o).a = s.a ∧ (regNode s o).attackers = s.attackers ∧
    (regNode s o)._id_to_attacker = s._id_to_attacker ∧ (regNode s o).next_attacker_id = s.next_attacker_id ∧
    (regNode s o).afresh = s.afresh := by
  have hn : ∀ x, (regNode s o).n x = if x = s.nfresh then { o with id := some s.next_node_id } else s.n x := by
    intro x
    show (if x = s.nfresh then { ((s.allocN o).1.n s.nfresh) with id := some s.next_node_id }
      else (s.allocN o).1.n x) = _
    by_cases hx : x = s.nfresh
    · rw [if_pos hx, if_pos hx, allocN_fst_n, if_pos rfl]
    · rw [if_neg hx, if_neg hx, allocN_fst_n, if_neg hx]
  have hid : optIntGet ((regNode s o).n s.nfresh).id = s.next_node_id := by rw [hn, if_pos rfl]; rfl
  refine ⟨rfl, rfl, ?_, ?_, hn, rfl, rfl, rfl, rfl, rfl⟩
  · show max (optIntGet ((regNode s o).n s.nfresh).id + 1) s.next_node_id = _
    rw [hid]
    exact Int.max_eq_left (Int.le_add_of_nonneg_right (by decide))
  · show dictSet s._id_to_node (optIntGet ((regNode s o).n s.nfresh).id) s.nfresh = _
    rw [hid]

theorem full_name_of_asset (t : H) (r : NRef) (a : PyAssetObj) (h : (t.n r).asset = some a) :
    node_full_name t r = a.name ++ ":" ++ (t.n r).name := by
  unfold node_full_name
  simp only [Id.run, pure]
  rw [h]

theorem regNode_name (s : H) (o : PyNode) (a : PyAssetObj) (ha : o.asset = some a) :
    (regNode s o)._full_name_to_node = dictSet s._full_name_to_node (a.name ++ ":" ++ o.name) s.nfresh := by
  have hT : ∀ T : H, T.n = (regNode s o).n → node_full_name T s.nfresh = a.name ++ ":" ++ o.name := by
    intro T hT
    have hn : T.n s.nfresh = { o with id := some s.next_node_id } := by
      rw [hT, (regNode_fields s o).2.2.2.2.1, if_pos rfl]
    rw [full_name_of_asset T s.nfresh a (by rw [hn]; exact ha), hn]
  show dictSet s._full_name_to_node (node_full_name _ s.nfresh) s.nfresh = _
  congr 1
  exact hT _ rfl

theorem regNode_idsBelow (s : H) (o : PyNode) (h : IdsBelow s) : IdsBelow (regNode s o) := by
  intro e he
  rw [(regNode_fields s o).2.2.2.1] at he
  rw [(regNode_fields s o).2.2.1]
  rcases mem_dictSet _ _ _ e he with h1 | h1
  · exact Int.lt_trans (h e h1) (Int.lt_succ _)
  · rw [h1]; exact Int.lt_succ _

/-! ### the whole loop -/

/-- the heap after registering the objects of the pairs `specs` with the existence statuses of `ns` -/
def regSpecs : H → List (IAsset × String × StepDecl) → List GNode → H
  | s, p :: ps, n :: ns => regSpecs (regNode s (pyNodeOf p.1 p.2.1 p.2.2 n.exist)) ps ns
  | s, _, _ => s

theorem genNodesFrom_cons {L : Lang} {m : Inst} {i : Nat} {p : IAsset × String × StepDecl}
    {ps : List (IAsset × String × StepDecl)} {ns : List GNode} (h : genNodesFrom L m i (p :: ps) = .ok ns) :
    ∃ n ns', ns = n :: ns' ∧ mkNode L m i p.1 p.2.1 p.2.2 = .ok n ∧ genNodesFrom L m (i + 1) ps = .ok ns' := by
  obtain ⟨a, sn, d⟩ := p
  unfold genNodesFrom at h
  obtain ⟨n, hn, h⟩ := er_bind_ok _ _ _ h
  obtain ⟨ns', hns, h⟩ := er_bind_ok _ _ _ h
  cases h
  exact ⟨n, ns', rfl, hn, hns⟩

theorem loop_ok (L : Lang) (m : Inst) (atts : List PyAttackerInfo) :
    ∀ (specs : List (IAsset × String × StepDecl)) (i : Nat) (ns : List GNode),
      genNodesFrom L m i specs = .ok ns → (∀ p ∈ specs, SpecOK L m p) →
      ∃ N, ∀ fuel, N ≤ fuel → ∀ s : H, IdsBelow s →
        loopE (stepOf (genEnvOf L m atts fuel)) specs s = .ok (regSpecs s specs ns) := by
  intro specs
  induction specs with
  | nil =>
    intro i ns h _
    refine ⟨0, fun fuel _ s _ => ?_⟩
    cases ns <;> rfl
  | cons p ps ih =>
    intro i ns h hsp
    obtain ⟨n, ns', rfl, hn, hns⟩ := genNodesFrom_cons h
    obtain ⟨a, sn, d⟩ := p
    obtain ⟨N1, hN1⟩ := stepOf_ok L m atts a sn d n.exist (hsp _ List.mem_cons_self) (mkNode_ok hn).1
    obtain ⟨N2, hN2⟩ := ih (i + 1) ns' hns (fun q hq => hsp q (List.mem_cons_of_mem _ hq))
    refine ⟨max N1 N2, fun fuel hf s hs => ?_⟩
    rw [loopE_cons, hN1 fuel (by omega) s hs, TG.ok_bind]
    exact hN2 fuel (by omega) _ (regNode_idsBelow s _ hs)

/-- the heap `s'` after the first loop, run from `s` (next id `i`, next reference `k + i`) on the pairs `specs`
with result `ns` of the hand model: node `n` of `ns` is the object at reference `k + n.id` -/
structure Post (k : Nat) (specs : List (IAsset × String × StepDecl)) (ns : List GNode) (s s' : H) : Prop where
  nodes : s'.nodes = s.nodes ++ ns.map (fun n => k + n.id)
  nfresh : s'.nfresh = s.nfresh + ns.length
  nextId : s'.next_node_id = s.next_node_id + ns.length
  names : s'._full_name_to_node = ns.foldl (fun d n => dictSet d n.fullName (k + n.id)) s._full_name_to_node
  ids : s'._id_to_node = ns.foldl (fun d n => dictSet d (Int.ofNat n.id) (k + n.id)) s._id_to_node
  objs : ∀ j (h1 : j < specs.length) (h2 : j < ns.length),
    s'.n (s.nfresh + j) = { pyNodeOf specs[j].1 specs[j].2.1 specs[j].2.2 ns[j].exist with
                            id := some (s.next_node_id + j) }
  frame : ∀ r, r < s.nfresh ∨ s.nfresh + ns.length ≤ r → s'.n r = s.n r
  rest : s'.a = s.a ∧ s'.attackers = s.attackers ∧ s'._id_to_attacker = s._id_to_attacker ∧
    s'.next_attacker_id = s.next_attacker_id ∧ s'.afresh = s.afresh

theorem regSpecs_post (L : Lang) (m : Inst) :
    ∀ (specs : List (IAsset × String × StepDecl)) (i : Nat) (ns : List GNode),
      genNodesFrom L m i specs = .ok ns → ∀ (s : H) (k : Nat), s.next_node_id = Int.ofNat i → s.nfresh = k + i →
        Post k specs ns s (regSpecs s specs ns) := by
  intro specs
  induction specs with
  | nil =>
    intro i ns h s k _ _
    cases h
    exact ⟨by simp [regSpecs], rfl, by simp [regSpecs], rfl, rfl, fun j h1 _ => absurd h1 (Nat.not_lt_zero j),
      fun _ _ => rfl, rfl, rfl, rfl, rfl, rfl⟩
  | cons p ps ih =>
    intro i ns h s k hi hk
    obtain ⟨n, ns', rfl, hn, hns⟩ := genNodesFrom_cons h
    obtain ⟨a, sn, d⟩ := p
    have hnv := (mkNode_ok hn).2
    have hnid : n.id = i := by rw [hnv]
    have hnfn : n.fullName = a.name ++ ":" ++ sn := by rw [hnv]; rfl
    obtain ⟨f1, f2, f3, f4, f5, f6, f7, f8, f9, f10⟩ := regNode_fields s (pyNodeOf a sn d n.exist)
    have fn := regNode_name s (pyNodeOf a sn d n.exist) (assetObj a) rfl
    have hs1 : (regNode s (pyNodeOf a sn d n.exist)).next_node_id = Int.ofNat (i + 1) := by rw [f3, hi]; rfl
    have hk1 : (regNode s (pyNodeOf a sn d n.exist)).nfresh = k + (i + 1) := by rw [f2, hk]; rfl
    have P := ih (i + 1) ns' hns _ k hs1 hk1
    show Post k ((a, sn, d) :: ps) (n :: ns') s (regSpecs (regNode s (pyNodeOf a sn d n.exist)) ps ns')
    have href : s.nfresh = k + n.id := by rw [hnid, hk]
    refine ⟨?_, ?_, ?_, ?_, ?_, ?_, ?_, ?_⟩
    · rw [P.nodes, f1, List.map_cons, List.append_assoc, href]; rfl
    · rw [P.nfresh, f2, List.length_cons]; omega
    · rw [P.nextId, f3, List.length_cons]; omega
    · rw [P.names, fn, List.foldl_cons, hnfn, href]; rfl
    · rw [P.ids, f4, List.foldl_cons, hi, hnid, href, hnid]
    · intro j h1 h2
      cases j with
      | zero =>
        rw [Nat.add_zero, P.frame _ (Or.inl (by rw [f2]; exact Nat.lt_succ_self _)), f5, if_pos rfl]
        simp
      | succ j =>
        have := P.objs j (Nat.lt_of_succ_lt_succ h1) (Nat.lt_of_succ_lt_succ h2)
        rw [f2, f3] at this
        rw [show s.nfresh + (j + 1) = s.nfresh + 1 + j by omega, this]
        simp only [List.getElem_cons_succ]
        congr 2
        omega
    · intro r hr
      rw [List.length_cons] at hr
      have h1 : r < s.nfresh + 1 ∨ s.nfresh + 1 + ns'.length ≤ r := by omega
      have h2 : ¬ r = s.nfresh := by omega
      rw [P.frame r (by rw [f2]; exact h1), f5, if_neg h2]
    · obtain ⟨r1, r2, r3, r4, r5⟩ := P.rest
      exact ⟨r1.trans f6, r2.trans f7, r3.trans f8, r4.trans f9, r5.trans f10⟩

end TN
open TN

/-- the graph containers that the first loop fills are empty: the state `__init__` / `regenerate_graph` set up -/
structure FreshGraph (s : H) : Prop where
  nodes : s.nodes = []
  ids : s._id_to_node = []
  names : s._full_name_to_node = []
  nextId : s.next_node_id = 0

/-- the heap after the first loop: the objects of the pairs `nodeSpecs L m`, registered one after the other -/
def nodesHeap (L : Lang) (m : Inst) (ns : List GNode) (s : H) : H := regSpecs s (nodeSpecs L m) ns

/-- **the translated first loop creates exactly the nodes of the model** (`TN.Post`: node `n` of `ns` is the
object at reference `s.nfresh + n.id`, with the attributes of `TN.pyNodeOf`, registered under its id and full
name; everything else is unchanged) -/
theorem nodes_tie (L : Lang) (m : Inst) (atts : List PyAttackerInfo) (hid : (m.assets.map (·.id)).Nodup)
    (ns : List GNode) (h : genNodes L m = .ok ns) :
    ∃ F, ∀ fuel, F ≤ fuel → ∀ s : H, FreshGraph s →
      graph__generate_graph_nodes s (genEnvOf L m atts fuel) = .ok (nodesHeap L m ns s) ∧
        Post s.nfresh (nodeSpecs L m) ns s (nodesHeap L m ns s) := by
  obtain ⟨F, hF⟩ := loop_ok L m atts (nodeSpecs L m) 0 ns h (fun p hp => specOK_of_mem L m hid p hp)
  refine ⟨F, fun fuel hf s hs => ⟨?_, ?_⟩⟩
  · rw [nodes_genEnv]
    exact hF fuel hf s (by intro e he; rw [hs.ids] at he; cases he)
  · exact regSpecs_post L m (nodeSpecs L m) 0 ns h s s.nfresh hs.nextId rfl

namespace TN

/-- the `j`-th node of the hand model against the `j`-th pair -/
theorem node_at (L : Lang) (m : Inst) (ns : List GNode) (h : genNodes L m = .ok ns) (j : Nat)
    (h1 : j < (nodeSpecs L m).length) (h2 : j < ns.length) :
    ns[j].id = j ∧ ns[j].asset = (nodeSpecs L m)[j].1.id ∧ ns[j].assetName = (nodeSpecs L m)[j].1.name ∧
    ns[j].step = (nodeSpecs L m)[j].2.1 ∧
    ns[j].reaches = (match (nodeSpecs L m)[j].2.2.reaches with | some r => r.exprs | none => []) := by
  have := (genNodesFrom_spec L m _ 0 ns h).2 j h1 h2
  rw [Nat.zero_add] at this
  have hv := (mkNode_ok this).2
  refine ⟨?_, ?_, ?_, ?_, ?_⟩ <;> rw [hv] <;> rfl

theorem mem_getElem {α : Type} {l : List α} {x : α} (h : x ∈ l) : ∃ j, ∃ hj : j < l.length, l[j] = x :=
  List.getElem_of_mem h

end TN

/-- **the heap after the translated first loop `Represents` the node list of the hand model** — the hypothesis of
`link_tie`: started from a heap without allocated objects (allocation counter 0, no object linked) whose graph
containers are empty -/
theorem nodes_represents (L : Lang) (m : Inst) (atts : List PyAttackerInfo) (hid : (m.assets.map (·.id)).Nodup)
    (ns : List GNode) (h : genNodes L m = .ok ns) :
    ∃ F, ∀ fuel, F ≤ fuel → ∀ s : H, FreshGraph s → s.nfresh = 0 →
      (∀ r, (s.n r).children = [] ∧ (s.n r).parents = []) →
      graph__generate_graph_nodes s (genEnvOf L m atts fuel) = .ok (nodesHeap L m ns s) ∧
        Represents L m ns (nodesHeap L m ns s) ∧ Post 0 (nodeSpecs L m) ns s (nodesHeap L m ns s) := by
  obtain ⟨F, hF⟩ := nodes_tie L m atts hid ns h
  refine ⟨F, fun fuel hf s hs h0 hblank => ?_⟩
  obtain ⟨hs', P⟩ := hF fuel hf s hs
  rw [h0] at P
  refine ⟨hs', ?_, P⟩
  generalize nodesHeap L m ns s = s' at hs' P
  have hlen : ns.length = (nodeSpecs L m).length := MalVerif.C02.length_eq L m ns h
  have hobj : ∀ j (h2 : j < ns.length), s'.n j =
      { pyNodeOf (nodeSpecs L m)[j].1 (nodeSpecs L m)[j].2.1 (nodeSpecs L m)[j].2.2 ns[j].exist with
        id := some (s.next_node_id + j) } := by
    intro j h2
    have := P.objs j (hlen ▸ h2) h2
    rw [h0, Nat.zero_add] at this
    exact this
  -- every node of `ns` sits at its position
  have hpos : ∀ n ∈ ns, ∃ j, ∃ h2 : j < ns.length, ns[j] = n ∧ n.id = j := by
    intro n hn
    obtain ⟨j, hj, e⟩ := mem_getElem hn
    exact ⟨j, hj, e, e ▸ (node_at L m ns h j (hlen ▸ hj) hj).1⟩
  refine ⟨?_, MalVerif.C02.ids_nodup L m ns h, ?_, ?_, ?_, ?_, ?_⟩
  · rw [P.nodes, hs.nodes, List.nil_append]
    congr 1
    funext n
    exact Nat.zero_add _
  · intro n hn
    obtain ⟨j, h2, e, hj⟩ := hpos n hn
    rw [hj, hobj j h2]
    show some (assetObj (nodeSpecs L m)[j].1) = _
    have hsp := specOK_of_mem L m hid _ (List.getElem_mem (hlen ▸ h2))
    have : n.asset = (nodeSpecs L m)[j].1.id := e ▸ (node_at L m ns h j (hlen ▸ h2) h2).2.1
    rw [this]
    unfold objOf assetObj Inst.typeOf
    rw [hsp.1]; rfl
  · intro n hn
    obtain ⟨j, h2, e, hj⟩ := hpos n hn
    rw [hj, hobj j h2]
    have : n.reaches = _ := e ▸ (node_at L m ns h j (hlen ▸ h2) h2).2.2.2.2
    rw [this]
    show reachesExprs (((nodeSpecs L m)[j].2.2.reaches).map _) = _
    cases (nodeSpecs L m)[j].2.2.reaches <;> rfl
  · intro n hn hne
    obtain ⟨j, h2, e, hj⟩ := hpos n hn
    rw [hj, hobj j h2]
    have : n.reaches = _ := e ▸ (node_at L m ns h j (hlen ▸ h2) h2).2.2.2.2
    rw [this] at hne
    show (some (attribsOf (nodeSpecs L m)[j].2.2)).isSome = true ∧
      (((nodeSpecs L m)[j].2.2.reaches).map _).isSome = true
    cases hr : (nodeSpecs L m)[j].2.2.reaches with
    | none => rw [hr] at hne; exact absurd rfl hne
    | some r => exact ⟨rfl, rfl⟩
  · intro r
    by_cases hr : r < ns.length
    · rw [hobj r hr]; exact ⟨rfl, rfl⟩
    · rw [P.frame r (Or.inr (by rw [h0, Nat.zero_add]; exact Nat.le_of_not_lt hr))]; exact hblank r
  · intro k
    show dictGet s'._full_name_to_node k = _
    rw [P.names, hs.names]
    have : (fun (d : List (String × Nat)) (n : GNode) => dictSet d n.fullName (0 + n.id)) =
        (fun d n => dictSet d n.fullName n.id) := by
      funext d n; rw [Nat.zero_add]
    rw [this, foldl_dictSet_get]
    cases (nameIndex ns k).map (·.id) <;> rfl
/-! ### reading the post-condition: node list, lookups -/
namespace TN
open MalVerif.AGS TG

theorem dictGet_foldl_dictSet {α κ : Type} [DecidableEq κ] (l : List α) (key : α → κ) (val : α → Nat)
    (d0 : List (κ × Nat)) (q : κ) :
    dictGet (l.foldl (fun d x => dictSet d (key x) (val x)) d0) q =
      ((l.reverse.find? (fun x => key x = q)).map val).or (dictGet d0 q) := by
  induction l generalizing d0 with
  | nil => rfl
  | cons x l ih =>
    rw [List.foldl_cons, ih, List.reverse_cons, List.find?_append, dictGet_eq_dget, dictSet_eq_dset, dget_dset,
      dictGet_eq_dget]
    cases List.find? (fun x => decide (key x = q)) l.reverse with
    | some t => rfl
    | none =>
      by_cases h : key x = q
      · simp [h]
      · have h' : ¬ q = key x := fun e => h e.symm
        simp [h, h']

/-- ids are positions: the references of the new nodes are consecutive -/
theorem post_nodes (L : Lang) (m : Inst) (ns : List GNode) (h : genNodes L m = .ok ns) (k : Nat) :
    ns.map (fun n => k + n.id) = List.range' k ns.length := by
  have hid := (MalVerif.C02.nodes_eq_spec L m ns h).2
  apply List.ext_getElem (by simp)
  intro j h1 h2
  simp only [List.length_map] at h1
  have := congrArg (fun l => l[j]?) hid
  simp [h1] at this
  simp [this]

theorem post_lookup_name {k : Nat} {specs : List (IAsset × String × StepDecl)} {ns : List GNode} {s s' : H}
    (P : Post k specs ns s s') (key : String) :
    graph_get_node_by_full_name s' key =
      ((nameIndex ns key).map (fun n => k + n.id)).or (graph_get_node_by_full_name s key) := by
  show dictGet s'._full_name_to_node key = _
  rw [P.names]
  exact dictGet_foldl_dictSet ns GNode.fullName (fun n => k + n.id) _ key

theorem post_lookup_id {k : Nat} {specs : List (IAsset × String × StepDecl)} {ns : List GNode} {s s' : H}
    (P : Post k specs ns s s') (q : Int) :
    graph_get_node_by_id s' q =
      ((ns.reverse.find? (fun n => Int.ofNat n.id = q)).map (fun n => k + n.id)).or (graph_get_node_by_id s q) := by
  show dictGet s'._id_to_node q = _
  rw [P.ids]
  exact dictGet_foldl_dictSet ns (fun n => Int.ofNat n.id) (fun n => k + n.id) _ q

end TN

/-- the linking loop reads the same of `genEnvOf L m atts fuel` as of `envOf L m fuel` -/
theorem link_genEnv (L : Lang) (m : Inst) (atts : List PyAttackerInfo) (fuel : Nat) (s : H) :
    graph__generate_graph_link s (genEnvOf L m atts fuel) = graph__generate_graph_link s (envOf L m fuel) := by
  rw [TL.link_eq, TL.link_eq]
  congr 1
  funext a t
  unfold TL.body1
  congr 2
  funext e u
  unfold TL.body2
  show (_process_step_expression fuel (genEnvOf L m atts fuel) _ e >>= _) =
    (_process_step_expression fuel (envOf L m fuel) _ e >>= _)
  rw [TN.eval_genEnv, ← TL.eval_envOf_fuel L m fuel]

end MalVerif.Py.Tie
