import MalVerif.Py.PreludeAgSerial
import MalVerif.Py.Abs
import MalVerif.Model.AGSerial
/-!
# Abstraction: the dictionaries of the translated `to_dict` / `_from_dict`  →  the typed document `AGS.AGDoc`

`docOf` reads a Python-level document (`PyDoc`: dictionaries of `PyAtom`s, as the translated `_to_dict` builds
them) as the typed document of the hand-written model (`Model/AGSerial.lean`).  `DocShape` says that a document has
the mandatory keys with values of the expected Python types — what `_to_dict` writes has this shape, and the file
layer keeps it.  `jsonRTpy` / `yamlRTpy` are the (modelled, not translated) file layer on Python-level documents:
what comes back from `json.load(json.dump(d))` / `yaml.load(yaml.dump(d))`.
-/
namespace MalVerif.Py
open MalVerif.AGS MalVerif.AGraph
open MalVerif.Ser (Key)

/-! ### reading atoms -/
def optStrOf (a : Option PyAtom) : Option String := match a with | some (.str t) => some t | _ => none
def strOf (a : Option PyAtom) : String := (optStrOf a).getD ""
def intOf (a : Option PyAtom) : Int := match a with | some (.int i) => i | _ => 0
def keysOf (a : Option PyAtom) : List Key := match a with | some (.idmap d) => d.map (·.1) | _ => []
def strsOf (a : Option PyAtom) : List String := match a with | some (.strs l) => l | _ => []
def ttcOf (a : Option PyAtom) : Option PyDictS := match a with | some (.dictS d) => some d | _ => none
def jsonOf (a : Option PyAtom) : String := match a with | some (.json t) => t | _ => "{}"
/-- `d[k] == 'True' if k in d else dflt` -/
def flagOf (a : Option PyAtom) (dflt : Bool) : Bool := match a with | some x => atomEqStr x "True" | none => dflt

/-- a node dictionary as an entry of the typed document -/
def entryOf (d : PyDictA) : NodeEntry where
  id := intOf (dictGet d "id")
  type := ntypeOf (strOf (dictGet d "type"))
  name := strOf (dictGet d "name")
  ttc := ttcText (ttcOf (dictGet d "ttc"))
  children := keysOf (dictGet d "children")
  parents := keysOf (dictGet d "parents")
  compBy := strsOf (dictGet d "compromised_by")
  asset := optStrOf (dictGet d "asset")
  defense := optStrOf (dictGet d "defense_status")
  exist := (dictGet d "existence_status").map (fun x => atomEqStr x "True")
  viable := flagOf (dictGet d "is_viable") true
  necessary := flagOf (dictGet d "is_necessary") true
  mitre := optStrOf (dictGet d "mitre_info")
  tags := strsOf (dictGet d "tags")
  extras := jsonOf (dictGet d "extras")

/-- an attacker dictionary as an entry of the typed document -/
def attEntryOf (d : PyDictA) : AttEntry where
  id := intOf (dictGet d "id")
  name := strOf (dictGet d "name")
  entry := keysOf (dictGet d "entry_points")
  reached := keysOf (dictGet d "reached_attack_steps")

def stepsOf (d : PyDoc) : PyDictD := dictGetD d "attack_steps" []
def attackersOf (d : PyDoc) : PyDictD := dictGetD d "attackers" []

/-- the typed document a Python-level document stands for -/
def docOf (d : PyDoc) : AGDoc where
  steps := (stepsOf d).map (fun e => (e.1, entryOf e.2))
  attackers := (attackersOf d).map (fun e => (e.1, attEntryOf e.2))

/-! ### well-shaped documents (decidable) -/
def isInt : Option PyAtom → Bool | some (.int _) => true | _ => false
def isStr : Option PyAtom → Bool | some (.str _) => true | _ => false
def isOptStr : Option PyAtom → Bool | none => true | some (.str _) => true | _ => false
def isIdmap : Option PyAtom → Bool | some (.idmap _) => true | _ => false
def isTtc : Option PyAtom → Bool | some (.dictS _) => true | some .none => true | _ => false
def isOptStrs : Option PyAtom → Bool | none => true | some (.strs _) => true | _ => false
def isOptJson : Option PyAtom → Bool | none => true | some (.json _) => true | _ => false

/-- the mandatory keys of a node dictionary are present and every value has the Python type `_from_dict` expects -/
def nodeShape (d : PyDictA) : Bool :=
  isInt (dictGet d "id") && isStr (dictGet d "type") && isStr (dictGet d "name") && isTtc (dictGet d "ttc") &&
  isIdmap (dictGet d "children") && isIdmap (dictGet d "parents") && isOptStr (dictGet d "asset") &&
  isOptStr (dictGet d "defense_status") && isOptStr (dictGet d "mitre_info") && isOptStrs (dictGet d "tags") &&
  isOptJson (dictGet d "extras")
def attShape (d : PyDictA) : Bool :=
  isInt (dictGet d "id") && isStr (dictGet d "name") && isIdmap (dictGet d "entry_points") &&
  isIdmap (dictGet d "reached_attack_steps")
def docShape (d : PyDoc) : Bool :=
  match dictGet d "attack_steps", dictGet d "attackers" with
  | some st, some ats => st.all (fun e => nodeShape e.2) && ats.all (fun e => attShape e.2)
  | _, _ => false

/-! ### the file layer on Python-level documents (modelled; cf. `AGS.jsonRT`, `AGS.yamlRT`) -/

def mapIdmaps (f : List (Key × String) → List (Key × String)) (d : PyDictA) : PyDictA :=
  d.map (fun e => (e.1, match e.2 with | .idmap m => .idmap (f m) | a => a))

/-- JSON: the integer keys of the id dictionaries come back as strings -/
def jsonRTpy (d : PyDoc) : PyDoc :=
  d.map (fun top => (top.1, top.2.map (fun e => (e.1, mapIdmaps (fun m => m.map (fun kv => (Key.s kv.1.text, kv.2))) e.2))))

/-- YAML: every mapping is written with sorted keys — steps by full name, attackers by key, id dictionaries by id.
(The order of the fields *inside* a node / attacker dictionary also changes, but `_from_dict` only reads them by
key; that order is not modelled.) -/
def yamlRTpy (d : PyDoc) : PyDoc :=
  d.map (fun top => (top.1, (isort (fun a b => a.1 ≤ b.1) top.2).map (fun e =>
    (e.1, mapIdmaps (fun m => isort (fun a b => keyLe a.1 b.1) m) e.2))))

/-- the model handed to `_from_dict`, as the hand-written model sees it -/
def withModelOf (m : Option PyModel) : Bool := m.isSome
def assetKnownOf (m : Option PyModel) (a : String) : Bool :=
  match m with | some x => (x.get_asset_by_name a).isSome | none => false
/-- assumed behaviour of `Model.get_asset_by_name`: the asset found has the name asked for -/
def ModelOK (m : Option PyModel) : Prop :=
  ∀ x, m = some x → ∀ a o, x.get_asset_by_name a = some o → o.name = a

end MalVerif.Py
