import MalVerif.Py.Abs
import MalVerif.Py.TieNode
import MalVerif.Py.Gen.Graph
import MalVerif.Py.Gen.Apriori
import MalVerif.Spec.Consistent
import MalVerif.Proofs.AGSInv
/-!
# Tie: translated `attackgraph.py` mutators and the pruning loop of `apriori.py`  =  `Model/AGS.lean`

The translated functions raise like the Python (`list.remove`, `del d[k]`, explicit `raise`), the hand model's
operations are total; so each tie has two halves: *if* the translated function returns, the result is the
model's (`*_tie`), and under the structural invariant `Consistent` (+ exact name index) it *does* return (`*_ok`).
-/
namespace MalVerif.Py.Tie
open MalVerif.Py MalVerif.Py.Gen MalVerif.AGS MalVerif.AGraph

/- helper definitions and lemmas of this file live in the sub-namespace `TG` -/
namespace TG
end TG
open TG
namespace TG

/-! ## helper lemmas -/

/-! ### `Except` -/

theorem bind_ok {α β : Type} {x : Except PyErr α} {f : α → Except PyErr β} {b : β} (h : x.bind f = .ok b) :
    ∃ a, x = .ok a ∧ f a = .ok b := by
  cases x with
  | error e => cases h
  | ok a => exact ⟨a, rfl, h⟩

theorem ok_bind {α β : Type} (a : α) (f : α → Except PyErr β) : (Except.ok a : Except PyErr α).bind f = f a := rfl

/-! ### the prelude's dictionaries are the model's -/
section dict
variable {κ : Type} [DecidableEq κ] [BEq κ] [LawfulBEq κ]

theorem beq_fun (k : κ) : (fun e : κ × Nat => e.1 == k) = (fun e => decide (e.1 = k)) := by
  funext e; by_cases h : e.1 = k <;> simp [h]

theorem dictGet_eq_dget (d : List (κ × Nat)) (k : κ) : dictGet d k = dget d k := by
  unfold dictGet dget; rw [beq_fun]

theorem dictIn_eq_dget (d : List (κ × Nat)) (k : κ) : dictIn d k = (dget d k).isSome := by
  unfold dictIn; rw [beq_fun]
  cases h : d.any (fun e => decide (e.1 = k))
  · rw [dget_eq_none_of_any_false d k h]; rfl
  · rw [dget_isSome_of_any d k h]

theorem dictSet_eq_dset (d : List (κ × Nat)) (k : κ) (v : Nat) : dictSet d k v = dset d k v := by
  unfold dictSet dset; rw [beq_fun]
  have : (fun e : κ × Nat => if (e.1 == k) = true then (k, v) else e) = (fun e => if e.1 = k then (k, v) else e) := by
    funext e; by_cases h : e.1 = k <;> simp [h]
  rw [this]

theorem dictDel_eq_ddel (d : List (κ × Nat)) (k : κ) :
    dictDel d k = if dictIn d k = true then .ok (ddel d k) else .error .keyError := by
  unfold dictDel ddel dictIn
  have : (fun e : κ × Nat => !(e.1 == k)) = (fun e => decide (e.1 ≠ k)) := by
    funext e; by_cases h : e.1 = k <;> simp [h]
  rw [this]

theorem dictDel_ok {d d' : List (κ × Nat)} {k : κ} (h : dictDel d k = .ok d') : d' = ddel d k := by
  rw [dictDel_eq_ddel] at h
  split at h
  · injection h with h; exact h.symm
  · cases h

theorem dictDel_of_in {d : List (κ × Nat)} {k : κ} (h : dictIn d k = true) : dictDel d k = .ok (ddel d k) := by
  rw [dictDel_eq_ddel, if_pos h]

end dict

theorem pyRemove_ok {l l' : List Nat} {x : Nat} (h : pyRemove l x = .ok l') : l' = l.erase x := by
  unfold pyRemove at h
  split at h
  · injection h with h; exact h.symm
  · cases h

theorem pyRemove_of_mem {l : List Nat} {x : Nat} (h : x ∈ l) : pyRemove l x = .ok (l.erase x) := by
  unfold pyRemove; rw [if_pos (List.contains_iff_mem.2 h)]

theorem pyRemoveAll_eq (l : List Nat) (r : Nat) : pyRemoveAll l r = l.filter (· ≠ r) := by
  unfold pyRemoveAll; congr 1; funext y; by_cases h : y = r <;> simp [h]

/-! ### the abstraction and object updates -/

theorem absS_setN (s : H) (c : NRef) (o : PyNode) (f : NodeObj → NodeObj) (nf af : Nat)
    (h : absN o = f (absN (s.n c))) : absS (s.setN c o) nf af = updN (absS s nf af) c f := by
  unfold absS updN H.setN
  simp only
  congr 1
  funext x
  by_cases hx : x = c
  · subst hx; simp [h]
  · simp [hx]

theorem absS_setA (s : H) (c : ARef) (o : PyAttacker) (f : AttObj → AttObj) (nf af : Nat)
    (h : absA o = f (absA (s.a c))) : absS (s.setA c o) nf af = updA (absS s nf af) c f := by
  unfold absS updA H.setA
  simp only
  congr 1
  funext x
  by_cases hx : x = c
  · subst hx; simp [h]
  · simp [hx]

/-! ### loops of the translated code -/

/-- a `for` loop of the translated code whose body is `s ← f s x` -/
def loopE {α σ : Type} (f : σ → α → Except PyErr σ) (l : List α) (s : σ) : Except PyErr σ :=
  forIn l s (fun x s => (f s x).bind (fun s' => Except.pure (ForInStep.yield s')))

theorem loopE_nil {α σ : Type} (f : σ → α → Except PyErr σ) (s : σ) : loopE f [] s = .ok s := rfl
theorem loopE_cons {α σ : Type} (f : σ → α → Except PyErr σ) (x : α) (l : List α) (s : σ) :
    loopE f (x :: l) s = (f s x).bind (loopE f l) := by
  unfold loopE
  rw [List.forIn_cons]
  cases h : f s x <;> rfl

theorem loopE_tie {α σ τ : Type} (f : σ → α → Except PyErr σ) (abs : σ → τ) (g : τ → α → τ)
    (hstep : ∀ s x s', f s x = .ok s' → abs s' = g (abs s) x) (l : List α) (s s' : σ)
    (h : loopE f l s = .ok s') : abs s' = l.foldl g (abs s) := by
  induction l generalizing s with
  | nil => rw [loopE_nil] at h; cases h; rfl
  | cons x l ih =>
    rw [loopE_cons] at h
    obtain ⟨s1, h1, h2⟩ := bind_ok h
    rw [List.foldl_cons, ← hstep s x s1 h1]; exact ih s1 h2

theorem loopE_pres {α σ : Type} (f : σ → α → Except PyErr σ) (P : σ → Prop)
    (hstep : ∀ s x s', f s x = .ok s' → P s → P s') (l : List α) (s s' : σ)
    (h : loopE f l s = .ok s') (h0 : P s) : P s' := by
  induction l generalizing s with
  | nil => rw [loopE_nil] at h; cases h; exact h0
  | cons x l ih =>
    rw [loopE_cons] at h
    obtain ⟨s1, h1, h2⟩ := bind_ok h
    exact ih s1 h2 (hstep s x s1 h1 h0)

theorem loopE_ok {α σ : Type} (f : σ → α → Except PyErr σ) (I : List α → σ → Prop)
    (hstep : ∀ x l s, I (x :: l) s → ∃ s', f s x = .ok s' ∧ I l s') (l : List α) (s : σ) (h0 : I l s) :
    ∃ s', loopE f l s = .ok s' := by
  induction l generalizing s with
  | nil => exact ⟨s, rfl⟩
  | cons x l ih =>
    obtain ⟨s1, h1, h2⟩ := hstep x l s h0
    obtain ⟨s2, h3⟩ := ih s1 h2
    exact ⟨s2, by rw [loopE_cons, h1, ok_bind, h3]⟩

/-- the data attributes the properties talk about (`id`, `type`, the two labels) are not touched -/
structure IdFrame (s s' : H) : Prop where
  nid : ∀ x, (s'.n x).id = (s.n x).id
  aid : ∀ x, (s'.a x).id = (s.a x).id
  ntype : ∀ x, (s'.n x).type = (s.n x).type
  viable : ∀ x, (s'.n x).is_viable = (s.n x).is_viable
  necessary : ∀ x, (s'.n x).is_necessary = (s.n x).is_necessary

theorem IdFrame.refl (s : H) : IdFrame s s := ⟨fun _ => rfl, fun _ => rfl, fun _ => rfl, fun _ => rfl, fun _ => rfl⟩
theorem IdFrame.trans {s s' s'' : H} (h : IdFrame s s') (h' : IdFrame s' s'') : IdFrame s s'' :=
  ⟨fun x => (h'.nid x).trans (h.nid x), fun x => (h'.aid x).trans (h.aid x), fun x => (h'.ntype x).trans (h.ntype x),
   fun x => (h'.viable x).trans (h.viable x), fun x => (h'.necessary x).trans (h.necessary x)⟩
theorem IdFrame.setN (s : H) (c : NRef) (o : PyNode)
    (h : o.id = (s.n c).id ∧ o.type = (s.n c).type ∧ o.is_viable = (s.n c).is_viable ∧
      o.is_necessary = (s.n c).is_necessary) : IdFrame s (s.setN c o) := by
  have hn : ∀ x, (s.setN c o).n x = if x = c then o else s.n x := fun _ => rfl
  refine ⟨fun x => ?_, fun _ => rfl, fun x => ?_, fun x => ?_, fun x => ?_⟩ <;> rw [hn] <;>
    by_cases hx : x = c
  · rw [if_pos hx, hx, h.1]
  · rw [if_neg hx]
  · rw [if_pos hx, hx, h.2.1]
  · rw [if_neg hx]
  · rw [if_pos hx, hx, h.2.2.1]
  · rw [if_neg hx]
  · rw [if_pos hx, hx, h.2.2.2]
  · rw [if_neg hx]
theorem IdFrame.setA (s : H) (c : ARef) (o : PyAttacker) (h : o.id = (s.a c).id) : IdFrame s (s.setA c o) := by
  refine ⟨fun _ => rfl, fun x => ?_, fun _ => rfl, fun _ => rfl, fun _ => rfl⟩
  show (if x = c then o else s.a x).id = _
  by_cases hx : x = c
  · rw [if_pos hx, hx, h]
  · rw [if_neg hx]

theorem loopE_idFrame {α : Type} (f : H → α → Except PyErr H) (hstep : ∀ s x s', f s x = .ok s' → IdFrame s s')
    (l : List α) (s s' : H) (h : loopE f l s = .ok s') : IdFrame s s' :=
  loopE_pres f (fun t => IdFrame s t) (fun t x t' ht h0 => h0.trans (hstep t x t' ht)) l s s' h (IdFrame.refl s)

theorem undo_idFrame {s s' : H} {a : ARef} {n : NRef} (h : attacker_undo_compromise s a n = .ok s') :
    IdFrame s s' := by
  unfold attacker_undo_compromise at h
  simp only [bind, pure] at h
  split at h
  · cases h; exact IdFrame.refl s
  · obtain ⟨l1, _, h⟩ := bind_ok h
    obtain ⟨l2, _, h⟩ := bind_ok h
    cases h
    refine IdFrame.trans (IdFrame.setN s n _ ⟨?_, ?_, ?_, ?_⟩) (IdFrame.setA _ a _ ?_) <;> rfl

/-! ## lookups -/

end TG
theorem get_node_by_id_tie (s : H) (k : Int) (nf af : Nat) :
    graph_get_node_by_id s k = getNodeById (absS s nf af) k := dictGet_eq_dget _ _

theorem get_node_by_full_name_tie (s : H) (k : String) (nf af : Nat) :
    graph_get_node_by_full_name s k = getNodeByName (absS s nf af) k := dictGet_eq_dget _ _

theorem get_attacker_by_id_tie (s : H) (k : Int) (nf af : Nat) :
    graph_get_attacker_by_id s k = getAttackerById (absS s nf af) k := dictGet_eq_dget _ _
namespace TG

/-! ## `add_node` -/

def anKey (s : H) (nid : Option Int) : Int := match nid with | some v => v | none => s.next_node_id
theorem anKey_eq (s : H) (nid : Option Int) : anKey s nid = nid.getD s.next_node_id := by cases nid <;> rfl

/-- the heap after a successful `add_node` -/
def anSt (s : H) (node : NRef) (k : Int) : H :=
  let s1 := s.setN node { s.n node with id := some k }
  let s2 : H := { s1 with next_node_id := max (optIntGet (s1.n node).id + 1) s1.next_node_id }
  let s3 : H := { s2 with nodes := s2.nodes ++ [node] }
  let s4 : H := { s3 with _id_to_node := dictSet s3._id_to_node (optIntGet (s3.n node).id) node }
  { s4 with _full_name_to_node := dictSet s4._full_name_to_node (node_full_name s4 node) node }

/-- the guard at the head of `add_node` (b653290): `node.id is not None and self._id_to_node.get(node.id) is node`
— the object is already part of the graph -/
def nodeIsPart (s : H) (node : NRef) : Bool :=
  (s.n node).id.isSome && (dictGet s._id_to_node (optIntGet (s.n node).id) == some node)

theorem nodeIsPart_iff (s : H) (node : NRef) :
    nodeIsPart s node = true ↔ ∃ k, (s.n node).id = some k ∧ dictGet s._id_to_node k = some node := by
  unfold nodeIsPart
  cases h : (s.n node).id with
  | none => simp
  | some k => simp [optIntGet]

theorem nodeIsPart_of_id_none (s : H) (node : NRef) (h : (s.n node).id = none) : nodeIsPart s node = false := by
  unfold nodeIsPart; rw [h]; rfl

theorem graph_add_node_eq (s : H) (node : NRef) (nid : Option Int) :
    graph_add_node s node nid =
      if nodeIsPart s node = true then .error .valueError else
      if dictIn s._id_to_node (anKey s nid) = true then .error .valueError else .ok (anSt s node (anKey s nid)) := rfl

theorem absS_anSt (s : H) (node : NRef) (k : Int) (af : Nat) :
    absS (anSt s node k) (node + 1) af = addNodeSt (absS s node af) (absN (s.n node)) k := by
  have hn : ∀ x, (anSt s node k).n x = if x = node then { s.n node with id := some k } else s.n x := fun _ => rfl
  have hid : optIntGet ((anSt s node k).n node).id = k := by rw [hn, if_pos rfl]; rfl
  have hfn : node_full_name (anSt s node k) node = fullName { absN (s.n node) with id := k } := by
    rw [full_name_tie _ _ (by intro _; rw [hn, if_pos rfl]; rfl), hn, if_pos rfl]; rfl
  unfold absS addNodeSt
  simp only
  congr 1
  · funext x
    rw [hn]
    by_cases hx : x = node
    · rw [if_pos hx, if_pos hx]; rfl
    · rw [if_neg hx, if_neg hx]
  · show dictSet s._id_to_node (optIntGet ((anSt s node k).n node).id) node = _
    rw [hid, dictSet_eq_dset]
  · show dictSet s._full_name_to_node (node_full_name _ node) node = _
    rw [dictSet_eq_dset]
    congr 1
  · show max (optIntGet ((anSt s node k).n node).id + 1) s.next_node_id = _
    rw [hid]

end TG
/-- `add_node(node, node_id)`: the Python caller has allocated the node object; in the model the object is
allocated by `addNode` at reference `nfresh` — so the tie is stated for `node = nfresh`. -/
theorem add_node_tie (s s' : H) (node : NRef) (nid : Option Int) (af : Nat)
    (h : graph_add_node s node nid = .ok s') :
    addNode (absS s node af) (absN (s.n node)) nid = .ok (absS s' (node + 1) af) := by
  rw [graph_add_node_eq] at h
  split at h
  · cases h
  split at h
  · cases h
  · rename_i hd
    injection h with h
    subst h
    rw [addNode_eq, absS_anSt, anKey_eq]
    rw [dictIn_eq_dget, anKey_eq] at hd
    exact if_neg hd

/-- `add_node` raises only `ValueError`: for an object that is already part of the graph (the guard of b653290;
never for a freshly constructed node, whose `id` is `None`: `nodeIsPart_of_id_none`), or — like `addNode` — for
an id in use -/
theorem add_node_error (s : H) (node : NRef) (nid : Option Int) (af : Nat) (e : PyErr)
    (h : graph_add_node s node nid = .error e) :
    e = .valueError ∧
      (nodeIsPart s node = true ∨ addNode (absS s node af) (absN (s.n node)) nid = .error .valueError) := by
  rw [graph_add_node_eq] at h
  split at h
  · rename_i hp
    injection h with h
    exact ⟨h.symm, Or.inl hp⟩
  split at h
  · rename_i hd
    injection h with h
    refine ⟨h.symm, Or.inr (addNode_error_of_used _ _ _ ?_)⟩
    rw [dictIn_eq_dget, anKey_eq] at hd
    exact hd
  · cases h

/-- … for a freshly constructed node object the exception is the model's -/
theorem add_node_error_fresh (s : H) (node : NRef) (nid : Option Int) (af : Nat) (e : PyErr)
    (hid : (s.n node).id = none) (h : graph_add_node s node nid = .error e) :
    e = .valueError ∧ addNode (absS s node af) (absN (s.n node)) nid = .error .valueError := by
  obtain ⟨he, h⟩ := add_node_error s node nid af e h
  rcases h with h | h
  · rw [nodeIsPart_of_id_none s node hid] at h; cases h
  · exact ⟨he, h⟩

/-- the reference that the model will allocate next is not part of a consistent graph: the guard does not fire -/
theorem nodeIsPart_fresh (s : H) (node : NRef) (af : Nat) (hc : Consistent (absS s node af)) :
    nodeIsPart s node = false := by
  cases h : nodeIsPart s node with
  | false => rfl
  | true =>
    obtain ⟨k, _, hk⟩ := (nodeIsPart_iff s node).1 h
    rw [dictGet_eq_dget] at hk
    have hm : node ∈ s.nodes := ((hc.idx.id_exact k node).1 hk).1
    exact absurd (hc.nodes.fresh node hm) (Nat.lt_irrefl _)

/-- a node of a consistent graph (whose `id` is set) is recognised by the guard -/
theorem nodeIsPart_member (s : H) (node : NRef) (nf af : Nat) (hc : Consistent (absS s nf af))
    (hm : node ∈ s.nodes) (hid : (s.n node).id.isSome = true) : nodeIsPart s node = true := by
  obtain ⟨k, hk⟩ := Option.isSome_iff_exists.1 hid
  refine (nodeIsPart_iff s node).2 ⟨k, hk, ?_⟩
  rw [dictGet_eq_dget]
  refine (hc.idx.id_exact k node).2 ⟨hm, ?_⟩
  show (s.n node).id.getD 0 = k
  rw [hk]; rfl

/-- an object that is already part of the graph is rejected, whatever id is asked for -/
theorem add_node_rejects_part (s : H) (node : NRef) (nid : Option Int) (h : nodeIsPart s node = true) :
    graph_add_node s node nid = .error .valueError := by
  rw [graph_add_node_eq, if_pos h]

namespace TG

theorem absS_anSt_obj (s : H) (node : NRef) (k : Int) (nf af : Nat) :
    absS (anSt s node k) nf af =
      { absS s nf af with
        nobj := fun x => if x = node then { absN (s.n node) with id := k } else absN (s.n x)
        nextNode := max (k + 1) s.next_node_id
        nodes := s.nodes ++ [node]
        idIdx := dset s._id_to_node k node
        nameIdx := dset s._full_name_to_node (fullName { absN (s.n node) with id := k }) node } := by
  have hn : ∀ x, (anSt s node k).n x = if x = node then { s.n node with id := some k } else s.n x := fun _ => rfl
  have hid : optIntGet ((anSt s node k).n node).id = k := by rw [hn, if_pos rfl]; rfl
  have hfn : node_full_name (anSt s node k) node = fullName { absN (s.n node) with id := k } := by
    rw [full_name_tie _ _ (by intro _; rw [hn, if_pos rfl]; rfl), hn, if_pos rfl]; rfl
  unfold absS
  simp only
  congr 1
  · funext x
    rw [hn]
    by_cases hx : x = node
    · rw [if_pos hx, if_pos hx]; rfl
    · rw [if_neg hx, if_neg hx]
  · show dictSet s._id_to_node (optIntGet ((anSt s node k).n node).id) node = _
    rw [hid, dictSet_eq_dset]
  · show dictSet s._full_name_to_node (node_full_name _ node) node = _
    rw [dictSet_eq_dset]
    congr 1
  · show max (optIntGet ((anSt s node k).n node).id + 1) s.next_node_id = _
    rw [hid]

theorem nodeIsPart_abs (s : H) (node : NRef) (nf af : Nat) (hid : (s.n node).id.isSome = true) :
    (nodeIsPart s node = true) ↔ dget (absS s nf af).idIdx ((absS s nf af).nobj node).id = some node := by
  obtain ⟨k, hk⟩ := Option.isSome_iff_exists.1 hid
  rw [nodeIsPart_iff]
  show _ ↔ dget s._id_to_node ((s.n node).id.getD 0) = some node
  rw [hk, ← dictGet_eq_dget]
  constructor
  · rintro ⟨k', h1, h2⟩; cases h1; exact h2
  · intro h; exact ⟨k, rfl, h⟩

end TG
/-- `add_node(node, node_id)` for a node object that has been given an id before (e.g. the object handed to
`add_node` a second time) is `AGS.addNodeObj`: the same calls are rejected, the others have the same effect -/
theorem add_node_obj_tie (s : H) (node : NRef) (nid : Option Int) (nf af : Nat) (hid : (s.n node).id.isSome = true) :
    (∀ s', graph_add_node s node nid = .ok s' → addNodeObj (absS s nf af) node nid = .ok (absS s' nf af)) ∧
    (∀ e, graph_add_node s node nid = .error e →
      e = .valueError ∧ addNodeObj (absS s nf af) node nid = .error .valueError) := by
  have hp := nodeIsPart_abs s node nf af hid
  rw [graph_add_node_eq, addNodeObj_eq]
  by_cases h1 : nodeIsPart s node = true
  · rw [if_pos h1, if_pos (hp.1 h1)]
    exact ⟨fun _ h => (by cases h), fun e h => (by cases h; exact ⟨rfl, rfl⟩)⟩
  · rw [if_neg h1, if_neg (fun h => h1 (hp.2 h))]
    have hk : nid.getD (absS s nf af).nextNode = anKey s nid := (anKey_eq s nid).symm
    rw [hk]
    by_cases h2 : dictIn s._id_to_node (anKey s nid) = true
    · rw [if_pos h2, if_pos (by rw [← dictIn_eq_dget]; exact h2)]
      exact ⟨fun _ h => (by cases h), fun e h => (by cases h; exact ⟨rfl, rfl⟩)⟩
    · rw [if_neg h2, if_neg (by rw [← dictIn_eq_dget]; exact h2)]
      refine ⟨fun s' h => ?_, fun e h => (by cases h)⟩
      cases h
      rw [absS_anSt_obj]
      rfl
namespace TG

/-! ## `remove_node` -/

/-- the bodies of the four loops of `remove_node` and the rest of the function -/
def rmB1 (r : NRef) (s : H) (c : NRef) : Except PyErr H :=
  (pyRemove (s.n c).parents r).bind fun l => .ok (s.setN c { s.n c with parents := l })
def rmB2 (r : NRef) (s : H) (p : NRef) : Except PyErr H :=
  (pyRemove (s.n p).children r).bind fun l => .ok (s.setN p { s.n p with children := l })
def rmB3 (r : NRef) (s : H) (a : ARef) : Except PyErr H := attacker_undo_compromise s a r
def rmB4 (r : NRef) (s : H) (a : ARef) : Except PyErr H :=
  .ok (s.setA a { s.a a with entry_points := pyRemoveAll (s.a a).entry_points r })
def rmTail (r : NRef) (s : H) : Except PyErr H :=
  (pyRemove s.nodes r).bind fun l3 =>
    if (!(s.n r).id.isSome) = true then .error .valueError else
    (dictDel s._id_to_node (optIntGet (s.n r).id)).bind fun d4 =>
    (dictDel s._full_name_to_node (node_full_name s r)).bind fun d5 =>
    .ok { s with nodes := l3, _id_to_node := d4, _full_name_to_node := d5 }

def rmB1' (r : NRef) (c : NRef) (s : H) : Except PyErr (ForInStep H) :=
  (pyRemove (s.n c).parents r).bind fun l => Except.pure (ForInStep.yield (s.setN c { s.n c with parents := l }))
def rmB2' (r : NRef) (p : NRef) (s : H) : Except PyErr (ForInStep H) :=
  (pyRemove (s.n p).children r).bind fun l => Except.pure (ForInStep.yield (s.setN p { s.n p with children := l }))
def rmB3' (r : NRef) (a : ARef) (s : H) : Except PyErr (ForInStep H) :=
  (attacker_undo_compromise s a r).bind fun s => Except.pure (ForInStep.yield s)
def rmB4' (r : NRef) (a : ARef) (s : H) : Except PyErr (ForInStep H) :=
  Except.pure (ForInStep.yield (s.setA a { s.a a with entry_points := pyRemoveAll (s.a a).entry_points r }))

theorem graph_remove_node_eq' (s : H) (r : NRef) :
    graph_remove_node s r =
      (forIn (s.n r).children s (rmB1' r)).bind fun s1 =>
      (forIn (s1.n r).parents s1 (rmB2' r)).bind fun s2 =>
      (forIn (s2.n r).compromised_by s2 (rmB3' r)).bind fun s3 =>
      (forIn s3.attackers s3 (rmB4' r)).bind fun s4 => rmTail r s4 := rfl

theorem rmB1'_eq (r : NRef) : rmB1' r = fun x s => (rmB1 r s x).bind (fun s' => Except.pure (ForInStep.yield s')) := by
  funext x s; unfold rmB1' rmB1; cases pyRemove (s.n x).parents r <;> rfl
theorem rmB2'_eq (r : NRef) : rmB2' r = fun x s => (rmB2 r s x).bind (fun s' => Except.pure (ForInStep.yield s')) := by
  funext x s; unfold rmB2' rmB2; cases pyRemove (s.n x).children r <;> rfl
theorem rmB3'_eq (r : NRef) : rmB3' r = fun x s => (rmB3 r s x).bind (fun s' => Except.pure (ForInStep.yield s')) := rfl
theorem rmB4'_eq (r : NRef) : rmB4' r = fun x s => (rmB4 r s x).bind (fun s' => Except.pure (ForInStep.yield s')) := rfl

theorem graph_remove_node_eq (s : H) (r : NRef) :
    graph_remove_node s r =
      (loopE (rmB1 r) (s.n r).children s).bind fun s1 =>
      (loopE (rmB2 r) (s1.n r).parents s1).bind fun s2 =>
      (loopE (rmB3 r) (s2.n r).compromised_by s2).bind fun s3 =>
      (loopE (rmB4 r) s3.attackers s3).bind fun s4 => rmTail r s4 := by
  rw [graph_remove_node_eq', rmB1'_eq, rmB2'_eq, rmB3'_eq, rmB4'_eq]; rfl

section rmTies
variable (r : NRef) (nf af : Nat)

theorem rmB1_tie (s : H) (c : NRef) (s' : H) (h : rmB1 r s c = .ok s') :
    absS s' nf af = updN (absS s nf af) c (fun x => { x with parents := x.parents.erase r }) := by
  unfold rmB1 at h
  obtain ⟨l, hl, h⟩ := bind_ok h
  cases h
  rw [pyRemove_ok hl]
  exact absS_setN s c _ _ nf af rfl

theorem rmB2_tie (s : H) (c : NRef) (s' : H) (h : rmB2 r s c = .ok s') :
    absS s' nf af = updN (absS s nf af) c (fun x => { x with children := x.children.erase r }) := by
  unfold rmB2 at h
  obtain ⟨l, hl, h⟩ := bind_ok h
  cases h
  rw [pyRemove_ok hl]
  exact absS_setN s c _ _ nf af rfl

theorem rmB3_tie (s : H) (a : ARef) (s' : H) (h : rmB3 r s a = .ok s') :
    absS s' nf af = undo (absS s nf af) a r := undo_tie s s' a r nf af h

theorem rmB4_tie (s : H) (a : ARef) (s' : H) (h : rmB4 r s a = .ok s') :
    absS s' nf af = updA (absS s nf af) a (fun x => { x with entry := x.entry.filter (· ≠ r) }) := by
  unfold rmB4 at h
  cases h
  rw [pyRemoveAll_eq]
  exact absS_setA s a _ _ nf af rfl

theorem rmTail_tie (s s' : H) (h : rmTail r s = .ok s') :
    absS s' nf af = { absS s nf af with
      nodes := (absS s nf af).nodes.erase r
      idIdx := ddel (absS s nf af).idIdx ((absS s nf af).nobj r).id
      nameIdx := ddel (absS s nf af).nameIdx (fullName ((absS s nf af).nobj r)) } := by
  unfold rmTail at h
  obtain ⟨l3, hl3, h⟩ := bind_ok h
  split at h
  · cases h
  · rename_i hid
    obtain ⟨d4, hd4, h⟩ := bind_ok h
    obtain ⟨d5, hd5, h⟩ := bind_ok h
    cases h
    have hid' : (s.n r).id.isSome = true := by revert hid; cases (s.n r).id.isSome <;> simp
    rw [pyRemove_ok hl3, dictDel_ok hd4, dictDel_ok hd5, full_name_tie s r (fun _ => hid')]
    rfl

theorem rmB1_idFrame (s : H) (c : NRef) (s' : H) (h : rmB1 r s c = .ok s') : IdFrame s s' := by
  unfold rmB1 at h
  obtain ⟨l, _, h⟩ := bind_ok h
  cases h
  exact IdFrame.setN s c _ ⟨rfl, rfl, rfl, rfl⟩
theorem rmB2_idFrame (s : H) (c : NRef) (s' : H) (h : rmB2 r s c = .ok s') : IdFrame s s' := by
  unfold rmB2 at h
  obtain ⟨l, _, h⟩ := bind_ok h
  cases h
  exact IdFrame.setN s c _ ⟨rfl, rfl, rfl, rfl⟩
theorem rmB3_idFrame (s : H) (a : ARef) (s' : H) (h : rmB3 r s a = .ok s') : IdFrame s s' := undo_idFrame h
theorem rmB4_idFrame (s : H) (a : ARef) (s' : H) (h : rmB4 r s a = .ok s') : IdFrame s s' := by
  unfold rmB4 at h
  cases h
  exact IdFrame.setA s a _ rfl
theorem rmTail_idFrame (s s' : H) (h : rmTail r s = .ok s') : IdFrame s s' := by
  unfold rmTail at h
  obtain ⟨l3, _, h⟩ := bind_ok h
  split at h
  · cases h
  · obtain ⟨d4, _, h⟩ := bind_ok h
    obtain ⟨d5, _, h⟩ := bind_ok h
    cases h
    exact ⟨fun _ => rfl, fun _ => rfl, fun _ => rfl, fun _ => rfl, fun _ => rfl⟩

end rmTies

/-- the intermediate heaps of a successful `remove_node` and what they represent -/
theorem remove_node_phases (s s' : H) (r : NRef) (nf af : Nat) (h : graph_remove_node s r = .ok s') :
    ∃ s1 s2 s3 s4,
      loopE (rmB1 r) (s.n r).children s = .ok s1 ∧ absS s1 nf af = rn1 (absS s nf af) r ∧
      loopE (rmB2 r) (s1.n r).parents s1 = .ok s2 ∧ absS s2 nf af = rn2 (absS s nf af) r ∧
      loopE (rmB3 r) (s2.n r).compromised_by s2 = .ok s3 ∧ absS s3 nf af = rn3 (absS s nf af) r ∧
      loopE (rmB4 r) s3.attackers s3 = .ok s4 ∧ absS s4 nf af = rn4 (absS s nf af) r ∧
      rmTail r s4 = .ok s' := by
  rw [graph_remove_node_eq] at h
  obtain ⟨s1, h1, h⟩ := bind_ok h
  obtain ⟨s2, h2, h⟩ := bind_ok h
  obtain ⟨s3, h3, h⟩ := bind_ok h
  obtain ⟨s4, h4, h⟩ := bind_ok h
  have t1 : absS s1 nf af = rn1 (absS s nf af) r :=
    loopE_tie (rmB1 r) (fun s => absS s nf af) _ (rmB1_tie r nf af) _ s s1 h1
  have t2 : absS s2 nf af = rn2 (absS s nf af) r := by
    have := loopE_tie (rmB2 r) (fun s => absS s nf af)
      (fun s p => updN s p (fun x => { x with children := x.children.erase r })) (rmB2_tie r nf af) _ s1 s2 h2
    rw [this]
    show List.foldl _ (absS s1 nf af) ((absS s1 nf af).nobj r).parents = _
    rw [t1]; rfl
  have t3 : absS s3 nf af = rn3 (absS s nf af) r := by
    have := loopE_tie (rmB3 r) (fun s => absS s nf af) (fun s a => undo s a r) (rmB3_tie r nf af) _ s2 s3 h3
    rw [this]
    show List.foldl _ (absS s2 nf af) ((absS s2 nf af).nobj r).compBy = _
    rw [t2]; rfl
  have t4 : absS s4 nf af = rn4 (absS s nf af) r := by
    have := loopE_tie (rmB4 r) (fun s => absS s nf af)
      (fun s a => updA s a (fun x => { x with entry := x.entry.filter (· ≠ r) })) (rmB4_tie r nf af) _ s3 s4 h4
    rw [this]
    show List.foldl _ (absS s3 nf af) (absS s3 nf af).attackers = _
    rw [t3]; rfl
  exact ⟨s1, s2, s3, s4, h1, t1, h2, t2, h3, t3, h4, t4, h⟩

end TG
theorem remove_node_tie (s s' : H) (r : NRef) (nf af : Nat)
    (h : graph_remove_node s r = .ok s') :
    absS s' nf af = removeNode (absS s nf af) r := by
  obtain ⟨s1, s2, s3, s4, _, _, _, _, _, _, _, t4, ht⟩ := remove_node_phases s s' r nf af h
  rw [rmTail_tie r nf af s4 s' ht, t4, removeNode_eq]
namespace TG

theorem remove_node_idFrame (s s' : H) (r : NRef) (h : graph_remove_node s r = .ok s') : IdFrame s s' := by
  obtain ⟨s1, s2, s3, s4, h1, _, h2, _, h3, _, h4, _, ht⟩ := remove_node_phases s s' r 0 0 h
  exact (((((loopE_idFrame _ (rmB1_idFrame r) _ _ _ h1).trans (loopE_idFrame _ (rmB2_idFrame r) _ _ _ h2)).trans
    (loopE_idFrame _ (rmB3_idFrame r) _ _ _ h3)).trans (loopE_idFrame _ (rmB4_idFrame r) _ _ _ h4)).trans
    (rmTail_idFrame r s4 s' ht))

/-! ### `remove_node` returns normally in a consistent graph -/

theorem rmTail_ok (r : NRef) (s : H) (hr : r ∈ s.nodes) (hid : (s.n r).id.isSome = true)
    (h1 : dictIn s._id_to_node (optIntGet (s.n r).id) = true)
    (h2 : dictIn s._full_name_to_node (node_full_name s r) = true) : ∃ s', rmTail r s = .ok s' := by
  unfold rmTail
  rw [pyRemove_of_mem hr, ok_bind, if_neg (by simp [hid]), dictDel_of_in h1, ok_bind, dictDel_of_in h2, ok_bind]
  exact ⟨_, rfl⟩

theorem rmL1_ok (r : NRef) (l : List NRef) (s : H) (h : ∀ c, l.count c ≤ (s.n c).parents.count r) :
    ∃ s', loopE (rmB1 r) l s = .ok s' := by
  refine loopE_ok (rmB1 r) (fun l s => ∀ c, l.count c ≤ (s.n c).parents.count r) ?_ l s h
  intro x l s hI
  have hx : r ∈ (s.n x).parents := by
    have := hI x; rw [List.count_cons_self] at this
    exact List.count_pos_iff.1 (by omega)
  refine ⟨s.setN x { s.n x with parents := (s.n x).parents.erase r }, ?_, ?_⟩
  · unfold rmB1; rw [pyRemove_of_mem hx]; rfl
  · intro c
    show l.count c ≤ ((if c = x then _ else s.n c) : PyNode).parents.count r
    by_cases hc : c = x
    · subst hc; rw [if_pos rfl]; show _ ≤ ((s.n c).parents.erase r).count r
      rw [List.count_erase_self]; have := hI c; rw [List.count_cons_self] at this; omega
    · rw [if_neg hc]; have := hI c; rw [List.count_cons_of_ne (Ne.symm hc)] at this; exact this

theorem rmL2_ok (r : NRef) (l : List NRef) (s : H) (h : ∀ c, l.count c ≤ (s.n c).children.count r) :
    ∃ s', loopE (rmB2 r) l s = .ok s' := by
  refine loopE_ok (rmB2 r) (fun l s => ∀ c, l.count c ≤ (s.n c).children.count r) ?_ l s h
  intro x l s hI
  have hx : r ∈ (s.n x).children := by
    have := hI x; rw [List.count_cons_self] at this
    exact List.count_pos_iff.1 (by omega)
  refine ⟨s.setN x { s.n x with children := (s.n x).children.erase r }, ?_, ?_⟩
  · unfold rmB2; rw [pyRemove_of_mem hx]; rfl
  · intro c
    show l.count c ≤ ((if c = x then _ else s.n c) : PyNode).children.count r
    by_cases hc : c = x
    · subst hc; rw [if_pos rfl]; show _ ≤ ((s.n c).children.erase r).count r
      rw [List.count_erase_self]; have := hI c; rw [List.count_cons_self] at this; omega
    · rw [if_neg hc]; have := hI c; rw [List.count_cons_of_ne (Ne.symm hc)] at this; exact this

theorem undo_aobj_ne (s : St) (a n b : Nat) (h : b ≠ a) : (undo s a n).aobj b = s.aobj b := by
  rcases undo_cases s a n with e | e <;> rw [e]
  unfold undoStep; rw [updA_aobj, if_neg h]; rfl

theorem rmL3_ok (r : NRef) (l : List ARef) (s : H) (hnd : l.Nodup)
    (h : ∀ a ∈ l, r ∈ (s.a a).reached_attack_steps) : ∃ s', loopE (rmB3 r) l s = .ok s' := by
  refine loopE_ok (rmB3 r) (fun l s => l.Nodup ∧ ∀ a ∈ l, r ∈ (s.a a).reached_attack_steps) ?_ l s ⟨hnd, h⟩
  intro a l s ⟨hnd, hI⟩
  rw [List.nodup_cons] at hnd
  obtain ⟨s', hs'⟩ := undo_ok s a r (fun _ => hI a List.mem_cons_self)
  refine ⟨s', hs', hnd.2, fun b hb => ?_⟩
  have hne : b ≠ a := fun e => hnd.1 (e ▸ hb)
  have t := undo_tie s s' a r 0 0 hs'
  have : (absS s' 0 0).aobj b = (absS s 0 0).aobj b := by rw [t, undo_aobj_ne _ _ _ _ hne]
  have : (s'.a b).reached_attack_steps = (s.a b).reached_attack_steps := congrArg AttObj.reached this
  rw [this]; exact hI b (List.mem_cons_of_mem _ hb)

theorem rmL4_ok (r : NRef) (l : List ARef) (s : H) : ∃ s', loopE (rmB4 r) l s = .ok s' :=
  loopE_ok (rmB4 r) (fun _ _ => True) (fun _ _ _ _ => ⟨_, rfl, trivial⟩) l s trivial

end TG
theorem remove_node_ok (s : H) (r : NRef) (nf af : Nat)
    (hc : Consistent (absS s nf af)) (hx : NamesExact (absS s nf af)) (hr : r ∈ s.nodes)
    (hid : (s.n r).id.isSome) :
    ∃ s', graph_remove_node s r = .ok s' := by
  have hr' : r ∈ (absS s nf af).nodes := hr
  -- phase 1
  obtain ⟨s1, h1⟩ := rmL1_ok r (s.n r).children s (by
    intro c
    by_cases hm : c ∈ (s.n r).children
    · exact Nat.le_of_eq (hc.nodes.mirror r hr' c (hc.nodes.children_mem r hr' c hm))
    · rw [List.count_eq_zero.2 hm]; exact Nat.zero_le _)
  have t1 : absS s1 nf af = rn1 (absS s nf af) r :=
    loopE_tie (rmB1 r) (fun s => absS s nf af) _ (rmB1_tie r nf af) _ s s1 h1
  have n1 : ∀ x ∈ s.nodes, (absS s1 nf af).nobj x =
      { (absS s nf af).nobj x with parents := ((absS s nf af).nobj x).parents.filter (· ≠ r) } := by
    intro x hx'; rw [t1]; exact rn1_nobj_of_mem _ r hc.nodes hr' hx'
  -- phase 2
  obtain ⟨s2, h2⟩ := rmL2_ok r (s1.n r).parents s1 (by
    intro p
    have e1 : (s1.n r).parents = (s.n r).parents.filter (· ≠ r) := congrArg NodeObj.parents (n1 r hr)
    rw [e1]
    by_cases hm : p ∈ (s.n r).parents.filter (· ≠ r)
    · rw [mem_filter_ne] at hm
      have hp : p ∈ s.nodes := hc.nodes.parents_mem r hr' p hm.1
      have e2 : (s1.n p).children = (s.n p).children := congrArg NodeObj.children (n1 p hp)
      rw [e2, count_filter_ne, if_neg hm.2]
      exact Nat.le_of_eq (hc.nodes.mirror p hp r hr').symm
    · rw [List.count_eq_zero.2 hm]; exact Nat.zero_le _)
  have t2 : absS s2 nf af = rn2 (absS s nf af) r := by
    have := loopE_tie (rmB2 r) (fun s => absS s nf af)
      (fun s p => updN s p (fun x => { x with children := x.children.erase r })) (rmB2_tie r nf af) _ s1 s2 h2
    rw [this]
    show List.foldl _ (absS s1 nf af) ((absS s1 nf af).nobj r).parents = _
    rw [t1]; rfl
  -- phase 3
  have e3 : (s2.n r).compromised_by = (s.n r).compromised_by := by
    show ((absS s2 nf af).nobj r).compBy = _
    rw [t2, rn2_compBy]; rfl
  obtain ⟨s3, h3⟩ := rmL3_ok r (s2.n r).compromised_by s2 (by rw [e3]; exact hc.comp.compBy_nodup r hr') (by
    intro a ha
    rw [e3] at ha
    have haa : a ∈ (absS s nf af).attackers := hc.comp.compBy_mem r hr' a ha
    show r ∈ ((absS s2 nf af).aobj a).reached
    rw [t2, rn2_aobj]
    exact (hc.comp.mirror a haa r hr').2 ha)
  have t3 : absS s3 nf af = rn3 (absS s nf af) r := by
    have := loopE_tie (rmB3 r) (fun s => absS s nf af) (fun s a => undo s a r) (rmB3_tie r nf af) _ s2 s3 h3
    rw [this]
    show List.foldl _ (absS s2 nf af) ((absS s2 nf af).nobj r).compBy = _
    rw [t2]; rfl
  -- phase 4
  obtain ⟨s4, h4⟩ := rmL4_ok r s3.attackers s3
  have t4 : absS s4 nf af = rn4 (absS s nf af) r := by
    have := loopE_tie (rmB4 r) (fun s => absS s nf af)
      (fun s a => updA s a (fun x => { x with entry := x.entry.filter (· ≠ r) })) (rmB4_tie r nf af) _ s3 s4 h4
    rw [this]
    show List.foldl _ (absS s3 nf af) (absS s3 nf af).attackers = _
    rw [t3]; rfl
  -- the rest
  have hf := rn4_frame (absS s nf af) r
  have hd := rn4_keepsData (absS s nf af) r r
  have idf : IdFrame s s4 :=
    (((loopE_idFrame _ (rmB1_idFrame r) _ _ _ h1).trans (loopE_idFrame _ (rmB2_idFrame r) _ _ _ h2)).trans
      (loopE_idFrame _ (rmB3_idFrame r) _ _ _ h3)).trans (loopE_idFrame _ (rmB4_idFrame r) _ _ _ h4)
  have hid4 : (s4.n r).id.isSome = true := by rw [idf.nid]; exact hid
  obtain ⟨s', ht⟩ := rmTail_ok r s4
    (by show r ∈ (absS s4 nf af).nodes; rw [t4, hf.nodes]; exact hr)
    hid4
    (by
      rw [dictIn_eq_dget]
      show (dget (absS s4 nf af).idIdx ((absS s4 nf af).nobj r).id).isSome = true
      rw [t4, hf.idIdx, hd.id, (hc.idx.id_exact _ r).2 ⟨hr', rfl⟩]; rfl)
    (by
      rw [dictIn_eq_dget, full_name_tie s4 r (fun _ => hid4)]
      show (dget (absS s4 nf af).nameIdx (fullName ((absS s4 nf af).nobj r))).isSome = true
      rw [t4, hf.nameIdx, hd.fullName, (hx _ r).2 ⟨hr', rfl⟩]; rfl)
  exact ⟨s', by rw [graph_remove_node_eq, h1, ok_bind, h2, ok_bind, h3, ok_bind, h4, ok_bind, ht]⟩
namespace TG

/-! ## `remove_attacker` -/

def raB (a : ARef) (s : H) (n : NRef) : Except PyErr H := attacker_undo_compromise s a n
def raTail (a : ARef) (s : H) : Except PyErr H :=
  (pyRemove s.attackers a).bind fun l =>
    if (!(s.a a).id.isSome) = true then .error .valueError else
    (dictDel s._id_to_attacker (optIntGet (s.a a).id)).bind fun d =>
    .ok { s with attackers := l, _id_to_attacker := d }

theorem graph_remove_attacker_eq (s : H) (a : ARef) :
    graph_remove_attacker s a = (loopE (raB a) (s.a a).reached_attack_steps s).bind fun s1 => raTail a s1 := rfl

theorem raTail_tie (a : ARef) (nf af : Nat) (s s' : H) (h : raTail a s = .ok s') :
    absS s' nf af = { absS s nf af with
      attackers := (absS s nf af).attackers.erase a
      attIdx := ddel (absS s nf af).attIdx ((absS s nf af).aobj a).id } := by
  unfold raTail at h
  obtain ⟨l, hl, h⟩ := bind_ok h
  split at h
  · cases h
  · obtain ⟨d, hd, h⟩ := bind_ok h
    cases h
    rw [pyRemove_ok hl, dictDel_ok hd]
    rfl

theorem remove_attacker_phases (s s' : H) (a : ARef) (nf af : Nat) (h : graph_remove_attacker s a = .ok s') :
    ∃ s1, loopE (raB a) (s.a a).reached_attack_steps s = .ok s1 ∧ absS s1 nf af = ra1 (absS s nf af) a ∧
      raTail a s1 = .ok s' := by
  rw [graph_remove_attacker_eq] at h
  obtain ⟨s1, h1, h⟩ := bind_ok h
  exact ⟨s1, h1, loopE_tie (raB a) (fun s => absS s nf af) (fun s n => undo s a n)
    (fun s n s' hs => undo_tie s s' a n nf af hs) _ s s1 h1, h⟩

end TG
theorem remove_attacker_tie (s s' : H) (a : ARef) (nf af : Nat)
    (h : graph_remove_attacker s a = .ok s') :
    absS s' nf af = removeAttacker (absS s nf af) a := by
  obtain ⟨s1, _, t1, ht⟩ := remove_attacker_phases s s' a nf af h
  rw [raTail_tie a nf af s1 s' ht, t1, removeAttacker_eq]
namespace TG

theorem raL_ok (a : ARef) (l : List NRef) (s : H) (hnd : l.Nodup)
    (h : ∀ n ∈ l, n ∈ (s.a a).reached_attack_steps) : ∃ s', loopE (raB a) l s = .ok s' := by
  refine loopE_ok (raB a) (fun l s => l.Nodup ∧ ∀ n ∈ l, n ∈ (s.a a).reached_attack_steps) ?_ l s ⟨hnd, h⟩
  intro n l s ⟨hnd, hI⟩
  rw [List.nodup_cons] at hnd
  obtain ⟨s', hs'⟩ := undo_ok s a n (fun _ => hI n List.mem_cons_self)
  refine ⟨s', hs', hnd.2, fun m hm => ?_⟩
  have hne : m ≠ n := fun e => hnd.1 (e ▸ hm)
  have t := undo_tie s s' a n 0 0 hs'
  show m ∈ ((absS s' 0 0).aobj a).reached
  rw [t]
  rcases undo_cases (absS s 0 0) a n with e | e <;> rw [e]
  · exact hI m (List.mem_cons_of_mem _ hm)
  · rw [undoStep_reached, if_pos rfl]
    exact (List.mem_erase_of_ne hne).2 (hI m (List.mem_cons_of_mem _ hm))

end TG
theorem remove_attacker_ok (s : H) (a : ARef) (nf af : Nat)
    (hc : Consistent (absS s nf af)) (ha : a ∈ s.attackers) (hid : (s.a a).id.isSome) :
    ∃ s', graph_remove_attacker s a = .ok s' := by
  have ha' : a ∈ (absS s nf af).attackers := ha
  obtain ⟨s1, h1⟩ := raL_ok a (s.a a).reached_attack_steps s (hc.comp.reached_nodup a ha') (fun _ h => h)
  have t1 : absS s1 nf af = ra1 (absS s nf af) a :=
    loopE_tie (raB a) (fun s => absS s nf af) (fun s n => undo s a n)
      (fun s n s' hs => undo_tie s s' a n nf af hs) _ s s1 h1
  have idf : IdFrame s s1 := loopE_idFrame _ (fun _ _ _ h => undo_idFrame h) _ _ _ h1
  have hf := ra1_frame (absS s nf af) a
  have hidm : ((ra1 (absS s nf af) a).aobj a).id = ((absS s nf af).aobj a).id := by
    unfold ra1
    refine foldl_inv (fun t : St => (t.aobj a).id = ((absS s nf af).aobj a).id) _ _ _ ?_ rfl
    intro t n _ ht
    rw [← ht]
    rcases undo_cases t a n with e | e <;> rw [e]
    exact undoStep_aid t a n a
  refine ⟨{ s1 with attackers := s1.attackers.erase a,
                    _id_to_attacker := ddel s1._id_to_attacker (optIntGet (s1.a a).id) }, ?_⟩
  rw [graph_remove_attacker_eq, h1, ok_bind]
  unfold raTail
  have hm : a ∈ s1.attackers := by show a ∈ (absS s1 nf af).attackers; rw [t1, hf.attackers]; exact ha
  have hin : dictIn s1._id_to_attacker (optIntGet (s1.a a).id) = true := by
    rw [dictIn_eq_dget]
    show (dget (absS s1 nf af).attIdx ((absS s1 nf af).aobj a).id).isSome = true
    rw [t1, hf.attIdx, hidm, (hc.attIdx.id_exact _ a).2 ⟨ha', rfl⟩]; rfl
  rw [pyRemove_of_mem hm, ok_bind, if_neg (by rw [idf.aid]; simp [hid]), dictDel_of_in hin, ok_bind]
namespace TG

/-! ## `add_attacker` -/

def aaKey (s : H) (aid : Option Int) : Int := match aid with | some v => v | none => s.next_attacker_id
theorem aaKey_eq (s : H) (aid : Option Int) : aaKey s aid = aid.getD s.next_attacker_id := by cases aid <;> rfl

def aaS0 (s : H) (a : ARef) (k : Int) : H := s.setA a { s.a a with id := some k }
def aaS1 (s : H) (a : ARef) (k : Int) : H :=
  { aaS0 s a k with next_attacker_id := max (optIntGet ((aaS0 s a k).a a).id + 1) (aaS0 s a k).next_attacker_id }

def aaFin (a : ARef) (s : H) : H :=
  { s with attackers := s.attackers ++ [a], _id_to_attacker := dictSet s._id_to_attacker (optIntGet (s.a a).id) a }

/-- the guard at the head of `add_attacker` (b653290): `attacker.id is not None and
self._id_to_attacker.get(attacker.id) is attacker` — the object is already part of the graph -/
def attIsPart (s : H) (a : ARef) : Bool :=
  (s.a a).id.isSome && (dictGet s._id_to_attacker (optIntGet (s.a a).id) == some a)

theorem attIsPart_iff (s : H) (a : ARef) :
    attIsPart s a = true ↔ ∃ k, (s.a a).id = some k ∧ dictGet s._id_to_attacker k = some a := by
  unfold attIsPart
  cases h : (s.a a).id with
  | none => simp
  | some k => simp [optIntGet]

theorem attIsPart_of_id_none (s : H) (a : ARef) (h : (s.a a).id = none) : attIsPart s a = false := by
  unfold attIsPart; rw [h]; rfl

/-- what the two lookup loops of `add_attacker` (since b507c7f: they only *read* the graph) compute: the nodes the
ids stand for, in order — or nothing, if some id names no node (`AttackGraphException`) -/
def aaResolve (s : H) : List Int → Option (List NRef)
  | [] => some []
  | i :: l =>
    match graph_get_node_by_id s i with
    | some v => (aaResolve s l).map (v :: ·)
    | none => none

/-- the value of the local variable `node` after such a loop -/
def aaLast (s : H) (nd : Option NRef) : List Int → Option NRef
  | [] => nd
  | i :: l => aaLast s (graph_get_node_by_id s i) l

/-- the bodies of the four loops: two lookups (states: `(reached_nodes, node)` / `(node, entry_point_nodes)`), two
updates of the heap -/
def aaRes1 (s : H) (i : Int) (st : List NRef × Option NRef) : Except PyErr (ForInStep (List NRef × Option NRef)) :=
  match graph_get_node_by_id s i with
  | some v => Except.pure (ForInStep.yield (st.1 ++ [v], graph_get_node_by_id s i))
  | none => .error .attackGraphException
def aaRes2 (s : H) (i : Int) (st : Option NRef × List NRef) : Except PyErr (ForInStep (Option NRef × List NRef)) :=
  match graph_get_node_by_id s i with
  | some v => Except.pure (ForInStep.yield (graph_get_node_by_id s i, st.2 ++ [v]))
  | none => .error .attackGraphException
def aaComp (a : ARef) (s : H) (n : NRef) : H := attacker_compromise s a n
def aaPush (a : ARef) (s : H) (n : NRef) : H :=
  s.setA a { s.a a with entry_points := (s.a a).entry_points ++ [n] }

/-- the heap after a successful `add_attacker` that has found the nodes `rn` (reached) and `en` (entry points) -/
def aaApply (s : H) (a : ARef) (k : Int) (rn en : List NRef) : H :=
  aaFin a (en.foldl (aaPush a) (rn.foldl (aaComp a) (aaS1 s a k)))

theorem graph_add_attacker_eq' (s : H) (a : ARef) (aid : Option Int) (e re : List Int) :
    graph_add_attacker s a aid e re =
      if attIsPart s a = true then .error .valueError else
      if dictIn s._id_to_attacker (aaKey s aid) = true then .error .valueError else
      (forIn re (([], none) : List NRef × Option NRef) (aaRes1 s)).bind fun st1 =>
      (forIn e ((st1.2, []) : Option NRef × List NRef) (aaRes2 s)).bind fun st2 =>
      (forIn st1.1 (aaS1 s a (aaKey s aid)) (fun n t => Except.pure (ForInStep.yield (aaComp a t n)))).bind fun s2 =>
      (forIn st2.2 s2 (fun n t => Except.pure (ForInStep.yield (aaPush a t n)))).bind fun s3 =>
      .ok (aaFin a s3) := rfl

theorem forIn_aaRes1 (s : H) (l : List Int) (acc : List NRef) (nd : Option NRef) :
    forIn l (acc, nd) (aaRes1 s) =
      match aaResolve s l with
      | some r => Except.ok (acc ++ r, aaLast s nd l)
      | none => Except.error .attackGraphException := by
  induction l generalizing acc nd with
  | nil => simp [aaResolve, aaLast]; rfl
  | cons i l ih =>
    rw [List.forIn_cons]
    unfold aaRes1 aaResolve aaLast
    cases hg : graph_get_node_by_id s i with
    | none => rfl
    | some v =>
      show forIn l (acc ++ [v], some v) (aaRes1 s) = _
      rw [ih]
      cases aaResolve s l with
      | none => rfl
      | some r => simp

theorem forIn_aaRes2 (s : H) (l : List Int) (acc : List NRef) (nd : Option NRef) :
    forIn l (nd, acc) (aaRes2 s) =
      match aaResolve s l with
      | some r => Except.ok (aaLast s nd l, acc ++ r)
      | none => Except.error .attackGraphException := by
  induction l generalizing acc nd with
  | nil => simp [aaResolve, aaLast]; rfl
  | cons i l ih =>
    rw [List.forIn_cons]
    unfold aaRes2 aaResolve aaLast
    cases hg : graph_get_node_by_id s i with
    | none => rfl
    | some v =>
      show forIn l (some v, acc ++ [v]) (aaRes2 s) = _
      rw [ih]
      cases aaResolve s l with
      | none => rfl
      | some r => simp

/-- a `for` loop of the translated code whose body neither raises nor leaves the loop is a fold -/
theorem forIn_pure_foldl {α σ : Type} (g : σ → α → σ) (l : List α) (s : σ) :
    forIn l s (fun x t => (Except.pure (ForInStep.yield (g t x)) : Except PyErr _)) = .ok (l.foldl g s) := by
  induction l generalizing s with
  | nil => rfl
  | cons x l ih => rw [List.forIn_cons]; exact ih _

/-- `add_attacker` (since b507c7f): every `raise` is decided by the heap the call starts with — object already
part of the graph, id in use, an id that names no node —, and only if there is none the heap is written -/
theorem graph_add_attacker_eq (s : H) (a : ARef) (aid : Option Int) (e re : List Int) :
    graph_add_attacker s a aid e re =
      if attIsPart s a = true then .error .valueError else
      if dictIn s._id_to_attacker (aaKey s aid) = true then .error .valueError else
      match aaResolve s re with
      | none => .error .attackGraphException
      | some rn =>
        match aaResolve s e with
        | none => .error .attackGraphException
        | some en => .ok (aaApply s a (aaKey s aid) rn en) := by
  rw [graph_add_attacker_eq']
  split
  · rfl
  split
  · rfl
  rw [forIn_aaRes1]
  cases aaResolve s re with
  | none => rfl
  | some rn =>
    show (forIn e ((aaLast s none re, []) : Option NRef × List NRef) (aaRes2 s)).bind _ = _
    rw [forIn_aaRes2]
    cases aaResolve s e with
    | none => rfl
    | some en =>
      dsimp only [List.nil_append]
      rw [forIn_pure_foldl (aaComp a)]
      dsimp only [Except.bind]
      rw [forIn_pure_foldl (aaPush a)]
      rfl

theorem aaResolve_eq_none (s : H) (l : List Int) :
    aaResolve s l = none ↔ ∃ i ∈ l, graph_get_node_by_id s i = none := by
  induction l with
  | nil => simp [aaResolve]
  | cons i l ih =>
    unfold aaResolve
    cases hg : graph_get_node_by_id s i with
    | none => simp [hg]
    | some v => simp [hg, ih]

theorem aaResolve_all (s : H) (l : List Int) (nf af : Nat) :
    (aaResolve s l).isSome = l.all (fun i => (getNodeById (absS s nf af) i).isSome) := by
  induction l with
  | nil => rfl
  | cons i l ih =>
    unfold aaResolve
    rw [List.all_cons, ← get_node_by_id_tie s i nf af, ← ih]
    cases graph_get_node_by_id s i with
    | none => rfl
    | some v => simp

/-- the model looks every id up again while it folds over the id lists; the lookups are those of the initial
heap, because neither `compromise` nor the entry-point update touches the id index -/
theorem foldl_aaReach_resolve (a : Nat) (s : H) (l : List Int) (rn : List NRef)
    (h : aaResolve s l = some rn) (t : St) (ht : t.idIdx = s._id_to_node) :
    l.foldl (aaReach a) t = rn.foldl (fun t n => compromise t a n) t := by
  induction l generalizing rn t with
  | nil => cases h; rfl
  | cons i l ih =>
    unfold aaResolve at h
    cases hg : graph_get_node_by_id s i with
    | none => rw [hg] at h; cases h
    | some v =>
      rw [hg] at h
      cases hr : aaResolve s l with
      | none => rw [hr] at h; cases h
      | some r =>
        rw [hr] at h; cases h
        have hl : getNodeById t i = some v := by
          unfold getNodeById; rw [ht, ← dictGet_eq_dget]; exact hg
        rw [List.foldl_cons, List.foldl_cons]
        have : aaReach a t i = compromise t a v := by unfold aaReach; rw [hl]
        rw [this]
        exact ih r hr _ (by rw [(compromise_frame t a v).idIdx]; exact ht)

theorem foldl_aaEntry_resolve (a : Nat) (s : H) (l : List Int) (en : List NRef)
    (h : aaResolve s l = some en) (t : St) (ht : t.idIdx = s._id_to_node) :
    l.foldl (aaEntry a) t = en.foldl (fun t n => updA t a (fun o => { o with entry := o.entry ++ [n] })) t := by
  induction l generalizing en t with
  | nil => cases h; rfl
  | cons i l ih =>
    unfold aaResolve at h
    cases hg : graph_get_node_by_id s i with
    | none => rw [hg] at h; cases h
    | some v =>
      rw [hg] at h
      cases hr : aaResolve s l with
      | none => rw [hr] at h; cases h
      | some r =>
        rw [hr] at h; cases h
        have hl : getNodeById t i = some v := by
          unfold getNodeById; rw [ht, ← dictGet_eq_dget]; exact hg
        rw [List.foldl_cons, List.foldl_cons]
        have : aaEntry a t i = updA t a (fun o => { o with entry := o.entry ++ [v] }) := by unfold aaEntry; rw [hl]
        rw [this]
        exact ih r hr _ (by rw [(Frame.updA t a _).idIdx]; exact ht)

theorem compromise_aid (s : H) (a : ARef) (n : NRef) (b : ARef) : ((attacker_compromise s a n).a b).id = (s.a b).id := by
  rw [compromise_eq]
  split
  · rfl
  · show (if b = a then _ else _ : PyAttacker).id = _
    by_cases hb : b = a
    · subst hb; rw [if_pos rfl]
    · rw [if_neg hb]; rfl

theorem absS_foldl_aaComp (a : ARef) (nf af : Nat) (rn : List NRef) (s : H) :
    absS (rn.foldl (aaComp a) s) nf af = rn.foldl (fun t n => compromise t a n) (absS s nf af) := by
  induction rn generalizing s with
  | nil => rfl
  | cons n rn ih => rw [List.foldl_cons, List.foldl_cons, ih]; unfold aaComp; rw [compromise_tie]

theorem absS_foldl_aaPush (a : ARef) (nf af : Nat) (en : List NRef) (s : H) :
    absS (en.foldl (aaPush a) s) nf af =
      en.foldl (fun t n => updA t a (fun o => { o with entry := o.entry ++ [n] })) (absS s nf af) := by
  induction en generalizing s with
  | nil => rfl
  | cons n en ih =>
    rw [List.foldl_cons, List.foldl_cons, ih]; unfold aaPush
    rw [absS_setA s a _ (fun o => { o with entry := o.entry ++ [n] }) nf af rfl]

theorem aaReach_aid (a : Nat) (t : St) (i : Int) (b : Nat) : ((aaReach a t i).aobj b).id = (t.aobj b).id := by
  unfold aaReach; split
  · exact (compromise_aobj_data t a _ b).1
  · rfl
theorem aaEntry_aid (a : Nat) (t : St) (i : Int) (b : Nat) : ((aaEntry a t i).aobj b).id = (t.aobj b).id := by
  unfold aaEntry; split
  · rw [updA_aobj]; split <;> rfl
  · rfl

theorem absS_aaS1 (s : H) (a : ARef) (k : Int) (nf : Nat)
    (hfresh : (s.a a).entry_points = [] ∧ (s.a a).reached_attack_steps = []) :
    absS (aaS1 s a k) nf (a + 1) = aaPre (absS s nf a) (s.a a).name k := by
  have ha : ∀ x, (aaS1 s a k).a x = if x = a then { s.a a with id := some k } else s.a x := fun _ => rfl
  unfold absS aaPre
  simp only
  congr 1
  · funext x
    rw [ha]
    by_cases hx : x = a
    · rw [if_pos hx, if_pos hx]
      unfold absA
      simp only [hfresh.1, hfresh.2]
      rfl
    · rw [if_neg hx, if_neg hx]
  · show max (optIntGet ((aaS0 s a k).a a).id + 1) s.next_attacker_id = _
    have : ((aaS0 s a k).a a).id = some k := by
      show (if a = a then _ else _ : PyAttacker).id = _
      rw [if_pos rfl]
    rw [this]; rfl

/-- the abstraction of the heap after a successful `add_attacker` on a freshly constructed attacker -/
theorem absS_aaApply (s : H) (a : ARef) (aid : Option Int) (entry reached : List Int) (rn en : List NRef) (nf : Nat)
    (hfresh : (s.a a).entry_points = [] ∧ (s.a a).reached_attack_steps = [])
    (hr : aaResolve s reached = some rn) (he : aaResolve s entry = some en) :
    absS (aaApply s a (aaKey s aid) rn en) nf (a + 1) =
      (let s2 := entry.foldl (aaEntry a) (reached.foldl (aaReach a) (aaPre (absS s nf a) (s.a a).name (aaKey s aid)))
       withAtt s2 (s2.attackers ++ [a]) (dset s2.attIdx (aaKey s aid) a)) := by
  have h0 : (aaPre (absS s nf a) (s.a a).name (aaKey s aid)).idIdx = s._id_to_node := rfl
  have e1 := foldl_aaReach_resolve a s reached rn hr _ h0
  have h1 : (reached.foldl (aaReach a) (aaPre (absS s nf a) (s.a a).name (aaKey s aid))).idIdx = s._id_to_node :=
    foldl_inv (fun t : St => t.idIdx = s._id_to_node) _ _ _ (fun t i _ ht => by rw [(aaReach_frame a t i).idIdx, ht]) h0
  have e2 := foldl_aaEntry_resolve a s entry en he _ h1
  have hid : ((List.foldl (aaEntry a) (List.foldl (aaReach a) (aaPre (absS s nf a) (s.a a).name (aaKey s aid)) reached)
      entry).aobj a).id = aaKey s aid := by
    refine foldl_inv (fun t : St => (t.aobj a).id = aaKey s aid) _ _ _ (fun t i _ ht => by rw [aaEntry_aid, ht]) ?_
    refine foldl_inv (fun t : St => (t.aobj a).id = aaKey s aid) _ _ _ (fun t i _ ht => by rw [aaReach_aid, ht]) ?_
    show (if a = a then _ else _ : AttObj).id = _
    rw [if_pos rfl]
  have habs : absS (en.foldl (aaPush a) (rn.foldl (aaComp a) (aaS1 s a (aaKey s aid)))) nf (a + 1) =
      entry.foldl (aaEntry a) (reached.foldl (aaReach a) (aaPre (absS s nf a) (s.a a).name (aaKey s aid))) := by
    rw [absS_foldl_aaPush, absS_foldl_aaComp, absS_aaS1 s a _ nf hfresh, e2, e1]
  have : ∀ t : H, absS (aaFin a t) nf (a + 1) =
      withAtt (absS t nf (a + 1)) ((absS t nf (a + 1)).attackers ++ [a])
        (dset (absS t nf (a + 1)).attIdx ((absS t nf (a + 1)).aobj a).id a) := by
    intro t; unfold aaFin; rw [dictSet_eq_dset]; rfl
  unfold aaApply
  rw [this, habs, hid]

end TG
/-- `add_attacker(attacker, attacker_id, entry_points, reached_attack_steps)` for a freshly constructed
`Attacker` object (no entry points, nothing reached), allocated at `afresh` -/
theorem add_attacker_tie (s s' : H) (a : ARef) (aid : Option Int) (entry reached : List Int) (nf : Nat)
    (hfresh : (s.a a).entry_points = [] ∧ (s.a a).reached_attack_steps = [])
    (h : graph_add_attacker s a aid entry reached = .ok s') :
    addAttacker (absS s nf a) (s.a a).name aid entry reached = .ok (absS s' nf (a + 1)) := by
  rw [graph_add_attacker_eq] at h
  split at h
  · cases h
  split at h
  · cases h
  rename_i hd
  cases hr : aaResolve s reached with
  | none => rw [hr] at h; cases h
  | some rn =>
    cases he : aaResolve s entry with
    | none => rw [hr, he] at h; cases h
    | some en =>
      rw [hr, he] at h
      cases h
      have hk : aid.getD (absS s nf a).nextAtt = aaKey s aid := (aaKey_eq s aid).symm
      rw [addAttacker_eq, hk]
      rw [dictIn_eq_dget] at hd
      have hd' : ¬ (dget (absS s nf a).attIdx (aaKey s aid)).isSome = true := hd
      have hall : ¬ ((!(reached.all (fun i => (getNodeById (absS s nf a) i).isSome) &&
          entry.all (fun i => (getNodeById (absS s nf a) i).isSome))) = true) := by
        rw [← aaResolve_all, ← aaResolve_all, hr, he]; simp
      rw [if_neg hd', if_neg hall]
      exact (congrArg Except.ok (absS_aaApply s a aid entry reached rn en nf hfresh hr he)).symm

/-- what makes `add_attacker` raise, as a condition on the heap the call starts with -/
def aaRejects (s : H) (a : ARef) (aid : Option Int) (entry reached : List Int) : Prop :=
  attIsPart s a = true ∨ dictIn s._id_to_attacker (aaKey s aid) = true ∨
    (∃ i ∈ reached, graph_get_node_by_id s i = none) ∨ (∃ i ∈ entry, graph_get_node_by_id s i = none)

/-- `add_attacker` raises iff the attacker object is already part of the graph, the id is in use, or some id of
`reached_attack_steps` / `entry_points` names no node — all of it read off the heap *before* the call; otherwise it
returns the heap `aaApply` (the attacker gets its id, compromises, takes its entry points, is registered) -/
theorem add_attacker_raises_iff (s : H) (a : ARef) (aid : Option Int) (entry reached : List Int) :
    (∃ err, graph_add_attacker s a aid entry reached = .error err) ↔ aaRejects s a aid entry reached := by
  rw [graph_add_attacker_eq]
  unfold aaRejects
  by_cases h1 : attIsPart s a = true
  · rw [if_pos h1]; exact ⟨fun _ => Or.inl h1, fun _ => ⟨_, rfl⟩⟩
  rw [if_neg h1]
  by_cases h2 : dictIn s._id_to_attacker (aaKey s aid) = true
  · rw [if_pos h2]; exact ⟨fun _ => Or.inr (Or.inl h2), fun _ => ⟨_, rfl⟩⟩
  rw [if_neg h2]
  cases hr : aaResolve s reached with
  | none => exact ⟨fun _ => Or.inr (Or.inr (Or.inl ((aaResolve_eq_none s reached).1 hr))), fun _ => ⟨_, rfl⟩⟩
  | some rn =>
    cases he : aaResolve s entry with
    | none => exact ⟨fun _ => Or.inr (Or.inr (Or.inr ((aaResolve_eq_none s entry).1 he))), fun _ => ⟨_, rfl⟩⟩
    | some en =>
      refine ⟨fun ⟨_, h⟩ => (by cases h), fun h => ?_⟩
      rcases h with h | h | h | h
      · exact absurd h h1
      · exact absurd h h2
      · rw [(aaResolve_eq_none s reached).2 h] at hr; cases hr
      · rw [(aaResolve_eq_none s entry).2 h] at he; cases he

/-- which exception: `ValueError` for an object that is already part / an id in use, otherwise
`AttackGraphException` -/
theorem add_attacker_error_kind (s : H) (a : ARef) (aid : Option Int) (entry reached : List Int) (err : PyErr)
    (h : graph_add_attacker s a aid entry reached = .error err) :
    (err = .valueError ∧ (attIsPart s a = true ∨ dictIn s._id_to_attacker (aaKey s aid) = true)) ∨
    (err = .attackGraphException ∧ attIsPart s a = false ∧ dictIn s._id_to_attacker (aaKey s aid) = false ∧
      ((∃ i ∈ reached, graph_get_node_by_id s i = none) ∨ (∃ i ∈ entry, graph_get_node_by_id s i = none))) := by
  rw [graph_add_attacker_eq] at h
  by_cases h1 : attIsPart s a = true
  · rw [if_pos h1] at h; cases h; exact Or.inl ⟨rfl, Or.inl h1⟩
  rw [if_neg h1] at h
  by_cases h2 : dictIn s._id_to_attacker (aaKey s aid) = true
  · rw [if_pos h2] at h; cases h; exact Or.inl ⟨rfl, Or.inr h2⟩
  rw [if_neg h2] at h
  have h1' : attIsPart s a = false := by simpa using h1
  have h2' : dictIn s._id_to_attacker (aaKey s aid) = false := by simpa using h2
  cases hr : aaResolve s reached with
  | none =>
    rw [hr] at h; cases h
    exact Or.inr ⟨rfl, h1', h2', Or.inl ((aaResolve_eq_none s reached).1 hr)⟩
  | some rn =>
    cases he : aaResolve s entry with
    | none =>
      rw [hr, he] at h; cases h
      exact Or.inr ⟨rfl, h1', h2', Or.inr ((aaResolve_eq_none s entry).1 he)⟩
    | some en => rw [hr, he] at h; cases h

/-- the exception direction for a freshly constructed attacker (its `id` is `None`): if the translated
`add_attacker` raises, the model's `addAttacker` rejects with the same kind of exception -/
theorem add_attacker_error_fresh (s : H) (a : ARef) (aid : Option Int) (entry reached : List Int) (nf : Nat)
    (err : PyErr) (hid : (s.a a).id = none) (h : graph_add_attacker s a aid entry reached = .error err) :
    (err = .valueError ∧ addAttacker (absS s nf a) (s.a a).name aid entry reached = .error .valueError) ∨
    (err = .attackGraphException ∧
      addAttacker (absS s nf a) (s.a a).name aid entry reached = .error .attackGraphException) := by
  have hk : aid.getD (absS s nf a).nextAtt = aaKey s aid := (aaKey_eq s aid).symm
  rw [addAttacker_eq, hk, ← dictIn_eq_dget (κ := Int), ← aaResolve_all, ← aaResolve_all]
  rcases add_attacker_error_kind s a aid entry reached err h with ⟨he, hp | hd⟩ | ⟨he, _, hd, hu⟩
  · rw [attIsPart_of_id_none s a hid] at hp; cases hp
  · exact Or.inl ⟨he, by rw [show (absS s nf a).attIdx = s._id_to_attacker from rfl, if_pos hd]⟩
  · refine Or.inr ⟨he, ?_⟩
    rw [show (absS s nf a).attIdx = s._id_to_attacker from rfl, hd]
    rcases hu with hu | hu
    · rw [(aaResolve_eq_none s reached).2 hu]; rfl
    · rw [(aaResolve_eq_none s entry).2 hu]
      cases aaResolve s reached <;> rfl

namespace TG

theorem addAttackerObj_eq (s : St) (a : Nat) (id : Option Int) (e r : List Int) :
    addAttackerObj s a id e r =
      if dget s.attIdx (s.aobj a).id = some a then .error .valueError else
      if (dget s.attIdx (id.getD s.nextAtt)).isSome then .error .valueError else
      if !(r.all (fun i => (getNodeById s i).isSome) && e.all (fun i => (getNodeById s i).isSome)) then
        .error .attackGraphException else
      let s0 : St := { s with aobj := fun x => if x = a then { s.aobj a with id := id.getD s.nextAtt } else s.aobj x
                              nextAtt := max (id.getD s.nextAtt + 1) s.nextAtt }
      let s2 := e.foldl (aaEntry a) (r.foldl (aaReach a) s0)
      .ok (withAtt s2 (s2.attackers ++ [a]) (dset s2.attIdx (id.getD s.nextAtt) a)) := rfl

theorem attIsPart_abs (s : H) (a : ARef) (nf af : Nat) (hid : (s.a a).id.isSome = true) :
    (attIsPart s a = true) ↔ dget (absS s nf af).attIdx ((absS s nf af).aobj a).id = some a := by
  obtain ⟨k, hk⟩ := Option.isSome_iff_exists.1 hid
  rw [attIsPart_iff]
  show _ ↔ dget s._id_to_attacker ((s.a a).id.getD 0) = some a
  rw [hk, ← dictGet_eq_dget]
  constructor
  · rintro ⟨k', h1, h2⟩; cases h1; exact h2
  · intro h; exact ⟨k, rfl, h⟩

theorem absS_aaS1_obj (s : H) (a : ARef) (k : Int) (nf af : Nat) :
    absS (aaS1 s a k) nf af =
      { absS s nf af with aobj := fun x => if x = a then { absA (s.a a) with id := k } else absA (s.a x)
                          nextAtt := max (k + 1) s.next_attacker_id } := by
  have ha : ∀ x, (aaS1 s a k).a x = if x = a then { s.a a with id := some k } else s.a x := fun _ => rfl
  unfold absS
  simp only
  congr 1
  · funext x
    rw [ha]
    by_cases hx : x = a
    · rw [if_pos hx, if_pos hx]; rfl
    · rw [if_neg hx, if_neg hx]
  · show max (optIntGet ((aaS0 s a k).a a).id + 1) s.next_attacker_id = _
    have : ((aaS0 s a k).a a).id = some k := by
      show (if a = a then _ else _ : PyAttacker).id = _
      rw [if_pos rfl]
    rw [this]; rfl

/-- the abstraction of the heap after a successful `add_attacker` on an attacker object that exists already -/
theorem absS_aaApply_obj (s : H) (a : ARef) (k : Int) (entry reached : List Int) (rn en : List NRef) (nf af : Nat)
    (hr : aaResolve s reached = some rn) (he : aaResolve s entry = some en) :
    absS (aaApply s a k rn en) nf af =
      (let s2 := entry.foldl (aaEntry a) (reached.foldl (aaReach a) (absS (aaS1 s a k) nf af))
       withAtt s2 (s2.attackers ++ [a]) (dset s2.attIdx k a)) := by
  have h0 : (absS (aaS1 s a k) nf af).idIdx = s._id_to_node := rfl
  have e1 := foldl_aaReach_resolve a s reached rn hr _ h0
  have h1 : (reached.foldl (aaReach a) (absS (aaS1 s a k) nf af)).idIdx = s._id_to_node :=
    foldl_inv (fun t : St => t.idIdx = s._id_to_node) _ _ _ (fun t i _ ht => by rw [(aaReach_frame a t i).idIdx, ht]) h0
  have e2 := foldl_aaEntry_resolve a s entry en he _ h1
  have hid : ((List.foldl (aaEntry a) (List.foldl (aaReach a) (absS (aaS1 s a k) nf af) reached) entry).aobj a).id = k := by
    refine foldl_inv (fun t : St => (t.aobj a).id = k) _ _ _ (fun t i _ ht => by rw [aaEntry_aid, ht]) ?_
    refine foldl_inv (fun t : St => (t.aobj a).id = k) _ _ _ (fun t i _ ht => by rw [aaReach_aid, ht]) ?_
    show (absA (if a = a then _ else _ : PyAttacker)).id = _
    rw [if_pos rfl]; rfl
  have habs : absS (en.foldl (aaPush a) (rn.foldl (aaComp a) (aaS1 s a k))) nf af =
      entry.foldl (aaEntry a) (reached.foldl (aaReach a) (absS (aaS1 s a k) nf af)) := by
    rw [absS_foldl_aaPush, absS_foldl_aaComp, e2, e1]
  have : ∀ t : H, absS (aaFin a t) nf af =
      withAtt (absS t nf af) ((absS t nf af).attackers ++ [a]) (dset (absS t nf af).attIdx ((absS t nf af).aobj a).id a) := by
    intro t; unfold aaFin; rw [dictSet_eq_dset]; rfl
  unfold aaApply
  rw [this, habs, hid]

end TG
/-- `add_attacker(attacker, ..)` for an attacker object that has been given an id before (e.g. the object handed to
`add_attacker` a second time) is `AGS.addAttackerObj`: the same calls are rejected, with the same kind of exception,
the others have the same effect -/
theorem add_attacker_obj_tie (s : H) (a : ARef) (aid : Option Int) (entry reached : List Int) (nf af : Nat)
    (hid : (s.a a).id.isSome = true) :
    (∀ s', graph_add_attacker s a aid entry reached = .ok s' →
      addAttackerObj (absS s nf af) a aid entry reached = .ok (absS s' nf af)) ∧
    (graph_add_attacker s a aid entry reached = .error .valueError →
      addAttackerObj (absS s nf af) a aid entry reached = .error .valueError) ∧
    (graph_add_attacker s a aid entry reached = .error .attackGraphException →
      addAttackerObj (absS s nf af) a aid entry reached = .error .attackGraphException) ∧
    (∀ e, graph_add_attacker s a aid entry reached = .error e → e = .valueError ∨ e = .attackGraphException) := by
  have hp := attIsPart_abs s a nf af hid
  have hk : aid.getD (absS s nf af).nextAtt = aaKey s aid := (aaKey_eq s aid).symm
  rw [graph_add_attacker_eq, addAttackerObj_eq, hk, ← aaResolve_all, ← aaResolve_all]
  by_cases h1 : attIsPart s a = true
  · rw [if_pos h1, if_pos (hp.1 h1)]
    exact ⟨fun _ h => (by cases h), fun _ => rfl, fun h => (by cases h), fun e h => (by cases h; exact Or.inl rfl)⟩
  rw [if_neg h1, if_neg (fun h => h1 (hp.2 h))]
  by_cases h2 : dictIn s._id_to_attacker (aaKey s aid) = true
  · rw [if_pos h2, if_pos (by rw [← dictIn_eq_dget]; exact h2)]
    exact ⟨fun _ h => (by cases h), fun _ => rfl, fun h => (by cases h), fun e h => (by cases h; exact Or.inl rfl)⟩
  rw [if_neg h2, if_neg (by rw [← dictIn_eq_dget]; exact h2)]
  cases hr : aaResolve s reached with
  | none =>
    exact ⟨fun _ h => (by cases h), fun h => (by cases h), fun _ => rfl, fun e h => (by cases h; exact Or.inr rfl)⟩
  | some rn =>
    cases he : aaResolve s entry with
    | none =>
      exact ⟨fun _ h => (by cases h), fun h => (by cases h), fun _ => rfl, fun e h => (by cases h; exact Or.inr rfl)⟩
    | some en =>
      refine ⟨fun s' h => ?_, fun h => (by cases h), fun h => (by cases h), fun e h => (by cases h)⟩
      cases h
      rw [absS_aaApply_obj s a _ entry reached rn en nf af hr he, absS_aaS1_obj]
      rfl

theorem attIsPart_fresh (s : H) (a : ARef) (nf : Nat) (hc : Consistent (absS s nf a)) : attIsPart s a = false := by
  cases h : attIsPart s a with
  | false => rfl
  | true =>
    obtain ⟨k, _, hk⟩ := (attIsPart_iff s a).1 h
    rw [dictGet_eq_dget] at hk
    have hm : a ∈ s.attackers := ((hc.attIdx.id_exact k a).1 hk).1
    exact absurd (hc.attIdx.fresh a hm) (Nat.lt_irrefl _)

theorem attIsPart_member (s : H) (a : ARef) (nf af : Nat) (hc : Consistent (absS s nf af))
    (hm : a ∈ s.attackers) (hid : (s.a a).id.isSome = true) : attIsPart s a = true := by
  obtain ⟨k, hk⟩ := Option.isSome_iff_exists.1 hid
  refine (attIsPart_iff s a).2 ⟨k, hk, ?_⟩
  rw [dictGet_eq_dget]
  refine (hc.attIdx.id_exact k a).2 ⟨hm, ?_⟩
  show (s.a a).id.getD 0 = k
  rw [hk]; rfl

/-- an attacker object that is already part of the graph is rejected, whatever else is passed -/
theorem add_attacker_rejects_part (s : H) (a : ARef) (aid : Option Int) (entry reached : List Int)
    (h : attIsPart s a = true) : graph_add_attacker s a aid entry reached = .error .valueError := by
  rw [graph_add_attacker_eq, if_pos h]

namespace TG

/-! ## pruning (`apriori.py`) -/

/-- the loop condition of `prune_unviable_and_unnecessary_nodes` -/
def pruneCond (o : PyNode) : Bool := ((o.type == "or") || (o.type == "and")) && (!(o.is_viable) || !(o.is_necessary))

def pruneB (s : H) (r : NRef) : Except PyErr H := if pruneCond (s.n r) = true then graph_remove_node s r else .ok s
def pruneB' (r : NRef) (s : H) : Except PyErr (ForInStep H) :=
  if pruneCond (s.n r) = true then (graph_remove_node s r).bind fun s => Except.pure (ForInStep.yield s)
  else Except.pure (ForInStep.yield s)

theorem prune_eq' (s : H) :
    prune_unviable_and_unnecessary_nodes s = (forIn s.nodes s pruneB').bind fun s => .ok s := rfl

theorem pruneB'_eq : pruneB' = fun r s => (pruneB s r).bind (fun s' => Except.pure (ForInStep.yield s')) := by
  funext r s; unfold pruneB' pruneB
  split <;> rfl

theorem prune_loop (s : H) : prune_unviable_and_unnecessary_nodes s = loopE pruneB s.nodes s := by
  rw [prune_eq', pruneB'_eq]
  show (loopE pruneB s.nodes s).bind _ = _
  cases loopE pruneB s.nodes s <;> rfl

private theorem ntypeOf_or' (t : String) : ntypeOf t = .or ↔ t = "or" := by
  unfold ntypeOf
  by_cases h1 : t = "or"
  · simp [h1]
  · by_cases h2 : t = "and"
    · simp [h2]
    · by_cases h3 : t = "defense"
      · simp [h3]
      · by_cases h4 : t = "exist" <;> simp [h1, h2, h3, h4]

private theorem ntypeOf_and' (t : String) : ntypeOf t = .and ↔ t = "and" := by
  unfold ntypeOf
  by_cases h1 : t = "or"
  · simp [h1]
  · by_cases h2 : t = "and"
    · simp [h2]
    · by_cases h3 : t = "defense"
      · simp [h3]
      · by_cases h4 : t = "exist" <;> simp [h1, h2, h3, h4]

theorem pruneCond_eq (o : PyNode) : pruneCond o = prunable (absN o) := by
  unfold pruneCond prunable
  have e1 : (o.type == "or") = decide ((absN o).type = .or) := by
    show _ = decide (ntypeOf o.type = .or)
    by_cases h : o.type = "or"
    · rw [decide_eq_true ((ntypeOf_or' _).2 h)]; simp [h]
    · rw [decide_eq_false (fun h' => h ((ntypeOf_or' _).1 h'))]; simp [h]
  have e2 : (o.type == "and") = decide ((absN o).type = .and) := by
    show _ = decide (ntypeOf o.type = .and)
    by_cases h : o.type = "and"
    · rw [decide_eq_true ((ntypeOf_and' _).2 h)]; simp [h]
    · rw [decide_eq_false (fun h' => h ((ntypeOf_and' _).1 h'))]; simp [h]
  rw [e1, e2]; rfl

theorem pruneB_tie (nf af : Nat) (s : H) (r : NRef) (s' : H) (h : pruneB s r = .ok s') :
    absS s' nf af = pruneStep (absS s nf af) r := by
  unfold pruneB at h
  unfold pruneStep
  have e : prunable ((absS s nf af).nobj r) = pruneCond (s.n r) := (pruneCond_eq _).symm
  rw [e]
  split at h
  · rename_i hp; rw [if_pos hp]; exact remove_node_tie s s' r nf af h
  · rename_i hp; rw [if_neg hp]; cases h; rfl

end TG
theorem prune_tie (s s' : H) (nf af : Nat)
    (h : prune_unviable_and_unnecessary_nodes s = .ok s') :
    absS s' nf af = prune (absS s nf af) := by
  rw [prune_loop] at h
  exact loopE_tie pruneB (fun s => absS s nf af) pruneStep (pruneB_tie nf af) s.nodes s s' h
namespace TG

theorem prune_idFrame (s s' : H) (h : prune_unviable_and_unnecessary_nodes s = .ok s') : IdFrame s s' := by
  rw [prune_loop] at h
  refine loopE_idFrame pruneB (fun t r t' ht => ?_) _ _ _ h
  unfold pruneB at ht
  split at ht
  · exact remove_node_idFrame t t' r ht
  · cases ht; exact IdFrame.refl t

/-- the invariant of the pruning loop: the structural invariants, ids of the remaining nodes, and the rest of
the snapshot of the node list is still in the graph -/
def PruneInv (nf af : Nat) (l : List NRef) (s : H) : Prop :=
  Consistent (absS s nf af) ∧ NamesExact (absS s nf af) ∧ (∀ r ∈ s.nodes, (s.n r).id.isSome = true) ∧
    l.Nodup ∧ ∀ r ∈ l, r ∈ s.nodes

theorem pruneB_step (nf af : Nat) (x : NRef) (l : List NRef) (s : H) (hI : PruneInv nf af (x :: l) s) :
    ∃ s', pruneB s x = .ok s' ∧ PruneInv nf af l s' := by
  obtain ⟨hc, hx, hid, hnd, hl⟩ := hI
  rw [List.nodup_cons] at hnd
  have hxm : x ∈ s.nodes := hl x List.mem_cons_self
  unfold pruneB
  by_cases hp : pruneCond (s.n x) = true
  · rw [if_pos hp]
    obtain ⟨s', hs'⟩ := remove_node_ok s x nf af hc hx hxm (hid x hxm)
    have t := remove_node_tie s s' x nf af hs'
    have idf := remove_node_idFrame s s' x hs'
    have hn : s'.nodes = s.nodes.erase x := by
      show (absS s' nf af).nodes = _
      rw [t]; exact (removeNode_spec _ x hc hxm).nodes
    refine ⟨s', hs', ?_, ?_, ?_, hnd.2, ?_⟩
    · rw [t]; exact removeNode_consistent' _ x hc hxm
    · rw [t]; exact removeNode_namesExact _ x hc hx hxm
    · intro r hr
      rw [hn] at hr
      rw [idf.nid]; exact hid r (List.mem_of_mem_erase hr)
    · intro r hr
      rw [hn]
      exact (List.mem_erase_of_ne (fun (e : r = x) => hnd.1 (e ▸ hr))).2 (hl r (List.mem_cons_of_mem _ hr))
  · rw [if_neg hp]
    exact ⟨s, rfl, hc, hx, hid, hnd.2, fun r hr => hl r (List.mem_cons_of_mem _ hr)⟩

end TG
theorem prune_ok (s : H) (nf af : Nat)
    (hc : Consistent (absS s nf af)) (hx : NamesExact (absS s nf af)) (hid : IdsSet s) :
    ∃ s', prune_unviable_and_unnecessary_nodes s = .ok s' := by
  rw [prune_loop]
  exact loopE_ok pruneB (PruneInv nf af) (pruneB_step nf af) s.nodes s
    ⟨hc, hx, hid.1, hc.nodes.nodup, fun _ h => h⟩

end MalVerif.Py.Tie
