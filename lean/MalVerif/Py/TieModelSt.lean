import MalVerif.Py.TieModelStErr
import MalVerif.PropsGen.C05
/-
Ties for the state-keeping emission of the instance-model mutators (`MalVerif/Py/GenModelSt`): where their
exceptions come from.  For each mutator `f`: `ErrIn Q (f_st s …)` with `Q (e, s') := s' = s ∨ <the guards in front of
the first write passed>` (proved by walking the `do` block, tactic `st_err`); together with the first-mode theorem
"the guards pass → `f` returns" (`PropsGen/C05.lean: *_raises_iff`, `TieModel*.lean`) and coherence this gives
"`f_st` raises → the heap is unchanged".
-/
namespace MalVerif.PyM.TieSt
open MalVerif MalVerif.PyM MalVerif.PyM.Gen MalVerif.PyM.GenSt MalVerif.PyM.Tie MalVerif.PySt

/-- from `ErrIn (s' = s ∨ G)` and "G → the first-mode function returns" to atomicity -/
theorem unchanged_of_errIn {G : Prop} {s : H} {x : StM PyErr H H} {y : Except PyErr H} (hc : erase x = y)
    (herr : ErrIn (fun p => p.2 = s ∨ G) x) (hG : G → ∃ s', y = .ok s') {e : PyErr}
    (h : (run x).2 = .error e) : (run x).1 = s := by
  rcases herr.run h with h1 | h2
  · exact h1
  · obtain ⟨s', hs'⟩ := hG h2
    rw [ok_of_erase_ok (hc.trans hs')] at h
    cases h

/-! ### `add_asset` -/

theorem add_asset_ok_of_guards (s : H) (env : ModelEnv) (a : ARef) (id : Option Int) (dup : Bool)
    (hfuel : s.asset_names.length + 1 ≤ env.whileFuel) (hG : AddAssetGuardsPass s a id dup) :
    ∃ s', model_add_asset s env a id dup = .ok s' := by
  obtain ⟨h1, h2, h3⟩ := hG
  have hnew : a ∉ s.assets := by
    intro hm
    apply h1
    rw [List.any_map, List.any_eq_true]
    exact ⟨a, hm, by simp⟩
  rw [add_asset_run s env a id dup hnew hfuel]
  have c1 : ¬ s.asset_ids.contains (id.getD s.next_id) = true := by
    cases id <;> exact h2
  rw [if_neg c1]
  cases hn : (s.a a).name with
  | none => exact ⟨_, rfl⟩
  | some n =>
    have hb : (s.asset_names.contains n && !dup) = false := by
      cases hb : (s.asset_names.contains n && !dup) with
      | false => rfl
      | true => exfalso; apply h3; rw [hn]; simpa [attrStr] using hb
    simp only [hb]
    exact ⟨_, rfl⟩

/-- **`add_asset` is atomic** (fix 4598cf1): if it raises, the heap — the asset object included — is as before.
`hfuel`: the bound of the renaming loop suffices (otherwise the *model* of the `while` loop gives up after writes) -/
theorem add_asset_st_unchanged (s : H) (env : ModelEnv) (a : ARef) (id : Option Int) (dup : Bool)
    (hfuel : s.asset_names.length + 1 ≤ env.whileFuel) {e : PyErr}
    (h : (run (model_add_asset_st s env a id dup)).2 = .error e) : (run (model_add_asset_st s env a id dup)).1 = s :=
  unchanged_of_errIn (model_add_asset_coh s env a id dup) (add_asset_st_errIn s env a id dup)
    (add_asset_ok_of_guards s env a id dup hfuel) h

/-! ### `remove_attacker`, `remove_entry_point` -/

theorem remove_entry_point_st_ok (s : H) (env : ModelEnv) (t : TRef) (a : ARef) (step : String) :
    ∃ s', attachment_remove_entry_point_st s env t a step = .ok s' := by
  obtain ⟨s', hs'⟩ := remove_entry_point_ok s env t a step
  exact ⟨s', ok_of_erase_ok ((attachment_remove_entry_point_coh s env t a step).trans hs')⟩

/-! ### `add_association` -/

theorem add_association_ok_of_validate (s : H) (env : ModelEnv) (l : LRef)
    (h : model__validate_association s env l = .ok ()) : ∃ s', model_add_association s env l = .ok s' := by
  rw [add_eq, h]; exact ⟨_, rfl⟩

/-- **`add_association` is atomic**, unconditionally: all its exceptions are those of `_validate_association`,
which does not write -/
theorem add_association_st_unchanged (s : H) (env : ModelEnv) (l : LRef) {e : PyErr}
    (h : (run (model_add_association_st s env l)).2 = .error e) : (run (model_add_association_st s env l)).1 = s :=
  unchanged_of_errIn (model_add_association_coh s env l) (add_association_st_errIn s env l)
    (add_association_ok_of_validate s env l) h

end MalVerif.PyM.TieSt
