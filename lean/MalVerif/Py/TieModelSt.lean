import MalVerif.Py.StLib
import MalVerif.Py.GenModelSt.Coh
import MalVerif.PropsGen.C05
/-
Ties for the state-keeping emission of the instance-model mutators (`MalVerif/Py/GenModelSt`): where their
exceptions come from.  For each mutator `f`: `ErrIn Q (f_st s …)` with `Q (e, s') := s' = s ∨ <the guards in front of
the first write passed>` (proved by walking the `do` block, tactic `st_err`); together with the first-mode theorem
"the guards pass → `f` returns" (`PropsGen/C05.lean: *_raises_iff`, `TieModel*.lean`) and coherence this gives
"`f_st` raises → the heap is unchanged".
-/
namespace MalVerif.PyM.TieSt
open MalVerif MalVerif.PyM MalVerif.PyM.Gen MalVerif.PyM.GenSt MalVerif.PyM.Tie MalVerif.PySt

/-- from `ErrIn (s' = s ∨ G)` and "G → the first-mode function returns" to atomicity -/
theorem unchanged_of_errIn {G : Prop} {s : H} {x : StM PyErr H H} {y : Except PyErr H} (hc : erase x = y)
    (herr : ErrIn (fun p => p.2 = s ∨ G) x) (hG : G → ∃ s', y = .ok s') {e : PyErr}
    (h : (run x).2 = .error e) : (run x).1 = s := by
  rcases herr.run h with h1 | h2
  · exact h1
  · obtain ⟨s', hs'⟩ := hG h2
    rw [ok_of_erase_ok (hc.trans hs')] at h
    cases h

/-! ### `add_asset` -/

/-- the three guards of `add_asset` in front of its first write, as the generated code tests them -/
def AddAssetGuardsPass (s : H) (a : ARef) (id : Option Int) (dup : Bool) : Prop :=
  ¬ ((s.assets.map (fun existing => (existing == a))).any _root_.id) = true ∧
  ¬ ((s.asset_ids).contains (match id with | some v => v | none => s.next_id)) = true ∧
  ¬ (((s.a a).name).isSome && ((s.asset_names).contains (attrStr (s.a a).name)) && !(dup)) = true

theorem add_asset_st_errIn (s : H) (env : ModelEnv) (a : ARef) (id : Option Int) (dup : Bool) :
    ErrIn (fun p => p.2 = s ∨ AddAssetGuardsPass s a id dup) (model_add_asset_st s env a id dup) := by
  unfold model_add_asset_st
  st_err []
  all_goals exact ⟨Or.inr ⟨by assumption, by assumption, by assumption⟩⟩

theorem add_asset_ok_of_guards (s : H) (env : ModelEnv) (a : ARef) (id : Option Int) (dup : Bool)
    (hfuel : s.asset_names.length + 1 ≤ env.whileFuel) (hG : AddAssetGuardsPass s a id dup) :
    ∃ s', model_add_asset s env a id dup = .ok s' := by
  obtain ⟨h1, h2, h3⟩ := hG
  have hnew : a ∉ s.assets := by
    intro hm
    apply h1
    rw [List.any_map, List.any_eq_true]
    exact ⟨a, hm, by simp⟩
  rw [add_asset_run s env a id dup hnew hfuel]
  have c1 : ¬ s.asset_ids.contains (id.getD s.next_id) = true := by
    cases id <;> exact h2
  rw [if_neg c1]
  cases hn : (s.a a).name with
  | none => exact ⟨_, rfl⟩
  | some n =>
    have hb : (s.asset_names.contains n && !dup) = false := by
      cases hb : (s.asset_names.contains n && !dup) with
      | false => rfl
      | true => exfalso; apply h3; rw [hn]; simpa [attrStr] using hb
    simp only [hb]
    exact ⟨_, rfl⟩

/-- **`add_asset` is atomic** (fix 4598cf1): if it raises, the heap — the asset object included — is as before.
`hfuel`: the bound of the renaming loop suffices (otherwise the *model* of the `while` loop gives up after writes) -/
theorem add_asset_st_unchanged (s : H) (env : ModelEnv) (a : ARef) (id : Option Int) (dup : Bool)
    (hfuel : s.asset_names.length + 1 ≤ env.whileFuel) {e : PyErr}
    (h : (run (model_add_asset_st s env a id dup)).2 = .error e) : (run (model_add_asset_st s env a id dup)).1 = s :=
  unchanged_of_errIn (model_add_asset_coh s env a id dup) (add_asset_st_errIn s env a id dup)
    (add_asset_ok_of_guards s env a id dup hfuel) h

/-! ### `remove_attacker`, `remove_entry_point` -/

theorem remove_attacker_st_errIn (s : H) (env : ModelEnv) (t : TRef) :
    ErrIn (fun p => p.2 = s) (model_remove_attacker_st s env t) := by
  unfold model_remove_attacker_st
  st_err []
  all_goals exact ⟨rfl⟩

theorem remove_entry_point_st_ok (s : H) (env : ModelEnv) (t : TRef) (a : ARef) (step : String) :
    ∃ s', attachment_remove_entry_point_st s env t a step = .ok s' := by
  obtain ⟨s', hs'⟩ := remove_entry_point_ok s env t a step
  exact ⟨s', ok_of_erase_ok ((attachment_remove_entry_point_coh s env t a step).trans hs')⟩

/-! ### `add_association` -/

theorem add_association_st_errIn (s : H) (env : ModelEnv) (l : LRef) :
    ErrIn (fun p => p.2 = s ∨ model__validate_association s env l = .ok ()) (model_add_association_st s env l) := by
  unfold model_add_association_st
  st_err []
  all_goals
    first
    | exact ⟨Or.inl rfl⟩
    | (refine ⟨Or.inr ?_⟩
       exact liftE_ok_iff.1 ‹liftE s (model__validate_association s env l) = Except.ok _›)

theorem add_association_ok_of_validate (s : H) (env : ModelEnv) (l : LRef)
    (h : model__validate_association s env l = .ok ()) : ∃ s', model_add_association s env l = .ok s' := by
  rw [add_eq, h]; exact ⟨_, rfl⟩

/-- **`add_association` is atomic**, unconditionally: all its exceptions are those of `_validate_association`,
which does not write -/
theorem add_association_st_unchanged (s : H) (env : ModelEnv) (l : LRef) {e : PyErr}
    (h : (run (model_add_association_st s env l)).2 = .error e) : (run (model_add_association_st s env l)).1 = s :=
  unchanged_of_errIn (model_add_association_coh s env l) (add_association_st_errIn s env l)
    (add_association_ok_of_validate s env l) h

/-! ### the removals: the guard in front of the first write passed, or the heap is unchanged -/

theorem remove_association_st_errIn (s : H) (env : ModelEnv) (l : LRef) :
    ErrIn (fun p => p.2 = s ∨ ¬ (!(pyIn (eqAssoc env s) s.associations l)) = true)
      (model_remove_association_st s env l) := by
  unfold model_remove_association_st
  st_err []
  all_goals first | exact ⟨Or.inr (by assumption)⟩ | exact ⟨fun _ _ => ⟨Or.inr (by assumption)⟩⟩

theorem remove_asset_st_errIn (s : H) (env : ModelEnv) (a : ARef) :
    ErrIn (fun p => p.2 = s ∨ ¬ (!(pyIn (eqAsset env s) s.assets a)) = true) (model_remove_asset_st s env a) := by
  unfold model_remove_asset_st
  st_err []
  all_goals first | exact ⟨Or.inr (by assumption)⟩ | exact ⟨fun _ _ => ⟨Or.inr (by assumption)⟩⟩ |
    exact ⟨fun _ _ => Or.inr (by assumption)⟩

theorem remove_asset_from_association_st_errIn (s : H) (env : ModelEnv) (a : ARef) (l : LRef) :
    ErrIn (fun p => p.2 = s ∨ (¬ (!(pyIn (eqAsset env s) s.assets a)) = true ∧
        ¬ (!(pyIn (eqAssoc env s) s.associations l)) = true))
      (model_remove_asset_from_association_st s env a l) := by
  unfold model_remove_asset_from_association_st
  st_err []
  all_goals first | exact ⟨Or.inr ⟨by assumption, by assumption⟩⟩ |
    exact ⟨fun _ _ => ⟨Or.inr ⟨by assumption, by assumption⟩⟩⟩ | exact ⟨fun _ _ => Or.inr ⟨by assumption, by assumption⟩⟩

/-! ### the code before fix 4598cf1, in the state-keeping style

Obtained by running `translators/py2lean_stmodel.py` on `model.py` as of the parent commit of 4598cf1 (the function
body below is that output, only renamed): `asset.id` is assigned before the id and the name are checked (and there
is no membership guard yet, 4598297). -/

def model_add_asset_prefix_st (s : H) (env : ModelEnv) (asset : ARef) (asset_id : (Option Int)) (allow_duplicate_names : Bool) : StM PyErr H H := do
  let mut s := s
  s := s.setA asset { s.a asset with id := (some (match asset_id with | some v => v | none => s.next_id)) }
  if ((s.asset_ids).contains (attrInt (s.a asset).id)) then
    throw (PyErr.valueError, s)
  if (((s.a asset).name).isSome && ((s.asset_names).contains (attrStr (s.a asset).name)) && !(allow_duplicate_names)) then
    throw (PyErr.valueError, s)
  s := { s with asset_ids := pySetAdd s.asset_ids (attrInt (s.a asset).id) }
  s := { s with next_id := (max ((attrInt (s.a asset).id) + (1 : Int)) s.next_id) }
  if !(((s.a asset).name).isSome) then
    s := s.setA asset { s.a asset with name := (some (((s.a asset).type ++ ":") ++ (toString (attrInt (s.a asset).id)))) }
    for _ in List.range env.whileFuel do
      if !(((s.asset_names).contains (attrStr (s.a asset).name))) then
        break
      s := s.setA asset { s.a asset with name := (some (((attrStr (s.a asset).name) ++ ":") ++ (toString (attrInt (s.a asset).id)))) }
    if ((s.asset_names).contains (attrStr (s.a asset).name)) then
      throw (PyErr.nonTermination, s)
  else
    if ((s.asset_names).contains (attrStr (s.a asset).name)) then
      if allow_duplicate_names then
        s := s.setA asset { s.a asset with name := (some (((attrStr (s.a asset).name) ++ ":") ++ (toString (attrInt (s.a asset).id)))) }
        for _ in List.range env.whileFuel do
          if !(((s.asset_names).contains (attrStr (s.a asset).name))) then
            break
          s := s.setA asset { s.a asset with name := (some (((attrStr (s.a asset).name) ++ ":") ++ (toString (attrInt (s.a asset).id)))) }
        if ((s.asset_names).contains (attrStr (s.a asset).name)) then
          throw (PyErr.nonTermination, s)
      else
        throw (PyErr.valueError, s)
  s := { s with asset_names := pySetAdd s.asset_names (attrStr (s.a asset).name) }
  s := s.setA asset { s.a asset with associations := [] }
  if !(((s.a asset).extras).isSome) then
    s := s.setA asset { s.a asset with extras := (some "{}") }
  s := { s with assets := (s.assets ++ [asset]) }
  return s

/-- a model with one asset (object 0: id 0, name "a", type "T"); `next_id = 1` -/
def demoModel : H :=
  { a := fun r => if r = 0 then { id := some 0, name := some "a", type := "T", extras := some "{}" } else {},
    afresh := 1, assets := [0], asset_ids := [0], asset_names := ["a"], next_id := 1 }

end MalVerif.PyM.TieSt
