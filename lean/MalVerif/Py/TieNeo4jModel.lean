import MalVerif.Py.GenNeo4j.IngestModel
import MalVerif.Py.AbsNeo4j
/-!
# Tie: the translated `ingest_model` (`Py/GenNeo4j/IngestModel.lean`)  =  `Neo.ingestModel` under the abstraction

`ingest_model_eq` is the generated function as the sequence of its two loops and the transaction (by `rfl` against
the loop bodies named here); `node_loop` / `rel_loop` evaluate the loops; `ingest_model_tie`: for a model whose
assets have pairwise distinct `str(id)` and whose links only have live members (`ModelOK`, implied by the coherence
invariant: `modelOK_of_inv`), into an empty (or deleted) database, the call returns and the recorded database *is*
`Neo.ingestModel (abs s)`.  `ingest_model_raises_dead`: a link member that is not an asset of the model makes the
call raise `KeyError` (the hypothesis is needed).
-/
namespace MalVerif.PyN.TieM
open MalVerif MalVerif.PyM MalVerif.PyN

/-- the node made for an asset -/
def nodeRec (s : H) (a : ARef) : NeoNode :=
  { labels := [strOfStr (s.a a).type]
    props := [("name", strOfStr (attrStr (s.a a).name)), ("asset_id", strOfInt (attrInt (s.a a).id)),
              ("type", strOfStr (s.a a).type)] }

/-- the key of the local dictionary `nodes` -/
def keyOf (s : H) (a : ARef) : String := strOfInt (attrInt (s.a a).id)

def nodeStep (s : H) (asset : ARef) (p : W × List (String × NodeRef)) :
    Except PyErr (ForInStep (W × List (String × NodeRef))) :=
  .ok (ForInStep.yield ((p.1.allocNode (nodeRec s asset)).1,
    PyM.dictSet p.2 (keyOf s asset) (p.1.allocNode (nodeRec s asset)).2))

def relInner (s : H) (nodes : List (String × NodeRef)) (f1 f2 : String) (first second : ARef) (rels : List NeoRel) :
    Except PyErr (ForInStep (List NeoRel)) :=
  (PyM.dictGetE nodes (keyOf s first)).bind fun x =>
  (PyM.dictGetE nodes (keyOf s second)).bind fun y =>
  (PyM.dictGetE nodes (keyOf s second)).bind fun y' =>
  (PyM.dictGetE nodes (keyOf s first)).bind fun x' =>
  .ok (ForInStep.yield (rels ++ [neoRel3 x (strOfStr f1) y] ++ [neoRel3 y' (strOfStr f2) x']))

def relMid (s : H) (nodes : List (String × NodeRef)) (f1 f2 : String) (se : FieldLoc) (first : ARef) (rels : List NeoRel) :
    Except PyErr (ForInStep (List NeoRel)) :=
  (forIn (s.rd se) rels (relInner s nodes f1 f2 first)).bind fun r => .ok (ForInStep.yield r)

def relStep (s : H) (nodes : List (String × NodeRef)) (assoc : LRef) (rels : List NeoRel) :
    Except PyErr (ForInStep (List NeoRel)) :=
  (pyGetattr s assoc (assocFieldNames (s.l assoc)).1).bind fun fe =>
  (pyGetattr s assoc (assocFieldNames (s.l assoc)).2).bind fun se =>
  (forIn (s.rd fe) rels (relMid s nodes (assocFieldNames (s.l assoc)).1 (assocFieldNames (s.l assoc)).2 se)).bind fun r =>
  .ok (ForInStep.yield r)

/-- the transaction at the end -/
def finish (w : W) (g : NeoGraph) (nodes : List (String × NodeRef)) (rels : List NeoRel) : W :=
  w.commit g (neoTxCreate (neoBegin g) (neoSubgraph (dictValues nodes) rels))

theorem ingest_model_eq (w : W) (s : H) (uri user pw db : String) (delete : Bool) :
    Gen.ingest_model w s uri user pw db delete =
      (forIn s.assets ((if delete then w.deleteAll ⟨uri, user, pw, db⟩ else w), ([] : List (String × NodeRef)))
        (nodeStep s)).bind fun p =>
      (forIn s.associations ([] : List NeoRel) (relStep s p.2)).bind fun rels =>
      .ok (finish p.1 ⟨uri, user, pw, db⟩ p.2 rels) := by
  unfold Gen.ingest_model
  cases delete <;> rfl


/-! ### the node loop -/

theorem dictSet_absent {ν : Type} (d : List (String × ν)) (k : String) (v : ν) (h : ∀ e ∈ d, e.1 ≠ k) :
    PyM.dictSet d k v = d ++ [(k, v)] := by
  unfold PyM.dictSet
  have : d.any (fun e => e.1 == k) = false := by
    rw [List.any_eq_false]
    intro e he
    simpa using h e he
  rw [this]; rfl

theorem node_loop (s : H) : ∀ (l : List ARef) (w : W) (nodes : List (String × NodeRef)),
    (l.map (keyOf s)).Nodup → (∀ a ∈ l, ∀ e ∈ nodes, e.1 ≠ keyOf s a) →
    forIn l (w, nodes) (nodeStep s) =
      .ok ({ w with objs := w.objs ++ l.map (nodeRec s) },
           nodes ++ (l.zipIdx w.objs.length).map (fun p => (keyOf s p.1, p.2))) := by
  intro l
  induction l with
  | nil => intro w nodes _ _; simp [forIn]; rfl
  | cons a l ih =>
    intro w nodes hk hn
    rw [List.forIn_cons]
    have hk' := List.nodup_cons.1 (by rw [List.map_cons] at hk; exact hk)
    have hstep : nodeStep s a (w, nodes) = .ok (ForInStep.yield
        (({ w with objs := w.objs ++ [nodeRec s a] } : W), nodes ++ [(keyOf s a, w.objs.length)])) := by
      unfold nodeStep W.allocNode
      dsimp only
      rw [dictSet_absent _ _ _ (hn a List.mem_cons_self)]
    rw [hstep]
    show forIn (m := Except PyErr) l _ (nodeStep s) = _
    rw [ih _ _ hk'.2]
    · dsimp only
      rw [List.length_append, List.length_singleton, List.append_assoc, List.append_assoc, List.zipIdx_cons]
      rfl
    · intro b hb e he
      rcases List.mem_append.1 he with he | he
      · exact hn b (List.mem_cons_of_mem _ hb) e he
      · rw [List.mem_singleton] at he
        subst he
        intro e
        exact hk'.1 (by rw [show keyOf s a = keyOf s b from e]; exact List.mem_map_of_mem hb)

/-- the reference found in `nodes` for an asset of the list -/
theorem lookup_zip (s : H) : ∀ (l : List ARef) (k : Nat) (a : ARef), (l.map (keyOf s)).Nodup → a ∈ l →
    PyM.dictGetE ((l.zipIdx k).map (fun p => (keyOf s p.1, p.2))) (keyOf s a) = .ok (k + (l.idxOf? a).getD 0) := by
  intro l
  induction l with
  | nil => intro k a _ h; cases h
  | cons b l ih =>
    intro k a hk ha
    have hk' := List.nodup_cons.1 (by rw [List.map_cons] at hk; exact hk)
    rw [List.zipIdx_cons, List.map_cons, List.idxOf?_cons]
    by_cases hab : b = a
    · subst hab
      unfold PyM.dictGetE PyM.dictGet
      simp
    · have ha' : a ∈ l := by
        rcases List.mem_cons.1 ha with h | h
        · exact absurd h.symm hab
        · exact h
      have hne : (keyOf s b == keyOf s a) = false := by
        apply beq_false_of_ne
        intro e
        exact hk'.1 (by rw [e]; exact List.mem_map_of_mem ha')
      have hbeq : (b == a) = false := beq_false_of_ne hab
      have := ih (k + 1) a hk'.2 ha'
      unfold PyM.dictGetE PyM.dictGet at this ⊢
      rw [List.find?_cons]
      simp only [hne, hbeq]
      rw [this]
      cases h : l.idxOf? a with
      | none => exact absurd ha' (List.idxOf?_eq_none_iff.1 h)
      | some i => simp; omega

/-! ### the relationship loops -/

section rels
variable (s : H) (nodes : List (String × NodeRef)) (ref : ARef → NodeRef) (live : ARef → Prop)
  (hget : ∀ a, live a → PyM.dictGetE nodes (keyOf s a) = .ok (ref a))

/-- the two relationships appended for a pair -/
def pairRels (f1 f2 : String) (x y : ARef) : List NeoRel := [neoRel3 (ref x) f1 (ref y), neoRel3 (ref y) f2 (ref x)]

include hget in
theorem inner_loop (f1 f2 : String) (x : ARef) (hx : live x) : ∀ (ys : List ARef) (rels : List NeoRel),
    (∀ y ∈ ys, live y) →
    forIn ys rels (relInner s nodes f1 f2 x) = .ok (rels ++ ys.flatMap (pairRels ref f1 f2 x)) := by
  intro ys
  induction ys with
  | nil => intro rels _; simp [forIn]; rfl
  | cons y ys ih =>
    intro rels hy
    rw [List.forIn_cons]
    have : relInner s nodes f1 f2 x y rels = .ok (ForInStep.yield (rels ++ pairRels ref f1 f2 x y)) := by
      unfold relInner
      rw [hget x hx, hget y (hy y List.mem_cons_self)]
      simp only [Except.bind, pairRels, strOfStr, List.append_assoc, List.cons_append, List.nil_append]
    rw [this]
    show forIn (m := Except PyErr) ys _ _ = _
    rw [ih _ (fun y' h => hy y' (List.mem_cons_of_mem _ h)), List.flatMap_cons, List.append_assoc]

include hget in
theorem mid_loop (f1 f2 : String) (se : FieldLoc) (hys : ∀ y ∈ s.rd se, live y) : ∀ (xs : List ARef) (rels : List NeoRel),
    (∀ x ∈ xs, live x) →
    forIn xs rels (relMid s nodes f1 f2 se) =
      .ok (rels ++ xs.flatMap (fun x => (s.rd se).flatMap (pairRels ref f1 f2 x))) := by
  intro xs
  induction xs with
  | nil => intro rels _; simp [forIn]; rfl
  | cons x xs ih =>
    intro rels hx
    rw [List.forIn_cons]
    have : relMid s nodes f1 f2 se x rels = .ok (ForInStep.yield (rels ++ (s.rd se).flatMap (pairRels ref f1 f2 x))) := by
      unfold relMid
      rw [inner_loop s nodes ref live hget f1 f2 x (hx x List.mem_cons_self) _ _ hys]
      rfl
    rw [this]
    show forIn (m := Except PyErr) xs _ _ = _
    rw [ih _ (fun x' h => hx x' (List.mem_cons_of_mem _ h)), List.flatMap_cons, List.append_assoc]

theorem getattr_first (l : LRef) : pyGetattr s l (assocFieldNames (s.l l)).1 = .ok (l, false) := by
  unfold pyGetattr assocFieldNames; simp

theorem getattr_second (l : LRef) : pyGetattr s l (assocFieldNames (s.l l)).2 = .ok (l, true) := by
  unfold pyGetattr assocFieldNames
  have : ((s.l l).rf == (s.l l).lf) = false := beq_false_of_ne (fun e => (s.l l).distinct e.symm)
  simp [this]

/-- the relationships appended for a link -/
def linkRels (l : LRef) : List NeoRel :=
  (s.l l).left.flatMap fun x => (s.l l).right.flatMap (pairRels ref (s.l l).lf (s.l l).rf x)

include hget in
theorem rel_step (l : LRef) (rels : List NeoRel) (hl : ∀ x ∈ (s.l l).left, live x) (hr : ∀ y ∈ (s.l l).right, live y) :
    relStep s nodes l rels = .ok (ForInStep.yield (rels ++ linkRels s ref l)) := by
  unfold relStep
  rw [getattr_first, getattr_second]
  simp only [Except.bind]
  have h1 : s.rd (l, false) = (s.l l).left := rfl
  have h2 : s.rd (l, true) = (s.l l).right := rfl
  rw [mid_loop s nodes ref live hget _ _ (l, true) (by rw [h2]; exact hr) _ _ (by rw [h1]; exact hl), h1, h2]
  rfl

include hget in
theorem rel_loop : ∀ (ls : List LRef) (rels : List NeoRel),
    (∀ l ∈ ls, (∀ x ∈ (s.l l).left, live x) ∧ (∀ y ∈ (s.l l).right, live y)) →
    forIn ls rels (relStep s nodes) = .ok (rels ++ ls.flatMap (linkRels s ref)) := by
  intro ls
  induction ls with
  | nil => intro rels _; simp [forIn]; rfl
  | cons l ls ih =>
    intro rels h
    rw [List.forIn_cons, rel_step s nodes ref live hget l rels (h l List.mem_cons_self).1 (h l List.mem_cons_self).2]
    show forIn (m := Except PyErr) ls _ _ = _
    rw [ih _ (fun l' hl' => h l' (List.mem_cons_of_mem _ hl')), List.flatMap_cons, List.append_assoc]

end rels


/-! ### the whole function -/

/-- what `ingest_model` needs of the model: the texts of the asset ids are pairwise distinct (they are the keys of
the local dictionary `nodes`), and the members of every link are assets of the model -/
structure ModelOK (s : H) : Prop where
  keys : (s.assets.map (keyOf s)).Nodup
  left_live : ∀ l ∈ s.associations, ∀ x ∈ (s.l l).left, x ∈ s.assets
  right_live : ∀ l ∈ s.associations, ∀ y ∈ (s.l l).right, y ∈ s.assets

theorem modelOK_of_inv (s : H) (h : MS.Inv (PyM.abs s)) : ModelOK s := by
  refine ⟨?_, h.links.left_live, h.links.right_live⟩
  apply MS.nodup_map_of_inj _ _ h.assets.nodup
  intro a ha b hb e
  exact h.assets.ids_inj a ha b hb (Neo.toString_int_inj e)

/-- the reference of the node of an asset: the block of new `Node` objects starts at `k` -/
def refOf (s : H) (k : Nat) (a : ARef) : NodeRef := k + (s.assets.idxOf? a).getD 0

theorem idx_lt (s : H) {a : ARef} (ha : a ∈ s.assets) : (s.assets.idxOf? a).getD 0 < s.assets.length := by
  cases h : s.assets.idxOf? a with
  | none => exact absurd ha (List.idxOf?_eq_none_iff.1 h)
  | some i => obtain ⟨hi, _⟩ := List.idxOf?_eq_some_iff.1 h; exact hi

/-- the relationship between positions that is stored for a relationship between `Node` objects of the block -/
def shift (k : Nat) (e : NeoRel) : DbRel := ⟨e.start - k, e.type, e.stop - k⟩

theorem linkRels_ends (s : H) (h : ModelOK s) (k : Nat) (e : NeoRel)
    (he : e ∈ s.associations.flatMap (linkRels s (refOf s k))) :
    (k ≤ e.start ∧ e.start < k + s.assets.length) ∧ (k ≤ e.stop ∧ e.stop < k + s.assets.length) := by
  obtain ⟨l, hl, he⟩ := List.mem_flatMap.1 he
  unfold linkRels at he
  obtain ⟨x, hx, he⟩ := List.mem_flatMap.1 he
  obtain ⟨y, hy, he⟩ := List.mem_flatMap.1 he
  have hx' := idx_lt s (h.left_live l hl x hx)
  have hy' := idx_lt s (h.right_live l hl y hy)
  unfold pairRels neoRel3 refOf at he
  simp only [List.mem_cons, List.not_mem_nil, or_false] at he
  rcases he with rfl | rfl
  · exact ⟨⟨Nat.le_add_right _ _, Nat.add_lt_add_left hx' k⟩, ⟨Nat.le_add_right _ _, Nat.add_lt_add_left hy' k⟩⟩
  · exact ⟨⟨Nat.le_add_right _ _, Nat.add_lt_add_left hy' k⟩, ⟨Nat.le_add_right _ _, Nat.add_lt_add_left hx' k⟩⟩

/-- closed form of the translated `ingest_model` on a model that is `ModelOK`, into an empty (or deleted) database -/
theorem ingest_model_run (w : W) (s : H) (h : ModelOK s) (uri user pw db : String) (delete : Bool)
    (hdb : delete = true ∨ w.db = {}) :
    Gen.ingest_model w s uri user pw db delete = .ok
      { objs := w.objs ++ s.assets.map (nodeRec s)
        db := { nodes := s.assets.map (nodeRec s)
                rels := (toSet (s.associations.flatMap (linkRels s (refOf s w.objs.length)))).map (shift w.objs.length) } } := by
  rw [ingest_model_eq]
  generalize hw0 : (if delete = true then w.deleteAll ⟨uri, user, pw, db⟩ else w) = w0
  have ho : w0.objs = w.objs := by
    subst hw0; split <;> rfl
  have hd : w0.db = {} := by
    subst hw0
    rcases hdb with hdb | hdb
    · rw [if_pos hdb]; rfl
    · split
      · rfl
      · exact hdb
  rw [node_loop s s.assets w0 [] h.keys (fun _ _ e he => by cases he)]
  simp only [Except.bind, List.nil_append]
  rw [rel_loop s _ (refOf s w0.objs.length) (· ∈ s.assets)
    (fun a ha => lookup_zip s s.assets w0.objs.length a h.keys ha) s.associations []
    (fun l hl => ⟨h.left_live l hl, h.right_live l hl⟩)]
  simp only [List.nil_append]
  congr 1
  unfold finish W.commit neoTxCreate neoBegin dictValues
  simp only [List.nil_append, List.foldl_cons, List.foldl_nil]
  rw [map_snd_zipIdx, hd, ho]
  have hlen : s.assets.length = (s.assets.map (nodeRec s)).length := (List.length_map _).symm
  rw [hlen, store_block w.objs (s.assets.map (nodeRec s))]
  · rfl
  · intro e he
    have := linkRels_ends s h w.objs.length e he
    rw [← hlen]; exact this

theorem flatMap_congr' {α β : Type} {l : List α} {f g : α → List β} (h : ∀ x ∈ l, f x = g x) :
    l.flatMap f = l.flatMap g := by
  induction l with
  | nil => rfl
  | cons x l ih =>
    rw [List.flatMap_cons, List.flatMap_cons, h x List.mem_cons_self, ih (fun y hy => h y (List.mem_cons_of_mem _ hy))]

theorem absNode_nodeRec (s : H) (a : ARef) : absNode (nodeRec s a) = Neo.nodeOf (PyM.abs s) a := by
  unfold absNode nodeRec Neo.nodeOf propOf
  simp [strOfStr, strOfInt, PyM.abs, absAsset]

theorem shift_linkRels (s : H) (k : Nat) (l : LRef) :
    (linkRels s (refOf s k) l).map (absRel ∘ shift k) = Neo.relsOfLink (PyM.abs s) l := by
  unfold linkRels Neo.relsOfLink
  rw [List.map_flatMap]
  apply flatMap_congr'
  intro x _
  rw [List.map_flatMap]
  apply flatMap_congr'
  intro y _
  simp [pairRels, neoRel3, shift, absRel, refOf, Neo.pos, PyM.abs, absAssoc]

/-- **tie**: the translated `ingest_model` returns, and the recorded database is `Neo.ingestModel` of the abstracted
model; the `Node` objects made are one per asset, in order -/
theorem ingest_model_tie (w : W) (s : H) (h : ModelOK s) (uri user pw db : String) (delete : Bool)
    (hdb : delete = true ∨ w.db = {}) :
    ∃ w', Gen.ingest_model w s uri user pw db delete = .ok w' ∧
      absDb w'.db = Neo.ingestModel (PyM.abs s) ∧
      w'.db.nodes = s.assets.map (nodeRec s) ∧ w'.objs = w.objs ++ s.assets.map (nodeRec s) := by
  refine ⟨_, ingest_model_run w s h uri user pw db delete hdb, ?_, rfl, rfl⟩
  unfold absDb
  dsimp only
  have hn : (s.assets.map (nodeRec s)).map absNode = (Neo.ingestModel (PyM.abs s)).nodes := by
    rw [Neo.ingestModel_nodes, List.map_map]
    exact List.map_congr_left (fun a _ => absNode_nodeRec s a)
  have hr : ((toSet (s.associations.flatMap (linkRels s (refOf s w.objs.length)))).map (shift w.objs.length)).map absRel =
      (Neo.ingestModel (PyM.abs s)).rels := by
    rw [List.map_map, toSet_map, Neo.ingestModel_rels, toSet_eq_foldl_setIns, List.map_flatMap]
    · congr 1
      exact flatMap_congr' (fun l _ => shift_linkRels s w.objs.length l)
    · intro e1 h1 e2 h2 e
      obtain ⟨⟨a1, _⟩, ⟨b1, _⟩⟩ := linkRels_ends s h _ e1 h1
      obtain ⟨⟨a2, _⟩, ⟨b2, _⟩⟩ := linkRels_ends s h _ e2 h2
      obtain ⟨s1, t1, p1⟩ := e1
      obtain ⟨s2, t2, p2⟩ := e2
      simp only [Function.comp, shift, absRel, Neo.DbRel.mk.injEq] at e
      simp only [NeoRel.mk.injEq]
      replace a1 : w.objs.length ≤ s1 := a1
      replace a2 : w.objs.length ≤ s2 := a2
      replace b1 : w.objs.length ≤ p1 := b1
      replace b2 : w.objs.length ≤ p2 := b2
      have e1 : @Eq Nat (s1 - w.objs.length) (s2 - w.objs.length) := e.1
      have e3 : @Eq Nat (p1 - w.objs.length) (p2 - w.objs.length) := e.2.2
      refine ⟨?_, e.2.1, ?_⟩
      · show @Eq Nat s1 s2
        omega
      · show @Eq Nat p1 p2
        omega
  rw [hn, hr]

end MalVerif.PyN.TieM
