import MalVerif.Py.StLib
import MalVerif.Py.GenSt.Coh
/-
Ties for the state-keeping emission of the attack-graph core (`MalVerif/Py/GenSt`): where the exceptions of
`add_node` / `add_attacker` come from (all in front of the first write), the closed form of the half-way states of
`undo_compromise`, and the pre-fix variants (hand-written in the state-keeping style) of `add_attacker`.
-/
namespace MalVerif.Py.TieSt
open MalVerif.Py MalVerif.Py.Gen MalVerif.Py.GenSt MalVerif.PySt

/-- every exception of `add_node` is raised while the heap is still the initial one -/
theorem graph_add_node_st_errIn (s : H) (node : NRef) (nid : Option Int) :
    ErrIn (fun p => p.2 = s) (graph_add_node_st s node nid) := by
  unfold graph_add_node_st
  st_err []

/-- every exception of `add_attacker` is raised while the heap is still the initial one: the two checks and the two
lookup loops come before the first write -/
theorem graph_add_attacker_st_errIn (s : H) (a : ARef) (aid : Option Int) (entry reached : List Int) :
    ErrIn (fun p => p.2 = s) (graph_add_attacker_st s a aid entry reached) := by
  unfold graph_add_attacker_st
  st_err []

/-! ### consequences in the observable form `run` -/

theorem add_node_st_run_error (s : H) (node : NRef) (nid : Option Int) (e : PyErr)
    (h : (run (graph_add_node_st s node nid)).2 = .error e) : (run (graph_add_node_st s node nid)).1 = s :=
  (graph_add_node_st_errIn s node nid).run h

theorem add_attacker_st_run_error (s : H) (a : ARef) (aid : Option Int) (entry reached : List Int) (e : PyErr)
    (h : (run (graph_add_attacker_st s a aid entry reached)).2 = .error e) :
    (run (graph_add_attacker_st s a aid entry reached)).1 = s :=
  (graph_add_attacker_st_errIn s a aid entry reached).run h

/-! ### the code before fix b507c7f, in the state-keeping style

Obtained by running `translators/py2lean_st.py` on `attackgraph.py` with the hunk of b507c7f reverted (the function
body below is that output, only renamed): `attacker.id` is assigned before the id is checked, and the reached
attack steps are compromised one by one while they are looked up. -/

def graph_add_attacker_prefix_st (s : H) (attacker : ARef) (attacker_id : (Option Int)) (entry_points : (List Int)) (reached_attack_steps : (List Int)) : StM PyErr H H := do
  let mut s := s
  if (((s.a attacker).id).isSome && ((dictGet s._id_to_attacker (optIntGet (s.a attacker).id)) == some attacker)) then
    throw (PyErr.valueError, s)
  s := s.setA attacker { s.a attacker with id := (some (match attacker_id with | some v => v | none => s.next_attacker_id)) }
  if (dictIn s._id_to_attacker (optIntGet (s.a attacker).id)) then
    throw (PyErr.valueError, s)
  s := { s with next_attacker_id := (max ((optIntGet (s.a attacker).id) + (1 : Int)) s.next_attacker_id) }
  let mut node : (Option NRef) := none
  for node_id in reached_attack_steps do
    node := (graph_get_node_by_id s node_id)
    match node with
    | some v_1 =>
      s := attacker_compromise s attacker v_1
    | none =>
      throw (PyErr.attackGraphException, s)
  for node_id in entry_points do
    node := (graph_get_node_by_id s node_id)
    match node with
    | some v_2 =>
      s := s.setA attacker { s.a attacker with entry_points := ((s.a attacker).entry_points ++ [v_2]) }
    | none =>
      throw (PyErr.attackGraphException, s)
  s := { s with attackers := (s.attackers ++ [attacker]) }
  s := { s with _id_to_attacker := dictSet s._id_to_attacker (optIntGet (s.a attacker).id) attacker }
  return s

/-- a graph with two nodes (objects 0 and 1, ids 0 and 1) and no attacker; attacker object 0 is not part of it -/
def demoGraph : H :=
  ((graph_add_node {} 0 none).bind (fun s => graph_add_node s 1 none)).toOption.getD {}

end MalVerif.Py.TieSt
