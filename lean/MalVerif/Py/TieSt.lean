import MalVerif.Py.StLib
import MalVerif.Py.GenSt.Coh
import MalVerif.Py.TieGraph
/-
Ties for the state-keeping emission of the attack-graph core (`MalVerif/Py/GenSt`): where the exceptions of
`add_node` / `add_attacker` come from (all in front of the first write), the closed form of the half-way states of
`undo_compromise`, and the pre-fix variants (hand-written in the state-keeping style) of `add_attacker`.
-/
namespace MalVerif.Py.TieSt
open MalVerif.Py MalVerif.Py.Gen MalVerif.Py.GenSt MalVerif.PySt

/-- every exception of `add_node` is raised while the heap is still the initial one -/
theorem graph_add_node_st_errIn (s : H) (node : NRef) (nid : Option Int) :
    ErrIn (fun p => p.2 = s) (graph_add_node_st s node nid) := by
  unfold graph_add_node_st
  st_err []

/-- every exception of `add_attacker` is raised while the heap is still the initial one: the two checks and the two
lookup loops come before the first write -/
theorem graph_add_attacker_st_errIn (s : H) (a : ARef) (aid : Option Int) (entry reached : List Int) :
    ErrIn (fun p => p.2 = s) (graph_add_attacker_st s a aid entry reached) := by
  unfold graph_add_attacker_st
  st_err []

end MalVerif.Py.TieSt
