import MalVerif.Py.TieLegacyBase
/-!
# Tie of the translated 0.0.39 loader: the association loop

`assoc_sim`: one round of the loop over `associations` of the translated `updater_process_model`
(`assocBody`) is one `Legacy.loadOldAssoc` of the hand model; when it raises, the hand model rejects with an error that
agrees with the exception (`OldErrAgree`; `loadOld_err_class`, `FieldErr`).
-/
namespace MalVerif.PyLeg.Tie
open MalVerif MalVerif.PyM MalVerif.PyM.Gen MalVerif.PyM.Tie MalVerif.PyLeg MalVerif.PyLeg.Gen MalVerif.Legacy
open MalVerif.Ser (Key)

/-! ### reading the encoded association entry -/

/-- the two field entries of an encoded association -/
def assocFields (a : OldAssoc) : List (Key × PyJ) :=
  [(.s a.lf, .list (a.left.map keyJ)), (.s a.rf, .list (a.right.map keyJ))]

/-- what is left of the entry after `pop("metaconcept")` -/
def assocRest (nested : Bool) (a : OldAssoc) : List (Key × PyJ) :=
  if nested then [(.s "association", .dict (assocFields a))] else assocFields a

theorem key_s_beq (x y : String) : (Key.s x == Key.s y) = decide (x = y) := by
  by_cases h : x = y
  · subst h; simp
  · have : (Key.s x == Key.s y) = false := by
      simp only [beq_eq_false_iff_ne, ne_eq, Key.s.injEq]; exact h
    rw [this]; simp [h]

theorem encAssoc_pop (fac : Factory) (nested : Bool) (a : OldAssoc) (hW : AssocWf fac.L nested a) :
    jPop (encAssoc nested a) (.str "metaconcept") = .ok (.str a.metaconcept, .dict (assocRest nested a)) := by
  cases nested with
  | true =>
    simp [encAssoc, jPop, jKey, lookupKey, assocRest, assocFields, key_s_beq]
  | false =>
    obtain ⟨h1, h2, _, _⟩ := hW.flat rfl
    simp [encAssoc, jPop, jKey, lookupKey, assocRest, assocFields, key_s_beq, h1, h2]

theorem assocRest_inner (fac : Factory) (nested : Bool) (a : OldAssoc) (hW : AssocWf fac.L nested a) :
    jGetD (.dict (assocRest nested a)) (.str "association") (.dict (assocRest nested a)) = .ok (.dict (assocFields a)) := by
  cases nested with
  | true =>
    simp [jGetD, jKey, lookupKey, assocRest]
  | false =>
    obtain ⟨_, _, h3, h4⟩ := hW.flat rfl
    simp [jGetD, jKey, lookupKey, assocRest, assocFields, key_s_beq, h3, h4]

theorem assocFields_items (a : OldAssoc) :
    jItems (.dict (assocFields a)) =
      .ok [(.str a.lf, .list (a.left.map keyJ)), (.str a.rf, .list (a.right.map keyJ))] := by
  simp [jItems, assocFields, keyJ]

/-! ### the body, after the document has been read -/

/-- the two entries `fieldBody` is run on -/
def assocItems (a : OldAssoc) : List (PyJ × PyJ) :=
  [(.str a.lf, .list (a.left.map keyJ)), (.str a.rf, .list (a.right.map keyJ))]

theorem assocBody_none (env : ModelEnv) (fac : Factory) (nested : Bool) (a : OldAssoc) (hW : AssocWf fac.L nested a)
    (s : H) (hf : (MS.assocClasses fac.L).find? (·.cls = a.metaconcept) = none) :
    assocBody env fac (encAssoc nested a) s = .error (.py .attributeError) := by
  unfold assocBody
  rw [encAssoc_pop fac nested a hW]
  show (nsNewAssoc fac s (.str a.metaconcept)).bind _ = _
  unfold nsNewAssoc
  simp only [hf]
  rfl

theorem assocBody_some (env : ModelEnv) (fac : Factory) (nested : Bool) (a : OldAssoc) (hW : AssocWf fac.L nested a)
    (s : H) (c : MS.AssocClass) (hf : (MS.assocClasses fac.L).find? (·.cls = a.metaconcept) = some c)
    (hne : c.lf ≠ c.rf) :
    assocBody env fac (encAssoc nested a) s =
      (forIn (assocItems a) (newAssocObj s { cls := a.metaconcept, lf := c.lf, rf := c.rf, distinct := hne })
        (fieldBody env fac s.lfresh)).bind (fun s1 =>
          (liftPy (model_add_association s1 env s.lfresh)).bind (fun s2 => .ok (ForInStep.yield s2))) := by
  unfold assocBody
  rw [encAssoc_pop fac nested a hW]
  show (nsNewAssoc fac s (.str a.metaconcept)).bind _ = _
  have hns : nsNewAssoc fac s (.str a.metaconcept) =
      .ok (newAssocObj s { cls := a.metaconcept, lf := c.lf, rf := c.rf, distinct := hne }, s.lfresh) := by
    unfold nsNewAssoc
    simp only [hf, dif_pos hne, allocL_eq]
  rw [hns, ok_bind]
  show (jGetD (.dict (assocRest nested a)) (.str "association") (.dict (assocRest nested a))).bind _ = _
  rw [assocRest_inner fac nested a hW, ok_bind]
  show (jItems (.dict (assocFields a))).bind _ = _
  rw [assocFields_items]
  rfl

/-! ### the id lists -/

/-- what `int(id)` raises for a key that is no number: `ValueError`, or `unmodelled` for a text of the lenient class -/
def keyErr (k : Key) : LErr := match jInt (keyJ k) with | .error e => e | .ok _ => .py .valueError

/-- the exception of the first id of the list that is no number -/
def idsErr : List Key → LErr
  | [] => .py .valueError
  | k :: ks => if k.toInt?.isSome then idsErr ks else keyErr k

theorem keyErr_cases (k : Key) (hk : k.toInt? = none) :
    jInt (keyJ k) = .error (keyErr k) ∧ (keyErr k = .py .valueError ∨ keyErr k = .unmodelled) := by
  unfold keyErr
  rcases jInt_keyJ_none' k hk with hj | hj <;> rw [hj]
  · exact ⟨rfl, Or.inl rfl⟩
  · exact ⟨rfl, Or.inr rfl⟩

theorem idsErr_cases (ks : List Key) (h : ks.mapM Key.toInt? = none) :
    idsErr ks = .py .valueError ∨ idsErr ks = .unmodelled := by
  induction ks with
  | nil => exact Or.inl rfl
  | cons k ks ih =>
    unfold idsErr
    cases hk : k.toInt? with
    | none => exact (keyErr_cases k hk).2
    | some i =>
      rw [List.mapM_cons, hk] at h
      cases hm : ks.mapM Key.toInt? with
      | none => simpa using ih hm
      | some is => rw [hm] at h; cases h

/-- **with plain keys** (`keyPlain`) the exception is `ValueError` -/
theorem idsErr_plain (ks : List Key) (hp : ∀ k ∈ ks, keyPlain k = true) : idsErr ks = .py .valueError := by
  induction ks with
  | nil => rfl
  | cons k ks ih =>
    unfold idsErr
    cases hk : k.toInt? with
    | none =>
      have := jInt_keyJ_none k hk (hp k List.mem_cons_self)
      simp only [Option.isSome_none, Bool.false_eq_true, if_false, keyErr, this]
    | some i => simpa using ih (fun k' hk' => hp k' (List.mem_cons_of_mem _ hk'))

theorem ids_mapM (h : H) (env : ModelEnv) (ks : List Key) :
    List.mapM (fun id => (do
        let i ← jInt id
        pure (model_get_asset_by_id h env i) : Except LErr (Option ARef))) (ks.map keyJ) =
      (match ks.mapM Key.toInt? with
       | none => .error (idsErr ks)
       | some is => .ok (is.map (MS.getAssetById (abs h)))) := by
  induction ks with
  | nil => rfl
  | cons k ks ih =>
    rw [List.map_cons, List.mapM_cons, List.mapM_cons, ih]
    cases hk : k.toInt? with
    | none =>
      rw [(keyErr_cases k hk).1]
      simp only [idsErr, hk]; rfl
    | some i =>
      rw [jInt_keyJ_some k i hk]
      cases ks.mapM Key.toInt? with
      | none => simp only [idsErr, hk]; rfl
      | some is => simp only [get_asset_by_id_tie]; rfl

theorem mapM_bind_opt {α β γ : Type} (f : α → Option β) (g : β → Option γ) (ks : List α) :
    ks.mapM (fun k => (f k).bind g) = (ks.mapM f).bind (fun is => is.mapM g) := by
  induction ks with
  | nil => rfl
  | cons k ks ih =>
    rw [List.mapM_cons, List.mapM_cons, ih]
    cases f k with
    | none => rfl
    | some b =>
      cases ks.mapM f with
      | none => cases hg : g b <;> simp [hg]
      | some is => cases hg : g b <;> simp [hg, List.mapM_cons]

theorem resolveIds_eq (st : MS.St) (ks : List Key) :
    Ser.resolveIds st ks = (ks.mapM Key.toInt?).bind (fun is => is.mapM (MS.getAssetById st)) :=
  mapM_bind_opt _ _ ks

theorem mapM_id_map {α β : Type} (g : α → Option β) (is : List α) : (is.map g).mapM id = is.mapM g := by
  induction is with
  | nil => rfl
  | cons i is ih => rw [List.map_cons, List.mapM_cons, List.mapM_cons, ih]; rfl

/-! ### one field assignment on the new association object -/

theorem newAssocObj_setL (s : H) (o o' : PyAssoc) : (newAssocObj s o).setL s.lfresh o' = newAssocObj s o' := by
  unfold newAssocObj H.setL
  simp only [H.mk.injEq, true_and, and_true]
  funext x
  by_cases hx : x = s.lfresh <;> simp [hx]

theorem resolveIds_newAssocObj (s : H) (o : PyAssoc) (ks : List Key) :
    Ser.resolveIds (abs (newAssocObj s o)) ks = Ser.resolveIds (abs s) ks := rfl

theorem fieldBody_eq (env : ModelEnv) (fac : Factory) (lref : LRef) (f : String) (ks : List Key) (h : H) :
    fieldBody env fac lref (.str f, .list (ks.map keyJ)) h =
      (match ks.mapM Key.toInt? with
       | none => .error (idsErr ks)
       | some is => (pjsSetField fac h lref (.str f) (is.map (MS.getAssetById (abs h)))).bind
          (fun s => .ok (ForInStep.yield s))) := by
  have h1 : fieldBody env fac lref (.str f, .list (ks.map keyJ)) h =
      (List.mapM (fun id => (do
        let i ← jInt id
        pure (model_get_asset_by_id h env i) : Except LErr (Option ARef))) (ks.map keyJ)).bind
        (fun members => (pjsSetField fac h lref (.str f) members).bind (fun s => .ok (ForInStep.yield s))) := rfl
  rw [h1, ids_mapM]
  cases ks.mapM Key.toInt? <;> rfl

/-- the exceptions of one field assignment: `ValueError` (`int(id)` of a string that is not a number) or the pjs
`ValidationError` (unknown id = `None` member, no such field, member type, `maxItems`) -/
def FieldErr (e : LErr) : Prop := e = .py .valueError ∨ e = .validation ∨ e = .unmodelled

/-- the hand model answers `validation` in all these cases -/
theorem FieldErr.agree {e : LErr} (h : FieldErr e) : OldErrAgree e .validation := by
  rcases h with h | h | h <;> subst h <;> decide

theorem field_unresolved (env : ModelEnv) (fac : Factory) (s : H) (o : PyAssoc) (f : String) (ks : List Key)
    (hr : Ser.resolveIds (abs s) ks = none) :
    ∃ e, fieldBody env fac s.lfresh (.str f, .list (ks.map keyJ)) (newAssocObj s o) = .error e ∧ FieldErr e := by
  rw [fieldBody_eq]
  rw [← resolveIds_newAssocObj s o, resolveIds_eq] at hr
  cases hk : ks.mapM Key.toInt? with
  | none =>
    rcases idsErr_cases ks hk with he | he
    · exact ⟨_, rfl, Or.inl he⟩
    · exact ⟨_, rfl, Or.inr (Or.inr he)⟩
  | some is =>
    rw [hk] at hr
    have hr' : is.mapM (MS.getAssetById (abs (newAssocObj s o))) = none := hr
    unfold pjsSetField
    simp only [mapM_id_map, hr']
    exact ⟨_, rfl, Or.inr (Or.inl rfl)⟩

/-- the pjs guard of one field: member types and `maxItems` -/
def fieldOk (fac : Factory) (s : H) (ty : String) (mx : Option Nat) (xs : List ARef) : Bool :=
  xs.all (fun a => MS.okMember fac.L ty (s.a a).type) && MS.okCount mx xs.length

theorem field_resolved (env : ModelEnv) (fac : Factory) (s : H) (o : PyAssoc) (f : String) (ks : List Key)
    (xs : List ARef) (c : MS.AssocClass)
    (hr : Ser.resolveIds (abs s) ks = some xs)
    (hf : (MS.assocClasses fac.L).find? (·.cls = o.cls) = some c) :
    fieldBody env fac s.lfresh (.str f, .list (ks.map keyJ)) (newAssocObj s o) =
      if f == o.lf then
        if fieldOk fac s c.ltype c.lmax xs then .ok (.yield (newAssocObj s { o with left := xs }))
        else .error .validation
      else if f == o.rf then
        if fieldOk fac s c.rtype c.rmax xs then .ok (.yield (newAssocObj s { o with right := xs }))
        else .error .validation
      else .error .validation := by
  rw [fieldBody_eq]
  rw [← resolveIds_newAssocObj s o, resolveIds_eq] at hr
  cases hk : ks.mapM Key.toInt? with
  | none => rw [hk] at hr; cases hr
  | some is =>
    rw [hk] at hr
    have hr' : is.mapM (MS.getAssetById (abs (newAssocObj s o))) = some xs := hr
    unfold pjsSetField fieldOk
    simp only [mapM_id_map, hr', newAssocObj_l_self, hf, newAssocObj_setL]
    have ha : (newAssocObj s o).a = s.a := rfl
    rw [ha]
    split
    · split <;> rfl
    · split
      · split <;> rfl
      · rfl

/-! ### the hand model's step, case by case -/

theorem loadOld_err_left (L : Lang) (st : MS.St) (a : OldAssoc) (h : Ser.resolveIds st a.left = none) :
    loadOldAssoc L st a = .error .validation := by
  unfold loadOldAssoc; rw [h]

theorem loadOld_err_right (L : Lang) (st : MS.St) (a : OldAssoc) (h : Ser.resolveIds st a.right = none) :
    loadOldAssoc L st a = .error .validation := by
  unfold loadOldAssoc; rw [h]
  cases Ser.resolveIds st a.left <;> rfl

/-- no such class: Python raises `AttributeError` before it looks at the ids; the hand model resolves the ids first
(`validation`, which is also what `errAbs` makes of `AttributeError`) and then says `lookupError` -/
theorem loadOld_err_class (L : Lang) (st : MS.St) (a : OldAssoc)
    (h : (MS.assocClasses L).find? (·.cls = a.metaconcept) = none) :
    ∃ er, loadOldAssoc L st a = .error er ∧ OldErrAgree (.py .attributeError) er := by
  unfold loadOldAssoc
  cases Ser.resolveIds st a.left with
  | none => exact ⟨.validation, rfl, by decide⟩
  | some l =>
    cases Ser.resolveIds st a.right with
    | none => exact ⟨.validation, rfl, by decide⟩
    | some r => simp only [h]; exact ⟨.lookupError, rfl, by decide⟩

theorem loadOld_err_fields (L : Lang) (st : MS.St) (a : OldAssoc) (c : MS.AssocClass)
    (h : (MS.assocClasses L).find? (·.cls = a.metaconcept) = some c) (hn : ¬ (c.lf = a.lf ∧ c.rf = a.rf)) :
    loadOldAssoc L st a = .error .validation := by
  unfold loadOldAssoc
  cases Ser.resolveIds st a.left with
  | none => rfl
  | some l =>
    cases Ser.resolveIds st a.right with
    | none => rfl
    | some r => simp only [h, if_neg hn]

theorem loadOld_match (fac : Factory) (s : H) (a : OldAssoc) (c : MS.AssocClass) (l r : List ARef)
    (hl : Ser.resolveIds (abs s) a.left = some l) (hr : Ser.resolveIds (abs s) a.right = some r)
    (h : (MS.assocClasses fac.L).find? (·.cls = a.metaconcept) = some c) (h1 : c.lf = a.lf) (h2 : c.rf = a.rf) :
    loadOldAssoc fac.L (abs s) a =
      if !(fieldOk fac s c.ltype c.lmax l && fieldOk fac s c.rtype c.rmax r) then .error .validation else
      addAssocCore (abs s) { cls := a.metaconcept, lf := c.lf, rf := c.rf, left := l, right := r } := by
  unfold loadOldAssoc
  rw [hl, hr]
  simp only [h, if_pos (And.intro h1 h2), addAssociation_eq_core]
  unfold fieldOk
  simp only [Bool.and_assoc]
  rfl

/-! ### the two assignments -/

theorem fields_cases (env : ModelEnv) (fac : Factory) (s : H) (a : OldAssoc) (c : MS.AssocClass)
    (hf : (MS.assocClasses fac.L).find? (·.cls = a.metaconcept) = some c) (hne : c.lf ≠ c.rf)
    (hd : a.lf ≠ a.rf) (hsw : ¬ (a.lf = c.rf ∧ a.rf = c.lf)) :
    ((∃ e, forIn (assocItems a) (newAssocObj s { cls := a.metaconcept, lf := c.lf, rf := c.rf, distinct := hne })
        (fieldBody env fac s.lfresh) = .error e ∧ FieldErr e) ∧ loadOldAssoc fac.L (abs s) a = .error .validation) ∨
    (∃ l r, forIn (assocItems a) (newAssocObj s { cls := a.metaconcept, lf := c.lf, rf := c.rf, distinct := hne })
        (fieldBody env fac s.lfresh) =
          .ok (newAssocObj s { cls := a.metaconcept, lf := c.lf, rf := c.rf, left := l, right := r, distinct := hne }) ∧
      loadOldAssoc fac.L (abs s) a =
        addAssocCore (abs s) { cls := a.metaconcept, lf := c.lf, rf := c.rf, left := l, right := r }) := by
  unfold assocItems
  cases hl : Ser.resolveIds (abs s) a.left with
  | none =>
    obtain ⟨e, he, hfe⟩ := field_unresolved env fac s
      { cls := a.metaconcept, lf := c.lf, rf := c.rf, distinct := hne } a.lf a.left hl
    exact .inl ⟨⟨e, forIn_cons_err _ _ _ _ _ he, hfe⟩, loadOld_err_left _ _ _ hl⟩
  | some l =>
    have h1 := field_resolved env fac s { cls := a.metaconcept, lf := c.lf, rf := c.rf, distinct := hne }
      a.lf a.left l c hl hf
    dsimp only at h1
    by_cases e1 : a.lf = c.lf
    · -- the first entry is the left field
      have hb : (a.lf == c.lf) = true := beq_iff_eq.2 e1
      rw [hb, if_pos rfl] at h1
      cases g1 : fieldOk fac s c.ltype c.lmax l with
      | false =>
        rw [g1] at h1
        refine .inl ⟨⟨_, forIn_cons_err _ _ _ _ _ h1, Or.inr (Or.inl rfl)⟩, ?_⟩
        cases hr : Ser.resolveIds (abs s) a.right with
        | none => exact loadOld_err_right _ _ _ hr
        | some r =>
          by_cases e2 : c.rf = a.rf
          · rw [loadOld_match fac s a c l r hl hr hf e1.symm e2, g1]; rfl
          · exact loadOld_err_fields _ _ _ c hf (fun h => e2 h.2)
      | true =>
        rw [g1, if_pos rfl] at h1
        rw [forIn_cons_ok _ _ _ _ _ h1]
        cases hr : Ser.resolveIds (abs s) a.right with
        | none =>
          obtain ⟨e, he, hfe⟩ := field_unresolved env fac s
            { cls := a.metaconcept, lf := c.lf, rf := c.rf, left := l, distinct := hne } a.rf a.right hr
          exact .inl ⟨⟨e, forIn_cons_err _ _ _ _ _ he, hfe⟩, loadOld_err_right _ _ _ hr⟩
        | some r =>
          have h2 := field_resolved env fac s
            { cls := a.metaconcept, lf := c.lf, rf := c.rf, left := l, distinct := hne } a.rf a.right r c hr hf
          dsimp only at h2
          have hb2 : (a.rf == c.lf) = false := beq_eq_false_iff_ne.2 (fun h => hd (e1.trans h.symm))
          rw [hb2, if_neg (by decide)] at h2
          by_cases e2 : a.rf = c.rf
          · have hb3 : (a.rf == c.rf) = true := beq_iff_eq.2 e2
            rw [hb3, if_pos rfl] at h2
            cases g2 : fieldOk fac s c.rtype c.rmax r with
            | false =>
              rw [g2] at h2
              refine .inl ⟨⟨_, forIn_cons_err _ _ _ _ _ h2, Or.inr (Or.inl rfl)⟩, ?_⟩
              rw [loadOld_match fac s a c l r hl hr hf e1.symm e2.symm, g1, g2]; rfl
            | true =>
              rw [g2, if_pos rfl] at h2
              refine .inr ⟨l, r, ?_, ?_⟩
              · rw [forIn_cons_ok _ _ _ _ _ h2]; rfl
              · rw [loadOld_match fac s a c l r hl hr hf e1.symm e2.symm, g1, g2]; rfl
          · have hb3 : (a.rf == c.rf) = false := beq_eq_false_iff_ne.2 e2
            rw [hb3, if_neg (by decide)] at h2
            exact .inl ⟨⟨_, forIn_cons_err _ _ _ _ _ h2, Or.inr (Or.inl rfl)⟩,
              loadOld_err_fields _ _ _ c hf (fun h => e2 h.2.symm)⟩
    · -- the first entry is not the left field: the hand model rejects the entry
      have hb : (a.lf == c.lf) = false := beq_eq_false_iff_ne.2 e1
      rw [hb, if_neg (by decide)] at h1
      have hbad : loadOldAssoc fac.L (abs s) a = .error .validation :=
        loadOld_err_fields _ _ _ c hf (fun h => e1 h.1.symm)
      by_cases e1' : a.lf = c.rf
      · have hb' : (a.lf == c.rf) = true := beq_iff_eq.2 e1'
        rw [hb', if_pos rfl] at h1
        cases g1 : fieldOk fac s c.rtype c.rmax l with
        | false =>
          rw [g1] at h1
          exact .inl ⟨⟨_, forIn_cons_err _ _ _ _ _ h1, Or.inr (Or.inl rfl)⟩, hbad⟩
        | true =>
          rw [g1, if_pos rfl] at h1
          rw [forIn_cons_ok _ _ _ _ _ h1]
          cases hr : Ser.resolveIds (abs s) a.right with
          | none =>
            obtain ⟨e, he, hfe⟩ := field_unresolved env fac s
              { cls := a.metaconcept, lf := c.lf, rf := c.rf, right := l, distinct := hne } a.rf a.right hr
            exact .inl ⟨⟨e, forIn_cons_err _ _ _ _ _ he, hfe⟩, hbad⟩
          | some r =>
            have h2 := field_resolved env fac s
              { cls := a.metaconcept, lf := c.lf, rf := c.rf, right := l, distinct := hne } a.rf a.right r c hr hf
            dsimp only at h2
            have hb2 : (a.rf == c.lf) = false := beq_eq_false_iff_ne.2 (fun h => hsw ⟨e1', h⟩)
            have hb3 : (a.rf == c.rf) = false := beq_eq_false_iff_ne.2 (fun h => hd (e1'.trans h.symm))
            rw [hb2, if_neg (by decide), hb3, if_neg (by decide)] at h2
            exact .inl ⟨⟨_, forIn_cons_err _ _ _ _ _ h2, Or.inr (Or.inl rfl)⟩, hbad⟩
      · have hb' : (a.lf == c.rf) = false := beq_eq_false_iff_ne.2 e1'
        rw [hb', if_neg (by decide)] at h1
        exact .inl ⟨⟨_, forIn_cons_err _ _ _ _ _ h1, Or.inr (Or.inl rfl)⟩, hbad⟩

/-! ### a member id that is not a number (the one-fault disagreement of this loop) -/

/-- a member id of the first field is a string that is not a number: `int(id)` raises `ValueError` … -/
theorem assocBody_left_not_int (env : ModelEnv) (fac : Factory) (nested : Bool) (a : OldAssoc)
    (hW : AssocWf fac.L nested a) (s : H) (c : MS.AssocClass)
    (hf : (MS.assocClasses fac.L).find? (·.cls = a.metaconcept) = some c) (hne : c.lf ≠ c.rf)
    (h : a.left.mapM Key.toInt? = none) (hpl : ∀ k ∈ a.left, keyPlain k = true) :
    assocBody env fac (encAssoc nested a) s = .error (.py .valueError) := by
  rw [assocBody_some env fac nested a hW s c hf hne]
  unfold assocItems
  have h1 : fieldBody env fac s.lfresh (.str a.lf, .list (a.left.map keyJ))
      (newAssocObj s { cls := a.metaconcept, lf := c.lf, rf := c.rf, distinct := hne }) = .error (.py .valueError) := by
    rw [fieldBody_eq, h, idsErr_plain _ hpl]
  rw [forIn_cons_err _ _ _ _ _ h1]
  rfl

/-- … and the hand model, which does not tell a non-number from an unknown id, says `validation` -/
theorem loadOld_left_not_int (L : Lang) (st : MS.St) (a : OldAssoc) (h : a.left.mapM Key.toInt? = none) :
    loadOldAssoc L st a = .error .validation := by
  apply loadOld_err_left
  rw [resolveIds_eq, h]; rfl

/-! ### one round of the association loop -/

theorem assoc_cases (env : ModelEnv) (fac : Factory) (hL : FieldsDistinct fac.L) (nested : Bool) (a : OldAssoc)
    (hW : AssocWf fac.L nested a) (s : H) :
    (∃ e er, assocBody env fac (encAssoc nested a) s = .error e ∧
      loadOldAssoc fac.L (abs s) a = .error er ∧ OldErrAgree e er) ∨
    (∃ o : PyAssoc,
      assocBody env fac (encAssoc nested a) s =
        (liftPy (model_add_association (newAssocObj s o) env s.lfresh)).bind
          (fun s2 => .ok (ForInStep.yield s2)) ∧
      loadOldAssoc fac.L (abs s) a =
        addAssocCore (abs s) { cls := o.cls, lf := o.lf, rf := o.rf, left := o.left, right := o.right }) := by
  cases hf : (MS.assocClasses fac.L).find? (·.cls = a.metaconcept) with
  | none =>
    obtain ⟨er, her, hag⟩ := loadOld_err_class fac.L (abs s) a hf
    exact .inl ⟨_, er, assocBody_none env fac nested a hW s hf, her, hag⟩
  | some c =>
    have hne : c.lf ≠ c.rf := hL c (List.mem_of_find?_eq_some hf)
    rw [assocBody_some env fac nested a hW s c hf hne]
    rcases fields_cases env fac s a c hf hne hW.distinct (hW.notSwapped c hf) with ⟨⟨e, he, hfe⟩, hbad⟩ | ⟨l, r, hok, hld⟩
    · rw [he]; exact .inl ⟨e, .validation, rfl, hbad, hfe.agree⟩
    · rw [hok]
      exact .inr ⟨{ cls := a.metaconcept, lf := c.lf, rf := c.rf, left := l, right := r, distinct := hne }, rfl, hld⟩

theorem assoc_sim {env : ModelEnv} (hE : EqId env) (fac : Factory) (hL : FieldsDistinct fac.L) (nested : Bool) :
    StepSim PL (AssocWf fac.L nested) (assocBody env fac) (encAssoc nested) (loadOldAssoc fac.L) := by
  refine ⟨?_, ?_⟩
  · intro n s a r hP hW hb
    rcases assoc_cases env fac hL nested a hW s with ⟨e, _, he, _, _⟩ | ⟨o, hbody, hld⟩
    · rw [he] at hb; cases hb
    · rw [hbody] at hb
      have htie := add_association_tie hE s hP.1 o
      cases hm : model_add_association (newAssocObj s o) env s.lfresh with
      | error e => rw [hm] at hb; cases hb
      | ok s1 =>
        rw [hm] at hb htie
        have hr : r = ForInStep.yield s1 := by
          have hb' : (Except.ok (ForInStep.yield s1) : Except LErr (ForInStep H)) = .ok r := hb
          injection hb' with hb'; exact hb'.symm
        have hstep : loadOldAssoc fac.L (abs s) a = .ok (abs s1) := by rw [hld, ← htie]; rfl
        refine ⟨s1, hr, hstep, ?_, ?_⟩
        · -- the invariant of the hand model
          have hstep' := hstep
          unfold loadOldAssoc at hstep'
          split at hstep'
          · split at hstep'
            · cases hstep'
            · split at hstep'
              · exact MS.addAssociation_inv' hP.1 hstep'
              · cases hstep'
          · cases hstep'
        · -- the tuple objects
          have hfr := add_association_tframe (newAssocObj s o) s1 s.lfresh hm
          intro u x hx
          rw [hfr.t] at hx
          rw [hfr.efresh]
          exact hP.2 u x hx
  · intro n s a e hP hW hb
    rcases assoc_cases env fac hL nested a hW s with ⟨e', er, he, her, hag⟩ | ⟨o, hbody, hld⟩
    · rw [he] at hb
      cases hb
      exact ⟨er, her, hag⟩
    · rw [hbody] at hb
      have htie := add_association_tie hE s hP.1 o
      cases hm : model_add_association (newAssocObj s o) env s.lfresh with
      | ok s1 => rw [hm] at hb; cases hb
      | error e1 =>
        rw [hm] at hb htie
        cases hb
        exact ⟨errAbs e1, by rw [hld, ← htie]; rfl, OldErrAgree.py e1⟩

end MalVerif.PyLeg.Tie
