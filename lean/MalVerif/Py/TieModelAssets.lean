import MalVerif.Py.AbsModel
import MalVerif.Py.GenModel.Assets
import MalVerif.Py.GenModel.Lookup
/-!
# Tie: translated `Model.add_asset`, `add_attacker`, `remove_attacker` and the lookups  =  `MalVerif.MS`

`model_*` are GENERATED from `maltoolbox/model.py` on every run (`MalVerif/Py/GenModel/*.lean`).
-/
namespace MalVerif.PyM.Tie
open MalVerif MalVerif.PyM MalVerif.PyM.Gen

/-! ### lookups -/

theorem get_asset_by_id_tie (s : H) (env : ModelEnv) (i : Int) :
    model_get_asset_by_id s env i = MS.getAssetById (abs s) i := by
  unfold model_get_asset_by_id MS.getAssetById
  simp only [Id.run, pure]
  show s.assets.find? _ = s.assets.find? _
  congr 1

theorem get_asset_by_name_tie (s : H) (env : ModelEnv) (n : String) :
    model_get_asset_by_name s env n = MS.getAssetByName (abs s) n := by
  unfold model_get_asset_by_name MS.getAssetByName
  simp only [Id.run, pure]
  show s.assets.find? _ = s.assets.find? _
  congr 1

/-- `get_attacker_by_id` compares the `Optional[int]` id with the integer: an attacker whose `id` is `None` is
never found.  The hand model has integer ids only, hence the hypothesis (it holds after `add_attacker`). -/
theorem find?_congr' {α : Type} (l : List α) (p q : α → Bool) (h : ∀ x ∈ l, p x = q x) : l.find? p = l.find? q := by
  induction l with
  | nil => rfl
  | cons x xs ih =>
    rw [List.find?_cons, List.find?_cons, h x (List.mem_cons_self ..), ih (fun y hy => h y (List.mem_cons_of_mem _ hy))]

theorem get_attacker_by_id_tie (s : H) (env : ModelEnv) (i : Int)
    (hid : ∀ t ∈ s.attackers, (s.t t).id.isSome) :
    model_get_attacker_by_id s env i = MS.getAttackerById (abs s) i := by
  unfold model_get_attacker_by_id MS.getAttackerById
  simp only [Id.run, pure]
  show s.attackers.find? _ = s.attackers.find? _
  apply find?_congr'
  intro t ht
  show ((s.t t).id == some i) = decide (attrInt (s.t t).id = i)
  have := hid t ht
  cases h : (s.t t).id with
  | none => rw [h] at this; cases this
  | some v =>
    show (some v == some i) = decide (v = i)
    by_cases hv : v = i <;> simp [hv]

/-! ### `get_associated_assets_by_field_name` -/

theorem getattr_lf' (s : H) (l : LRef) : pyGetattr s l (s.l l).lf = .ok (l, false) := by
  unfold pyGetattr; simp

theorem getattr_rf' (s : H) (l : LRef) : pyGetattr s l (s.l l).rf = .ok (l, true) := by
  unfold pyGetattr
  have h : ((s.l l).rf == (s.l l).lf) = false := by
    simpa using fun h => (s.l l).distinct h.symm
  rw [h]; simp

/-- a `for` loop in `Except` whose body never exits early and never raises is a fold -/
theorem forIn_yield_ok {α β : Type} (l : List α) (init : β) (body : α → β → Except PyErr (ForInStep β)) (g : β → α → β)
    (h : ∀ x ∈ l, ∀ b, body x b = .ok (.yield (g b x))) : forIn l init body = .ok (l.foldl g init) := by
  induction l generalizing init with
  | nil => rfl
  | cons x xs ih =>
    rw [List.forIn_cons, h x (List.mem_cons_self ..)]
    exact ih _ (fun y hy => h y (List.mem_cons_of_mem _ hy))

/-- one round of the loop of `get_associated_assets_by_field_name` -/
def nbStep (s : H) (a : ARef) (f : String) (l : LRef) : List ARef :=
  (if (s.l l).left.contains a && (s.l l).rf == f then (s.l l).right else []) ++
  (if (s.l l).right.contains a && (s.l l).lf == f then (s.l l).left else [])

theorem foldl_append_flatMap {α β : Type} (g : α → List β) (l : List α) (acc : List β) :
    l.foldl (fun acc x => acc ++ g x) acc = acc ++ l.flatMap g := by
  induction l generalizing acc with
  | nil => simp
  | cons x xs ih => rw [List.foldl_cons, ih, List.flatMap_cons, List.append_assoc]

/-- `get_associated_assets_by_field_name` never raises and returns the model's `neighbours` -/
theorem neighbours_tie {env : ModelEnv} (hE : EqId env) (s : H) (a : ARef) (f : String) :
    model_get_associated_assets_by_field_name s env a f = .ok (MS.neighbours (abs s) a f) := by
  unfold model_get_associated_assets_by_field_name
  simp only [bind, Except.bind, pure, Except.pure]
  rw [forIn_yield_ok _ _ _ (fun acc l => acc ++ nbStep s a f l)]
  · rw [foldl_append_flatMap, List.nil_append]
    unfold MS.neighbours
    show Except.ok ((s.a a).associations.flatMap _) = Except.ok ((s.a a).associations.flatMap _)
    congr 2
  · intro l _ acc
    have e1 : (model_get_association_field_names s env l).1 = (s.l l).lf := rfl
    have e2 : (model_get_association_field_names s env l).2 = (s.l l).rf := rfl
    have r1 : s.rd (l, false) = (s.l l).left := rfl
    have r2 : s.rd (l, true) = (s.l l).right := rfl
    simp only [e1, e2, getattr_lf', getattr_rf', pyIn_asset hE, r1, r2]
    unfold nbStep
    split <;> split <;> simp

/-! ### attackers -/

/-- closed form of the translated `add_attacker` -/
def addAttackerH (h : H) (t : TRef) (id : Option Int) : H :=
  { h with
    t := fun x => if x = t then
        { h.t t with id := some (id.getD h.next_id)
                     name := if truthyOptStr (h.t t).name then (h.t t).name
                             else some ("Attacker:" ++ toString (id.getD h.next_id)) }
      else h.t x
    next_id := max (id.getD h.next_id + 1) h.next_id
    attackers := h.attackers ++ [t] }

theorem add_attacker_run (h : H) (env : ModelEnv) (t : TRef) (id : Option Int) :
    model_add_attacker h env t id = addAttackerH h t id := by
  unfold model_add_attacker addAttackerH
  cases id <;> cases hn : truthyOptStr (h.t t).name <;>
    simp [Id.run, pure, H.setT, hn, optIntGet, strOptInt] <;>
    (try (funext x; by_cases hx : x = t <;> simp [hx]))

/-- `add_attacker` on a new `AttackerAttachment(name=…)` (no entry points yet): the model's `addAttacker` -/
theorem add_attacker_tie (s : H) (env : ModelEnv) (o : PyAtt) (ho : o.entry_points = []) (id : Option Int) :
    abs (model_add_attacker (newAttObj s o) env s.tfresh id) = MS.addAttacker (abs s) o.name id := by
  rw [add_attacker_run]
  unfold addAttackerH MS.addAttacker newAttObj abs
  simp only [MS.St.mk.injEq, true_and, and_true, if_pos]
  funext x
  by_cases hx : x = s.tfresh
  · subst hx
    cases hn : o.name with
    | none => simp [absAtt, truthyOptStr, attrInt, attrStr, ho]
    | some n => by_cases he : n.isEmpty <;> simp [absAtt, truthyOptStr, attrInt, attrStr, ho, he]
  · simp [hx, absAtt, epVal]

/-- the attacker added is in the model with an id -/
theorem add_attacker_id (h : H) (env : ModelEnv) (t : TRef) (id : Option Int) :
    ((model_add_attacker h env t id).t t).id = some (id.getD h.next_id) := by
  rw [add_attacker_run]; simp [addAttackerH]

/-! ### `remove_attacker`: `AttackerAttachment` is compared by value -/

theorem eraseP_eq_erase {l : List Nat} {p : Nat → Bool} {t : Nat} (hp : p t = true)
    (h : ∀ u ∈ l, p u = true → u = t) : l.eraseP p = l.erase t := by
  induction l with
  | nil => rfl
  | cons x xs ih =>
    by_cases hx : p x = true
    · have := h x (List.mem_cons_self ..) hx
      subst this
      rw [List.eraseP_cons_of_pos hx, List.erase_cons_head]
    · have hne : x ≠ t := fun e => hx (e ▸ hp)
      rw [List.eraseP_cons_of_neg hx, List.erase_cons_tail (by simpa using hne),
        ih (fun u hu => h u (List.mem_cons_of_mem _ hu))]

/-- `remove_attacker` removes the first attacker of the model that is *equal by value* (id, name, entry points)
to the argument.  It is the model's `removeAttacker` when no other attacker of the model is equal to it
(`hTwin`); `PropsGen/C05.lean` shows that the hypothesis is needed. -/
theorem remove_attacker_tie_partial (s : H) (env : ModelEnv) (t : TRef)
    (hTwin : ∀ u ∈ s.attackers, eqAtt env s u t = true → u = t) :
    absR (model_remove_attacker s env t) = MS.removeAttacker (abs s) t := by
  have hself : eqAtt env s t t = true := by simp [eqAtt]
  have hin : pyIn (eqAtt env s) s.attackers t = s.attackers.contains t := by
    unfold pyIn
    apply Bool.eq_iff_iff.2
    rw [List.any_eq_true, List.contains_iff_mem]
    exact ⟨fun ⟨u, hu, he⟩ => hTwin u hu he ▸ hu, fun hm => ⟨t, hm, hself⟩⟩
  simp only [model_remove_attacker, MS.removeAttacker, pyRemoveBy, hin, bind, Except.bind, pure, Except.pure]
  by_cases hc : s.attackers.contains t = true
  · have hc' : (abs s).attackers.contains t = true := hc
    simp only [hc, hc', if_true, Bool.not_true, Bool.false_eq_true, if_false]
    rw [eraseP_eq_erase (p := fun y => eqAtt env s y t) hself hTwin]
    rfl
  · have hc' : ¬ (abs s).attackers.contains t = true := hc
    simp only [hc, hc', if_false, Bool.not_eq_true]
    simp [hc', errAbs]

end MalVerif.PyM.Tie
