import MalVerif.Py.AbsModel
import MalVerif.Py.GenModel.Assets
import MalVerif.Py.GenModel.Lookup
/-!
# Tie: translated `Model.add_asset`, `add_attacker`, `remove_attacker` and the lookups  =  `MalVerif.MS`

`model_*` are GENERATED from `maltoolbox/model.py` on every run (`MalVerif/Py/GenModel/*.lean`).
-/
namespace MalVerif.PyM.Tie
open MalVerif MalVerif.PyM MalVerif.PyM.Gen

/-! ### lookups -/

theorem get_asset_by_id_tie (s : H) (env : ModelEnv) (i : Int) :
    model_get_asset_by_id s env i = MS.getAssetById (abs s) i := by
  unfold model_get_asset_by_id MS.getAssetById
  simp only [Id.run, pure]
  show s.assets.find? _ = s.assets.find? _
  congr 1

theorem get_asset_by_name_tie (s : H) (env : ModelEnv) (n : String) :
    model_get_asset_by_name s env n = MS.getAssetByName (abs s) n := by
  unfold model_get_asset_by_name MS.getAssetByName
  simp only [Id.run, pure]
  show s.assets.find? _ = s.assets.find? _
  congr 1

/-- `get_attacker_by_id` compares the `Optional[int]` id with the integer: an attacker whose `id` is `None` is
never found.  The hand model has integer ids only, hence the hypothesis (it holds after `add_attacker`). -/
theorem find?_congr' {α : Type} (l : List α) (p q : α → Bool) (h : ∀ x ∈ l, p x = q x) : l.find? p = l.find? q := by
  induction l with
  | nil => rfl
  | cons x xs ih =>
    rw [List.find?_cons, List.find?_cons, h x (List.mem_cons_self ..), ih (fun y hy => h y (List.mem_cons_of_mem _ hy))]

theorem get_attacker_by_id_tie (s : H) (env : ModelEnv) (i : Int)
    (hid : ∀ t ∈ s.attackers, (s.t t).id.isSome) :
    model_get_attacker_by_id s env i = MS.getAttackerById (abs s) i := by
  unfold model_get_attacker_by_id MS.getAttackerById
  simp only [Id.run, pure]
  show s.attackers.find? _ = s.attackers.find? _
  apply find?_congr'
  intro t ht
  show ((s.t t).id == some i) = decide (attrInt (s.t t).id = i)
  have := hid t ht
  cases h : (s.t t).id with
  | none => rw [h] at this; cases this
  | some v =>
    show (some v == some i) = decide (v = i)
    by_cases hv : v = i <;> simp [hv]

/-! ### `get_associated_assets_by_field_name` -/

theorem getattr_lf' (s : H) (l : LRef) : pyGetattr s l (s.l l).lf = .ok (l, false) := by
  unfold pyGetattr; simp

theorem getattr_rf' (s : H) (l : LRef) : pyGetattr s l (s.l l).rf = .ok (l, true) := by
  unfold pyGetattr
  have h : ((s.l l).rf == (s.l l).lf) = false := by
    simpa using fun h => (s.l l).distinct h.symm
  rw [h]; simp

/-- a `for` loop in `Except` whose body never exits early and never raises is a fold -/
theorem forIn_yield_ok {α β : Type} (l : List α) (init : β) (body : α → β → Except PyErr (ForInStep β)) (g : β → α → β)
    (h : ∀ x ∈ l, ∀ b, body x b = .ok (.yield (g b x))) : forIn l init body = .ok (l.foldl g init) := by
  induction l generalizing init with
  | nil => rfl
  | cons x xs ih =>
    rw [List.forIn_cons, h x (List.mem_cons_self ..)]
    exact ih _ (fun y hy => h y (List.mem_cons_of_mem _ hy))

/-- one round of the loop of `get_associated_assets_by_field_name` -/
def nbStep (s : H) (a : ARef) (f : String) (l : LRef) : List ARef :=
  (if (s.l l).left.contains a && (s.l l).rf == f then (s.l l).right else []) ++
  (if (s.l l).right.contains a && (s.l l).lf == f then (s.l l).left else [])

theorem foldl_append_flatMap {α β : Type} (g : α → List β) (l : List α) (acc : List β) :
    l.foldl (fun acc x => acc ++ g x) acc = acc ++ l.flatMap g := by
  induction l generalizing acc with
  | nil => simp
  | cons x xs ih => rw [List.foldl_cons, ih, List.flatMap_cons, List.append_assoc]

/-- `get_associated_assets_by_field_name` never raises and returns the model's `neighbours` -/
theorem neighbours_tie {env : ModelEnv} (hE : EqId env) (s : H) (a : ARef) (f : String) :
    model_get_associated_assets_by_field_name s env a f = .ok (MS.neighbours (abs s) a f) := by
  unfold model_get_associated_assets_by_field_name
  simp only [bind, Except.bind, pure, Except.pure]
  rw [forIn_yield_ok _ _ _ (fun acc l => acc ++ nbStep s a f l)]
  · rw [foldl_append_flatMap, List.nil_append]
    unfold MS.neighbours
    show Except.ok ((s.a a).associations.flatMap _) = Except.ok ((s.a a).associations.flatMap _)
    congr 2
  · intro l _ acc
    have e1 : (model_get_association_field_names s env l).1 = (s.l l).lf := rfl
    have e2 : (model_get_association_field_names s env l).2 = (s.l l).rf := rfl
    have r1 : s.rd (l, false) = (s.l l).left := rfl
    have r2 : s.rd (l, true) = (s.l l).right := rfl
    simp only [e1, e2, getattr_lf', getattr_rf', pyIn_asset hE, r1, r2]
    unfold nbStep
    split <;> split <;> simp

end MalVerif.PyM.Tie
