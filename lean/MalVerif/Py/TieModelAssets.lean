import MalVerif.Py.AbsModel
import MalVerif.Py.GenModel.Assets
import MalVerif.Py.GenModel.Lookup
/-!
# Tie: translated `Model.add_asset`, `add_attacker`, `remove_attacker` and the lookups  =  `MalVerif.MS`

`model_*` are GENERATED from `maltoolbox/model.py` on every run (`MalVerif/Py/GenModel/*.lean`).
-/
namespace MalVerif.PyM.Tie
open MalVerif MalVerif.PyM MalVerif.PyM.Gen

/-! ### lookups -/

theorem get_asset_by_id_tie (s : H) (env : ModelEnv) (i : Int) :
    model_get_asset_by_id s env i = MS.getAssetById (abs s) i := by
  unfold model_get_asset_by_id MS.getAssetById
  simp only [Id.run, pure]
  show s.assets.find? _ = s.assets.find? _
  congr 1

theorem get_asset_by_name_tie (s : H) (env : ModelEnv) (n : String) :
    model_get_asset_by_name s env n = MS.getAssetByName (abs s) n := by
  unfold model_get_asset_by_name MS.getAssetByName
  simp only [Id.run, pure]
  show s.assets.find? _ = s.assets.find? _
  congr 1

/-- `get_attacker_by_id` compares the `Optional[int]` id with the integer: an attacker whose `id` is `None` is
never found.  The hand model has integer ids only, hence the hypothesis (it holds after `add_attacker`). -/
theorem find?_congr' {α : Type} (l : List α) (p q : α → Bool) (h : ∀ x ∈ l, p x = q x) : l.find? p = l.find? q := by
  induction l with
  | nil => rfl
  | cons x xs ih =>
    rw [List.find?_cons, List.find?_cons, h x (List.mem_cons_self ..), ih (fun y hy => h y (List.mem_cons_of_mem _ hy))]

theorem get_attacker_by_id_tie (s : H) (env : ModelEnv) (i : Int)
    (hid : ∀ t ∈ s.attackers, (s.t t).id.isSome) :
    model_get_attacker_by_id s env i = MS.getAttackerById (abs s) i := by
  unfold model_get_attacker_by_id MS.getAttackerById
  simp only [Id.run, pure]
  show s.attackers.find? _ = s.attackers.find? _
  apply find?_congr'
  intro t ht
  show ((s.t t).id == some i) = decide (attrInt (s.t t).id = i)
  have := hid t ht
  cases h : (s.t t).id with
  | none => rw [h] at this; cases this
  | some v =>
    show (some v == some i) = decide (v = i)
    by_cases hv : v = i <;> simp [hv]

/-! ### `get_associated_assets_by_field_name` -/

theorem getattr_lf' (s : H) (l : LRef) : pyGetattr s l (s.l l).lf = .ok (l, false) := by
  unfold pyGetattr; simp

theorem getattr_rf' (s : H) (l : LRef) : pyGetattr s l (s.l l).rf = .ok (l, true) := by
  unfold pyGetattr
  have h : ((s.l l).rf == (s.l l).lf) = false := by
    simpa using fun h => (s.l l).distinct h.symm
  rw [h]; simp

/-- a `for` loop in `Except` whose body never exits early and never raises is a fold -/
theorem forIn_yield_fold {α β : Type} (l : List α) (init : β) (body : α → β → Except PyErr (ForInStep β)) (g : β → α → β)
    (h : ∀ x ∈ l, ∀ b, body x b = .ok (.yield (g b x))) : forIn l init body = .ok (l.foldl g init) := by
  induction l generalizing init with
  | nil => rfl
  | cons x xs ih =>
    rw [List.forIn_cons, h x (List.mem_cons_self ..)]
    exact ih _ (fun y hy => h y (List.mem_cons_of_mem _ hy))

/-- one round of the loop of `get_associated_assets_by_field_name` -/
def nbStep (s : H) (a : ARef) (f : String) (l : LRef) : List ARef :=
  (if (s.l l).left.contains a && (s.l l).rf == f then (s.l l).right else []) ++
  (if (s.l l).right.contains a && (s.l l).lf == f then (s.l l).left else [])

theorem foldl_append_flatMap {α β : Type} (g : α → List β) (l : List α) (acc : List β) :
    l.foldl (fun acc x => acc ++ g x) acc = acc ++ l.flatMap g := by
  induction l generalizing acc with
  | nil => simp
  | cons x xs ih => rw [List.foldl_cons, ih, List.flatMap_cons, List.append_assoc]

/-- `get_associated_assets_by_field_name` never raises and returns the model's `neighbours` -/
theorem neighbours_tie {env : ModelEnv} (hE : EqId env) (s : H) (a : ARef) (f : String) :
    model_get_associated_assets_by_field_name s env a f = .ok (MS.neighbours (abs s) a f) := by
  unfold model_get_associated_assets_by_field_name
  simp only [bind, Except.bind, pure, Except.pure]
  rw [forIn_yield_fold _ _ _ (fun acc l => acc ++ nbStep s a f l)]
  · rw [foldl_append_flatMap, List.nil_append]
    unfold MS.neighbours
    show Except.ok ((s.a a).associations.flatMap _) = Except.ok ((s.a a).associations.flatMap _)
    congr 2
  · intro l _ acc
    have e1 : (model_get_association_field_names s env l).1 = (s.l l).lf := rfl
    have e2 : (model_get_association_field_names s env l).2 = (s.l l).rf := rfl
    have r1 : s.rd (l, false) = (s.l l).left := rfl
    have r2 : s.rd (l, true) = (s.l l).right := rfl
    simp only [e1, e2, getattr_lf', getattr_rf', pyIn_asset hE, r1, r2]
    unfold nbStep
    split <;> split <;> simp

/-! ### attackers -/

/-- closed form of the translated `add_attacker` -/
def addAttackerH (h : H) (t : TRef) (id : Option Int) : H :=
  { h with
    t := fun x => if x = t then
        { h.t t with id := some (id.getD h.next_id)
                     name := if truthyOptStr (h.t t).name then (h.t t).name
                             else some ("Attacker:" ++ toString (id.getD h.next_id)) }
      else h.t x
    next_id := max (id.getD h.next_id + 1) h.next_id
    attackers := h.attackers ++ [t] }

theorem add_attacker_run (h : H) (env : ModelEnv) (t : TRef) (id : Option Int) :
    model_add_attacker h env t id = addAttackerH h t id := by
  unfold model_add_attacker addAttackerH
  cases id <;> cases hn : truthyOptStr (h.t t).name <;>
    simp [Id.run, pure, H.setT, hn, optIntGet, strOptInt] <;>
    (try (funext x; by_cases hx : x = t <;> simp [hx]))

/-- `add_attacker` on a new `AttackerAttachment(name=…)` (no entry points yet): the model's `addAttacker` -/
theorem add_attacker_tie (s : H) (env : ModelEnv) (o : PyAtt) (ho : o.entry_points = []) (id : Option Int) :
    abs (model_add_attacker (newAttObj s o) env s.tfresh id) = MS.addAttacker (abs s) o.name id := by
  rw [add_attacker_run]
  unfold addAttackerH MS.addAttacker newAttObj abs
  simp only [MS.St.mk.injEq, true_and, and_true, if_pos]
  funext x
  by_cases hx : x = s.tfresh
  · subst hx
    cases hn : o.name with
    | none => simp [absAtt, truthyOptStr, attrInt, attrStr, ho]
    | some n => by_cases he : n.isEmpty <;> simp [absAtt, truthyOptStr, attrInt, attrStr, ho, he]
  · simp [hx, absAtt, epVal]

/-- the attacker added is in the model with an id -/
theorem add_attacker_id (h : H) (env : ModelEnv) (t : TRef) (id : Option Int) :
    ((model_add_attacker h env t id).t t).id = some (id.getD h.next_id) := by
  rw [add_attacker_run]; simp [addAttackerH]

/-! ### `remove_attacker`: `AttackerAttachment` is compared by value -/

theorem eraseP_eq_erase {l : List Nat} {p : Nat → Bool} {t : Nat} (hp : p t = true)
    (h : ∀ u ∈ l, p u = true → u = t) : l.eraseP p = l.erase t := by
  induction l with
  | nil => rfl
  | cons x xs ih =>
    by_cases hx : p x = true
    · have := h x (List.mem_cons_self ..) hx
      subst this
      rw [List.eraseP_cons_of_pos hx, List.erase_cons_head]
    · have hne : x ≠ t := fun e => hx (e ▸ hp)
      rw [List.eraseP_cons_of_neg hx, List.erase_cons_tail (by simpa using hne),
        ih (fun u hu => h u (List.mem_cons_of_mem _ hu))]

/-- `remove_attacker` removes the first attacker of the model that is *equal by value* (id, name, entry points)
to the argument.  It is the model's `removeAttacker` when no other attacker of the model is equal to it
(`hTwin`); `PropsGen/C05.lean` shows that the hypothesis is needed. -/
theorem remove_attacker_tie_partial (s : H) (env : ModelEnv) (t : TRef)
    (hTwin : ∀ u ∈ s.attackers, eqAtt env s u t = true → u = t) :
    absR (model_remove_attacker s env t) = MS.removeAttacker (abs s) t := by
  have hself : eqAtt env s t t = true := by simp [eqAtt]
  have hin : pyIn (eqAtt env s) s.attackers t = s.attackers.contains t := by
    unfold pyIn
    apply Bool.eq_iff_iff.2
    rw [List.any_eq_true, List.contains_iff_mem]
    exact ⟨fun ⟨u, hu, he⟩ => hTwin u hu he ▸ hu, fun hm => ⟨t, hm, hself⟩⟩
  simp only [model_remove_attacker, MS.removeAttacker, pyRemoveBy, hin, bind, Except.bind, pure, Except.pure]
  by_cases hc : s.attackers.contains t = true
  · have hc' : (abs s).attackers.contains t = true := hc
    simp only [hc, hc', if_true, Bool.not_true, Bool.false_eq_true, if_false]
    rw [eraseP_eq_erase (p := fun y => eqAtt env s y t) hself hTwin]
    rfl
  · have hc' : ¬ (abs s).attackers.contains t = true := hc
    simp only [hc, hc', if_false, Bool.not_eq_true]
    simp [hc', errAbs]

/-! ### `add_asset` -/

theorem setA_setA (h : H) (a : ARef) (o o' : PyAsset) : (h.setA a o).setA a o' = h.setA a o' := by
  unfold H.setA
  simp only [H.mk.injEq, true_and, and_true]
  funext x; by_cases hx : x = a <;> simp [hx]

theorem setA_self (h : H) (a : ARef) : h.setA a (h.a a) = h := by
  unfold H.setA
  cases h
  simp only [H.mk.injEq, true_and, and_true]
  funext x; by_cases hx : x = a <;> simp [hx]

theorem freshName_zero (taken : List String) (sfx n : String) : MS.freshName taken sfx 0 n = n := rfl
theorem freshName_succ (taken : List String) (sfx n : String) (k : Nat) :
    MS.freshName taken sfx (k + 1) n = if taken.contains n then MS.freshName taken sfx k (n ++ sfx) else n := rfl

/-- the renaming loop `while asset.name in self.asset_names: asset.name = asset.name + ':' + str(asset.id)`,
unrolled over a list of `l.length` rounds: `MS.freshName` -/
theorem rename_loop (a : ARef) (l : List Nat) (r : H) (n : String) (hn : (r.a a).name = some n) :
    (forIn l r (fun _ (r : H) =>
        if (!r.asset_names.contains (attrStr (r.a a).name)) = true then Except.ok (ForInStep.done r)
        else Except.ok (ForInStep.yield (r.setA a { r.a a with
              name := some (attrStr (r.a a).name ++ ":" ++ toString (attrInt (r.a a).id)) }))) : Except PyErr H) =
      .ok (r.setA a { r.a a with
        name := some (MS.freshName r.asset_names (":" ++ toString (attrInt (r.a a).id)) l.length n) }) := by
  induction l generalizing r n with
  | nil =>
    simp only [List.forIn_nil, List.length_nil, freshName_zero, pure, Except.pure]
    rw [← hn]; congr 1; exact (setA_self r a).symm
  | cons x xs ih =>
    rw [List.forIn_cons]
    have hs : attrStr (r.a a).name = n := by rw [hn]; rfl
    by_cases hc : r.asset_names.contains n = true
    · simp only [hs, hc, Bool.not_true, Bool.false_eq_true, if_false, bind, Except.bind, List.length_cons]
      rw [ih _ (n ++ ":" ++ toString (attrInt (r.a a).id)) (by simp [H.setA])]
      rw [setA_setA, freshName_succ, if_pos hc]
      congr 2
      simp [H.setA, String.append_assoc]
    · simp only [hs, hc, Bool.not_false, if_true, bind, Except.bind, List.length_cons, pure, Except.pure]
      rw [freshName_succ, if_neg hc, ← hn]; congr 1; exact (setA_self r a).symm

/-- once the name found is free, more rounds do not change it -/
theorem freshName_stable (taken : List String) (sfx : String) (k : Nat) :
    ∀ (n : String) (k' : Nat), k ≤ k' → MS.freshName taken sfx k n ∉ taken →
      MS.freshName taken sfx k' n = MS.freshName taken sfx k n := by
  induction k with
  | zero =>
    intro n k' _ h
    cases k' with
    | zero => rfl
    | succ k' =>
      rw [freshName_zero] at h ⊢
      rw [freshName_succ, if_neg (by simpa using h)]
  | succ k ih =>
    intro n k' hk h
    cases k' with
    | zero => omega
    | succ k' =>
      rw [freshName_succ] at h
      rw [freshName_succ taken sfx n k', freshName_succ taken sfx n k]
      by_cases hc : taken.contains n = true
      · rw [if_pos hc] at h; rw [if_pos hc, if_pos hc]; exact ih _ k' (by omega) h
      · rw [if_neg hc, if_neg hc]

theorem freshName_fuel (taken : List String) (i : Int) (n : String) (fuel : Nat) (hf : taken.length + 1 ≤ fuel) :
    MS.freshName taken (":" ++ toString i) fuel n = MS.freshName taken (":" ++ toString i) (taken.length + 1) n :=
  freshName_stable _ _ _ _ _ hf (MS.freshName_not_mem _ _ (MS.sfx_length_pos i) _ _ (Nat.lt_succ_self _))

/-- the name `add_asset` ends with (`fuel` rounds of the renaming loop) -/
def chosenNameH (h : H) (a : ARef) (nid : Int) (fuel : Nat) : String :=
  match (h.a a).name with
  | none => MS.freshName h.asset_names (":" ++ toString nid) fuel ((h.a a).type ++ ":" ++ toString nid)
  | some n =>
    if h.asset_names.contains n then MS.freshName h.asset_names (":" ++ toString nid) fuel (n ++ ":" ++ toString nid)
    else n

/-- closed form of the heap after a successful `add_asset` -/
def addAssetH (h : H) (a : ARef) (nid : Int) (nm : String) : H :=
  { h with
    a := fun x => if x = a then
        { h.a a with id := some nid, name := some nm, associations := [], extras := some ((h.a a).extras.getD "{}") }
      else h.a x
    asset_ids := pySetAdd h.asset_ids nid
    next_id := max (nid + 1) h.next_id
    asset_names := pySetAdd h.asset_names nm
    assets := h.assets ++ [a] }

theorem any_is_false (l : List Nat) (a : Nat) (h : a ∉ l) : (l.map (fun e => e == a)).any id = false := by
  induction l with
  | nil => rfl
  | cons x xs ih =>
    have hx : x ≠ a := fun e => h (e ▸ List.mem_cons_self ..)
    simp only [List.map_cons, List.any_cons, id, ih (fun hm => h (List.mem_cons_of_mem _ hm))]
    simp [hx]

theorem add_asset_id_norm (h : H) (env : ModelEnv) (a : ARef) (id : Option Int) (dup : Bool) :
    model_add_asset h env a id dup = model_add_asset h env a (some (id.getD h.next_id)) dup := by
  cases id <;> rfl

theorem add_asset_some (h : H) (env : ModelEnv) (a : ARef) (nid : Int) (dup : Bool) (hnew : a ∉ h.assets)
    (hfuel : h.asset_names.length + 1 ≤ env.whileFuel) :
    model_add_asset h env a (some nid) dup =
      if h.asset_ids.contains nid then .error .valueError else
      if (match (h.a a).name with | some n => h.asset_names.contains n && !dup | none => false) then .error .valueError else
      .ok (addAssetH h a nid (chosenNameH h a nid env.whileFuel)) := by
  unfold model_add_asset
  simp only [bind, Except.bind, pure, Except.pure, throw, throwThe, MonadExceptOf.throw, any_is_false _ _ hnew,
      Bool.false_eq_true, if_false]
  have e1 : ∀ (r : H) (o : PyAsset), (r.setA a o).a a = o := by intro r o; simp [H.setA]
  have e2 : ∀ (r : H) (o : PyAsset), (r.setA a o).asset_names = r.asset_names := fun _ _ => rfl
  have e3 : ∀ (r : H) (o : PyAsset), (r.setA a o).asset_ids = r.asset_ids := fun _ _ => rfl
  have e4 : ∀ (r : H) (o : PyAsset), (r.setA a o).next_id = r.next_id := fun _ _ => rfl
  have e5 : ∀ (r : H) (o : PyAsset), (r.setA a o).assets = r.assets := fun _ _ => rfl
  have hfree : ∀ m : String, ¬ h.asset_names.contains
      (MS.freshName h.asset_names (":" ++ toString nid) env.whileFuel m) = true := by
    intro m hc
    exact MS.freshName_not_mem _ _ (MS.sfx_length_pos nid) _ _ (by omega) (List.contains_iff_mem.1 hc)
  simp only [e1, e2, e3, e4, e5]
  by_cases c1 : h.asset_ids.contains nid = true
  · simp only [c1, if_true]
  · simp only [c1, if_false]
    rcases Option.eq_none_or_eq_some (h.a a).name with hname | ⟨n, hname⟩
    · simp only [hname, Option.isSome, Bool.false_and, Bool.false_eq_true, if_false, Bool.not_false, if_true]
      rw [rename_loop a _ _ ((h.a a).type ++ ":" ++ toString nid) (by simp [H.setA, attrInt])]
      simp only [List.length_range, e1, e2, e3, e4, e5, attrStr, attrInt, Option.getD_some, hfree, if_false,
        Bool.false_eq_true]
      unfold addAssetH chosenNameH
      simp only [hname]
      rcases Option.eq_none_or_eq_some (h.a a).extras with hex | ⟨ex, hex⟩ <;>
        simp [H.setA, hex] <;>
        (funext x; by_cases hx : x = a <;> simp [hx, hex, hname])
    · have hs : attrStr (some n) = n := rfl
      simp only [hname, Option.isSome, Bool.true_and, hs, Bool.not_true, Bool.false_eq_true, if_false]
      by_cases c2 : h.asset_names.contains n = true
      · cases dup with
        | false => simp only [c2, Bool.not_false, Bool.and_self, if_true]
        | true =>
          simp only [c2, Bool.not_true, Bool.and_false, Bool.false_eq_true, if_false, if_true]
          rw [rename_loop a _ _ (n ++ ":" ++ toString nid) (by simp [H.setA, attrInt, attrStr])]
          simp only [List.length_range, e1, e2, e3, e4, e5, attrStr, attrInt, Option.getD_some, hfree, if_false,
            Bool.false_eq_true]
          unfold addAssetH chosenNameH
          simp only [hname, c2, if_true]
          rcases Option.eq_none_or_eq_some (h.a a).extras with hex | ⟨ex, hex⟩ <;>
            simp [H.setA, hex] <;>
            (funext x; by_cases hx : x = a <;> simp [hx, hex, hname])
      · simp only [c2, Bool.false_and, Bool.false_eq_true, if_false]
        unfold addAssetH chosenNameH
        simp only [hname, c2, if_false, Bool.false_eq_true]
        rcases Option.eq_none_or_eq_some (h.a a).extras with hex | ⟨ex, hex⟩ <;>
          simp [H.setA, hex, attrStr, attrInt] <;>
          (funext x; by_cases hx : x = a <;> simp [hx, hex, hname])

theorem add_asset_run (h : H) (env : ModelEnv) (a : ARef) (id : Option Int) (dup : Bool) (hnew : a ∉ h.assets)
    (hfuel : h.asset_names.length + 1 ≤ env.whileFuel) :
    model_add_asset h env a id dup =
      if h.asset_ids.contains (id.getD h.next_id) then .error .valueError else
      if (match (h.a a).name with | some n => h.asset_names.contains n && !dup | none => false) then .error .valueError else
      .ok (addAssetH h a (id.getD h.next_id) (chosenNameH h a (id.getD h.next_id) env.whileFuel)) := by
  rw [add_asset_id_norm, add_asset_some h env a _ dup hnew hfuel]

theorem chosenNameH_eq (s : H) (o : PyAsset) (nid : Int) (fuel : Nat) (hf : s.asset_names.length + 1 ≤ fuel) :
    chosenNameH (newAssetObj s o) s.afresh nid fuel = MS.chosenName (abs s) o.type o.name nid := by
  unfold chosenNameH MS.chosenName newAssetObj
  simp only [if_pos]
  show (match o.name with | none => _ | some n => _) = _
  cases o.name with
  | none =>
    show MS.freshName s.asset_names _ fuel _ = MS.freshName s.asset_names _ _ _
    rw [freshName_fuel _ _ _ _ hf, String.append_assoc]; rfl
  | some n =>
    show (if s.asset_names.contains n = true then MS.freshName s.asset_names _ fuel _ else n) =
      if s.asset_names.contains n = true then MS.freshName s.asset_names _ _ _ else n
    rw [freshName_fuel _ _ _ _ hf, String.append_assoc]; rfl

/-- `Model.add_asset` on a newly constructed asset object `o` (its `id` is overwritten) is the model's `addAsset`
after the guards of the pjs constructor.  `hfresh`: the new object is not yet in `assets` (the identity test at
the start of `add_asset`); `hfuel`: the unrolling bound of the renaming `while` loop is large enough (the loop
makes the name longer in every round, so `len(asset_names) + 1` rounds always suffice). -/
theorem add_asset_tie (s : H) (env : ModelEnv) (hfresh : s.afresh ∉ s.assets)
    (hfuel : s.asset_names.length + 1 ≤ env.whileFuel) (o : PyAsset) (id : Option Int) (dup : Bool) :
    absR (model_add_asset (newAssetObj s o) env s.afresh id dup) =
      addAssetCore (abs s) o.type o.name o.defenses (o.extras.getD "{}") id dup := by
  rw [add_asset_run _ _ _ _ _ (show s.afresh ∉ (newAssetObj s o).assets from hfresh)
    (show (newAssetObj s o).asset_names.length + 1 ≤ env.whileFuel from hfuel), chosenNameH_eq s o _ _ hfuel]
  unfold addAssetCore
  have h1 : (newAssetObj s o).asset_ids = (abs s).assetIds := rfl
  have h2 : (newAssetObj s o).next_id = (abs s).nextId := rfl
  have h3 : (match ((newAssetObj s o).a s.afresh).name with
      | some n => (newAssetObj s o).asset_names.contains n && !dup | none => false) = MS.dupRejected (abs s) o.name dup := by
    unfold MS.dupRejected newAssetObj
    simp only [if_pos]
    rfl
  rw [h1, h2, h3]
  by_cases c1 : (abs s).assetIds.contains (id.getD (abs s).nextId) = true
  · simp only [c1, if_true]; rfl
  · by_cases c2 : MS.dupRejected (abs s) o.name dup = true
    · simp only [c1, c2, if_true, if_false, Bool.false_eq_true]; rfl
    · simp only [c1, c2, if_false, Bool.false_eq_true, absR_ok]
      congr 1
      unfold addAssetH MS.addAssetSt MS.newAsset newAssetObj abs
      simp only [MS.St.mk.injEq, if_pos, true_and, and_true]
      refine ⟨?_, rfl, rfl, rfl⟩
      funext x
      by_cases hx : x = s.afresh
      · subst hx; simp [absAsset, attrInt, attrStr]
      · simp [hx]

/-- the heap after a successful `add_asset` -/
theorem add_asset_ok_form (h h' : H) (env : ModelEnv) (a : ARef) (id : Option Int) (dup : Bool) (hnew : a ∉ h.assets)
    (hfuel : h.asset_names.length + 1 ≤ env.whileFuel) (hok : model_add_asset h env a id dup = .ok h') :
    h' = addAssetH h a (id.getD h.next_id) (chosenNameH h a (id.getD h.next_id) env.whileFuel) := by
  rw [add_asset_run h env a id dup hnew hfuel] at hok
  by_cases c1 : h.asset_ids.contains (id.getD h.next_id) = true
  · rw [if_pos c1] at hok; cases hok
  · rw [if_neg c1] at hok
    by_cases c2 : (match (h.a a).name with | some n => h.asset_names.contains n && !dup | none => false) = true
    · rw [if_pos c2] at hok; cases hok
    · rw [if_neg c2] at hok
      injection hok with hok
      exact hok.symm

/-- `add_asset` does not touch attackers, tuple objects or the allocation counters -/
theorem add_asset_tframe (h h' : H) (env : ModelEnv) (a : ARef) (id : Option Int) (dup : Bool) (hnew : a ∉ h.assets)
    (hfuel : h.asset_names.length + 1 ≤ env.whileFuel) (hok : model_add_asset h env a id dup = .ok h') :
    TFrame h h' := by
  rw [add_asset_run h env a id dup hnew hfuel] at hok
  by_cases c1 : h.asset_ids.contains (id.getD h.next_id) = true
  · rw [if_pos c1] at hok; cases hok
  · rw [if_neg c1] at hok
    by_cases c2 : (match (h.a a).name with | some n => h.asset_names.contains n && !dup | none => false) = true
    · rw [if_pos c2] at hok; cases hok
    · rw [if_neg c2] at hok
      injection hok with hok
      subst hok
      exact ⟨rfl, rfl, rfl, rfl, rfl, rfl, rfl⟩

theorem add_attacker_shape (h : H) (env : ModelEnv) (t : TRef) (id : Option Int) :
    (model_add_attacker h env t id).e = h.e ∧ (model_add_attacker h env t id).efresh = h.efresh ∧
    (model_add_attacker h env t id).attackers = h.attackers ++ [t] ∧
    (∀ u, ((model_add_attacker h env t id).t u).entry_points = (h.t u).entry_points) := by
  rw [add_attacker_run]
  refine ⟨rfl, rfl, rfl, ?_⟩
  intro u
  unfold addAttackerH
  by_cases hu : u = t
  · subst hu; simp
  · simp [hu]

end MalVerif.PyM.Tie
