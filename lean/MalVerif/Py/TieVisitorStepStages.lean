import MalVerif.Py.TieVisitorStepAux
import MalVerif.Py.TieVisitorStepNode
/-!
# The optional parts of a step, one stage at a time

`treeStep` and `parseStep` as chains of the same four optional stages (`cias? ttc? precondition? reaches?`, with
`tag*` in front and `meta*` in between); each stage of the tree builder fails exactly when the model's stage does,
leaves the same tokens (a suffix of what it was given), and the translated visitor on the node it builds returns the
rendering of the model's value.
-/
namespace MalVerif.Py.Visitor
open MalVerif MalVerif.Mal MalVerif.Py.GenVisitor

def tCiasStage (f : Nat) (r1 : List ITok) : Option (List PT × List ITok) :=
  match r1 with
  | (.lcurly, j) :: r => (treeCias f r).map (fun x => ([PT.rule "cias" (leaf (.lcurly, j) :: x.1)], x.2))
  | _ => some ([], r1)

def tTtcStage (f : Nat) (r2 : List ITok) : Option (List PT × List ITok) :=
  match r2 with
  | (.lsquare, j) :: r =>
    match treeTtcExpr f r with
    | some (e, (.rsquare, k) :: r') => some ([PT.rule "ttc" [leaf (.lsquare, j), e, leaf (.rsquare, k)]], r')
    | _ => none
  | _ => some ([], r2)

def tPreStage (f : Nat) (r4 : List ITok) : Option (List PT × List ITok) :=
  match r4 with
  | (.requires, j) :: r => (treeExprList f r).map (fun x => ([PT.rule "precondition" (leaf (.requires, j) :: x.1)], x.2))
  | _ => some ([], r4)

def tRchStage (f : Nat) (r5 : List ITok) : Option (List PT × List ITok) :=
  match r5 with
  | (.leadsto, j) :: r => (treeExprList f r).map (fun x => ([PT.rule "reaches" (leaf (.leadsto, j) :: x.1)], x.2))
  | (.inherits, j) :: r => (treeExprList f r).map (fun x => ([PT.rule "reaches" (leaf (.inherits, j) :: x.1)], x.2))
  | _ => some ([], r5)

theorem treeStep_eq (f : Nat) (t : ITok) (name : String) (i : Nat) (rest : List ITok) :
    treeStep f (t :: (.id name, i) :: rest) =
      (stepType t.1).bind fun _ =>
        (tCiasStage f (treeTags f rest).2).bind fun c =>
          (tTtcStage f c.2).bind fun tt =>
            (tPreStage f (treeMetas f tt.2).2).bind fun pre =>
              (tRchStage f pre.2).bind fun rch =>
                some (stepNode t name i (treeTags f rest).1 c.1 tt.1 (treeMetas f tt.2).1 pre.1 rch.1, rch.2) := by
  unfold treeStep
  cases h : stepType t.1 with
  | none => simp only [h, Option.bind_none]
  | some ty =>
    simp only [h, Option.bind_some]
    split
    · rename_i h1
      have h1' : tCiasStage f (treeTags f rest).2 = none := h1
      rw [h1']; rfl
    · rename_i risk r2 h1
      have h1' : tCiasStage f (treeTags f rest).2 = some (risk, r2) := h1
      rw [h1']; simp only [Option.bind_some]
      split
      · rename_i h2
        have h2' : tTtcStage f r2 = none := h2
        rw [h2']; rfl
      · rename_i tt r3 h2
        have h2' : tTtcStage f r2 = some (tt, r3) := h2
        rw [h2']; simp only [Option.bind_some]
        split
        · rename_i h3
          have h3' : tPreStage f (treeMetas f r3).2 = none := h3
          rw [h3']; rfl
        · rename_i req r5 h3
          have h3' : tPreStage f (treeMetas f r3).2 = some (req, r5) := h3
          rw [h3']; simp only [Option.bind_some]
          split
          · rename_i h4
            have h4' : tRchStage f r5 = none := h4
            rw [h4']; rfl
          · rename_i reaches r6 h4
            have h4' : tRchStage f r5 = some (reaches, r6) := h4
            rw [h4']; rfl

/-! ### the stages -/

theorem tCiasStage_other (f : Nat) (r1 : List ITok) (hne : ¬ ∃ j r, r1 = (Tok.lcurly, j) :: r) :
    tCiasStage f r1 = some ([], r1) := by
  unfold tCiasStage
  split
  · exact (hne ⟨_, _, rfl⟩).elim
  · rfl
theorem tTtcStage_other (f : Nat) (r1 : List ITok) (hne : ¬ ∃ j r, r1 = (Tok.lsquare, j) :: r) :
    tTtcStage f r1 = some ([], r1) := by
  unfold tTtcStage
  split
  · exact (hne ⟨_, _, rfl⟩).elim
  · rfl
theorem tPreStage_other (f : Nat) (r1 : List ITok) (hne : ¬ ∃ j r, r1 = (Tok.requires, j) :: r) :
    tPreStage f r1 = some ([], r1) := by
  unfold tPreStage
  split
  · exact (hne ⟨_, _, rfl⟩).elim
  · rfl
theorem tRchStage_other (f : Nat) (r1 : List ITok) (hne1 : ¬ ∃ j r, r1 = (Tok.leadsto, j) :: r)
    (hne2 : ¬ ∃ j r, r1 = (Tok.inherits, j) :: r) :
    tRchStage f r1 = some ([], r1) := by
  unfold tRchStage
  split
  · exact (hne1 ⟨_, _, rfl⟩).elim
  · exact (hne2 ⟨_, _, rfl⟩).elim
  · rfl

theorem depthL_single (x : PT) : PT.depthL [x] = x.depth := by simp [PT.depthL]

theorem cias_stage_tie (c : V → M V) (toks : List V) (wf f : Nat) (r1 : List ITok) :
    match tCiasStage f r1 with
    | none => ciasStage f (r1.map Prod.fst) = none
    | some (seg, r2) =>
      ∃ ro, ciasStage f (r1.map Prod.fst) = some (ro, r2.map Prod.fst) ∧ r2 <:+ r1 ∧ AllRule "cias" seg ∧
        ∀ g up, PT.depthL seg ≤ g → VisSeg (visitF c toks wf g) up seg (rOpt rRisk ro) := by
  by_cases hsh : ∃ j r, r1 = (Tok.lcurly, j) :: r
  · obtain ⟨j, r, rfl⟩ := hsh
    simp only [List.map_cons, ciasStage, tCiasStage]
    cases h : treeCias f r with
    | none => simp only [Option.map_none]; rw [cias_none f r h]; rfl
    | some p =>
      obtain ⟨cs, irest⟩ := p
      obtain ⟨ro, hp, hv⟩ := cias_tie c toks wf f r cs irest h
      simp only [Option.map_some]
      refine ⟨some ro, by rw [hp]; rfl, suf_cons (treeCias_suffix f r cs irest h), AllRule.single _ _, fun g up hg => ?_⟩
      rw [depthL_single] at hg
      exact hv g j up hg
  · rw [tCiasStage_other f r1 hsh]
    have : ciasStage f (r1.map Prod.fst) = some (none, r1.map Prod.fst) := by
      unfold ciasStage
      split
      · rename_i r heq
        obtain ⟨j, r', rfl, _⟩ := map_fst_cons heq
        exact (hsh ⟨_, _, rfl⟩).elim
      · rfl
    exact ⟨none, this, List.suffix_refl _, AllRule.nil _, fun g up _ => rfl⟩

theorem tTtcStage_ok (f j k : Nat) (r r' : List ITok) (e : PT) (h : treeTtcExpr f r = some (e, (Tok.rsquare, k) :: r')) :
    tTtcStage f ((Tok.lsquare, j) :: r) = some ([PT.rule "ttc" [leaf (.lsquare, j), e, leaf (.rsquare, k)]], r') := by
  simp only [tTtcStage, h]
theorem tTtcStage_bad (f j : Nat) (r irest : List ITok) (e : PT) (h : treeTtcExpr f r = some (e, irest))
    (hne : ¬ ∃ k r', irest = (Tok.rsquare, k) :: r') : tTtcStage f ((Tok.lsquare, j) :: r) = none := by
  simp only [tTtcStage, h]
  split
  · rename_i heq
    simp only [Option.some.injEq, Prod.mk.injEq] at heq
    exact (hne ⟨_, _, heq.2⟩).elim
  · rfl
theorem tTtcStage_none (f j : Nat) (r : List ITok) (h : treeTtcExpr f r = none) :
    tTtcStage f ((Tok.lsquare, j) :: r) = none := by
  simp only [tTtcStage, h]
theorem ttcStage_ok (f : Nat) (r r' : List Tok) (e : TTC) (h : parseTtcExpr f r = some (e, Tok.rsquare :: r')) :
    ttcStage f (Tok.lsquare :: r) = some (some e, r') := by
  simp only [ttcStage, h]
theorem ttcStage_bad (f : Nat) (r rest : List Tok) (e : TTC) (h : parseTtcExpr f r = some (e, rest))
    (hne : ¬ ∃ r', rest = Tok.rsquare :: r') : ttcStage f (Tok.lsquare :: r) = none := by
  simp only [ttcStage, h]
  split
  · rename_i heq
    simp only [Option.some.injEq, Prod.mk.injEq] at heq
    exact (hne ⟨_, heq.2⟩).elim
  · rfl
theorem ttcStage_none (f : Nat) (r : List Tok) (h : parseTtcExpr f r = none) : ttcStage f (Tok.lsquare :: r) = none := by
  simp only [ttcStage, h]

theorem ttc_stage_tie (c : V → M V) (toks : List V) (wf f : Nat) (r2 : List ITok) :
    match tTtcStage f r2 with
    | none => ttcStage f (r2.map Prod.fst) = none
    | some (seg, r3) =>
      ∃ to, ttcStage f (r2.map Prod.fst) = some (to, r3.map Prod.fst) ∧ r3 <:+ r2 ∧ AllRule "ttc" seg ∧
        ((∀ x ∈ r2, numOK x.1 = true) → ∀ g up, PT.depthL seg ≤ g → VisSeg (visitF c toks wf g) up seg (rOpt rTtc to)) := by
  by_cases hsh : ∃ j r, r2 = (Tok.lsquare, j) :: r
  · obtain ⟨j, r, rfl⟩ := hsh
    simp only [List.map_cons]
    cases h : treeTtcExpr f r with
    | none => rw [tTtcStage_none f j r h]; exact ttcStage_none f _ (ttcexpr_none f r h)
    | some p =>
      obtain ⟨e, irest⟩ := p
      have hall := (ttc_all c toks wf f).2.2.2.2.2 r
      rw [h, tie_some] at hall
      obtain ⟨te, hp, ⟨ecs, rfl⟩, -, hv⟩ := hall
      by_cases hk : ∃ k r', irest = (Tok.rsquare, k) :: r'
      · obtain ⟨k, r', rfl⟩ := hk
        rw [tTtcStage_ok f j k r r' _ h]
        refine ⟨some te, ttcStage_ok f _ _ te hp, ?_, AllRule.single _ _, fun hnum g up hg => ?_⟩
        · exact suf_cons (List.IsSuffix.trans ⟨[_], rfl⟩ (treeTtcExpr_suffix f r _ _ h))
        · rw [depthL_single] at hg
          simp only [depth_rule, PT.depthL, leaf, depth_tok] at hg
          obtain ⟨g, rfl⟩ : ∃ g', g = g' + 1 := ⟨g - 1, by omega⟩
          have hv' := hv (fun x hx => hnum x (List.mem_cons_of_mem _ hx))
          exact ttc_wrapper_tie c toks wf (.rule "ttcexpr" ecs) (rTtc te) j k g up
            (fun up' => hv' g up' (by rw [depth_rule]; omega)) rfl
      · rw [tTtcStage_bad f j r irest _ h hk]
        refine ttcStage_bad f _ _ te hp ?_
        rintro ⟨r', heq⟩
        obtain ⟨k, r'', rfl, _⟩ := map_fst_cons heq
        exact hk ⟨_, _, rfl⟩
  · rw [tTtcStage_other f r2 hsh]
    have : ttcStage f (r2.map Prod.fst) = some (none, r2.map Prod.fst) := by
      unfold ttcStage
      split
      · rename_i r heq
        obtain ⟨j, r', rfl, _⟩ := map_fst_cons heq
        exact (hsh ⟨_, _, rfl⟩).elim
      · rfl
    exact ⟨none, this, List.suffix_refl _, AllRule.nil _, fun _ g up _ => rfl⟩

theorem pre_stage_tie (c : V → M V) (all : List Tok) (wf f : Nat) (r4 : List ITok) :
    match tPreStage f r4 with
    | none => preStage f (r4.map Prod.fst) = none
    | some (seg, r5) =>
      ∃ qo, preStage f (r4.map Prod.fst) = some (qo, r5.map Prod.fst) ∧ r5 <:+ r4 ∧ AllRule "precondition" seg ∧
        ∀ g up, PT.depthL seg ≤ g → up.length + PT.depthL seg < wf → (∀ p ∈ up, isRule "reaches" p = false) →
          VisSeg (visitF c (tokensV all) wf g) up seg (rOpt (rExprs true) qo) := by
  by_cases hsh : ∃ j r, r4 = (Tok.requires, j) :: r
  · obtain ⟨j, r, rfl⟩ := hsh
    simp only [List.map_cons, preStage, tPreStage]
    cases h : treeExprList f r with
    | none => simp only [Option.map_none]; rw [exprlist_none f false r h]; rfl
    | some p =>
      obtain ⟨cs, irest⟩ := p
      obtain ⟨es, hp, hv⟩ := requires_clause_tie c all wf f r cs irest j h
      simp only [Option.map_some]
      refine ⟨some es, by rw [hp]; rfl, suf_cons (treeExprList_suffix f r cs irest h), AllRule.single _ _,
        fun g up hg hwf hup => ?_⟩
      rw [depthL_single] at hg hwf
      simp only [depth_rule, PT.depthL, leaf, depth_tok] at hg hwf
      obtain ⟨g, rfl⟩ : ∃ g', g = g' + 1 := ⟨g - 1, by omega⟩
      exact hv g up (by omega) (by omega) hup
  · rw [tPreStage_other f r4 hsh]
    have : preStage f (r4.map Prod.fst) = some (none, r4.map Prod.fst) := by
      unfold preStage
      split
      · rename_i r heq
        obtain ⟨j, r', rfl, _⟩ := map_fst_cons heq
        exact (hsh ⟨_, _, rfl⟩).elim
      · rfl
    exact ⟨none, this, List.suffix_refl _, AllRule.nil _, fun g up _ _ _ => rfl⟩

/-- a `reaches` clause at its place in the stream -/
theorem rch_arrow (c : V → M V) (all : List Tok) (wf f : Nat) (arrow : Tok)
    (harrow : arrow = Tok.leadsto ∨ arrow = Tok.inherits) (j : Nat) (r : List ITok) :
    match treeExprList f r with
    | none => parseExprList f true (r.map Prod.fst) = none
    | some (cs, r6) =>
      ∃ es, parseExprList f true (r.map Prod.fst) = some (es, r6.map Prod.fst) ∧ r6 <:+ (arrow, j) :: r ∧
        (AtPos all ((arrow, j) :: r) → EndsOK r6 → ∀ g up,
          (PT.rule "reaches" (leaf (arrow, j) :: cs)).depth ≤ g →
          up.length + (PT.rule "reaches" (leaf (arrow, j) :: cs)).depth < wf → StopsOK up (tokensV all) →
          visitF c (tokensV all) wf g (.ctx (.rule "reaches" (leaf (arrow, j) :: cs)) up) =
            .ok (rExprs (arrow == Tok.leadsto) es)) := by
  cases h : treeExprList f r with
  | none => exact exprlist_none f true r h
  | some p =>
    obtain ⟨cs, r6⟩ := p
    obtain ⟨es, hp, -, -⟩ := exprlist_tie c (tokensV all) wf (resolveSpec_tokensV all wf) f true r cs r6 h
    refine ⟨es, hp, suf_cons (treeExprList_suffix f r cs r6 h), fun hpos hend g up hg hwf hst => ?_⟩
    obtain ⟨hall, hlen, hr⟩ := hpos.head
    have h' : treeExprList f ((r.map Prod.fst).zipIdx ((all.take j).length + 1)) = some (cs, r6) := by
      rw [hlen, ← hr]; exact h
    obtain ⟨es', hp', hv⟩ := reaches_clause_tie c all (all.take j) (r.map Prod.fst) arrow harrow hall wf f cs r6 h' hend
    obtain rfl : es' = es := by
      rw [hp] at hp'
      simp only [Option.some.injEq, Prod.mk.injEq] at hp'
      exact hp'.1.symm
    simp only [depth_rule, PT.depthL, leaf, depth_tok] at hg hwf
    obtain ⟨g, rfl⟩ : ∃ g', g = g' + 1 := ⟨g - 1, by omega⟩
    have := hv g up (by omega) (by omega) hst
    rw [hlen] at this
    exact this

theorem rch_stage_tie (c : V → M V) (all : List Tok) (wf f : Nat) (r5 : List ITok) :
    match tRchStage f r5 with
    | none => rchStage f (r5.map Prod.fst) = none
    | some (seg, r6) =>
      ∃ ro, rchStage f (r5.map Prod.fst) = some (ro, r6.map Prod.fst) ∧ r6 <:+ r5 ∧ AllRule "reaches" seg ∧
        (AtPos all r5 → EndsOK r6 → ∀ g up, PT.depthL seg ≤ g → up.length + PT.depthL seg < wf →
          StopsOK up (tokensV all) →
          VisSeg (visitF c (tokensV all) wf g) up seg (rOpt (fun r => rExprs r.1 r.2) ro)) := by
  by_cases hsh1 : ∃ j r, r5 = (Tok.leadsto, j) :: r
  · obtain ⟨j, r, rfl⟩ := hsh1
    have ha := rch_arrow c all wf f Tok.leadsto (Or.inl rfl) j r
    simp only [List.map_cons, rchStage, tRchStage]
    cases h : treeExprList f r with
    | none => rw [h] at ha; simp only [Option.map_none]; rw [ha]; rfl
    | some p =>
      obtain ⟨cs, r6⟩ := p
      rw [h] at ha
      obtain ⟨es, hp, hs, hv⟩ := ha
      simp only [Option.map_some]
      refine ⟨some (true, es), by rw [hp]; rfl, hs, AllRule.single _ _, fun hpos hend g up hg hwf hst => ?_⟩
      rw [depthL_single] at hg hwf
      exact hv hpos hend g up hg hwf hst
  by_cases hsh2 : ∃ j r, r5 = (Tok.inherits, j) :: r
  · obtain ⟨j, r, rfl⟩ := hsh2
    have ha := rch_arrow c all wf f Tok.inherits (Or.inr rfl) j r
    simp only [List.map_cons, rchStage, tRchStage]
    cases h : treeExprList f r with
    | none => rw [h] at ha; simp only [Option.map_none]; rw [ha]; rfl
    | some p =>
      obtain ⟨cs, r6⟩ := p
      rw [h] at ha
      obtain ⟨es, hp, hs, hv⟩ := ha
      simp only [Option.map_some]
      refine ⟨some (false, es), by rw [hp]; rfl, hs, AllRule.single _ _, fun hpos hend g up hg hwf hst => ?_⟩
      rw [depthL_single] at hg hwf
      exact hv hpos hend g up hg hwf hst
  · rw [tRchStage_other f r5 hsh1 hsh2]
    have : rchStage f (r5.map Prod.fst) = some (none, r5.map Prod.fst) := by
      unfold rchStage
      split
      · rename_i r heq
        obtain ⟨j, r', rfl, _⟩ := map_fst_cons heq
        exact (hsh1 ⟨_, _, rfl⟩).elim
      · rename_i r heq
        obtain ⟨j, r', rfl, _⟩ := map_fst_cons heq
        exact (hsh2 ⟨_, _, rfl⟩).elim
      · rfl
    exact ⟨none, this, List.suffix_refl _, AllRule.nil _, fun _ _ g up _ _ _ => rfl⟩

end MalVerif.Py.Visitor
