import MalVerif.Py.TieLangTypePhases
import MalVerif.Py.TieLangGraph
import MalVerif.Py.TieLangVars
import MalVerif.Py.TieLang
import MalVerif.Py.AbsEval
/-!
# Interface of the general tie of the translated `_generate_graph` / `process_step_expression`

Shared vocabulary of the loop-by-loop proofs (`Py/TieLangType*.lean`): the hypotheses on the specification heap
(`SpecOK`), what each loop of `_generate_graph` leaves (`AfterAssets`, `AfterInherit`, `AfterAssocs`, `AfterSteps`),
the facts about the helper functions the typing proofs use (`Helpers`), the typing tie as a package (`TypingOK`).
Everything here is a definition; the theorems are in the files that import this one.
-/
namespace MalVerif.Py.TieLangType
open MalVerif MalVerif.Py MalVerif.Py.LSpec MalVerif.Py.LType MalVerif.Py.GenLangType MalVerif.LG

/-- a JSON step expression that is the encoding of a step expression of the hand model -/
def ExprWF (e : PyExpr) : Prop := exprOf (exprOfPy e) = e

/-- hypotheses on the specification heap: well-formed (`SpecBelow` at the sizes of its stores), asset names pairwise
distinct, every variable definition and every element of every `stepExpressions` list is an encoded expression -/
structure SpecOK (spec : LS) : Prop where
  below : SpecBelow spec spec.stepD.length spec.reachD.length spec.exprL.length
  names_nodup : (spec.assets.map (·.name)).Nodup
  vars_wf : ∀ a ∈ spec.assets, ∀ v ∈ a.variables, ExprWF v.stepExpression
  lists_wf : ∀ l ∈ spec.exprL, ∀ e ∈ l, ExprWF e

/-- nothing of the attack-step side exists yet (loops 1–4) -/
structure NoSteps (s : TH) (spec : LS) (R : Nat) : Prop where
  spec_eq : s.spec = spec
  rec_eq : s.recLimit = R
  steps : s.steps = []
  attack_steps : s.attack_steps = []
  asteps : ∀ r, s.asteps r = []

/-- what loop 1 (`phaseAssets`) leaves: asset object `i` is asset dictionary `i` -/
structure AfterAssets (s : TH) (spec : LS) (R : Nat) : Prop where
  frame : NoSteps s spec R
  assets : s.g.assets = List.range spec.assets.length
  nextA : s.nextA = spec.assets.length
  nextC : s.nextC = 0
  associations : s.g.associations = []
  obj : ∀ i (h : i < spec.assets.length),
    s.g.asset i = { name := some spec.assets[i].name, is_abstract := some spec.assets[i].isAbstract }
  adesc : ∀ i (h : i < spec.assets.length), s.adesc i = spec.assets[i].metaTxt

/-- what loop 2 (`phaseInherit`) leaves: the asset objects represent the declarations (`RepG`), no association yet -/
structure AfterInherit (s : TH) (spec : LS) (R : Nat) : Prop where
  frame : NoSteps s spec R
  repG : RepG s.g (absLang spec)
  assets : s.g.assets = List.range spec.assets.length
  nextA : s.nextA = spec.assets.length
  nextC : s.nextC = 0
  associations : s.g.associations = []
  no_assocs : ∀ r ∈ s.g.assets, (s.g.asset r).associations = []

/-- what loop 4 (`phaseAssocs`) leaves: association objects = the hand model's nodes, attached exactly -/
structure AfterAssocs (s : TH) (spec : LS) (R : Nat) (nodes : List AssocDecl) : Prop where
  frame : NoSteps s spec R
  repG : RepG s.g (absLang spec)
  repA : RepA s.g (absLang spec) nodes
  assocs : RepAssocs s (absLang spec)
  full : s.g.associations.map (fullDeclOf s) = nodes

/-- the attack-step objects of one asset object `r` stand for the answer `acc` of `_get_attacks_for_asset_type` -/
def StepsOfAsset (s : TH) (r : GARef) (acc : List (String × SRef)) : Prop :=
  (s.asteps r).map (fun t => ((s.gstep t).name, (s.gstep t).attributes)) = acc.map (fun e => (e.1, some e.2)) ∧
  ∀ t ∈ s.asteps r, t < s.steps.length ∧ (s.gstep t).asset = r ∧ (s.gstep t).children = [] ∧ (s.gstep t).parents = []

/-- what loop 5 (`phaseSteps`) leaves: the graph objects untouched, the specification the same language, one
attack-step object per own-or-inherited step of every asset -/
structure AfterSteps (s : TH) (spec : LS) (R : Nat) (nodes : List AssocDecl) : Prop where
  rec_eq : s.recLimit = R
  repG : RepG s.g (absLang spec)
  repA : RepA s.g (absLang spec) nodes
  assocs : RepAssocs s (absLang spec)
  full : s.g.associations.map (fullDeclOf s) = nodes
  spec_lang : absLang s.spec = absLang spec
  spec_assets : s.spec.assets = spec.assets
  spec_vars_wf : ∀ a ∈ s.spec.assets, ∀ v ∈ a.variables, ExprWF v.stepExpression
  spec_lists_wf : ∀ l ∈ s.spec.exprL, ∀ e ∈ l, ExprWF e
  all_steps : s.attack_steps = s.g.assets.flatMap s.asteps
  steps_nodup : s.attack_steps.Nodup
  per_asset : ∀ r ∈ s.g.assets, ∃ acc, absAnswer s.spec acc = (absLang spec).foldSteps (gname s.g r) ∧ StepsOfAsset s r acc

/-- facts about the helper functions that `process_step_expression` calls, on a heap representing `L` -/
structure Helpers (s : TH) (L : Lang) : Prop where
  sub_some : ∀ a ∈ s.g.assets, ∀ b ∈ s.g.assets,
    GenLangType.lgasset_is_subasset_of s a (some b) = .ok (L.isSub (gname s.g a) (gname s.g b))
  sub_none : ∀ a ∈ s.g.assets, GenLangType.lgasset_is_subasset_of s a none = .ok false
  supers : ∀ a ∈ s.g.assets, ∃ l, GenLang.lgasset_get_all_superassets s.g a = .ok l ∧
    l.map (gname s.g) = LG.supers L (gname s.g a) ∧ ∀ x ∈ l, x ∈ s.g.assets
  common : ∀ a ∈ s.g.assets, ∀ b ∈ s.g.assets, ∃ l sup,
    lgasset_get_all_common_superassets s a (some b) = .ok l ∧
    GenLang.lgasset_get_all_superassets s.g a = .ok sup ∧
    l.isEmpty = (LG.lca L (gname s.g a) (gname s.g b)).isNone ∧
    (sup.find? (fun x => l.contains (s.g.asset x).name)).map (gname s.g) = LG.lca L (gname s.g a) (gname s.g b) ∧
    ∀ x, sup.find? (fun x => l.contains (s.g.asset x).name) = some x → x ∈ s.g.assets
  var : ∀ t v, GenLang.lg__get_variable_for_asset_type_by_name (pyFuelL s.spec) s.spec t v =
    match L.lookupVar t v with
    | some d => .ok (.expr (exprOf d))
    | none => .error .languageGraphException

/-- the result of the translated typing names a target asset -/
def PySucc (s : TH) (x : Except PyErr (Option GARef × Option PyDepChain × Option String)) (u : String)
    (st : Option String) : Prop :=
  ∃ r' dc', x = .ok (some r', dc', st) ∧ r' ∈ s.g.assets ∧ gname s.g r' = u

/-- **the typing tie as a package**: on the heap `s`, for the language `L` with the association nodes `nodes` -/
structure TypingOK (s : TH) (L : Lang) (nodes : List AssocDecl) : Prop where
  /-- whenever the hand model's `typeF` names a target asset and a step name, so does the translated
  `process_step_expression`, the same ones, for every sufficiently large fuel -/
  complete : ∀ (e : Expr) (k : Nat) (r : GARef) (dc : Option PyDepChain) (u : String) (st : Option String),
    r ∈ s.g.assets → typeF L nodes k e (gname s.g r) = .ok (some (u, st)) →
    ∃ N, ∀ fuel, N ≤ fuel → PySucc s (lg_process_step_expression fuel s (some r) dc (exprOf e)) u st
  /-- a target the translated typing names (at any fuel) is the hand model's, at the same fuel; so whenever
  `typeF` fails (no target, or an exception of any class) the translated typing fails too -/
  sound : ∀ (e : Expr) (fuel : Nat) (r : GARef) (dc : Option PyDepChain) (r' : GARef) (dc' : Option PyDepChain)
    (st : Option String), r ∈ s.g.assets →
    lg_process_step_expression fuel s (some r) dc (exprOf e) = .ok (some r', dc', st) →
    r' ∈ s.g.assets ∧ typeF L nodes fuel e (gname s.g r) = .ok (some (gname s.g r', st))

/-- the hand model's `genFuel` reaches every typing that any fuel reaches (a statement about the hand model alone;
`typeF` is monotone in its fuel, so this says that `genFuel L` expansions of variables inside variables suffice) -/
def GenFuelEnough (L : Lang) (nodes : List AssocDecl) : Prop :=
  ∀ (k : Nat) (e : Expr) (t : String) (x : String × Option String),
    typeF L nodes k e t = .ok (some x) → typeF L nodes (genFuel L) e t = .ok (some x)

/-- the translated construction on an arbitrary specification heap -/
def runBuildH (spec : LS) (R : Nat) : Except PyErr TH := lg__generate_graph (TH.init spec R)

end MalVerif.Py.TieLangType
