import MalVerif.Py.TieToDict
import MalVerif.Py.TieFromDict
import MalVerif.Py.TieDocRT
import MalVerif.Props.C10
/-!
# From the ties of `_to_dict` / `_from_dict` to the theorems of `Props/C10.lean` (helpers of `PropsGen/C10.lean`)
-/
namespace MalVerif.Py.Tie
open MalVerif.Py MalVerif.Py.Gen MalVerif.AGS MalVerif.AGraph MalVerif.Py.Tie.TG MalVerif.Py.Tie.FD
open MalVerif.Ser (Key)

/-! ### helper lemmas for `PropsGen/C10.lean` -/
namespace RTH

theorem foldlM_congr {α σ ε : Type} (f g : σ → α → Except ε σ) (l : List α) (h : ∀ x ∈ l, ∀ s, f s x = g s x) (s : σ) :
    l.foldlM f s = l.foldlM g s := by
  induction l generalizing s with
  | nil => rfl
  | cons x l ih =>
    rw [List.foldlM_cons, List.foldlM_cons, h x List.mem_cons_self s]
    cases g s x with
    | error e => rfl
    | ok s1 => exact ih (fun y hy => h y (List.mem_cons_of_mem _ hy)) s1

/-- `fromDoc` consults `assetKnown` only when a model is given, and only for the asset names in the document -/
theorem fromDoc_known_congr' (wm : Bool) (ak ak' : String → Bool) (d : AGDoc)
    (h : wm = true → ∀ e ∈ d.steps, ∀ a, e.2.asset = some a → ak a = ak' a) : fromDoc wm ak d = fromDoc wm ak' d := by
  rw [fromDoc_eq, fromDoc_eq]
  have : d.steps.foldlM (loadNode wm ak) ({} : St) = d.steps.foldlM (loadNode wm ak') {} := by
    apply foldlM_congr
    intro e he s
    unfold loadNode
    cases wm with
    | false => rfl
    | true =>
      cases ha : e.2.asset with
      | none => rfl
      | some a => simp only [h rfl e he a ha]
  rw [this]

/-- the model knows every asset the nodes of the graph belong to (trivially true when no model is supplied) -/
def ModelCovers (m : Option PyModel) (s : H) : Prop :=
  ∀ x, m = some x → ∀ r ∈ s.nodes, ∀ o, (s.n r).asset = some o → (x.get_asset_by_name o.name).isSome = true

/-- one of the three ways a document reaches the loader -/
inductive Format | asWritten | json | yaml
def Format.py : Format → PyDoc → PyDoc | .asWritten => id | .json => jsonRTpy | .yaml => yamlRTpy
def Format.model : Format → AGDoc → AGDoc | .asWritten => id | .json => jsonRT | .yaml => yamlRT

theorem Format.docOf (f : Format) (d : PyDoc) : docOf (f.py d) = f.model (docOf d) := by
  cases f
  · rfl
  · exact docOf_jsonRTpy d
  · exact docOf_yamlRTpy d
theorem Format.shape (f : Format) (d : PyDoc) (h : docShape d = true) : docShape (f.py d) = true := by
  cases f
  · exact h
  · exact docShape_jsonRTpy d h
  · exact docShape_yamlRTpy d h
theorem Format.cases (f : Format) (D : AGDoc) : f.model D = D ∨ f.model D = jsonRT D ∨ f.model D = yamlRT D := by
  cases f
  · exact Or.inl rfl
  · exact Or.inr (Or.inl rfl)
  · exact Or.inr (Or.inr rfl)

theorem refsHaveIds (s : H) (nf af : Nat) (hc : Consistent (absS s nf af)) (hids : IdsSet s) : RefsHaveIds s := by
  refine ⟨fun r hr c hcm => ?_, fun a ha n hn => ?_⟩
  · rcases List.mem_append.1 hcm with h | h
    · exact hids.1 c (hc.nodes.children_mem r hr c h)
    · exact hids.1 c (hc.nodes.parents_mem r hr c h)
  · rcases List.mem_append.1 hn with h | h
    · exact hids.1 n (hc.comp.entry_mem a ha n h)
    · exact hids.1 n (hc.comp.reached_mem a ha n h)

/-- **transfer**: whatever `Props/C10` proves about loading what the hand model writes holds for the heap that the
translated `_from_dict` returns on (the file image of) what the translated `_to_dict` returns -/
theorem transfer (s : H) (nf af fuel : Nat) (aux0 : Aux) (m : Option PyModel) (f : Format)
    (hc : Consistent (absS s nf af)) (hx : NamesExact (absS s nf af)) (hids : IdsSet s)
    (hfuel : s.attackers.length < fuel) (h0 : aux0.nfresh = 0 ∧ aux0.afresh = 0) (hm : ModelOK m)
    (hcov : ModelCovers m s) (P : St → Prop)
    (hP : ∀ d, (d = toDoc (absS s nf af) ∨ d = jsonRT (toDoc (absS s nf af)) ∨ d = yamlRT (toDoc (absS s nf af))) →
      ∃ t, fromDoc (withModelOf m) (fun _ => true) d = .ok t ∧ P t) :
    ∃ d s' aux', graph__to_dict fuel s = .ok d ∧ graph__from_dict aux0 (f.py d) m = .ok (s', aux') ∧
      P (absS s' aux'.nfresh aux'.afresh) := by
  obtain ⟨d, hd, hdoc, hshape⟩ := graph_to_dict_tie s fuel nf af hids (refsHaveIds s nf af hc hids) hfuel
  have hfd : docOf (f.py d) = f.model (toDoc (absS s nf af)) := by rw [Format.docOf, hdoc]
  have hcase := Format.cases f (toDoc (absS s nf af))
  obtain ⟨t, ht, hPt⟩ := hP _ hcase
  -- the asset names in the document are asset names of nodes, which the model knows
  have hknown : fromDoc (withModelOf m) (assetKnownOf m) (f.model (toDoc (absS s nf af))) =
      fromDoc (withModelOf m) (fun _ => true) (f.model (toDoc (absS s nf af))) := by
    apply fromDoc_known_congr'
    intro hwm e he a ha
    obtain ⟨σ, _, hrep⟩ := rep_of_format hc hx hcase
    have hmem : e.2 ∈ (f.model (toDoc (absS s nf af))).steps.map (·.2) := List.mem_map.2 ⟨e, he, rfl⟩
    obtain ⟨r, hr, hre⟩ := List.mem_map.1 (hrep.steps.mem_iff.1 hmem)
    have hasset : e.2.asset = (absN (s.n r)).asset := by rw [← hre]; rfl
    cases hmm : m with
    | none => rw [hmm] at hwm; cases hwm
    | some x =>
      have : (absN (s.n r)).asset = (s.n r).asset.map (·.name) := rfl
      rw [hasset, this] at ha
      cases ho : (s.n r).asset with
      | none => rw [ho] at ha; cases ha
      | some o =>
        rw [ho] at ha
        injection ha with ha
        show (x.get_asset_by_name a).isSome = true
        rw [← ha]
        exact hcov x hmm r hr o ho
  obtain ⟨tie_ok, tie_err⟩ := from_dict_tie aux0 (f.py d) m (Format.shape f d hshape) hm h0
  rw [hfd, hknown, ht] at tie_ok tie_err
  cases hres : graph__from_dict aux0 (f.py d) m with
  | error err => obtain ⟨e', he'⟩ := tie_err err hres; cases he'
  | ok r =>
    obtain ⟨s', aux'⟩ := r
    have := tie_ok s' aux' hres
    injection this with this
    exact ⟨d, s', aux', hd, hres, this ▸ hPt⟩
end RTH
end MalVerif.Py.Tie
