import MalVerif.Py.TieVisitorStep
import MalVerif.Py.TieVisitorMal
/-!
# Tie of the translated `visitAsset` to the compiler model (`parseAssetBody`, `parseAsset`)
-/
namespace MalVerif.Py.Visitor
open MalVerif MalVerif.Mal MalVerif.Py.GenVisitor

/-! ### the body of an asset: `(step | variable)* RCURLY` -/

/-- the children `treeAssetBody` builds: `variable` nodes, `step` nodes and the closing brace -/
def BodyChild (x : PT) : Prop :=
  (∃ cs, x = .rule "variable" cs) ∨ (∃ cs, x = .rule "step" cs) ∨ ∃ i, x = leaf (Tok.rcurly, i)

/-- a successful asset body starts with a token that ends a clause -/
theorem assetBody_endsOK (f : Nat) (its : List ITok) (r : List PT × List ITok) (h : treeAssetBody f its = some r) :
    EndsOK its := by
  cases f with
  | zero => simp [treeAssetBody] at h
  | succ f =>
    unfold treeAssetBody at h
    split at h
    · exact Or.inr ⟨_, _, rfl, rfl⟩
    · exact Or.inr ⟨_, _, rfl, rfl⟩
    · cases hs : treeStep f its with
      | none => rw [hs] at h; cases h
      | some p =>
        unfold treeStep at hs
        split at hs
        · rename_i t name i rest _ _
          cases hty : stepType t.1 with
          | none => rw [hty] at hs; cases hs
          | some ty =>
            refine Or.inr ⟨t.1, _, rfl, ?_⟩
            obtain ⟨t, k⟩ := t
            cases t <;> first | rfl | cases hty
        · cases hs

theorem not_rcurly_map' {ts : List ITok} (hne : ∀ (i : Nat) (rest : List ITok), ts = (Tok.rcurly, i) :: rest → False) :
    ∀ r, ts.map Prod.fst ≠ .rcurly :: r := fun r h => not_rcurly_map hne r h

theorem not_let_map {ts : List ITok}
    (hne : ∀ (i : Nat) (v : String) (j k : Nat) (rest : List ITok),
      ts = (Tok.kwLet, i) :: (Tok.id v, j) :: (Tok.assign, k) :: rest → False) :
    ∀ v r, ts.map Prod.fst ≠ .kwLet :: .id v :: .assign :: r := by
  intro v r heq
  obtain ⟨i, r1, rfl, h1⟩ := map_fst_cons heq
  obtain ⟨j, r2, rfl, h2⟩ := map_fst_cons h1
  obtain ⟨k, r3, rfl, h3⟩ := map_fst_cons h2
  exact hne _ _ _ _ _ rfl

theorem asset_body_tie (c : V → M V) (all : List Tok) (wf : Nat) (f : Nat) (its : List ITok)
    (hpos : AtPos all its) (hok : ∀ x ∈ its, tokOK x.1 = true) :
    match treeAssetBody f its with
    | none => ∀ vs0 ss0, parseAssetBody f vs0 ss0 (its.map Prod.fst) = none
    | some (cs, irest) =>
      ∃ vs ss, (∀ vs0 ss0, parseAssetBody f vs0 ss0 (its.map Prod.fst) = some ((vs0 ++ vs, ss0 ++ ss), irest.map Prod.fst)) ∧
        irest <:+ its ∧ (∀ x ∈ cs, BodyChild x) ∧
        ∀ g node up, PT.depthL cs ≤ g → up.length + 1 + PT.depthL cs < wf →
          (∀ p ∈ node :: up, isRule "reaches" p = false) →
          (∀ vs0 : List (String × Expr),
            forIn ((cs.filter (isRule "variable")).map (mkCtx node up)) (V.list (vs0.map rVar))
              (appendBody (visitF c (tokensV all) wf g)) = .ok (V.list ((vs0 ++ vs).map rVar))) ∧
          (∀ ss0 : List CStep,
            forIn ((cs.filter (isRule "step")).map (mkCtx node up)) (V.list (ss0.map rStep))
              (appendBody (visitF c (tokensV all) wf g)) = .ok (V.list ((ss0 ++ ss).map rStep))) := by
  fun_induction treeAssetBody f its with
  | case1 ts => intro _ _; rfl
  | case2 f i rest =>
    refine ⟨[], [], ?_, ⟨[_], rfl⟩, ?_, ?_⟩
    · intro vs0 ss0; simp [parseAssetBody]
    · intro x hx
      simp only [List.mem_singleton] at hx
      exact Or.inr (Or.inr ⟨i, hx⟩)
    · intro g node up _ _ _
      refine ⟨fun vs0 => ?_, fun ss0 => ?_⟩ <;> simp [leaf_isRule'] <;> rfl
  | case3 f i v j k rest e rest' he ih =>
    have hsuf1 : rest <:+ (Tok.kwLet, i) :: (Tok.id v, j) :: (Tok.assign, k) :: rest := ⟨[_, _, _], rfl⟩
    have hsuf2 := treeExpr_suffix f rest e rest' he
    obtain ⟨ex, hp, hv⟩ := variable_tie c all wf f rest e rest' i j k v he
    have ih := ih (hpos.suffix (hsuf2.trans hsuf1)) (fun x hx => hok x ((hsuf2.trans hsuf1).subset hx))
    have hparse : ∀ vs0 ss0, parseAssetBody (f+1) vs0 ss0
        (List.map Prod.fst ((Tok.kwLet, i) :: (Tok.id v, j) :: (Tok.assign, k) :: rest)) =
          parseAssetBody f (vs0 ++ [(v, ex)]) ss0 (rest'.map Prod.fst) := by
      intro vs0 ss0
      simp only [List.map_cons]
      rw [parseAssetBody_let, hp]; rfl
    cases hrec : treeAssetBody f rest' with
    | none =>
      rw [hrec] at ih
      simp only [Option.map_none]
      intro vs0 ss0; rw [hparse]; exact ih _ _
    | some p =>
      obtain ⟨cs, irest⟩ := p
      rw [hrec] at ih
      obtain ⟨vs, ss, hp2, hs2, hbc, hv2⟩ := ih
      simp only [Option.map_some]
      refine ⟨(v, ex) :: vs, ss, ?_, hs2.trans (hsuf2.trans hsuf1), ?_, ?_⟩
      · intro vs0 ss0; rw [hparse, hp2]; simp
      · intro x hx
        rcases List.mem_cons.mp hx with rfl | hx
        · exact Or.inl ⟨_, rfl⟩
        · exact hbc x hx
      · intro g node up hg hwf hup
        simp only [PT.depthL, depth_rule, leaf, depth_tok] at hg hwf
        obtain ⟨hv2a, hv2b⟩ := hv2 g node up (by omega) (by omega) hup
        refine ⟨fun vs0 => ?_, fun ss0 => ?_⟩
        · rw [show List.filter (isRule "variable")
              (PT.rule "variable" [leaf (Tok.kwLet, i), leaf (Tok.id v, j), leaf (Tok.assign, k), e] :: cs) =
              PT.rule "variable" [leaf (Tok.kwLet, i), leaf (Tok.id v, j), leaf (Tok.assign, k), e] ::
                List.filter (isRule "variable") cs from rfl, List.map_cons]
          obtain ⟨g, rfl⟩ : ∃ g', g = g' + 1 := ⟨g - 1, by omega⟩
          refine (forIn_cons_ok _ _ _ _ _ (appendBody_ok _ _ (rVar (v, ex)) _
            (hv g (node :: up) (by omega) (by simp only [List.length_cons]; omega) hup))).trans ?_
          have := hv2a (vs0 ++ [(v, ex)])
          simpa using this
        · rw [show List.filter (isRule "step")
              (PT.rule "variable" [leaf (Tok.kwLet, i), leaf (Tok.id v, j), leaf (Tok.assign, k), e] :: cs) =
              List.filter (isRule "step") cs from rfl]
          exact hv2b ss0
  | case4 f i v j k rest he =>
    intro vs0 ss0
    simp only [List.map_cons]
    rw [parseAssetBody_let, expr_none f false rest he]; rfl
  | case5 f ts s rest' hs h1 h2 ih =>
    simp only [hs]
    have hst := step_tie c all wf f ts s rest' hpos (fun x hx => tokOK_num (hok x hx)) hs
    obtain ⟨sm, hp, ⟨scs, rfl⟩, hsuf, hv⟩ := hst
    have ih := ih (hpos.suffix hsuf) (fun x hx => hok x (hsuf.subset hx))
    have hparse : ∀ vs0 ss0, parseAssetBody (f+1) vs0 ss0 (List.map Prod.fst ts) =
          parseAssetBody f vs0 (ss0 ++ [sm]) (rest'.map Prod.fst) := by
      intro vs0 ss0
      rw [parseAssetBody_step _ _ _ _ (not_rcurly_map' h1) (not_let_map h2), hp]; rfl
    cases hrec : treeAssetBody f rest' with
    | none =>
      rw [hrec] at ih
      simp only [Option.map_none]
      intro vs0 ss0; rw [hparse]; exact ih _ _
    | some p =>
      have hends := assetBody_endsOK f rest' p hrec
      obtain ⟨cs, irest⟩ := p
      rw [hrec] at ih
      obtain ⟨vs, ss, hp2, hs2, hbc, hv2⟩ := ih
      simp only [Option.map_some]
      refine ⟨vs, sm :: ss, ?_, hs2.trans hsuf, ?_, ?_⟩
      · intro vs0 ss0; rw [hparse, hp2]; simp
      · intro x hx
        rcases List.mem_cons.mp hx with rfl | hx
        · exact Or.inr (Or.inl ⟨_, rfl⟩)
        · exact hbc x hx
      · intro g node up hg hwf hup
        simp only [PT.depthL] at hg hwf
        obtain ⟨hv2a, hv2b⟩ := hv2 g node up (by omega) (by omega) hup
        refine ⟨fun vs0 => ?_, fun ss0 => ?_⟩
        · rw [show List.filter (isRule "variable") (PT.rule "step" scs :: cs) =
              List.filter (isRule "variable") cs from rfl]
          exact hv2a vs0
        · rw [show List.filter (isRule "step") (PT.rule "step" scs :: cs) =
              PT.rule "step" scs :: List.filter (isRule "step") cs from rfl, List.map_cons]
          refine (forIn_cons_ok _ _ _ _ _ (appendBody_ok _ _ (rStep sm) _
            (hv hends g (node :: up) (by omega) (by simp only [List.length_cons]; omega) hup))).trans ?_
          have := hv2b (ss0 ++ [sm])
          simpa using this
  | case6 f ts hs h1 h2 =>
    simp only [hs]
    intro vs0 ss0
    rw [parseAssetBody_step _ _ _ _ (not_rcurly_map' h1) (not_let_map h2), step_none f ts hs]; rfl


/-! ### the `asset` node -/

theorem body_filter_tok (t : String) (ht : (("RCURLY" : String) == t) = false) {body : List PT}
    (hb : ∀ x ∈ body, BodyChild x) : body.filter (isTok t) = [] := by
  apply List.filter_eq_nil_iff.mpr
  intro x hx
  rcases hb x hx with ⟨cs, rfl⟩ | ⟨cs, rfl⟩ | ⟨i, rfl⟩
  · simp [isTok]
  · simp [isTok]
  · simp only [leaf, isTok, tokType, ht]; simp

theorem body_filter_rule (r : String) (h1 : (("variable" : String) == r) = false) (h2 : (("step" : String) == r) = false)
    {body : List PT} (hb : ∀ x ∈ body, BodyChild x) : body.filter (isRule r) = [] := by
  apply List.filter_eq_nil_iff.mpr
  intro x hx
  rcases hb x hx with ⟨cs, rfl⟩ | ⟨cs, rfl⟩ | ⟨i, rfl⟩
  · simp only [isRule, h1]; simp
  · simp only [isRule, h2]; simp
  · simp [leaf, isRule]

/-- `ABSTRACT? ASSET ID` -/
def hdrNodes (oa : Option Nat) (j k : Nat) (n : String) : List PT :=
  match oa with
  | some i => [leaf (Tok.kwAbstract, i), leaf (Tok.kwAsset, j), leaf (Tok.id n, k)]
  | none => [leaf (Tok.kwAsset, j), leaf (Tok.id n, k)]

/-- `(EXTENDS ID)?` -/
def supNodes (os : Option (Nat × Nat × String)) : List PT :=
  match os with
  | some (i, j, s) => [leaf (Tok.kwExtends, i), leaf (Tok.id s, j)]
  | none => []

/-- the `asset` node `treeAsset` builds -/
def assetNode (oa : Option Nat) (j k : Nat) (n : String) (os : Option (Nat × Nat × String)) (md : List PT) (i : Nat)
    (body : List PT) : PT :=
  .rule "asset" (hdrNodes oa j k n ++ supNodes os ++ md ++ leaf (Tok.lcurly, i) :: body)

/-- the `category` node above an asset, as far as `visitAsset` looks at it -/
def catNode (i j : Nat) (cat : String) (rest : List PT) : PT :=
  .rule "category" (leaf (Tok.kwCategory, i) :: leaf (Tok.id cat, j) :: rest)

def assetV (nm md cat abs sup vars steps : V) : V :=
  .dict [("name", nm), ("meta", md), ("category", cat), ("isAbstract", abs), ("superAsset", sup), ("variables", vars),
         ("attackSteps", steps)]

section
variable (c : V → M V) (toks : List V) (wf : Nat) (oa : Option Nat) (j k : Nat) (n : String)
  (os : Option (Nat × Nat × String)) (f : Nat) (its : List ITok) (i : Nat) (body : List PT) (up : List PT)
  (hb : ∀ x ∈ body, BodyChild x)
include hb

theorem assetNode_ID :
    ctxAcc accTable (.ctx (assetNode oa j k n os (treeMetas f its).1 i body) up) "ID" none =
      .ok (.list (mkCtx (assetNode oa j k n os (treeMetas f its).1 i body) up (leaf (Tok.id n, k)) ::
        match os with
        | some (_, j', s) => [mkCtx (assetNode oa j k n os (treeMetas f its).1 i body) up (leaf (Tok.id s, j'))]
        | none => [])) := by
  rcases oa with _ | a <;> rcases os with _ | ⟨i', j', s⟩ <;>
    simp only [assetNode, hdrNodes, supNodes, ctxAcc_eq acc_asset_ID, runAcc, PT.children, List.filter_append,
      filter_metas_tok, List.filter_cons, body_filter_tok "ID" (by decide) hb] <;> rfl

theorem assetNode_ABSTRACT :
    ctxAcc accTable (.ctx (assetNode oa j k n os (treeMetas f its).1 i body) up) "ABSTRACT" none =
      .ok (match oa with
        | some a => mkCtx (assetNode oa j k n os (treeMetas f its).1 i body) up (leaf (Tok.kwAbstract, a))
        | none => V.none) := by
  rcases oa with _ | a <;> rcases os with _ | ⟨i', j', s⟩ <;>
    simp only [assetNode, hdrNodes, supNodes, ctxAcc_eq acc_asset_ABSTRACT, runAcc, PT.children, List.filter_append,
      filter_metas_tok, List.filter_cons, body_filter_tok "ABSTRACT" (by decide) hb] <;> rfl

theorem assetNode_meta :
    ctxAcc accTable (.ctx (assetNode oa j k n os (treeMetas f its).1 i body) up) "meta" none =
      .ok (.list ((treeMetas f its).1.map (mkCtx (assetNode oa j k n os (treeMetas f its).1 i body) up))) := by
  rcases oa with _ | a <;> rcases os with _ | ⟨i', j', s⟩ <;>
    simp only [assetNode, hdrNodes, supNodes, ctxAcc_eq acc_asset_meta, runAcc, PT.children, List.filter_append,
      filter_metas_meta, List.filter_cons, body_filter_rule "meta" (by decide) (by decide) hb,
      leaf_isRule', Bool.false_eq_true, if_false, List.filter_nil, List.append_nil, List.nil_append] <;> rfl

omit hb in
theorem assetNode_variable :
    ctxAcc accTable (.ctx (assetNode oa j k n os (treeMetas f its).1 i body) up) "variable" none =
      .ok (.list ((body.filter (isRule "variable")).map (mkCtx (assetNode oa j k n os (treeMetas f its).1 i body) up))) := by
  rcases oa with _ | a <;> rcases os with _ | ⟨i', j', s⟩ <;>
    simp only [assetNode, hdrNodes, supNodes, ctxAcc_eq acc_asset_variable, runAcc, PT.children, List.filter_append,
      filter_metas_rule f its _ (by decide : ("variable" == "meta") = false), List.filter_cons,
      leaf_isRule', Bool.false_eq_true, if_false, List.filter_nil, List.append_nil, List.nil_append] <;> rfl

omit hb in
theorem assetNode_step :
    ctxAcc accTable (.ctx (assetNode oa j k n os (treeMetas f its).1 i body) up) "step" none =
      .ok (.list ((body.filter (isRule "step")).map (mkCtx (assetNode oa j k n os (treeMetas f its).1 i body) up))) := by
  rcases oa with _ | a <;> rcases os with _ | ⟨i', j', s⟩ <;>
    simp only [assetNode, hdrNodes, supNodes, ctxAcc_eq acc_asset_step, runAcc, PT.children, List.filter_append,
      filter_metas_rule f its _ (by decide : ("step" == "meta") = false), List.filter_cons,
      leaf_isRule', Bool.false_eq_true, if_false, List.filter_nil, List.append_nil, List.nil_append] <;> rfl

end


theorem catNode_ID (i j : Nat) (cat : String) (rest up : List PT) :
    ctxAcc accTable (.ctx (catNode i j cat rest) up) "ID" none =
      .ok (mkCtx (catNode i j cat rest) up (leaf (Tok.id cat, j))) := rfl

theorem parentCtx_cons (x p : PT) (ps : List PT) : pyAttr (.ctx x (p :: ps)) "parentCtx" = .ok (.ctx p ps) := rfl

theorem getItem_cons0 (a : V) (l : List V) : pyGetItem (.list (a :: l)) (.int 0) = .ok a := rfl
theorem getItem_cons1 (a b : V) (l : List V) : pyGetItem (.list (a :: b :: l)) (.int 1) = .ok b := rfl
theorem pyLen_list (l : List V) : pyLen (.list l) = .ok (.int l.length) := rfl
theorem pyGt_int (a b : Int) : pyGt (.int a) (.int b) = .ok (decide (a > b)) := rfl

theorem visitAsset_eval (c : V → M V) (toks : List V) (wf : Nat) (oa : Option Nat) (j k : Nat) (n : String)
    (os : Option (Nat × Nat × String)) (f : Nat) (its : List ITok) (i : Nat) (body : List PT)
    (ci cj : Nat) (cat : String) (crest up : List PT)
    (hb : ∀ x ∈ body, BodyChild x) (g : Nat) (hgm : PT.depthL (treeMetas f its).1 ≤ g) (vs ss : List V)
    (hvars : forIn ((body.filter (isRule "variable")).map
        (mkCtx (assetNode oa j k n os (treeMetas f its).1 i body) (catNode ci cj cat crest :: up))) (V.list [])
        (appendBody (visitF c toks wf g)) = .ok (V.list vs))
    (hsteps : forIn ((body.filter (isRule "step")).map
        (mkCtx (assetNode oa j k n os (treeMetas f its).1 i body) (catNode ci cj cat crest :: up))) (V.list [])
        (appendBody (visitF c toks wf g)) = .ok (V.list ss)) :
    visitAsset (selfAt c toks wf g) (.ctx (assetNode oa j k n os (treeMetas f its).1 i body) (catNode ci cj cat crest :: up)) =
      .ok (assetV (.str n) (rMeta (parseMetas f [] (its.map Prod.fst)).1) (.str cat) (.bool oa.isSome)
        (match os with | some (_, _, s) => V.str s | none => V.none) (.list vs) (.list ss)) := by
  unfold visitAsset
  rw [show (selfAt c toks wf g).visit = visitF c toks wf g from rfl]
  simp only [assetNode_ID _ _ _ _ _ _ _ _ _ _ hb, assetNode_ABSTRACT _ _ _ _ _ _ _ _ _ _ hb,
    assetNode_meta _ _ _ _ _ _ _ _ _ _ hb, assetNode_variable, assetNode_step, parentCtx_cons, catNode_ID, okBind,
    pyIter_list]
  rw [metas_forIn2 c toks wf f its g _ _ hgm]
  unfold appendBody at hvars hsteps
  simp only [okBind, hvars, hsteps]
  rcases oa with _ | a <;> rcases os with _ | ⟨i', j', s⟩ <;>
    simp (config := {decide := true}) only [getItem_cons0, getItem_cons1, pyLen_list, pyGt_int, mkCtx, leaf_text, okBind,
      truthy, isNone, List.length_cons, List.length_nil, Bool.not_true, Bool.not_false, if_false,
      if_true] <;>
    rfl

/-! ### `treeAsset` in stages -/

def tHdr (ts : List ITok) : Option (List PT × List ITok) :=
  match ts with
  | (.kwAbstract, i) :: (.kwAsset, j) :: (.id n, k) :: rest =>
    some ([leaf (.kwAbstract, i), leaf (.kwAsset, j), leaf (.id n, k)], rest)
  | (.kwAsset, j) :: (.id n, k) :: rest => some ([leaf (.kwAsset, j), leaf (.id n, k)], rest)
  | _ => none

def tSup (r1 : List ITok) : List PT × List ITok :=
  match r1 with
  | (.kwExtends, i) :: (.id s, j) :: r => ([leaf (.kwExtends, i), leaf (.id s, j)], r)
  | _ => ([], r1)

def tBodyStage (f : Nat) (h sup md : List PT) (r3 : List ITok) : TP PT :=
  match r3 with
  | (.lcurly, i) :: r4 =>
    (treeAssetBody f r4).map (fun x => (.rule "asset" (h ++ sup ++ md ++ leaf (.lcurly, i) :: x.1), x.2))
  | _ => none

theorem treeAsset_eq (f : Nat) (ts : List ITok) :
    treeAsset f ts =
      (tHdr ts).bind fun h =>
        tBodyStage f h.1 (tSup h.2).1 (treeMetas f (tSup h.2).2).1 (treeMetas f (tSup h.2).2).2 := by
  unfold treeAsset
  simp only
  split
  · rename_i h
    have h' : tHdr ts = none := h
    rw [h']; rfl
  · rename_i hd r1 h
    have h' : tHdr ts = some (hd, r1) := h
    rw [h']; rfl

theorem tHdr_spec (ts : List ITok) :
    match tHdr ts with
    | none => assetHdr (ts.map Prod.fst) = none
    | some (h, r1) => ∃ oa j k n, h = hdrNodes oa j k n ∧ assetHdr (ts.map Prod.fst) = some (oa.isSome, n, r1.map Prod.fst) ∧
        r1 <:+ ts := by
  fun_cases tHdr ts with
  | case1 i j n k rest => exact ⟨some i, j, k, n, rfl, rfl, ⟨[_, _, _], rfl⟩⟩
  | case2 j n k rest => exact ⟨none, j, k, n, rfl, rfl, ⟨[_, _], rfl⟩⟩
  | case3 _ h1 h2 =>
    show assetHdr _ = none
    unfold assetHdr
    split
    · rename_i n rest heq
      exfalso
      obtain ⟨i, r1, rfl, e1⟩ := map_fst_cons heq
      obtain ⟨j, r2, rfl, e2⟩ := map_fst_cons e1
      obtain ⟨k, r3, rfl, e3⟩ := map_fst_cons e2
      exact h1 _ _ _ _ _ rfl
    · rename_i n rest heq
      exfalso
      obtain ⟨i, r1, rfl, e1⟩ := map_fst_cons heq
      obtain ⟨j, r2, rfl, e2⟩ := map_fst_cons e1
      exact h2 _ _ _ _ rfl
    · rfl

theorem tSup_spec (r1 : List ITok) :
    ∃ os, (tSup r1).1 = supNodes os ∧
      assetSup (r1.map Prod.fst) = (os.map (fun x => x.2.2), (tSup r1).2.map Prod.fst) ∧ (tSup r1).2 <:+ r1 := by
  unfold tSup
  split
  · rename_i i s j r
    exact ⟨some (i, j, s), rfl, rfl, ⟨[_, _], rfl⟩⟩
  · rename_i h1
    refine ⟨none, rfl, ?_, List.suffix_refl _⟩
    unfold assetSup
    split
    · rename_i s r heq
      exfalso
      obtain ⟨i, r1, rfl, e1⟩ := map_fst_cons heq
      obtain ⟨j, r2, rfl, e2⟩ := map_fst_cons e1
      exact h1 _ _ _ _ rfl
    · rfl

theorem lcurly_split (r3 : List ITok) :
    (∃ i r4, r3 = (Tok.lcurly, i) :: r4) ∨
      ((∀ i r4, r3 ≠ (Tok.lcurly, i) :: r4) ∧ ∀ r, r3.map Prod.fst ≠ Tok.lcurly :: r) := by
  cases r3 with
  | nil => exact Or.inr ⟨fun _ _ h => (by cases h), fun _ h => (by cases h)⟩
  | cons x r =>
    obtain ⟨t, i⟩ := x
    by_cases ht : t = Tok.lcurly
    · subst ht; exact Or.inl ⟨i, r, rfl⟩
    · refine Or.inr ⟨fun i' r4 h => ?_, fun r' h => ?_⟩
      · simp only [List.cons.injEq, Prod.mk.injEq] at h; exact ht h.1.1
      · simp only [List.map_cons, List.cons.injEq] at h; exact ht h.1

theorem tBodyStage_none (f : Nat) (h sup md : List PT) (r3 : List ITok) (hne : ∀ i r4, r3 ≠ (Tok.lcurly, i) :: r4) :
    tBodyStage f h sup md r3 = none := by
  unfold tBodyStage
  split
  · exact (hne _ _ rfl).elim
  · rfl

theorem assetBodyStage_none (f : Nat) (cat : String) (abs : Bool) (name : String) (sup : Option String) (md : Meta)
    (r3 : List Tok) (hne : ∀ r, r3 ≠ Tok.lcurly :: r) : assetBodyStage f cat abs name sup md r3 = none := by
  unfold assetBodyStage
  split
  · exact (hne _ rfl).elim
  · rfl

theorem rAsset_eq (a : CAsset) :
    rAsset a = assetV (.str a.name) (rMeta a.metaD) (.str a.category) (.bool a.isAbstract) (rOpt V.str a.superAsset)
      (.list (a.variables.map rVar)) (.list (a.steps.map rStep)) := rfl

/-- **`visitAsset`**: the tree builder fails on an asset exactly when the model parser does; otherwise they consume the
same tokens and the translated `visitAsset`, on the tree below a `category` node of the name `cat`, returns the
rendering of the model's asset -/
theorem asset_tie (c : V → M V) (all : List Tok) (wf : Nat) (f : Nat) (cat : String) (its : List ITok)
    (hpos : AtPos all its) (hok : ∀ x ∈ its, tokOK x.1 = true) :
    match treeAsset f its with
    | none => parseAsset f cat (its.map Prod.fst) = none
    | some (t, irest) =>
      ∃ a, parseAsset f cat (its.map Prod.fst) = some (a, irest.map Prod.fst) ∧ (∃ cs, t = .rule "asset" cs) ∧
        irest <:+ its ∧
        ∀ g ci cj crest up, t.depth ≤ g → up.length + 1 + t.depth < wf →
          (∀ p ∈ up, isRule "reaches" p = false) →
          visitF c (tokensV all) wf g (.ctx t (catNode ci cj cat crest :: up)) = .ok (rAsset a) := by
  rw [treeAsset_eq, parseAsset_eq]
  have hh := tHdr_spec its
  cases hhd : tHdr its with
  | none => rw [hhd] at hh; rw [hh]; rfl
  | some p =>
    obtain ⟨h, r1⟩ := p
    rw [hhd] at hh
    obtain ⟨oa, j, k, n, rfl, hph, hsuf1⟩ := hh
    obtain ⟨os, hs1, hps, hsuf2⟩ := tSup_spec r1
    have hsuf3 := treeMetas_suffix f (tSup r1).2
    have hpm := treeMetas_rest f (tSup r1).2
    simp only [hph, Option.bind_some, hps, hs1, hpm]
    rcases lcurly_split (treeMetas f (tSup r1).2).2 with ⟨i, r4, hr3⟩ | ⟨hne1, hne2⟩
    · have hsuf4 : r4 <:+ its :=
        (List.IsSuffix.trans ⟨[_], hr3.symm⟩ hsuf3).trans (hsuf2.trans hsuf1)
      have hb := asset_body_tie c all wf f r4 (hpos.suffix hsuf4) (fun x hx => hok x (hsuf4.subset hx))
      rw [hr3]
      simp only [tBodyStage, assetBodyStage, List.map_cons]
      cases hbody : treeAssetBody f r4 with
      | none => rw [hbody] at hb; rw [hb]; rfl
      | some q =>
        obtain ⟨body, irest⟩ := q
        rw [hbody] at hb
        obtain ⟨vs, ss, hpb, hsuf5, hbc, hv⟩ := hb
        simp only [hpb, Option.map_some, List.nil_append]
        refine ⟨_, rfl, ⟨_, rfl⟩, hsuf5.trans hsuf4, ?_⟩
        intro g ci cj crest up hg hwf hup
        simp only [depth_rule, depthL_append, PT.depthL] at hg hwf
        obtain ⟨g, rfl⟩ : ∃ g', g = g' + 1 := ⟨g - 1, by omega⟩
        rw [visitF_asset]
        have hup' : ∀ p ∈ assetNode oa j k n os (treeMetas f (tSup r1).2).1 i body :: catNode ci cj cat crest :: up,
            isRule "reaches" p = false := by
          intro p hp
          rcases List.mem_cons.mp hp with rfl | hp
          · rfl
          rcases List.mem_cons.mp hp with rfl | hp
          · rfl
          · exact hup p hp
        obtain ⟨hvv, hvs⟩ := hv g (assetNode oa j k n os (treeMetas f (tSup r1).2).1 i body) (catNode ci cj cat crest :: up)
          (by omega) (by simp only [List.length_cons]; omega) hup'
        have hvv := hvv []
        have hvs := hvs []
        simp only [List.map_nil, List.nil_append] at hvv hvs
        have hev := visitAsset_eval c (tokensV all) wf oa j k n os f (tSup r1).2 i body ci cj cat crest up hbc g
          (by omega) _ _ hvv hvs
        rw [show assetNode oa j k n os (treeMetas f (tSup r1).2).1 i body = .rule "asset" _ from rfl] at hev
        rw [hev, rAsset_eq]
        cases os with
        | none => rfl
        | some x => rfl
    · rw [tBodyStage_none _ _ _ _ _ hne1, assetBodyStage_none _ _ _ _ _ _ _ hne2]

end MalVerif.Py.Visitor
