import MalVerif.Py.TieLegacyWf
/-!
# What "the securiCAD loader agrees with the native loader" says, on observations

`ScadAgrees L m sn`: the model `m` (loaded from the archive) shows the same assets (id, name, type, value of every
defense; the archive cannot carry extras), exactly the pairwise expansion of the links, the same attackers (by id; the
archive cannot carry attacker names: `Attacker:<id>`) and the same set of entry points as the model `sn` (loaded from the
native file).  Everything is stated on the *views* (`assetView`, `assocView`, `attView`: members by asset id), so that
two states with different references and store contents can be compared.  `scadAgrees_transfer`: the conclusions of
`loadScad_emit_from` (about the saved state `s`) carry over to any state that shows the same model as `s` (`SameModel`,
which is what C07 proves of the natively re-loaded state).
-/
namespace MalVerif.PyLeg.Tie
open MalVerif MalVerif.PyM MalVerif.PyM.Tie MalVerif.PyLeg MalVerif.Legacy MalVerif.MS MalVerif.Ser

/-- the pairwise expansion of one association (as a file shows it): one binary association per (left member, right
member) pair, no extras -/
def pairViewsOf (v : AssocView) : List AssocView :=
  v.left.flatMap fun i => v.right.map fun j => ⟨v.cls, v.lf, [i], v.rf, [j], "{}"⟩
/-- … of a list of associations, in order -/
def pairViews (vs : List AssocView) : List AssocView := vs.flatMap pairViewsOf

theorem mem_pairViews (vs : List AssocView) (w : AssocView) :
    w ∈ pairViews vs ↔ ∃ v ∈ vs, ∃ i ∈ v.left, ∃ j ∈ v.right, w = ⟨v.cls, v.lf, [i], v.rf, [j], "{}"⟩ := by
  unfold pairViews pairViewsOf
  simp only [List.mem_flatMap, List.mem_map]
  constructor
  · rintro ⟨v, hv, i, hi, j, hj, e⟩; exact ⟨v, hv, i, hi, j, hj, e.symm⟩
  · rintro ⟨v, hv, i, hi, j, hj, e⟩; exact ⟨v, hv, i, hi, j, hj, e.symm⟩

theorem pairsOfLink_view (s : St) (l : Nat) : (pairsOfLink s l).map Pair.view = pairViewsOf (assocView s l) := by
  unfold pairsOfLink pairViewsOf assocView
  simp only [List.map_flatMap, List.map_map, List.flatMap_map]
  rfl

/-- the pairwise expansion of the links of a state is a function of what a file shows of them -/
theorem pairsOf_view (s : St) : (pairsOf s).map Pair.view = pairViews (s.associations.map (assocView s)) := by
  unfold pairsOf pairViews
  rw [List.map_flatMap, List.flatMap_map]
  congr 1
  funext l
  exact pairsOfLink_view s l

/-- the entry-point relation of a state is a function of what a file shows of its attackers -/
theorem entryRel_iff_views (s : St) (tid aid : Int) (st : String) :
    EntryRel s tid aid st ↔ ∃ v ∈ s.attackers.map (attView s), v.id = tid ∧ ∃ e ∈ v.entry, e.1 = aid ∧ st ∈ e.2 := by
  unfold EntryRel
  constructor
  · rintro ⟨t, ht, hid, ep, hep, ha, hst⟩
    exact ⟨attView s t, List.mem_map.2 ⟨t, ht, rfl⟩, hid, ((s.aobj ep.1).id, ep.2),
      List.mem_map.2 ⟨ep, hep, rfl⟩, ha, hst⟩
  · rintro ⟨v, hv, hid, e, he, ha, hst⟩
    obtain ⟨t, ht, rfl⟩ := List.mem_map.1 hv
    obtain ⟨ep, hep, rfl⟩ := List.mem_map.1 (show e ∈ ((s.tobj t).entry.map (fun ep => ((s.aobj ep.1).id, ep.2))) from he)
    exact ⟨t, ht, hid, ep, hep, ha, hst⟩

theorem entryRel_congr {s s' : St} (h : s.attackers.map (attView s) = s'.attackers.map (attView s'))
    (tid aid : Int) (st : String) : EntryRel s tid aid st ↔ EntryRel s' tid aid st := by
  rw [entryRel_iff_views, entryRel_iff_views, h]

/-- the model `m` loaded from the securiCAD archive agrees with the model `sn` loaded from the native file -/
structure ScadAgrees (L : Lang) (m sn : St) : Prop where
  /-- the same assets in the same order: id, name, type, value of every defense of the type (no extras) -/
  assets : m.assets.map (assetView L m) = sn.assets.map (fun a => { assetView L sn a with extras := "{}" })
  /-- exactly the pairwise expansion of the links, in order -/
  links : m.associations.map (assocView m) = pairViews (sn.associations.map (assocView sn))
  /-- the same attackers by id, named `Attacker:<id>` -/
  attackers : m.attackers.map (fun t => ((m.tobj t).id, (m.tobj t).name)) =
    sn.attackers.map (fun t => ((sn.tobj t).id, "Attacker:" ++ toString (sn.tobj t).id))
  /-- the same set of (attacker id, asset id, attack step) entry points -/
  entry_points : ∀ tid aid st, EntryRel m tid aid st ↔ EntryRel sn tid aid st

/-- from the saved state `s` to any state that shows the same model -/
theorem scadAgrees_transfer (L : Lang) (s m sn : St) (hdk : DefKeysDistinct s) (hsm : SameModel L sn s)
    (h3 : m.assets.map (assetView L m) = s.assets.map (fun a => objView L (scadObj L (s.aobj a))))
    (h4 : m.associations.map (assocView m) = (pairsOf s).map Pair.view)
    (h5 : m.attackers.map (fun t => ((m.tobj t).id, (m.tobj t).name)) =
        s.attackers.map (fun t => ((s.tobj t).id, "Attacker:" ++ toString (s.tobj t).id)))
    (h6 : ∀ tid aid st, EntryRel m tid aid st ↔ EntryRel s tid aid st) : ScadAgrees L m sn := by
  refine ⟨?_, ?_, ?_, ?_⟩
  · rw [h3]
    have e1 : s.assets.map (fun a => objView L (scadObj L (s.aobj a))) =
        (s.assets.map (assetView L s)).map (fun v => { v with extras := "{}" }) := by
      rw [List.map_map]
      exact List.map_congr_left (fun a ham => objView_scadObj L (s.aobj a) (hdk a ham))
    rw [e1, ← hsm.assets, List.map_map]
    rfl
  · rw [h4, pairsOf_view, hsm.assocs]
  · rw [h5]
    have e1 : ∀ x : St, x.attackers.map (fun t => ((x.tobj t).id, "Attacker:" ++ toString (x.tobj t).id)) =
        (x.attackers.map (attView x)).map (fun v => (v.id, "Attacker:" ++ toString v.id)) := by
      intro x; rw [List.map_map]; rfl
    rw [e1 s, e1 sn, hsm.attackers]
  · intro tid aid st
    rw [h6, entryRel_congr hsm.attackers]

/-- the securiCAD loader raised `e` (Boolean observation for kernel-evaluated examples) -/
def raisesO (r : Except LErr (Option H)) (e : LErr) : Bool :=
  match r with | .error e' => e' == e | _ => false
theorem raisesO_eq {r : Except LErr (Option H)} {e : LErr} (h : raisesO r e = true) : r = .error e := by
  cases r with
  | ok s => cases h
  | error e' => have := eq_of_beq (show (e' == e) = true from h); subst this; rfl

end MalVerif.PyLeg.Tie
