import MalVerif.Py.TieVisitorBase
/-!
# Tie of the translated visitor to the compiler model: TTC expressions

`treeTtcExpr` (the tree builder) succeeds exactly when `parseTtcExpr` (the model parser) does, on the same tokens, and
the *translated* `visitTtcexpr` … `visitNumber` (through `visitF`, i.e. `self.visit`) applied to the tree return the
rendering `rTtc` of the model's value, for every recursion budget `g ≥ depth` (`ttcexpr_tie`, `ttcexpr_none`).
Python's `float(text)` raises on text that is not a number; the model keeps any text; hence the hypothesis `numOK`
on the numeric tokens (always true for tokens from the lexer).
-/
namespace MalVerif.Py.Visitor
open MalVerif.Mal MalVerif.Py.GenVisitor
set_option linter.unusedSimpArgs false
set_option linter.unusedVariables false

/-- the text of a numeric token is something Python's `float` accepts (always so for tokens from the lexer) -/
def floatOK (s : String) : Bool :=
  let cs := s.toList
  cs.any Char.isDigit && cs.all (fun c => c.isDigit || c == '.') && decide ((cs.filter (· == '.')).length ≤ 1)

def numOK : Tok → Bool
  | .int s => floatOK s
  | .float s => floatOK s
  | _ => true

theorem pyFloat_ok {s : String} (h : floatOK s = true) : pyFloat (.str s) = .ok (.num s) := by
  simp only [floatOK] at h
  simp only [pyFloat, h]
  rfl

/-! ### `Except` -/
theorem okBind {α β : Type} (a : α) (f : α → M β) : ((Except.ok a : M α) >>= f) = f a := rfl
theorem okMap {α β : Type} (a : α) (f : α → β) : (f <$> (Except.ok a : M α)) = Except.ok (f a) := rfl
theorem pureOk {α : Type} (a : α) : (pure a : M α) = Except.ok a := rfl

/-! ### leaves -/
theorem leaf_id (n : String) (i : Nat) : leaf (.id n, i) = .tok "ID" n i := rfl
theorem leaf_lparen (i : Nat) : leaf (.lparen, i) = .tok "LPAREN" "(" i := rfl
theorem leaf_rparen (i : Nat) : leaf (.rparen, i) = .tok "RPAREN" ")" i := rfl
theorem leaf_power (i : Nat) : leaf (.power, i) = .tok "POWER" "^" i := rfl
theorem leaf_lsquare (i : Nat) : leaf (.lsquare, i) = .tok "LSQUARE" "[" i := rfl
theorem leaf_rsquare (i : Nat) : leaf (.rsquare, i) = .tok "RSQUARE" "]" i := rfl
theorem leaf_depth (t : ITok) : (leaf t).depth = 1 := by simp [leaf, PT.depth]
theorem leaf_isRule (r : String) (t : ITok) : isRule r (leaf t) = false := rfl

theorem rTtc_dict (e : TTC) : ∃ d, rTtc e = .dict d := by
  cases e <;> exact ⟨_, rfl⟩

/-! ### the methods of the translated visitor on the shapes the tree builder produces -/

theorem visitNumber_ok (self : Self) (t : ITok) (up : List PT) (hn : isNumTok t.1 = true) (h : numOK t.1 = true) :
    visitNumber self (.ctx (numberNode t) up) = .ok (.dict [("type", .str "number"), ("value", .num (tokText t.1))]) := by
  obtain ⟨tk, i⟩ := t
  cases tk <;> simp [isNumTok] at hn <;> simp only [numOK] at h <;>
  · simp [visitNumber, numberNode, leaf, pyGetText, PT.text, PT.textL, tokText, pyFloat_ok h, pyDict, pySetItem, keyOf, dictPutAll, dictPut]
    rfl

theorem visitTtcdist_bare (self : Self) (n : String) (i : Nat) (up : List PT) :
    visitTtcdist self (.ctx (.rule "ttcdist" [leaf (.id n, i)]) up) = .ok (rTtc (.func n [])) := by
  simp [visitTtcdist, ctxAcc_eq acc_ttcdist_ID, ctxAcc_eq acc_ttcdist_LPAREN, runAcc, leaf, isTok, tokType, mkCtx, optV, pyGetText,
    PT.text, tokText, PT.children, pyDict, pySetItem, keyOf, dictPutAll, dictPut, truthy, rTtc]
  rfl

theorem args_loop (self : Self) (up' : List PT) (f : ITok → V → M (ForInStep V))
    (hf : ∀ a y, f a y = (do
        let v ← self.visit (V.ctx (numberNode a) up')
        let w ← pyGetItem v (V.str "value")
        ForInStep.yield <$> pyAppend y w))
    (nts : List ITok)
    (hv : ∀ t ∈ nts, self.visit (.ctx (numberNode t) up') = .ok (.dict [("type", .str "number"), ("value", .num (tokText t.1))]))
    (acc : List V) :
    forIn nts (V.list acc) f = .ok (V.list (acc ++ nts.map (fun t => V.num (tokText t.1)))) := by
  induction nts generalizing acc with
  | nil => simp; rfl
  | cons t ts ih =>
    rw [List.forIn_cons, hf, hv t (List.mem_cons_self)]
    simp [pyGetItem, keyOf, List.lookup, pyAppend, okBind, okMap, pureOk]
    have := ih (fun x hx => hv x (List.mem_cons_of_mem _ hx)) (acc ++ [V.num (tokText t.1)])
    simpa using this

theorem visitTtcdist_args (self : Self) (n : String) (i j : Nat) (cs : List PT) (nts : List ITok) (up : List PT)
    (hcs : cs.filter (isRule "number") = nts.map numberNode)
    (hv : ∀ t ∈ nts, ∀ up', self.visit (.ctx (numberNode t) up') = .ok (.dict [("type", .str "number"), ("value", .num (tokText t.1))])) :
    visitTtcdist self (.ctx (.rule "ttcdist" (leaf (.id n, i) :: leaf (.lparen, j) :: cs)) up)
      = .ok (rTtc (.func n (nts.map (fun t => tokText t.1)))) := by
  simp [visitTtcdist, ctxAcc_eq acc_ttcdist_ID, ctxAcc_eq acc_ttcdist_LPAREN, ctxAcc_eq acc_ttcdist_number, runAcc, leaf_id, leaf_lparen,
    isTok, isRule, mkCtx, optV, pyGetText, PT.text, PT.children, pyDict, pySetItem, keyOf, dictPutAll, dictPut, truthy, rTtc, hcs, pyIter]
  rw [args_loop self _ _ (fun _ _ => rfl) nts (fun t ht => hv t ht _) []]
  simp
  rfl

theorem visitTtcatom_dist (self : Self) (ds : List PT) (up : List PT) (d : List (String × V))
    (hv : self.visit (.ctx (.rule "ttcdist" ds) (.rule "ttcatom" [.rule "ttcdist" ds] :: up)) = .ok (.dict d)) :
    visitTtcatom self (.ctx (.rule "ttcatom" [.rule "ttcdist" ds]) up) = .ok (.dict d) := by
  simp [visitTtcatom, ctxAcc_eq acc_ttcatom_ttcdist, runAcc, isRule, mkCtx, optV, PT.children, truthy, hv, okBind, pureOk, pyLocal]

theorem visitTtcatom_paren (self : Self) (i j : Nat) (es : List PT) (up : List PT) (d : List (String × V))
    (hv : self.visit (.ctx (.rule "ttcexpr" es) (.rule "ttcatom" [leaf (.lparen, i), .rule "ttcexpr" es, leaf (.rparen, j)] :: up)) = .ok (.dict d)) :
    visitTtcatom self (.ctx (.rule "ttcatom" [leaf (.lparen, i), .rule "ttcexpr" es, leaf (.rparen, j)]) up) = .ok (.dict d) := by
  simp only [leaf_lparen, leaf_rparen] at hv ⊢
  simp [visitTtcatom, ctxAcc_eq acc_ttcatom_ttcdist, ctxAcc_eq acc_ttcatom_ttcexpr, runAcc, isRule, mkCtx, optV, PT.children, truthy, hv,
    okBind, pureOk, pyLocal]

theorem visitTtcatom_number (self : Self) (t : ITok) (up : List PT) (d : List (String × V))
    (hv : self.visit (.ctx (numberNode t) (.rule "ttcatom" [numberNode t] :: up)) = .ok (.dict d)) :
    visitTtcatom self (.ctx (.rule "ttcatom" [numberNode t]) up) = .ok (.dict d) := by
  simp only [numberNode] at hv ⊢
  simp [visitTtcatom, ctxAcc_eq acc_ttcatom_ttcdist, ctxAcc_eq acc_ttcatom_ttcexpr, ctxAcc_eq acc_ttcatom_number, runAcc, isRule, mkCtx,
    optV, PT.children, truthy, hv, okBind, pureOk, pyLocal]

theorem visitTtcfact_one (self : Self) (as : List PT) (up : List PT) (v : V)
    (hv : self.visit (.ctx (.rule "ttcatom" as) (.rule "ttcfact" [.rule "ttcatom" as] :: up)) = .ok v) :
    visitTtcfact self (.ctx (.rule "ttcfact" [.rule "ttcatom" as]) up) = .ok v := by
  simp [visitTtcfact, ctxAcc_eq acc_ttcfact_ttcatom, runAcc, isRule, mkCtx, optV, PT.children, hv, okBind, pureOk, pyLen, V.eq, pyGetItem]

theorem visitTtcfact_pow (self : Self) (as bs : List PT) (i : Nat) (up : List PT) (v w : V)
    (hv : self.visit (.ctx (.rule "ttcatom" as) (.rule "ttcfact" [.rule "ttcatom" as, leaf (.power, i), .rule "ttcatom" bs] :: up)) = .ok v)
    (hw : self.visit (.ctx (.rule "ttcatom" bs) (.rule "ttcfact" [.rule "ttcatom" as, leaf (.power, i), .rule "ttcatom" bs] :: up)) = .ok w) :
    visitTtcfact self (.ctx (.rule "ttcfact" [.rule "ttcatom" as, leaf (.power, i), .rule "ttcatom" bs]) up)
      = .ok (.dict [("type", .str "exponentiation"), ("lhs", v), ("rhs", w)]) := by
  simp only [leaf_power] at hv hw ⊢
  simp [visitTtcfact, ctxAcc_eq acc_ttcfact_ttcatom, runAcc, isRule, mkCtx, optV, PT.children, hv, hw, okBind, pureOk, pyLen, V.eq, pyGetItem,
    pyDict, pySetItem, keyOf, dictPutAll, dictPut]

/-! ### the loops of `visitTtcterm` / `visitTtcexpr` -/

/-- one `(operator leaf, operand node)` pair of a `ttcterm` / `ttcexpr`, with the model's view of it: the name of the
operation and the value of the operand -/
structure Opnd where
  op : PT
  node : PT
  name : String
  val : TTC

/-- the children after the first operand -/
def flat (ps : List Opnd) : List PT := ps.flatMap (fun p => [p.op, p.node])

theorem flat_cons (p : Opnd) (ps : List Opnd) : flat (p :: ps) = p.op :: p.node :: flat ps := by
  simp [flat]

theorem flat_nil : flat [] = [] := rfl

theorem mem_flat_node {p : Opnd} {ps : List Opnd} (h : p ∈ ps) : p.node ∈ flat ps := by
  simp only [flat, List.mem_flatMap]
  exact ⟨p, h, by simp⟩

/-- what one round of the loop stores in `ret` (and `lhs`) -/
def binD (p : Opnd) (lhs : V) : V := .dict [("type", .str p.name), ("lhs", lhs), ("rhs", rTtc p.val)]

/-- … and the model's accumulator -/
def binStep (a : TTC) (p : Opnd) : TTC := .bin p.name a p.val

/-- `ret` is `{}` or has the keys `type`, `lhs`, `rhs` (in this order) -/
def DShape (ret : V) : Prop := ret = .dict [] ∨ ∃ a b c, ret = .dict [("type", a), ("lhs", b), ("rhs", c)]

/-- the operator leaf of `p` is a token, and `p.name` is what the visitor makes of its text -/
def OpOK (sym yes no : String) (p : Opnd) : Prop :=
  ∃ ty txt i, p.op = .tok ty txt i ∧ p.name = (if txt = sym then yes else no)

theorem OpOK.isRule {sym yes no : String} {p : Opnd} (h : OpOK sym yes no p) (r : String) : isRule r p.op = false := by
  obtain ⟨ty, txt, i, h, _⟩ := h; rw [h]; rfl

theorem bin_loop (all : List Opnd) (f : Nat → (V × V) → M (ForInStep (V × V)))
    (hf : ∀ a p, all[a]? = some p → ∀ ret lhs, DShape ret → f a ⟨ret, lhs⟩ = .ok (.yield ⟨binD p lhs, binD p lhs⟩))
    (ps : List Opnd) (k : Nat) (hk : all.drop k = ps) (ret lhs : V) (hs : DShape ret) :
    forIn (List.range' k ps.length) (⟨ret, lhs⟩ : (V × V)) f
      = .ok (ps.foldl (fun s p => ⟨binD p s.2, binD p s.2⟩) ⟨ret, lhs⟩) := by
  induction ps generalizing k ret lhs with
  | nil => rfl
  | cons p ps ih =>
    have hp : all[k]? = some p := by
      have := congrArg (fun l => l[0]?) hk
      simpa using this
    have hk' : all.drop (k+1) = ps := by
      have := congrArg (fun l => l.drop 1) hk
      simpa using this
    simp only [List.length_cons, List.range'_succ, List.forIn_cons, hf k p hp ret lhs hs, okBind, List.foldl_cons]
    exact ih (k+1) hk' _ _ (Or.inr ⟨_, _, _, rfl⟩)

theorem fold_binD_same (ps : List Opnd) (l : TTC) :
    ps.foldl (fun (s : V × V) p => (binD p s.2, binD p s.2)) (rTtc l, rTtc l) = (rTtc (ps.foldl binStep l), rTtc (ps.foldl binStep l)) := by
  induction ps generalizing l with
  | nil => rfl
  | cons p ps ih => simp only [List.foldl_cons]; exact ih (binStep l p)

theorem fold_binD (p : Opnd) (ps : List Opnd) (r : V) (l : TTC) :
    ((p :: ps).foldl (fun (s : V × V) p => (binD p s.2, binD p s.2)) (r, rTtc l)).1 = rTtc ((p :: ps).foldl binStep l) := by
  simp only [List.foldl_cons]
  exact congrArg Prod.fst (fold_binD_same ps (binStep l p))

theorem filter_flat (r : String) (all : List Opnd) (h : ∀ p ∈ all, isRule r p.op = false ∧ isRule r p.node = true) :
    (flat all).filter (isRule r) = all.map (·.node) := by
  induction all with
  | nil => rfl
  | cons p ps ih =>
    have hp := h p List.mem_cons_self
    simp only [flat_cons, List.filter_cons, hp.1, hp.2, List.map_cons]
    simp [ih (fun q hq => h q (List.mem_cons_of_mem _ hq))]

theorem flat_getElem_op (all : List Opnd) (a : Nat) (p : Opnd) (h : all[a]? = some p) : (flat all)[2*a]? = some p.op := by
  induction all generalizing a with
  | nil => simp at h
  | cons q qs ih =>
    cases a with
    | zero => simp at h; simp [flat_cons, h]
    | succ a =>
      simp at h
      rw [flat_cons, show 2 * (a+1) = (2*a) + 1 + 1 by omega]
      simp [ih a h]

theorem visitTtcterm_one (self : Self) (e0 : PT) (up : List PT) (he0 : isRule "ttcfact" e0 = true) :
    visitTtcterm self (.ctx (.rule "ttcterm" [e0]) up) = self.visit (.ctx e0 (.rule "ttcterm" [e0] :: up)) := by
  simp [visitTtcterm, ctxAcc_eq acc_ttcterm_ttcfact, runAcc, mkCtx, PT.children, he0, okBind, pureOk, pyLen, V.eq, pyGetItem]

theorem visitTtcterm_many (self : Self) (e0 : PT) (p0 : Opnd) (ps : List Opnd) (up : List PT) (l0 : TTC)
    (he0 : isRule "ttcfact" e0 = true)
    (hall : ∀ p ∈ p0 :: ps, OpOK "*" "multiplication" "division" p ∧ isRule "ttcfact" p.node = true ∧
      ∀ up', self.visit (.ctx p.node up') = .ok (rTtc p.val))
    (h0 : ∀ up', self.visit (.ctx e0 up') = .ok (rTtc l0)) :
    visitTtcterm self (.ctx (.rule "ttcterm" (e0 :: flat (p0 :: ps))) up) = .ok (rTtc ((p0 :: ps).foldl binStep l0)) := by
  have hfil : (flat (p0 :: ps)).filter (isRule "ttcfact") = (p0 :: ps).map (·.node) :=
    filter_flat _ _ (fun p hp => ⟨(hall p hp).1.isRule _, (hall p hp).2.1⟩)
  simp [visitTtcterm, ctxAcc_eq acc_ttcterm_ttcfact, runAcc, mkCtx, PT.children, hfil, he0, okBind, pureOk, pyLen, V.eq, pyGetItem, h0,
    pyDict, dictPutAll, pyRange, pyIter]
  rw [if_neg (by omega)]
  rw [List.range_eq_range']
  rw [show ps.length + 1 = (p0 :: ps).length from rfl, bin_loop (p0 :: ps) _ ?hf (p0 :: ps) 0 rfl (.dict []) _ (Or.inl rfl)]
  case hf =>
    intro a p hp ret lhs hs
    have h1 : ¬ (2 * (1 + (a:Int)) - 1 < 0) := by omega
    have h2 : (2 * (1 + (a:Int)) - 1).toNat = 2*a+1 := by omega
    have h3 : ¬ (1 + (a:Int) < 0) := by omega
    have h4 : (1 + (a:Int)).toNat = a+1 := by omega
    have hpm : p ∈ p0 :: ps := List.mem_of_getElem? hp
    obtain ⟨⟨ty, txt, i, hop, hname⟩, -, hvis⟩ := hall p hpm
    have hch := flat_getElem_op _ _ _ hp
    have hterm : (V.ctx p0.node (PT.rule "ttcterm" (e0 :: flat (p0 :: ps)) :: up) ::
        List.map (mkCtx (PT.rule "ttcterm" (e0 :: flat (p0 :: ps))) up ∘ fun x => x.node) ps)[a]?
          = some (V.ctx p.node (PT.rule "ttcterm" (e0 :: flat (p0 :: ps)) :: up)) := by
      cases a with
      | zero => simp at hp; simp [hp]
      | succ a => simp at hp; simp [hp, mkCtx]
    simp only [pyAttr, pyMul, pySub, okBind, h1, h2, h3, h4, PT.children, hch, hterm, hvis, pyCopy]
    simp [pyAttr, pyMul, pySub, okBind, h1, h2, h3, h4, PT.children, hch, hop, mkCtx, pyGetText, PT.text, V.eq, binD, hname]
    by_cases htxt : txt = "*" <;> rcases hs with rfl | ⟨x, y, z, rfl⟩ <;>
      simp [htxt, pySetItem, keyOf, dictPut, okBind, pureOk, hterm, hvis, pyCopy]
  rw [okBind, fold_binD]
  rfl

theorem visitTtcexpr_one (self : Self) (e0 : PT) (up : List PT) (he0 : isRule "ttcterm" e0 = true) :
    visitTtcexpr self (.ctx (.rule "ttcexpr" [e0]) up) = self.visit (.ctx e0 (.rule "ttcexpr" [e0] :: up)) := by
  simp [visitTtcexpr, ctxAcc_eq acc_ttcexpr_ttcterm, runAcc, mkCtx, PT.children, he0, okBind, pureOk, pyLen, V.eq, pyGetItem]

theorem visitTtcexpr_many (self : Self) (e0 : PT) (p0 : Opnd) (ps : List Opnd) (up : List PT) (l0 : TTC)
    (he0 : isRule "ttcterm" e0 = true)
    (hall : ∀ p ∈ p0 :: ps, OpOK "+" "addition" "subtraction" p ∧ isRule "ttcterm" p.node = true ∧
      ∀ up', self.visit (.ctx p.node up') = .ok (rTtc p.val))
    (h0 : ∀ up', self.visit (.ctx e0 up') = .ok (rTtc l0)) :
    visitTtcexpr self (.ctx (.rule "ttcexpr" (e0 :: flat (p0 :: ps))) up) = .ok (rTtc ((p0 :: ps).foldl binStep l0)) := by
  have hfil : (flat (p0 :: ps)).filter (isRule "ttcterm") = (p0 :: ps).map (·.node) :=
    filter_flat _ _ (fun p hp => ⟨(hall p hp).1.isRule _, (hall p hp).2.1⟩)
  simp [visitTtcexpr, ctxAcc_eq acc_ttcexpr_ttcterm, runAcc, mkCtx, PT.children, hfil, he0, okBind, pureOk, pyLen, V.eq, pyGetItem, h0,
    pyDict, dictPutAll, pyRange, pyIter]
  rw [if_neg (by omega)]
  rw [List.range_eq_range']
  rw [show ps.length + 1 = (p0 :: ps).length from rfl, bin_loop (p0 :: ps) _ ?hf (p0 :: ps) 0 rfl (.dict []) _ (Or.inl rfl)]
  case hf =>
    intro a p hp ret lhs hs
    have h1 : ¬ (2 * (1 + (a:Int)) - 1 < 0) := by omega
    have h2 : (2 * (1 + (a:Int)) - 1).toNat = 2*a+1 := by omega
    have h3 : ¬ (1 + (a:Int) < 0) := by omega
    have h4 : (1 + (a:Int)).toNat = a+1 := by omega
    have hpm : p ∈ p0 :: ps := List.mem_of_getElem? hp
    obtain ⟨⟨ty, txt, i, hop, hname⟩, -, hvis⟩ := hall p hpm
    have hch := flat_getElem_op _ _ _ hp
    have hterm : (V.ctx p0.node (PT.rule "ttcexpr" (e0 :: flat (p0 :: ps)) :: up) ::
        List.map (mkCtx (PT.rule "ttcexpr" (e0 :: flat (p0 :: ps))) up ∘ fun x => x.node) ps)[a]?
          = some (V.ctx p.node (PT.rule "ttcexpr" (e0 :: flat (p0 :: ps)) :: up)) := by
      cases a with
      | zero => simp at hp; simp [hp]
      | succ a => simp at hp; simp [hp, mkCtx]
    simp only [pyAttr, pyMul, pySub, okBind, h1, h2, h3, h4, PT.children, hch, hterm, hvis, pyCopy]
    simp [pyAttr, pyMul, pySub, okBind, h1, h2, h3, h4, PT.children, hch, hop, mkCtx, pyGetText, PT.text, V.eq, binD, hname]
    by_cases htxt : txt = "+" <;> rcases hs with rfl | ⟨x, y, z, rfl⟩ <;>
      simp [htxt, pySetItem, keyOf, dictPut, okBind, pureOk, hterm, hvis, pyCopy]
  rw [okBind, fold_binD]
  rfl

theorem ttc_wrapper_tie (c : V → M V) (toks : List V) (wf : Nat) (e : PT) (v : V) (i j : Nat) (g : Nat) (up : List PT)
    (he : ∀ up', visitF c toks wf g (.ctx e up') = .ok v) (hr : isRule "ttcexpr" e = true) :
    visitF c toks wf (g+1) (.ctx (.rule "ttc" [leaf (.lsquare, i), e, leaf (.rsquare, j)]) up) = .ok v := by
  rw [visitF_ttc]
  cases e with
  | tok t x k => simp [isRule] at hr
  | rule n cs =>
    simp [isRule] at hr
    subst hr
    simp only [leaf_lsquare, leaf_rsquare]
    simp [visitTtc, ctxAcc_eq acc_ttc_ttcexpr, runAcc, mkCtx, PT.children, isRule, okBind, pureOk, optV, he]

/-! ### visits of the nodes the tree builder produces, for every sufficient budget -/

def NumOK (its : List ITok) : Prop := ∀ x ∈ its, numOK x.1 = true

/-- `self.visit` on `t` returns the rendering of `e`, whatever the ancestors and for every budget `g ≥ depth t` -/
def VisitsTo (c : V → M V) (toks : List V) (wf : Nat) (t : PT) (e : TTC) : Prop :=
  ∀ g up, t.depth ≤ g → visitF c toks wf g (.ctx t up) = .ok (rTtc e)

theorem fuel_rule {r : String} {cs : List PT} {g : Nat} (h : (PT.rule r cs).depth ≤ g) : ∃ g', g = g' + 1 ∧ PT.depthL cs ≤ g' := by
  rw [depth_rule] at h
  exact ⟨g - 1, by omega, by omega⟩

theorem le_depthL {c : PT} {cs : List PT} {g : Nat} (hm : c ∈ cs) (h : PT.depthL cs ≤ g) : c.depth ≤ g :=
  Nat.le_trans (depthL_mem hm) h

theorem numberNode_depth (t : ITok) : (numberNode t).depth = 2 := by
  simp [numberNode, PT.depth, PT.depthL, leaf]

theorem visitF_numberNode (c : V → M V) (toks : List V) (wf g : Nat) (t : ITok) (up : List PT)
    (hn : isNumTok t.1 = true) (h : numOK t.1 = true) :
    visitF c toks wf (g+1) (.ctx (numberNode t) up) = .ok (.dict [("type", .str "number"), ("value", .num (tokText t.1))]) := by
  rw [show numberNode t = .rule "number" [leaf t] from rfl, visitF_number]
  exact visitNumber_ok _ t up hn h

variable (c : V → M V) (toks : List V) (wf : Nat)

theorem vis_atom_bare (n : String) (i : Nat) :
    VisitsTo c toks wf (.rule "ttcatom" [.rule "ttcdist" [leaf (.id n, i)]]) (.func n []) := by
  intro g up hg
  obtain ⟨g1, rfl, hg1⟩ := fuel_rule hg
  have hg2 := le_depthL (c := .rule "ttcdist" [leaf (.id n, i)]) (List.mem_cons_self) hg1
  obtain ⟨g, rfl, -⟩ := fuel_rule hg2
  rw [visitF_ttcatom]
  obtain ⟨d, hd⟩ := rTtc_dict (.func n [])
  rw [hd]
  apply visitTtcatom_dist
  rw [show (selfAt c toks wf (g+1)).visit = visitF c toks wf (g+1) from rfl]
  rw [visitF_ttcdist, visitTtcdist_bare, hd]

theorem vis_atom_args (n : String) (i j : Nat) (cs : List PT) (nts : List ITok)
    (hcs : cs.filter (isRule "number") = nts.map numberNode)
    (hnts : ∀ t ∈ nts, isNumTok t.1 = true ∧ numOK t.1 = true) :
    VisitsTo c toks wf (.rule "ttcatom" [.rule "ttcdist" (leaf (.id n, i) :: leaf (.lparen, j) :: cs)])
      (.func n (nts.map (fun t => tokText t.1))) := by
  intro g up hg
  obtain ⟨g1, rfl, hg1⟩ := fuel_rule hg
  have hg2 := le_depthL (c := .rule "ttcdist" (leaf (.id n, i) :: leaf (.lparen, j) :: cs)) (List.mem_cons_self) hg1
  obtain ⟨g, rfl, hg3⟩ := fuel_rule hg2
  rw [visitF_ttcatom]
  obtain ⟨d, hd⟩ := rTtc_dict (.func n (nts.map (fun t => tokText t.1)))
  rw [hd]
  apply visitTtcatom_dist
  rw [show (selfAt c toks wf (g+1)).visit = visitF c toks wf (g+1) from rfl]
  rw [visitF_ttcdist, visitTtcdist_args _ n i j cs nts _ hcs, hd]
  intro t ht up'
  have hmem : numberNode t ∈ cs := by
    have : numberNode t ∈ cs.filter (isRule "number") := by rw [hcs]; exact List.mem_map_of_mem ht
    exact (List.mem_filter.mp this).1
  have hd2 : (numberNode t).depth ≤ g :=
    le_depthL (List.mem_cons_of_mem _ (List.mem_cons_of_mem _ hmem)) hg3
  rw [numberNode_depth] at hd2
  obtain ⟨g, rfl⟩ : ∃ g', g = g' + 1 := ⟨g - 1, by omega⟩
  exact visitF_numberNode c toks wf g t up' (hnts t ht).1 (hnts t ht).2

theorem vis_atom_paren (i j : Nat) (es : List PT) (e : TTC) (h : VisitsTo c toks wf (.rule "ttcexpr" es) e) :
    VisitsTo c toks wf (.rule "ttcatom" [leaf (.lparen, i), .rule "ttcexpr" es, leaf (.rparen, j)]) e := by
  intro g up hg
  obtain ⟨g1, rfl, hg1⟩ := fuel_rule hg
  have hg2 := le_depthL (c := .rule "ttcexpr" es) (List.mem_cons_of_mem _ List.mem_cons_self) hg1
  rw [visitF_ttcatom]
  obtain ⟨d, hd⟩ := rTtc_dict e
  rw [hd]
  apply visitTtcatom_paren
  rw [← hd]
  exact h g1 _ hg2

theorem vis_atom_number (t : ITok) (hn : isNumTok t.1 = true) (h : numOK t.1 = true) :
    VisitsTo c toks wf (.rule "ttcatom" [numberNode t]) (.num (tokText t.1)) := by
  intro g up hg
  obtain ⟨g1, rfl, hg1⟩ := fuel_rule hg
  have hg2 := le_depthL (c := numberNode t) List.mem_cons_self hg1
  rw [numberNode_depth] at hg2
  obtain ⟨g, rfl⟩ : ∃ g', g1 = g' + 1 := ⟨g1 - 1, by omega⟩
  rw [visitF_ttcatom]
  apply visitTtcatom_number
  exact visitF_numberNode c toks wf g t _ hn h

theorem vis_fact_one (as : List PT) (e : TTC) (h : VisitsTo c toks wf (.rule "ttcatom" as) e) :
    VisitsTo c toks wf (.rule "ttcfact" [.rule "ttcatom" as]) e := by
  intro g up hg
  obtain ⟨g1, rfl, hg1⟩ := fuel_rule hg
  have hg2 := le_depthL (c := .rule "ttcatom" as) List.mem_cons_self hg1
  rw [visitF_ttcfact]
  apply visitTtcfact_one
  exact h g1 _ hg2

theorem vis_fact_pow (as bs : List PT) (i : Nat) (a b : TTC) (ha : VisitsTo c toks wf (.rule "ttcatom" as) a)
    (hb : VisitsTo c toks wf (.rule "ttcatom" bs) b) :
    VisitsTo c toks wf (.rule "ttcfact" [.rule "ttcatom" as, leaf (.power, i), .rule "ttcatom" bs]) (.bin "exponentiation" a b) := by
  intro g up hg
  obtain ⟨g1, rfl, hg1⟩ := fuel_rule hg
  have hg2 := le_depthL (c := .rule "ttcatom" as) List.mem_cons_self hg1
  have hg3 := le_depthL (c := .rule "ttcatom" bs) (List.mem_cons_of_mem _ (List.mem_cons_of_mem _ List.mem_cons_self)) hg1
  rw [visitF_ttcfact]
  exact visitTtcfact_pow _ as bs i up _ _ (ha g1 _ hg2) (hb g1 _ hg3)

theorem vis_term (e0 : PT) (fs : List PT) (l0 : TTC) (ps : List Opnd) (he0 : e0 = .rule "ttcfact" fs)
    (h0 : VisitsTo c toks wf e0 l0)
    (hps : ∀ p ∈ ps, OpOK "*" "multiplication" "division" p ∧ (∃ cs', p.node = .rule "ttcfact" cs') ∧ VisitsTo c toks wf p.node p.val) :
    VisitsTo c toks wf (.rule "ttcterm" (e0 :: flat ps)) (ps.foldl binStep l0) := by
  intro g up hg
  obtain ⟨g1, rfl, hg1⟩ := fuel_rule hg
  have hg0 := le_depthL (c := e0) List.mem_cons_self hg1
  rw [visitF_ttcterm]
  have hr0 : isRule "ttcfact" e0 = true := by rw [he0]; rfl
  cases ps with
  | nil => rw [flat_nil, visitTtcterm_one _ _ _ hr0]; exact h0 g1 _ hg0
  | cons p0 ps =>
    apply visitTtcterm_many _ _ _ _ _ _ hr0
    · intro p hp
      obtain ⟨hop, ⟨cs', hcs'⟩, hv⟩ := hps p hp
      refine ⟨hop, by rw [hcs']; rfl, fun up' => hv g1 up' ?_⟩
      exact le_depthL (List.mem_cons_of_mem _ (mem_flat_node hp)) hg1
    · intro up'; exact h0 g1 up' hg0

theorem vis_expr (e0 : PT) (fs : List PT) (l0 : TTC) (ps : List Opnd) (he0 : e0 = .rule "ttcterm" fs)
    (h0 : VisitsTo c toks wf e0 l0)
    (hps : ∀ p ∈ ps, OpOK "+" "addition" "subtraction" p ∧ (∃ cs', p.node = .rule "ttcterm" cs') ∧ VisitsTo c toks wf p.node p.val) :
    VisitsTo c toks wf (.rule "ttcexpr" (e0 :: flat ps)) (ps.foldl binStep l0) := by
  intro g up hg
  obtain ⟨g1, rfl, hg1⟩ := fuel_rule hg
  have hg0 := le_depthL (c := e0) List.mem_cons_self hg1
  rw [visitF_ttcexpr]
  have hr0 : isRule "ttcterm" e0 = true := by rw [he0]; rfl
  cases ps with
  | nil => rw [flat_nil, visitTtcexpr_one _ _ _ hr0]; exact h0 g1 _ hg0
  | cons p0 ps =>
    apply visitTtcexpr_many _ _ _ _ _ _ hr0
    · intro p hp
      obtain ⟨hop, ⟨cs', hcs'⟩, hv⟩ := hps p hp
      refine ⟨hop, by rw [hcs']; rfl, fun up' => hv g1 up' ?_⟩
      exact le_depthL (List.mem_cons_of_mem _ (mem_flat_node hp)) hg1
    · intro up'; exact h0 g1 up' hg0

/-! ### the tree builder against the model parser -/

/-- the tree builder and the model parser fail together; when they succeed they leave the same tokens and `Q` holds
of the tree, the model's value and the tokens left -/
def Tie {α β : Type} (tr : Option (α × List ITok)) (pr : Option (β × List Tok)) (Q : α → β → List ITok → Prop) : Prop :=
  match tr with
  | none => pr = none
  | some (t, irest) => ∃ e, pr = some (e, irest.map Prod.fst) ∧ Q t e irest

theorem tie_none {α β : Type} (pr : Option (β × List Tok)) (Q : α → β → List ITok → Prop) : Tie none pr Q ↔ pr = none := Iff.rfl
theorem tie_some {α β : Type} (t : α) (irest : List ITok) (pr : Option (β × List Tok)) (Q : α → β → List ITok → Prop) :
    Tie (some (t, irest)) pr Q ↔ ∃ e, pr = some (e, irest.map Prod.fst) ∧ Q t e irest := Iff.rfl

def QArgs (its : List ITok) (cs : List PT) (args : List String) (irest : List ITok) : Prop :=
  ∃ nts : List ITok, args = nts.map (fun t => tokText t.1) ∧ cs.filter (isRule "number") = nts.map numberNode ∧
    (∀ t ∈ nts, isNumTok t.1 = true ∧ t ∈ its) ∧ (∀ x ∈ irest, x ∈ its)

theorem numTok_of (t : Tok) (h : isNumTok t = true) : numTok t = some (tokText t) := by
  cases t <;> simp [isNumTok] at h <;> rfl
theorem numTok_not (t : Tok) (h : isNumTok t = false) : numTok t = none := by
  cases t <;> simp [isNumTok] at h <;> rfl

theorem args_tie : ∀ (f : Nat) (its : List ITok), Tie (treeArgs f its) (parseArgs f (its.map Prod.fst)) (QArgs its) := by
  intro f
  induction f with
  | zero => intro its; simp [treeArgs, parseArgs, Tie]
  | succ f ih =>
    intro its
    rcases its with _ | ⟨t, _ | ⟨⟨tk, i⟩, rest⟩⟩
    · simp [treeArgs, parseArgs, Tie]
    · simp [treeArgs, parseArgs, Tie]
    · cases tk
      case comma =>
        simp only [treeArgs, parseArgs, List.map_cons]
        cases hn : isNumTok t.1
        · simp [numTok_not _ hn, Tie]
        · simp only [numTok_of _ hn, if_true, Option.bind_some]
          have := ih rest
          cases hr : treeArgs f rest with
          | none => rw [hr] at this; simp [Tie] at this ⊢; simp [this]
          | some r =>
            obtain ⟨cs, irest⟩ := r
            rw [hr, tie_some] at this
            obtain ⟨args, hp, nts, rfl, hfil, hnts, hsuf⟩ := this
            simp only [Option.map_some, tie_some, hp]
            refine ⟨_, rfl, t :: nts, rfl, ?_, ?_, ?_⟩
            · simp [numberNode, isRule, leaf, hfil]
            · intro x hx
              rcases List.mem_cons.mp hx with rfl | hx
              · exact ⟨hn, List.mem_cons_self⟩
              · exact ⟨(hnts x hx).1, List.mem_cons_of_mem _ (List.mem_cons_of_mem _ (hnts x hx).2)⟩
            · intro x hx; exact List.mem_cons_of_mem _ (List.mem_cons_of_mem _ (hsuf x hx))
      case rparen =>
        simp only [treeArgs, parseArgs, List.map_cons]
        cases hn : isNumTok t.1
        · simp [numTok_not _ hn, Tie]
        · simp only [numTok_of _ hn, if_true, Option.map_some, tie_some]
          refine ⟨_, rfl, [t], rfl, ?_, ?_, ?_⟩
          · simp [numberNode, isRule, leaf]
          · intro x hx; simp at hx; subst hx; exact ⟨hn, List.mem_cons_self⟩
          · intro x hx; exact List.mem_cons_of_mem _ (List.mem_cons_of_mem _ hx)
      all_goals simp [treeArgs, parseArgs, Tie]


/-- of a node: it is a context of rule `r`, the tokens left are tokens of the input, and (numeric tokens being
fine) the visitor returns the rendering of the model's value -/
def QNode (r : String) (its : List ITok) (t : PT) (e : TTC) (irest : List ITok) : Prop :=
  (∃ cs, t = .rule r cs) ∧ (∀ x ∈ irest, x ∈ its) ∧ (NumOK its → VisitsTo c toks wf t e)

/-- of the children after the first operand: they are `(operator, operand)` pairs, the model folds them onto `acc` -/
def QLoop (sym yes no r : String) (its : List ITok) (acc : TTC) (cs : List PT) (e : TTC) (irest : List ITok) : Prop :=
  ∃ ps : List Opnd, cs = flat ps ∧ e = ps.foldl binStep acc ∧ (∀ x ∈ irest, x ∈ its) ∧
    ∀ p ∈ ps, OpOK sym yes no p ∧ (∃ cs', p.node = .rule r cs') ∧ (NumOK its → VisitsTo c toks wf p.node p.val)

theorem NumOK.sub {its its' : List ITok} (h : NumOK its) (hs : ∀ x ∈ its', x ∈ its) : NumOK its' :=
  fun x hx => h x (hs x hx)

theorem loop_nil (sym yes no r : String) (its irest : List ITok) (acc : TTC) (hs : ∀ x ∈ irest, x ∈ its) :
    QLoop c toks wf sym yes no r its acc [] acc irest :=
  ⟨[], rfl, rfl, hs, fun p hp => by cases hp⟩

theorem loop_cons {sym yes no r : String} {its rest rest' rest'' : List ITok} {acc ve : TTC} {opl e : PT} {name : String}
    {cs : List PT} {v : TTC}
    (hop : OpOK sym yes no ⟨opl, e, name, ve⟩)
    (h1 : QNode c toks wf r rest e ve rest') (h2 : QLoop c toks wf sym yes no r rest' (.bin name acc ve) cs v rest'')
    (hsub : ∀ x ∈ rest, x ∈ its) :
    QLoop c toks wf sym yes no r its acc (opl :: e :: cs) v rest'' := by
  obtain ⟨hr1, hs1, hv1⟩ := h1
  obtain ⟨ps, rfl, rfl, hs2, hps⟩ := h2
  refine ⟨⟨opl, e, name, ve⟩ :: ps, by rw [flat_cons], by rw [List.foldl_cons]; rfl, ?_, ?_⟩
  · intro x hx; exact hsub x (hs1 x (hs2 x hx))
  · intro p hp
    rcases List.mem_cons.mp hp with rfl | hp
    · exact ⟨hop, hr1, fun hn => hv1 (hn.sub hsub)⟩
    · obtain ⟨a, b, hv⟩ := hps p hp
      exact ⟨a, b, fun hn => hv (hn.sub (fun x hx => hsub x (hs1 x hx)))⟩

theorem term_of_loop {its rest rest' : List ITok} {e : PT} {ve v : TTC} {cs : List PT}
    (h1 : QNode c toks wf "ttcfact" its e ve rest)
    (h2 : QLoop c toks wf "*" "multiplication" "division" "ttcfact" rest ve cs v rest') :
    QNode c toks wf "ttcterm" its (.rule "ttcterm" (e :: cs)) v rest' := by
  obtain ⟨⟨fs, hr1⟩, hs1, hv1⟩ := h1
  obtain ⟨ps, rfl, rfl, hs2, hps⟩ := h2
  refine ⟨⟨_, rfl⟩, fun x hx => hs1 x (hs2 x hx), fun hn => ?_⟩
  apply vis_term c toks wf e fs ve ps hr1 (hv1 hn)
  intro p hp
  obtain ⟨a, b, hv⟩ := hps p hp
  exact ⟨a, b, hv (hn.sub hs1)⟩

theorem expr_of_loop {its rest rest' : List ITok} {e : PT} {ve v : TTC} {cs : List PT}
    (h1 : QNode c toks wf "ttcterm" its e ve rest)
    (h2 : QLoop c toks wf "+" "addition" "subtraction" "ttcterm" rest ve cs v rest') :
    QNode c toks wf "ttcexpr" its (.rule "ttcexpr" (e :: cs)) v rest' := by
  obtain ⟨⟨fs, hr1⟩, hs1, hv1⟩ := h1
  obtain ⟨ps, rfl, rfl, hs2, hps⟩ := h2
  refine ⟨⟨_, rfl⟩, fun x hx => hs1 x (hs2 x hx), fun hn => ?_⟩
  apply vis_expr c toks wf e fs ve ps hr1 (hv1 hn)
  intro p hp
  obtain ⟨a, b, hv⟩ := hps p hp
  exact ⟨a, b, hv (hn.sub hs1)⟩

def AtomP (f : Nat) : Prop :=
  ∀ its, Tie (treeTtcAtom f its) (parseTtcAtom f (its.map Prod.fst)) (QNode c toks wf "ttcatom" its)
def FactP (f : Nat) : Prop :=
  ∀ its, Tie (treeTtcFact f its) (parseTtcFact f (its.map Prod.fst)) (QNode c toks wf "ttcfact" its)
def TermLoopP (f : Nat) : Prop :=
  ∀ its acc, Tie (treeTtcTermLoop f its) (parseTtcTermLoop f acc (its.map Prod.fst))
    (QLoop c toks wf "*" "multiplication" "division" "ttcfact" its acc)
def TermP (f : Nat) : Prop :=
  ∀ its, Tie (treeTtcTerm f its) (parseTtcTerm f (its.map Prod.fst)) (QNode c toks wf "ttcterm" its)
def ExprLoopP (f : Nat) : Prop :=
  ∀ its acc, Tie (treeTtcExprLoop f its) (parseTtcExprLoop f acc (its.map Prod.fst))
    (QLoop c toks wf "+" "addition" "subtraction" "ttcterm" its acc)
def ExprP (f : Nat) : Prop :=
  ∀ its, Tie (treeTtcExpr f its) (parseTtcExpr f (its.map Prod.fst)) (QNode c toks wf "ttcexpr" its)

theorem atom_args_case (f : Nat) (n : String) (i j : Nat) (rest2 : List ITok) :
    Tie ((treeArgs f rest2).map (fun r => (PT.rule "ttcatom" [.rule "ttcdist" (leaf (.id n, i) :: leaf (.lparen, j) :: r.1)], r.2)))
      ((parseArgs f (rest2.map Prod.fst)).map (fun r => (TTC.func n r.1, r.2)))
      (QNode c toks wf "ttcatom" ((.id n, i) :: (.lparen, j) :: rest2)) := by
  have := args_tie f rest2
  cases h : treeArgs f rest2 with
  | none => rw [h, tie_none] at this; simp [this, Tie]
  | some r =>
    obtain ⟨cs, irest⟩ := r
    rw [h, tie_some] at this
    obtain ⟨args, hp, nts, rfl, hfil, hnts, hsuf⟩ := this
    simp only [Option.map_some, tie_some, hp]
    refine ⟨_, rfl, ⟨_, rfl⟩, fun x hx => List.mem_cons_of_mem _ (List.mem_cons_of_mem _ (hsuf x hx)), fun hn => ?_⟩
    exact vis_atom_args c toks wf n i j cs nts hfil
      (fun t ht => ⟨(hnts t ht).1, hn t (List.mem_cons_of_mem _ (List.mem_cons_of_mem _ (hnts t ht).2))⟩)

theorem atom_id_case (f : Nat) (n : String) (i : Nat) (rest : List ITok) :
    Tie (treeTtcAtom (f+1) ((.id n, i) :: rest)) (parseTtcAtom (f+1) (((.id n, i) :: rest : List ITok).map Prod.fst))
      (QNode c toks wf "ttcatom" ((.id n, i) :: rest)) := by
  have bare : QNode c toks wf "ttcatom" ((.id n, i) :: rest) (.rule "ttcatom" [.rule "ttcdist" [leaf (.id n, i)]]) (.func n []) rest :=
    ⟨⟨_, rfl⟩, fun x hx => List.mem_cons_of_mem _ hx, fun _ => vis_atom_bare c toks wf n i⟩
  rcases rest with _ | ⟨⟨tk2, j⟩, rest2⟩
  · simpa [treeTtcAtom, parseTtcAtom, tie_some] using bare
  cases tk2
  case lparen =>
    rcases rest2 with _ | ⟨⟨tk3, k⟩, rest3⟩
    · simp only [treeTtcAtom, parseTtcAtom, List.map_cons, List.map_nil]
      exact atom_args_case c toks wf f n i j []
    cases tk3
    case rparen =>
      simp only [treeTtcAtom, parseTtcAtom, List.map_cons, tie_some]
      refine ⟨_, rfl, ⟨_, rfl⟩, fun x hx => List.mem_cons_of_mem _ (List.mem_cons_of_mem _ (List.mem_cons_of_mem _ hx)), fun _ => ?_⟩
      exact vis_atom_args c toks wf n i j [leaf (.rparen, k)] [] rfl (fun t ht => by cases ht)
    all_goals
      simp only [treeTtcAtom, parseTtcAtom, List.map_cons]
      exact atom_args_case c toks wf f n i j _
  all_goals simpa [treeTtcAtom, parseTtcAtom, tie_some] using bare

theorem atom_step (f : Nat) (hE : ExprP c toks wf f) : AtomP c toks wf (f+1) := by
  intro its
  rcases its with _ | ⟨⟨tk, i⟩, rest⟩
  · simp [treeTtcAtom, parseTtcAtom, Tie]
  cases tk
  case id n => exact atom_id_case c toks wf f n i rest
  case int s =>
    simp only [treeTtcAtom, parseTtcAtom, List.map_cons, tie_some]
    exact ⟨_, rfl, ⟨_, rfl⟩, fun x hx => List.mem_cons_of_mem _ hx,
      fun hn => vis_atom_number c toks wf (.int s, i) rfl (hn _ List.mem_cons_self)⟩
  case float s =>
    simp only [treeTtcAtom, parseTtcAtom, List.map_cons, tie_some]
    exact ⟨_, rfl, ⟨_, rfl⟩, fun x hx => List.mem_cons_of_mem _ hx,
      fun hn => vis_atom_number c toks wf (.float s, i) rfl (hn _ List.mem_cons_self)⟩
  case lparen =>
    simp only [treeTtcAtom, parseTtcAtom, List.map_cons]
    have hE' := hE rest
    cases h : treeTtcExpr f rest with
    | none => rw [h, tie_none] at hE'; simp [hE', Tie]
    | some r =>
      obtain ⟨e, irest⟩ := r
      rw [h, tie_some] at hE'
      obtain ⟨ve, hp, ⟨es, rfl⟩, hsuf, hv⟩ := hE'
      rcases irest with _ | ⟨⟨tk2, j⟩, rest'⟩
      · simp [hp, Tie]
      cases tk2
      case rparen =>
        simp only [hp, List.map_cons, tie_some]
        refine ⟨_, rfl, ⟨_, rfl⟩, fun x hx => List.mem_cons_of_mem _ (hsuf x (List.mem_cons_of_mem _ hx)), fun hn => ?_⟩
        exact vis_atom_paren c toks wf i j es ve (hv (hn.sub (fun x hx => List.mem_cons_of_mem _ hx)))
      all_goals simp [hp, Tie]
  all_goals simp [treeTtcAtom, parseTtcAtom, Tie]

theorem fact_step (f : Nat) (hA : AtomP c toks wf f) : FactP c toks wf (f+1) := by
  intro its
  simp only [treeTtcFact, parseTtcFact]
  have hA' := hA its
  cases h : treeTtcAtom f its with
  | none => rw [h, tie_none] at hA'; simp [hA', Tie]
  | some r =>
    obtain ⟨a, irest⟩ := r
    rw [h, tie_some] at hA'
    obtain ⟨va, hp, ⟨as, rfl⟩, hsuf, hv⟩ := hA'
    have one : QNode c toks wf "ttcfact" its (.rule "ttcfact" [.rule "ttcatom" as]) va irest :=
      ⟨⟨_, rfl⟩, hsuf, fun hn => vis_fact_one c toks wf as va (hv hn)⟩
    rcases irest with _ | ⟨⟨tk, i⟩, rest⟩
    · simpa [hp, tie_some] using one
    cases tk
    case power =>
      simp only [hp, List.map_cons]
      have hA2 := hA rest
      cases h2 : treeTtcAtom f rest with
      | none => rw [h2, tie_none] at hA2; simp [hA2, Tie]
      | some r2 =>
        obtain ⟨b, irest2⟩ := r2
        rw [h2, tie_some] at hA2
        obtain ⟨vb, hp2, ⟨bs, rfl⟩, hsuf2, hv2⟩ := hA2
        simp only [hp2, Option.map_some, tie_some]
        have hsub : ∀ x ∈ rest, x ∈ its := fun x hx => hsuf x (List.mem_cons_of_mem _ hx)
        refine ⟨_, rfl, ⟨_, rfl⟩, fun x hx => hsub x (hsuf2 x hx), fun hn => ?_⟩
        exact vis_fact_pow c toks wf as bs i va vb (hv hn) (hv2 (hn.sub hsub))
    all_goals simpa [hp, tie_some] using one

theorem termloop_step (f : Nat) (hF : FactP c toks wf f) (hL : TermLoopP c toks wf f) : TermLoopP c toks wf (f+1) := by
  intro its acc
  have nil : QLoop c toks wf "*" "multiplication" "division" "ttcfact" its acc [] acc its := loop_nil c toks wf _ _ _ _ _ _ _ (fun x hx => hx)
  have main : ∀ (tk : Tok) (name : String) (i : Nat) (rest : List ITok), its = (tk, i) :: rest →
      OpOK "*" "multiplication" "division" ⟨leaf (tk, i), leaf (tk, i), name, acc⟩ →
      Tie (match treeTtcFact f rest with
          | some (e, rest') =>
            match treeTtcTermLoop f rest' with
            | some (cs, rest'') => some (leaf (tk, i) :: e :: cs, rest'')
            | none => none
          | none => none)
        (match parseTtcFact f (rest.map Prod.fst) with
          | some (e, rest') => parseTtcTermLoop f (.bin name acc e) rest'
          | none => none)
        (QLoop c toks wf "*" "multiplication" "division" "ttcfact" its acc) := by
    intro tk name i rest hits hop
    have hF' := hF rest
    cases h : treeTtcFact f rest with
    | none => rw [h, tie_none] at hF'; simp [hF', Tie]
    | some r =>
      obtain ⟨e, rest'⟩ := r
      rw [h, tie_some] at hF'
      obtain ⟨ve, hp, hq⟩ := hF'
      have hL' := hL rest' (.bin name acc ve)
      simp only [hp]
      cases h2 : treeTtcTermLoop f rest' with
      | none => rw [h2, tie_none] at hL'; simp [hL', Tie]
      | some r2 =>
        obtain ⟨cs, rest''⟩ := r2
        rw [h2, tie_some] at hL'
        obtain ⟨v, hp2, hq2⟩ := hL'
        simp only [hp2, tie_some]
        refine ⟨_, rfl, loop_cons c toks wf ?_ hq hq2 (by rw [hits]; exact fun x hx => List.mem_cons_of_mem _ hx)⟩
        obtain ⟨ty, txt, k, h1, h2⟩ := hop
        exact ⟨ty, txt, k, h1, h2⟩
  rcases its with _ | ⟨⟨tk, i⟩, rest⟩
  · simpa [treeTtcTermLoop, parseTtcTermLoop, tie_some] using nil
  cases tk
  case star =>
    simp only [treeTtcTermLoop, parseTtcTermLoop, List.map_cons]
    exact main .star "multiplication" i rest rfl ⟨"STAR", "*", i, rfl, rfl⟩
  case divide =>
    simp only [treeTtcTermLoop, parseTtcTermLoop, List.map_cons]
    exact main .divide "division" i rest rfl ⟨"DIVIDE", "/", i, rfl, rfl⟩
  all_goals simpa [treeTtcTermLoop, parseTtcTermLoop, tie_some] using nil

theorem term_step (f : Nat) (hF : FactP c toks wf f) (hL : TermLoopP c toks wf f) : TermP c toks wf (f+1) := by
  intro its
  simp only [treeTtcTerm, parseTtcTerm]
  have hF' := hF its
  cases h : treeTtcFact f its with
  | none => rw [h, tie_none] at hF'; simp [hF', Tie]
  | some r =>
    obtain ⟨e, rest⟩ := r
    rw [h, tie_some] at hF'
    obtain ⟨ve, hp, hq⟩ := hF'
    have hL' := hL rest ve
    simp only [hp]
    cases h2 : treeTtcTermLoop f rest with
    | none => rw [h2, tie_none] at hL'; simp [hL', Tie]
    | some r2 =>
      obtain ⟨cs, rest'⟩ := r2
      rw [h2, tie_some] at hL'
      obtain ⟨v, hp2, hq2⟩ := hL'
      simp only [hp2, tie_some]
      exact ⟨_, rfl, term_of_loop c toks wf hq hq2⟩

theorem exprloop_step (f : Nat) (hF : TermP c toks wf f) (hL : ExprLoopP c toks wf f) : ExprLoopP c toks wf (f+1) := by
  intro its acc
  have nil : QLoop c toks wf "+" "addition" "subtraction" "ttcterm" its acc [] acc its := loop_nil c toks wf _ _ _ _ _ _ _ (fun x hx => hx)
  have main : ∀ (tk : Tok) (name : String) (i : Nat) (rest : List ITok), its = (tk, i) :: rest →
      OpOK "+" "addition" "subtraction" ⟨leaf (tk, i), leaf (tk, i), name, acc⟩ →
      Tie (match treeTtcTerm f rest with
          | some (e, rest') =>
            match treeTtcExprLoop f rest' with
            | some (cs, rest'') => some (leaf (tk, i) :: e :: cs, rest'')
            | none => none
          | none => none)
        (match parseTtcTerm f (rest.map Prod.fst) with
          | some (e, rest') => parseTtcExprLoop f (.bin name acc e) rest'
          | none => none)
        (QLoop c toks wf "+" "addition" "subtraction" "ttcterm" its acc) := by
    intro tk name i rest hits hop
    have hF' := hF rest
    cases h : treeTtcTerm f rest with
    | none => rw [h, tie_none] at hF'; simp [hF', Tie]
    | some r =>
      obtain ⟨e, rest'⟩ := r
      rw [h, tie_some] at hF'
      obtain ⟨ve, hp, hq⟩ := hF'
      have hL' := hL rest' (.bin name acc ve)
      simp only [hp]
      cases h2 : treeTtcExprLoop f rest' with
      | none => rw [h2, tie_none] at hL'; simp [hL', Tie]
      | some r2 =>
        obtain ⟨cs, rest''⟩ := r2
        rw [h2, tie_some] at hL'
        obtain ⟨v, hp2, hq2⟩ := hL'
        simp only [hp2, tie_some]
        refine ⟨_, rfl, loop_cons c toks wf ?_ hq hq2 (by rw [hits]; exact fun x hx => List.mem_cons_of_mem _ hx)⟩
        obtain ⟨ty, txt, k, h1, h2⟩ := hop
        exact ⟨ty, txt, k, h1, h2⟩
  rcases its with _ | ⟨⟨tk, i⟩, rest⟩
  · simpa [treeTtcExprLoop, parseTtcExprLoop, tie_some] using nil
  cases tk
  case plus =>
    simp only [treeTtcExprLoop, parseTtcExprLoop, List.map_cons]
    exact main .plus "addition" i rest rfl ⟨"PLUS", "+", i, rfl, rfl⟩
  case minus =>
    simp only [treeTtcExprLoop, parseTtcExprLoop, List.map_cons]
    exact main .minus "subtraction" i rest rfl ⟨"MINUS", "-", i, rfl, rfl⟩
  all_goals simpa [treeTtcExprLoop, parseTtcExprLoop, tie_some] using nil

theorem expr_step (f : Nat) (hF : TermP c toks wf f) (hL : ExprLoopP c toks wf f) : ExprP c toks wf (f+1) := by
  intro its
  simp only [treeTtcExpr, parseTtcExpr]
  have hF' := hF its
  cases h : treeTtcTerm f its with
  | none => rw [h, tie_none] at hF'; simp [hF', Tie]
  | some r =>
    obtain ⟨e, rest⟩ := r
    rw [h, tie_some] at hF'
    obtain ⟨ve, hp, hq⟩ := hF'
    have hL' := hL rest ve
    simp only [hp]
    cases h2 : treeTtcExprLoop f rest with
    | none => rw [h2, tie_none] at hL'; simp [hL', Tie]
    | some r2 =>
      obtain ⟨cs, rest'⟩ := r2
      rw [h2, tie_some] at hL'
      obtain ⟨v, hp2, hq2⟩ := hL'
      simp only [hp2, tie_some]
      exact ⟨_, rfl, expr_of_loop c toks wf hq hq2⟩

/-- all six functions of the mutual block, by induction on the fuel -/
theorem ttc_all (f : Nat) :
    AtomP c toks wf f ∧ FactP c toks wf f ∧ TermLoopP c toks wf f ∧ TermP c toks wf f ∧ ExprLoopP c toks wf f ∧ ExprP c toks wf f := by
  induction f with
  | zero =>
    refine ⟨?_, ?_, ?_, ?_, ?_, ?_⟩
    · intro its; simp [treeTtcAtom, parseTtcAtom, Tie]
    · intro its; simp [treeTtcFact, parseTtcFact, Tie]
    · intro its acc; simp [treeTtcTermLoop, parseTtcTermLoop, Tie]
    · intro its; simp [treeTtcTerm, parseTtcTerm, Tie]
    · intro its acc; simp [treeTtcExprLoop, parseTtcExprLoop, Tie]
    · intro its; simp [treeTtcExpr, parseTtcExpr, Tie]
  | succ f ih =>
    obtain ⟨hA, hF, hTL, hT, hEL, hE⟩ := ih
    exact ⟨atom_step c toks wf f hE, fact_step c toks wf f hA, termloop_step c toks wf f hF hTL, term_step c toks wf f hF hTL,
      exprloop_step c toks wf f hT hEL, expr_step c toks wf f hT hEL⟩

/-- the tree builder fails only when the model parser does -/
theorem ttcexpr_none (f : Nat) (its : List ITok) (h : treeTtcExpr f its = none) : parseTtcExpr f (its.map Prod.fst) = none := by
  have := (ttc_all (fun _ => .ok .none) [] 0 f).2.2.2.2.2 its
  rw [h, tie_none] at this
  exact this

/-- the tree builder and the model parser consume the same tokens, and the translated visitor on the tree returns the
rendering of the model's value, for every recursion budget `g ≥ depth` -/
theorem ttcexpr_tie (c : V → M V) (toks : List V) (wf : Nat) (f : Nat) (its : List ITok) (t : PT) (irest : List ITok)
    (hnum : ∀ x ∈ its, numOK x.1 = true) (h : treeTtcExpr f its = some (t, irest)) :
    ∃ e, parseTtcExpr f (its.map Prod.fst) = some (e, irest.map Prod.fst) ∧
      ∀ g up, t.depth ≤ g → visitF c toks wf g (.ctx t up) = .ok (rTtc e) := by
  have := (ttc_all c toks wf f).2.2.2.2.2 its
  rw [h, tie_some] at this
  obtain ⟨e, hp, -, -, hv⟩ := this
  exact ⟨e, hp, hv hnum⟩

/-- what is left is part of the input, and the tree is a `ttcexpr` context -/
theorem ttcexpr_shape (f : Nat) (its : List ITok) (t : PT) (irest : List ITok) (h : treeTtcExpr f its = some (t, irest)) :
    isRule "ttcexpr" t = true ∧ ∀ x ∈ irest, x ∈ its := by
  have := (ttc_all (fun _ => .ok .none) [] 0 f).2.2.2.2.2 its
  rw [h, tie_some] at this
  obtain ⟨e, hp, ⟨cs, rfl⟩, hs, -⟩ := this
  exact ⟨rfl, hs⟩

end MalVerif.Py.Visitor
