import MalVerif.Py.TieVisitorResolve
import MalVerif.Py.TieVisitorLeaves
/-!
# Inside a `reaches` clause the translated `_resolve_part_ID_type` classifies as the model does

`reaches_agree`: let the tokens of a file be `all = front ++ ts`, let `treeExprList` consume a prefix of `ts` (indexed
from `front.length`) and build the children `cs`, and let what follows be the end of the input or a token that ends a
clause (the next step, `let`, `}`).  Then for every ID token of the consumed part, the model's classification
`!dotAhead (everything after the ID)` equals `stepAt (node :: up) (tokensV all) i`, what the translated
`_resolve_part_ID_type` computes under a `reaches` node whose last token is the last consumed token.
-/
namespace MalVerif.Py.Visitor
open MalVerif.Mal MalVerif.Py.GenVisitor

theorem isExprTok_eq (t : Tok) : isExprTok t = exprTok t := by cases t <;> rfl

/-- splitting a list two ways: the longer front part extends the shorter one -/
theorem split_two {α : Type} {a b c d : List α} (h : a ++ b = c ++ d) (hl : c.length ≤ a.length) :
    ∃ e, a = c ++ e ∧ d = e ++ b := by
  induction c generalizing a with
  | nil => exact ⟨a, by simp, by simpa using h.symm⟩
  | cons x c ih =>
    cases a with
    | nil => simp at hl
    | cons y a =>
      simp only [List.cons_append, List.cons.injEq] at h
      obtain ⟨rfl, h⟩ := h
      obtain ⟨e, rfl, rfl⟩ := ih h (by simpa using hl)
      exact ⟨e, by simp, rfl⟩

theorem reaches_agree (all front ts : List Tok) (hall : all = front ++ ts)
    (cs : List PT) (irest : List ITok) (hc : Consumed (ts.zipIdx front.length) cs irest)
    (hend : irest.map Prod.fst = [] ∨ ∃ t r, irest.map Prod.fst = t :: r ∧ endsClause t = true)
    (node : PT) (up : List PT) (hn : isRule "reaches" node = true) (hlast : node.last = PT.lastL cs) :
    ∀ n i r, (Tok.id n, i) :: r <:+ ts.zipIdx front.length → irest.length ≤ r.length →
      (true && !dotAhead (r.map Prod.fst)) = stepAt (node :: up) (tokensV all) i := by
  intro n i r hsuf hlen
  obtain ⟨pre, hsplit, hleaves, hexpr⟩ := hc
  obtain ⟨s0, hs0⟩ := hsuf
  -- pre = s0 ++ (id n, i) :: r', r = r' ++ irest
  have hlen2 : (s0 ++ [(Tok.id n, i)]).length ≤ pre.length := by
    have := congrArg List.length (hs0.trans hsplit)
    simp only [List.length_append, List.length_cons, List.length_nil] at this ⊢
    omega
  have hs0' : pre ++ irest = (s0 ++ [(Tok.id n, i)]) ++ r := by rw [← hsplit, ← hs0]; simp
  obtain ⟨r', hpre, hr⟩ := split_two hs0' hlen2
  -- the tokens themselves
  have hts : ts = (pre ++ irest).map Prod.fst := by rw [← hsplit, List.zipIdx_map_fst]
  have hidx : ∀ m (x : ITok), (ts.zipIdx front.length)[m]? = some x → x.2 = front.length + m ∧ ts[m]? = some x.1 := by
    intro m x hx
    rw [List.getElem?_zipIdx] at hx
    cases hm : ts[m]? with
    | none => simp [hm] at hx
    | some tk => simp only [hm, Option.map_some, Option.some.injEq] at hx; subst hx; exact ⟨rfl, rfl⟩
  have hall_get : ∀ m, all[front.length + m]? = ts[m]? := by
    intro m; rw [hall, List.getElem?_append_right (by omega)]; congr 1; omega
  -- position of the ID
  have hi0 : (ts.zipIdx front.length)[s0.length]? = some (Tok.id n, i) := by
    rw [← hs0]; simp
  obtain ⟨hi, htsi⟩ := hidx _ _ hi0
  simp only at hi htsi
  -- lengths
  have hpre_len : pre.length = s0.length + 1 + r'.length := by rw [hpre]; simp; omega
  have hprelen : 0 < pre.length := by omega
  have hlen_ts : ts.length = pre.length + irest.length := by rw [hts]; simp
  have hall_len : all.length = front.length + ts.length := by rw [hall]; simp
  -- j: the index of the last consumed token
  have hne : pre ≠ [] := by intro h; simp [h] at hprelen
  have hlast_pre : (PT.leavesL cs).getLast? = some (leaf (pre.getLast hne)) := by
    rw [hleaves, List.getLast?_map, List.getLast?_eq_some_getLast hne]
    rfl
  have hpl : (ts.zipIdx front.length)[pre.length - 1]? = some (pre.getLast hne) := by
    rw [hsplit, List.getElem?_append_left (by omega), List.getLast_eq_getElem]
    simp
  obtain ⟨hj, _⟩ := hidx _ _ hpl
  have hstop : reachStop (node :: up) = some (front.length + pre.length - 1) := by
    simp only [reachStop, hn, if_true, hlast, lastL_eq_leaves, hlast_pre, Option.map_some, leaf, tokIdx]
    congr 1
    rw [hj]; omega
  -- the token lists after the ID and after the clause
  have hts_split : ts = (s0.map Prod.fst ++ [Tok.id n]) ++ r.map Prod.fst := by
    rw [hts, hs0']; simp
  have hrmap : r.map Prod.fst = all.drop (i + 1) := by
    rw [hall, hi, hts_split]
    have : front.length + s0.length + 1 = (front ++ (s0.map Prod.fst ++ [Tok.id n])).length := by simp; omega
    rw [← List.append_assoc, this, List.drop_left]
  have hafter : irest.map Prod.fst = all.drop (front.length + pre.length - 1 + 1) := by
    rw [hall, hts, List.map_append, ← List.append_assoc]
    have : front.length + pre.length - 1 + 1 = (front ++ pre.map Prod.fst).length := by simp; omega
    rw [this, List.drop_left]
  rw [Bool.true_and, hrmap]
  symm
  apply stepAt_dotAhead (node :: up) all i (front.length + pre.length - 1) hstop
  · omega
  · omega
  · exact ⟨n, by rw [hi, hall_get]; exact htsi⟩
  · intro m hm1 hm2
    -- the token at position m of the file is the (m - front.length)-th consumed token
    have hm : m - front.length < pre.length := by omega
    have hx : (ts.zipIdx front.length)[m - front.length]? = some (pre[m - front.length]) := by
      rw [hsplit, List.getElem?_append_left hm]; simp
    obtain ⟨_, hx2⟩ := hidx _ _ hx
    refine ⟨pre[m - front.length].1, ?_, ?_⟩
    · have := hall_get (m - front.length)
      rw [show front.length + (m - front.length) = m by omega] at this
      rw [this]; exact hx2
    · rw [← isExprTok_eq]; exact hexpr _ (List.getElem_mem hm)
  · rw [← hafter]; exact hend

end MalVerif.Py.Visitor
