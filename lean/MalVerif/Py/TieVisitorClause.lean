import MalVerif.Py.TieVisitorResolve
import MalVerif.Py.TieVisitorLeaves
/-!
# Inside a `reaches` clause the translated `_resolve_part_ID_type` classifies as the model does

`reaches_agree`: let the tokens of a file be `all = front ++ ts`, let `treeExprList` consume a prefix of `ts` (indexed
from `front.length`) and build the children `cs`, and let what follows be the end of the input or a token that ends a
clause (the next step, `let`, `}`).  Then for every ID token of the consumed part, the model's classification
`!dotAhead (everything after the ID)` equals `stepAt (node :: up) (tokensV all) i`, what the translated
`_resolve_part_ID_type` computes under a `reaches` node whose last token is the last consumed token.
-/
namespace MalVerif.Py.Visitor
open MalVerif.Mal MalVerif.Py.GenVisitor

theorem isExprTok_eq (t : Tok) : isExprTok t = exprTok t := by cases t <;> rfl

/-- splitting a list two ways: the longer front part extends the shorter one -/
theorem split_two {α : Type} {a b c d : List α} (h : a ++ b = c ++ d) (hl : c.length ≤ a.length) :
    ∃ e, a = c ++ e ∧ d = e ++ b := by
  induction c generalizing a with
  | nil => exact ⟨a, by simp, by simpa using h.symm⟩
  | cons x c ih =>
    cases a with
    | nil => simp at hl
    | cons y a =>
      simp only [List.cons_append, List.cons.injEq] at h
      obtain ⟨rfl, h⟩ := h
      obtain ⟨e, rfl, rfl⟩ := ih h (by simpa using hl)
      exact ⟨e, by simp, rfl⟩

theorem reaches_agree (all front ts : List Tok) (hall : all = front ++ ts)
    (cs : List PT) (irest : List ITok) (hc : Consumed (ts.zipIdx front.length) cs irest)
    (hend : irest.map Prod.fst = [] ∨ ∃ t r, irest.map Prod.fst = t :: r ∧ endsClause t = true)
    (node : PT) (up : List PT) (hn : isRule "reaches" node = true)
    (hlast : ∀ t, PT.lastL cs = some t → node.last = some t) :
    ∀ n i r, (Tok.id n, i) :: r <:+ ts.zipIdx front.length → irest.length ≤ r.length →
      (true && !dotAhead (r.map Prod.fst)) = stepAt (node :: up) (tokensV all) i := by
  intro n i r hsuf hlen
  obtain ⟨pre, hsplit, hleaves, hexpr⟩ := hc
  obtain ⟨s0, hs0⟩ := hsuf
  -- pre = s0 ++ (id n, i) :: r', r = r' ++ irest
  have hlen2 : (s0 ++ [(Tok.id n, i)]).length ≤ pre.length := by
    have := congrArg List.length (hs0.trans hsplit)
    simp only [List.length_append, List.length_cons, List.length_nil] at this ⊢
    omega
  have hs0' : pre ++ irest = (s0 ++ [(Tok.id n, i)]) ++ r := by rw [← hsplit, ← hs0]; simp
  obtain ⟨r', hpre, hr⟩ := split_two hs0' hlen2
  -- the tokens themselves
  have hts : ts = (pre ++ irest).map Prod.fst := by rw [← hsplit, List.zipIdx_map_fst]
  have hidx : ∀ m (x : ITok), (ts.zipIdx front.length)[m]? = some x → x.2 = front.length + m ∧ ts[m]? = some x.1 := by
    intro m x hx
    rw [List.getElem?_zipIdx] at hx
    cases hm : ts[m]? with
    | none => simp [hm] at hx
    | some tk => simp only [hm, Option.map_some, Option.some.injEq] at hx; subst hx; exact ⟨rfl, rfl⟩
  have hall_get : ∀ m, all[front.length + m]? = ts[m]? := by
    intro m; rw [hall, List.getElem?_append_right (by omega)]; congr 1; omega
  -- position of the ID
  have hi0 : (ts.zipIdx front.length)[s0.length]? = some (Tok.id n, i) := by
    rw [← hs0]; simp
  obtain ⟨hi, htsi⟩ := hidx _ _ hi0
  simp only at hi htsi
  -- lengths
  have hpre_len : pre.length = s0.length + 1 + r'.length := by rw [hpre]; simp; omega
  have hprelen : 0 < pre.length := by omega
  have hlen_ts : ts.length = pre.length + irest.length := by rw [hts]; simp
  have hall_len : all.length = front.length + ts.length := by rw [hall]; simp
  -- j: the index of the last consumed token
  have hne : pre ≠ [] := by intro h; simp [h] at hprelen
  have hlast_pre : (PT.leavesL cs).getLast? = some (leaf (pre.getLast hne)) := by
    rw [hleaves, List.getLast?_map, List.getLast?_eq_some_getLast hne]
    rfl
  have hpl : (ts.zipIdx front.length)[pre.length - 1]? = some (pre.getLast hne) := by
    rw [hsplit, List.getElem?_append_left (by omega), List.getLast_eq_getElem]
    simp
  obtain ⟨hj, _⟩ := hidx _ _ hpl
  have hstop : reachStop (node :: up) = some (front.length + pre.length - 1) := by
    have hl2 : node.last = some (leaf (pre.getLast hne)) := hlast _ (by rw [lastL_eq_leaves, hlast_pre])
    simp only [reachStop, hn, if_true, hl2, Option.map_some, leaf, tokIdx]
    congr 1
    rw [hj]; omega
  -- the token lists after the ID and after the clause
  have hts_split : ts = (s0.map Prod.fst ++ [Tok.id n]) ++ r.map Prod.fst := by
    rw [hts, hs0']; simp
  have hrmap : r.map Prod.fst = all.drop (i + 1) := by
    rw [hall, hi, hts_split]
    have : front.length + s0.length + 1 = (front ++ (s0.map Prod.fst ++ [Tok.id n])).length := by simp; omega
    rw [← List.append_assoc, this, List.drop_left]
  have hafter : irest.map Prod.fst = all.drop (front.length + pre.length - 1 + 1) := by
    rw [hall, hts, List.map_append, ← List.append_assoc]
    have : front.length + pre.length - 1 + 1 = (front ++ pre.map Prod.fst).length := by simp; omega
    rw [this, List.drop_left]
  rw [Bool.true_and, hrmap]
  symm
  apply stepAt_dotAhead (node :: up) all i (front.length + pre.length - 1) hstop
  · omega
  · omega
  · exact ⟨n, by rw [hi, hall_get]; exact htsi⟩
  · intro m hm1 hm2
    -- the token at position m of the file is the (m - front.length)-th consumed token
    have hm : m - front.length < pre.length := by omega
    have hx : (ts.zipIdx front.length)[m - front.length]? = some (pre[m - front.length]) := by
      rw [hsplit, List.getElem?_append_left hm]; simp
    obtain ⟨_, hx2⟩ := hidx _ _ hx
    refine ⟨pre[m - front.length].1, ?_, ?_⟩
    · have := hall_get (m - front.length)
      rw [show front.length + (m - front.length) = m by omega] at this
      rw [this]; exact hx2
    · rw [← isExprTok_eq]; exact hexpr _ (List.getElem_mem hm)
  · rw [← hafter]; exact hend


/-! ### every expression consumes at least one token -/

theorem part_pos (f : Nat) (its : List ITok) (t : PT) (irest : List ITok) (h : treePart f its = some (t, irest)) :
    irest.length < its.length := by
  cases f with
  | zero => simp [treePart] at h
  | succ f =>
    unfold treePart at h
    split at h
    · rename_i i rest
      split at h
      · rename_i e j rest' he
        simp only [Option.some.injEq, Prod.mk.injEq] at h
        obtain ⟨_, rfl⟩ := h
        have h1 := (consumed_expr f _ _ _ he).suffix.length_le
        have h2 := (consumed_suffix f rest').suffix.length_le
        simp only [List.length_cons] at h1 ⊢
        omega
      · cases h
    · rename_i n i j k rest
      simp only [Option.some.injEq, Prod.mk.injEq] at h
      obtain ⟨_, rfl⟩ := h
      have h2 := (consumed_suffix f rest).suffix.length_le
      simp only [List.length_cons]; omega
    · rename_i n i rest _
      simp only [Option.some.injEq, Prod.mk.injEq] at h
      obtain ⟨_, rfl⟩ := h
      have h2 := (consumed_suffix f rest).suffix.length_le
      simp only [List.length_cons]; omega
    · cases h

theorem expr_pos (f : Nat) (its : List ITok) (t : PT) (irest : List ITok) (h : treeExpr f its = some (t, irest)) :
    irest.length < its.length := by
  cases f with
  | zero => simp [treeExpr] at h
  | succ f =>
    unfold treeExpr at h
    split at h
    · rename_i p rest hp
      split at h
      · rename_i cs rest' hl
        simp only [Option.some.injEq, Prod.mk.injEq] at h
        obtain ⟨_, rfl⟩ := h
        have h2 := ((consumed_expr_all f).2.2.2.1 _ _ _ hl).suffix.length_le
        cases f with
        | zero => simp [treeParts] at hp
        | succ f =>
          unfold treeParts at hp
          split at hp
          · rename_i q rest0 hq
            split at hp
            · rename_i cs0 rest1 hl0
              simp only [Option.some.injEq, Prod.mk.injEq] at hp
              obtain ⟨_, rfl⟩ := hp
              have h3 := part_pos f _ _ _ hq
              have h4 := ((consumed_expr_all f).2.1 _ _ _ hl0).suffix.length_le
              omega
            · cases hp
          · cases hp
      · cases h
    · cases h

theorem exprlist_pos (f : Nat) (its : List ITok) (cs : List PT) (irest : List ITok) (h : treeExprList f its = some (cs, irest)) :
    irest.length < its.length := by
  cases f with
  | zero => simp [treeExprList] at h
  | succ f =>
    unfold treeExprList at h
    split at h
    · rename_i e i rest he
      cases hl : treeExprList f rest with
      | none => simp [hl] at h
      | some r =>
        simp only [hl, Option.map_some, Option.some.injEq, Prod.mk.injEq] at h
        obtain ⟨_, rfl⟩ := h
        have h1 := expr_pos f _ _ _ he
        have h2 := (consumed_exprlist f rest r.1 r.2 (by rw [hl])).suffix.length_le
        simp only [List.length_cons] at h1
        omega
    · rename_i e rest _ he
      simp only [Option.some.injEq, Prod.mk.injEq] at h
      obtain ⟨_, rfl⟩ := h
      exact expr_pos f _ _ _ he
    · cases h

/-! ### the clause-level methods: `visitPrecondition`, `visitReaches`, `visitVariable` -/

theorem bind_eq {α β : Type} (x : M α) (f : α → M β) : (x >>= f) = x.bind f := rfl
theorem pure_ok {α : Type} (a : α) : (pure a : M α) = Except.ok a := rfl
theorem ok_bind2 {α β : Type} (a : α) (f : α → M β) : Except.bind (Except.ok a : M α) f = f a := rfl
theorem err_bind {α β : Type} (e : Err) (f : α → M β) : Except.bind (Except.error e : M α) f = Except.error e := rfl

/-- a list comprehension `[visit(x) for x in l]` -/
theorem forIn_listcomp (visit : V → M V) : ∀ (l : List V) (acc : List V),
    (forIn l (V.list acc) fun x s =>
      (visit x).bind fun v => (pyAppend s v).bind fun v => Except.ok (ForInStep.yield v)) =
    (l.mapM visit).bind fun vs => (Except.ok (V.list (acc ++ vs)) : M V)
  | [], acc => by simp [pure_ok, ok_bind2]
  | x :: l, acc => by
    rw [List.forIn_cons, List.mapM_cons]
    cases hv : visit x with
    | error e => simp [bind_eq, err_bind]
    | ok v =>
      have hp : pyAppend (V.list acc) v = Except.ok (V.list (acc ++ [v])) := rfl
      simp only [bind_eq, ok_bind2, hp]
      rw [forIn_listcomp visit l (acc ++ [v])]
      cases l.mapM visit with
      | error e => rfl
      | ok vs => simp [ok_bind2, pure_ok]

theorem visitPrecondition_of (c : V → M V) (toks : List V) (wf g : Nat) (i : Nat) (cs up : List PT) (es : List Expr)
    (hvis : (cs.filter (isRule "expr")).mapM
        (fun e => visitF c toks wf g (.ctx e (PT.rule "precondition" (leaf (Tok.requires, i) :: cs) :: up))) = .ok (es.map rExpr)) :
    visitF c toks wf (g+1) (.ctx (.rule "precondition" (leaf (Tok.requires, i) :: cs)) up) = .ok (rExprs true es) := by
  rw [visitF_precondition]
  unfold visitPrecondition
  simp only [ctxAcc_eq acc_precondition_expr, runAcc, pyDict, pySetItem, keyOf, List.mapM_nil, dictPutAll, List.foldl_nil,
    bind_eq, pure_ok, ok_bind2, pyIter, PT.children]
  rw [forIn_listcomp]
  have hf : List.filter (isRule "expr") (leaf (Tok.requires, i) :: cs) = cs.filter (isRule "expr") := by
    simp [leaf, isRule]
  rw [hf, List.mapM_map]
  simp only [mkCtx, Function.comp_def] at *
  rw [hvis]
  simp [rExprs, dictPut, ok_bind2]


theorem filter_tok_children {cs : List PT} (hcs : ∀ x ∈ cs, isRule "expr" x = true ∨ isTok "COMMA" x = true) (t : String)
    (ht : t ≠ "COMMA") : cs.filter (isTok t) = [] := by
  rw [List.filter_eq_nil_iff]
  intro x hx
  rcases hcs x hx with h | h
  · cases x <;> simp_all [isRule, isTok]
  · cases x with
    | rule => simp [isTok] at h
    | tok ty _ _ =>
      simp only [isTok, beq_iff_eq] at h ⊢
      subst h
      intro h2
      exact ht h2.symm

/-- `visitReaches` on a `reaches` node built from an arrow token and the children of `treeExprList` -/
theorem visitReaches_of (c : V → M V) (toks : List V) (wf g : Nat) (arrow : ITok)
    (harrow : arrow.1 = Tok.leadsto ∨ arrow.1 = Tok.inherits) (cs up : List PT) (es : List Expr)
    (hcs : ∀ x ∈ cs, isRule "expr" x = true ∨ isTok "COMMA" x = true)
    (hvis : (cs.filter (isRule "expr")).mapM
        (fun e => visitF c toks wf g (.ctx e (PT.rule "reaches" (leaf arrow :: cs) :: up))) = .ok (es.map rExpr)) :
    visitF c toks wf (g+1) (.ctx (.rule "reaches" (leaf arrow :: cs)) up) = .ok (rExprs (arrow.1 == Tok.leadsto) es) := by
  rw [visitF_reaches]
  unfold visitReaches
  have hf : List.filter (isRule "expr") (leaf arrow :: cs) = cs.filter (isRule "expr") := by
    simp [leaf, isRule]
  have hI := filter_tok_children hcs "INHERITS" (by decide)
  obtain ⟨tk, j⟩ := arrow
  simp only at harrow
  rcases harrow with rfl | rfl
  all_goals
    simp only [ctxAcc_eq acc_reaches_expr, ctxAcc_eq acc_reaches_INHERITS, runAcc, pyDict, pySetItem, keyOf, List.mapM_nil,
      dictPutAll, List.foldl_nil, bind_eq, pure_ok, ok_bind2, pyIter, PT.children]
    rw [forIn_listcomp, hf, List.mapM_map]
    simp only [mkCtx, Function.comp_def] at *
    rw [hvis]
    simp [rExprs, dictPut, ok_bind2, leaf, isTok, tokType, hI, optV, isNone, mkCtx]

/-- `visitVariable` on `LET ID ASSIGN expr` -/
theorem visitVariable_of (c : V → M V) (toks : List V) (wf g : Nat) (i j k : Nat) (v : String) (e : PT) (up : List PT) (ex : Expr)
    (he : isRule "expr" e = true)
    (hvis : visitF c toks wf g (.ctx e (PT.rule "variable" [leaf (Tok.kwLet, i), leaf (Tok.id v, j), leaf (Tok.assign, k), e] :: up))
        = .ok (rExpr ex)) :
    visitF c toks wf (g+1) (.ctx (.rule "variable" [leaf (Tok.kwLet, i), leaf (Tok.id v, j), leaf (Tok.assign, k), e]) up) =
      .ok (rVar (v, ex)) := by
  rw [visitF_variable]
  unfold visitVariable
  simp only [ctxAcc_eq acc_variable_ID, ctxAcc_eq acc_variable_expr, runAcc, pyDict, pySetItem, keyOf, List.mapM_nil,
    dictPutAll, List.foldl_nil, bind_eq, pure_ok, ok_bind2, PT.children]
  have hfe : List.filter (isRule "expr") [e] = [e] := by simp [he]
  simp [leaf, isTok, isRule, tokType, hfe, optV, mkCtx, pyGetText, PT.text, tokText, ok_bind2, pure_ok] at hvis ⊢
  rw [hvis]
  simp [rVar, dictPut, ok_bind2]

end MalVerif.Py.Visitor
