import MalVerif.Py.AbsMSerial
/-!
# The load theorems of the hand model from an arbitrary *empty* start state (domain `mserial`, C07)

`Ser.fromDoc` starts its three folds in `({} : MS.St)`; the translated `_from_dict` creates its model object inside
the object stores that exist, so its reference run is `fromDocFrom L defsOk t0 d` for a state `t0` without live
objects (`EmptyModel t0`) but with arbitrary unallocated store cells and allocation counters.  The lemmas of
`Proofs/SerialLemmas.lean` are general in the start state; here the final theorems (`load_toDoc`,
`fromDoc_jsonRT`, `fromDoc_perm`) are proved again for `fromDocFrom`, together with the coherence of the result
of any successful load (`fromDocFrom_inv`, under `DocEntryIdsDistinct`).
-/
namespace MalVerif.PyM.Tie
open MalVerif MalVerif.PyM MalVerif.Ser MalVerif.MS

/-- a state without live objects (store cells and allocation counters are arbitrary) -/
structure EmptyModel (t : MS.St) : Prop where
  assets : t.assets = []
  associations : t.associations = []
  attackers : t.attackers = []
  assetIds : t.assetIds = []
  assetNames : t.assetNames = []
  typeToAssoc : t.typeToAssoc = []

theorem EmptyModel.inv {t : MS.St} (h : EmptyModel t) : MS.Inv t := by
  obtain ⟨h1, h2, h3, h4, h5, h6⟩ := h
  refine ⟨⟨?_, ?_, ?_, ?_, ?_, ?_, ?_, ?_, ?_⟩, ⟨?_, ?_, ?_, ?_, ?_, ?_, ?_⟩, ⟨?_, ?_, ?_, ?_⟩, ⟨?_, ?_, ?_, ?_⟩⟩
  all_goals (try rw [h1]); (try rw [h2]); (try rw [h3]); (try rw [h4]); (try rw [h5]); (try rw [h6])
  all_goals first
    | exact List.nodup_nil
    | (intro a ha; exact absurd ha List.not_mem_nil)
    | (intro i; constructor
       · intro hi; exact absurd hi List.not_mem_nil
       · intro ⟨a, ha, _⟩; exact absurd ha List.not_mem_nil)
    | (intro c l; constructor
       · intro hi; exact absurd hi List.not_mem_nil
       · intro ⟨ha, _⟩; exact absurd ha List.not_mem_nil)
    | (intro c; exact List.nodup_nil)

theorem emptyModel_empty : EmptyModel ({} : MS.St) := ⟨rfl, rfl, rfl, rfl, rfl, rfl⟩

theorem emptyModel_abs_newModel (s : H) (nm : String) : EmptyModel (abs (H.newModel s nm)) :=
  ⟨rfl, rfl, rfl, rfl, rfl, rfl⟩

/-! ## the three phases of `fromDocFrom` -/

theorem fromDocFrom_eq (L : Lang) (defsOk : Key → Bool) (t0 : St) (d : ModelDoc) (s1 s2 : St)
    (h1 : d.assets.foldlM (loadAsset L defsOk) t0 = .ok s1)
    (h2 : d.associations.foldlM (loadAssoc L) s1 = .ok s2) :
    fromDocFrom L defsOk t0 d = d.attackers.foldlM loadAttacker s2 := by
  unfold fromDocFrom
  rw [h1]
  show (d.associations.foldlM (loadAssoc L) s1 >>= fun s2 => d.attackers.foldlM loadAttacker s2) = _
  rw [h2]
  rfl

theorem fromDocFrom_ok {L : Lang} {defsOk : Key → Bool} {t0 : St} {d : ModelDoc} {s : St}
    (h : fromDocFrom L defsOk t0 d = .ok s) :
    ∃ s1 s2, d.assets.foldlM (loadAsset L defsOk) t0 = .ok s1 ∧
      d.associations.foldlM (loadAssoc L) s1 = .ok s2 ∧ d.attackers.foldlM loadAttacker s2 = .ok s := by
  unfold fromDocFrom at h
  cases h1 : d.assets.foldlM (loadAsset L defsOk) t0 with
  | error e => rw [h1] at h; cases h
  | ok s1 =>
    rw [h1] at h
    have h : (d.associations.foldlM (loadAssoc L) s1 >>= fun s2 => d.attackers.foldlM loadAttacker s2) = .ok s := h
    cases h2 : d.associations.foldlM (loadAssoc L) s1 with
    | error e => rw [h2] at h; cases h
    | ok s2 =>
      rw [h2] at h
      exact ⟨s1, s2, rfl, h2, h⟩

/-! ## loading the document that `toDoc` writes -/

/-- loading the document written for `s`, from any empty start state, succeeds and yields a coherent state that
shows the same model; the loaded objects carry exactly the written defense lists -/
theorem load_toDoc_from (L : Lang) (t0 : St) (h0 : EmptyModel t0) (s : St) (h : Inv s) (hv : Valid L s)
    (hr : LinksResolve L s) (hd : DefKeysDistinct s) (ha : AttIdsDistinct s) (hn : AttNamesNonempty s) :
    ∃ s', fromDocFrom L (fun _ => true) t0 (toDoc L s) = .ok s' ∧ Inv s' ∧ SameFile L s' s ∧ SameModel L s' s ∧
      s'.assets.map (fun a => ((s'.aobj a).type, (s'.aobj a).defenses)) =
        s.assets.map (fun a => ((s.aobj a).type, nonDefault L (s.aobj a))) := by
  -- assets
  obtain ⟨s1, h1, hi1, hobjs, hl1, ht1, _, _⟩ := loadAssets_ok L (fun _ => true) (toDoc L s).assets t0 h0.inv
    (by rw [toDoc_assets L s h]; intro e he; obtain ⟨a, _, rfl⟩ := List.mem_map.1 he; rfl)
    (by rw [toDoc_assets L s h]; intro e he; obtain ⟨a, _, rfl⟩ := List.mem_map.1 he; rfl)
    (by
      rw [toDoc_assets L s h]; intro e he; obtain ⟨a, ha, rfl⟩ := List.mem_map.1 he
      rw [objOf_entryOfObj]; exact (hv.assets a ha).known)
    (by
      rw [toDoc_assets L s h]; intro e he; obtain ⟨a, ha, rfl⟩ := List.mem_map.1 he
      rw [objOf_entryOfObj]
      intro d hdm
      exact (hv.assets a ha).defenses d (List.mem_filter.1 hdm).1)
    (by
      rw [toDoc_assets L s h, List.map_map]
      have : ((fun e => (objOf e).id) ∘ fun a => entryOfObj L (s.aobj a)) = fun a => (s.aobj a).id := by
        funext a; show (objOf (entryOfObj L (s.aobj a))).id = _; rw [objOf_entryOfObj]; rfl
      rw [this]; exact asset_ids_nodup h)
    (fun _ _ hm => by rw [h0.assetIds] at hm; exact absurd hm List.not_mem_nil)
    (by
      rw [toDoc_assets L s h, List.map_map]
      have : ((fun e => (objOf e).name) ∘ fun a => entryOfObj L (s.aobj a)) = fun a => (s.aobj a).name := by
        funext a; show (objOf (entryOfObj L (s.aobj a))).name = _; rw [objOf_entryOfObj]; rfl
      rw [this]; exact asset_names_nodup h)
    (fun _ _ hm => by rw [h0.assetNames] at hm; exact absurd hm List.not_mem_nil)
  have hobjs : s1.assets.map s1.aobj = s.assets.map (fun a => normObj L (s.aobj a)) := by
    rw [hobjs, toDoc_assets L s h, List.map_map, h0.assets, List.map_nil, List.nil_append]
    exact List.map_congr_left (fun a _ => objOf_entryOfObj L (s.aobj a))
  have hfv : s1.assets.map (assetFileView L s1) = s.assets.map (assetFileView L s) := by
    have : s1.assets.map (assetFileView L s1) = (s1.assets.map s1.aobj).map (objFileView L) := by
      rw [List.map_map]; rfl
    rw [this, hobjs, List.map_map]
    exact List.map_congr_left (fun a _ => objFileView_normObj L (s.aobj a))
  have hev : s1.assets.map (assetView L s1) = s.assets.map (assetView L s) := by
    have : s1.assets.map (assetView L s1) = (s1.assets.map s1.aobj).map (objView L) := by
      rw [List.map_map]; rfl
    rw [this, hobjs, List.map_map]
    exact List.map_congr_left (fun a ha => objView_normObj L (s.aobj a) (hd a ha))
  have hdefs1 : s1.assets.map (fun a => ((s1.aobj a).type, (s1.aobj a).defenses)) =
      s.assets.map (fun a => ((s.aobj a).type, nonDefault L (s.aobj a))) := by
    have : s1.assets.map (fun a => ((s1.aobj a).type, (s1.aobj a).defenses)) =
        (s1.assets.map s1.aobj).map (fun o => (o.type, o.defenses)) := by
      rw [List.map_map]; rfl
    rw [this, hobjs, List.map_map]
    rfl
  -- associations
  obtain ⟨s2, h2, hi2, hf2, hlv2, ht2, _⟩ := loadAssocs_toDoc L s s1 h hv hr hfv s.associations [] s1 rfl hi1
    (AFrame.refl s1) (by rw [hl1, h0.associations]; rfl) rfl rfl
  -- attackers
  obtain ⟨s3, h3, hi3, hf3, htv3, hlv3⟩ := loadAttackers_toDoc L s s1 h hn hfv s.attackers [] s2 rfl hi2 hf2
    (by rw [ht2, ht1, h0.attackers]; rfl)
  refine ⟨s3, ?_, hi3, ⟨?_, ?_, htv3⟩, ⟨?_, ?_, htv3⟩, ?_⟩
  · rw [fromDocFrom_eq L _ t0 _ s1 s2 h1 (by rw [toDoc_associations]; exact h2), toDoc_attackers L s h ha]
    exact h3
  · rw [hf3.assetFileViews L, hfv]
  · rw [hlv3, hlv2]
  · rw [hf3.assetViews L, hev]
  · rw [hlv3, hlv2]
  · rw [← hdefs1, hf3.assets]
    exact List.map_congr_left (fun a _ => by rw [hf3.type, hf3.defenses])

/-! ## a JSON file: every dictionary key comes back as a string -/

theorem fromDocFrom_jsonRT (L : Lang) (defsOk : Key → Bool) (t0 : St) (d : ModelDoc) :
    fromDocFrom L defsOk t0 (jsonRT d) = fromDocFrom L (fun k => defsOk (.s k.text)) t0 d := by
  unfold fromDocFrom jsonRT
  dsimp only
  simp only [List.foldlM_map]
  have h1 : (fun s (e : Key × AssetEntry) => loadAsset L defsOk s (Key.s e.1.text, e.2)) =
      loadAsset L (fun k => defsOk (.s k.text)) := by
    funext s e; exact loadAsset_json L defsOk s e
  have h2 : (fun s (e : Key × AttackerEntry) =>
      loadAttacker s (Key.s e.1.text, { e.2 with entry := e.2.entry.map (fun p => (Key.s p.1.text, p.2)) })) = loadAttacker := by
    funext s e; exact loadAttacker_json s e
  rw [h1]
  simp only [h2]

/-! ## the range check is only asked for the keys of the asset entries -/

theorem loadAsset_defsOk_congr (L : Lang) (f g : Key → Bool) (s : St) (e : Key × AssetEntry) (h : f e.1 = g e.1) :
    loadAsset L f s e = loadAsset L g s e := by
  unfold loadAsset
  rw [h]

theorem loadAssets_defsOk_congr (L : Lang) (f g : Key → Bool) (es : List (Key × AssetEntry))
    (h : ∀ e ∈ es, f e.1 = g e.1) (s : St) : es.foldlM (loadAsset L f) s = es.foldlM (loadAsset L g) s := by
  induction es generalizing s with
  | nil => rfl
  | cons e es ih =>
    rw [List.foldlM_cons, List.foldlM_cons, loadAsset_defsOk_congr L f g s e (h e List.mem_cons_self)]
    cases loadAsset L g s e with
    | error er => rfl
    | ok s' => exact ih (fun x hx => h x (List.mem_cons_of_mem _ hx)) s'

/-- the range check is only asked for the keys of the asset entries -/
theorem fromDocFrom_defsOk_congr (L : Lang) (f g : Key → Bool) (t0 : St) (d : ModelDoc)
    (h : ∀ e ∈ d.assets, f e.1 = g e.1) : fromDocFrom L f t0 d = fromDocFrom L g t0 d := by
  unfold fromDocFrom
  rw [loadAssets_defsOk_congr L f g d.assets h t0]

/-! ## loading does not depend on the order of the asset entries -/

theorem fromDocFrom_perm (L : Lang) (defsOk : Key → Bool) (t0 : St) (h0 : EmptyModel t0) (d d' : ModelDoc)
    (hp : d.assets.Perm d'.assets) (hl : d'.associations = d.associations) (ht : d'.attackers = d.attackers)
    (hid : (d.assets.map (fun e => (objOf e).id)).Nodup) (hnm : (d.assets.map (fun e => (objOf e).name)).Nodup)
    (s : St) (hok : fromDocFrom L defsOk t0 d = .ok s) :
    ∃ s', fromDocFrom L defsOk t0 d' = .ok s' ∧ SameUpToAssetOrder L s s' := by
  have hnid : ∀ e : Key × AssetEntry, (objOf e).id ∉ t0.assetIds := fun e hm => by
    rw [h0.assetIds] at hm; exact absurd hm List.not_mem_nil
  have hnnm : ∀ e : Key × AssetEntry, (objOf e).name ∉ t0.assetNames := fun e hm => by
    rw [h0.assetNames] at hm; exact absurd hm List.not_mem_nil
  obtain ⟨s1, s2, h1, h2, h3⟩ := fromDocFrom_ok hok
  have hent := loadAssets_entries L defsOk d.assets t0 s1 h1
  obtain ⟨s1x, h1x, hi1, hobj1, hl1, ht1, _, _⟩ := loadAssets_ok L defsOk d.assets t0 h0.inv
    (fun e he => (hent e he).1) (fun e he => (hent e he).2.1) (fun e he => (hent e he).2.2.1)
    (fun e he => (hent e he).2.2.2) hid (fun e _ => hnid e) hnm (fun e _ => hnnm e)
  have : s1x = s1 := by rw [h1] at h1x; injection h1x with h; exact h.symm
  subst this
  have hent' : ∀ e ∈ d'.assets, _ := fun e he => hent e (hp.mem_iff.2 he)
  obtain ⟨s1', h1', hi1', hobj1', hl1', ht1', _, _⟩ := loadAssets_ok L defsOk d'.assets t0 h0.inv
    (fun e he => (hent' e he).1) (fun e he => (hent' e he).2.1) (fun e he => (hent' e he).2.2.1)
    (fun e he => (hent' e he).2.2.2) ((hp.map _).nodup_iff.1 hid) (fun e _ => hnid e)
    ((hp.map _).nodup_iff.1 hnm) (fun e _ => hnnm e)
  rw [h0.associations] at hl1 hl1'
  rw [h0.attackers] at ht1 ht1'
  rw [h0.assets, List.map_nil, List.nil_append] at hobj1 hobj1'
  have hsim1 : SameUpToAssetOrder L s1x s1' := by
    refine ⟨?_, by rw [hl1, hl1']; rfl, by rw [ht1, ht1']; rfl⟩
    have e1 : s1x.assets.map (assetView L s1x) = (s1x.assets.map s1x.aobj).map (objView L) := by rw [List.map_map]; rfl
    have e2 : s1'.assets.map (assetView L s1') = (s1'.assets.map s1'.aobj).map (objView L) := by rw [List.map_map]; rfl
    rw [e1, e2, hobj1, hobj1']
    exact ((hp.map objOf).map (objView L))
  obtain ⟨s2', h2', hi2, hi2', hsim2, hat2, hat2'⟩ := loadAssocs_sim L d.associations s1x s1' s2 hi1 hi1' hsim1 ht1 ht1' h2
  obtain ⟨s', h3', hsim3⟩ := loadAttackers_sim L d.attackers s2 s2' s hi2.att.fresh hi2'.att.fresh hsim2 h3
  refine ⟨s', ?_, hsim3⟩
  rw [fromDocFrom_eq L defsOk t0 d' s1' s2' h1' (by rw [hl]; exact h2'), ht]
  exact h3'

/-! ## a successful load ends in a coherent state -/

theorem loadAsset_inv {L : Lang} {defsOk : Key → Bool} {s s' : St} {e : Key × AssetEntry} (h : Inv s)
    (hok : loadAsset L defsOk s e = .ok s') : Inv s' := by
  rw [loadAsset_eq] at hok
  cases hk : e.1.toInt? with
  | none => rw [hk] at hok; cases hok
  | some id =>
    rw [hk] at hok
    exact addAsset_inv' h hok

theorem loadAssets_inv {L : Lang} {defsOk : Key → Bool} (es : List (Key × AssetEntry)) {s s' : St} (h : Inv s)
    (hok : es.foldlM (loadAsset L defsOk) s = .ok s') : Inv s' := by
  induction es generalizing s with
  | nil => have : s = s' := by injection hok
           exact this ▸ h
  | cons e es ih =>
    rw [List.foldlM_cons] at hok
    cases h0 : loadAsset L defsOk s e with
    | error er => rw [h0] at hok; cases hok
    | ok s0 =>
      rw [h0] at hok
      exact ih (loadAsset_inv h h0) hok

theorem loadAssoc_inv {L : Lang} {s s' : St} {e : AssocEntry} (h : Inv s) (hok : loadAssoc L s e = .ok s') : Inv s' := by
  obtain ⟨c, lids, rids, hload⟩ := loadAssoc_ok L s s' e h hok
  obtain ⟨sx, hsx, hix, _⟩ := loadAssoc_ok_of L s e c lids rids h hload
  have : sx = s' := by rw [hok] at hsx; injection hsx with h; exact h.symm
  exact this ▸ hix

theorem loadAssocs_inv {L : Lang} (es : List AssocEntry) {s s' : St} (h : Inv s)
    (hok : es.foldlM (loadAssoc L) s = .ok s') : Inv s' := by
  induction es generalizing s with
  | nil => have : s = s' := by injection hok
           exact this ▸ h
  | cons e es ih =>
    rw [List.foldlM_cons] at hok
    cases h0 : loadAssoc L s e with
    | error er => rw [h0] at hok; cases hok
    | ok s0 =>
      rw [h0] at hok
      exact ih (loadAssoc_inv h h0) hok

/-- no attacker entry of the document names the same asset id under two entry-point keys (`1` and `"1"` are
two keys of a Python dictionary but one asset id) -/
def DocEntryIdsDistinct (d : ModelDoc) : Prop :=
  ∀ e ∈ d.attackers, (e.2.entry.map (fun p => p.1.toInt?.getD 0)).Nodup

theorem hand_loadAttacker_inv {s s' : St} {e : Key × AttackerEntry} (h : Inv s)
    (hn : (e.2.entry.map (fun p => p.1.toInt?.getD 0)).Nodup) (hok : loadAttacker s e = .ok s') : Inv s' := by
  obtain ⟨hk, hex⟩ := loadAttacker_ok s s' e hok
  have hs : s' = loadAttackerSt s e := by
    rw [loadAttacker_ok_of s e hk hex] at hok; injection hok with h; exact h.symm
  rw [hs]
  exact loadAttackerSt_inv s e h hex hn

theorem hand_loadAttackers_inv (es : List (Key × AttackerEntry)) {s s' : St} (h : Inv s)
    (hn : ∀ e ∈ es, (e.2.entry.map (fun p => p.1.toInt?.getD 0)).Nodup)
    (hok : es.foldlM loadAttacker s = .ok s') : Inv s' := by
  induction es generalizing s with
  | nil => have : s = s' := by injection hok
           exact this ▸ h
  | cons e es ih =>
    rw [List.foldlM_cons] at hok
    cases h0 : loadAttacker s e with
    | error er => rw [h0] at hok; cases hok
    | ok s0 =>
      rw [h0] at hok
      exact ih (hand_loadAttacker_inv h (hn e List.mem_cons_self) h0) (fun x hx => hn x (List.mem_cons_of_mem _ hx)) hok

/-- a successful load from an empty start state ends in a coherent state (the entry points of each attacker
entry name pairwise different asset ids) -/
theorem fromDocFrom_inv (L : Lang) (defsOk : Key → Bool) (t0 : St) (h0 : EmptyModel t0) (d : ModelDoc)
    (hep : DocEntryIdsDistinct d) (s : St) (hok : fromDocFrom L defsOk t0 d = .ok s) : Inv s := by
  obtain ⟨s1, s2, h1, h2, h3⟩ := fromDocFrom_ok hok
  exact hand_loadAttackers_inv d.attackers (loadAssocs_inv d.associations (loadAssets_inv d.assets h0.inv h1) h2) hep h3

/-- without attackers' double entry points nothing is lost: the parts of the invariant that do not speak about
entry points hold after every successful load -/
theorem fromDocFrom_inv_noAtt (L : Lang) (defsOk : Key → Bool) (t0 : St) (h0 : EmptyModel t0) (d : ModelDoc)
    (s1 s2 : St) (h1 : d.assets.foldlM (loadAsset L defsOk) t0 = .ok s1)
    (h2 : d.associations.foldlM (loadAssoc L) s1 = .ok s2) : Inv s1 ∧ Inv s2 :=
  ⟨loadAssets_inv d.assets h0.inv h1, loadAssocs_inv d.associations (loadAssets_inv d.assets h0.inv h1) h2⟩

/-! ## the assets a document loads to -/

theorem loadAssocs_aframe {L : Lang} (es : List AssocEntry) {s s' : St} (h : Inv s)
    (hok : es.foldlM (loadAssoc L) s = .ok s') : AFrame s s' := by
  induction es generalizing s with
  | nil => have : s = s' := by injection hok
           exact this ▸ AFrame.refl s
  | cons e es ih =>
    rw [List.foldlM_cons] at hok
    cases h0 : loadAssoc L s e with
    | error er => rw [h0] at hok; cases hok
    | ok s0 =>
      rw [h0] at hok
      obtain ⟨c, lids, rids, hload⟩ := loadAssoc_ok L s s0 e h h0
      obtain ⟨sx, hsx, hix, hfx, _⟩ := loadAssoc_ok_of L s e c lids rids h hload
      have : sx = s0 := by rw [h0] at hsx; injection hsx with h; exact h.symm
      subst this
      exact hfx.trans (ih hix hok)

theorem loadAttackers_aframe (es : List (Key × AttackerEntry)) {s s' : St}
    (hok : es.foldlM loadAttacker s = .ok s') : AFrame s s' := by
  induction es generalizing s with
  | nil => have : s = s' := by injection hok
           exact this ▸ AFrame.refl s
  | cons e es ih =>
    rw [List.foldlM_cons] at hok
    cases h0 : loadAttacker s e with
    | error er => rw [h0] at hok; cases hok
    | ok s0 =>
      rw [h0] at hok
      obtain ⟨hk, hex⟩ := loadAttacker_ok s s0 e h0
      have hs : s0 = loadAttackerSt s e := by
        rw [loadAttacker_ok_of s e hk hex] at h0; injection h0 with h; exact h.symm
      subst hs
      exact (loadAttackerSt_aframe s e).trans (ih hok)

/-- a document whose asset entries have pairwise distinct ids and names loads to exactly the assets it lists,
in file order -/
theorem fromDocFrom_assets (L : Lang) (defsOk : Key → Bool) (t0 : St) (h0 : EmptyModel t0) (d : ModelDoc)
    (hid : (d.assets.map (fun e => (objOf e).id)).Nodup) (hnm : (d.assets.map (fun e => (objOf e).name)).Nodup)
    (s : St) (hok : fromDocFrom L defsOk t0 d = .ok s) :
    s.assets.map (assetView L s) = d.assets.map (fun e => objView L (objOf e)) := by
  obtain ⟨s1, s2, h1, h2, h3⟩ := fromDocFrom_ok hok
  have hent := loadAssets_entries L defsOk d.assets t0 s1 h1
  obtain ⟨s1x, h1x, hi1, hobj1, _⟩ := loadAssets_ok L defsOk d.assets t0 h0.inv
    (fun e he => (hent e he).1) (fun e he => (hent e he).2.1) (fun e he => (hent e he).2.2.1)
    (fun e he => (hent e he).2.2.2) hid
    (fun e _ hm => by rw [h0.assetIds] at hm; exact absurd hm List.not_mem_nil) hnm
    (fun e _ hm => by rw [h0.assetNames] at hm; exact absurd hm List.not_mem_nil)
  have : s1x = s1 := by rw [h1] at h1x; injection h1x with h; exact h.symm
  subst this
  rw [h0.assets, List.map_nil, List.nil_append] at hobj1
  have hf := (loadAssocs_aframe d.associations hi1 h2).trans (loadAttackers_aframe d.attackers h3)
  have e1 : s1x.assets.map (assetView L s1x) = (s1x.assets.map s1x.aobj).map (objView L) := by rw [List.map_map]; rfl
  rw [hf.assetViews L, e1, hobj1, List.map_map]
  rfl

end MalVerif.PyM.Tie
