import MalVerif.Py.TieGraph
import MalVerif.Py.Gen.Attach
import MalVerif.Props.C11
/-!
# Tie: the translated `AttackGraph.attach_attackers`  =  `Model/AGS.lean: attach`

`absH s` is the state of the hand-written state machine that the heap `s` represents, with the allocation
counters of the heap (`nfresh`, `afresh`: the constructor calls `AttackGraphNode(..)` / `Attacker(..)` of the
translated code allocate there).  `attsOf env` is what the hand model's `attach` is given: for every model
attacker its name and the full names `asset.name ++ ":" ++ step` of its entry points, in order.

* `attach_attackers_eq`: the generated function is the guard `if not self.model: raise` followed by a loop of `atStep`
  (one model attacker: name guard, allocation, `add_attacker`, the two entry-point loops, `entry_points := reached`).
* `atStep_sim`: one round of the translated loop against one round `attachStep` of the hand model — both succeed
  (and the abstraction commutes) or both raise `ValueError`.
* `attach_tie` / `attach_sim` / `attach_raises_iff`: the whole function.  The hand model has neither the
  `if not self.model` nor the `if not attacker_info.name` guard: the tie holds for environments with a model whose
  attackers all have a non-empty name, and `attach_guard_*` say that the translated code raises
  `AttackGraphException` otherwise.
-/
namespace MalVerif.Py.Tie
open MalVerif.Py MalVerif.Py.Gen MalVerif.AGS MalVerif.AGraph

/-- the hand model's state for a heap, allocation counters included -/
def absH (s : H) : St := absS s s.nfresh s.afresh

/-- the full names of the entry points of a model attacker, in the order of the two loops -/
def entryNames (ai : PyAttackerInfo) : List String :=
  ai.entry_points.flatMap (fun x => x.2.map (fun st => x.1.name ++ ":" ++ st))

/-- the argument of the hand model's `attach` -/
def attsOf (env : EvalEnv) : List (String × List String) :=
  env.attackers.map (fun ai => (optStrVal ai.name, entryNames ai))

/-- every model attacker has a name that passes `if not attacker_info.name` -/
def NamesOK (env : EvalEnv) : Prop := ∀ ai ∈ env.attackers, truthyOptStr ai.name = true

/- helper definitions and lemmas of this file live in the sub-namespace `TA` -/
namespace TA
open TG

/-! ### allocation -/

theorem allocA_fst_a (s : H) (o : PyAttacker) (x : ARef) :
    ((s.allocA o).1.a x) = if x = s.afresh then o else s.a x := rfl
theorem allocA_snd (s : H) (o : PyAttacker) : (s.allocA o).2 = s.afresh := rfl
theorem allocA_afresh (s : H) (o : PyAttacker) : (s.allocA o).1.afresh = s.afresh + 1 := rfl
theorem allocN_fst_n (s : H) (o : PyNode) (x : NRef) :
    ((s.allocN o).1.n x) = if x = s.nfresh then o else s.n x := rfl
theorem allocN_snd (s : H) (o : PyNode) : (s.allocN o).2 = s.nfresh := rfl
theorem allocN_nfresh (s : H) (o : PyNode) : (s.allocN o).1.nfresh = s.nfresh + 1 := rfl

/-! ### loops without early exit in `Except` -/

theorem forIn_pure_foldl {α σ : Type} (xs : List α) (s : σ) (g : σ → α → σ) :
    forIn (m := Except PyErr) xs s (fun x s => pure (ForInStep.yield (g s x))) = pure (xs.foldl g s) := by
  induction xs generalizing s with
  | nil => rfl
  | cons x xs ih => rw [List.forIn_cons, pure_bind]; exact ih _

/-! ### the body of the loop over the model's attackers -/

/-- innermost loop body: `ag_node = self.get_node_by_full_name(..); if not ag_node: continue; attacker.compromise(ag_node)` -/
def atB3 (a : ARef) (asset : PyAssetObj) (s : H) (st : String) : H :=
  match graph_get_node_by_full_name s (asset.name ++ ":" ++ st) with
  | some v => attacker_compromise s a v
  | none => s

def atB2 (a : ARef) (s : H) (x : PyAssetObj × List String) : H := x.2.foldl (atB3 a x.1) s

/-- the tail of a round: what follows `self.add_attacker(attacker)` -/
def atTail (a : ARef) (ai : PyAttackerInfo) (s1 : H) : H :=
  let s2 := ai.entry_points.foldl (atB2 a) s1
  s2.setA a { s2.a a with entry_points := (s2.a a).reached_attack_steps }

/-- one round: one model attacker -/
def atStep (s : H) (ai : PyAttackerInfo) : Except PyErr H :=
  if (!truthyOptStr ai.name) = true then .error .attackGraphException else
  (graph_add_attacker (s.allocA { name := optStrVal ai.name }).1 (s.allocA { name := optStrVal ai.name }).2 none [] []).bind
    fun s1 => .ok (atTail (s.allocA { name := optStrVal ai.name }).2 ai s1)

theorem forIn_pure_foldl' {α σ : Type} (xs : List α) (s : σ) (g : σ → α → σ)
    (f : α → σ → Except PyErr (ForInStep σ)) (hf : ∀ x t, f x t = pure (ForInStep.yield (g t x))) :
    forIn xs s f = pure (xs.foldl g s) := by
  rw [← forIn_pure_foldl]
  congr 1
  funext x t
  exact hf x t

theorem attach_attackers_eq (s : H) (env : EvalEnv) :
    graph_attach_attackers s env =
      if (!env.has_model) = true then .error .attackGraphException else loopE atStep env.attackers s := by
  unfold graph_attach_attackers
  by_cases hm : (!env.has_model) = true
  · rw [if_pos hm, if_pos hm]; rfl
  · rw [if_neg hm, if_neg hm]
    show (forIn env.attackers s _ >>= fun __s => pure __s) = _
    rw [bind_pure]
    unfold loopE
    congr 1
    funext ai t
    unfold atStep
    by_cases hn : (!truthyOptStr ai.name) = true
    · rw [if_pos hn, if_pos hn]; rfl
    · rw [if_neg hn, if_neg hn]
      show (graph_add_attacker _ _ none [] [] >>= fun s1 => forIn ai.entry_points s1 _ >>= fun __s => _) = _
      cases graph_add_attacker (t.allocA { name := optStrVal ai.name }).1 (t.allocA { name := optStrVal ai.name }).2 none [] [] with
      | error e => rfl
      | ok s1 =>
        show (forIn (m := Except PyErr) ai.entry_points s1 _ >>= fun __s => _) = _
        rw [forIn_pure_foldl' ai.entry_points s1 (atB2 (t.allocA { name := optStrVal ai.name }).2) _ (by
          intro x u
          obtain ⟨asset, steps⟩ := x
          show (forIn (m := Except PyErr) steps u _ >>= fun __s => pure (ForInStep.yield __s)) = _
          rw [forIn_pure_foldl' steps u (atB3 (t.allocA { name := optStrVal ai.name }).2 asset) _ (by
            intro st v
            unfold atB3
            dsimp only
            cases graph_get_node_by_full_name v (asset.name ++ ":" ++ st) <;> rfl)]
          rfl)]
        rfl

/-! ### the pieces of a round against the hand model -/

theorem compromise_fresh (s : H) (a : ARef) (n : NRef) :
    (attacker_compromise s a n).nfresh = s.nfresh ∧ (attacker_compromise s a n).afresh = s.afresh := by
  rw [compromise_eq]; split <;> exact ⟨rfl, rfl⟩

theorem atB3_tie (a : ARef) (asset : PyAssetObj) (s : H) (st : String) (nf af : Nat) :
    absS (atB3 a asset s st) nf af = atReach a (absS s nf af) (asset.name ++ ":" ++ st) := by
  unfold atB3 atReach
  rw [← get_node_by_full_name_tie s _ nf af]
  cases graph_get_node_by_full_name s (asset.name ++ ":" ++ st) with
  | none => rfl
  | some v => exact compromise_tie s a v nf af

theorem atB3_fresh (a : ARef) (asset : PyAssetObj) (s : H) (st : String) :
    (atB3 a asset s st).nfresh = s.nfresh ∧ (atB3 a asset s st).afresh = s.afresh := by
  unfold atB3
  cases graph_get_node_by_full_name s (asset.name ++ ":" ++ st) with
  | none => exact ⟨rfl, rfl⟩
  | some v => exact compromise_fresh s a v

theorem foldl_atB3_tie (a : ARef) (asset : PyAssetObj) (steps : List String) (s : H) (nf af : Nat) :
    absS (steps.foldl (atB3 a asset) s) nf af =
      (steps.map (fun st => asset.name ++ ":" ++ st)).foldl (atReach a) (absS s nf af) := by
  induction steps generalizing s with
  | nil => rfl
  | cons st steps ih => rw [List.foldl_cons, ih, atB3_tie]; rfl

theorem foldl_atB3_fresh (a : ARef) (asset : PyAssetObj) (steps : List String) (s : H) :
    (steps.foldl (atB3 a asset) s).nfresh = s.nfresh ∧ (steps.foldl (atB3 a asset) s).afresh = s.afresh := by
  induction steps generalizing s with
  | nil => exact ⟨rfl, rfl⟩
  | cons st steps ih =>
    rw [List.foldl_cons]
    exact ⟨(ih _).1.trans (atB3_fresh a asset s st).1, (ih _).2.trans (atB3_fresh a asset s st).2⟩

theorem foldl_atB2_tie (a : ARef) (eps : List (PyAssetObj × List String)) (s : H) (nf af : Nat) :
    absS (eps.foldl (atB2 a) s) nf af =
      (eps.flatMap (fun x => x.2.map (fun st => x.1.name ++ ":" ++ st))).foldl (atReach a) (absS s nf af) := by
  induction eps generalizing s with
  | nil => rfl
  | cons x eps ih =>
    rw [List.foldl_cons, ih, List.flatMap_cons, List.foldl_append]
    unfold atB2
    rw [foldl_atB3_tie]

theorem foldl_atB2_fresh (a : ARef) (eps : List (PyAssetObj × List String)) (s : H) :
    (eps.foldl (atB2 a) s).nfresh = s.nfresh ∧ (eps.foldl (atB2 a) s).afresh = s.afresh := by
  induction eps generalizing s with
  | nil => exact ⟨rfl, rfl⟩
  | cons x eps ih =>
    rw [List.foldl_cons]
    exact ⟨(ih _).1.trans (foldl_atB3_fresh a x.1 x.2 s).1, (ih _).2.trans (foldl_atB3_fresh a x.1 x.2 s).2⟩

theorem atTail_tie (a : ARef) (ai : PyAttackerInfo) (s : H) (nf af : Nat) :
    absS (atTail a ai s) nf af =
      updA ((entryNames ai).foldl (atReach a) (absS s nf af)) a (fun o => { o with entry := o.reached }) := by
  unfold atTail entryNames
  rw [← foldl_atB2_tie]
  exact absS_setA _ a _ _ nf af rfl

theorem atTail_fresh (a : ARef) (ai : PyAttackerInfo) (s : H) :
    (atTail a ai s).nfresh = s.nfresh ∧ (atTail a ai s).afresh = s.afresh :=
  foldl_atB2_fresh a ai.entry_points s

/-- the heap after `attacker = Attacker(name = nm, ..); self.add_attacker(attacker)` -/
def addAttH (s : H) (nm : String) : H :=
  aaFin s.afresh (aaS1 (s.allocA { name := nm }).1 s.afresh s.next_attacker_id)

theorem add_attacker_fresh (s : H) (nm : String) :
    graph_add_attacker (s.allocA { name := nm }).1 (s.allocA { name := nm }).2 none [] [] =
      if dictIn s._id_to_attacker s.next_attacker_id = true then .error .valueError else .ok (addAttH s nm) := by
  have hid : ((s.allocA { name := nm }).1.a (s.allocA { name := nm }).2).id = none := by
    show (if s.afresh = s.afresh then ({ name := nm } : PyAttacker) else s.a s.afresh).id = none
    rw [if_pos rfl]
  rw [graph_add_attacker_eq, if_neg (by rw [attIsPart_of_id_none _ _ hid]; decide)]
  rfl

theorem absH_addAttH (s : H) (nm : String) :
    absH (addAttH s nm) = aaInit (absH s) nm s.next_attacker_id := by
  apply St_ext
  · rfl
  · rfl
  · funext x
    show absA (if x = s.afresh then _ else (if x = s.afresh then _ else s.a x)) =
      if x = s.afresh then _ else absA (s.a x)
    by_cases hx : x = s.afresh
    · rw [if_pos hx, if_pos hx]
      show absA ({ ((s.allocA { name := nm }).1.a s.afresh) with id := some s.next_attacker_id }) = _
      rw [allocA_fst_a, if_pos rfl]
      rfl
    · rw [if_neg hx, if_neg hx, if_neg hx]
  · rfl
  · rfl
  · rfl
  · rfl
  · rfl
  · show dictSet s._id_to_attacker (optIntGet ((aaS1 (s.allocA { name := nm }).1 s.afresh s.next_attacker_id).a s.afresh).id) s.afresh = _
    have : ((aaS1 (s.allocA { name := nm }).1 s.afresh s.next_attacker_id).a s.afresh).id = some s.next_attacker_id := by
      show (if s.afresh = s.afresh then _ else _ : PyAttacker).id = _
      rw [if_pos rfl]
    rw [this, dictSet_eq_dset]
    rfl
  · rfl
  · show max (optIntGet ((aaS0 (s.allocA { name := nm }).1 s.afresh s.next_attacker_id).a s.afresh).id + 1) s.next_attacker_id = _
    have : ((aaS0 (s.allocA { name := nm }).1 s.afresh s.next_attacker_id).a s.afresh).id = some s.next_attacker_id := by
      show (if s.afresh = s.afresh then _ else _ : PyAttacker).id = _
      rw [if_pos rfl]
    rw [this]
    rfl

/-- the heap after a successful round -/
def atStepH (s : H) (ai : PyAttackerInfo) : H := atTail s.afresh ai (addAttH s (optStrVal ai.name))

theorem atStep_eq (s : H) (ai : PyAttackerInfo) (hn : truthyOptStr ai.name = true) :
    atStep s ai = if dictIn s._id_to_attacker s.next_attacker_id = true then .error .valueError
      else .ok (atStepH s ai) := by
  unfold atStep
  have : ¬ (!truthyOptStr ai.name) = true := by rw [hn]; decide
  rw [if_neg this, add_attacker_fresh]
  split <;> rfl

theorem absH_atStepH (s : H) (ai : PyAttackerInfo) :
    absH (atStepH s ai) = attachSt (absH s) (optStrVal ai.name, entryNames ai) := by
  unfold absH atStepH
  rw [(atTail_fresh _ _ _).1, (atTail_fresh _ _ _).2, atTail_tie]
  unfold attachSt
  show updA (List.foldl (atReach s.afresh) (absH (addAttH s (optStrVal ai.name))) (entryNames ai)) s.afresh _ = _
  rw [absH_addAttH]
  rfl

theorem attachStep_eq (t : St) (x : String × List String) :
    attachStep t x = if (dget t.attIdx t.nextAtt).isSome = true then .error .valueError else .ok (attachSt t x) := by
  unfold attachStep
  rw [addAttacker_eq]
  by_cases hd : (dget t.attIdx t.nextAtt).isSome = true
  · have hd' : (dget t.attIdx (Option.getD none t.nextAtt)).isSome = true := hd
    rw [if_pos hd, if_pos hd']; rfl
  · have hd' : ¬ (dget t.attIdx (Option.getD none t.nextAtt)).isSome = true := hd
    rw [if_neg hd, if_neg hd']; rfl

/-- outcome of the translated code against outcome of the hand model: both succeed and the abstraction commutes,
or both raise `ValueError` -/
def Sim : Except PyErr H → Except Err St → Prop
  | .ok s', .ok t => absH s' = t
  | .error e, .error e' => e = .valueError ∧ e' = .valueError
  | _, _ => False

theorem loop_sim (l : List PyAttackerInfo) (hn : ∀ ai ∈ l, truthyOptStr ai.name = true) (s : H) :
    Sim (loopE atStep l s) (attach (absH s) (l.map (fun ai => (optStrVal ai.name, entryNames ai)))) := by
  induction l generalizing s with
  | nil => exact (rfl : absH s = absH s)
  | cons ai l ih =>
    rw [loopE_cons, List.map_cons, attach_cons, atStep_eq s ai (hn ai List.mem_cons_self), attachStep_eq]
    have hd : dictIn s._id_to_attacker s.next_attacker_id = (dget (absH s).attIdx (absH s).nextAtt).isSome :=
      dictIn_eq_dget _ _
    by_cases h : dictIn s._id_to_attacker s.next_attacker_id = true
    · rw [if_pos h, if_pos (hd ▸ h)]
      exact ⟨rfl, rfl⟩
    · rw [if_neg h, if_neg (hd ▸ h)]
      show Sim (loopE atStep l (atStepH s ai)) (attach (attachSt (absH s) _) _)
      rw [← absH_atStepH]
      exact ih (fun ai' h' => hn ai' (List.mem_cons_of_mem _ h')) _

/-! ### what a round does to the attacker objects of the heap (not visible through `absA`: the `id` attribute
of an attacker is an `Optional[int]`, the hand model's is an `Int`) -/

theorem compromise_a (s : H) (a : ARef) (n : NRef) (b : ARef) :
    ((attacker_compromise s a n).a b).id = (s.a b).id ∧ (b ≠ a → (attacker_compromise s a n).a b = s.a b) := by
  rw [compromise_eq]
  split
  · exact ⟨rfl, fun _ => rfl⟩
  · show ((if b = a then _ else _ : PyAttacker).id = _) ∧ (b ≠ a → (if b = a then _ else _ : PyAttacker) = _)
    by_cases hb : b = a
    · subst hb; rw [if_pos rfl]; exact ⟨rfl, fun h => absurd rfl h⟩
    · rw [if_neg hb]; exact ⟨rfl, fun _ => rfl⟩

theorem atB3_a (a : ARef) (asset : PyAssetObj) (s : H) (st : String) (b : ARef) :
    ((atB3 a asset s st).a b).id = (s.a b).id ∧ (b ≠ a → (atB3 a asset s st).a b = s.a b) := by
  unfold atB3
  cases graph_get_node_by_full_name s (asset.name ++ ":" ++ st) with
  | none => exact ⟨rfl, fun _ => rfl⟩
  | some v => exact compromise_a s a v b

theorem foldl_atB3_a (a : ARef) (asset : PyAssetObj) (steps : List String) (s : H) (b : ARef) :
    ((steps.foldl (atB3 a asset) s).a b).id = (s.a b).id ∧ (b ≠ a → (steps.foldl (atB3 a asset) s).a b = s.a b) := by
  induction steps generalizing s with
  | nil => exact ⟨rfl, fun _ => rfl⟩
  | cons st steps ih =>
    rw [List.foldl_cons]
    exact ⟨(ih _).1.trans (atB3_a a asset s st b).1, fun h => ((ih _).2 h).trans ((atB3_a a asset s st b).2 h)⟩

theorem foldl_atB2_a (a : ARef) (eps : List (PyAssetObj × List String)) (s : H) (b : ARef) :
    ((eps.foldl (atB2 a) s).a b).id = (s.a b).id ∧ (b ≠ a → (eps.foldl (atB2 a) s).a b = s.a b) := by
  induction eps generalizing s with
  | nil => exact ⟨rfl, fun _ => rfl⟩
  | cons x eps ih =>
    rw [List.foldl_cons]
    exact ⟨(ih _).1.trans (foldl_atB3_a a x.1 x.2 s b).1,
      fun h => ((ih _).2 h).trans ((foldl_atB3_a a x.1 x.2 s b).2 h)⟩

theorem atTail_a (a : ARef) (ai : PyAttackerInfo) (s : H) (b : ARef) :
    ((atTail a ai s).a b).id = (s.a b).id ∧ (b ≠ a → (atTail a ai s).a b = s.a b) := by
  unfold atTail
  show ((if b = a then _ else _ : PyAttacker).id = _) ∧ (b ≠ a → (if b = a then _ else _ : PyAttacker) = _)
  by_cases hb : b = a
  · subst hb; rw [if_pos rfl]; exact ⟨(foldl_atB2_a b ai.entry_points s b).1, fun h => absurd rfl h⟩
  · rw [if_neg hb]; exact ⟨(foldl_atB2_a a ai.entry_points s b).1, fun _ => (foldl_atB2_a a ai.entry_points s b).2 hb⟩

theorem addAttH_a (s : H) (nm : String) (b : ARef) :
    ((addAttH s nm).a s.afresh).id = some s.next_attacker_id ∧ (b ≠ s.afresh → (addAttH s nm).a b = s.a b) := by
  constructor
  · show (if s.afresh = s.afresh then _ else _ : PyAttacker).id = _
    rw [if_pos rfl]
  · intro hb
    show (if b = s.afresh then _ else (if b = s.afresh then _ else s.a b) : PyAttacker) = _
    rw [if_neg hb, if_neg hb]

theorem atStepH_a (s : H) (ai : PyAttackerInfo) :
    ((atStepH s ai).a s.afresh).id = some s.next_attacker_id ∧ (∀ b, b ≠ s.afresh → (atStepH s ai).a b = s.a b) ∧
    (atStepH s ai).afresh = s.afresh + 1 := by
  unfold atStepH
  refine ⟨((atTail_a _ ai _ _).1).trans (addAttH_a s _ s.afresh).1,
    fun b hb => ((atTail_a _ ai _ b).2 hb).trans ((addAttH_a s _ b).2 hb), (atTail_fresh _ ai _).2⟩

theorem loopE_atStep_cons {ai : PyAttackerInfo} {l : List PyAttackerInfo} {s s' : H}
    (hn : truthyOptStr ai.name = true) (h : loopE atStep (ai :: l) s = .ok s') :
    loopE atStep l (atStepH s ai) = .ok s' := by
  rw [loopE_cons, atStep_eq s ai hn] at h
  split at h
  · cases h
  · exact h

/-- the loop leaves older attacker objects alone, allocates one reference per model attacker and gives each new
object an `id` -/
theorem loop_frame (l : List PyAttackerInfo) (hn : ∀ ai ∈ l, truthyOptStr ai.name = true) (s s' : H)
    (h : loopE atStep l s = .ok s') :
    (∀ b, b < s.afresh → s'.a b = s.a b) ∧ s'.afresh = s.afresh + l.length ∧
    (∀ i, i < l.length → ((s'.a (s.afresh + i)).id).isSome = true) := by
  induction l generalizing s with
  | nil => rw [loopE_nil] at h; cases h; exact ⟨fun _ _ => rfl, rfl, fun i hi => absurd hi (Nat.not_lt_zero i)⟩
  | cons ai l ih =>
    have h' := loopE_atStep_cons (hn ai List.mem_cons_self) h
    obtain ⟨i1, i2, i3⟩ := ih (fun x hx => hn x (List.mem_cons_of_mem _ hx)) _ h'
    obtain ⟨f1, f2, f3⟩ := atStepH_a s ai
    rw [f3] at i1 i2 i3
    refine ⟨fun b hb => (i1 b (Nat.lt_succ_of_lt hb)).trans (f2 b (Nat.ne_of_lt hb)), ?_, ?_⟩
    · rw [i2, List.length_cons, Nat.add_assoc, Nat.add_comm 1]
    · intro i hi
      cases i with
      | zero => rw [Nat.add_zero, i1 _ (Nat.lt_succ_self _), f1]; rfl
      | succ j =>
        have := i3 j (Nat.lt_of_succ_lt_succ (by rw [List.length_cons] at hi; exact hi))
        rw [show s.afresh + (j + 1) = s.afresh + 1 + j by rw [Nat.add_assoc, Nat.add_comm 1]]
        exact this

theorem loop_names (l : List PyAttackerInfo) (s s' : H) (h : loopE atStep l s = .ok s') :
    ∀ ai ∈ l, truthyOptStr ai.name = true := by
  induction l generalizing s with
  | nil => intro ai hai; cases hai
  | cons x l ih =>
    rw [loopE_cons] at h
    obtain ⟨s1, h1, h2⟩ := bind_ok h
    have hx : truthyOptStr x.name = true := by
      unfold atStep at h1
      cases hv : truthyOptStr x.name with
      | true => rfl
      | false => rw [hv] at h1; cases h1
    intro ai hai
    rcases List.mem_cons.1 hai with e | hai
    · rw [e]; exact hx
    · exact ih s1 h2 ai hai

end TA
open TA

/-- **outcomes correspond**: for an environment with a model whose attackers all have a non-empty name, the
translated `attach_attackers` and the hand model's `attach` both succeed (and the abstraction commutes) or both
raise `ValueError` -/
theorem attach_sim (s : H) (env : EvalEnv) (hm : env.has_model = true) (hn : NamesOK env) :
    Sim (graph_attach_attackers s env) (attach (absH s) (attsOf env)) := by
  rw [attach_attackers_eq, if_neg (by rw [hm]; decide)]
  exact loop_sim env.attackers hn s

/-- **tie**: when the translated `attach_attackers` returns, the hand model's `attach` returns the abstraction of
the resulting heap -/
theorem attach_tie (s s' : H) (env : EvalEnv) (hm : env.has_model = true) (hn : NamesOK env)
    (h : graph_attach_attackers s env = .ok s') : attach (absH s) (attsOf env) = .ok (absH s') := by
  have := attach_sim s env hm hn
  rw [h] at this
  cases ha : attach (absH s) (attsOf env) with
  | error e => rw [ha] at this; exact this.elim
  | ok t => rw [ha] at this; exact congrArg _ (this : absH s' = t).symm

/-- … and conversely -/
theorem attach_tie_conv (s : H) (t : St) (env : EvalEnv) (hm : env.has_model = true) (hn : NamesOK env)
    (h : attach (absH s) (attsOf env) = .ok t) : ∃ s', graph_attach_attackers s env = .ok s' ∧ absH s' = t := by
  have := attach_sim s env hm hn
  rw [h] at this
  cases hg : graph_attach_attackers s env with
  | error e => rw [hg] at this; exact this.elim
  | ok s' => rw [hg] at this; exact ⟨s', rfl, this⟩

/-- the translated code raises exactly when the hand model rejects, and then with `ValueError` (an attacker id in
use) -/
theorem attach_error_iff (s : H) (env : EvalEnv) (hm : env.has_model = true) (hn : NamesOK env) (e : PyErr) :
    graph_attach_attackers s env = .error e ↔
      e = .valueError ∧ attach (absH s) (attsOf env) = .error .valueError := by
  have := attach_sim s env hm hn
  cases hg : graph_attach_attackers s env with
  | ok s' =>
    rw [hg] at this
    constructor
    · intro h; cases h
    · rintro ⟨_, h2⟩; rw [h2] at this; exact this.elim
  | error e' =>
    rw [hg] at this
    cases ha : attach (absH s) (attsOf env) with
    | ok t => rw [ha] at this; exact this.elim
    | error e'' =>
      rw [ha] at this
      obtain ⟨h1, h2⟩ := (this : e' = .valueError ∧ e'' = .valueError)
      subst h1; subst h2
      constructor
      · intro h; cases h; exact ⟨rfl, rfl⟩
      · rintro ⟨h, _⟩; rw [h]

/-- the two guards the hand model does not have: without a model … -/
theorem attach_guard_model (s : H) (env : EvalEnv) (hm : env.has_model = false) :
    graph_attach_attackers s env = .error .attackGraphException := by
  rw [attach_attackers_eq, if_pos (by rw [hm]; rfl)]

/-- … or when the first model attacker has no (or an empty) name, `AttackGraphException` is raised -/
theorem attach_guard_name (s : H) (env : EvalEnv) (ai : PyAttackerInfo) (rest : List PyAttackerInfo)
    (hm : env.has_model = true) (hl : env.attackers = ai :: rest) (hn : truthyOptStr ai.name = false) :
    graph_attach_attackers s env = .error .attackGraphException := by
  rw [attach_attackers_eq, if_neg (by rw [hm]; decide), hl, TG.loopE_cons]
  unfold atStep
  rw [if_pos (by rw [hn]; rfl)]
  rfl

/-- **totality**: in a consistent state, with a model whose attackers are all named, `attach_attackers` returns -/
theorem attach_ok (s : H) (env : EvalEnv) (hm : env.has_model = true) (hn : NamesOK env)
    (hc : Consistent (absH s)) : ∃ s', graph_attach_attackers s env = .ok s' := by
  obtain ⟨t, ht⟩ := MalVerif.C11.attach_ok (absH s) (attsOf env) hc
  obtain ⟨s', h, _⟩ := attach_tie_conv s t env hm hn ht
  exact ⟨s', h⟩
/-- a successful `attach_attackers` had a model whose attackers are all named; it leaves the attacker objects
allocated before alone, allocates one reference per model attacker, and every new object has an `id` -/
theorem attach_frame (s s' : H) (env : EvalEnv) (h : graph_attach_attackers s env = .ok s') :
    env.has_model = true ∧ NamesOK env ∧ (∀ b, b < s.afresh → s'.a b = s.a b) ∧
    s'.afresh = s.afresh + env.attackers.length ∧ s'.nfresh = s.nfresh ∧
    (∀ i, i < env.attackers.length → ((s'.a (s.afresh + i)).id).isSome = true) := by
  rw [attach_attackers_eq] at h
  cases hm : env.has_model with
  | false => rw [hm] at h; cases h
  | true =>
    rw [hm] at h
    have h' : TG.loopE atStep env.attackers s = .ok s' := h
    have hn := loop_names env.attackers s s' h'
    obtain ⟨f1, f2, f3⟩ := loop_frame env.attackers hn s s' h'
    refine ⟨rfl, hn, f1, f2, ?_, f3⟩
    have := attach_tie s s' env hm hn (by rw [attach_attackers_eq, hm]; exact h')
    have hf := (MalVerif.AGS.attach_frameN (attsOf env) (absH s) (absH s') this)
    exact TG.loopE_pres atStep (fun t => t.nfresh = s.nfresh) (fun t x t' ht h0 => by
      by_cases hx : truthyOptStr x.name = true
      · rw [atStep_eq t x hx] at ht
        split at ht
        · cases ht
        · cases ht; exact ((atTail_fresh _ _ _).1).trans h0
      · unfold atStep at ht
        rw [if_pos (by simpa using hx)] at ht; cases ht) env.attackers s s' h' rfl

end MalVerif.Py.Tie
