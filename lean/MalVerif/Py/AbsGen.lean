import MalVerif.Py.AbsEval
import MalVerif.Model.Gen
/-!
# The environment of the translated graph generation, instantiated from the hand-written model

`genEnvOf L m atts` says how a language specification `L` (`Model/Lang.lean`), an instance model `m` and the
model's attacker attachments appear to the translated `_generate_graph` / `attach_attackers`
(`Py/Gen/Nodes.lean`, `Py/Gen/Regen.lean`, `Py/Gen/Attach.lean`) through the parameters of `EvalEnv`:

* `model.assets` are the assets of `m` in order (`assetObj`: `.id`, `.type`, `.name`);
* `lang_graph._get_attacks_for_asset_type(t)` is `L.foldSteps t` (the hand model of that method,
  `Model/Inherit.lean`; C14 / C15 relate it to the Python), each step declaration rendered as the dictionary
  `attribsOf d`;
* `getattr(asset, defense)` is the value recorded for the asset in `m` (`IAsset.defenses`), else the default of
  the defense (`defaultDefense`: what `LanguageClassesFactory` gives the generated class).

Like `envOf` (which it extends) this is part of the trusted base of the second tie: it is the *assumed* behaviour
of the methods that are parameters of the translation.
-/
namespace MalVerif.Py
open MalVerif

/-- a Python float given by its canonical text (`repr`); the comparison class is exact for `0.0` and `1.0`, every
other text is taken to lie strictly between (defense values are probabilities) -/
def floatOf (t : String) : PyFloat :=
  { text := t, cls := if t = "1.0" then .one else if t = "0.0" then .zero else .mid }

/-- the asset object of an asset of the instance model -/
def assetObj (a : IAsset) : PyAssetObj := { id := a.id, type := a.type, name := a.name }

/-- the `ttc` value of a step declaration: `None`, or the dictionary with its `name` key (when the TTC is a
single distribution) and — under the pseudo-key `"<json>"` — the canonical JSON text of the whole value -/
def ttcDict (ttc : String) (ttcName : Option String) : Option PyDictS :=
  if ttc = "null" then none
  else some ((match ttcName with | some n => [("name", n)] | none => []) ++ [("<json>", ttc)])

/-- the `meta` dictionary of a step declaration: its `mitre` key (when present) and the canonical JSON text -/
def metaDict (d : StepDecl) : PyDictS :=
  (match d.mitre with | some x => [("mitre", x)] | none => []) ++ [("<json>", d.metaTxt)]

/-- the resolved attack-step dictionary of a step declaration -/
def attribsOf (d : StepDecl) : PyAttribs :=
  { type := d.type, ttc := ttcDict d.ttc d.ttcName, tags := d.tags, meta_ := metaDict d
    requires := d.requires.map (fun es => { stepExpressions := es.map exprOf })
    reaches := d.reaches.map (fun r => { overrides := r.overrides, stepExpressions := r.exprs.map exprOf }) }

/-- `getattr(asset, sn)` for a defense `sn` of the asset's type -/
def defenseValue (L : Lang) (m : Inst) (a : PyAssetObj) (sn : String) : Option PyFloat :=
  match m.find a.id, (L.foldSteps a.type).find? (fun e => e.1 = sn) with
  | some ia, some e => some (floatOf (((ia.defenses.find? (·.1 = sn)).map (·.2)).getD (defaultDefense e.2)))
  | _, _ => none

def genEnvOf (L : Lang) (m : Inst) (atts : List PyAttackerInfo := []) (evalFuel : Nat := 0) : EvalEnv :=
  { envOf L m evalFuel with
    assets := m.assets.map assetObj
    attackers := atts
    _get_attacks_for_asset_type := fun t => (L.foldSteps t).map (fun e => (e.1, attribsOf e.2))
    getattr_asset := defenseValue L m }

end MalVerif.Py
