import MalVerif.Py.TieLangTypeSpec
/-!
# The first five loops of the translated `_generate_graph` do not depend on `recLimit`

`phaseAssets`, `phaseInherit`, `phaseCheckEnds`, `phaseAssocs`, `phaseSteps` (`Py/TieLangTypePhases.lean`) never read
the field `recLimit` of the heap `TH` and never write it (only the sixth loop, `phaseLinks`, passes it on as the fuel of
`process_step_expression` / `reverse_dep_chain`).  So each of them commutes with `withRec R` (overwrite `recLimit`),
and so does their composition started from `TH.init spec R` (`firstFive_withRec`).

Method: every primitive of `PreludeLangType.lean` commutes with `withRec R` by `rfl` (structure eta), every read gives
the same value by `rfl`; the loops go through the generic `Param.forIn_map_comm` (the loop states of the nested loops
of `phaseAssocs` are tuples, `withRec R` acts on the first component).
-/
namespace MalVerif.Py.TieLangType
open MalVerif MalVerif.Py MalVerif.Py.LSpec MalVerif.Py.LType MalVerif.Py.GenLangType MalVerif.LG

/-- overwrite the remaining recursion depth of the heap -/
def withRec (R : Nat) (s : TH) : TH := { s with recLimit := R }

namespace Param

/-- the action of a map of loop states on `ForInStep` -/
def stepMap {σ : Type} (φ : σ → σ) : ForInStep σ → ForInStep σ
  | .yield s => .yield (φ s)
  | .done s => .done (φ s)

/-- a loop whose body commutes with `φ` commutes with `φ` -/
theorem forIn_map_comm {α σ : Type} (φ : σ → σ) (l : List α) (f g : α → σ → Except PyErr (ForInStep σ))
    (hf : ∀ a s, g a (φ s) = (f a s).map (stepMap φ)) (s : σ) :
    forIn l (φ s) g = (forIn l s f).map φ := by
  induction l generalizing s with
  | nil => rfl
  | cons a l ih =>
    simp only [List.forIn_cons, hf]
    cases h : f a s with
    | error e => rfl
    | ok r =>
      cases r with
      | done t => rfl
      | yield t =>
        simp only [Except.map, stepMap, bind, Except.bind]
        exact ih t

theorem bind_map_comm {α β : Type} (φ : α → α) (ψ : β → β) (x : Except PyErr α) (g g' : α → Except PyErr β)
    (hg : ∀ a, g' (φ a) = (g a).map ψ) : (x.map φ >>= g') = (x >>= g).map ψ := by
  cases x with
  | error e => rfl
  | ok a => exact hg a

/-- the same first action on both sides -/
theorem bind_same {α β : Type} (ψ : β → β) (x : Except PyErr α) (g g' : α → Except PyErr β)
    (h : ∀ a, g' a = (g a).map ψ) : (x >>= g') = (x >>= g).map ψ := by
  cases x with
  | error e => rfl
  | ok a => exact h a

/-- a loop without mutable state, followed by returning the heap -/
theorem unit_bind_comm {σ : Type} (φ : σ → σ) (s : σ) (x : Except PyErr PUnit) :
    (x >>= fun _ => pure (φ s)) = Except.map φ (x >>= fun _ => pure s) := by
  cases x <;> rfl

theorem forIn_bind_comm {α σ β : Type} (φ : σ → σ) (ψ : β → β) (l : List α)
    (f g : α → σ → Except PyErr (ForInStep σ)) (s : σ) (k k' : σ → Except PyErr β)
    (hf : ∀ a s, g a (φ s) = (f a s).map (stepMap φ))
    (hk : ∀ t, k' (φ t) = (k t).map ψ) :
    (forIn l (φ s) g >>= k') = (forIn l s f >>= k).map ψ := by
  rw [forIn_map_comm φ l f g hf]
  exact bind_map_comm φ ψ _ k k' hk

/-- `forIn_bind_comm` with the initial state of the left side as a variable (for unification) -/
theorem forIn_bind_comm' {α σ β : Type} (φ : σ → σ) (ψ : β → β) (l : List α)
    (f g : α → σ → Except PyErr (ForInStep σ)) (s' s : σ) (k k' : σ → Except PyErr β)
    (hs : s' = φ s)
    (hf : ∀ a s, g a (φ s) = (f a s).map (stepMap φ))
    (hk : ∀ t, k' (φ t) = (k t).map ψ) :
    (forIn l s' g >>= k') = (forIn l s f >>= k).map ψ := by
  subst hs
  exact forIn_bind_comm φ ψ l f g s k k' hf hk

theorem ite_map {β : Type} (ψ : β → β) (c : Prop) [Decidable c] (x y x' y' : Except PyErr β)
    (hx : x' = x.map ψ) (hy : y' = y.map ψ) :
    (if c then x' else y') = (if c then x else y).map ψ := by
  split <;> assumption

/-! the reads -/
@[simp] theorem withRec_g (R s) : (withRec R s).g = s.g := rfl
@[simp] theorem withRec_spec (R s) : (withRec R s).spec = s.spec := rfl
@[simp] theorem withRec_steps (R s) : (withRec R s).steps = s.steps := rfl
@[simp] theorem withRec_asteps (R s) : (withRec R s).asteps = s.asteps := rfl
@[simp] theorem withRec_cdesc (R s) : (withRec R s).cdesc = s.cdesc := rfl
@[simp] theorem withRec_adesc (R s) : (withRec R s).adesc = s.adesc := rfl
@[simp] theorem withRec_nextA (R s) : (withRec R s).nextA = s.nextA := rfl
@[simp] theorem withRec_nextC (R s) : (withRec R s).nextC = s.nextC := rfl
@[simp] theorem withRec_attack_steps (R s) : (withRec R s).attack_steps = s.attack_steps := rfl
@[simp] theorem withRec_recLimit (R s) : (withRec R s).recLimit = R := rfl
@[simp] theorem withRec_gstep (R s r) : (withRec R s).gstep r = s.gstep r := rfl
@[simp] theorem withRec_whileFuel (R s) : pyWhileFuelT (withRec R s) = pyWhileFuelT s := rfl
@[simp] theorem withRec_assocEq (R s a b) : lgAssocEq (withRec R s) a b = lgAssocEq s a b := rfl
@[simp] theorem withRec_inAssocs (R s x l) : pyInAssocs (withRec R s) x l = pyInAssocs s x l := rfl
theorem withRec_withRec (R R' s) : withRec R (withRec R' s) = withRec R s := rfl
theorem init_withRec (spec : LS) (R : Nat) : TH.init spec R = withRec R (TH.init spec 0) := rfl

/-! the writes -/
theorem newAsset_withRec (R s n d b) :
    (withRec R s).newAsset n d b = (withRec R (s.newAsset n d b).1, (s.newAsset n d b).2) := rfl
theorem setAsset_withRec (R s r v) : (withRec R s).setAsset r v = withRec R (s.setAsset r v) := rfl
theorem newAssoc_withRec (R s n l r d) :
    (withRec R s).newAssoc n l r d = (withRec R (s.newAssoc n l r d).1, (s.newAssoc n l r d).2) := rfl
theorem newStep_withRec (R s n t a c d) :
    (withRec R s).newStep n t a c d = (withRec R (s.newStep n t a c d).1, (s.newStep n t a c d).2) := rfl
theorem setStepObj_withRec (R s r v) : (withRec R s).setStepObj r v = withRec R (s.setStepObj r v) := rfl
theorem appendAssets_withRec (R s a) : (withRec R s).appendAssets a = withRec R (s.appendAssets a) := rfl
theorem appendAssociations_withRec (R s c) :
    (withRec R s).appendAssociations c = withRec R (s.appendAssociations c) := rfl
theorem appendAttackSteps_withRec (R s t) :
    (withRec R s).appendAttackSteps t = withRec R (s.appendAttackSteps t) := rfl
theorem appendSub_withRec (R s a b) : (withRec R s).appendSub a b = withRec R (s.appendSub a b) := rfl
theorem appendSuper_withRec (R s a b) : (withRec R s).appendSuper a b = withRec R (s.appendSuper a b) := rfl
theorem appendAssoc_withRec (R s a c) : (withRec R s).appendAssoc a c = withRec R (s.appendAssoc a c) := rfl
theorem appendAStep_withRec (R s a t) : (withRec R s).appendAStep a t = withRec R (s.appendAStep a t) := rfl
theorem setSpec_withRec (R) (s : TH) (sp : LS) :
    { withRec R s with spec := sp } = withRec R { s with spec := sp } := rfl

/-- `_get_associations_for_asset_type` reads `s.spec` and `pyWhileFuelT s` only -/
theorem get_associations_withRec (f : Nat) (R : Nat) (s : TH) (t : String) :
    lg__get_associations_for_asset_type f (withRec R s) t = lg__get_associations_for_asset_type f s t := by
  induction f generalizing t with
  | zero => rfl
  | succ f ih =>
    rw [lg__get_associations_for_asset_type, lg__get_associations_for_asset_type]
    simp only [ih, withRec_spec, withRec_whileFuel]

end Param

open Param

/-- loop 1 commutes with overwriting `recLimit` -/
theorem phaseAssets_withRec (R) (s) : phaseAssets (withRec R s) = (phaseAssets s).map (withRec R) := by
  unfold phaseAssets
  simp only [bind_pure]
  refine forIn_map_comm (withRec R) _ _ _ ?_ s
  intro a s
  rfl

/-- loop 2 commutes with overwriting `recLimit` -/
theorem phaseInherit_withRec (R) (s) : phaseInherit (withRec R s) = (phaseInherit s).map (withRec R) := by
  unfold phaseInherit
  simp only [bind_pure]
  refine forIn_map_comm (withRec R) _ _ _ ?_ s
  intro a s
  simp only [withRec_g]
  split
  · split
    · generalize List.find? _ _ = o
      cases o <;> rfl
    · rfl
  · rfl

/-- loop 3 commutes with overwriting `recLimit` -/
theorem phaseCheckEnds_withRec (R) (s) : phaseCheckEnds (withRec R s) = (phaseCheckEnds s).map (withRec R) := by
  unfold phaseCheckEnds
  exact unit_bind_comm (withRec R) s _

/-- loop 4 commutes with overwriting `recLimit` -/
theorem phaseAssocs_withRec (R) (s) : phaseAssocs (withRec R s) = (phaseAssocs s).map (withRec R) := by
  unfold phaseAssocs
  simp only [bind_pure]
  refine forIn_map_comm (withRec R) _ _ _ ?_ s
  intro a s
  refine bind_same _ _ _ _ fun n => ?_
  rw [get_associations_withRec]
  refine bind_same _ _ _ _ fun assocs => ?_
  refine forIn_bind_comm (fun p : TH × GARef => (withRec R p.1, p.2)) (stepMap (withRec R)) _ _ _
    (s, a) _ _ ?_ ?_
  · rintro c ⟨s, a⟩
    simp only [withRec_g]
    split
    · split
      · split
        · rfl
        · refine forIn_bind_comm' (fun p : TH × GARef × List GARef => (withRec R p.1, p.2))
            (stepMap (fun p : TH × GARef => (withRec R p.1, p.2))) _ _ _ _ _ _ _ rfl ?_ ?_
          · rintro x ⟨t, b, l⟩
            refine ite_map _ _ _ _ _ _ rfl ?_
            refine bind_same _ _ _ _ fun p => ?_
            exact ite_map _ _ _ _ _ _ rfl rfl
          · rintro ⟨t, b, l⟩
            exact ite_map _ _ _ _ _ _ rfl rfl
      · rfl
    · rfl
  · intro t
    rfl

/-- loop 5 commutes with overwriting `recLimit` -/
theorem phaseSteps_withRec (R) (s) : phaseSteps (withRec R s) = (phaseSteps s).map (withRec R) := by
  unfold phaseSteps
  simp only [bind_pure]
  refine forIn_map_comm (withRec R) _ _ _ ?_ s
  intro a s
  refine bind_same _ _ _ _ fun n => ?_
  refine bind_same _ _ _ _ fun r => ?_
  refine forIn_bind_comm (withRec R) (stepMap (withRec R)) _ _ _ { s with spec := r.1 } _ _ ?_ ?_
  · intro x t
    rfl
  · intro t
    rfl

/-- **the first five loops, started on the empty graph, do not depend on the recursion limit** -/
theorem firstFive_withRec (spec : LS) (R : Nat) :
    (phaseAssets (TH.init spec R) >>= phaseInherit >>= phaseCheckEnds >>= phaseAssocs >>= phaseSteps) =
    (phaseAssets (TH.init spec 0) >>= phaseInherit >>= phaseCheckEnds >>= phaseAssocs >>= phaseSteps).map
      (withRec R) := by
  show (phaseAssets (withRec R (TH.init spec 0)) >>= _ >>= _ >>= _ >>= _) = _
  rw [phaseAssets_withRec]
  refine bind_map_comm (withRec R) (withRec R) _ _ _ (phaseSteps_withRec R) |> Eq.trans ?_
  congr 1
  refine bind_map_comm (withRec R) (withRec R) _ _ _ (phaseAssocs_withRec R) |> Eq.trans ?_
  congr 1
  refine bind_map_comm (withRec R) (withRec R) _ _ _ (phaseCheckEnds_withRec R) |> Eq.trans ?_
  congr 1
  exact bind_map_comm (withRec R) (withRec R) _ _ _ (phaseInherit_withRec R)

end MalVerif.Py.TieLangType
