import MalVerif.Py.Prelude
/-!
# Prelude of the translated language-graph lookups (`translators/py2lean_lang.py`)

The files `MalVerif/Py/GenLang/*.lean` are **generated** from the current source of
`maltoolbox/language/languagegraph.py` on every run.  This prelude fixes, once and by hand, how the Python
objects those functions touch appear in Lean.  Every definition is part of the trusted base; each one names the
Python behaviour it stands for.

## Part A — the language specification (`LanguageGraph._lang_spec`), a tree of mutable dicts and lists

* an attack-step dictionary, a `reaches` dictionary and a `stepExpressions` list are **objects**: references
  (`Nat`) into three stores of the heap `LS`.  A store is a `List`; allocation appends a cell (the new reference is
  the old length); reading a dangling reference gives a default object (never happens on well-formed heaps).
* `a = b` shares the reference; `copy.deepcopy(x)` allocates fresh objects with equal contents, all the way
  down (`deepcopyStep`, `deepcopyList`); `l.extend(m)` rewrites the cell of `l` in place (`LS.extendList`);
  a dict display `{'overrides': .., 'stepExpressions': ..}` allocates a new `reaches` dictionary;
  `d['reaches'] = r` rewrites the cell of the step dictionary `d` in place.
* the asset dictionaries, the lists `asset['attackSteps']`, `asset['variables']`, `_lang_spec['assets']`,
  `_lang_spec['associations']` and everything else inside a step dictionary (tags, ttc, meta, requires) are
  **values**: the translator refuses every statement that would write to them (so they are immutable *by refusal*:
  a change of the source that writes to one of them makes the source untranslatable, it cannot be translated
  into something that looks pure).
* a `reaches` dictionary always has both keys `overrides` and `stepExpressions` (what the compiler and the
  `.mar` loader produce); hence it is never empty and `'stepExpressions' in r` is true, `not r` is `r is None`.
* step expressions (JSON trees) are immutable values, `PyExpr` of `Py/Prelude.lean`.
* a local `dict` with string keys is an association list with Python's update order (`dictSet`/`dictIn` of
  `Py/Prelude.lean`); `d[k]` raises `KeyError` when `k` is absent (`pyGetItem`).
* subscripting / membership test on `None` raises `TypeError` (`pyNotNone`, here `PyErr.other`).

## Part B — the language graph objects (`LanguageGraphAsset`, `LanguageGraphAssociation`): see below.
-/
namespace MalVerif.Py.LSpec
open MalVerif.Py

abbrev SRef := Nat
abbrev RRef := Nat
abbrev LRef := Nat

/-- a `reaches` dictionary: `{'overrides': <bool>, 'stepExpressions': <list object>}` -/
structure PyReachesD where
  overrides : Bool := false
  stepExpressions : LRef := 0
  deriving Repr, DecidableEq, Inhabited

/-- an attack-step dictionary of the language specification.  `reaches` is `None` or a reference to a `reaches`
dictionary; the other entries are never written by the translated code and are carried as values (canonical
text for opaque payloads, as in `Model/Lang.lean: StepDecl`). -/
structure PyStepD where
  name : String := ""
  type : String := "or"
  tags : List String := []
  ttc : String := "null"
  ttcName : Option String := none
  metaTxt : String := "{}"
  mitre : Option String := none
  risk : String := "null"
  requires : Option (List PyExpr) := none
  reaches : Option RRef := none
  deriving Repr, Inhabited

/-- a variable dictionary `{'name': .., 'stepExpression': ..}` (value) -/
structure PyVarD where
  name : String := ""
  stepExpression : PyExpr := .missing
  deriving Repr, Inhabited

/-- an asset dictionary (value; `attackSteps` is the list of the step-dictionary objects) -/
structure PyAssetD where
  name : String := ""
  superAsset : Option String := none
  isAbstract : Bool := false
  variables : List PyVarD := []
  attackSteps : List SRef := []
  metaTxt : String := "{}"
  category : String := ""
  deriving Repr, Inhabited

/-- an association dictionary (value) -/
structure PyAssocD where
  name : String := ""
  leftAsset : String := ""
  leftField : String := ""
  leftMin : Nat := 0
  leftMax : Option Nat := none
  rightAsset : String := ""
  rightField : String := ""
  rightMin : Nat := 0
  rightMax : Option Nat := none
  metaTxt : String := "{}"
  deriving Repr, DecidableEq, Inhabited

/-- the heap of the language specification: three object stores, and the two top-level lists of `_lang_spec` -/
structure LS where
  stepD : List PyStepD := []
  reachD : List PyReachesD := []
  exprL : List (List PyExpr) := []
  assets : List PyAssetD := []
  associations : List PyAssocD := []
  deriving Inhabited

/-- the step dictionary at a reference -/
def LS.step (s : LS) (r : SRef) : PyStepD := (s.stepD[r]?).getD {}
/-- the `reaches` dictionary at a reference -/
def LS.reach (s : LS) (r : RRef) : PyReachesD := (s.reachD[r]?).getD {}
/-- the content of a list object -/
def LS.list (s : LS) (l : LRef) : List PyExpr := (s.exprL[l]?).getD []

/-- a new step dictionary object -/
def LS.allocStep (s : LS) (d : PyStepD) : LS × SRef := ({ s with stepD := s.stepD ++ [d] }, s.stepD.length)
/-- `{'overrides': o, 'stepExpressions': l}`: a new `reaches` dictionary object -/
def LS.allocReach (s : LS) (d : PyReachesD) : LS × RRef := ({ s with reachD := s.reachD ++ [d] }, s.reachD.length)
/-- a new list object with the given content -/
def LS.allocList (s : LS) (c : List PyExpr) : LS × LRef := ({ s with exprL := s.exprL ++ [c] }, s.exprL.length)

/-- `d[key] = v` on a step dictionary object: the cell is rewritten in place -/
def LS.setStep (s : LS) (r : SRef) (d : PyStepD) : LS := { s with stepD := s.stepD.set r d }
/-- `l.extend(m)` (also `l += m`): the cell of `l` is rewritten in place with the content of `m` appended
(CPython copies `m` first when `m is l`, so `l.extend(l)` doubles the list: the same formula) -/
def LS.extendList (s : LS) (l m : LRef) : LS := { s with exprL := s.exprL.set l (s.list l ++ s.list m) }

/-- `copy.deepcopy(l)` for a `stepExpressions` list: a new list object, equal content (the elements are
immutable values) -/
def deepcopyList (s : LS) (l : LRef) : LS × LRef := s.allocList (s.list l)

/-- `copy.deepcopy(step)` for a step dictionary: a new step dictionary, and — when `reaches` is not `None` — a
new `reaches` dictionary holding a new list object; equal contents everywhere -/
def deepcopyStep (s : LS) (r : SRef) : LS × SRef :=
  match (s.step r).reaches with
  | none => s.allocStep (s.step r)
  | some rr =>
    let a := s.allocList (s.list (s.reach rr).stepExpressions)
    let b := a.1.allocReach { overrides := (s.reach rr).overrides, stepExpressions := a.2 }
    b.1.allocStep { s.step r with reaches := some b.2 }

/-- `d[k]` on a local dictionary: `KeyError` when absent -/
def pyGetItem {ν} (d : List (String × ν)) (k : String) : Except PyErr ν :=
  match dictGet d k with
  | some v => .ok v
  | none => .error .keyError

/-- `x[..]` / `k in x` where `x` may be `None`: `TypeError` (rendered `PyErr.other`) -/
def pyNotNone {α} (x : Option α) : Except PyErr α :=
  match x with
  | some v => .ok v
  | none => .error .other

/-- `k in r` for a `reaches` dictionary: it has exactly the two keys `overrides` and `stepExpressions` -/
def pyReachHasKey (_r : RRef) (k : String) : Bool := k == "overrides" || k == "stepExpressions"

/-- truthiness of an `Optional[str]` with the value at hand: `None` and `''` are falsy -/
def pyTruthyStr (x : Option String) : Option String :=
  match x with
  | some v => if v == "" then none else some v
  | none => none

/-- a Python local that holds `None`, a variable dictionary or a step-expression dictionary — the local
`variable_dict` of `_get_variable_for_asset_type_by_name` is used for all three, and so is its result -/
inductive PyVarObj
  | none
  | var (v : PyVarD)
  | expr (e : PyExpr)
  deriving Repr, Inhabited

/-- the result of `next((v for v in asset['variables'] if ..), None)` stored into such a local -/
def PyVarObj.ofOptVar : Option PyVarD → PyVarObj
  | some v => .var v
  | Option.none => .none

/-- truthiness: `None` is falsy; a variable dictionary and a step-expression dictionary are non-empty dicts -/
def PyVarObj.truthy : PyVarObj → Bool
  | .none => false
  | _ => true

/-- `x['stepExpression']`: `TypeError` on `None`; the entry of a variable dictionary; on a step-expression
dictionary the sub-expression under that key (`PyExpr.stepExpression`, `missing` where Python raises `KeyError`) -/
def pyVarObjGet (x : PyVarObj) (_k : String) : Except PyErr PyVarObj :=
  match x with
  | .none => .error .other
  | .var v => .ok (.expr v.stepExpression)
  | .expr e => .ok (.expr e.stepExpression)

/-- fuel handed to the recursion over `superAsset` when it is entered from outside: one more than the number
of asset dictionaries (enough for every acyclic `extends`; exhaustion = `RecursionError`) -/
def pyFuelL (s : LS) : Nat := s.assets.length + 1

/-! ## Part B — the language graph objects (`LanguageGraphAsset`, `LanguageGraphAssociation`)

The translated functions of this part only *read* those objects (the translator refuses every write), so the
objects are records behind references and the heap `GH` is never updated.

* `LanguageGraphAssociationField` objects are read-only here and appear as values inside the association record.
* `==` on two `LanguageGraphAsset` objects is the comparison generated by `@dataclass` (the translator checks that
  the class is a plain `@dataclass` without `__eq__`): the tuples of all fields are compared, element by element,
  *identical objects are equal without being compared* (CPython's `PyObject_RichCompareBool` shortcut) and the first
  differing element decides.  Hence: the same object → `True`; different `name` (the first field) → `False`;
  two distinct objects with equal names → the outcome depends on the remaining fields and may recurse through
  `associations` (even without end).  That last outcome is a *parameter* of the heap (`deepEq`): no theorem
  depends on its value, the property theorems assume distinct names for distinct objects (`NamesUnique`), under
  which it is never consulted.
* `l.pop()` removes and returns the last element, `IndexError` (here `PyErr.other`) on an empty list.
* `while l:` is unrolled `pyWhileFuel s` times (one more than the number of asset objects of the graph); if the
  work list is still not empty then, the translation raises `PyErr.nonTermination` where the Python would go on.
-/

abbrev GARef := Nat
abbrev GCRef := Nat

/-- `LanguageGraphAssociationField` -/
structure PyLGField where
  asset : GARef := 0
  fieldname : String := ""
  minimum : Int := 0
  maximum : Int := 0
  deriving Repr, DecidableEq, Inhabited

/-- `LanguageGraphAsset` (the fields the translated code reads; `attack_steps`, `description` are not read) -/
structure PyLGAsset where
  name : Option String := none
  associations : List GCRef := []
  super_assets : List GARef := []
  sub_assets : List GARef := []
  is_abstract : Option Bool := none
  deriving Repr, DecidableEq, Inhabited

/-- `LanguageGraphAssociation` -/
structure PyLGAssoc where
  name : String := ""
  left_field : PyLGField := {}
  right_field : PyLGField := {}
  deriving Repr, DecidableEq, Inhabited

/-- the language graph: the object stores, `LanguageGraph.assets`, `LanguageGraph.associations` -/
structure GH where
  asset : GARef → PyLGAsset := fun _ => {}
  assoc : GCRef → PyLGAssoc := fun _ => {}
  assets : List GARef := []
  associations : List GCRef := []
  /-- outcome of the field-by-field comparison of two *distinct* asset objects with equal names (see above) -/
  deepEq : GARef → GARef → Bool := fun _ _ => false

/-- `a == b` on `LanguageGraphAsset` objects (dataclass value equality with CPython's identity shortcut) -/
def lgAssetEq (s : GH) (a b : GARef) : Bool :=
  a == b || ((s.asset a).name == (s.asset b).name && s.deepEq a b)

/-- `l.pop()` -/
def pyPop {α} (l : List α) : Except PyErr (α × List α) :=
  match l.getLast? with
  | some x => .ok (x, l.dropLast)
  | none => .error .other

/-- bound on the unrolling of a `while` loop over a work list of asset objects -/
def pyWhileFuel (s : GH) : Nat := s.assets.length + 1

end MalVerif.Py.LSpec
