import MalVerif.Py.Gen.Regen
import MalVerif.Py.Gen.Attach
import MalVerif.Py.Gen.Apriori
import MalVerif.Py.GenLang.Attacks
import MalVerif.Py.GenLang.Vars
import MalVerif.Py.GenLang.Assets
import MalVerif.Py.GenLang.Assocs
import MalVerif.Py.GenLangType.Build
import MalVerif.Py.GenMSerial.FromDict
import MalVerif.Py.GenModel.Lookup
import MalVerif.Py.AbsLang
import MalVerif.Py.AbsGen
/-!
# Prelude of the translated wrapper (`translators/py2lean_wrapper.py`, `maltoolbox/wrappers.py`)

`MalVerif/Py/GenWrapper/*.lean` are **generated** from the current source of `wrappers.py: create_attack_graph` and
`model.py: Model.load_from_file`.  This prelude fixes, once and by hand, how the objects these two functions pass
around appear in Lean, and how the calls they make are connected to the *generated* functions of the other
translation domains.  Every definition is part of the trusted base; each names the Python behaviour it stands for.

The objects (one Lean value per Python object, the heaps of the domains that translate their classes):
* a `LanguageGraph` is a heap `LType.TH` of the `langtype` domain (`spec : LSpec.LS` — the `_lang_spec` dictionary
  with its mutable step dictionaries — and `g : LSpec.GH`, the asset / association objects);
* a `Model` is a heap `PyM.H` of the `model` / `mserial` domains;
* an `AttackGraph` is `WGraph`: the heap `Py.H` of the core domain (object store of nodes and attackers + the
  containers of the graph) together with its attributes `lang_graph` and `model` — in the core domain these two
  attributes are the *environment* `EvalEnv` of the translated methods; `evalEnvOf` below builds that environment
  from the two heaps (this is the connection of the domains, conventions W4–W9);
* a `LanguageClassesFactory` is the language graph it was built from (`PyFactory`).

Conventions (W1 … W12, referred to in `notes/NOTES_wrapper.md`):
-/
namespace MalVerif.PyW
open MalVerif

/-- W1. Exceptions.  The classes the two translated functions can see: `zipfile.BadZipFile`, any other failure of the
file layer (`OSError`, a parse error …), `ValueError` / `KeyError` raised by the translated functions themselves,
`SystemExit(code)`, and the exceptions of the three domains whose generated code is called, tagged with the domain. -/
inductive WErr
  | badZipFile
  | fileError
  | valueError
  | keyError
  | typeError
  | systemExit (code : Int)
  | lang (e : Py.PyErr)
  | model (e : PyM.PyErr)
  | graph (e : Py.PyErr)
  deriving Repr, DecidableEq, Inhabited

/-- W1. `except C:` catches an exception `e` iff `isinstance(e, C)`; for the two classes named in `wrappers.py`:
`zipfile.BadZipFile` is raised only by the file layer; `AttackGraphStepExpressionError` only by the attack-graph
code (the language graph has its own `LanguageGraphStepExpressionError`, not a subclass). -/
def WErr.isInstance : WErr → String → Bool
  | .badZipFile, "zipfile.BadZipFile" => true
  | .graph .attackGraphStepExpressionError, "AttackGraphStepExpressionError" => true
  | _, _ => false

def liftLang {α} : Except Py.PyErr α → Except WErr α
  | .ok a => .ok a
  | .error e => .error (.lang e)
def liftModel {α} : Except PyM.PyErr α → Except WErr α
  | .ok a => .ok a
  | .error e => .error (.model e)
def liftGraph {α} : Except Py.PyErr α → Except WErr α
  | .ok a => .ok a
  | .error e => .error (.graph e)

/-- `LanguageClassesFactory(lang_graph)`: the factory keeps the language graph (W3) -/
structure PyFactory where
  lang_graph : Py.LType.TH

/-- the `AttackGraph` object: the core domain's heap and the two attributes that are its environment -/
structure WGraph where
  h : Py.H
  lang_graph : Py.LType.TH
  model : PyM.H

/-- W2. Parameters of the translation: the **file layer** (`read_mar p` = the parsed `langspec.json` inside the
archive `p`, `zipfile.BadZipFile` when `p` is not a zip archive; `compile_mal p` = `MalCompiler().compile(p)`;
`load_yaml` / `load_json` = `load_dict_from_yaml_file` / `load_dict_from_json_file`), the module-level dictionary
`maltoolbox.log_configs`, the two `save_to_file` methods (output only: they return nothing and cannot change the
object they are given), the interpreter limits, the parameters of the `model` / `mserial` domains, and the object
stores of the running process: constructors allocate in `mstore` / `gstore` (a new process has `{}`; in a process
that already built a graph `gstore` holds that graph's objects). -/
structure WEnv where
  read_mar : String → Except WErr Py.LSpec.LS
  compile_mal : String → Except WErr Py.LSpec.LS
  load_yaml : String → Except WErr PyM.PyDoc
  load_json : String → Except WErr PyM.PyDoc
  log_configs : String → Option String := fun _ => some ""
  lang_save_to_file : Py.LType.TH → String → Except WErr Unit := fun _ _ => .ok ()
  model_save_to_file : PyM.H → String → Except WErr Unit := fun _ _ => .ok ()
  recLimit : Nat := 1000
  evalFuel : Nat := 1000
  menv : PyM.ModelEnv := { eqA := fun _ _ => false, eqL := fun _ _ => false, whileFuel := 1000 }
  floatOk : String → Bool := fun _ => true
  lang_version : String := ""
  lang_id : String := ""
  toolbox_version : String := ""
  mstore : PyM.H := {}
  gstore : Py.H := {}

/-- `log_configs[k]` (`KeyError` when absent) -/
def pyCfg (w : WEnv) (k : String) : Except WErr String :=
  match w.log_configs k with | some v => .ok v | none => .error .keyError

/-- truthiness of a `str` -/
def pyTruthy (s : String) : Bool := !s.isEmpty

/-- `s.endswith(suffix)` -/
def pyEndsWith (s : String) (suffix : String) : Bool := suffix.toList.isSuffixOf s.toList
/-- `s.endswith((a, b, …))` -/
def pyEndsWithAny (s : String) (suffixes : List String) : Bool := suffixes.any (pyEndsWith s)

/-- use of a local that was initialised with `None` where a dictionary is expected (`TypeError` in `_from_dict`) -/
def pyNotNone {α} (x : Option α) : Except WErr α := match x with | some v => .ok v | none => .error .typeError

/-! ### the language graph -/

/-- W3. `LanguageGraph(spec)`: `__init__` stores the specification and runs `_generate_graph` — the GENERATED
`lg__generate_graph` of the `langtype` domain on a heap that holds nothing but the specification. -/
def newLanguageGraph (w : WEnv) (spec : Py.LSpec.LS) : Except WErr Py.LType.TH :=
  liftLang (Py.GenLangType.lg__generate_graph (Py.LType.TH.init spec w.recLimit))

/-- `LanguageGraph.from_mar_archive(path)` = `LanguageGraph(json.loads(ZipFile(path).read('langspec.json')))` -/
def lgFromMarArchive (w : WEnv) (path : String) : Except WErr Py.LType.TH := do
  newLanguageGraph w (← w.read_mar path)

/-- `LanguageGraph.from_mal_spec(path)` = `LanguageGraph(MalCompiler().compile(path))` -/
def lgFromMalSpec (w : WEnv) (path : String) : Except WErr Py.LType.TH := do
  newLanguageGraph w (← w.compile_mal path)

/-- `lang_graph.save_to_file(path)` -/
def lgSaveToFile (w : WEnv) (lg : Py.LType.TH) (path : String) : Except WErr Unit := w.lang_save_to_file lg path

/-- W3. `LanguageClassesFactory(lang_graph)`.  The classes the factory generates are not re-built here: what the
`mserial` domain assumes of them (`SEnv.lang`: the guards of python_jsonschema_objects for the language the
factory was built from; `classes` domain / C19) is instantiated with the specification of *this* language graph
(`senvOf`).  The construction is assumed not to raise. -/
def newFactory (_w : WEnv) (lg : Py.LType.TH) : Except WErr PyFactory := .ok ⟨lg⟩

/-- the environment of the translated `Model._from_dict` for a given factory -/
def senvOf (w : WEnv) (f : PyFactory) : PyM.SEnv :=
  { model := w.menv, lang := Py.LSpec.absLang f.lang_graph.spec, floatOk := w.floatOk,
    lang_version := w.lang_version, lang_id := w.lang_id, toolbox_version := w.toolbox_version }

/-! ### the instance model -/

/-- `Model._from_dict(doc, factory)` (classmethod): the GENERATED function of the `mserial` domain, allocating in the
model-object store of the process -/
def modelFromDict (w : WEnv) (doc : PyM.PyDoc) (f : PyFactory) : Except WErr PyM.H :=
  liftModel (PyM.Gen.model__from_dict w.mstore (senvOf w f) doc)

/-- `instance_model.save_to_file(path)` -/
def modelSaveToFile (w : WEnv) (m : PyM.H) (path : String) : Except WErr Unit := w.model_save_to_file m path

/-! ### the environment of the attack graph, from the two heaps -/

/-- W4. A pjs asset object as the core domain sees it (`PyAssetObj`: the values of `.id`, `.type`, `.name`) -/
def objOfRef (m : PyM.H) (r : PyM.ARef) : Py.PyAssetObj :=
  { id := PyM.attrInt (m.a r).id, type := (m.a r).type, name := PyM.attrStr (m.a r).name }

/-- W4. … and back: the asset object of the model with that `id` (the first one in `model.assets`) -/
def refOfObj (m : PyM.H) (o : Py.PyAssetObj) : Option PyM.ARef :=
  m.assets.find? (fun r => PyM.attrInt (m.a r).id == o.id)

/-- W5. an attack-step dictionary returned by `_get_attacks_for_asset_type`, as the core domain reads it
(`PyAttribs`); `ttc` / `meta` are rendered as in `Py/AbsGen.lean` -/
def attribsOfStep (s : Py.LSpec.LS) (r : Py.LSpec.SRef) : Py.PyAttribs :=
  { type := (s.step r).type, ttc := Py.ttcDict (s.step r).ttc (s.step r).ttcName, tags := (s.step r).tags
    meta_ := (match (s.step r).mitre with | some x => [("mitre", x)] | none => []) ++ [("<json>", (s.step r).metaTxt)]
    requires := (s.step r).requires.map (fun es => { stepExpressions := es })
    reaches := (s.step r).reaches.map (fun rr =>
      { overrides := (s.reach rr).overrides, stepExpressions := s.list (s.reach rr).stepExpressions }) }

/-- W6. `lang_graph._get_attacks_for_asset_type(t)` as a *function*: the GENERATED lookup of the `lang` domain run on
the specification heap, its answer read through the heap it leaves.  (The call allocates copies in the
specification heap; `EvalEnv` has no place for that heap — `specAfterLookups` below is the heap after the calls,
and `Py/TieWrapper.lean: attacks_threaded` shows that threading it gives the same answers.)  `[]` when it raises
(`EvalEnv` assumes it does not; it raises `RecursionError` exactly on a cyclic `extends`). -/
def attacksOf (spec : Py.LSpec.LS) (t : String) : List (String × Py.PyAttribs) :=
  match Py.GenLang.lg__get_attacks_for_asset_type (Py.LSpec.pyFuelL spec) spec t with
  | .ok r => r.2.map (fun e => (e.1, attribsOfStep r.1 e.2))
  | .error _ => []

/-- W6. the specification heap after the lookups for the given asset types, in order -/
def specAfterLookups (spec : Py.LSpec.LS) (ts : List String) : Py.LSpec.LS :=
  ts.foldl (fun sp t =>
    match Py.GenLang.lg__get_attacks_for_asset_type (Py.LSpec.pyFuelL sp) sp t with
    | .ok r => r.1
    | .error _ => sp) spec

/-- W7. `lang_graph._get_variable_for_asset_type_by_name(t, v)`: the GENERATED lookup; the core domain expects a
step-expression dictionary -/
def variableOf (spec : Py.LSpec.LS) (t v : String) : Except Py.PyErr Py.PyExpr :=
  match Py.GenLang.lg__get_variable_for_asset_type_by_name (Py.LSpec.pyFuelL spec) spec t v with
  | .ok (.expr e) => .ok e
  | .ok _ => .error .other
  | .error e => .error e

/-- W8. `a.is_subasset_of(b)` on the names of two asset objects (`LgAsset` of the core domain is the name): the
GENERATED method on the objects with these names; `False` if it raises (never on a built graph) -/
def isSubassetOf (g : Py.LSpec.GH) (a b : String) : Bool :=
  match Py.GenLang.lg_get_asset_by_name g a, Py.GenLang.lg_get_asset_by_name g b with
  | some ra, some rb =>
    (match Py.GenLang.lgasset_is_subasset_of g ra rb with | .ok x => x | .error _ => false)
  | _, _ => false

/-- W9. the attackers of the model as the core domain reads them -/
def attackersOf (m : PyM.H) : List Py.PyAttackerInfo :=
  m.attackers.map (fun t =>
    { name := (m.t t).name
      entry_points := (m.t t).entry_points.map (fun e => (objOfRef m (m.e e).asset, (m.e e).steps)) })

/-- W9. `getattr(asset, name)` on a pjs asset for a step `name` of its class: the assigned value, else the default of
the generated class (`1.0` for `[Enabled]`, else `0.0`: `defaultDefense`) — the convention of `assetProperties` of
the `mserial` prelude -/
def getattrAsset (spec : Py.LSpec.LS) (m : PyM.H) (o : Py.PyAssetObj) (sn : String) : Option Py.PyFloat :=
  match refOfObj m o, ((Py.LSpec.absLang spec).foldSteps o.type).find? (fun e => e.1 = sn) with
  | some r, some e =>
    some (Py.floatOf ((((m.a r).defenses.find? (·.1 = sn)).map (·.2)).getD (defaultDefense e.2)))
  | _, _ => none

/-- W4–W9. **The environment `AttackGraph` methods run in**, built from the language-graph heap and the model heap:
every method the core domain takes as a parameter is the GENERATED function of the domain that translates it. -/
def evalEnvOf (w : WEnv) (lg : Py.LType.TH) (m : PyM.H) : Py.EvalEnv :=
  { get_associated_assets_by_field_name := fun o f =>
      match refOfObj m o with
      | some r =>
        (match PyM.Gen.model_get_associated_assets_by_field_name m w.menv r f with
         | .ok l => l.map (objOfRef m)
         | .error _ => [])
      | none => []
    _get_variable_for_asset_type_by_name := variableOf lg.spec
    get_asset_by_name := fun t => (Py.GenLang.lg_get_asset_by_name lg.g t).map (fun r => ((lg.g.asset r).name).getD "")
    is_subasset_of := isSubassetOf lg.g
    whileFuel := m.assets.length + 2
    evalFuel := w.evalFuel
    has_model := true
    has_lang_graph := true
    assets := m.assets.map (objOfRef m)
    attackers := attackersOf m
    _get_attacks_for_asset_type := attacksOf lg.spec
    getattr_asset := getattrAsset lg.spec m }

/-! ### the attack graph -/

/-- W10. `AttackGraph(lang_graph, model)`: the GENERATED `__init__` of the core domain in the environment of the two
objects, allocating in the node store of the process.  The new object keeps both arguments; the language graph it
keeps is the one after the lookups `_generate_graph` made (one per asset of the model, in order). -/
def newAttackGraph (w : WEnv) (lg : Py.LType.TH) (m : PyM.H) : Except WErr WGraph := do
  let h ← liftGraph (Py.Gen.graph___init__ w.gstore (evalEnvOf w lg m))
  pure { h := h
         lang_graph := { lg with spec := specAfterLookups lg.spec (m.assets.map (fun r => (m.a r).type)) }
         model := m }

/-- W11. `attack_graph.attach_attackers()` -/
def agAttachAttackers (w : WEnv) (g : WGraph) : Except WErr WGraph := do
  let h ← liftGraph (Py.Gen.graph_attach_attackers g.h (evalEnvOf w g.lang_graph g.model))
  pure { g with h := h }

/-- W12. `calculate_viability_and_necessity(attack_graph)` -/
def agCalculate (_w : WEnv) (g : WGraph) : Except WErr WGraph := do
  let h ← liftGraph (Py.Gen.calculate_viability_and_necessity g.h)
  pure { g with h := h }

end MalVerif.PyW
