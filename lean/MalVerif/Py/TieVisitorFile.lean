import MalVerif.Py.TieVisitorDecls
import MalVerif.Py.TieVisitorEq
import MalVerif.Py.TieVisitorLex
/-!
# The whole-file tie: translated visitor ∘ tree builder ∘ lexer = rendered `compileFile`

* `malrest_tie`: `treeMalRest` (the tree builder's start rule) fails exactly when `parseMalRest` fails, leaves the same
  tokens, and the children of the `mal` node are visited to the renderings of the model's declarations;
* `visitTree_tie`: hence the translated `visitMal` on the tree of a completely consumed token list is the rendering of
  the model's `assemble`;
* `compileGen_tie`: `compileGen` (`MalCompiler.compile` with the translated visitor; the include callback is
  `compileGen` one level down) is the rendering of `compileFile` — and raises exactly where `compileFile` has no result.
-/
namespace MalVerif.Py.Visitor
open MalVerif MalVerif.Mal MalVerif.Py.GenVisitor

theorem filter_all_true {α : Type} (p : α → Bool) (l : List α) (h : ∀ x ∈ l, p x = true) : l.filter p = l :=
  List.filter_eq_self.mpr h

/-- the start rule `mal` -/
theorem malrest_tie (ts : List Tok) (hok : ∀ t ∈ ts, tokOK t = true) :
    match treeMalRest ts with
    | none => parseMalRest ts = none
    | some (t, irest) =>
      ∃ ds cs, t = .rule "mal" cs ∧ parseMalRest ts = some (ds, irest.map Prod.fst) ∧
        ∀ (c : V → M V) (wf g : Nat) (up : List PT), PT.depthL cs ≤ g → up.length + 1 + PT.depthL cs < wf →
          (∀ p ∈ up, isRule "reaches" p = false) →
          Forall2 (DeclVisits (selfAt c (tokensV ts) wf g))
            ((cs.filter (isRule "declaration")).map (mkCtx (.rule "mal" cs) up)) ds := by
  cases ts with
  | nil =>
    exact ⟨[], _, rfl, rfl, fun _ _ _ _ _ _ _ => .nil⟩
  | cons t0 rest =>
    by_cases hs : startsDecl t0 = true
    · have hpos : AtPos (t0 :: rest) (indexed (t0 :: rest)) := AtPos.indexed _
      have hok' : ∀ x ∈ indexed (t0 :: rest), tokOK x.1 = true := by
        intro x hx
        apply hok
        have := List.mem_map_of_mem (f := Prod.fst) hx
        rwa [Mal.indexed, List.zipIdx_map_fst] at this
      have h := fun c wf => decls_tie c (t0 :: rest) wf (2 * (t0 :: rest).length + 8) (indexed (t0 :: rest)) [] hpos hok'
      have hmap : (indexed (t0 :: rest)).map Prod.fst = t0 :: rest := by rw [Mal.indexed, List.zipIdx_map_fst]
      simp only [treeMalRest, parseMalRest, hs, if_true]
      cases hd : treeDeclsRest (2 * (t0 :: rest).length + 8) (indexed (t0 :: rest)) with
      | none =>
        have h0 := h (fun _ => .ok .none) 0
        rw [hd, hmap] at h0
        simpa using h0
      | some r =>
        obtain ⟨cs, irest⟩ := r
        simp only [hd, hmap] at h
        obtain ⟨ds, hp, hall, -⟩ := h (fun _ => .ok .none) 0
        refine ⟨ds, cs, rfl, by simpa using hp, fun c wf g up hg hwf hup => ?_⟩
        obtain ⟨ds', hp', -, hv⟩ := h c wf
        obtain rfl : ds' = ds := by rw [hp] at hp'; simpa using hp'.symm
        rw [filter_all_true _ _ hall]
        apply hv g _ up hg hwf
        intro p hp
        rcases List.mem_cons.mp hp with rfl | hp
        · rfl
        · exact hup p hp
    · have hs' : startsDecl t0 = false := by simpa using hs
      simp [treeMalRest, parseMalRest, hs']

/-- the tree builder accepts the whole token list exactly when the model's `parseMal` does -/
theorem treeMalRest_parseMal (ts : List Tok) (hok : ∀ t ∈ ts, tokOK t = true) :
    (∃ t, treeMalRest ts = some (t, [])) ↔ ∃ ds, parseMal ts = some ds := by
  have h := malrest_tie ts hok
  constructor
  · rintro ⟨t, ht⟩
    rw [ht] at h
    obtain ⟨ds, cs, -, hp, -⟩ := h
    exact ⟨ds, by simp [parseMal, hp]⟩
  · rintro ⟨ds, hds⟩
    rw [parseMal_eq_some_iff] at hds
    cases ht : treeMalRest ts with
    | none => rw [ht] at h; rw [h] at hds; cases hds
    | some r =>
      obtain ⟨t, irest⟩ := r
      rw [ht] at h
      obtain ⟨ds', cs, -, hp, -⟩ := h
      rw [hds] at hp
      simp only [Option.some.injEq, Prod.mk.injEq] at hp
      have : irest = [] := by simpa using hp.2.symm
      exact ⟨t, by rw [this]⟩

/-- **the translated `visitMal` on the tree of a file** is the rendering of the model's `assemble` of the file's
declarations; it raises exactly when `assemble` fails (an include fails) -/
theorem visitTree_tie (ts : List Tok) (hok : ∀ t ∈ ts, tokOK t = true) (t : PT) (h : treeMalRest ts = some (t, []))
    (c : V → M V) (inc : String → Option CSpec)
    (hinc : ∀ p, match inc p with
                 | some sp => c (.str p) = .ok (rSpec sp)
                 | none => ∃ e, c (.str p) = .error e) :
    ∃ ds, parseMal ts = some ds ∧
      match assemble inc ds with
      | some s => visitTree c ts t = .ok (rSpec s)
      | none => ∃ e, visitTree c ts t = .error e := by
  have hm := malrest_tie ts hok
  rw [h] at hm
  obtain ⟨ds, cs, rfl, hp, hv⟩ := hm
  refine ⟨ds, by simp [parseMal, hp], ?_⟩
  unfold visitTree
  have hsz : (PT.rule "mal" cs).size = 1 + PT.sizeL cs := by simp [PT.size]
  have hd := depthL_le_sizeL cs
  rw [hsz, show 1 + PT.sizeL cs + 1 = (1 + PT.sizeL cs) + 1 from rfl, visitF_mal]
  exact visitMal_spec (selfAt c (tokensV ts) (1 + PT.sizeL cs + 1) (1 + PT.sizeL cs)) inc hinc eqOK cs [] ds
    (hv c _ _ [] (by omega) (by simp only [List.length_nil]; omega) (fun _ h => by cases h))

/-- **`MalCompiler.compile` with the translated visitor is the model's `compileFile`**: for every file system, root
file and include depth, `compileGen` returns the rendering of the specification `compileFile` returns, and raises
where `compileFile` has none (missing file, lexical error, syntax error, trailing input, failing include, include
depth exhausted) -/
theorem compileGen_tie (files : String → Option String) : ∀ (f : Nat) (name : String),
    match compileFile files f name with
    | some s => compileGen files f (.str name) = .ok (rSpec s)
    | none => ∃ e, compileGen files f (.str name) = .error e
  | 0, name => by
    rw [compileFile_zero]
    exact ⟨_, rfl⟩
  | f+1, name => by
    rw [compileFile_succ]
    unfold compileGen
    cases hf : files name with
    | none => simp only [hf]; exact ⟨_, rfl⟩
    | some src =>
      simp only [hf, Option.bind_some]
      cases hl : lex src with
      | none =>
        rw [parseSource_of_lex_none hl]
        exact ⟨_, rfl⟩
      | some ts =>
        rw [parseSource_of_lex hl]
        have hok := lex_tokOK src ts hl
        have hm := malrest_tie ts hok
        cases ht : treeMalRest ts with
        | none =>
          rw [ht] at hm
          simp only [parseMal, hm, ht]
          exact ⟨_, rfl⟩
        | some r =>
          obtain ⟨t, irest⟩ := r
          cases irest with
          | cons x xs =>
            rw [ht] at hm
            obtain ⟨ds, cs, -, hp, -⟩ := hm
            simp only [parseMal, hp, List.map_cons, ht]
            exact ⟨_, rfl⟩
          | nil =>
            obtain ⟨ds, hp, hv⟩ := visitTree_tie ts hok t ht (compileGen files f) (compileFile files f)
              (fun p => compileGen_tie files f p)
            rw [hp]
            simp only [Option.bind_some, ht]
            exact hv

end MalVerif.Py.Visitor
