import MalVerif.Py.TieNeo4jGetPair
import MalVerif.Py.RelNeo4j
import MalVerif.Py.RelNeo4jRows
import MalVerif.Py.TieModelStep
/-!
# The general tie of the translated `get_model`: `Neo.getModel` accepts ⇒ the translation returns a `Rel`-ated model

`get_model_sim`: on a well-formed database without entry-point relationships, with the language side instantiated from
the reference language (`envOf`), if the reference `Neo.getModel` over the abstracted database returns `m'` and the
declarations the rows resolve to are `Resolved`, then the translated `get_model` returns a heap `s'` with
`Rel (abs s') m'` (the same model up to association references) and `Inv (abs s')`.

Loop by loop: the asset loop is an exact tie (`asset_loop_tie`) followed by the `Rel`-congruence of the reference
asset loop for the two start states (`abs (modelInit …)` and `{}`); the second loop is related row by row
(`pair_fold_sim`): heap-level equation `gmPairStep_tie` with `Sim.pairAssocG`, then `Rel.pairAssoc`.
-/
namespace MalVerif.PyN.TieGet
open MalVerif MalVerif.PyM MalVerif.PyM.Gen MalVerif.PyN MalVerif.PyN.Sim

/-! ### start and asset loop -/

theorem abs_modelInit (nm : String) : PyM.abs (modelInit nm) = PyM.abs {} := rfl

theorem rel_init (nm : String) : Rel (PyM.abs (modelInit nm)) ({} : MS.St) := by
  refine ⟨rfl, rfl, ?_, ?_, rfl, rfl, rfl, rfl, rfl, ?_, ?_, ?_, rfl, rfl, ⟨?_, ?_⟩, ⟨?_, ?_⟩, ?_, ?_⟩
  all_goals first
    | (intro a ha; cases ha)
    | (intro a ha; exact absurd ha (Nat.not_lt_zero _))
    | (intro a ha b hb; cases ha)
    | (intro a ha b hb; exact absurd ha (Nat.not_lt_zero _))
    | (intro a ha b hb c hc; cases ha)

theorem assetStepN_keeps_inv {L : Lang} {m m2 : MS.St} {n : Neo.DbNode} (h : MS.Inv m) (hok : Neo.assetStepN L m n = .ok m2) :
    MS.Inv m2 := by
  unfold Neo.assetStepN at hok
  split at hok
  · cases hok
  · split at hok
    · injection hok with hok; subst hok; exact MS.addAttacker_inv' _ _ _ h
    · exact MS.addAsset_inv' h hok

theorem foldlM_assetStepN_inv {L : Lang} (ns : List Neo.DbNode) {m m2 : MS.St} (h : MS.Inv m)
    (hok : ns.foldlM (Neo.assetStepN L) m = .ok m2) : MS.Inv m2 := by
  induction ns generalizing m with
  | nil => injection hok with hok; exact hok ▸ h
  | cons n ns ih =>
    rw [List.foldlM_cons] at hok
    obtain ⟨m1, h1, h2⟩ := bind_ok hok
    exact ih (assetStepN_keeps_inv h h1) h2

/-- the asset loop: if the reference loop (from the empty state) returns `s1'`, the translated loop returns a heap
`s1` with `Rel (abs s1) s1'` and `Inv (abs s1)` -/
theorem asset_loop_sim (L : Lang) (nodes : List AssocDecl) (menv : PyM.ModelEnv) (db : Db) (hdb : DbWF db)
    (hfuel : db.nodes.length + 1 ≤ menv.whileFuel) (nm : String) (s1' : MS.St)
    (href : (absDb db).nodes.foldlM (Neo.assetStepN L) ({} : MS.St) = .ok s1') :
    ∃ s1, forIn (queryAssets db) (modelInit nm) (gmAssetStep (envOf L nodes menv)) = .ok s1 ∧
      Rel (PyM.abs s1) s1' ∧ MS.Inv (PyM.abs s1) := by
  have htie := asset_loop_tie L nodes menv db hdb hfuel nm
  rw [Neo.assetLoop_eq] at htie
  have hrel := Rel.foldlM_assetStepN (L := L) (absDb db).nodes (rel_init nm)
  rw [href] at hrel
  obtain ⟨m1, hm1, hr1⟩ := RelR.of_ok hrel
  rw [hm1] at htie
  cases hx : forIn (queryAssets db) (modelInit nm) (gmAssetStep (envOf L nodes menv)) with
  | error e => rw [hx] at htie; cases htie
  | ok s1 =>
    rw [hx] at htie
    have e : PyM.abs s1 = m1 := by injection htie
    refine ⟨s1, rfl, e ▸ hr1, ?_⟩
    rw [e]
    exact foldlM_assetStepN_inv _ (by rw [abs_modelInit]; exact PyM.Tie.init_inv) hm1

/-! ### the second loop, row by row -/

theorem AFrame.getAssetById {m m' : MS.St} (h : Ser.AFrame m m') (i : Int) : MS.getAssetById m' i = MS.getAssetById m i := by
  unfold MS.getAssetById
  rw [h.assets]
  congr 1
  funext a
  rw [h.id]

theorem node_at {db : Db} {r : Nat} (hr : r < db.nodes.length) : ∃ n, db.nodes[r]? = some n ∧ n ∈ db.nodes :=
  ⟨db.nodes[r], List.getElem?_eq_getElem hr, List.getElem_mem hr⟩

/-- what is needed of the database: well-formed nodes, relationships between positions of the node list, none of
them an entry point -/
structure DbOK (db : Db) : Prop where
  nodes : DbWF db
  rels : RelsWF db
  nofs : ∀ r ∈ db.rels, r.type ≠ "firstSteps"

/-- the second loop: if the reference fold over the rows returns `mF'`, the translated loop over the same rows
returns a heap related to it -/
theorem pair_fold_sim (L : Lang) (nodes : List AssocDecl) (menv : PyM.ModelEnv) (hE : EqId menv) (db : Db) (hok : DbOK db)
    (s1' : MS.St) (hres : RowsResolved L nodes (absDb db) s1') :
    ∀ (ps : List (DbRel × DbRel)), (∀ p ∈ ps, p ∈ pairsOfDb db) → ∀ (s : H) (m' mF' : MS.St),
      MS.Inv (PyM.abs s) → Rel (PyM.abs s) m' → Ser.AFrame s1' m' →
      (ps.map (fun p => (p.1.src, p.1.type, p.2.type, p.1.dst))).foldlM (Neo.pairStep L nodes (absDb db)) m' = .ok mF' →
      ∃ sF, forIn (ps.map (pairRow db)) s (gmPairStep (envOf L nodes menv)) = .ok sF ∧
        Rel (PyM.abs sF) mF' ∧ MS.Inv (PyM.abs sF) := by
  intro ps
  induction ps with
  | nil =>
    intro _ s m' mF' hI hR _ hfold
    injection hfold with hfold
    subst hfold
    exact ⟨s, rfl, hR, hI⟩
  | cons p ps ih =>
    intro hps s m' mF' hI hR hF hfold
    rw [List.map_cons, List.foldlM_cons] at hfold
    obtain ⟨m2', hstep, hrest⟩ := bind_ok hfold
    have hp := hps p List.mem_cons_self
    obtain ⟨hp1, hp2⟩ := pairsOfDb_wf db hok.rels p hp
    obtain ⟨na, hna, hnam⟩ := node_at (hok.rels p.1 hp1).1
    obtain ⟨nb, hnb, hnbm⟩ := node_at (hok.rels p.1 hp1).2
    obtain ⟨lid, hl⟩ := (hok.nodes na hnam).num
    obtain ⟨rid, hrr⟩ := (hok.nodes nb hnbm).num
    have hga : ((absDb db).nodes[p.1.src]?).bind (·.assetId.toInt?) = some lid := by
      show ((db.nodes.map absNode)[p.1.src]?).bind _ = _
      rw [List.getElem?_map, hna]; exact hl
    have hgb : ((absDb db).nodes[p.1.dst]?).bind (·.assetId.toInt?) = some rid := by
      show ((db.nodes.map absNode)[p.1.dst]?).bind _ = _
      rw [List.getElem?_map, hnb]; exact hrr
    have hrowmem : (p.1.src, p.1.type, p.2.type, p.1.dst) ∈ Neo.queryPairs (absDb db) := by
      rw [neoQueryPairs_eq]; exact List.mem_map_of_mem hp
    -- the side condition at the current reference state
    have hres' : ∀ la ra d, MS.getAssetById m' lid = some la → MS.getAssetById m' rid = some ra →
        LG.lookupAssoc L nodes p.1.type p.2.type (m'.aobj la).type (m'.aobj ra).type = .ok (some d) → Resolved L d := by
      intro la ra d h1 h2 h3
      rw [AFrame.getAssetById hF] at h1 h2
      rw [hF.type, hF.type] at h3
      exact hres _ hrowmem lid rid la ra d hga hgb h1 h2 h3
    have hbody : Neo.pairBody L nodes m' (p.1.src, p.1.type, p.2.type, p.1.dst) (some lid) (some rid) = .ok m2' := by
      unfold Neo.pairStep at hstep
      rw [hga, hgb] at hstep
      exact hstep
    obtain ⟨m2, hG, hR2⟩ := Rel.pairAssoc hR p.1.src p.1.dst p.1.type p.2.type lid rid
      (hok.nofs p.1 hp1) (hok.nofs p.2 hp2) hres' hbody
    -- the translated round
    have hresS : ∀ la ra d, MS.getAssetById (PyM.abs s) lid = some la → MS.getAssetById (PyM.abs s) rid = some ra →
        LG.lookupAssoc L nodes p.1.type p.2.type ((PyM.abs s).aobj la).type ((PyM.abs s).aobj ra).type = .ok (some d) →
        Resolved L d := by
      intro la ra d h1 h2 h3
      have m1 := getAssetById_mem h1
      have m2 := getAssetById_mem h2
      rw [hR.getAssetById] at h1 h2
      rw [hR.type_eq m1, hR.type_eq m2] at h3
      exact hres' la ra d h1 h2 h3
    have htie := gmPairStep_tie L nodes menv hE s hI db p na nb lid rid hna hnb (hok.nodes na hnam) (hok.nodes nb hnbm)
      hl hrr (hok.nofs p.1 hp1) (hok.nofs p.2 hp2) hresS
    rw [hG] at htie
    rw [List.map_cons, List.forIn_cons]
    cases hx : gmPairStep (envOf L nodes menv) (pairRow db p) s with
    | error e => rw [hx] at htie; cases htie
    | ok r =>
      rw [hx] at htie
      have e : PyM.abs (stepState r) = m2 := by injection htie
      have hy := gmPairStep_yield _ _ _ _ hx
      rw [hy]
      have := ih (fun q hq => hps q (List.mem_cons_of_mem _ hq)) (stepState r) m2' mF'
        (by rw [e]; exact pairAssocG_inv hI hG) (by rw [e]; exact hR2) (hF.trans (Neo.pairStep_aframe hstep)) hrest
      exact this

/-! ### the whole function -/

/-- **general tie of `get_model`**: on a database that is `DbOK`, if the reference `Neo.getModel` over the abstracted
database returns `m'` (and the declarations its rows resolve to are `Resolved`), the translated `get_model` returns a
heap whose model is `m'` up to association references, and is coherent -/
theorem get_model_sim (L : Lang) (nodes : List AssocDecl) (menv : PyM.ModelEnv) (hE : EqId menv) (w : W) (hok : DbOK w.db)
    (hfuel : w.db.nodes.length + 1 ≤ menv.whileFuel) (m' : MS.St)
    (href : Neo.getModel L nodes (absDb w.db) = .ok m')
    (hres : ∀ s1', (absDb w.db).nodes.foldlM (Neo.assetStepN L) ({} : MS.St) = .ok s1' →
      RowsResolved L nodes (absDb w.db) s1')
    (uri user pw db : String) :
    ∃ s', Gen.get_model w (envOf L nodes menv) uri user pw db = .ok s' ∧ Rel (PyM.abs s') m' ∧ MS.Inv (PyM.abs s') := by
  rw [Neo.getModel_eq] at href
  obtain ⟨s1', ha, hp⟩ := bind_ok (x := (Neo.queryAssets (absDb w.db)).foldlM (fun s e => Neo.assetStepN L s e.2) ({} : MS.St))
    (f := fun s1 => (Neo.queryPairs (absDb w.db)).foldlM (Neo.pairStep L nodes (absDb w.db)) s1) href
  rw [Neo.assetLoop_eq] at ha
  obtain ⟨s1, h1, hR1, hI1⟩ := asset_loop_sim L nodes menv w.db hok.nodes hfuel "Neo4j imported model" s1' ha
  rw [neoQueryPairs_eq] at hp
  obtain ⟨sF, hF, hRF, hIF⟩ := pair_fold_sim L nodes menv hE w.db hok s1' (hres s1' ha) (pairsOfDb w.db)
    (fun _ h => h) s1 s1' m' hI1 hR1 (Ser.AFrame.refl s1') hp
  refine ⟨sF, ?_, hRF, hIF⟩
  rw [get_model_run, h1, queryPairs_eq w.db hok.nodes hok.rels]
  show (forIn (m := Except PyErr) ((pairsOfDb w.db).map (pairRow w.db)) s1 _).bind _ = _
  rw [hF]
  rfl

end MalVerif.PyN.TieGet
