import MalVerif.Py.TieMSerialToDict
/-!
# The translated `_from_dict` (`GenMSerial/FromDict.lean`): what is proved in general

* `Returns r p`: the (translated) call returned normally with a value satisfying `p` — decidable, used to *evaluate*
  the generated `_from_dict` on concrete documents in `PropsGen/C07.lean`;
* `from_dict_shorthand`: an asset entry in the type-only shorthand `"7": "Host"` is treated by the generated
  `_from_dict` exactly like the full entry `"7": {"type": "Host", "name": "Host:7"}` — anywhere in the document, for
  every heap, language and document (the two loop bodies are equal by computation).

The general tie `_from_dict` ↔ `Ser.fromDoc` is in `TieMSerialFD*.lean` / `TieMSerialFromDictMain.lean`.
-/
namespace MalVerif.PyM.Tie
open MalVerif MalVerif.PyM MalVerif.PyM.Gen MalVerif.Ser

/-- the call returned normally, with a value that satisfies `p` -/
def Returns {α : Type} (r : Except PyErr α) (p : α → Prop) : Prop :=
  match r with
  | .ok s => p s
  | .error _ => False

instance {α : Type} (r : Except PyErr α) (p : α → Prop) [DecidablePred p] : Decidable (Returns r p) := by
  unfold Returns; cases r <;> infer_instance

theorem returns_iff {α : Type} (r : Except PyErr α) (p : α → Prop) : Returns r p ↔ ∃ s, r = .ok s ∧ p s := by
  cases r with
  | ok s => exact ⟨fun h => ⟨s, rfl, h⟩, fun ⟨_, h, hp⟩ => by cases h; exact hp⟩
  | error e => exact ⟨fun h => h.elim, fun ⟨_, h, _⟩ => by cases h⟩

/-- the call raised the exception `e` -/
def Raises {α : Type} (r : Except PyErr α) (e : PyErr) : Prop :=
  match r with
  | .ok _ => False
  | .error e' => e' = e

instance {α : Type} (r : Except PyErr α) (e : PyErr) : Decidable (Raises r e) := by
  unfold Raises; cases r <;> infer_instance

/-- a loop does the same on two lists that differ in one element on which the bodies agree -/
theorem forIn_congr_at {α σ : Type} (body : α → σ → Except PyErr (ForInStep σ)) (post : List α) (x y : α)
    (h : body x = body y) : ∀ (pre : List α) (st : σ),
    forIn (pre ++ x :: post) st body = forIn (pre ++ y :: post) st body := by
  intro pre
  induction pre with
  | nil => intro st; rw [List.nil_append, List.nil_append, List.forIn_cons, List.forIn_cons, h]
  | cons a pre ih =>
    intro st
    rw [List.cons_append, List.cons_append, List.forIn_cons, List.forIn_cons]
    congr 1
    funext r
    cases r with
    | done b => rfl
    | yield b => exact ih b

/-- the full entry the type-only shorthand stands for -/
def shorthandEntry (k : Key) (ty : String) : PyAssetV := .dict { type := some ty, name := some (ty ++ ":" ++ k.text) }

/-- **the type-only shorthand**: the generated `_from_dict` treats `"k": "Type"` as `"k": {"type": "Type", "name":
"Type:k"}` -/
theorem from_dict_shorthand (s : H) (env : SEnv) (d : PyDoc) (pre post : List (Key × PyAssetV)) (k : Key) (ty : String)
    (hd : d.assets = some (pre ++ (k, .str ty) :: post)) :
    model__from_dict s env d =
      model__from_dict s env { d with assets := some (pre ++ (k, shorthandEntry k ty) :: post) } := by
  unfold model__from_dict
  simp only [hd, bind, Except.bind, pure, Except.pure, recGetE]
  cases d.metadata with
  | none => rfl
  | some m =>
    simp only []
    cases m.name with
    | none => cases m.MAL_Toolbox_Version_space <;> rfl
    | some n =>
      cases m.MAL_Toolbox_Version_space <;>
        (simp only [Option.isSome_none, Option.isSome_some, if_true, if_false, Bool.false_eq_true]
         rw [forIn_congr_at _ post (k, PyAssetV.str ty) (k, shorthandEntry k ty) rfl])

end MalVerif.PyM.Tie
