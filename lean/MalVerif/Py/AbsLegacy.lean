import MalVerif.Py.PreludeLegacy
import MalVerif.Py.AbsModel
import MalVerif.Proofs.LegacyLemmas
/-!
# Abstraction for the translated legacy loaders: documents

The hand-written model (`Model/Legacy.lean`) reads *typed* documents (`Legacy.OldDoc`, `Legacy.ScadDoc`); the
translated loaders read what `json.loads` / `yaml.safe_load` return (`PyLeg.PyJ`).  `encOld` writes a typed
0.0.39 document as such a value — the file the harness (`harness/props/c18.py`, `emit_old`) writes:

* an asset entry `full name metaconcept defenses` is `{"name": …, "metaconcept": …, "defenses": {d: v, …}}`
  (the `defenses` member only when there are defenses), `shorthand mc` is the string `mc`;
* an association is `{"metaconcept": c, "association": {lf: [ids], rf: [ids]}}` (`nested = true`) or
  `{"metaconcept": c, lf: [ids], rf: [ids]}` (`nested = false`); ids are `int`s, or `str`s (`Key`);
* attackers are `{id: {"name": n, "entry_points": {asset id: {"attack_steps": [steps]}}}}`.

The heap is abstracted by `PyM.abs` (domain `model`).  The hand-written loaders start from `({} : MS.St)`; the
abstraction of the empty heap differs from it in store cells that are not allocated (`TieModelStep.lean`), so the
loaders are also given with an explicit start state (`loadOldFrom`, `fromDocFrom`; `…From {} = …` by `rfl`).
-/
namespace MalVerif.PyLeg
open MalVerif MalVerif.PyM MalVerif.Legacy
open MalVerif.Ser (Key)

/-! ### documents -/

def encAsset : OldAssetEntry → PyJ
  | .full nm mc defs =>
    .dict ([(.s "name", .str nm), (.s "metaconcept", .str mc)] ++
      (if defs.isEmpty then [] else [(.s "defenses", .dict (defs.map (fun d => (.s d.1, .num d.2))))]))
  | .shorthand mc => .str mc

def encAssoc (nested : Bool) (a : OldAssoc) : PyJ :=
  let fields : List (Key × PyJ) := [(.s a.lf, .list (a.left.map keyJ)), (.s a.rf, .list (a.right.map keyJ))]
  if nested then .dict [(.s "metaconcept", .str a.metaconcept), (.s "association", .dict fields)]
  else .dict ((.s "metaconcept", .str a.metaconcept) :: fields)

def encAttacker (e : Ser.AttackerEntry) : PyJ :=
  .dict [(.s "name", .str e.name),
         (.s "entry_points", .dict (e.entry.map (fun p => (p.1, .dict [(.s "attack_steps", .list (p.2.map .str))]))))]

def encOld (nested : Bool) (name : String) (d : OldDoc) : PyJ :=
  .dict [(.s "metadata", .dict [(.s "name", .str name)]),
         (.s "assets", .dict (d.assets.map (fun e => (e.1, encAsset e.2)))),
         (.s "associations", .list (d.associations.map (encAssoc nested))),
         (.s "attackers", .dict (d.attackers.map (fun e => (e.1, encAttacker e.2))))]

/-! ### what makes a typed document a dictionary, and what the two sides disagree on -/

def assetDefs : OldAssetEntry → List (String × String)
  | .full _ _ defs => defs
  | .shorthand _ => []

/-- the association entry is a dictionary (two different field keys; in the flat layout they are also different
from the keys `metaconcept` / `association` of the entry itself), and its fields are not listed in the order
opposite to the class declaration (`Legacy.loadOldAssoc` rejects that order, the Python accepts it: `NOTES`) -/
structure AssocWf (L : Lang) (nested : Bool) (a : OldAssoc) : Prop where
  distinct : a.lf ≠ a.rf
  flat : nested = false → a.lf ≠ "metaconcept" ∧ a.rf ≠ "metaconcept" ∧ a.lf ≠ "association" ∧ a.rf ≠ "association"
  notSwapped : ∀ c, (MS.assocClasses L).find? (·.cls = a.metaconcept) = some c → ¬ (a.lf = c.rf ∧ a.rf = c.lf)

/-- the typed document is a well-formed dictionary structure -/
structure OldWf (L : Lang) (nested : Bool) (d : OldDoc) : Prop where
  defs : ∀ e ∈ d.assets, ((assetDefs e.2).map (·.1)).Nodup
  assocs : ∀ a ∈ d.associations, AssocWf L nested a
  attackers : (d.attackers.map (·.1)).Nodup
  entries : ∀ e ∈ d.attackers, (e.2.entry.map (·.1)).Nodup

/-- the range-check oracle of the hand model (`defsOk`, per asset entry) is the one of the factory (`floatOk`,
per value) -/
def DefsOkOf (fac : Factory) (d : OldDoc) (defsOk : Key → Bool) : Prop :=
  ∀ e ∈ d.assets, defsOk e.1 = (assetDefs e.2).all (fun p => fac.floatOk p.2)

/-! ### the hand-written loaders from an explicit start state -/

def loadOldFrom (L : Lang) (defsOk : Key → Bool) (s0 : MS.St) (d : OldDoc) : Except MS.Err MS.St := do
  let s1 ← d.assets.foldlM (loadOldAsset L defsOk) s0
  let s2 ← d.associations.foldlM (loadOldAssoc L) s1
  d.attackers.foldlM Ser.loadAttacker s2

def fromDocFrom (L : Lang) (defsOk : Key → Bool) (s0 : MS.St) (d : Ser.ModelDoc) : Except MS.Err MS.St := do
  let s1 ← d.assets.foldlM (Ser.loadAsset L defsOk) s0
  let s2 ← d.associations.foldlM (Ser.loadAssoc L) s1
  d.attackers.foldlM Ser.loadAttacker s2

theorem loadOldFrom_empty (L : Lang) (defsOk : Key → Bool) (d : OldDoc) :
    loadOldFrom L defsOk {} d = loadOld L defsOk d := rfl
theorem fromDocFrom_empty (L : Lang) (defsOk : Key → Bool) (d : Ser.ModelDoc) :
    fromDocFrom L defsOk {} d = Ser.fromDoc L defsOk d := rfl

/-! ### results -/

/-- the model a translated loader returns, abstracted; `none` when it raises -/
def okSt : Except LErr H → Option MS.St
  | .ok s => some (abs s)
  | .error _ => none

def optSt : Except MS.Err MS.St → Option MS.St
  | .ok s => some s
  | .error _ => none

/-- the model a new `Model(name, factory)` stands for -/
def emptyModel (name : String) : H := { name := name }

theorem abs_emptyModel (name : String) : abs (emptyModel name) = abs {} := rfl

/-- no tuple object of any `AttackerAttachment` is beyond the allocation counter -/
def EpFresh (s : H) : Prop := ∀ u, ∀ r ∈ (s.t u).entry_points, r < s.efresh

theorem allocA_eq (s : H) (o : PyAsset) : allocA s o = (newAssetObj s o, s.afresh) := rfl
theorem allocL_eq (s : H) (o : PyAssoc) : allocL s o = (newAssocObj s o, s.lfresh) := rfl
theorem allocT_eq (s : H) (o : PyAtt) : allocT s o = (newAttObj s o, s.tfresh) := rfl

/-! ### reading the encoded documents -/

theorem jKey_keyJ (k : Key) : jKey (keyJ k) = some k := by cases k <;> rfl
theorem jInt_keyJ_some (k : Key) (i : Int) (h : k.toInt? = some i) : jInt (keyJ k) = .ok i := by
  cases k with
  | i n => simp only [Key.toInt?, Option.some.injEq] at h; subst h; rfl
  | s t => simp only [Key.toInt?] at h; simp only [keyJ, jInt, h]
/-- **named hypothesis**: the key is not a text of the class in which CPython's `int` may succeed although
`String.toInt?` fails (surrounding white space, a leading `+`, non-ASCII digits: `pyIntLenient`) — for such a key the
translated loader answers `unmodelled`, not `ValueError`.  Decidable; every `int` key and every text `toInt?` reads
is plain. -/
def keyPlain : Key → Bool
  | .i _ => true
  | .s t => t.toInt?.isSome || !pyIntLenient t

example : keyPlain (Key.i (-3)) = true := rfl
theorem keyPlain_of_toInt {k : Key} {i : Int} (h : k.toInt? = some i) : keyPlain k = true := by
  cases k with
  | i n => rfl
  | s t => simp only [Key.toInt?] at h; simp [keyPlain, h]

/-- a key that is no number: `ValueError`, or `unmodelled` when the text is in the lenient class -/
theorem jInt_keyJ_none' (k : Key) (h : k.toInt? = none) :
    jInt (keyJ k) = .error (.py .valueError) ∨ jInt (keyJ k) = .error .unmodelled := by
  cases k with
  | i n => simp [Key.toInt?] at h
  | s t =>
    simp only [Key.toInt?] at h
    simp only [keyJ, jInt, h]
    cases pyIntLenient t
    · exact Or.inl rfl
    · exact Or.inr rfl

theorem jInt_keyJ_none (k : Key) (h : k.toInt? = none) (hp : keyPlain k = true) : jInt (keyJ k) = .error (.py .valueError) := by
  cases k with
  | i n => simp [Key.toInt?] at h
  | s t =>
    simp only [Key.toInt?] at h
    have hl : pyIntLenient t = false := by simpa [keyPlain, h] using hp
    simp only [keyJ, jInt, h, hl]
    rfl
theorem jFormat_keyJ (k : Key) : jFormat (keyJ k) = .ok k.text := by cases k <;> rfl

theorem lookupKey_map_of_nodup {α : Type} (f : α → PyJ) (l : List (Key × α)) (h : (l.map (·.1)).Nodup)
    (e : Key × α) (he : e ∈ l) : lookupKey (l.map (fun x => (x.1, f x.2))) e.1 = some (f e.2) := by
  induction l with
  | nil => cases he
  | cons x xs ih =>
    rw [List.map_cons, List.nodup_cons] at h
    unfold lookupKey
    rw [List.map_cons, List.find?_cons]
    by_cases hx : x.1 = e.1
    · have : x = e := by
        rcases List.mem_cons.1 he with h1 | h1
        · exact h1.symm
        · exact absurd (hx ▸ List.mem_map.2 ⟨e, h1, rfl⟩) h.1
      subst this
      simp
    · have hne : ((x.1, f x.2).1 == e.1) = false := by simpa using hx
      rw [hne]
      have he' : e ∈ xs := by
        rcases List.mem_cons.1 he with h1 | h1
        · exact absurd (h1 ▸ rfl) hx
        · exact h1
      exact ih h.2 he'

end MalVerif.PyLeg
