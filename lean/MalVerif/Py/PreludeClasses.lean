import MalVerif.Py.PreludeVisitor
/-!
# Prelude of the *classes* translation domain (`translators/py2lean_classes.py`)

How the Python values handled by `maltoolbox/language/classes_factory.py` appear in the translated code.
Hand-written, fixed, part of the trusted base; every definition carries the Python behaviour it stands for.

* **The JSON schema** is a Python value of the `visitor` domain (`V` of `Py/PreludeVisitor.lean`): nested
  insertion-ordered dictionaries with string keys, lists, strings, ints, floats (`V.num text`, the text is the
  `repr` of the literal), `None`.  All dictionary / list operations are the ones of that prelude, lifted into the
  error monad of this domain (`getItem`, `getOr`, `setItem`, `delItem`, `appendTo`, `isIn`, `lenOf`).
* **Containers are values.**  `a[k1]…[kn] = v`, `a[k1]…[kn].append(x)`, `del a[k1]…[kn]` on a nested dictionary are
  `modPath`: read along the path (KeyError / TypeError as Python), change the innermost container, write the
  changed containers back under the same keys (an existing key keeps its position).  Sound because the translator's
  alias check refuses every aliasing that could be observed (a container that was stored somewhere is never
  changed in place afterwards through another name).
* **The language graph is read only** (the translator refuses every write to it and every method call on it):
  `LanguageGraphAsset` objects are records behind references (`LG.asset`), attack steps, associations and
  association fields are values.  Only the attributes the factory reads are present.  `name` of an asset is a
  `str` (the dataclass allows `None`; `_generate_graph` always sets a `str`).  `ttc` of a step and `maximum` of a
  field are dynamically typed (`V`): `ttc` is `None`, `{}` or a dictionary; `maximum` is `None` or an `int`.
* **The factory object** is the record `Self` (`json_schema`, `ns`); methods and the closures nested in them take
  it as an argument and return the changed record when they change it.
* **python_jsonschema_objects** is a parameter (`Pjs`): `ObjectBuilder(schema)` and
  `builder.build_classes(standardize_names=False)` are opaque, may raise, and do not change the schema.
* Logging (`logger.*`, and an `if logger.isEnabledFor(..)` whose body only logs) has no effect and is dropped
  together with the evaluation of its arguments.
* Exceptions are their class only; the state after an exception is not modelled.
-/
namespace MalVerif.Py.Classes
open MalVerif.Py.Visitor (V)
open MalVerif.Py

/-- Python exceptions: the ones of the value prelude, and `LookupError` (raised by `get_association_by_signature`) -/
inductive CErr where
  | py (e : Visitor.Err)
  | lookupError
  deriving Repr, DecidableEq, Inhabited

abbrev M := Except CErr

/-- an operation of the value prelude inside this domain -/
def liftV {α} : Visitor.M α → M α
  | .ok a => .ok a
  | .error e => .error (.py e)

/-! ### the language graph (read only) -/

abbrev ARef := Nat

/-- `LanguageGraphAttackStep`: `name`, `type`, `ttc` -/
structure LGStep where
  name : String := ""
  type : String := ""
  ttc : V := .none
  deriving Repr, Inhabited

/-- `LanguageGraphAsset`: `name`, `super_assets`, `attack_steps` -/
structure LGAsset where
  name : String := ""
  super_assets : List ARef := []
  attack_steps : List LGStep := []
  deriving Repr, Inhabited

/-- `LanguageGraphAssociationField`: `asset`, `fieldname`, `maximum` -/
structure LGField where
  asset : ARef := 0
  fieldname : String := ""
  maximum : V := .none
  deriving Repr, Inhabited

/-- `LanguageGraphAssociation`: `name`, `left_field`, `right_field` -/
structure LGAssoc where
  name : String := ""
  left_field : LGField := {}
  right_field : LGField := {}
  deriving Repr, Inhabited

/-- `LanguageGraph`: the asset objects, `assets`, `associations` -/
structure LG where
  asset : ARef → LGAsset := fun _ => {}
  assets : List ARef := []
  associations : List LGAssoc := []

/-- `getattr(assoc, name)` for the two field attributes (`AttributeError` for any other name) -/
def getattrField (a : LGAssoc) (name : String) : M LGField :=
  if name == "left_field" then pure a.left_field
  else if name == "right_field" then pure a.right_field
  else throw (.py .attributeError)

/-! ### the factory object and the library -/

/-- `LanguageClassesFactory`: `self.json_schema`, `self.ns` -/
structure Self where
  json_schema : V := .dict []
  ns : V := .none

/-- `python_jsonschema_objects`: `pjs.ObjectBuilder(schema)`, `builder.build_classes(standardize_names=…)` -/
structure Pjs where
  ObjectBuilder : V → M V
  build_classes : V → V → M V

/-! ### values -/

/-- a dict display `{'k1': v1, …}` with literal keys (later items win, an existing key keeps its position) -/
def mkDict (items : List (String × V)) : V := .dict (Visitor.dictPutAll [] items)

/-- `c[k]` -/
def getItem (c k : V) : M V := liftV (Visitor.pyGetItem c k)
/-- `c.get(k, default)` (`c.get(k)` is `c.get(k, None)`): the value under `k` or the default; AttributeError when `c`
is not a dictionary -/
def getOr (c k dflt : V) : M V := liftV (Visitor.pyGet c k dflt)
/-- `c[k] = v` (the changed container) -/
def setItem (c k v : V) : M V := liftV (Visitor.pySetItem c k v)
/-- `l.append(x)` (the changed list) -/
def appendTo (l x : V) : M V := liftV (Visitor.pyAppend l x)
/-- `x in c` -/
def isIn (x c : V) : M Bool := liftV (Visitor.pyIn x c)
/-- `len(c)` -/
def lenOf : V → M Int
  | .list l => pure l.length
  | .tuple l => pure l.length
  | .dict d => pure d.length
  | .str s => pure s.length
  | _ => throw (.py .typeError)

/-- `del c[k]` (the changed container): KeyError when the key is absent; only dictionaries are modelled -/
def delItem : V → V → M V
  | .dict d, .str k => if d.any (·.1 == k) then pure (.dict (d.filter (fun e => !(e.1 == k)))) else throw (.py .keyError)
  | .dict _, _ => throw (.py .unmodelled)
  | _, _ => throw (.py .unmodelled)

/-- an in-place change `f` of the container reached by `c[k1]…[kn]` (see the header) -/
def modPath (c : V) : List V → (V → M V) → M V
  | [], f => f c
  | k :: ks, f => do
    let sub ← getItem c k
    let sub' ← modPath sub ks f
    setItem c k sub'

/-- `s.replace(old, new)` -/
def strReplace (s old new : String) : String := s.replace old new

end MalVerif.Py.Classes
