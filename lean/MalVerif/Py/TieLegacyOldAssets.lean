import MalVerif.Py.TieLegacyBase
/-!
# Tie of the translated 0.0.39 loader: the asset loop

`asset_sim`: the body of the asset loop of the GENERATED `updater_process_model` (`assetBody`), run on the encoding
of one asset entry of a typed document, is one step `Legacy.loadOldAsset` of the hand-written model; when it raises, the
hand model rejects with an error that agrees with the exception (`OldErrAgree`; the error sites are the branches of
`asset_core`).
-/
namespace MalVerif.PyLeg.Tie
open MalVerif MalVerif.PyM MalVerif.PyM.Gen MalVerif.PyM.Tie MalVerif.PyLeg MalVerif.PyLeg.Gen MalVerif.Legacy
open MalVerif.Ser (Key)

/-- the `defenses` member of an encoded asset entry -/
def defsJ (defs : List (String × String)) : PyJ := PyJ.dict (defs.map (fun d => (Key.s d.1, PyJ.num d.2)))

/-- the body of the asset loop, once the entry has been read -/
def assetRun (env : ModelEnv) (fac : Factory) (k : Key) (mc nm : String) (defs : List (String × String)) (s : H) :
    Except LErr (ForInStep H) := do
  let r ← nsNewAsset fac s (PyJ.str mc) (PyJ.str nm)
  let s ← forIn (defs.map (fun d => PyJ.str d.1)) r.fst (defenseBody fac r.snd (defsJ defs))
  let i ← jInt (keyJ k)
  let s ← liftPy (model_add_asset s env r.snd (some i) true)
  pure (ForInStep.yield s)

theorem assetBody_full (env : ModelEnv) (fac : Factory) (k : Key) (nm mc : String) (defs : List (String × String))
    (s : H) : assetBody env fac (encA (k, .full nm mc defs)) s = assetRun env fac k mc nm defs s := by
  cases defs with
  | nil => rfl
  | cons d ds =>
    have hk : ((d :: ds).map (fun d => (Key.s d.1, PyJ.num d.2))).map (fun e => keyJ e.1) =
        (d :: ds).map (fun d => PyJ.str d.1) := by
      rw [List.map_map]; rfl
    unfold assetRun
    rw [← hk]
    rfl

theorem assetBody_shorthand (env : ModelEnv) (fac : Factory) (k : Key) (mc : String) (s : H) :
    assetBody env fac (encA (k, .shorthand mc)) s = assetRun env fac k mc (mc ++ ":" ++ k.text) [] s := by
  cases k <;> rfl

/-! ### the defenses loop -/

theorem lookup_defs (all : List (String × String)) (h : (all.map (·.1)).Nodup) (d : String × String) (hd : d ∈ all) :
    lookupKey (all.map (fun d => (Key.s d.1, PyJ.num d.2))) (Key.s d.1) = some (PyJ.num d.2) := by
  induction all with
  | nil => cases hd
  | cons x xs ih =>
    rw [List.map_cons, List.nodup_cons] at h
    unfold lookupKey
    rw [List.map_cons, List.find?_cons]
    by_cases hx : x.1 = d.1
    · have : x = d := by
        rcases List.mem_cons.1 hd with h1 | h1
        · exact h1.symm
        · exact absurd (hx ▸ List.mem_map.2 ⟨d, h1, rfl⟩) h.1
      subst this
      simp
    · have hne : ((Key.s x.1, PyJ.num x.2).1 == Key.s d.1) = false := by simpa using hx
      rw [hne]
      have hd' : d ∈ xs := by
        rcases List.mem_cons.1 hd with h1 | h1
        · exact absurd (h1 ▸ rfl) hx
        · exact h1
      exact ih h.2 hd'

theorem dictSet_fresh (acc : List (String × String)) (k v : String) (h : k ∉ acc.map (·.1)) :
    PyM.dictSet acc k v = acc ++ [(k, v)] := by
  unfold PyM.dictSet
  have : acc.any (fun e => e.1 == k) = false := by
    rw [Bool.eq_false_iff]
    intro hc
    rw [List.any_eq_true] at hc
    obtain ⟨e, he, hek⟩ := hc
    exact h (List.mem_map.2 ⟨e, he, by simpa using hek⟩)
  rw [this]; rfl

theorem newAssetObj_setA (s : H) (o o' : PyAsset) : (newAssetObj s o).setA s.afresh o' = newAssetObj s o' := by
  unfold newAssetObj H.setA
  congr 1
  funext x
  by_cases hx : x = s.afresh
  · simp only [hx, if_true]
  · simp only [hx, if_false]

theorem newAssetObj_a (s : H) (o : PyAsset) : (newAssetObj s o).a s.afresh = o := by
  unfold newAssetObj; simp only [if_true]

/-- one round of the defenses loop on the new object -/
theorem defenseBody_new (fac : Factory) (s : H) (all : List (String × String)) (hall : (all.map (·.1)).Nodup)
    (o : PyAsset) (d : String × String) (hd : d ∈ all) (hfr : d.1 ∉ o.defenses.map (·.1)) :
    defenseBody fac s.afresh (defsJ all) (PyJ.str d.1) (newAssetObj s o) =
      if (MS.defensesOf fac.L o.type).any (·.1 = d.1) && fac.floatOk d.2 then
        .ok (.yield (newAssetObj s { o with defenses := o.defenses ++ [d] }))
      else .error (if (MS.defensesOf fac.L o.type).any (·.1 = d.1) then .validation else .unmodelled) := by
  unfold defenseBody defsJ jIndex
  simp only [jKey, lookup_defs all hall d hd, jFloat, bind, Except.bind, pjsSetDefense, newAssetObj_a,
    dictSet_fresh _ _ _ hfr, newAssetObj_setA]
  by_cases h1 : (MS.defensesOf fac.L o.type).any (·.1 = d.1) = true
  · by_cases h2 : fac.floatOk d.2 = true
    · simp only [h1, h2, if_true, Bool.and_self]; rfl
    · simp only [h1, h2, if_true, Bool.and_false]; rfl
  · simp only [h1, Bool.false_and]; rfl

/-- the pjs guard of one defense assignment -/
def defGuard (fac : Factory) (ty : String) (d : String × String) : Bool :=
  (MS.defensesOf fac.L ty).any (·.1 = d.1) && fac.floatOk d.2

/-- the defenses loop on the new object: all assignments pass their guards and the object holds the defenses of the
entry, or one of them raises: `ValidationError` (value out of range), or `unmodelled` (not a defense of the class) -/
theorem defenses_loop (fac : Factory) (s : H) (all : List (String × String)) (hall : (all.map (·.1)).Nodup) :
    ∀ (ds : List (String × String)) (o : PyAsset), (∀ d ∈ ds, d ∈ all) → ((o.defenses ++ ds).map (·.1)).Nodup →
      (ds.all (defGuard fac o.type) = true →
        forIn (ds.map (fun d => PyJ.str d.1)) (newAssetObj s o) (defenseBody fac s.afresh (defsJ all)) =
          .ok (newAssetObj s { o with defenses := o.defenses ++ ds })) ∧
      (ds.all (defGuard fac o.type) = false →
        ∃ e, forIn (ds.map (fun d => PyJ.str d.1)) (newAssetObj s o) (defenseBody fac s.afresh (defsJ all)) =
          .error e ∧ (e = .validation ∨ e = .unmodelled)) := by
  intro ds
  induction ds with
  | nil =>
    intro o _ _
    refine ⟨?_, ?_⟩
    · intro _
      rw [List.append_nil]; rfl
    · intro h; cases h
  | cons d ds ih =>
    intro o hsub hnd
    have hd : d ∈ all := hsub d List.mem_cons_self
    have hfr : d.1 ∉ o.defenses.map (·.1) := by
      intro hm
      rw [List.map_append, List.map_cons, List.nodup_append] at hnd
      exact hnd.2.2 _ hm _ List.mem_cons_self rfl
    have hstep := defenseBody_new fac s all hall o d hd hfr
    rw [List.map_cons, List.all_cons]
    by_cases hg : defGuard fac o.type d = true
    · have hg' : ((MS.defensesOf fac.L o.type).any (·.1 = d.1) && fac.floatOk d.2) = true := hg
      rw [if_pos hg'] at hstep
      rw [forIn_cons_ok _ _ _ _ _ hstep, hg, Bool.true_and]
      have hnd' : (((({ o with defenses := o.defenses ++ [d] } : PyAsset).defenses) ++ ds).map (·.1)).Nodup := by
        show (((o.defenses ++ [d]) ++ ds).map (·.1)).Nodup
        rw [List.append_assoc]; exact hnd
      have := ih { o with defenses := o.defenses ++ [d] } (fun x hx => hsub x (List.mem_cons_of_mem _ hx)) hnd'
      have hap : (o.defenses ++ [d]) ++ ds = o.defenses ++ d :: ds := by rw [List.append_assoc]; rfl
      simp only [hap] at this
      exact this
    · have hg' : ¬ ((MS.defensesOf fac.L o.type).any (·.1 = d.1) && fac.floatOk d.2) = true := hg
      rw [if_neg hg'] at hstep
      rw [forIn_cons_err _ _ _ _ _ hstep]
      refine ⟨?_, fun _ => ⟨_, rfl, ?_⟩⟩
      · intro h
        rw [Bool.and_eq_true] at h
        exact absurd h.1 hg
      · cases (MS.defensesOf fac.L o.type).any (·.1 = d.1)
        · exact Or.inr rfl
        · exact Or.inl rfl

/-! ### the hand model on one entry -/

theorem all_guard (fac : Factory) (ty : String) (defs : List (String × String)) :
    defs.all (defGuard fac ty) =
      (defs.all (fun p => fac.floatOk p.2) && defs.all (fun d => (MS.defensesOf fac.L ty).any (·.1 = d.1))) := by
  induction defs with
  | nil => rfl
  | cons d ds ih =>
    rw [List.all_cons, List.all_cons, List.all_cons, ih]
    unfold defGuard
    cases (MS.defensesOf fac.L ty).any (·.1 = d.1) <;> cases fac.floatOk d.2 <;>
      cases ds.all (fun p => fac.floatOk p.2) <;> rfl

theorem setAdd_length_le {α : Type} [DecidableEq α] (l : List α) (x : α) : (MS.setAdd l x).length ≤ l.length + 1 := by
  unfold MS.setAdd
  split
  · omega
  · rw [List.length_append]; exact Nat.le_refl _

/-- the step of the hand model on an entry with class `mc`, name `nm`, defenses `defs` -/
def handStep (fac : Factory) (k : Key) (mc nm : String) (defs : List (String × String)) (dOk : Bool) (st : MS.St) :
    Except MS.Err MS.St :=
  match k.toInt? with
  | none => .error .valueError
  | some id => MS.addAsset fac.L st mc (some nm) defs dOk "{}" (some id) true

theorem handStep_full (fac : Factory) (defsOk : Key → Bool) (k : Key) (nm mc : String)
    (defs : List (String × String)) (st : MS.St) :
    loadOldAsset fac.L defsOk st (k, .full nm mc defs) = handStep fac k mc nm defs (defsOk k) st := by
  unfold loadOldAsset handStep
  cases k.toInt? <;> rfl

theorem handStep_shorthand (fac : Factory) (defsOk : Key → Bool) (k : Key) (mc : String) (st : MS.St) :
    loadOldAsset fac.L defsOk st (k, .shorthand mc) = handStep fac k mc (mc ++ ":" ++ k.text) [] true st := by
  unfold loadOldAsset handStep
  cases k.toInt? <;> rfl

theorem asset_core (env : ModelEnv) (fac : Factory) (k : Key) (mc nm : String) (defs : List (String × String))
    (dOk : Bool) (hnd : (defs.map (·.1)).Nodup) (hdOk : dOk = defs.all (fun p => fac.floatOk p.2))
    (n : Nat) (s : H) (hP : PA env (n + 1) s) :
    (∀ r, assetRun env fac k mc nm defs s = .ok r →
      ∃ s1, r = .yield s1 ∧ handStep fac k mc nm defs dOk (abs s) = .ok (abs s1) ∧ PA env n s1) ∧
    (∀ e, assetRun env fac k mc nm defs s = .error e →
      ∃ er, handStep fac k mc nm defs dOk (abs s) = .error er ∧ OldErrAgree e er) := by
  obtain ⟨hI, hfuel, hep⟩ := hP
  have hfresh : s.afresh ∉ s.assets := hI.assets.fresh_not_mem
  have hfuel1 : s.asset_names.length + 1 ≤ env.whileFuel := by omega
  unfold assetRun handStep
  by_cases hcls : (fac.L.findAsset mc).isNone = true
  · -- no such class
    have hns : nsNewAsset fac s (PyJ.str mc) (PyJ.str nm) = .error (.py .attributeError) := by
      unfold nsNewAsset nsHasAsset
      have : (fac.L.findAsset mc).isSome = false := by
        cases h : fac.L.findAsset mc with
        | none => rfl
        | some _ => rw [h] at hcls; cases hcls
      simp only [this]; rfl
    rw [hns]
    refine ⟨fun r h => (by cases h), fun e h => ?_⟩
    cases h
    cases k.toInt? with
    | none => exact ⟨.valueError, rfl, by decide⟩
    | some id =>
      refine ⟨.lookupError, ?_, by decide⟩
      show MS.addAsset fac.L (abs s) mc (some nm) defs dOk "{}" (some id) true = _
      rw [addAsset_eq_core, if_pos hcls]
  · have hns : nsNewAsset fac s (PyJ.str mc) (PyJ.str nm) =
        .ok (newAssetObj s { type := mc, name := some nm }, s.afresh) := by
      unfold nsNewAsset nsHasAsset
      have : (fac.L.findAsset mc).isSome = true := by
        cases h : fac.L.findAsset mc with
        | none => rw [h] at hcls; exact absurd rfl hcls
        | some _ => rfl
      simp only [this, allocA_eq]; rfl
    rw [hns]
    obtain ⟨lok, lerr⟩ := defenses_loop fac s defs hnd defs { type := mc, name := some nm } (fun _ h => h)
      (by rw [show ({ type := mc, name := some nm } : PyAsset).defenses ++ defs = defs from List.nil_append _]; exact hnd)
    have hgd : (!dOk || !(defs.all (fun d => (MS.defensesOf fac.L mc).any (·.1 = d.1)))) =
        !(defs.all (defGuard fac mc)) := by
      rw [all_guard, hdOk, Bool.not_and]
    by_cases hg : defs.all (defGuard fac mc) = true
    · have hloop := lok hg
      have hgd' : ¬ (!dOk || !(defs.all (fun d => (MS.defensesOf fac.L mc).any (·.1 = d.1)))) = true := by
        rw [hgd, hg]; decide
      simp only [bind, Except.bind, hloop]
      cases hk : k.toInt? with
      | none =>
        rcases jInt_keyJ_none' k hk with hj | hj <;> rw [hj] <;>
          refine ⟨fun r h => (by cases h), fun e h => ?_⟩ <;> cases h <;>
          exact ⟨.valueError, rfl, by decide⟩
      | some id =>
        rw [jInt_keyJ_some k id hk]
        have tie := add_asset_tie s env hfresh hfuel1
          { type := mc, name := some nm, defenses := [] ++ defs } (some id) true
        have hhand : MS.addAsset fac.L (abs s) mc (some nm) defs dOk "{}" (some id) true =
            addAssetCore (abs s) mc (some nm) defs "{}" (some id) true := by
          rw [addAsset_eq_core, if_neg hcls, if_neg hgd']
        dsimp only
        cases hm : model_add_asset (newAssetObj s { type := mc, name := some nm, defenses := [] ++ defs }) env
            s.afresh (some id) true with
        | error e0 =>
          rw [hm] at tie
          dsimp only [liftPy]
          refine ⟨fun r h => (by cases h), fun e h => ?_⟩
          cases h
          refine ⟨errAbs e0, ?_, OldErrAgree.py e0⟩
          rw [hhand]; exact tie.symm
        | ok s1 =>
          rw [hm] at tie
          dsimp only [liftPy]
          have hst : MS.addAsset fac.L (abs s) mc (some nm) defs dOk "{}" (some id) true = .ok (abs s1) := by
            rw [hhand]; exact tie.symm
          refine ⟨fun r h => ?_, fun e h => by cases h⟩
          refine ⟨s1, ?_, hst, ?_⟩
          · have h' : (Except.ok (ForInStep.yield s1) : Except LErr (ForInStep H)) = .ok r := h
            injection h' with h'; exact h'.symm
          · refine ⟨MS.addAsset_inv' hI hst, ?_, ?_⟩
            · obtain ⟨hs1, _⟩ := MS.addAsset_ok hst
              have hnames : s1.asset_names = MS.setAdd s.asset_names
                  (MS.newAsset (abs s) mc (some nm) defs "{}" (some id)).name := by
                show (abs s1).assetNames = _
                rw [hs1]; rfl
              have := setAdd_length_le s.asset_names (MS.newAsset (abs s) mc (some nm) defs "{}" (some id)).name
              rw [hnames]; omega
            · have fr := add_asset_tframe _ s1 env s.afresh (some id) true
                (show s.afresh ∉ (newAssetObj s { type := mc, name := some nm, defenses := [] ++ defs }).assets
                  from hfresh) hfuel1 hm
              intro u r hr
              rw [fr.t] at hr
              rw [fr.efresh]
              exact hep u r hr
    · have hg' : defs.all (defGuard fac mc) = false := by
        cases h : defs.all (defGuard fac mc) with
        | false => rfl
        | true => exact absurd h hg
      obtain ⟨e0, hloop, he0⟩ := lerr hg'
      simp only [bind, Except.bind, hloop]
      refine ⟨fun r h => (by cases h), fun e h => ?_⟩
      cases h
      cases k.toInt? with
      | none =>
        refine ⟨.valueError, rfl, ?_⟩
        rcases he0 with he0 | he0 <;> subst he0 <;> decide
      | some id =>
        refine ⟨.validation, ?_, ?_⟩
        · show MS.addAsset fac.L (abs s) mc (some nm) defs dOk "{}" (some id) true = _
          rw [addAsset_eq_core, if_neg hcls, hgd, hg']; rfl
        · rcases he0 with he0 | he0 <;> subst he0 <;> decide

/-! ### the simulation -/

/-- the asset loop of the translated loader simulates `Legacy.loadOldAsset` -/
theorem asset_sim (env : ModelEnv) (fac : Factory) (defsOk : Key → Bool) :
    StepSim (PA env) (QA fac defsOk) (assetBody env fac) encA (loadOldAsset fac.L defsOk) := by
  refine ⟨?_, ?_⟩
  · intro n s a r hP hQ hb
    obtain ⟨k, entry⟩ := a
    cases entry with
    | full nm mc defs =>
      rw [assetBody_full] at hb
      rw [handStep_full]
      exact (asset_core env fac k mc nm defs (defsOk k) hQ.1 hQ.2 n s hP).1 r hb
    | shorthand mc =>
      rw [assetBody_shorthand] at hb
      rw [handStep_shorthand]
      exact (asset_core env fac k mc _ [] true List.nodup_nil rfl n s hP).1 r hb
  · intro n s a e hP hQ hb
    obtain ⟨k, entry⟩ := a
    cases entry with
    | full nm mc defs =>
      rw [assetBody_full] at hb
      rw [handStep_full]
      exact (asset_core env fac k mc nm defs (defsOk k) hQ.1 hQ.2 n s hP).2 e hb
    | shorthand mc =>
      rw [assetBody_shorthand] at hb
      rw [handStep_shorthand]
      exact (asset_core env fac k mc _ [] true List.nodup_nil rfl n s hP).2 e hb

end MalVerif.PyLeg.Tie
