import MalVerif.Py.TieLang
import MalVerif.Py.GenLang.Vars
/-!
# Tie: translated `LanguageGraph._get_variable_for_asset_type_by_name` (`Py/GenLang/Vars.lean`)  =  `Lang.lookupVar`
(`Model/Inherit.lean`): the first definition of the variable on the type or an ancestor

`rawVar` is the lookup on the heap before decoding the expression (`exprOfPy`); the translated function returns
exactly that expression (as the `expr` alternative of its result) or raises `LanguageGraphException` when there is
none — also for an unknown asset type.  With an `extends` cycle it raises `RecursionError` unless the variable is
found before the walk comes round.
-/
namespace MalVerif.Py.TieLangVars
open MalVerif MalVerif.Py MalVerif.Py.LSpec MalVerif.Py.GenLang MalVerif.Py.TieLang

/-- first definition of `v` on `t` or an ancestor, undecoded -/
def rawVar (s : LS) : Nat → String → String → Option PyExpr
  | 0, _, _ => none
  | f + 1, t, v =>
    match s.assets.find? (fun a => a.name == t) with
    | none => none
    | some a =>
      match a.variables.find? (fun d => d.name == v) with
      | some d => some d.stepExpression
      | none =>
        match pyTruthyStr a.superAsset with
        | some p => rawVar s f p v
        | none => none

theorem find_var_abs (s : LS) (a : PyAssetD) (v : String) :
    ((readAsset (absStore s) (absAsset s a)).variables.find? (fun x => decide (x.1 = v))).map (·.2) =
      (a.variables.find? (fun d => d.name == v)).map (fun d => exprOfPy d.stepExpression) := by
  show ((a.variables.map (fun d => (d.name, exprOfPy d.stepExpression))).find? _).map _ = _
  induction a.variables with
  | nil => rfl
  | cons d ds ih =>
    simp only [List.map_cons, List.find?_cons]
    by_cases h : d.name = v
    · simp [h]
    · have hb : (d.name == v) = false := by simp [h]
      simp only [h, hb, decide_false]
      exact ih

/-- `rawVar`, decoded, is the hand model's walk -/
theorem rawVar_chain (s : LS) : ∀ (fuel : Nat) (t v : String),
    (rawVar s fuel t v).map exprOfPy =
      ((absLang s).chain fuel t).findSome? (fun a => (a.variables.find? (fun x => decide (x.1 = v))).map (·.2)) := by
  intro fuel
  induction fuel with
  | zero => intro t v; rfl
  | succ f ih =>
    intro t v
    unfold rawVar Lang.chain
    rw [absLang_findAsset]
    cases hfa : s.assets.find? (fun a => a.name == t) with
    | none => rfl
    | some a =>
      simp only [Option.map_some, List.findSome?_cons, find_var_abs]
      have hsup : (readAsset (absStore s) (absAsset s a)).superAsset = pyTruthyStr a.superAsset := rfl
      rw [hsup]
      cases hv : a.variables.find? (fun d => d.name == v) with
      | some d => rfl
      | none =>
        simp only [Option.map_none]
        cases hp : pyTruthyStr a.superAsset with
        | none => rfl
        | some p => exact ih p v

/-- **tie**: without an `extends` cycle above the type the translated lookup returns the first definition of the
variable on the type or an ancestor, and raises `LanguageGraphException` when there is none -/
theorem get_variable_tie (s : LS) : ∀ (fuel : Nat) (t v : String), (absLang s).chainOK fuel t = true →
    lg__get_variable_for_asset_type_by_name fuel s t v =
      match rawVar s fuel t v with
      | some e => .ok (.expr e)
      | none => .error .languageGraphException := by
  intro fuel
  induction fuel with
  | zero => intro t v h; simp [Lang.chainOK] at h
  | succ f ih =>
    intro t v h
    unfold Lang.chainOK at h
    rw [absLang_findAsset] at h
    unfold lg__get_variable_for_asset_type_by_name rawVar
    simp only []
    cases hfa : s.assets.find? (fun a => a.name == t) with
    | none => rfl
    | some a =>
      simp only [hfa, Option.map_some] at h ⊢
      have hsup : (readAsset (absStore s) (absAsset s a)).superAsset = pyTruthyStr a.superAsset := rfl
      rw [hsup] at h
      cases hv : a.variables.find? (fun d => d.name == v) with
      | some d => rfl
      | none =>
        simp only [PyVarObj.ofOptVar, PyVarObj.truthy, Bool.not_false, if_true]
        cases hp : pyTruthyStr a.superAsset with
        | none => rfl
        | some p =>
          simp only [hp] at h ⊢
          rw [ih p v h]
          cases rawVar s f p v with
          | none => rfl
          | some e => rfl

end MalVerif.Py.TieLangVars
