import MalVerif.Py.TieVisitorExpr
import MalVerif.Py.TieVisitorClause
/-!
# Clause-level ties of the translated visitor on the token stream of a file

`expr_tie` (`TieVisitorExpr.lean`) is conditional on the classification of names agreeing; here the condition is
discharged in the two situations that occur:
* outside a `reaches` clause (`let`, `<-`): no `reaches` ancestor, every name is a field (`expr_tie_nav`,
  `requires_clause_tie`, `variable_tie`);
* inside a `reaches` clause that is followed by the end of the input or by a token that ends a clause
  (`reaches_clause_tie`): `_resolve_part_ID_type` scans the token stream up to the last token of the clause, the model
  looks for a DOT before the next COMMA in everything that follows — `reaches_agree` shows they agree.
-/
namespace MalVerif.Py.Visitor
open MalVerif MalVerif.Mal MalVerif.Py.GenVisitor

theorem reachStop_none {up : List PT} (h : ∀ p ∈ up, isRule "reaches" p = false) : reachStop up = Option.none := by
  induction up with
  | nil => rfl
  | cons p ps ih =>
    simp only [reachStop, h p (List.mem_cons_self), Bool.false_eq_true, if_false]
    exact ih (fun q hq => h q (List.mem_cons_of_mem _ hq))

theorem stopsOK_none {up : List PT} (toks : List V) (h : ∀ p ∈ up, isRule "reaches" p = false) : StopsOK up toks := by
  intro p hp hr
  rw [h p hp] at hr
  cases hr

/-- expressions outside a reaches clause: every name is a field -/
theorem expr_tie_nav (c : V → M V) (all : List Tok) (wf : Nat) (f : Nat) (its : List ITok) (t : PT) (irest : List ITok)
    (h : treeExpr f its = some (t, irest)) :
    ∃ e, parseExpr f false (its.map Prod.fst) = some (e, irest.map Prod.fst) ∧ isRule "expr" t = true ∧
      ∀ g up, t.depth ≤ g → up.length + t.depth < wf → (∀ p ∈ up, isRule "reaches" p = false) →
        visitF c (tokensV all) wf g (.ctx t up) = .ok (rExpr e) := by
  obtain ⟨e, hp, hr, hv⟩ := expr_tie c (tokensV all) wf (resolveSpec_tokensV all wf) f false its t irest h
  refine ⟨e, hp, hr, ?_⟩
  intro g up hg hwf hup
  apply hv g up hg hwf (stopsOK_none _ hup)
  intro n i r _ _
  simp [stepAt, reachStop_none hup]

/-- `let v = expr` -/
theorem variable_tie (c : V → M V) (all : List Tok) (wf : Nat) (f : Nat) (its : List ITok) (e : PT) (irest : List ITok)
    (i j k : Nat) (v : String) (h : treeExpr f its = some (e, irest)) :
    ∃ ex, parseExpr f false (its.map Prod.fst) = some (ex, irest.map Prod.fst) ∧
      ∀ g up, e.depth ≤ g → up.length + 1 + e.depth < wf → (∀ p ∈ up, isRule "reaches" p = false) →
        visitF c (tokensV all) wf (g+1)
          (.ctx (.rule "variable" [leaf (Tok.kwLet, i), leaf (Tok.id v, j), leaf (Tok.assign, k), e]) up) = .ok (rVar (v, ex)) := by
  obtain ⟨ex, hp, hr, hv⟩ := expr_tie_nav c all wf f its e irest h
  refine ⟨ex, hp, ?_⟩
  intro g up hg hwf hup
  apply visitVariable_of c (tokensV all) wf g i j k v e up ex hr
  apply hv g _ hg (by simp only [List.length_cons]; omega)
  intro p hp
  rcases List.mem_cons.mp hp with rfl | hp
  · rfl
  · exact hup p hp

/-- `<- expr, …` -/
theorem requires_clause_tie (c : V → M V) (all : List Tok) (wf : Nat) (f : Nat) (its : List ITok) (cs : List PT)
    (irest : List ITok) (i : Nat) (h : treeExprList f its = some (cs, irest)) :
    ∃ es, parseExprList f false (its.map Prod.fst) = some (es, irest.map Prod.fst) ∧
      ∀ g up, PT.depthL cs ≤ g → up.length + 1 + PT.depthL cs < wf → (∀ p ∈ up, isRule "reaches" p = false) →
        visitF c (tokensV all) wf (g+1) (.ctx (.rule "precondition" (leaf (Tok.requires, i) :: cs)) up) = .ok (rExprs true es) := by
  obtain ⟨es, hp, _, hv⟩ := exprlist_tie c (tokensV all) wf (resolveSpec_tokensV all wf) f false its cs irest h
  refine ⟨es, hp, ?_⟩
  intro g up hg hwf hup
  apply visitPrecondition_of
  have hup' : ∀ p ∈ (PT.rule "precondition" (leaf (Tok.requires, i) :: cs) :: up), isRule "reaches" p = false := by
    intro p hp
    rcases List.mem_cons.mp hp with rfl | hp
    · rfl
    · exact hup p hp
  apply hv g _ hg (by simp only [List.length_cons]; omega) (stopsOK_none _ hup')
  intro n i r _ _
  simp [stepAt, reachStop_none hup']

/-- `-> expr, …` / `+> expr, …` followed by the end of the input or a token that ends the clause: the translated
visitor classifies as the model does -/
theorem reaches_clause_tie (c : V → M V) (all front ts : List Tok) (arrow : Tok)
    (harrow : arrow = Tok.leadsto ∨ arrow = Tok.inherits) (hall : all = front ++ arrow :: ts) (wf f : Nat)
    (cs : List PT) (irest : List ITok) (h : treeExprList f (ts.zipIdx (front.length + 1)) = some (cs, irest))
    (hend : irest.map Prod.fst = [] ∨ ∃ t r, irest.map Prod.fst = t :: r ∧ endsClause t = true) :
    ∃ es, parseExprList f true ts = some (es, irest.map Prod.fst) ∧
      ∀ g up, PT.depthL cs ≤ g → up.length + 1 + PT.depthL cs < wf → StopsOK up (tokensV all) →
        visitF c (tokensV all) wf (g+1) (.ctx (.rule "reaches" (leaf (arrow, front.length) :: cs)) up) =
          .ok (rExprs (arrow == Tok.leadsto) es) := by
  obtain ⟨es, hp, hcs, hv⟩ :=
    exprlist_tie c (tokensV all) wf (resolveSpec_tokensV all wf) f true (ts.zipIdx (front.length + 1)) cs irest h
  rw [List.zipIdx_map_fst] at hp
  refine ⟨es, hp, ?_⟩
  intro g up hg hwf hup
  have hcons := consumed_exprlist f _ _ _ h
  have hpos := exprlist_pos f _ _ _ h
  -- the last token of the clause
  obtain ⟨pre, hsplit, hleaves, _⟩ := id hcons
  have hne : pre ≠ [] := by
    intro hnil
    rw [hnil, List.nil_append] at hsplit
    rw [hsplit] at hpos
    exact Nat.lt_irrefl _ hpos
  have hlastL : PT.lastL cs = some (leaf (pre.getLast hne)) := by
    rw [lastL_eq_leaves, hleaves, List.getLast?_map, List.getLast?_eq_some_getLast hne]; rfl
  have hnode_last : ∀ t, PT.lastL cs = some t → (PT.rule "reaches" (leaf (arrow, front.length) :: cs)).last = some t := by
    intro t ht
    simp only [PT.last, PT.lastL, ht]
  have hmem : pre.getLast hne ∈ ts.zipIdx (front.length + 1) := by
    rw [hsplit]; exact List.mem_append_left _ (List.getLast_mem hne)
  have hidx : (pre.getLast hne).2 < (tokensV all).length := by
    obtain ⟨m, hm, hget⟩ := List.mem_iff_getElem.mp hmem
    have : (pre.getLast hne).2 = front.length + 1 + m := by
      rw [← hget]; simp
    simp only [List.length_zipIdx] at hm
    rw [tokensV_length, hall, this]
    simp only [List.length_append, List.length_cons]
    omega
  have hstops : StopsOK (PT.rule "reaches" (leaf (arrow, front.length) :: cs) :: up) (tokensV all) := by
    intro p hp hr
    rcases List.mem_cons.mp hp with rfl | hp
    · exact ⟨_, _, _, by rw [hnode_last _ hlastL]; rfl, hidx⟩
    · exact hup p hp hr
  have hall' : all = (front ++ [arrow]) ++ ts := by rw [hall]; simp
  have hlen' : (front ++ [arrow]).length = front.length + 1 := by simp
  have hagree := reaches_agree all (front ++ [arrow]) ts hall' cs irest (by rw [hlen']; exact hcons) hend
    (PT.rule "reaches" (leaf (arrow, front.length) :: cs)) up rfl hnode_last
  rw [hlen'] at hagree
  have hvis := hv g (PT.rule "reaches" (leaf (arrow, front.length) :: cs) :: up) hg
    (by simp only [List.length_cons]; omega) hstops hagree
  exact visitReaches_of c (tokensV all) wf g (arrow, front.length) harrow cs up es hcs hvis

end MalVerif.Py.Visitor
