import MalVerif.Py.GenNeo4j.IngestGraph
import MalVerif.Py.AbsNeo4j
import MalVerif.Py.TieToDict
/-!
# Tie: the translated `ingest_attack_graph` (`GenNeo4j/IngestGraph.lean`) and the hand model `Neo.ingestGraph`

* `ingest_attack_graph_heap`: on a heap whose nodes have pairwise distinct ids and whose children are nodes of the
  graph, the generated function does not raise; it stores, in order, the record `stepRec s r` of every node and the
  relationships `toSet`-style fold of `(position of r, position of c)`;
* `ingest_attack_graph_tie`: the same result read through `absS`: the rendering of the step nodes of the hand model
  and exactly the relationship list of `Neo.ingestGraph`;
* `ingest_attack_graph_total`: it never raises under `GraphOK`;
* `ingest_attack_graph_keyError`: a child that is no node of the graph (its id is the id of no node) raises `KeyError`.
-/
namespace MalVerif.PyN.TieG
open MalVerif MalVerif.Py MalVerif.Py.Gen MalVerif.PyN MalVerif.Py.Tie MalVerif.Py.Tie.TD

/-- the hypothesis on the heap -/
structure GraphOK (s : Py.H) : Prop where
  ids : ∀ r ∈ s.nodes, (s.n r).id.isSome
  idsNodup : (s.nodes.map (fun r => (s.n r).id)).Nodup
  closed : ∀ r ∈ s.nodes, ∀ c ∈ (s.n r).children, c ∈ s.nodes
  types : ∀ r ∈ s.nodes, Py.KnownType (s.n r).type

/-! ### closed form of the generated function -/

abbrev Tab := List (Option Int × NodeRef)

def nodeStep (s : H) (node : NRef) (p : W × Tab) : Except PyErr (ForInStep (W × Tab)) :=
  (node_to_dict s node).bind fun d =>
  (if Py.dictIn d "asset" = true then Py.dictGetE d "asset" else Py.dictGetE d "id").bind fun a0 =>
  (neoLabel a0).bind fun lab =>
  (Py.dictGetE d "name").bind fun a1 =>
  (neoPropStr a1).bind fun nm =>
  (Py.dictGetE d "type").bind fun a3 =>
  (neoPropStr a3).bind fun ty =>
  (Py.dictGetE d "ttc").bind fun a5 =>
  (Py.dictGetE d "compromised_by").bind fun a6 =>
  (if Py.dictIn d "defense_status" = true then Py.dictGetE d "defense_status" else .ok (PyAtom.str "N/A")).bind fun a7 =>
  (neoPropStr a7).bind fun df =>
  .ok (ForInStep.yield
    ((p.1.allocNode
        { labels := [lab],
          props := [("name", nm), ("full_name", node_full_name s node), ("type", ty), ("ttc", pyStrAtom a5),
                    ("is_necessary", strOfBool (s.n node).is_necessary), ("is_viable", strOfBool (s.n node).is_viable),
                    ("compromised_by", pyStrAtom a6), ("defense_status", df)] }).1,
     Py.dictSet p.2 (s.n node).id (p.1.allocNode
        { labels := [lab],
          props := [("name", nm), ("full_name", node_full_name s node), ("type", ty), ("ttc", pyStrAtom a5),
                    ("is_necessary", strOfBool (s.n node).is_necessary), ("is_viable", strOfBool (s.n node).is_viable),
                    ("compromised_by", pyStrAtom a6), ("defense_status", df)] }).2))

def relInner (s : H) (nodes : Tab) (node child : NRef) (rels : List NeoRel) : Except PyErr (ForInStep (List NeoRel)) :=
  (Py.dictGetE nodes (s.n node).id).bind fun a => (Py.dictGetE nodes (s.n child).id).bind fun b =>
    .ok (ForInStep.yield (rels ++ [neoRel2 a b]))

def relStep (s : H) (nodes : Tab) (node : NRef) (rels : List NeoRel) : Except PyErr (ForInStep (List NeoRel)) :=
  (forIn (s.n node).children rels (relInner s nodes node)).bind fun r => .ok (ForInStep.yield r)

def finish (g : NeoGraph) (w : W) (nodes : Tab) (rels : List NeoRel) : W :=
  w.commit g (neoTxCreate (neoBegin g) (neoSubgraph (dictValues nodes) rels))

def main (s : H) (g : NeoGraph) (w : W) : Except PyErr W :=
  (forIn s.nodes (w, ([] : Tab)) (nodeStep s)).bind fun p =>
  (forIn s.nodes ([] : List NeoRel) (relStep s p.2)).bind fun rels => .ok (finish g p.1 p.2 rels)

theorem ingest_eq (w : W) (s : H) (uri user pw db : String) (delete : Bool) :
    Gen.ingest_attack_graph w s uri user pw db delete =
      if delete = true then main s ⟨uri, user, pw, db⟩ (w.deleteAll ⟨uri, user, pw, db⟩)
      else main s ⟨uri, user, pw, db⟩ w := by
  unfold Gen.ingest_attack_graph
  rfl

/-! ### the first loop -/

/-- the record stored for a node, from the fields of the heap -/
def stepRec (s : H) (r : NRef) : NeoNode :=
  { labels := [match (s.n r).asset with | some a => a.name | none => strOptInt (s.n r).id]
    props := [("name", (s.n r).name), ("full_name", node_full_name s r), ("type", (s.n r).type),
              ("ttc", pyStrAtom (atomOfOptDictS (s.n r).ttc)),
              ("is_necessary", strOfBool (s.n r).is_necessary), ("is_viable", strOfBool (s.n r).is_viable),
              ("compromised_by", pyStrAtom (.strs ((s.n r).compromised_by.map (fun a => (s.a a).name)))),
              ("defense_status", match (s.n r).defense_status with | some v => pyStrFloat v | none => "N/A")] }

theorem dictIn_eq {ν : Type} (d : List (String × ν)) (k : String) : Py.dictIn d k = (Py.dictGet d k).isSome := by
  unfold Py.dictIn Py.dictGet
  induction d with
  | nil => rfl
  | cons e d ih =>
    rw [List.any_cons, List.find?_cons]
    cases h : (e.1 == k) with
    | true => rfl
    | false => simpa using ih

theorem nodeStep_ok (s : H) (r : NRef) (w : W) (nodes : Tab) :
    nodeStep s r (w, nodes) =
      .ok (ForInStep.yield ({ w with objs := w.objs ++ [stepRec s r] }, Py.dictSet nodes (s.n r).id w.objs.length)) := by
  obtain ⟨d2, h, _, _, hk⟩ := node_to_dict_spec s r
  have hA : Py.dictGet (nodeTail s r d2) "asset" = (s.n r).asset.map (fun v => PyAtom.str v.name) := by
    rw [tail_asset, hk _ (by decide) (by decide)]
    show Option.or _ none = _
    cases (s.n r).asset <;> rfl
  have hD : Py.dictGet (nodeTail s r d2) "defense_status" =
      (s.n r).defense_status.map (fun v => PyAtom.str (pyStrFloat v)) := by
    rw [tail_defense_status, hk _ (by decide) (by decide)]
    show Option.or _ none = _
    cases (s.n r).defense_status <;> rfl
  have hI : Py.dictGet (nodeTail s r d2) "id" = some (atomOfOptInt (s.n r).id) := by
    rw [tail_id, hk _ (by decide) (by decide)]; rfl
  have hN : Py.dictGet (nodeTail s r d2) "name" = some (PyAtom.str (s.n r).name) := by
    rw [tail_name, hk _ (by decide) (by decide)]; rfl
  have hT : Py.dictGet (nodeTail s r d2) "type" = some (PyAtom.str (s.n r).type) := by
    rw [tail_type, hk _ (by decide) (by decide)]; rfl
  have hC : Py.dictGet (nodeTail s r d2) "ttc" = some (atomOfOptDictS (s.n r).ttc) := by
    rw [tail_ttc, hk _ (by decide) (by decide)]; rfl
  have hB : Py.dictGet (nodeTail s r d2) "compromised_by" =
      some (PyAtom.strs ((s.n r).compromised_by.map (fun a => (s.a a).name))) := by
    rw [tail_compromised_by, hk _ (by decide) (by decide)]; rfl
  unfold nodeStep stepRec
  rw [h]
  simp only [Except.bind, dictIn_eq, Py.dictGetE, hA, hD, hI, hN, hT, hC, hB, neoPropStr]
  cases (s.n r).asset <;> cases (s.n r).defense_status <;> cases (s.n r).id <;> rfl

/-- position of a node in a list of nodes (`Neo.gpos`) -/
def pos (l : List Nat) (r : Nat) : Nat := (l.idxOf? r).getD 0

/-- the table `nodes` after the first loop: id ↦ `Node` object, in order -/
def idTable (s : H) : List NRef → Nat → Tab
  | [], _ => []
  | r :: l, k => ((s.n r).id, k) :: idTable s l (k + 1)

theorem dictSet_new (d : Tab) (k : Option Int) (v : NodeRef) (h : k ∉ d.map (·.1)) :
    Py.dictSet d k v = d ++ [(k, v)] := by
  unfold Py.dictSet
  rw [if_neg]
  intro hc
  rw [List.any_eq_true] at hc
  obtain ⟨e, he, hk⟩ := hc
  exact h (List.mem_map.2 ⟨e, he, eq_of_beq hk⟩)

theorem loop1 (s : H) : ∀ (l : List NRef) (w : W) (nodes : Tab),
    (l.map (fun r => (s.n r).id)).Nodup → (∀ r ∈ l, (s.n r).id ∉ nodes.map (·.1)) →
    forIn l (w, nodes) (nodeStep s) =
      .ok ({ w with objs := w.objs ++ l.map (stepRec s) }, nodes ++ idTable s l w.objs.length) := by
  intro l
  induction l with
  | nil =>
    intro w nodes _ _
    show Except.ok (w, nodes) = _
    simp [idTable]
  | cons x xs ih =>
    intro w nodes hnd hfr
    rw [List.forIn_cons, nodeStep_ok]
    simp only [bind, Except.bind]
    rw [List.map_cons, List.nodup_cons] at hnd
    rw [dictSet_new _ _ _ (hfr x List.mem_cons_self), ih _ _ hnd.2 ?_]
    · simp [idTable, List.length_append]
    · intro r hr hm
      rw [List.map_append, List.mem_append] at hm
      rcases hm with hm | hm
      · exact hfr r (List.mem_cons_of_mem _ hr) hm
      · simp only [List.map_cons, List.map_nil, List.mem_singleton] at hm
        exact hnd.1 (List.mem_map.2 ⟨r, hr, hm⟩)

theorem idTable_values (s : H) : ∀ (l : List NRef) (k : Nat), dictValues (idTable s l k) = List.range' k l.length := by
  intro l
  induction l with
  | nil => intro k; rfl
  | cons x xs ih =>
    intro k
    show k :: dictValues (idTable s xs (k + 1)) = _
    rw [ih, List.length_cons, List.range'_succ]

theorem pos_lt {l : List Nat} {r : Nat} (h : r ∈ l) : pos l r < l.length := by
  unfold pos
  cases e : l.idxOf? r with
  | none => exact absurd h (List.idxOf?_eq_none_iff.1 e)
  | some i => obtain ⟨hi, _⟩ := List.idxOf?_eq_some_iff.1 e; exact hi

theorem idTable_get (s : H) : ∀ (l : List NRef) (k : Nat) (r : NRef),
    (l.map (fun r => (s.n r).id)).Nodup → r ∈ l →
    Py.dictGet (idTable s l k) (s.n r).id = some (k + pos l r) := by
  intro l
  induction l with
  | nil => intro k r _ h; cases h
  | cons x xs ih =>
    intro k r hnd hr
    rw [List.map_cons, List.nodup_cons] at hnd
    by_cases hx : x = r
    · subst hx
      unfold pos Py.dictGet idTable
      rw [List.find?_cons, List.idxOf?_cons]
      simp
    · have hr' : r ∈ xs := by
        rcases List.mem_cons.1 hr with h | h
        · exact absurd h.symm hx
        · exact h
      have hne : ((s.n x).id == (s.n r).id) = false := by
        apply beq_false_of_ne
        intro he
        exact hnd.1 (List.mem_map.2 ⟨r, hr', he.symm⟩)
      have h1 := ih (k + 1) r hnd.2 hr'
      unfold Py.dictGet at h1 ⊢
      unfold idTable
      rw [List.find?_cons, hne, h1]
      unfold pos
      rw [List.idxOf?_cons, beq_false_of_ne hx]
      cases e : xs.idxOf? r with
      | none => exact absurd hr' (List.idxOf?_eq_none_iff.1 e)
      | some i => simp; omega

/-! ### the second loop -/

theorem loopInner (s : H) (nodes : Tab) (ref : NRef → NodeRef) (node : NRef)
    (hn : Py.dictGetE nodes (s.n node).id = .ok (ref node)) :
    ∀ (cs : List NRef) (rels : List NeoRel), (∀ c ∈ cs, Py.dictGetE nodes (s.n c).id = .ok (ref c)) →
    forIn cs rels (relInner s nodes node) = .ok (rels ++ cs.map (fun c => neoRel2 (ref node) (ref c))) := by
  intro cs
  induction cs with
  | nil => intro rels _; show Except.ok rels = _; simp
  | cons c cs ih =>
    intro rels h
    have hstep : relInner s nodes node c rels = .ok (ForInStep.yield (rels ++ [neoRel2 (ref node) (ref c)])) := by
      unfold relInner
      rw [hn, h c List.mem_cons_self]
      rfl
    rw [List.forIn_cons, hstep]
    simp only [bind, Except.bind]
    rw [ih _ (fun c' hc' => h c' (List.mem_cons_of_mem _ hc'))]
    simp

theorem loop2 (s : H) (nodes : Tab) (ref : NRef → NodeRef) :
    ∀ (l : List NRef) (rels : List NeoRel),
    (∀ r ∈ l, Py.dictGetE nodes (s.n r).id = .ok (ref r) ∧
      ∀ c ∈ (s.n r).children, Py.dictGetE nodes (s.n c).id = .ok (ref c)) →
    forIn l rels (relStep s nodes) =
      .ok (rels ++ l.flatMap (fun r => (s.n r).children.map (fun c => neoRel2 (ref r) (ref c)))) := by
  intro l
  induction l with
  | nil => intro rels _; show Except.ok rels = _; simp
  | cons x xs ih =>
    intro rels h
    have hstep : relStep s nodes x rels =
        .ok (ForInStep.yield (rels ++ (s.n x).children.map (fun c => neoRel2 (ref x) (ref c)))) := by
      unfold relStep
      rw [loopInner s nodes ref x (h x List.mem_cons_self).1 _ _ (h x List.mem_cons_self).2]
      rfl
    rw [List.forIn_cons, hstep]
    simp only [bind, Except.bind]
    rw [ih _ (fun r hr => h r (List.mem_cons_of_mem _ hr))]
    simp

/-! ### sets and the store -/

theorem toSet_eq {α : Type} [BEq α] (l : List α) : toSet l = l.foldl Neo.setIns [] := rfl

theorem mem_toSet {α : Type} [BEq α] [LawfulBEq α] (l : List α) (x : α) : x ∈ toSet l ↔ x ∈ l := by
  rw [toSet_eq, Neo.mem_foldl_setIns]; simp

theorem foldl_setIns_map {α β : Type} [BEq α] [LawfulBEq α] [BEq β] [LawfulBEq β] (f : α → β)
    (hf : ∀ x y, f x = f y → x = y) :
    ∀ (l acc : List α), (l.foldl Neo.setIns acc).map f = (l.map f).foldl Neo.setIns (acc.map f) := by
  intro l
  induction l with
  | nil => intro acc; rfl
  | cons x xs ih =>
    intro acc
    rw [List.foldl_cons, List.map_cons, List.foldl_cons, ih]
    congr 1
    have hc : (acc.map f).contains (f x) = acc.contains x := by
      rw [Bool.eq_iff_iff, List.contains_iff_mem, List.contains_iff_mem, List.mem_map]
      constructor
      · rintro ⟨y, hy, he⟩; rw [← hf _ _ he]; exact hy
      · intro h; exact ⟨x, h, rfl⟩
    unfold Neo.setIns
    rw [hc]
    split <;> simp

theorem toSet_map {α β : Type} [BEq α] [LawfulBEq α] [BEq β] [LawfulBEq β] (f : α → β)
    (hf : ∀ x y, f x = f y → x = y) (l : List α) : toSet (l.map f) = (toSet l).map f := by
  rw [toSet_eq, toSet_eq, foldl_setIns_map f hf]; rfl

theorem idxOf_range' (k n i : Nat) (h : i < n) : (List.range' k n).idxOf? (k + i) = some i := by
  rw [List.idxOf?_eq_some_iff]
  refine ⟨by simpa using h, ?_, ?_⟩
  · simp [List.getElem_range']
  · intro j hj; simp [List.getElem_range']; omega

theorem filter_range (p : Nat → Bool) (k n : Nat) (hp : ∀ r, r < k + n → p r = decide (k ≤ r)) :
    (List.range (k + n)).filter p = List.range' k n := by
  have e : List.range' 0 (k + n) = List.range' 0 k ++ List.range' k n := by
    have := List.range'_append (s := 0) (m := k) (n := n) (step := 1)
    simpa using this.symm
  rw [List.range_eq_range', e, List.filter_append]
  have h1 : (List.range' 0 k).filter p = [] := by
    rw [List.filter_eq_nil_iff]
    intro a ha
    rw [List.mem_range'_1] at ha
    rw [hp a (by omega)]
    simp; omega
  have h2 : (List.range' k n).filter p = List.range' k n := by
    rw [List.filter_eq_self]
    intro a ha
    rw [List.mem_range'_1] at ha
    rw [hp a ha.2]
    simp; omega
  rw [h1, h2, List.nil_append]

/-- the unbound relationship between the `i`-th and the `j`-th of the nodes made after the first `k` objects -/
def relOfPair (k : Nat) (e : Nat × Nat) : NeoRel := neoRel2 (k + e.1) (k + e.2)

theorem relOfPair_inj (k : Nat) (x y : Nat × Nat) (h : relOfPair k x = relOfPair k y) : x = y := by
  have h1 : k + x.1 = k + y.1 := congrArg NeoRel.start h
  have h2 : k + x.2 = k + y.2 := congrArg NeoRel.stop h
  apply Prod.ext <;> omega

/-- storing, into an empty database, a block of freshly made nodes with relationships between them -/
theorem store_fresh (objs0 news : List NeoNode) (L : List (Nat × Nat))
    (hL : ∀ e ∈ L, e.1 < news.length ∧ e.2 < news.length) :
    Db.store (objs0 ++ news) {}
        (neoSubgraph (List.range' objs0.length news.length) (L.map (relOfPair objs0.length))) =
      { nodes := news, rels := (toSet L).map (fun e => ⟨e.1, "Relationship", e.2⟩) } := by
  have hp : ∀ r, r < objs0.length + news.length →
      (neoSubgraph (List.range' objs0.length news.length) (L.map (relOfPair objs0.length))).nodes.contains r =
        decide (objs0.length ≤ r) := by
    intro r hr
    rw [Bool.eq_iff_iff, List.contains_iff_mem]
    unfold neoSubgraph
    rw [mem_toSet, List.mem_append, List.mem_range'_1, List.mem_flatMap, decide_eq_true_iff]
    constructor
    · rintro (h | ⟨e, he, hm⟩)
      · exact h.1
      · obtain ⟨q, _, rfl⟩ := List.mem_map.1 he
        simp only [relOfPair, neoRel2, List.mem_cons, List.not_mem_nil, or_false] at hm
        rcases hm with hm | hm
        · rw [hm]; exact Nat.le_add_right _ _
        · rw [hm]; exact Nat.le_add_right _ _
    · intro h; exact Or.inl ⟨h, hr⟩
  unfold Db.store
  dsimp only
  rw [List.length_append, filter_range _ _ _ hp]
  congr 1
  · rw [List.nil_append]
    apply List.ext_getElem
    · simp
    · intro i h1 h2
      simp only [List.getElem_map, List.getElem_range', Nat.one_mul]
      rw [List.getElem?_append_right (by omega)]
      simp [h2]
  · rw [List.nil_append]
    show List.map _ (toSet (L.map (relOfPair objs0.length))) = _
    rw [toSet_map (relOfPair objs0.length) (relOfPair_inj _), List.map_map]
    apply List.map_congr_left
    intro e he
    have hb := hL e ((mem_toSet _ _).1 he)
    simp [relOfPair, neoRel2, idxOf_range' _ _ _ hb.1, idxOf_range' _ _ _ hb.2]

/-! ### the whole function, on the heap -/

/-- the edges as pairs of positions, in the order of the second loop -/
def edgePairs (s : H) : List (Nat × Nat) :=
  s.nodes.flatMap fun r => (s.n r).children.map fun c => (pos s.nodes r, pos s.nodes c)

/-- the database after `ingest_attack_graph` -/
def resultDb (s : H) : Db :=
  { nodes := s.nodes.map (stepRec s), rels := (toSet (edgePairs s)).map (fun e => ⟨e.1, "Relationship", e.2⟩) }

theorem main_heap (s : H) (g : NeoGraph) (w : W) (hdb : w.db = {})
    (hnd : (s.nodes.map (fun r => (s.n r).id)).Nodup)
    (hcl : ∀ r ∈ s.nodes, ∀ c ∈ (s.n r).children, c ∈ s.nodes) :
    main s g w = .ok { objs := w.objs ++ s.nodes.map (stepRec s), db := resultDb s } := by
  unfold main
  rw [loop1 s s.nodes w [] hnd (by simp)]
  simp only [Except.bind, List.nil_append]
  have hget : ∀ r ∈ s.nodes, Py.dictGetE (idTable s s.nodes w.objs.length) (s.n r).id =
      .ok ((fun r => w.objs.length + pos s.nodes r) r) := by
    intro r hr
    unfold Py.dictGetE
    rw [idTable_get s s.nodes _ r hnd hr]
  rw [loop2 s _ (fun r => w.objs.length + pos s.nodes r) s.nodes []
    (fun r hr => ⟨hget r hr, fun c hc => hget c (hcl r hr c hc)⟩)]
  simp only [List.nil_append]
  unfold finish W.commit neoTxCreate neoBegin
  simp only [List.nil_append, List.foldl_cons, List.foldl_nil]
  rw [hdb, idTable_values]
  have hrels : (s.nodes.flatMap fun r => (s.n r).children.map fun c =>
      neoRel2 (w.objs.length + pos s.nodes r) (w.objs.length + pos s.nodes c)) =
      (edgePairs s).map (relOfPair w.objs.length) := by
    unfold edgePairs
    rw [List.map_flatMap]
    simp only [List.map_map]
    rfl
  have hL : ∀ e ∈ edgePairs s, e.1 < (s.nodes.map (stepRec s)).length ∧ e.2 < (s.nodes.map (stepRec s)).length := by
    intro e he
    unfold edgePairs at he
    rw [List.mem_flatMap] at he
    obtain ⟨r, hr, he⟩ := he
    obtain ⟨c, hc, rfl⟩ := List.mem_map.1 he
    rw [List.length_map]
    exact ⟨pos_lt hr, pos_lt (hcl r hr c hc)⟩
  have hst := store_fresh w.objs (s.nodes.map (stepRec s)) (edgePairs s) hL
  rw [List.length_map] at hst
  rw [hrels, hst]
  rfl

/-- heap-level statement: no exception; the `Node` objects made, and the database stored -/
theorem ingest_attack_graph_heap (w : W) (s : Py.H) (uri user pw db : String) (delete : Bool)
    (hdb : delete = true ∨ w.db = {})
    (hnd : (s.nodes.map (fun r => (s.n r).id)).Nodup)
    (hcl : ∀ r ∈ s.nodes, ∀ c ∈ (s.n r).children, c ∈ s.nodes) :
    Gen.ingest_attack_graph w s uri user pw db delete =
      .ok { objs := w.objs ++ s.nodes.map (stepRec s), db := resultDb s } := by
  rw [ingest_eq]
  cases delete with
  | true =>
    rw [if_pos rfl]
    exact main_heap s _ (w.deleteAll _) rfl hnd hcl
  | false =>
    rcases hdb with h | h
    · cases h
    · rw [if_neg (by decide)]
      exact main_heap s _ w h hnd hcl

/-! ### the bridge to the hand model -/

/-- the stored record of a node is the rendering of the step node of the hand model -/
theorem stepRec_render (s : H) (nf af : Nat) (r : NRef) (hid : (s.n r).id.isSome) (ht : Py.KnownType (s.n r).type) :
    stepRec s r =
      renderStep ((fun r => let o := (Py.absS s nf af).nobj r
            ({ label := (match o.asset with | some a => a | none => toString o.id), name := o.name,
               fullName := AGS.fullName o, type := tnCanon o.type, ttc := o.ttc, necessary := o.necessary,
               viable := o.viable, compBy := o.compBy.map (fun a => ((Py.absS s nf af).aobj a).name),
               defense := o.defense } : Neo.StepNode)) r)
          (pyStrAtom (Py.atomOfOptDictS (s.n r).ttc)) := by
  obtain ⟨i, hi⟩ := Option.isSome_iff_exists.1 hid
  have htn : tnCanon (Py.ntypeOf (s.n r).type) = (s.n r).type := tnCanon_ntypeOf ht
  unfold stepRec renderStep
  simp only [Py.absS, Py.absN, Py.absA, AGS.fullName, node_full_name, Id.run, htn, hi, strOptInt, pyStrFloat,
    Option.getD_some]
  cases (s.n r).asset <;> cases (s.n r).defense_status <;> rfl

theorem resultDb_rels (s : H) (nf af : Nat) :
    absGRels (resultDb s) = (Neo.ingestGraph tnCanon (Py.absS s nf af)).rels := by
  rw [Neo.ingestGraph_rels]
  unfold absGRels resultDb
  simp only [List.map_map]
  have e : ∀ l : List (Nat × Nat), l.map ((fun r : DbRel => (r.src, r.dst)) ∘
      fun e => ({ src := e.1, type := "Relationship", dst := e.2 } : DbRel)) = l := by
    intro l
    induction l with
    | nil => rfl
    | cons x xs ih => rw [List.map_cons, ih]; rfl
  rw [e]
  rfl

theorem ingest_attack_graph_tie (w : W) (s : Py.H) (h : GraphOK s) (uri user pw db : String) (delete : Bool)
    (hdb : delete = true ∨ w.db = {}) (nf af : Nat) :
    ∃ w', Gen.ingest_attack_graph w s uri user pw db delete = .ok w' ∧
      w'.db.nodes = s.nodes.map (fun r =>
        renderStep ((fun r => let o := (Py.absS s nf af).nobj r
            ({ label := (match o.asset with | some a => a | none => toString o.id), name := o.name,
               fullName := AGS.fullName o, type := tnCanon o.type, ttc := o.ttc, necessary := o.necessary,
               viable := o.viable, compBy := o.compBy.map (fun a => ((Py.absS s nf af).aobj a).name),
               defense := o.defense } : Neo.StepNode)) r)
          (pyStrAtom (Py.atomOfOptDictS (s.n r).ttc))) ∧
      absGRels w'.db = (Neo.ingestGraph tnCanon (Py.absS s nf af)).rels := by
  refine ⟨_, ingest_attack_graph_heap w s uri user pw db delete hdb h.idsNodup h.closed, ?_, ?_⟩
  · show s.nodes.map (stepRec s) = _
    exact List.map_congr_left (fun r hr => stepRec_render s nf af r (h.ids r hr) (h.types r hr))
  · exact resultDb_rels s nf af

/-- under `GraphOK` (in fact: distinct ids, children among the nodes) `ingest_attack_graph` never raises -/
theorem ingest_attack_graph_total (w : W) (s : Py.H) (h : GraphOK s) (uri user pw db : String) (delete : Bool)
    (hdb : delete = true ∨ w.db = {}) :
    ∃ w', Gen.ingest_attack_graph w s uri user pw db delete = .ok w' :=
  ⟨_, ingest_attack_graph_heap w s uri user pw db delete hdb h.idsNodup h.closed⟩

/-! ### a child whose id is the id of no node of the graph: `KeyError` -/

theorem dictGetE_cases (d : Tab) (k : Option Int) :
    (∃ v, Py.dictGet d k = some v ∧ Py.dictGetE d k = .ok v) ∨
    (Py.dictGet d k = none ∧ Py.dictGetE d k = .error .keyError) := by
  unfold Py.dictGetE
  cases Py.dictGet d k with
  | none => exact Or.inr ⟨rfl, rfl⟩
  | some v => exact Or.inl ⟨v, rfl, rfl⟩

theorem inner_err (s : H) (nodes : Tab) (node : NRef) : ∀ (cs : List NRef) (rels : List NeoRel),
    forIn cs rels (relInner s nodes node) = .error .keyError ∨
    ((∀ c ∈ cs, (Py.dictGet nodes (s.n c).id).isSome) ∧
      ∃ rels', forIn cs rels (relInner s nodes node) = .ok rels') := by
  intro cs
  induction cs with
  | nil => intro rels; exact Or.inr ⟨by simp, rels, rfl⟩
  | cons c cs ih =>
    intro rels
    rw [List.forIn_cons]
    rcases dictGetE_cases nodes (s.n node).id with ⟨a, _, ha⟩ | ⟨_, ha⟩
    · rcases dictGetE_cases nodes (s.n c).id with ⟨b, hb0, hb⟩ | ⟨_, hb⟩
      · have hstep : relInner s nodes node c rels = .ok (ForInStep.yield (rels ++ [neoRel2 a b])) := by
          unfold relInner; rw [ha, hb]; rfl
        rw [hstep]
        simp only [bind, Except.bind]
        rcases ih (rels ++ [neoRel2 a b]) with h | ⟨h1, h2⟩
        · exact Or.inl h
        · refine Or.inr ⟨?_, h2⟩
          intro c' hc'
          rcases List.mem_cons.1 hc' with h | h
          · rw [h, hb0]; rfl
          · exact h1 _ h
      · have hstep : relInner s nodes node c rels = .error .keyError := by
          unfold relInner; rw [ha, hb]; rfl
        rw [hstep]; exact Or.inl rfl
    · have hstep : relInner s nodes node c rels = .error .keyError := by
        unfold relInner; rw [ha]; rfl
      rw [hstep]; exact Or.inl rfl

theorem outer_err (s : H) (nodes : Tab) : ∀ (l : List NRef) (rels : List NeoRel),
    forIn l rels (relStep s nodes) = .error .keyError ∨
    ((∀ r ∈ l, ∀ c ∈ (s.n r).children, (Py.dictGet nodes (s.n c).id).isSome) ∧
      ∃ rels', forIn l rels (relStep s nodes) = .ok rels') := by
  intro l
  induction l with
  | nil => intro rels; exact Or.inr ⟨by simp, rels, rfl⟩
  | cons x xs ih =>
    intro rels
    rw [List.forIn_cons]
    rcases inner_err s nodes x (s.n x).children rels with h | ⟨h1, rels1, h2⟩
    · have hstep : relStep s nodes x rels = .error .keyError := by
        unfold relStep; rw [h]; rfl
      rw [hstep]; exact Or.inl rfl
    · have hstep : relStep s nodes x rels = .ok (ForInStep.yield rels1) := by
        unfold relStep; rw [h2]; rfl
      rw [hstep]
      simp only [bind, Except.bind]
      rcases ih rels1 with h | ⟨h3, h4⟩
      · exact Or.inl h
      · refine Or.inr ⟨?_, h4⟩
        intro r hr
        rcases List.mem_cons.1 hr with h | h
        · rw [h]; exact h1
        · exact h3 r h

theorem idTable_keys (s : H) : ∀ (l : List NRef) (k : Nat), (idTable s l k).map (·.1) = l.map (fun r => (s.n r).id) := by
  intro l
  induction l with
  | nil => intro k; rfl
  | cons x xs ih => intro k; show _ :: (idTable s xs (k + 1)).map (·.1) = _; rw [ih]; rfl

theorem dictGet_key (d : Tab) (k : Option Int) (h : (Py.dictGet d k).isSome) : k ∈ d.map (·.1) := by
  unfold Py.dictGet at h
  cases e : d.find? (fun e => e.1 == k) with
  | none => rw [e] at h; cases h
  | some v =>
    have h1 := List.find?_some e
    have h2 := List.mem_of_find?_eq_some e
    exact List.mem_map.2 ⟨v, h2, eq_of_beq h1⟩

theorem dictSet_keys (d : Tab) (k : Option Int) (v : NodeRef) (k' : Option Int)
    (h : k' ∈ (Py.dictSet d k v).map (·.1)) : k' ∈ d.map (·.1) ∨ k' = k := by
  unfold Py.dictSet at h
  split at h
  · rw [List.map_map] at h
    obtain ⟨e, he, hk⟩ := List.mem_map.1 h
    by_cases hek : (e.1 == k) = true
    · right; rw [← hk]; show (if (e.1 == k) = true then (k, v) else e).1 = k; rw [if_pos hek]
    · left; rw [← hk]; show (if (e.1 == k) = true then (k, v) else e).1 ∈ _; rw [if_neg hek]
      exact List.mem_map.2 ⟨e, he, rfl⟩
  · rw [List.map_append, List.mem_append] at h
    rcases h with h | h
    · exact Or.inl h
    · right; simpa using h

/-- the first loop never raises, and writes no other keys than the ids of the nodes (no hypothesis on the heap) -/
theorem loop1_keys (s : H) : ∀ (l : List NRef) (w : W) (nodes : Tab),
    ∃ w' nodes', forIn l (w, nodes) (nodeStep s) = .ok (w', nodes') ∧
      ∀ k ∈ nodes'.map (·.1), k ∈ nodes.map (·.1) ∨ k ∈ l.map (fun r => (s.n r).id) := by
  intro l
  induction l with
  | nil => intro w nodes; exact ⟨w, nodes, rfl, fun k hk => Or.inl hk⟩
  | cons x xs ih =>
    intro w nodes
    rw [List.forIn_cons, nodeStep_ok]
    simp only [bind, Except.bind]
    obtain ⟨w', nodes', h1, h2⟩ := ih { w with objs := w.objs ++ [stepRec s x] } (Py.dictSet nodes (s.n x).id w.objs.length)
    refine ⟨w', nodes', h1, ?_⟩
    intro k hk
    rcases h2 k hk with h | h
    · rcases dictSet_keys _ _ _ _ h with h | h
      · exact Or.inl h
      · right; rw [h]; exact List.mem_cons_self
    · right; exact List.mem_cons_of_mem _ h

theorem main_keyError (s : H) (g : NeoGraph) (w : W)
    (r c : NRef) (hr : r ∈ s.nodes) (hc : c ∈ (s.n r).children)
    (hmiss : (s.n c).id ∉ s.nodes.map (fun r => (s.n r).id)) :
    main s g w = .error .keyError := by
  unfold main
  obtain ⟨w', nodes', h1, h2⟩ := loop1_keys s s.nodes w []
  rw [h1]
  simp only [Except.bind]
  rcases outer_err s nodes' s.nodes [] with h | ⟨h3, _⟩
  · rw [h]
  · rcases h2 _ (dictGet_key _ _ (h3 r hr c hc)) with h | h
    · cases h
    · exact absurd h hmiss

/-- converse: when a child of a node of the graph is not in the graph (its id is the id of no node of the graph),
`nodes[child.id]` raises `KeyError` (whatever the heap, `delete` and the database are) -/
theorem ingest_attack_graph_keyError (w : W) (s : Py.H) (uri user pw db : String) (delete : Bool)
    (r c : NRef) (hr : r ∈ s.nodes) (hc : c ∈ (s.n r).children)
    (hmiss : (s.n c).id ∉ s.nodes.map (fun r => (s.n r).id)) :
    Gen.ingest_attack_graph w s uri user pw db delete = .error .keyError := by
  rw [ingest_eq]
  cases delete with
  | true => rw [if_pos rfl]; exact main_keyError s _ _ r c hr hc hmiss
  | false => rw [if_neg (by decide)]; exact main_keyError s _ _ r c hr hc hmiss

end MalVerif.PyN.TieG
