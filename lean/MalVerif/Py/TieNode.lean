import MalVerif.Py.Abs
import MalVerif.Py.Gen.NodeDelegates
import MalVerif.Py.Gen.Query
/-!
# Tie: translated `node.py` / `attacker.py` / `query.py`  =  hand-written model (`Model/AGS.lean`, `Model/Query.lean`)

Every theorem relates a function of `MalVerif/Py/Gen/*.lean` (generated from the Python source on every run)
to the corresponding function of the hand-written model under the abstraction `absS`.
-/
namespace MalVerif.Py.Tie
open MalVerif.Py MalVerif.Py.Gen MalVerif.AGS MalVerif.AGraph

/-! ### node.py -/

theorem is_compromised_by_tie (s : H) (n : NRef) (a : ARef) (nf af : Nat) :
    node_is_compromised_by s n a = ((absS s nf af).nobj n).compBy.contains a := rfl

theorem is_compromised_tie (s : H) (n : NRef) :
    node_is_compromised s n = !((s.n n).compromised_by.isEmpty) := by
  unfold node_is_compromised
  cases (s.n n).compromised_by with
  | nil => rfl
  | cons x l =>
    simp only [Id.run, pure, List.length_cons, List.isEmpty_cons, Bool.not_false, decide_eq_true_eq]
    omega

/-- `full_name`; a node without asset whose `id` is still `None` is called `"None:<name>"` by Python, which
the hand model (ids are `Int`) cannot express — hence the hypothesis -/
theorem full_name_tie (s : H) (n : NRef) (h : (s.n n).asset = none → (s.n n).id.isSome) :
    node_full_name s n = fullName (absN (s.n n)) := by
  unfold node_full_name fullName absN
  cases ha : (s.n n).asset with
  | some v => simp [Id.run]; rfl
  | none =>
    have := h ha
    cases hi : (s.n n).id with
    | none => rw [hi] at this; cases this
    | some i => simp [Id.run, strOptInt]; rfl

/-! helper: `ntypeOf` recognises exactly the three type strings the translated functions test for -/
theorem ntypeOf_defense (t : String) : ntypeOf t = .defense ↔ t = "defense" := by
  unfold ntypeOf
  constructor
  · intro h
    split at h
    · cases h
    · split at h
      · cases h
      · split at h
        · rename_i h3; exact beq_iff_eq.1 h3
        · split at h <;> cases h
  · intro h; subst h; decide

theorem ntypeOf_or (t : String) : ntypeOf t = .or ↔ t = "or" := by
  unfold ntypeOf
  constructor
  · intro h
    split at h
    · rename_i h3; exact beq_iff_eq.1 h3
    · split at h
      · cases h
      · split at h
        · cases h
        · split at h <;> cases h
  · intro h; subst h; decide

theorem ntypeOf_and (t : String) : ntypeOf t = .and ↔ t = "and" := by
  unfold ntypeOf
  constructor
  · intro h
    split at h
    · cases h
    · split at h
      · rename_i h3; exact beq_iff_eq.1 h3
      · split at h
        · cases h
        · split at h <;> cases h
  · intro h; subst h; decide

theorem is_available_defense_tie (s : H) (n : NRef) :
    node_is_available_defense s n = isAvailableDefense (absN (s.n n)) := by
  unfold node_is_available_defense isAvailableDefense absN
  simp only [Id.run, pure]
  congr 2
  rw [Bool.eq_iff_iff]; simp [ntypeOf_defense]

theorem is_enabled_defense_tie (s : H) (n : NRef) :
    node_is_enabled_defense s n = isEnabledDefense (absN (s.n n)) := by
  unfold node_is_enabled_defense isEnabledDefense absN
  simp only [Id.run, pure]
  congr 2
  rw [Bool.eq_iff_iff]; simp [ntypeOf_defense]

/-! ### attacker.py -/

/-- extensionality for the model state -/
theorem St_ext (x y : St) (h1 : x.nobj = y.nobj) (h2 : x.nfresh = y.nfresh) (h3 : x.aobj = y.aobj)
    (h4 : x.afresh = y.afresh) (h5 : x.nodes = y.nodes) (h6 : x.attackers = y.attackers)
    (h7 : x.idIdx = y.idIdx) (h8 : x.nameIdx = y.nameIdx) (h9 : x.attIdx = y.attIdx)
    (h10 : x.nextNode = y.nextNode) (h11 : x.nextAtt = y.nextAtt) : x = y := by
  cases x; cases y; simp_all

/-- `Attacker.compromise` as a closed expression -/
theorem compromise_eq (s : H) (a : ARef) (n : NRef) :
    attacker_compromise s a n =
      if (s.n n).compromised_by.contains a then s else
        (s.setN n { s.n n with compromised_by := (s.n n).compromised_by ++ [a] }).setA a
          { s.a a with reached_attack_steps := (s.a a).reached_attack_steps ++ [n] } := by
  unfold attacker_compromise node_is_compromised_by
  simp only [Id.run, pure]
  split <;> rfl

theorem absS_setN_setA (s : H) (n : NRef) (a : ARef) (o : PyNode) (p : PyAttacker) (nf af : Nat) :
    absS ((s.setN n o).setA a p) nf af =
      { absS s nf af with nobj := fun x => if x = n then absN o else absN (s.n x)
                          aobj := fun x => if x = a then absA p else absA (s.a x) } := by
  apply St_ext <;> try rfl
  · funext x; simp only [absS, H.setA, H.setN]; split <;> rfl
  · funext x; simp only [absS, H.setA, H.setN]; split <;> rfl

theorem compromise_tie (s : H) (a : ARef) (n : NRef) (nf af : Nat) :
    absS (attacker_compromise s a n) nf af = compromise (absS s nf af) a n := by
  rw [compromise_eq]
  unfold compromise
  by_cases h : (s.n n).compromised_by.contains a = true
  · have h' : ((absS s nf af).nobj n).compBy.contains a = true := h
    rw [if_pos h, if_pos h']
  · have h' : ¬ ((absS s nf af).nobj n).compBy.contains a = true := h
    rw [if_neg h, if_neg h', absS_setN_setA]
    apply St_ext <;> try rfl
    · funext x; simp only [updA, updN, absS]; split
      · rename_i h; subst h; rfl
      · rfl
    · funext x; simp only [updA, updN, absS]; split
      · rename_i h; subst h; rfl
      · rfl


/-- `Attacker.undo_compromise` as a closed expression: the second `list.remove` is the one that can raise -/
theorem undo_eq (s : H) (a : ARef) (n : NRef) :
    attacker_undo_compromise s a n =
      if (s.n n).compromised_by.contains a then
        if (s.a a).reached_attack_steps.contains n then
          .ok ((s.setN n { s.n n with compromised_by := (s.n n).compromised_by.erase a }).setA a
            { s.a a with reached_attack_steps := (s.a a).reached_attack_steps.erase n })
        else .error .valueError
      else .ok s := by
  unfold attacker_undo_compromise node_is_compromised_by
  simp only [Id.run, pure, bind, Except.bind, Except.pure, pyRemove]
  simp only [List.contains_iff_mem]
  by_cases h1 : a ∈ (s.n n).compromised_by
  · by_cases h2 : n ∈ (s.a a).reached_attack_steps
    · simp [h1, h2, H.setN, H.setA]
    · simp [h1, h2, H.setN]
  · simp [h1]


/-- partial correctness: whenever the translated `undo_compromise` returns, it did what the model does -/
theorem undo_tie (s s' : H) (a : ARef) (n : NRef) (nf af : Nat)
    (h : attacker_undo_compromise s a n = .ok s') :
    absS s' nf af = undo (absS s nf af) a n := by
  rw [undo_eq] at h
  unfold undo
  by_cases h1 : (s.n n).compromised_by.contains a = true
  · have h1' : ((absS s nf af).nobj n).compBy.contains a = true := h1
    rw [if_pos h1] at h
    split at h
    · cases h
      simp only [h1', Bool.not_true, Bool.false_eq_true, if_false]
      rw [absS_setN_setA]
      apply St_ext <;> try rfl
      · funext x; simp only [updA, updN, absS]; split
        · rename_i h; subst h; rfl
        · rfl
      · funext x; simp only [updA, updN, absS]; split
        · rename_i h; subst h; rfl
        · rfl
    · cases h
  · have h1' : ¬ ((absS s nf af).nobj n).compBy.contains a = true := h1
    rw [if_neg h1] at h
    cases h
    simp only [h1', Bool.not_false, if_true]

/-- it returns normally when the two sides of the relation mirror each other at `(a, n)` -/
theorem undo_ok (s : H) (a : ARef) (n : NRef)
    (h : a ∈ (s.n n).compromised_by → n ∈ (s.a a).reached_attack_steps) :
    ∃ s', attacker_undo_compromise s a n = .ok s' := by
  rw [undo_eq]
  split
  · rename_i h1
    rw [if_pos (List.contains_iff_mem.2 (h (List.contains_iff_mem.1 h1)))]
    exact ⟨_, rfl⟩
  · exact ⟨_, rfl⟩

/-- and it raises `ValueError` (from `list.remove`) exactly when the mirror is broken there -/
theorem undo_raises (s : H) (a : ARef) (n : NRef)
    (h1 : a ∈ (s.n n).compromised_by) (h2 : n ∉ (s.a a).reached_attack_steps) :
    attacker_undo_compromise s a n = .error .valueError := by
  rw [undo_eq, if_pos (List.contains_iff_mem.2 h1), if_neg (fun h => h2 (List.contains_iff_mem.1 h))]

theorem node_compromise_tie (s : H) (n : NRef) (a : ARef) :
    node_compromise s n a = attacker_compromise s a n := rfl

theorem node_undo_compromise_tie (s : H) (n : NRef) (a : ARef) :
    node_undo_compromise s n a = attacker_undo_compromise s a n := by
  unfold node_undo_compromise
  simp

/-! ### query.py -/

/-- the early-exit loop over the parents of an 'and' step -/
theorem and_loop (c : Nat → Bool) (ps : List Nat) :
    (forIn (m := Id) ps ((none : Option Bool), ()) fun parent __s =>
        if c parent = true then (ForInStep.done (some false, ()) : Id _)
        else ForInStep.yield (none, ())) = (if ps.all (fun p => !c p) then (none, ()) else (some false, ())) := by
  induction ps with
  | nil => rfl
  | cons p ps ih =>
    rw [List.forIn_cons]
    by_cases h : c p = true
    · simp [h]; rfl
    · simp only [h, List.all_cons]
      simp only [Bool.not_eq_true] at h
      simp only [Bool.not_false, Bool.true_and]
      exact ih


theorem traversable_tie (s : H) (n : NRef) (a : ARef) (nf af : Nat) :
    is_node_traversable_by_attacker s n a = trav (absS s nf af) a n := by
  unfold is_node_traversable_by_attacker
  simp only [Id.run, bind, pure]
  have hl := and_loop (fun p => (s.n p).is_necessary && !node_is_compromised_by s p a) (s.n n).parents
  rw [hl]
  unfold trav
  show _ = (if (!(s.n n).is_viable) = true then false else
    match ntypeOf (s.n n).type with
    | .or => true
    | .and => (s.n n).parents.all (fun p => !((s.n p).is_necessary) || (s.n p).compromised_by.contains a)
    | _ => false)
  by_cases hv : (!(s.n n).is_viable) = true
  · simp only [hv, if_true]
  · simp only [hv]
    by_cases h1 : (s.n n).type = "or"
    · rw [(ntypeOf_or _).2 h1]; simp [h1]
    · by_cases h2 : (s.n n).type = "and"
      · rw [(ntypeOf_and _).2 h2]
        simp only [h2]
        have hc : (fun p => !((s.n p).is_necessary && !node_is_compromised_by s p a)) =
            fun p => !(s.n p).is_necessary || (s.n p).compromised_by.contains a := by
          funext p; show (!((s.n p).is_necessary && !(s.n p).compromised_by.contains a)) = _; simp
        rw [hc]
        cases (s.n n).parents.all fun p => !(s.n p).is_necessary || (s.n p).compromised_by.contains a <;> simp
      · have e1 : ntypeOf (s.n n).type ≠ .or := fun e => h1 ((ntypeOf_or _).1 e)
        have e2 : ntypeOf (s.n n).type ≠ .and := fun e => h2 ((ntypeOf_and _).1 e)
        simp only [beq_iff_eq, h1, h2, if_false]
        split <;> simp_all


/-- a `for` loop without early exit is a fold -/
theorem forIn_yield_foldl {α β : Type} (xs : List α) (init : β) (g : β → α → β) :
    (forIn (m := Id) xs init fun x acc => (ForInStep.yield (g acc x) : Id _)) = xs.foldl g init := by
  induction xs generalizing init with
  | nil => rfl
  | cons x xs ih => rw [List.forIn_cons]; exact ih _

theorem inner_tie (s : H) (a : ARef) (nf af : Nat) (cs : List NRef) (acc : List NRef) :
    (forIn (m := Id) cs acc fun child __s =>
        if (is_node_traversable_by_attacker s child a && !__s.contains child) = true then
          (ForInStep.yield (__s ++ [child]) : Id _)
        else ForInStep.yield __s) =
      cs.foldl (fun acc c => if trav (absS s nf af) a c && !acc.contains c then acc ++ [c] else acc) acc := by
  rw [← forIn_yield_foldl]
  congr 1
  funext child acc
  rw [traversable_tie s child a nf af]
  split <;> rfl

theorem extend_tie (s : H) (a : ARef) (nf af : Nat) (cur steps : List NRef) :
    (forIn (m := Id) steps cur fun attack_step __s =>
      (ForInStep.yield
        (forIn (m := Id) (s.n attack_step).children __s fun child __s =>
          if (is_node_traversable_by_attacker s child a && !__s.contains child) = true then
            (ForInStep.yield (__s ++ [child]) : Id _)
          else ForInStep.yield __s) : Id _)) = extend (absS s nf af) a cur steps := by
  unfold extend
  rw [← forIn_yield_foldl]
  congr 1
  funext r acc
  rw [inner_tie s a nf af]
  rfl

theorem attack_surface_tie (s : H) (a : ARef) (nf af : Nat) :
    get_attack_surface s a = surface (absS s nf af) a := by
  unfold get_attack_surface
  simp only [Id.run, bind, pure]
  exact extend_tie s a nf af [] _

theorem update_attack_surface_tie (s : H) (a : ARef) (cur nodes : List NRef) (nf af : Nat) :
    update_attack_surface_add_nodes s a cur nodes = updateSurface (absS s nf af) a cur nodes := by
  unfold update_attack_surface_add_nodes
  simp only [Id.run, bind, pure]
  exact extend_tie s a nf af cur nodes

theorem defense_surface_tie (s : H) (nf af : Nat) :
    get_defense_surface s = defenseSurface (absS s nf af) := by
  unfold get_defense_surface defenseSurface
  simp only [Id.run, pure]
  congr 1
  funext r
  exact is_available_defense_tie s r

theorem enabled_defenses_tie (s : H) (nf af : Nat) :
    get_enabled_defenses s = enabledDefenses (absS s nf af) := by
  unfold get_enabled_defenses enabledDefenses
  simp only [Id.run, pure]
  congr 1
  funext r
  exact is_enabled_defense_tie s r

end MalVerif.Py.Tie
