/-!
# Prelude of the *translated* instance model (`translators/py2lean_model.py`)

The files `MalVerif/Py/GenModel/*.lean` are **generated** from the current source of
`maltoolbox/model.py` (`Model` and `AttackerAttachment`) on every run.  This prelude fixes, once and by
hand, how the Python objects that code works on appear in Lean.  Every definition is part of the trusted
base; each one names the Python behaviour it stands for.

* pjs asset objects, pjs association objects, `AttackerAttachment` objects and the entry-point tuples
  `(asset, [step, …])` are *objects*: references (`Nat`) into four stores of the heap `H`.  The (single)
  `Model` object is the rest of `H`; its fields are the Python attribute names.
* the translated code never constructs an asset / association / attacker (that is done by the pjs class
  constructors and by `AttackerAttachment(...)`, outside the translated functions); the only allocation it
  performs is the tuple `(asset, [attackstep_name])` in `add_entry_point` (`H.allocE`).
* `x == y`, `x in l`, `l.remove(x)` on objects: Python tests identity first and then `==`.  For pjs objects
  `==` is *value* equality (`as_dict() == as_dict()`); it is a parameter (`ModelEnv.eqA`, `eqL`) — nothing is
  assumed about it here; the theorems say under which hypothesis on it they hold.  For `AttackerAttachment`
  (a dataclass with the default `eq=True`) and for tuples `==` is the field-wise / component-wise comparison,
  defined below (`eqAtt`, `eqEp`).
* attributes that may be absent (`hasattr`): `Option`; reading an absent attribute gives a sentinel where
  Python raises `AttributeError` (`attrInt`, `attrStr`).
* `set` is a duplicate-free list (`pySetAdd` keeps it so), `dict` an association list in insertion order.
* `getattr(association, field_name)` is a *handle* to the list stored in that field (`FieldLoc`): reading
  and `remove` go through the handle to the heap, as with the pjs array wrapper.
-/
namespace MalVerif.PyM

abbrev ARef := Nat      -- pjs asset object
abbrev LRef := Nat      -- pjs association object
abbrev TRef := Nat      -- AttackerAttachment object
abbrev ERef := Nat      -- entry-point tuple object `(asset, [steps])`

inductive PyErr
  | valueError | lookupError | duplicateModelAssociationError | modelAssociationException | keyError
  | attributeError | assertionError | nonTermination | recursionError | other
  deriving Repr, DecidableEq, Inhabited

/-- a pjs asset object.  `id`, `name`, `extras` may be absent (`hasattr`); `associations` is only read after
`add_asset` has assigned it (`[]` stands for the absent attribute); `defenses` are never touched here. -/
structure PyAsset where
  id : Option Int := none
  name : Option String := none
  type : String := ""
  defenses : List (String × String) := []
  extras : Option String := none          -- canonical JSON text
  associations : List LRef := []
  deriving Repr, Inhabited

/-- a pjs association object of class `cls`: its `_properties` are exactly the two fields `lf`, `rf` (two
*different* keys of a dict, in this order), holding lists of assets. -/
structure PyAssoc where
  cls : String := ""
  lf : String := "left"
  rf : String := "right"
  left : List ARef := []
  right : List ARef := []
  extras : Option String := none
  distinct : lf ≠ rf := by decide

instance : Inhabited PyAssoc := ⟨{}⟩

/-- `AttackerAttachment` (dataclass fields; `id`, `name` are `Optional`) -/
structure PyAtt where
  id : Option Int := none
  name : Option String := none
  entry_points : List ERef := []
  deriving Repr, Inhabited

/-- the tuple object `(asset, [attack step names])`; the list is shared by everybody who holds the tuple -/
structure PyEp where
  asset : ARef := 0
  steps : List String := []
  deriving Repr, Inhabited

/-- the heap: four object stores with their allocation counters (a reference below the counter has been
handed out) and the attributes of the `Model` object -/
structure H where
  a : ARef → PyAsset := fun _ => {}
  afresh : Nat := 0
  l : LRef → PyAssoc := fun _ => {}
  lfresh : Nat := 0
  t : TRef → PyAtt := fun _ => {}
  tfresh : Nat := 0
  e : ERef → PyEp := fun _ => {}
  efresh : Nat := 0
  name : String := ""
  assets : List ARef := []
  associations : List LRef := []
  _type_to_association : List (String × List LRef) := []
  attackers : List TRef := []
  asset_ids : List Int := []
  asset_names : List String := []
  next_id : Int := 0

def H.setA (s : H) (r : ARef) (o : PyAsset) : H := { s with a := fun x => if x = r then o else s.a x }
def H.setL (s : H) (r : LRef) (o : PyAssoc) : H := { s with l := fun x => if x = r then o else s.l x }
def H.setT (s : H) (r : TRef) (o : PyAtt) : H := { s with t := fun x => if x = r then o else s.t x }
def H.setE (s : H) (r : ERef) (o : PyEp) : H := { s with e := fun x => if x = r then o else s.e x }

/-- building the tuple `(asset, [step, …])`: a new object -/
def H.allocE (s : H) (o : PyEp) : H × ERef :=
  ({ s with e := fun x => if x = s.efresh then o else s.e x, efresh := s.efresh + 1 }, s.efresh)

/-- parameters of the translation: the value equality of python_jsonschema_objects instances (assets,
associations) and the bound of the unrolling of `while` loops -/
structure ModelEnv where
  eqA : ARef → ARef → Bool
  eqL : LRef → LRef → Bool
  whileFuel : Nat

/-! ### equality, membership, removal -/

/-- `x == y` / the comparison `in` and `remove` make on two assets: identity first, then pjs `==` -/
def eqAsset (env : ModelEnv) (_s : H) (x y : ARef) : Bool := x == y || env.eqA x y
def eqAssoc (env : ModelEnv) (_s : H) (x y : LRef) : Bool := x == y || env.eqL x y

/-- two Python lists are equal when they have the same length and equal elements -/
def listEqBy {α} (eq : α → α → Bool) : List α → List α → Bool
  | [], [] => true
  | x :: xs, y :: ys => eq x y && listEqBy eq xs ys
  | _, _ => false

/-- tuples `(asset, steps)`: identity, or component-wise `==` -/
def eqEp (env : ModelEnv) (s : H) (x y : ERef) : Bool :=
  x == y || (eqAsset env s (s.e x).asset (s.e y).asset && (s.e x).steps == (s.e y).steps)

/-- `AttackerAttachment.__eq__` generated by `@dataclass`: identity, or `(id, name, entry_points)` equal -/
def eqAtt (env : ModelEnv) (s : H) (x y : TRef) : Bool :=
  x == y || ((s.t x).id == (s.t y).id && (s.t x).name == (s.t y).name &&
             listEqBy (eqEp env s) (s.t x).entry_points (s.t y).entry_points)

/-- `x in l` -/
def pyIn {α} (eq : α → α → Bool) (l : List α) (x : α) : Bool := l.any (fun y => eq y x)

/-- `l.remove(x)`: removes the first element equal to `x`, `ValueError` when there is none -/
def pyRemoveBy {α} (eq : α → α → Bool) (l : List α) (x : α) : Except PyErr (List α) :=
  if pyIn eq l x then .ok (l.eraseP (fun y => eq y x)) else .error .valueError

/-- `while x in l: l.remove(x)` -/
def pyRemoveAllBy {α} (eq : α → α → Bool) (l : List α) (x : α) : List α := l.filter (fun y => !(eq y x))

/-- `l.remove(x)` for strings / ints -/
def pyRemove {α} [BEq α] (l : List α) (x : α) : Except PyErr (List α) :=
  if l.contains x then .ok (l.erase x) else .error .valueError

/-! ### attributes that may be absent -/

/-- value of an attribute the code has assigned / checked with `hasattr` before (`AttributeError` otherwise) -/
def attrInt (x : Option Int) : Int := x.getD 0
def attrStr (x : Option String) : String := x.getD "<AttributeError>"
/-- integer value of an `Optional[int]` dataclass field that has just been assigned (`None + 1` is a `TypeError`) -/
def optIntGet (x : Option Int) : Int := x.getD 0
/-- `str(x)` for an `Optional[int]` -/
def strOptInt (x : Option Int) : String := match x with | some i => toString i | none => "None"
/-- truthiness of an `Optional[str]`: `None` and `''` are falsy -/
def truthyOptStr (x : Option String) : Bool := match x with | some v => !v.isEmpty | none => false

/-! ### association objects -/

/-- `association._properties.keys()`, unpacked as `left, right = …` -/
def assocFieldNames (o : PyAssoc) : String × String := (o.lf, o.rf)

/-- a handle to the list held by one field of an association (`false`: the first field, `true`: the second) -/
abbrev FieldLoc := LRef × Bool

/-- `getattr(association, name)`: `AttributeError` for a name that is not one of the two fields -/
def pyGetattr (s : H) (l : LRef) (n : String) : Except PyErr FieldLoc :=
  if n == (s.l l).lf then .ok (l, false) else if n == (s.l l).rf then .ok (l, true) else .error .attributeError

/-- the list behind a handle, now -/
def H.rd (s : H) (f : FieldLoc) : List ARef := if f.2 then (s.l f.1).right else (s.l f.1).left
/-- in-place update of the list behind a handle -/
def H.wr (s : H) (f : FieldLoc) (v : List ARef) : H :=
  if f.2 then s.setL f.1 { s.l f.1 with right := v } else s.setL f.1 { s.l f.1 with left := v }

/-! ### sets and dicts -/

/-- `set.add` on a duplicate-free list -/
def pySetAdd {α} [BEq α] (l : List α) (x : α) : List α := if l.contains x then l else l ++ [x]
/-- `set.discard` (the list is duplicate free: removing the first occurrence removes the element) -/
def pySetDiscard {α} [BEq α] (l : List α) (x : α) : List α := l.erase x
/-- `len({… for … in l})`: the number of different values -/
def pySetOf {α} [BEq α] (l : List α) : List α := l.eraseDups

def dictGet {κ ν} [BEq κ] (d : List (κ × ν)) (k : κ) : Option ν := (d.find? (fun e => e.1 == k)).map (·.2)
/-- `d.get(k, default)` -/
def dictGetD {κ ν} [BEq κ] (d : List (κ × ν)) (k : κ) (dflt : ν) : ν := (dictGet d k).getD dflt
/-- `d[k]`: `KeyError` when absent -/
def dictGetE {κ ν} [BEq κ] (d : List (κ × ν)) (k : κ) : Except PyErr ν :=
  match dictGet d k with | some v => .ok v | none => .error .keyError
/-- `d[k] = v` -/
def dictSet {κ ν} [BEq κ] (d : List (κ × ν)) (k : κ) (v : ν) : List (κ × ν) :=
  if d.any (fun e => e.1 == k) then d.map (fun e => if e.1 == k then (k, v) else e) else d ++ [(k, v)]
/-- `del d[k]`: `KeyError` when absent -/
def dictDel {κ ν} [BEq κ] (d : List (κ × ν)) (k : κ) : Except PyErr (List (κ × ν)) :=
  if d.any (fun e => e.1 == k) then .ok (d.filter (fun e => !(e.1 == k))) else .error .keyError
/-- `d.setdefault(k, []).append(x)`: appends in place to the list stored under `k`, after storing `[]` when absent -/
def dictSetDefaultAppend {κ ν} [BEq κ] (d : List (κ × List ν)) (k : κ) (x : ν) : List (κ × List ν) :=
  if d.any (fun e => e.1 == k) then d.map (fun e => if e.1 == k then (e.1, e.2 ++ [x]) else e) else d ++ [(k, [x])]

end MalVerif.PyM
