import MalVerif.Py.TieVisitorPos
import MalVerif.Proofs.ParseDecl
/-!
# Helpers for the tie of `visitStep`: what the tree builder leaves is a suffix of its input

`treeTags`, `treeCias`, the TTC functions and `treeExprList` return a suffix of the indexed token list they are given,
so the position invariant `AtPos` (`TieVisitorPos.lean`) is kept through the optional parts of a step down to its
`reaches` clause.
-/
namespace MalVerif.Py.Visitor
open MalVerif MalVerif.Mal MalVerif.Py.GenVisitor

theorem treeTags_suffix (f : Nat) (its : List ITok) : (treeTags f its).2 <:+ its := by
  fun_induction treeTags f its with
  | case1 ts => exact List.suffix_refl _
  | case2 f i t j rest r ih => exact List.IsSuffix.trans ih ⟨[_, _], rfl⟩
  | case3 f ts hne => exact List.suffix_refl _

theorem treeCias_suffix (f : Nat) (its : List ITok) (cs : List PT) (irest : List ITok)
    (h : treeCias f its = some (cs, irest)) : irest <:+ its := by
  fun_induction treeCias f its generalizing cs irest with
  | case1 ts => cases h
  | case2 f t i rest ht ih =>
    cases hrec : treeCias f rest with
    | none => rw [hrec] at h; cases h
    | some p =>
      rw [hrec] at h
      simp only [Option.map_some, Option.some.injEq, Prod.mk.injEq] at h
      obtain ⟨-, rfl⟩ := h
      exact List.IsSuffix.trans (ih p.1 p.2 hrec) ⟨[_, _], rfl⟩
  | case3 f t i rest ht => cases h
  | case4 f t i rest ht =>
    simp only [Option.some.injEq, Prod.mk.injEq] at h
    obtain ⟨-, rfl⟩ := h
    exact ⟨[_, _], rfl⟩
  | case5 f t i rest ht => cases h
  | case6 f ts h1 h2 => cases h

theorem treeArgs_suffix (f : Nat) (its : List ITok) (cs : List PT) (irest : List ITok)
    (h : treeArgs f its = some (cs, irest)) : irest <:+ its := by
  fun_induction treeArgs f its generalizing cs irest with
  | case1 ts => cases h
  | case2 f t i rest ht ih =>
    cases hrec : treeArgs f rest with
    | none => rw [hrec] at h; cases h
    | some p =>
      rw [hrec] at h
      simp only [Option.map_some, Option.some.injEq, Prod.mk.injEq] at h
      obtain ⟨-, rfl⟩ := h
      exact List.IsSuffix.trans (ih p.1 p.2 hrec) ⟨[_, _], rfl⟩
  | case3 f t i rest ht => cases h
  | case4 f t i rest ht =>
    simp only [Option.some.injEq, Prod.mk.injEq] at h
    obtain ⟨-, rfl⟩ := h
    exact ⟨[_, _], rfl⟩
  | case5 f t i rest ht => cases h
  | case6 f ts h1 h2 => cases h

/-- the rest a tree function returns is a suffix of its input -/
def Suf {α : Type} (r : TP α) (its : List ITok) : Prop := ∀ x irest, r = some (x, irest) → irest <:+ its

theorem suf_cons {a : ITok} {its irest : List ITok} (h : irest <:+ its) : irest <:+ a :: its :=
  List.IsSuffix.trans h ⟨[a], rfl⟩

theorem ttc_suffix_all (f : Nat) :
    (∀ its, Suf (treeTtcAtom f its) its) ∧ (∀ its, Suf (treeTtcFact f its) its) ∧
    (∀ its, Suf (treeTtcTermLoop f its) its) ∧ (∀ its, Suf (treeTtcTerm f its) its) ∧
    (∀ its, Suf (treeTtcExprLoop f its) its) ∧ (∀ its, Suf (treeTtcExpr f its) its) := by
  induction f with
  | zero =>
    refine ⟨?_, ?_, ?_, ?_, ?_, ?_⟩ <;> intro its x irest h
    · simp [treeTtcAtom] at h
    · simp [treeTtcFact] at h
    · simp [treeTtcTermLoop] at h
    · simp [treeTtcTerm] at h
    · simp [treeTtcExprLoop] at h
    · simp [treeTtcExpr] at h
  | succ f ih =>
    obtain ⟨hA, hF, hTL, hT, hEL, hE⟩ := ih
    refine ⟨?_, ?_, ?_, ?_, ?_, ?_⟩
    · intro its x irest h
      unfold treeTtcAtom at h
      split at h
      · simp only [Option.some.injEq, Prod.mk.injEq] at h
        obtain ⟨-, rfl⟩ := h
        exact ⟨[_, _, _], rfl⟩
      · rename_i n i j rest _
        cases ha : treeArgs f rest with
        | none => rw [ha] at h; cases h
        | some p =>
          rw [ha] at h
          simp only [Option.map_some, Option.some.injEq, Prod.mk.injEq] at h
          obtain ⟨-, rfl⟩ := h
          exact suf_cons (suf_cons (treeArgs_suffix f rest p.1 p.2 ha))
      · simp only [Option.some.injEq, Prod.mk.injEq] at h
        obtain ⟨-, rfl⟩ := h
        exact ⟨[_], rfl⟩
      · rename_i i rest
        split at h
        · rename_i e j rest' he
          simp only [Option.some.injEq, Prod.mk.injEq] at h
          obtain ⟨-, rfl⟩ := h
          exact suf_cons (List.IsSuffix.trans ⟨[_], rfl⟩ (hE _ _ _ he))
        · cases h
      · simp only [Option.some.injEq, Prod.mk.injEq] at h
        obtain ⟨-, rfl⟩ := h
        exact ⟨[_], rfl⟩
      · simp only [Option.some.injEq, Prod.mk.injEq] at h
        obtain ⟨-, rfl⟩ := h
        exact ⟨[_], rfl⟩
      · cases h
    · intro its x irest h
      unfold treeTtcFact at h
      split at h
      · rename_i a i rest ha
        cases hb : treeTtcAtom f rest with
        | none => rw [hb] at h; cases h
        | some p =>
          rw [hb] at h
          simp only [Option.map_some, Option.some.injEq, Prod.mk.injEq] at h
          obtain ⟨-, rfl⟩ := h
          exact List.IsSuffix.trans (suf_cons (hA _ _ _ hb)) (hA _ _ _ ha)
      · rename_i a rest _ ha
        simp only [Option.some.injEq, Prod.mk.injEq] at h
        obtain ⟨-, rfl⟩ := h
        exact hA _ _ _ ha
      · cases h
    · intro its x irest h
      unfold treeTtcTermLoop at h
      split at h
      · rename_i i rest
        split at h
        · rename_i e rest' he
          split at h
          · rename_i cs rest'' hl
            simp only [Option.some.injEq, Prod.mk.injEq] at h
            obtain ⟨-, rfl⟩ := h
            exact suf_cons (List.IsSuffix.trans (hTL _ _ _ hl) (hF _ _ _ he))
          · cases h
        · cases h
      · rename_i i rest
        split at h
        · rename_i e rest' he
          split at h
          · rename_i cs rest'' hl
            simp only [Option.some.injEq, Prod.mk.injEq] at h
            obtain ⟨-, rfl⟩ := h
            exact suf_cons (List.IsSuffix.trans (hTL _ _ _ hl) (hF _ _ _ he))
          · cases h
        · cases h
      · simp only [Option.some.injEq, Prod.mk.injEq] at h
        obtain ⟨-, rfl⟩ := h
        exact List.suffix_refl _
    · intro its x irest h
      unfold treeTtcTerm at h
      split at h
      · rename_i e rest he
        split at h
        · rename_i cs rest' hl
          simp only [Option.some.injEq, Prod.mk.injEq] at h
          obtain ⟨-, rfl⟩ := h
          exact List.IsSuffix.trans (hTL _ _ _ hl) (hF _ _ _ he)
        · cases h
      · cases h
    · intro its x irest h
      unfold treeTtcExprLoop at h
      split at h
      · rename_i i rest
        split at h
        · rename_i e rest' he
          split at h
          · rename_i cs rest'' hl
            simp only [Option.some.injEq, Prod.mk.injEq] at h
            obtain ⟨-, rfl⟩ := h
            exact suf_cons (List.IsSuffix.trans (hEL _ _ _ hl) (hT _ _ _ he))
          · cases h
        · cases h
      · rename_i i rest
        split at h
        · rename_i e rest' he
          split at h
          · rename_i cs rest'' hl
            simp only [Option.some.injEq, Prod.mk.injEq] at h
            obtain ⟨-, rfl⟩ := h
            exact suf_cons (List.IsSuffix.trans (hEL _ _ _ hl) (hT _ _ _ he))
          · cases h
        · cases h
      · simp only [Option.some.injEq, Prod.mk.injEq] at h
        obtain ⟨-, rfl⟩ := h
        exact List.suffix_refl _
    · intro its x irest h
      unfold treeTtcExpr at h
      split at h
      · rename_i e rest he
        split at h
        · rename_i cs rest' hl
          simp only [Option.some.injEq, Prod.mk.injEq] at h
          obtain ⟨-, rfl⟩ := h
          exact List.IsSuffix.trans (hEL _ _ _ hl) (hT _ _ _ he)
        · cases h
      · cases h

theorem treeTtcExpr_suffix (f : Nat) (its : List ITok) (t : PT) (irest : List ITok)
    (h : treeTtcExpr f its = some (t, irest)) : irest <:+ its := (ttc_suffix_all f).2.2.2.2.2 its t irest h

end MalVerif.Py.Visitor
