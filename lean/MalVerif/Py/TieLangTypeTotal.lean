import MalVerif.Py.TieLangTypeFinal
import MalVerif.Py.TieLangTypeRev
import MalVerif.Py.TieLangTypeParam
/-!
# Totality of the translated `_generate_graph` for every sufficiently large recursion limit

The first five loops do not read the recursion limit (`firstFive_withRec`), so the heap they leave is the same for
every limit up to that field; on it the typing of the finitely many reaches expressions needs a bounded recursion
depth (`exists_fuel_bound`) and so does the reversal of their dependency chains (`exists_rev_bound_general`).
-/
namespace MalVerif.Py.TieLangType
open MalVerif MalVerif.Py MalVerif.Py.LSpec MalVerif.Py.LType MalVerif.Py.GenLangType MalVerif.LG

/-- **the translated construction agrees with the hand model for every sufficiently large recursion limit**: if
`LG.generate` accepts the language of a well-formed specification heap with acyclic `extends`, there is a bound `R0`
such that for every recursion limit `R ≥ R0` the translated `_generate_graph` returns a heap that is `Built` for the
hand model's graph -/
theorem build_total_large (spec : LS) (hok : SpecOK spec) (hac : Acyclic (absLang spec))
    (hgf : ∀ nodes, GenFuelEnough (absLang spec) nodes) (g : Graph) (hg : generate (absLang spec) = .ok g) :
    ∃ R0, ∀ R, R0 ≤ R → ∃ s6, runBuildH spec R = .ok s6 ∧ Built s6 (absLang spec) g := by
  obtain ⟨hs, hends, hn, _⟩ := generate_ok hg
  have he : endsOk (absLang spec) = true := by
    simp only [endsOk, List.all_eq_true, Bool.and_eq_true]
    exact hends
  obtain ⟨nodes, s0, hn', e0, a0⟩ := (firstFive_spec spec 0 hok hac).2.2 hs he
  rw [hn] at hn'; cases hn'
  have hty0 := typingOK_of_afterSteps a0 hac
  obtain ⟨R1, h1⟩ := exists_fuel_bound a0 hty0
  obtain ⟨R2, h2⟩ := exists_rev_bound_general s0
  refine ⟨max R1 R2, fun R hR => ?_⟩
  refine build_total spec R hok hac hgf g hg ?_
  intro s5 e5
  have hfive : firstFive (TH.init spec R) = (firstFive (TH.init spec 0)).map (withRec R) := firstFive_withRec spec R
  rw [hfive, e0] at e5
  have hs5 : s5 = withRec R s0 := by
    simp only [Except.map, Except.ok.injEq] at e5
    exact e5.symm
  subst hs5
  exact ⟨(fuelOK_recLimit s0 (absLang spec) g.assocs R R).2 (h1 R (by omega)),
         (revOK_recLimit s0 R R).2 (h2 R (by omega))⟩

end MalVerif.Py.TieLangType
