import MalVerif.Py.TieLangType
/-!
# `BuildAgrees` / `TypingAgrees` for the demo languages — kernel evaluation of the generated code

Each theorem below is proved `by decide`: the kernel *runs* the generated `lg__generate_graph`
(`Py/GenLangType/Build.lean`, with `lg_process_step_expression`, `lg_reverse_dep_chain`,
`lg__get_associations_for_asset_type`, `lgasset_get_all_common_superassets`, `lgasset_is_subasset_of` of
`Py/GenLangType/Typing.lean` and the lookups of `Py/GenLang/*.lean`) on the specification heap `loadPy L`, reads the
heap it leaves back and compares with the hand model's `LG.generate L`.  A change of the Python source that changes
the behaviour on any of these languages breaks the corresponding theorem.

Languages (`Proofs/LangGraphLemmas.lean`, `Proofs/LangGraphOrder.lean`, and four more defined here):
`lgL` (inheritance of depth 2, an association declared on an ancestor, union typed by the closest common super
asset, subtype filter, collect), `kfL` (KF-C15-1: two declarations with one signature are merged), `starL`
(transitive step), `dirL` (self association, transitive), `varL` / `shadowL` (variables, inherited and shadowed),
`twoL`, `opsL` (intersection, difference, a variable used in a reaches expression, `+>` inheritance of reaches),
and the ill-formed `badSuperL`, `badEndL`, `badEndsL`, `badFieldL`, `badStepL`, `badVarL`, `badSubL`.
-/
namespace MalVerif.Py.TieLangType
open MalVerif MalVerif.Py MalVerif.Py.LSpec MalVerif.Py.LType MalVerif.Py.GenLangType MalVerif.LG MalVerif.LG.Demo

/-- `Leaf extends Base`; `Base` declares the variable `hs = hosts`; reaches expressions with a variable,
intersection, difference, a transitive step through a variable, and a `+>` step on the sub asset -/
def opsL : Lang :=
  { assets := [
      { name := "Base", variables := [("hs", .field "hosts")],
        steps := [{ name := "access", type := "or",
                    reaches := some { overrides := true, exprs := [
                      .collect (.var "hs") (.step "compromise"),
                      .collect (.inter (.field "hosts") (.var "hs")) (.step "compromise"),
                      .collect (.diff (.field "hosts") (.field "hosts")) (.step "compromise")] } }] },
      { name := "Leaf", superAsset := some "Base",
        steps := [{ name := "access", type := "or",
                    reaches := some { overrides := false, exprs := [.step "read"] } },
                  { name := "read", type := "and" }] },
      { name := "Host",
        steps := [{ name := "compromise", type := "or",
                    reaches := some { overrides := true, exprs := [
                      .collect (.sub "Leaf" (.field "apps")) (.step "read"),
                      .collect (.trans (.field "peers")) (.step "compromise")] } }] }],
    assocs := [{ name := "Runs", leftAsset := "Host", leftField := "hosts", leftMin := 1, leftMax := some 1,
                 rightAsset := "Base", rightField := "apps", metaTxt := "{\"k\": 1}" },
               { name := "Peer", leftAsset := "Host", leftField := "peersOf", rightAsset := "Host", rightField := "peers" }] }

/-- a reaches expression through an undefined variable -/
def badVarL : Lang :=
  { dirL with assets := [{ name := "Dir", steps := [{ dirAccess with
      reaches := some { overrides := true, exprs := [.collect (.var "nope") (.step "access")] } }] }] }
/-- a subtype filter naming an undeclared asset -/
def badSubL : Lang :=
  { dirL with assets := [{ name := "Dir", steps := [{ dirAccess with
      reaches := some { overrides := true, exprs := [.collect (.sub "Nope" (.field "subdirs")) (.step "access")] } }] }] }
/-- a set operation one of whose operands has no target asset -/
def badUnionL : Lang :=
  { dirL with assets := [{ name := "Dir", steps := [{ dirAccess with
      reaches := some { overrides := true, exprs := [.collect (.union (.field "zzz") (.field "subdirs")) (.step "access")] } }] }] }
/-- a subtype filter naming an undeclared asset, applied to an operand without target asset -/
def badSubFieldL : Lang :=
  { dirL with assets := [{ name := "Dir", steps := [{ dirAccess with
      reaches := some { overrides := true, exprs := [.collect (.sub "Nope" (.field "zzz")) (.step "access")] } }] }] }

/-! ## the construction: value and error class -/

theorem build_lgL : BuildAgrees lgL 1000 := by decide
theorem build_kfL : BuildAgrees kfL 1000 := by decide
theorem build_starL : BuildAgrees starL 1000 := by decide
theorem build_dirL : BuildAgrees dirL 1000 := by decide
theorem build_varL : BuildAgrees varL 1000 := by decide
theorem build_shadowL : BuildAgrees shadowL 1000 := by decide
theorem build_twoL : BuildAgrees twoL 1000 := by decide
theorem build_opsL : BuildAgrees opsL 1000 := by decide
theorem build_badSuperL : BuildAgrees badSuperL 1000 := by decide
theorem build_badEndL : BuildAgrees badEndL 1000 := by decide
theorem build_badEndsL : BuildAgrees badEndsL 1000 := by decide
theorem build_badFieldL : BuildAgrees badFieldL 1000 := by decide
theorem build_badStepL : BuildAgrees badStepL 1000 := by decide
theorem build_badVarL : BuildAgrees badVarL 1000 := by decide
theorem build_badSubL : BuildAgrees badSubL 1000 := by decide

/-- the classes of the errors, spelled out -/
theorem build_errors :
    (runBuild badSuperL).map pictureOf = .error errSuperAssetNotFound ∧
    (runBuild badEndL).map pictureOf = .error errAssociation ∧
    (runBuild badEndsL).map pictureOf = .error errAssociation ∧
    (runBuild badFieldL).map pictureOf = .error errStepExpression ∧
    (runBuild badStepL).map pictureOf = .error errStepExpression ∧
    (runBuild badVarL).map pictureOf = .error errLanguageGraph ∧
    (runBuild badSubL).map pictureOf = .error errLanguageGraph := by decide

/-- `opsL` is accepted and has nine links (non-vacuity of `build_opsL`) -/
theorem build_opsL_links : ((runBuild opsL).map (fun s => (linksOf s).length)) = .ok 9 := by decide

/-- **KF-C15-1 is reproduced by the translated code**: the two `Conn` declarations of `kfL` (same name, same two
asset types, different field names) give ONE association object; `Net` does not list the second declaration -/
theorem same_signature_merged_translated :
    (runBuild kfL).map (fun s => ((nodesOf s).map (·.leftField), (s.g.asset 0).associations.length)) =
      .ok (["inNets"], 1) := by decide

/-! ## the typing function: value and error class -/

/-- expressions beyond the reaches expressions of `lgL`: every operator, typed and untyped -/
def extraExprs : List Expr :=
  [.union (.field "leaves") (.field "others"), .sub "Other" (.step "access"), .var "nope", .trans (.field "hosts"),
   .sub "Nope" (.field "hosts"), .collect (.field "hosts") (.step "compromise"), .field "zzz", .step "nope",
   .collect (.field "hosts") (.collect (.field "apps") (.field "hosts")), .trans (.field "zzz"),
   .sub "Leaf" (.field "leaves"), .sub "Base" (.field "leaves"), .sub "Host" (.field "leaves")]

/-- failing expressions on which the *class* of the failure differs (see `typing_class_differs`) -/
def classExprs : List Expr :=
  [.sub "Nope" (.field "zzz"), .collect (.field "zzz") (.step "access"), .collect (.field "zzz") (.field "hosts"),
   .collect (.field "zzz") (.var "v"), .union (.field "zzz") (.field "hosts"), .inter (.field "leaves") (.field "hosts"),
   .diff (.field "leaves") (.field "others"), .sub "Leaf" (.field "apps"), .union (.field "hosts") (.field "apps")]

/-- expressions on which value AND class of failure agree from every asset type of `lgL` -/
def exactExprs : List Expr :=
  [.sub "Other" (.step "access"), .var "nope", .trans (.field "hosts"), .field "zzz", .step "nope", .trans (.field "zzz"),
   .field "hosts", .field "apps", .field "leaves", .step "access", .sub "Nope" (.step "access")]

/-- exact agreement (target, step name, `.ok none`, class of the exception) -/
theorem typing_lgL_exact : TypingAgrees lgL 1000 exactExprs := by decide
theorem typing_varL : TypingAgrees varL 1000 [.var "hs", .var "own", .var "nope", .collect (.var "hs") (.field "apps")] := by decide
theorem typing_shadowL : TypingAgrees shadowL 1000 [.var "hs"] := by decide

/-- agreement of every reaches expression and of `extraExprs` from EVERY asset type (also the ones the expression
was not written for): the same target asset and step name, or both fail -/
theorem typing_lgL : TypingAgreesUpToClass lgL 1000 (allReaches lgL ++ extraExprs) := by decide
theorem typing_opsL : TypingAgreesUpToClass opsL 1000 (allReaches opsL ++ [.var "hs", .var "nope", .trans (.var "hs")]) := by decide
theorem typing_starL : TypingAgreesUpToClass starL 1000 (allReaches starL ++ [.trans (.field "next"), .trans (.trans (.field "next"))]) := by decide

/-- on these the two fail together, so `_generate_graph` treats them alike … -/
theorem typing_lgL_failures : TypingAgreesUpToClass lgL 1000 classExprs := by decide

/-- … **but not with the same class of failure** (finding, see the notes): from `Base` in the built graph of `lgL`
* `[Nope](zzz)`: the Python looks the subtype up *before* it tests the operand — `LanguageGraphException`; the
  hand model reports the untyped operand — step-expression error;
* `zzz.access`, `zzz.hosts`: the Python returns `(None, None, …)` and goes on with the target `None`; the hand
  model raises at once;
* `zzz \/ hosts`, `zzz.v`: the Python fails with `AttributeError` on `None` (here `PyErr.other`);
* `[Leaf](apps)` (`apps` is not a field of `Base`, the operand is untyped): `is_subasset_of(None)` is `False` and the
  argument `result_target_asset.name` of the `logger.error` call that follows raises `AttributeError` (the translator
  emits the implicit `None` check of a dropped logging call's arguments, `genexec2` finding). -/
theorem typing_class_differs :
    (match runBuild lgL, generate lgL with
     | .ok s, .ok g => classExprs.map (fun e => (typeRun s 1000 "Base" e, typeModel lgL g.assocs (genFuel lgL) "Base" e))
     | _, _ => []) =
    [(.error errLanguageGraph, .error errStepExpression), (.ok none, .error errStepExpression),
     (.ok none, .error errStepExpression), (.error .other, .error errStepExpression),
     (.error .other, .error errStepExpression), (.error .other, .error errStepExpression),
     (.error .other, .error errStepExpression), (.error .other, .error errStepExpression),
     (.error .other, .error errStepExpression)] := by decide

/-- consequence for `_generate_graph`: a reaches expression with a set operation over an operand without target
makes the Python fail with `AttributeError`, and `[Nope](zzz)` with `LanguageGraphException`, where the hand model
reports a step-expression error — `BuildAgrees` is false for such languages (both reject them) -/
theorem build_class_differs :
    (runBuild badUnionL).map pictureOf = .error .other ∧ modelPicture badUnionL = .error errStepExpression ∧
    (runBuild badSubFieldL).map pictureOf = .error errLanguageGraph ∧
    modelPicture badSubFieldL = .error errStepExpression := by decide

/-- **cyclic `extends`** (`cycL`: `A extends B extends A`): the translated `_get_associations_for_asset_type`
exhausts its recursion fuel (the Python: `RecursionError`), the fuel-bounded hand model accepts the language -/
theorem build_cyclic_extends :
    (runBuild cycL).map pictureOf = .error .recursionError ∧ (generate cycL).toOption.isSome = true := by decide

/-! ## where list-for-list agreement stops (why the general tie speaks of permutations and distinct names) -/

/-- one step with links to the steps `x`, `y`, `x` of three different targets -/
def orderL : Lang :=
  { assets := [
      { name := "A", steps := [{ name := "go", type := "or", reaches := some { overrides := true, exprs := [
          .collect (.field "b") (.step "x"), .collect (.field "c") (.step "y"), .collect (.field "c") (.step "x")] } }] },
      { name := "B", steps := [{ name := "x", type := "or" }] },
      { name := "C", steps := [{ name := "x", type := "or" }, { name := "y", type := "or" }] }],
    assocs := [{ name := "AB", leftAsset := "A", leftField := "a1", rightAsset := "B", rightField := "b" },
               { name := "AC", leftAsset := "A", leftField := "a2", rightAsset := "C", rightField := "c" }] }

/-- **the `children` dictionary groups the links of a step by the NAME of the target step**: read back in
dictionary order the links of `A.go` are `B.x, C.x, C.y`, the hand model lists them in the order of the reaches
expressions `B.x, C.y, C.x` — the same links, another order; everything else of the picture agrees -/
theorem link_order_differs :
    ¬ BuildAgrees orderL 1000 ∧
    (match pictureOfRun orderL 1000, modelPicture orderL with
     | .ok p, .ok q => decide (p.links.Perm q.links) && decide ({ p with links := [] } = { q with links := [] })
     | _, _ => false) = true := by decide

/-- two asset declarations with one name -/
def dupL : Lang :=
  { assets := [{ name := "A" }, { name := "B", superAsset := some "A" }, { name := "B", superAsset := some "A" }] }

/-- **duplicate asset names**: the Python finds the FIRST object of a name both times (the first `B` gets `A` as
super asset twice, the second none), the hand model answers per declaration — the general tie assumes pairwise
distinct asset names (`SpecOK.names_nodup`; the MAL compiler guarantees them) -/
theorem duplicate_names_disagree :
    (pictureOfRun dupL 1000).map (·.assets) = .ok [("A", [], ["B", "B"]), ("B", ["A", "A"], []), ("B", [], [])] ∧
    (modelPicture dupL).map (·.assets) = .ok [("A", [], ["B", "B"]), ("B", ["A"], []), ("B", ["A"], [])] := by decide

end MalVerif.Py.TieLangType
