import MalVerif.Py.TieNeo4jGet
import MalVerif.Py.RelNeo4jDefs
/-!
# Tie: one round of the second loop of the translated `get_model` (rows that are no entry points)

* `gmLink_tie`: the association object is built, assigned and added unless the link exists = `Sim.ensurePairG`;
* `gmPairAssoc_tie`: the round after the two ids are read = `Sim.pairAssocG`;
* `queryPairs_eq` / `neoQueryPairs_eq`: the rows of the second query, of the recorded database and of its abstraction;
* `gmPairStep_tie`: a whole round on such a row = `Sim.pairAssocG`; `gmPairStep_yield`: no round leaves the loop.
-/
namespace MalVerif.PyN.TieGet
open MalVerif MalVerif.PyM MalVerif.PyM.Gen MalVerif.PyN MalVerif.PyN.Sim

/-! ### C1: the object is built before the existence test -/

/-- the abstraction of a heap with one more association object that nothing refers to -/
theorem abs_newAssocObj (s : H) (o : PyAssoc) : PyM.abs (newAssocObj s o) = garbage (PyM.abs s) (absAssoc o) := by
  unfold garbage newAssocObj PyM.abs
  simp only [MS.St.mk.injEq, true_and, and_true]
  refine ⟨?_, ?_⟩
  · funext x; by_cases hx : x = s.lfresh <;> simp [hx]
  · rfl

/-- the part of `gmLink` after the two assignments, on the heap `newAssocObj s o` -/
theorem gmLink_tail (menv : PyM.ModelEnv) (hE : EqId menv) (s : H) (hI : MS.Inv (PyM.abs s)) (o : PyAssoc)
    (hx : o.extras = none) (first second : ARef) :
    absR (((model_association_exists_between_assets (newAssocObj s o) menv o.cls first second).bind fun ex =>
        if (!ex) = true then
          (model_add_association (newAssocObj s o) menv s.lfresh).bind fun s3 => .ok (ForInStep.yield s3)
        else .ok (ForInStep.yield (newAssocObj s o))).map stepState) =
      ensurePairG (PyM.abs s) { cls := o.cls, lf := o.lf, rf := o.rf, left := o.left, right := o.right }
        first second := by
  rw [Tie.exists_tie, ok_bind, Tie.assocExists_new s o hI]
  unfold ensurePairG
  cases hex : MS.assocExists (PyM.abs s) o.cls first second with
  | true =>
    simp only [Bool.not_true, Bool.false_eq_true, if_false, if_true]
    show Except.ok (PyM.abs (newAssocObj s o)) = _
    rw [abs_newAssocObj]
    unfold absAssoc
    rw [hx]
    rfl
  | false =>
    simp only [Bool.not_false, if_true, Bool.false_eq_true, if_false]
    rw [map_bind_yield]
    exact Tie.add_association_tie hE s hI o

theorem newAssocObj_setL (s : H) (o o' : PyAssoc) : (newAssocObj s o).setL s.lfresh o' = newAssocObj s o' := by
  unfold newAssocObj H.setL
  simp only [H.mk.injEq, true_and, and_true]
  funext x
  by_cases hx : x = s.lfresh <;> simp [hx]

/-- the association object of a resolved declaration with the two member lists -/
@[reducible] def lnk (L : Lang) (d : AssocDecl) (h : d.leftField ≠ d.rightField) (l r : List ARef) : PyAssoc :=
  { cls := MS.className L d, lf := d.leftField, rf := d.rightField, left := l, right := r, distinct := h }

theorem setattr_lf (L : Lang) (d : AssocDecl) (h : d.leftField ≠ d.rightField) (s : H) (l r v : List ARef) :
    pySetattr (newAssocObj s (lnk L d h l r)) s.lfresh d.leftField v = .ok (newAssocObj s (lnk L d h v r)) := by
  unfold pySetattr
  rw [Tie.newAssocObj_l_self]
  simp only [beq_self_eq_true, if_true]
  rw [newAssocObj_setL]

theorem setattr_rf (L : Lang) (d : AssocDecl) (h : d.leftField ≠ d.rightField) (s : H) (l r v : List ARef) :
    pySetattr (newAssocObj s (lnk L d h l r)) s.lfresh d.rightField v = .ok (newAssocObj s (lnk L d h l v)) := by
  unfold pySetattr
  rw [Tie.newAssocObj_l_self]
  have hne : (d.rightField == d.leftField) = false := by simp [Ne.symm h]
  simp only [hne, Bool.false_eq_true, if_false, beq_self_eq_true, if_true]
  rw [newAssocObj_setL]

theorem gmLink_tie (L : Lang) (nodes : List AssocDecl) (menv : PyM.ModelEnv) (hE : EqId menv) (s : H) (hI : MS.Inv (PyM.abs s))
    (lf rf : String) (la ra : ARef) (d : AssocDecl) (hd : Resolved L d)
    (hrow : (d.leftField = lf ∧ d.rightField = rf) ∨ (d.leftField = rf ∧ d.rightField = lf)) :
    absR ((gmLink (envOf L nodes menv) s lf rf la ra (MS.className L d)
            (if d.leftField = lf then la else ra) (if d.leftField = lf then ra else la)).map stepState) =
      ensurePairG (PyM.abs s)
        { cls := MS.className L d, lf := d.leftField, rf := d.rightField,
          left := [if d.leftField = lf then la else ra], right := [if d.leftField = lf then ra else la] }
        (if d.leftField = lf then la else ra) (if d.leftField = lf then ra else la) := by
  have hdiff := hd.diff
  have hnew : (envOf L nodes menv).ns_new_assoc (MS.className L d) = .ok (lnk L d hdiff [] []) := by
    show (match (MS.assocClasses L).find? (·.cls = MS.className L d) with
      | some k => if h : k.lf ≠ k.rf then
          (.ok { cls := MS.className L d, lf := k.lf, rf := k.rf, distinct := h } : Except PyErr PyAssoc)
        else .error .other
      | none => .error .lookupError) = _
    rw [hd.cls]
    show (if h : d.leftField ≠ d.rightField then
        (.ok { cls := MS.className L d, lf := d.leftField, rf := d.rightField, distinct := h } : Except PyErr PyAssoc)
      else .error .other) = _
    rw [dif_pos hdiff]
  unfold gmLink
  rw [hnew, ok_bind]
  show absR (Except.map stepState
    ((pySetattr (newAssocObj s _) s.lfresh lf [la]).bind fun s1 =>
      (pySetattr s1 s.lfresh rf [ra]).bind fun s2 => _)) = _
  rcases hrow with ⟨h1, h2⟩ | ⟨h1, h2⟩
  · subst h1; subst h2
    rw [setattr_lf, ok_bind, setattr_rf, ok_bind]
    simp only [if_true]
    exact gmLink_tail menv hE s hI (lnk L d hdiff [la] [ra]) rfl la ra
  · subst h1; subst h2
    have hne' : ¬ d.leftField = d.rightField := hdiff
    rw [setattr_rf, ok_bind, setattr_lf, ok_bind]
    simp only [if_neg hne']
    exact gmLink_tail menv hE s hI (lnk L d hdiff [ra] [la]) rfl ra la

/-! ### C2: the round after the two ids are read -/

theorem lookupAssoc_row {L : Lang} {nodes : List AssocDecl} {f1 f2 t1 t2 : String} {d : AssocDecl}
    (h : LG.lookupAssoc L nodes f1 f2 t1 t2 = .ok (some d)) :
    (d.leftField = f1 ∧ d.rightField = f2) ∨ (d.leftField = f2 ∧ d.rightField = f1) := by
  unfold LG.lookupAssoc at h
  split at h
  · cases h
  · injection h with h
    have hp := List.find?_some h
    simp only [Bool.or_eq_true, Bool.and_eq_true, decide_eq_true_eq] at hp
    rcases hp with hp | hp
    · exact Or.inl ⟨hp.1.1.1, hp.1.1.2⟩
    · exact Or.inr ⟨hp.1.1.1, hp.1.1.2⟩

theorem truthyStr_some {c : String} (h : c ≠ "") : truthyStr? (some c) = some c := by
  unfold truthyStr?
  simp [h]

theorem envOf_lookup_error (L : Lang) (nodes : List AssocDecl) (menv : PyM.ModelEnv) (f1 f2 t1 t2 : String) (e : LG.Err)
    (h : LG.lookupAssoc L nodes f1 f2 t1 t2 = .error e) :
    (envOf L nodes menv).get_association_by_fields_and_assets f1 f2 t1 t2 = .error .lookupError := by
  simp only [envOf, h]

theorem envOf_lookup_none (L : Lang) (nodes : List AssocDecl) (menv : PyM.ModelEnv) (f1 f2 t1 t2 : String)
    (h : LG.lookupAssoc L nodes f1 f2 t1 t2 = .ok none) :
    (envOf L nodes menv).get_association_by_fields_and_assets f1 f2 t1 t2 = .ok none := by
  simp only [envOf, h]

theorem envOf_lookup_some (L : Lang) (nodes : List AssocDecl) (menv : PyM.ModelEnv) (f1 f2 t1 t2 : String) (d : AssocDecl)
    (h : LG.lookupAssoc L nodes f1 f2 t1 t2 = .ok (some d)) :
    (envOf L nodes menv).get_association_by_fields_and_assets f1 f2 t1 t2 =
      .ok (some { name := d.name, left_field := ⟨⟨d.leftAsset⟩, d.leftField⟩,
                  right_field := ⟨⟨d.rightAsset⟩, d.rightField⟩ }) := by
  simp only [envOf, h]

theorem envOf_signature (L : Lang) (nodes : List AssocDecl) (menv : PyM.ModelEnv) (d : AssocDecl) :
    (envOf L nodes menv).get_association_by_signature d.name d.leftAsset d.rightAsset = .ok (some (MS.className L d)) :=
  rfl

theorem gmPairAssoc_tie (L : Lang) (nodes : List AssocDecl) (menv : PyM.ModelEnv) (hE : EqId menv) (s : H) (hI : MS.Inv (PyM.abs s))
    (lf rf : String) (lid rid : Int)
    (hres : ∀ la ra d, MS.getAssetById (PyM.abs s) lid = some la → MS.getAssetById (PyM.abs s) rid = some ra →
       LG.lookupAssoc L nodes lf rf ((PyM.abs s).aobj la).type ((PyM.abs s).aobj ra).type = .ok (some d) → Resolved L d) :
    absR ((gmPairAssoc (envOf L nodes menv) s lf rf lid rid).map stepState) = pairAssocG L nodes (PyM.abs s) lf rf lid rid := by
  unfold gmPairAssoc pairAssocG
  rw [Tie.get_asset_by_id_tie, Tie.get_asset_by_id_tie]
  cases hla : MS.getAssetById (PyM.abs s) lid with
  | none => rfl
  | some la =>
    cases hra : MS.getAssetById (PyM.abs s) rid with
    | none => rfl
    | some ra =>
      have hres' := hres la ra
      simp only []
      have hta : (s.a la).type = ((PyM.abs s).aobj la).type := rfl
      have htb : (s.a ra).type = ((PyM.abs s).aobj ra).type := rfl
      rw [hta, htb]
      cases hlk : LG.lookupAssoc L nodes lf rf ((PyM.abs s).aobj la).type ((PyM.abs s).aobj ra).type with
      | error e => rw [envOf_lookup_error L nodes menv _ _ _ _ e hlk]; rfl
      | ok od =>
        cases od with
        | none => rw [envOf_lookup_none L nodes menv _ _ _ _ hlk]; rfl
        | some d =>
          have hd : Resolved L d := hres' d hla hra hlk
          have hrow := lookupAssoc_row hlk
          rw [envOf_lookup_some L nodes menv _ _ _ _ d hlk]
          simp only [ok_bind, envOf_signature, truthyStr_some hd.named]
          have key := gmLink_tie L nodes menv hE s hI lf rf la ra d hd hrow
          by_cases hlf : d.leftField = lf
          · have hb : (d.leftField == lf) = true := by simp [hlf]
            rw [if_pos hb, if_pos hlf]
            simp only [if_pos hlf] at key
            exact key
          · have hb : ¬ (d.leftField == lf) = true := by simp [hlf]
            rw [if_neg hb, if_neg hlf]
            simp only [if_neg hlf] at key
            exact key

/-! ### C3 (definitions): the rows of the second query -/

def RelsWF (db : Db) : Prop := ∀ r ∈ db.rels, r.src < db.nodes.length ∧ r.dst < db.nodes.length

def pairsOfDb (db : Db) : List (DbRel × DbRel) :=
  db.rels.flatMap fun r1 => (db.rels.filter (fun r2 => r2.src = r1.dst && r2.dst = r1.src && r2 ≠ r1)).map fun r2 => (r1, r2)

def pairRow (db : Db) (p : DbRel × DbRel) : Row :=
  [("a", Cell.node p.1.src (db.nodes[p.1.src]?.getD default)), ("r1", Cell.rel p.1), ("r2", Cell.rel p.2),
   ("b", Cell.node p.1.dst (db.nodes[p.1.dst]?.getD default))]

/-! ### C4: one round on a row of the second query that is no entry point -/

theorem rowGet_pair_a (ca c1 c2 cb : Cell) : rowGet [("a", ca), ("r1", c1), ("r2", c2), ("b", cb)] "a" = .ok ca := by
  simp [rowGet, PyM.dictGetE, PyM.dictGet]
theorem rowGet_pair_r1 (ca c1 c2 cb : Cell) : rowGet [("a", ca), ("r1", c1), ("r2", c2), ("b", cb)] "r1" = .ok c1 := by
  simp [rowGet, PyM.dictGetE, PyM.dictGet]
theorem rowGet_pair_r2 (ca c1 c2 cb : Cell) : rowGet [("a", ca), ("r1", c1), ("r2", c2), ("b", cb)] "r2" = .ok c2 := by
  simp [rowGet, PyM.dictGetE, PyM.dictGet]
theorem rowGet_pair_b (ca c1 c2 cb : Cell) : rowGet [("a", ca), ("r1", c1), ("r2", c2), ("b", cb)] "b" = .ok cb := by
  simp [rowGet, PyM.dictGetE, PyM.dictGet]

theorem gmPairStep_tie (L : Lang) (nodes : List AssocDecl) (menv : PyM.ModelEnv) (hE : EqId menv) (s : H) (hI : MS.Inv (PyM.abs s))
    (db : Db) (p : DbRel × DbRel) (na nb : NeoNode) (lid rid : Int)
    (hna : db.nodes[p.1.src]? = some na) (hnb : db.nodes[p.1.dst]? = some nb) (hwa : NodeWF na) (hwb : NodeWF nb)
    (hl : (propOf na "asset_id").toInt? = some lid) (hrr : (propOf nb "asset_id").toInt? = some rid)
    (hf1 : p.1.type ≠ "firstSteps") (hf2 : p.2.type ≠ "firstSteps")
    (hres : ∀ la ra d, MS.getAssetById (PyM.abs s) lid = some la → MS.getAssetById (PyM.abs s) rid = some ra →
       LG.lookupAssoc L nodes p.1.type p.2.type ((PyM.abs s).aobj la).type ((PyM.abs s).aobj ra).type = .ok (some d) → Resolved L d) :
    absR ((gmPairStep (envOf L nodes menv) (pairRow db p) s).map stepState) = pairAssocG L nodes (PyM.abs s) p.1.type p.2.type lid rid := by
  have hil : pyIntOfStr (propOf na "asset_id") = .ok lid := by unfold pyIntOfStr; rw [hl]
  have hir : pyIntOfStr (propOf nb "asset_id") = .ok rid := by unfold pyIntOfStr; rw [hrr]
  have hb1 : ¬ (p.1.type == "firstSteps") = true := by simp [hf1]
  have hb2 : ¬ (p.2.type == "firstSteps") = true := by simp [hf2]
  have ht1 : pyIndex (cellTypes (Cell.rel p.1)) 0 = .ok p.1.type := rfl
  have ht2 : pyIndex (cellTypes (Cell.rel p.2)) 0 = .ok p.2.type := rfl
  have hca : cellDict (Cell.node p.1.src na) = na.props := rfl
  have hcb : cellDict (Cell.node p.1.dst nb) = nb.props := rfl
  unfold gmPairStep pairRow
  rw [hna, hnb]
  simp only [Option.getD_some, rowGet_pair_a, rowGet_pair_r1, rowGet_pair_r2, rowGet_pair_b, ok_bind, ht1, ht2, hca, hcb,
    dictGetE_prop na _ hwa.asset_id, dictGetE_prop nb _ hwb.asset_id, hil, hir]
  rw [if_neg hb1, if_neg hb2]
  exact gmPairAssoc_tie L nodes menv hE s hI p.1.type p.2.type lid rid hres

theorem gmLink_yield {env : NeoEnv} {s : H} {lf rf : String} {la ra : ARef} {cls : String} {first second : ARef}
    {r : ForInStep H} (h : gmLink env s lf rf la ra cls first second = .ok r) : r = .yield (stepState r) := by
  unfold gmLink at h
  obtain ⟨o, _, h⟩ := bind_ok h
  obtain ⟨s1, _, h⟩ := bind_ok h
  obtain ⟨s2, _, h⟩ := bind_ok h
  obtain ⟨ex, _, h⟩ := bind_ok h
  split at h
  · obtain ⟨s3, _, h⟩ := bind_ok h
    cases h; rfl
  · cases h; rfl

theorem gmPairAssoc_yield {env : NeoEnv} {s : H} {lf rf : String} {lid rid : Int} {r : ForInStep H}
    (h : gmPairAssoc env s lf rf lid rid = .ok r) : r = .yield (stepState r) := by
  unfold gmPairAssoc at h
  split at h
  · split at h
    · obtain ⟨a2, _, h⟩ := bind_ok h
      split at h
      · obtain ⟨an, _, h⟩ := bind_ok h
        split at h
        · split at h
          · exact gmLink_yield h
          · exact gmLink_yield h
        · cases h
      · cases h; rfl
    · cases h
  · cases h

theorem gmPairMain_yield {env : NeoEnv} {s : H} {lf rf : String} {lid rid : Int} {att : Option Int} {tid : Int}
    {prop : String} {r : ForInStep H} (h : gmPairMain env s lf rf lid rid att tid prop = .ok r) :
    r = .yield (stepState r) := by
  unfold gmPairMain at h
  split at h
  · split at h
    · split at h
      · cases h; rfl
      · cases h
    · cases h
  · exact gmPairAssoc_yield h

theorem gmPairStep_yield (env : NeoEnv) (row : Row) (s : H) (r : ForInStep H) (h : gmPairStep env row s = .ok r) :
    r = .yield (stepState r) := by
  unfold gmPairStep at h
  obtain ⟨c1, _, h⟩ := bind_ok h
  obtain ⟨lf, _, h⟩ := bind_ok h
  obtain ⟨c2, _, h⟩ := bind_ok h
  obtain ⟨rf, _, h⟩ := bind_ok h
  obtain ⟨ca, _, h⟩ := bind_ok h
  obtain ⟨cb, _, h⟩ := bind_ok h
  obtain ⟨tl, _, h⟩ := bind_ok h
  obtain ⟨lid, _, h⟩ := bind_ok h
  obtain ⟨tr, _, h⟩ := bind_ok h
  obtain ⟨rid, _, h⟩ := bind_ok h
  split at h
  · exact gmPairMain_yield h
  · split at h
    · exact gmPairMain_yield h
    · exact gmPairMain_yield h

/-! ### C3: the rows of the second query -/

theorem flatMap_congr' {α β : Type} {l : List α} {f g : α → List β} (h : ∀ x ∈ l, f x = g x) :
    l.flatMap f = l.flatMap g := by
  induction l with
  | nil => rfl
  | cons x xs ih =>
    rw [List.flatMap_cons, List.flatMap_cons, h x (List.mem_cons_self ..),
      ih (fun y hy => h y (List.mem_cons_of_mem _ hy))]

theorem queryPairs_eq (db : Db) (hdb : DbWF db) (hr : RelsWF db) : queryPairs db = (pairsOfDb db).map (pairRow db) := by
  unfold queryPairs pairsOfDb
  rw [List.map_flatMap]
  apply flatMap_congr'
  intro r1 hr1
  have hlt := (hr r1 hr1).1
  have hty : hasProp (db.nodes[r1.src]?.getD default) "type" = true := by
    rw [List.getElem?_eq_getElem hlt, Option.getD_some]
    exact (hdb _ (List.getElem_mem hlt)).type
  rw [hty, List.map_map]
  simp only [Bool.and_true]
  rfl

theorem absRel_inj {r1 r2 : DbRel} (h : absRel r1 = absRel r2) : r1 = r2 := by
  cases r1; cases r2
  unfold absRel at h
  simp only [Neo.DbRel.mk.injEq] at h
  obtain ⟨h1, h2, h3⟩ := h
  subst h1; subst h2; subst h3; rfl

theorem neoQueryPairs_eq (db : Db) :
    Neo.queryPairs (absDb db) = (pairsOfDb db).map (fun p => (p.1.src, p.1.type, p.2.type, p.1.dst)) := by
  unfold Neo.queryPairs pairsOfDb absDb
  simp only []
  rw [List.map_flatMap, List.flatMap_map]
  apply flatMap_congr'
  intro r1 _
  rw [List.filter_map, List.map_map, List.map_map]
  have hp : ((fun r2 : Neo.DbRel => decide (r2.src = (absRel r1).dst) && decide (r2.dst = (absRel r1).src) &&
        decide (r2 ≠ absRel r1)) ∘ absRel) =
      (fun r2 : DbRel => decide (r2.src = r1.dst) && decide (r2.dst = r1.src) && decide (r2 ≠ r1)) := by
    funext r2
    have e : decide (absRel r2 ≠ absRel r1) = decide (r2 ≠ r1) := by
      apply decide_eq_decide.2
      exact ⟨fun h e => h (congrArg absRel e), fun h e => h (absRel_inj e)⟩
    show (decide (r2.src = r1.dst) && decide (r2.dst = r1.src) && decide (absRel r2 ≠ absRel r1)) = _
    rw [e]
  rw [hp]
  rfl

theorem pairsOfDb_wf (db : Db) (hr : RelsWF db) : ∀ p ∈ pairsOfDb db, p.1 ∈ db.rels ∧ p.2 ∈ db.rels := by
  intro p hp
  have _ := hr
  unfold pairsOfDb at hp
  obtain ⟨r1, hr1, hp⟩ := List.mem_flatMap.1 hp
  obtain ⟨r2, hr2, rfl⟩ := List.mem_map.1 hp
  exact ⟨hr1, (List.mem_filter.1 hr2).1⟩

end MalVerif.PyN.TieGet
