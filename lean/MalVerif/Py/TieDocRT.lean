import MalVerif.Py.AbsAgSerial
import MalVerif.Proofs.AGSerialLemmas
/-!
# The modelled file layer on Python-level documents commutes with `docOf`

`jsonRTpy` / `yamlRTpy` (on `PyDoc`) are `AGS.jsonRT` / `AGS.yamlRT` on the typed document `docOf d`, keep documents
well shaped; `fromDoc` reads `assetKnown` only at the asset names of the document.
-/
namespace MalVerif.Py.Tie
open MalVerif.Py MalVerif.AGS MalVerif.AGraph
open MalVerif.Ser (Key)
namespace RT

/-! ### generic -/

theorem dictGet_mapVal {κ α β : Type} [BEq κ] (f : α → β) (d : List (κ × α)) (k : κ) :
    dictGet (d.map (fun e => (e.1, f e.2))) k = (dictGet d k).map f := by
  unfold dictGet
  induction d with
  | nil => rfl
  | cons x xs ih =>
    simp only [List.map_cons, List.find?_cons]
    cases h : (x.1 == k) with
    | true => rfl
    | false => exact ih

theorem insertBy_map {α β : Type} (F : α → β) (le : α → α → Bool) (le' : β → β → Bool)
    (h : ∀ a b, le' (F a) (F b) = le a b) (x : α) (l : List α) :
    (insertBy le x l).map F = insertBy le' (F x) (l.map F) := by
  induction l with
  | nil => rfl
  | cons y ys ih =>
    simp only [insertBy, List.map_cons, h]
    cases le x y with
    | true => rfl
    | false => simp only [Bool.false_eq_true, if_false, List.map_cons, ih]

/-- sorting commutes with a map that respects the order -/
theorem isort_map {α β : Type} (F : α → β) (le : α → α → Bool) (le' : β → β → Bool)
    (h : ∀ a b, le' (F a) (F b) = le a b) (l : List α) :
    (isort le l).map F = isort le' (l.map F) := by
  induction l with
  | nil => rfl
  | cons x l ih =>
    show (insertBy le x (isort le l)).map F = insertBy le' (F x) (isort le' (l.map F))
    rw [insertBy_map F le le' h, ih]

theorem all_isort {α : Type} (le : α → α → Bool) (p : α → Bool) (l : List α) : (isort le l).all p = l.all p :=
  (isort_perm le l).all_eq

theorem foldlM_congr {α σ ε : Type} (f g : σ → α → Except ε σ) (l : List α) :
    (∀ e ∈ l, ∀ s, f s e = g s e) → ∀ s, l.foldlM f s = l.foldlM g s := by
  induction l with
  | nil => intro _ s; rfl
  | cons x xs ih =>
    intro h s
    rw [List.foldlM_cons, List.foldlM_cons, h x List.mem_cons_self s]
    cases g s x with
    | error e => rfl
    | ok s' => exact ih (fun e he => h e (List.mem_cons_of_mem _ he)) s'

/-! ### the atom map inside a node / attacker dictionary -/

def amap (f : List (Key × String) → List (Key × String)) (a : PyAtom) : PyAtom :=
  match a with | .idmap m => .idmap (f m) | a => a

theorem dictGet_mapIdmaps (f : List (Key × String) → List (Key × String)) (d : PyDictA) (k : String) :
    dictGet (mapIdmaps f d) k = (dictGet d k).map (amap f) :=
  dictGet_mapVal (amap f) d k

section readers
variable (f : List (Key × String) → List (Key × String))

theorem intOf_amap (a : Option PyAtom) : intOf (a.map (amap f)) = intOf a := by
  rcases a with _ | a
  · rfl
  · cases a <;> rfl
theorem optStrOf_amap (a : Option PyAtom) : optStrOf (a.map (amap f)) = optStrOf a := by
  rcases a with _ | a
  · rfl
  · cases a <;> rfl
theorem strOf_amap (a : Option PyAtom) : strOf (a.map (amap f)) = strOf a := by
  unfold strOf; rw [optStrOf_amap]
theorem strsOf_amap (a : Option PyAtom) : strsOf (a.map (amap f)) = strsOf a := by
  rcases a with _ | a
  · rfl
  · cases a <;> rfl
theorem ttcOf_amap (a : Option PyAtom) : ttcOf (a.map (amap f)) = ttcOf a := by
  rcases a with _ | a
  · rfl
  · cases a <;> rfl
theorem jsonOf_amap (a : Option PyAtom) : jsonOf (a.map (amap f)) = jsonOf a := by
  rcases a with _ | a
  · rfl
  · cases a <;> rfl
theorem flagOf_amap (a : Option PyAtom) (b : Bool) : flagOf (a.map (amap f)) b = flagOf a b := by
  rcases a with _ | a
  · rfl
  · cases a <;> rfl
theorem existOf_amap (a : Option PyAtom) :
    (a.map (amap f)).map (fun x => atomEqStr x "True") = a.map (fun x => atomEqStr x "True") := by
  rcases a with _ | a
  · rfl
  · cases a <;> rfl
theorem keysOf_amap (g : List Key → List Key) (hg : g [] = []) (hfg : ∀ m, (f m).map (·.1) = g (m.map (·.1)))
    (a : Option PyAtom) : keysOf (a.map (amap f)) = g (keysOf a) := by
  rcases a with _ | a
  · exact hg.symm
  · cases a <;> first | exact hg.symm | exact hfg _

theorem isInt_amap (a : Option PyAtom) : isInt (a.map (amap f)) = isInt a := by
  rcases a with _ | a
  · rfl
  · cases a <;> rfl
theorem isStr_amap (a : Option PyAtom) : isStr (a.map (amap f)) = isStr a := by
  rcases a with _ | a
  · rfl
  · cases a <;> rfl
theorem isOptStr_amap (a : Option PyAtom) : isOptStr (a.map (amap f)) = isOptStr a := by
  rcases a with _ | a
  · rfl
  · cases a <;> rfl
theorem isIdmap_amap (a : Option PyAtom) : isIdmap (a.map (amap f)) = isIdmap a := by
  rcases a with _ | a
  · rfl
  · cases a <;> rfl
theorem isTtc_amap (a : Option PyAtom) : isTtc (a.map (amap f)) = isTtc a := by
  rcases a with _ | a
  · rfl
  · cases a <;> rfl
theorem isOptStrs_amap (a : Option PyAtom) : isOptStrs (a.map (amap f)) = isOptStrs a := by
  rcases a with _ | a
  · rfl
  · cases a <;> rfl
theorem isOptJson_amap (a : Option PyAtom) : isOptJson (a.map (amap f)) = isOptJson a := by
  rcases a with _ | a
  · rfl
  · cases a <;> rfl

theorem entryOf_mapIdmaps (g : List Key → List Key) (hg : g [] = [])
    (hfg : ∀ m, (f m).map (·.1) = g (m.map (·.1))) (d : PyDictA) :
    entryOf (mapIdmaps f d) =
      { entryOf d with children := g (entryOf d).children, parents := g (entryOf d).parents } := by
  unfold entryOf
  simp only [dictGet_mapIdmaps, intOf_amap, optStrOf_amap, strOf_amap, strsOf_amap, ttcOf_amap, jsonOf_amap,
    flagOf_amap, existOf_amap, keysOf_amap f g hg hfg]

theorem attEntryOf_mapIdmaps (g : List Key → List Key) (hg : g [] = [])
    (hfg : ∀ m, (f m).map (·.1) = g (m.map (·.1))) (d : PyDictA) :
    attEntryOf (mapIdmaps f d) =
      { attEntryOf d with entry := g (attEntryOf d).entry, reached := g (attEntryOf d).reached } := by
  unfold attEntryOf
  simp only [dictGet_mapIdmaps, intOf_amap, strOf_amap, keysOf_amap f g hg hfg]

theorem nodeShape_mapIdmaps (d : PyDictA) : nodeShape (mapIdmaps f d) = nodeShape d := by
  unfold nodeShape
  simp only [dictGet_mapIdmaps, isInt_amap, isStr_amap, isOptStr_amap, isIdmap_amap, isTtc_amap, isOptStrs_amap,
    isOptJson_amap]

theorem attShape_mapIdmaps (d : PyDictA) : attShape (mapIdmaps f d) = attShape d := by
  unfold attShape
  simp only [dictGet_mapIdmaps, isInt_amap, isStr_amap, isIdmap_amap]

end readers

/-! ### the two file layers -/

def jf (m : List (Key × String)) : List (Key × String) := m.map (fun kv => (Key.s kv.1.text, kv.2))
def jg (ks : List Key) : List Key := ks.map (fun k => .s k.text)
def yf (m : List (Key × String)) : List (Key × String) := isort (fun a b => keyLe a.1 b.1) m
def jtop (x : PyDictD) : PyDictD := x.map (fun e => (e.1, mapIdmaps jf e.2))
def ytop (x : PyDictD) : PyDictD := (isort (fun a b => a.1 ≤ b.1) x).map (fun e => (e.1, mapIdmaps yf e.2))

theorem jf_keys (m : List (Key × String)) : (jf m).map (·.1) = jg (m.map (·.1)) := by
  unfold jf jg; rw [List.map_map, List.map_map]; rfl
theorem yf_keys (m : List (Key × String)) : (yf m).map (·.1) = isort keyLe (m.map (·.1)) :=
  isort_map (·.1) _ keyLe (fun _ _ => rfl) m

theorem dictGet_jsonRTpy (d : PyDoc) (k : String) : dictGet (jsonRTpy d) k = (dictGet d k).map jtop :=
  dictGet_mapVal jtop d k
theorem dictGet_yamlRTpy (d : PyDoc) (k : String) : dictGet (yamlRTpy d) k = (dictGet d k).map ytop :=
  dictGet_mapVal ytop d k

theorem getD_map_nil {α β : Type} (F : List α → List β) (hF : F [] = []) (o : Option (List α)) :
    (o.map F).getD [] = F (o.getD []) := by
  cases o <;> simp [hF]

theorem stepsOf_jsonRTpy (d : PyDoc) : stepsOf (jsonRTpy d) = jtop (stepsOf d) := by
  unfold stepsOf dictGetD; rw [dictGet_jsonRTpy]; exact getD_map_nil jtop rfl _
theorem attackersOf_jsonRTpy (d : PyDoc) : attackersOf (jsonRTpy d) = jtop (attackersOf d) := by
  unfold attackersOf dictGetD; rw [dictGet_jsonRTpy]; exact getD_map_nil jtop rfl _
theorem stepsOf_yamlRTpy (d : PyDoc) : stepsOf (yamlRTpy d) = ytop (stepsOf d) := by
  unfold stepsOf dictGetD; rw [dictGet_yamlRTpy]; exact getD_map_nil ytop rfl _
theorem attackersOf_yamlRTpy (d : PyDoc) : attackersOf (yamlRTpy d) = ytop (attackersOf d) := by
  unfold attackersOf dictGetD; rw [dictGet_yamlRTpy]; exact getD_map_nil ytop rfl _

end RT
open RT

theorem docOf_jsonRTpy (d : PyDoc) : docOf (jsonRTpy d) = jsonRT (docOf d) := by
  unfold docOf jsonRT
  simp only [stepsOf_jsonRTpy, attackersOf_jsonRTpy, jtop, List.map_map]
  congr 1
  · apply List.map_congr_left
    intro e _
    simp only [Function.comp, entryOf_mapIdmaps jf jg rfl jf_keys]
    rfl
  · apply List.map_congr_left
    intro e _
    simp only [Function.comp, attEntryOf_mapIdmaps jf jg rfl jf_keys]
    rfl

theorem docOf_yamlRTpy (d : PyDoc) : docOf (yamlRTpy d) = yamlRT (docOf d) := by
  unfold docOf yamlRT
  simp only [stepsOf_yamlRTpy, attackersOf_yamlRTpy, ytop]
  congr 1
  · rw [← isort_map (fun e : String × PyDictA => (e.1, entryOf e.2)) (fun a b => a.1 ≤ b.1) (fun a b => a.1 ≤ b.1)
      (fun _ _ => rfl), List.map_map, List.map_map]
    apply List.map_congr_left
    intro e _
    simp only [Function.comp, entryOf_mapIdmaps yf (isort keyLe) rfl yf_keys]
  · rw [← isort_map (fun e : String × PyDictA => (e.1, attEntryOf e.2)) (fun a b => a.1 ≤ b.1)
      (fun a b => a.1 ≤ b.1) (fun _ _ => rfl), List.map_map, List.map_map]
    apply List.map_congr_left
    intro e _
    simp only [Function.comp, attEntryOf_mapIdmaps yf (isort keyLe) rfl yf_keys]

theorem docShape_jsonRTpy (d : PyDoc) (h : docShape d = true) : docShape (jsonRTpy d) = true := by
  unfold docShape at h ⊢
  rw [dictGet_jsonRTpy, dictGet_jsonRTpy]
  cases h1 : dictGet d "attack_steps" with
  | none => rw [h1] at h; simp at h
  | some st =>
    cases h2 : dictGet d "attackers" with
    | none => rw [h1, h2] at h; simp at h
    | some ats =>
      rw [h1, h2] at h
      simp only [Option.map_some, jtop, List.all_map, Function.comp_def, nodeShape_mapIdmaps, attShape_mapIdmaps]
      exact h

theorem docShape_yamlRTpy (d : PyDoc) (h : docShape d = true) : docShape (yamlRTpy d) = true := by
  unfold docShape at h ⊢
  rw [dictGet_yamlRTpy, dictGet_yamlRTpy]
  cases h1 : dictGet d "attack_steps" with
  | none => rw [h1] at h; simp at h
  | some st =>
    cases h2 : dictGet d "attackers" with
    | none => rw [h1, h2] at h; simp at h
    | some ats =>
      rw [h1, h2] at h
      simp only [Option.map_some, ytop, List.all_map, Function.comp_def, nodeShape_mapIdmaps, attShape_mapIdmaps,
        all_isort]
      exact h

/-- `fromDoc` looks at `assetKnown` only for the asset names that occur in the document -/
theorem fromDoc_known_congr (wm : Bool) (ak ak' : String → Bool) (d : AGDoc)
    (h : ∀ e ∈ d.steps, ∀ a, e.2.asset = some a → ak a = ak' a) : fromDoc wm ak d = fromDoc wm ak' d := by
  rw [fromDoc_eq, fromDoc_eq]
  rw [foldlM_congr (loadNode wm ak) (loadNode wm ak') d.steps]
  intro e he s
  unfold loadNode
  cases ha : e.2.asset with
  | none => rfl
  | some a => simp only [h e he a ha]

end MalVerif.Py.Tie
