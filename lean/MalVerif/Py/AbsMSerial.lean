import MalVerif.Py.GenMSerial.ToDict
import MalVerif.Py.GenMSerial.FromDict
import MalVerif.Proofs.SerialLemmas
/-!
# Abstraction for the translated serialisation of the instance model (domain `mserial`, C07)

* heaps: `abs : H → MS.St` of the `model` domain (`AbsModel.lean`), unchanged;
* documents: `docOf : PyDoc → Ser.ModelDoc` reads a Python-level document (records / association lists / sums of
  `PreludeMSerial.lean`) as the typed document of `Model/Serial.lean`; `docShape d` (decidable) says that `d` has the
  shape `_from_dict` expects (the keys it subscripts are there, the value under the type key of an association entry
  is a dictionary with two fields, Python dictionaries have pairwise different keys);
* `fromDocFrom`: `Ser.fromDoc` started in a given state instead of `{}` — `_from_dict` creates its `Model` object
  in the object stores that exist (`H.newModel`), and the abstraction of an unallocated store cell is not the
  default object of `MS.St` (sentinels of `attrStr`, field names `left` / `right`); `fromDoc = fromDocFrom {}` (`rfl`);
* hypotheses on heaps that the ties need, each decidable on a concrete heap:
  `HeapSet s` (the attributes that `add_asset` / `add_association` / `add_attacker` always set are set on the live
  objects: the abstraction reads an absent attribute as a sentinel, Python raises `AttributeError`),
  `DefsSchemaOrder L s` (the explicitly assigned defense values of each live asset are listed in the order of
  the class schema — pjs keeps properties in schema order, `MS.AssetObj.defenses` in assignment order; only
  the *order of the keys inside a `defenses` dictionary* depends on it).
-/
namespace MalVerif.PyM
open MalVerif MalVerif.Ser

/-! ### documents -/

def targetsOf : PyTargets → List Key
  | .list l => l
  | .one k => [k]

def assetEntryOf : PyAssetV → AssetEntry
  | .dict d => .full (d.name.getD "") (d.type.getD "") (d.defenses.getD []) d.extras
  | .str t => .shorthand t

/-- `[key for key in assoc_entry.keys() if key != 'extras'][0]` -/
def typeKeyOf (e : PyAssocD) : String := (Ser.typeKey (e.map (·.1))).getD ""

def assocExtrasOf (e : PyAssocD) : Option String :=
  match dictGet e "extras" with
  | some (.json t) => some t
  | _ => none

def assocEntryOfPy (e : PyAssocD) : AssocEntry :=
  match dictGet e (typeKeyOf e) with
  | some (.fields [(lf, l), (rf, r)]) =>
    { cls := typeKeyOf e, lf := lf, left := targetsOf l, rf := rf, right := targetsOf r, extras := assocExtrasOf e }
  | _ => default

def attEntryOfPy (d : PyAttD) : AttackerEntry :=
  { name := d.name.getD "", entry := (d.entry_points.getD []).map (fun p => (p.1, p.2.attack_steps.getD [])) }

/-- the typed document a Python-level document stands for -/
def docOf (d : PyDoc) : ModelDoc :=
  { assets := (d.assets.getD []).map (fun e => (e.1, assetEntryOf e.2)),
    associations := (d.associations.getD []).map assocEntryOfPy,
    attackers := (d.attackers.getD []).map (fun e => (e.1, attEntryOfPy e.2)) }

def assetShape : PyAssetV → Bool
  | .dict d => d.name.isSome && d.type.isSome && ((d.defenses.getD []).map (·.1)).Nodup
  | .str _ => true

def assocShape (e : PyAssocD) : Bool :=
  (e.map (·.1)).Nodup &&
  (match dictGet e (typeKeyOf e) with
   | some (.fields [(lf, _), (rf, _)]) => lf != rf
   | _ => false) &&
  (typeKeyOf e != "extras") && ((e.map (·.1)).filter (fun k => k != "extras")).length == 1 &&
  (match dictGet e "extras" with
   | some (.fields _) => false
   | _ => true)

def attShape (d : PyAttD) : Bool :=
  d.name.isSome && d.entry_points.isSome &&
  ((d.entry_points.getD []).map (·.1)).Nodup && (d.entry_points.getD []).all (fun p => p.2.attack_steps.isSome)

/-- the document has the shape `_from_dict` reads without a `KeyError` / `AttributeError`, and its dictionaries
have pairwise different keys (as every Python dictionary has) -/
def docShape (d : PyDoc) : Bool :=
  (match d.metadata with | some m => m.name.isSome | none => false) &&
  d.assets.isSome && ((d.assets.getD []).map (·.1)).Nodup && (d.assets.getD []).all (fun e => assetShape e.2) &&
  (d.associations.getD []).all assocShape &&
  ((d.attackers.getD []).map (·.1)).Nodup && (d.attackers.getD []).all (fun e => attShape e.2)

/-- the model name a document carries -/
def docName (d : PyDoc) : String := ((d.metadata.bind (·.name)).getD "")

/-! ### the hand-written loader from a given start state -/

def fromDocFrom (L : Lang) (defsOk : Key → Bool) (s0 : MS.St) (d : ModelDoc) : Except MS.Err MS.St := do
  let s1 ← d.assets.foldlM (loadAsset L defsOk) s0
  let s2 ← d.associations.foldlM (loadAssoc L) s1
  d.attackers.foldlM loadAttacker s2

theorem fromDoc_eq_from (L : Lang) (defsOk : Key → Bool) (d : ModelDoc) :
    fromDoc L defsOk d = fromDocFrom L defsOk {} d := rfl

/-- the range check `_from_dict` performs on the defense values of the entry with key `k` (`setattr` on the pjs
object): every value passes `env.floatOk` -/
def defsOkOf (env : SEnv) (d : PyDoc) (k : Key) : Bool :=
  match dictGet (d.assets.getD []) k with
  | some (.dict a) => (a.defenses.getD []).all (fun e => env.floatOk e.2)
  | _ => true

/-! ### hypotheses on heaps -/

/-- the attributes the `add_*` functions always set are set on the live objects -/
structure HeapSet (s : H) : Prop where
  aextras : ∀ a ∈ s.assets, (s.a a).extras.isSome = true
  lextras : ∀ l ∈ s.associations, (s.l l).extras.isSome = true
  lcls : ∀ l ∈ s.associations, (s.l l).cls ≠ "extras"
  tid : ∀ t ∈ s.attackers, (s.t t).id.isSome = true
  tname : ∀ t ∈ s.attackers, (s.t t).name.isSome = true

instance (s : H) : Decidable (HeapSet s) :=
  decidable_of_iff ((∀ a ∈ s.assets, (s.a a).extras.isSome = true) ∧ (∀ l ∈ s.associations, (s.l l).extras.isSome = true) ∧
      (∀ l ∈ s.associations, (s.l l).cls ≠ "extras") ∧
      (∀ t ∈ s.attackers, (s.t t).id.isSome = true) ∧ (∀ t ∈ s.attackers, (s.t t).name.isSome = true))
    ⟨fun ⟨a, b, c, d, e⟩ => ⟨a, b, c, d, e⟩, fun ⟨a, b, c, d, e⟩ => ⟨a, b, c, d, e⟩⟩

/-- the explicitly assigned defense values of every live asset are listed in schema order -/
def DefsSchemaOrder (L : Lang) (s : H) : Prop :=
  ∀ a ∈ s.assets, ((s.a a).defenses.map (·.1)).Sublist ((MS.defensesOf L (s.a a).type).map (·.1))

instance (L : Lang) (s : H) : Decidable (DefsSchemaOrder L s) :=
  inferInstanceAs (Decidable (∀ a ∈ s.assets, _))

/-! ### hypotheses on documents (relative to a language) -/

/-- every defense an asset entry names is a defense of the entry's type (Python stores a value for an unknown
name as an extended property that nothing reads; `MS.addAsset` rejects it) -/
def DefsKnown (L : Lang) (d : PyDoc) : Prop :=
  ∀ e ∈ d.assets.getD [], match e.2 with
    | .dict a => ∀ x ∈ a.defenses.getD [], (MS.defensesOf L (a.type.getD "")).any (fun y => y.1 == x.1) = true
    | .str _ => True

/-- no association entry lists the two fields of its class in the opposite order (Python assigns the fields by
name, in any order; `Ser.loadAssoc` compares the first with the left and the second with the right field) -/
def FieldsNotSwapped (L : Lang) (d : PyDoc) : Prop :=
  ∀ e ∈ (docOf d).associations, ∀ c, (MS.assocClasses L).find? (·.cls = e.cls) = some c → ¬ (e.lf = c.rf ∧ e.rf = c.lf)


/-- every entry point of every attacker entry names the id of an asset entry of the document.  (Python does not
check this: `get_asset_by_id` returns `None` and `_from_dict` stores `(None, steps)`; the typed heap cannot hold
that, the translation stops with `PyErr.other` — `PropsGen.C07.dangling_entry_point_finding`.) -/
def EntryPointsListed (d : PyDoc) : Prop :=
  ∀ t ∈ d.attackers.getD [], ∀ p ∈ t.2.entry_points.getD [],
    ∃ e ∈ d.assets.getD [], e.1.toInt?.isSome = true ∧ e.1.toInt? = p.1.toInt?

/-! ### the file layer on Python-level documents (modelled, as `Ser.jsonRT` / `Ser.yamlRT`) -/

/-- what a JSON file gives back: every dictionary key is a string (list elements keep their type) -/
def jsonRTpy (d : PyDoc) : PyDoc :=
  { d with
    assets := d.assets.map (fun l => l.map (fun e => (Key.s e.1.text, e.2))),
    attackers := d.attackers.map (fun l => l.map (fun e => (Key.s e.1.text,
      { e.2 with entry_points := e.2.entry_points.map (fun m => m.map (fun p => (Key.s p.1.text, p.2))) }))) }

def yamlRTpy (d : PyDoc) : PyDoc := d

end MalVerif.PyM
