import MalVerif.Py.TieMSerialFD
/-!
# The first loop of the translated `_from_dict` (asset entries) against `Ser.loadAsset`

`fdAsset_ok` / `fdAsset_err`: one round of the loop over the asset entries (`fdAssetBody`) returns exactly when
`Ser.loadAsset` accepts the entry, and then the abstraction of the heap it returns is the state `loadAsset` gives;
`FDInv` is kept.  The order of the failures differs (`int(asset_id)` is evaluated last by Python, first by the hand
model), so only "returns ↔ returns" is stated, not the class of the exception.
-/
namespace MalVerif.PyM.Tie
open MalVerif MalVerif.PyM MalVerif.PyM.Gen MalVerif.Ser

/-! ### dictionaries with pairwise different keys -/

theorem fdA_dictGet_of_nodup {κ ν : Type} [BEq κ] [LawfulBEq κ] (l : List (κ × ν)) (h : (l.map (·.1)).Nodup)
    (e : κ × ν) (he : e ∈ l) : dictGet l e.1 = some e.2 := by
  induction l with
  | nil => cases he
  | cons a l ih =>
    rw [List.map_cons, List.nodup_cons] at h
    unfold dictGet
    rw [List.find?_cons]
    by_cases hk : (a.1 == e.1) = true
    · rw [hk]
      rcases List.mem_cons.1 he with rfl | hm
      · rfl
      · exact absurd (List.mem_map.2 ⟨e, hm, (eq_of_beq hk).symm⟩) h.1
    · have hk' : (a.1 == e.1) = false := by simpa using hk
      rw [hk']
      rcases List.mem_cons.1 he with rfl | hm
      · exact absurd (beq_self_eq_true _) hk
      · exact ih h.2 hm

theorem fdA_dictGetE_of_nodup {κ ν : Type} [BEq κ] [LawfulBEq κ] (l : List (κ × ν)) (h : (l.map (·.1)).Nodup)
    (e : κ × ν) (he : e ∈ l) : dictGetE l e.1 = .ok e.2 := by
  unfold dictGetE
  rw [fdA_dictGet_of_nodup l h e he]

/-! ### the object under construction -/

theorem fdA_newAssetObj_a (s : H) (o : PyAsset) : (newAssetObj s o).a s.afresh = o := by
  unfold newAssetObj
  simp

theorem fdA_newAssetObj_setA (s : H) (o o' : PyAsset) : (newAssetObj s o).setA s.afresh o' = newAssetObj s o' := by
  unfold newAssetObj H.setA
  simp only [H.mk.injEq, and_true]
  funext x
  by_cases hx : x = s.afresh <;> simp [hx]

/-- the asset dictionary the loop body works on (the shorthand expanded) -/
def fdA_entryD (x : Key × PyAssetV) : PyAssetD :=
  match x.2 with
  | .dict a => a
  | .str t => { type := some t, name := some (t ++ ":" ++ x.1.text) }

/-- the loop body with the join point of the `if` resolved -/
theorem fdAssetBody_eq (env : SEnv) (x : Key × PyAssetV) (s : H) : fdAssetBody env x s =
    (recGetE (fdA_entryD x).type).bind fun ty => (recGetE (fdA_entryD x).name).bind fun nm =>
    (pjsNewAsset env s ty nm).bind fun r =>
    (forIn (((fdA_entryD x).defenses.getD []).map (·.1))
        (match (fdA_entryD x).extras with
         | some ex => r.1.setA r.2 { r.1.a r.2 with extras := some ex }
         | none => r.1)
        (fun k st => (dictGetE ((fdA_entryD x).defenses.getD []) k).bind fun v =>
          (pjsSetDefense env st r.2 k v).bind fun st' => .ok (.yield st'))).bind fun s2 =>
    (keyInt x.1).bind fun i => (model_add_asset s2 env.model r.2 (some i) true).bind fun s3 => .ok (.yield s3) := by
  obtain ⟨k, v⟩ := x
  cases v with
  | str t => rfl
  | dict d =>
    obtain ⟨n, t, df, ex⟩ := d
    cases ex <;> rfl

/-- the inner loop `for defense in defenses: setattr(asset, defense, float(defenses[defense]))` on the object under
construction: it returns iff every value passes the range check, and then the object holds the dictionary -/
theorem fdA_defLoop (env : SEnv) (s0 : H) (ty : String) (defs : List (String × String))
    (body : String → H → Except PyErr (ForInStep H))
    (hbody : ∀ k st, body k st = (dictGetE defs k).bind fun v =>
      (pjsSetDefense env st s0.afresh k v).bind fun st' => .ok (.yield st'))
    (l : List (String × String)) (hget : ∀ e ∈ l, dictGetE defs e.1 = .ok e.2)
    (hkn : ∀ e ∈ l, (MS.defensesOf env.lang ty).any (fun y => y.1 == e.1) = true)
    (hnd : (l.map (·.1)).Nodup) :
    ∀ (o : PyAsset), o.type = ty → (∀ k ∈ l.map (·.1), k ∉ o.defenses.map (·.1)) →
      forIn (l.map (·.1)) (newAssetObj s0 o) body =
        if l.all (fun e => env.floatOk e.2) = true
        then .ok (newAssetObj s0 { o with defenses := o.defenses ++ l }) else .error .other := by
  induction l with
  | nil =>
    intro o _ _
    simp only [List.map_nil, List.forIn_nil, List.all_nil, if_true, List.append_nil]
    rfl
  | cons e l ih =>
    intro o hty hfr
    rw [List.map_cons, List.nodup_cons] at hnd
    have hset : pjsSetDefense env (newAssetObj s0 o) s0.afresh e.1 e.2 =
        if env.floatOk e.2 = true then .ok (newAssetObj s0 { o with defenses := o.defenses ++ [e] })
        else .error .other := by
      unfold pjsSetDefense
      rw [fdA_newAssetObj_a, hty, hkn e (List.mem_cons_self ..)]
      simp only [Bool.not_true, Bool.false_eq_true, if_false]
      by_cases hf : env.floatOk e.2 = true
      · simp only [hf, Bool.not_true, Bool.false_eq_true, if_false, if_true]
        rw [fdA_newAssetObj_setA, dictSet_new _ _ _ (hfr e.1 (List.mem_cons_self ..))]
        subst hty
        rfl
      · have hf' : env.floatOk e.2 = false := by simpa using hf
        simp only [hf', Bool.not_false, if_true, Bool.false_eq_true, if_false]
    rw [List.map_cons, List.forIn_cons, hbody, hget e (List.mem_cons_self ..), ok_bind, hset, List.all_cons]
    by_cases hf : env.floatOk e.2 = true
    · rw [if_pos hf, ok_bind]
      show forIn (l.map (·.1)) (newAssetObj s0 { o with defenses := o.defenses ++ [e] }) body = _
      rw [ih (fun y hy => hget y (List.mem_cons_of_mem _ hy)) (fun y hy => hkn y (List.mem_cons_of_mem _ hy)) hnd.2
        { o with defenses := o.defenses ++ [e] } hty ?_]
      · simp only [hf, Bool.true_and, List.append_assoc, List.singleton_append]
      · intro k hk hm
        rw [List.map_append, List.mem_append] at hm
        rcases hm with hm | hm
        · exact hfr k (List.mem_cons_of_mem _ hk) hm
        · simp only [List.map_cons, List.map_nil, List.mem_singleton] at hm
          exact hnd.1 (hm ▸ hk)
    · have hf' : env.floatOk e.2 = false := by simpa using hf
      rw [if_neg hf]
      simp only [hf', Bool.false_and, Bool.false_eq_true, if_false]
      rfl

/-! ### what the entry says -/

/-- the facts about one asset entry of a well-shaped document -/
theorem fdA_entry_facts (env : SEnv) (d : PyDoc)
    (hnd : ((d.assets.getD []).map (·.1)).Nodup) (hk : DefsKnown env.lang d)
    (x : Key × PyAssetV) (hx : x ∈ d.assets.getD []) (hsh : assetShape x.2 = true) :
    ∃ ty nm, (fdA_entryD x).type = some ty ∧ (fdA_entryD x).name = some nm ∧
      (((fdA_entryD x).defenses.getD []).map (·.1)).Nodup ∧
      (∀ y ∈ (fdA_entryD x).defenses.getD [], (MS.defensesOf env.lang ty).any (fun z => z.1 == y.1) = true) ∧
      (objOf (x.1, assetEntryOf x.2)).type = ty ∧ (objOf (x.1, assetEntryOf x.2)).name = nm ∧
      (objOf (x.1, assetEntryOf x.2)).defenses = (fdA_entryD x).defenses.getD [] ∧
      (objOf (x.1, assetEntryOf x.2)).extras = (fdA_entryD x).extras.getD "{}" ∧
      entryOk (defsOkOf env d) (x.1, assetEntryOf x.2) =
        ((fdA_entryD x).defenses.getD []).all (fun e => env.floatOk e.2) := by
  have hget := fdA_dictGet_of_nodup _ hnd x hx
  have hkx := hk x hx
  obtain ⟨k, v⟩ := x
  cases v with
  | str t =>
    refine ⟨t, t ++ ":" ++ k.text, rfl, rfl, ?_, ?_, rfl, rfl, rfl, rfl, rfl⟩
    · show (List.map (·.1) ([] : List (String × String))).Nodup
      exact List.nodup_nil
    · intro y hy; cases hy
  | dict a =>
    have hsh' : (a.name.isSome && a.type.isSome && ((a.defenses.getD []).map (·.1)).Nodup) = true := hsh
    simp only [Bool.and_eq_true, decide_eq_true_eq] at hsh'
    obtain ⟨⟨hn, ht⟩, hdn⟩ := hsh'
    obtain ⟨nm, hnm⟩ := Option.isSome_iff_exists.1 hn
    obtain ⟨ty, hty⟩ := Option.isSome_iff_exists.1 ht
    have hty' : a.type.getD "" = ty := by rw [hty]; rfl
    have hnm' : a.name.getD "" = nm := by rw [hnm]; rfl
    refine ⟨ty, nm, hty, hnm, hdn, ?_, hty', hnm', rfl, rfl, ?_⟩
    · have : ∀ y ∈ a.defenses.getD [], (MS.defensesOf env.lang (a.type.getD "")).any (fun z => z.1 == y.1) = true := hkx
      rw [hty'] at this
      exact this
    · show defsOkOf env d k = _
      unfold defsOkOf
      rw [show dictGet (d.assets.getD []) k = some (PyAssetV.dict a) from hget]
      rfl

/-! ### the two sides in closed form -/

/-- the record the pjs object holds when `add_asset` is called -/
def fdA_entryObj (x : Key × PyAssetV) (ty nm : String) : PyAsset :=
  { name := some nm, type := ty, extras := (fdA_entryD x).extras, defenses := (fdA_entryD x).defenses.getD [] }

theorem fdAssetBody_closed (env : SEnv) (x : Key × PyAssetV) (s : H) (ty nm : String)
    (hty : (fdA_entryD x).type = some ty) (hnm : (fdA_entryD x).name = some nm)
    (hdn : (((fdA_entryD x).defenses.getD []).map (·.1)).Nodup)
    (hkn : ∀ y ∈ (fdA_entryD x).defenses.getD [], (MS.defensesOf env.lang ty).any (fun z => z.1 == y.1) = true) :
    fdAssetBody env x s =
      if (env.lang.findAsset ty).isNone = true then .error .lookupError else
      if ((fdA_entryD x).defenses.getD []).all (fun e => env.floatOk e.2) = true then
        (keyInt x.1).bind fun i =>
          (model_add_asset (newAssetObj s (fdA_entryObj x ty nm)) env.model s.afresh (some i) true).bind fun s3 =>
            .ok (.yield s3)
      else .error .other := by
  rw [fdAssetBody_eq, hty, hnm]
  simp only [recGetE, ok_bind]
  unfold pjsNewAsset
  by_cases hf : (env.lang.findAsset ty).isNone = true
  · rw [if_pos hf, if_pos hf]; rfl
  · rw [if_neg hf, if_neg hf, ok_bind]
    have hs1 : (match (fdA_entryD x).extras with
        | some ex => (newAssetObj s { name := some nm, type := ty }).setA s.afresh
            { (newAssetObj s { name := some nm, type := ty }).a s.afresh with extras := some ex }
        | none => newAssetObj s { name := some nm, type := ty }) =
        newAssetObj s { name := some nm, type := ty, extras := (fdA_entryD x).extras } := by
      cases (fdA_entryD x).extras with
      | none => rfl
      | some ex =>
        show (newAssetObj s { name := some nm, type := ty }).setA s.afresh _ = _
        rw [fdA_newAssetObj_setA, fdA_newAssetObj_a]
    show Except.bind (forIn _ (match (fdA_entryD x).extras with
        | some ex => (newAssetObj s { name := some nm, type := ty }).setA s.afresh
            { (newAssetObj s { name := some nm, type := ty }).a s.afresh with extras := some ex }
        | none => newAssetObj s { name := some nm, type := ty }) _) _ = _
    rw [hs1, fdA_defLoop env s ty ((fdA_entryD x).defenses.getD []) _ (fun _ _ => rfl) ((fdA_entryD x).defenses.getD [])
      (fun e he => fdA_dictGetE_of_nodup _ hdn e he) hkn hdn _ rfl (by intro k _ hm; cases hm)]
    by_cases ha : ((fdA_entryD x).defenses.getD []).all (fun e => env.floatOk e.2) = true
    · rw [if_pos ha, if_pos ha, ok_bind]
      rfl
    · rw [if_neg ha, if_neg ha]; rfl

theorem fdA_loadAsset_closed (env : SEnv) (d : PyDoc) (x : Key × PyAssetV) (st : MS.St) (ty nm : String)
    (hkn : ∀ y ∈ (fdA_entryD x).defenses.getD [], (MS.defensesOf env.lang ty).any (fun z => z.1 == y.1) = true)
    (h1 : (objOf (x.1, assetEntryOf x.2)).type = ty) (h2 : (objOf (x.1, assetEntryOf x.2)).name = nm)
    (h3 : (objOf (x.1, assetEntryOf x.2)).defenses = (fdA_entryD x).defenses.getD [])
    (h4 : (objOf (x.1, assetEntryOf x.2)).extras = (fdA_entryD x).extras.getD "{}")
    (h5 : entryOk (defsOkOf env d) (x.1, assetEntryOf x.2) =
        ((fdA_entryD x).defenses.getD []).all (fun e => env.floatOk e.2)) :
    Ser.loadAsset env.lang (defsOkOf env d) st (x.1, assetEntryOf x.2) =
      match x.1.toInt? with
      | none => .error .valueError
      | some i =>
        if (env.lang.findAsset ty).isNone = true then .error .lookupError else
        if ((fdA_entryD x).defenses.getD []).all (fun e => env.floatOk e.2) = true then
          addAssetCore st ty (some nm) ((fdA_entryD x).defenses.getD []) ((fdA_entryD x).extras.getD "{}") (some i) true
        else .error .validation := by
  rw [loadAsset_eq, h1, h2, h3, h4, h5]
  show (match x.1.toInt? with
      | none => Except.error MS.Err.valueError
      | some id => MS.addAsset env.lang st ty (some nm) ((fdA_entryD x).defenses.getD [])
          (((fdA_entryD x).defenses.getD []).all (fun e => env.floatOk e.2)) ((fdA_entryD x).extras.getD "{}") (some id) true) = _
  cases x.1.toInt? with
  | none => rfl
  | some i =>
    show MS.addAsset _ _ _ _ _ _ _ _ _ = if (env.lang.findAsset ty).isNone = true then _ else _
    rw [addAsset_eq_core]
    have hall : ((fdA_entryD x).defenses.getD []).all (fun d => (MS.defensesOf env.lang ty).any (·.1 = d.1)) = true := by
      rw [List.all_eq_true]
      intro y hy
      have := hkn y hy
      rw [List.any_eq_true] at this ⊢
      obtain ⟨z, hz, hzy⟩ := this
      exact ⟨z, hz, by simpa using hzy⟩
    rw [hall]
    by_cases hf : (env.lang.findAsset ty).isNone = true
    · rw [if_pos hf, if_pos hf]
    · rw [if_neg hf, if_neg hf]
      by_cases ha : ((fdA_entryD x).defenses.getD []).all (fun e => env.floatOk e.2) = true
      · rw [if_pos ha, ha]; rfl
      · have ha' : ((fdA_entryD x).defenses.getD []).all (fun e => env.floatOk e.2) = false := by simpa using ha
        rw [if_neg ha, ha']; rfl

/-! ### what a successful `add_asset` on the new object keeps -/

theorem fdA_add_asset_fdinv (env : SEnv) (s s' : H) (o : PyAsset) (i : Int) (hI : FDInv s)
    (hfuel : s.asset_names.length + 1 ≤ env.model.whileFuel)
    (hok : model_add_asset (newAssetObj s o) env.model s.afresh (some i) true = .ok s') :
    HeapSet s' ∧ (∀ u, ∀ r ∈ (s'.t u).entry_points, r < s'.efresh) ∧
      s'.asset_names.length ≤ s.asset_names.length + 1 ∧ s'.name = s.name := by
  have hfresh : s.afresh ∉ s.assets := hI.inv.assets.fresh_not_mem
  have hform := add_asset_ok_form (newAssetObj s o) s' env.model s.afresh (some i) true hfresh hfuel hok
  subst hform
  refine ⟨⟨?_, hI.heapset.lextras, hI.heapset.lcls, hI.heapset.tid, hI.heapset.tname⟩, hI.epF, ?_, rfl⟩
  · intro a ha
    have ha' : a ∈ s.assets ++ [s.afresh] := ha
    by_cases hx : a = s.afresh
    · subst hx
      show ((if s.afresh = s.afresh then _ else _ : PyAsset)).extras.isSome = true
      rw [if_pos rfl]; rfl
    · have hm : a ∈ s.assets := by
        rcases List.mem_append.1 ha' with h | h
        · exact h
        · exact absurd (List.mem_singleton.1 h) hx
      show ((if a = s.afresh then _ else (if a = s.afresh then o else s.a a) : PyAsset)).extras.isSome = true
      rw [if_neg hx, if_neg hx]
      exact hI.heapset.aextras a hm
  · show (pySetAdd s.asset_names _).length ≤ _
    unfold pySetAdd
    split
    · omega
    · rw [List.length_append]; simp

/-! ### the step simulation -/

theorem fdAsset_ok (env : SEnv) (d : PyDoc)
    (hnd : ((d.assets.getD []).map (·.1)).Nodup) (hk : DefsKnown env.lang d)
    (x : Key × PyAssetV) (hx : x ∈ d.assets.getD []) (hsh : assetShape x.2 = true)
    (s : H) (hI : FDInv s) (hfuel : s.asset_names.length + 1 ≤ env.model.whileFuel)
    (r : ForInStep H) (h : fdAssetBody env x s = .ok r) :
    ∃ s', r = .yield s' ∧ FDInv s' ∧ s'.asset_names.length ≤ s.asset_names.length + 1 ∧ s'.name = s.name ∧
      Ser.loadAsset env.lang (defsOkOf env d) (abs s) (x.1, assetEntryOf x.2) = .ok (abs s') := by
  obtain ⟨ty, nm, hty, hnm, hdn, hkn, h1, h2, h3, h4, h5⟩ := fdA_entry_facts env d hnd hk x hx hsh
  have hfresh : s.afresh ∉ s.assets := hI.inv.assets.fresh_not_mem
  rw [fdAssetBody_closed env x s ty nm hty hnm hdn hkn] at h
  have hload := fdA_loadAsset_closed env d x (abs s) ty nm hkn h1 h2 h3 h4 h5
  by_cases hf : (env.lang.findAsset ty).isNone = true
  · rw [if_pos hf] at h; cases h
  rw [if_neg hf] at h
  have ha : ((fdA_entryD x).defenses.getD []).all (fun e => env.floatOk e.2) = true := by
    by_cases ha : ((fdA_entryD x).defenses.getD []).all (fun e => env.floatOk e.2) = true
    · exact ha
    · rw [if_neg ha] at h; cases h
  rw [if_pos ha] at h
  obtain ⟨i, hi, h⟩ := bind_ok h
  obtain ⟨s', hs', h⟩ := bind_ok h
  cases h
  have hki : x.1.toInt? = some i := by
    unfold keyInt at hi
    cases hq : x.1.toInt? with
    | none => rw [hq] at hi; cases hi
    | some j => rw [hq] at hi; cases hi; rfl
  have htie := add_asset_tie s env.model hfresh hfuel (fdA_entryObj x ty nm) (some i) true
  rw [hs', absR_ok] at htie
  have hl : Ser.loadAsset env.lang (defsOkOf env d) (abs s) (x.1, assetEntryOf x.2) = .ok (abs s') := by
    rw [hload, hki]
    show (if (env.lang.findAsset ty).isNone = true then _ else _) = _
    rw [if_neg hf, if_pos ha]
    exact htie.symm
  have hinv : MS.Inv (abs s') := by
    have hl' := hl
    rw [loadAsset_eq] at hl'
    show MS.Inv (abs s')
    have hki' : (x.1, assetEntryOf x.2).1.toInt? = some i := hki
    rw [hki'] at hl'
    exact MS.addAsset_inv' hI.inv hl'
  obtain ⟨hhs, hep, hlen, hname⟩ := fdA_add_asset_fdinv env s s' (fdA_entryObj x ty nm) i hI hfuel hs'
  exact ⟨s', rfl, ⟨hinv, hhs, hep⟩, hlen, hname, hl⟩

theorem fdAsset_err (env : SEnv) (d : PyDoc)
    (hnd : ((d.assets.getD []).map (·.1)).Nodup) (hk : DefsKnown env.lang d)
    (x : Key × PyAssetV) (hx : x ∈ d.assets.getD []) (hsh : assetShape x.2 = true)
    (s : H) (hI : FDInv s) (hfuel : s.asset_names.length + 1 ≤ env.model.whileFuel)
    (e : PyErr) (h : fdAssetBody env x s = .error e) :
    ∃ e', Ser.loadAsset env.lang (defsOkOf env d) (abs s) (x.1, assetEntryOf x.2) = .error e' := by
  obtain ⟨ty, nm, hty, hnm, hdn, hkn, h1, h2, h3, h4, h5⟩ := fdA_entry_facts env d hnd hk x hx hsh
  have hfresh : s.afresh ∉ s.assets := hI.inv.assets.fresh_not_mem
  rw [fdAssetBody_closed env x s ty nm hty hnm hdn hkn] at h
  rw [fdA_loadAsset_closed env d x (abs s) ty nm hkn h1 h2 h3 h4 h5]
  cases hq : x.1.toInt? with
  | none => exact ⟨_, rfl⟩
  | some i =>
    show ∃ e', (if (env.lang.findAsset ty).isNone = true then _ else _) = Except.error e'
    by_cases hf : (env.lang.findAsset ty).isNone = true
    · rw [if_pos hf]; exact ⟨_, rfl⟩
    rw [if_neg hf] at h ⊢
    by_cases ha : ¬ ((fdA_entryD x).defenses.getD []).all (fun e => env.floatOk e.2) = true
    · rw [if_neg ha]; exact ⟨_, rfl⟩
    have ha := Classical.not_not.1 ha
    rw [if_pos ha] at h ⊢
    have hki : keyInt x.1 = .ok i := by unfold keyInt; rw [hq]
    rw [hki, ok_bind] at h
    have htie := add_asset_tie s env.model hfresh hfuel (fdA_entryObj x ty nm) (some i) true
    cases hm : model_add_asset (newAssetObj s (fdA_entryObj x ty nm)) env.model s.afresh (some i) true with
    | ok s3 => rw [hm] at h; cases h
    | error e2 =>
      rw [hm, absR_error] at htie
      exact ⟨_, htie.symm⟩

end MalVerif.PyM.Tie
