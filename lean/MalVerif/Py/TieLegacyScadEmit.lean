import MalVerif.Py.TieLegacyScad
import MalVerif.Py.TieMSerialHand
/-!
# The securiCAD agreement lemmas of the hand model from an arbitrary *empty* start state

`Proofs/LegacyLemmas.lean` proves `loadScadObjects_emit` / `loadScad_emit` for `Legacy.loadScad`, which starts its folds in
`({} : MS.St)`.  The translated loader is tied to `loadScadFrom … (abs (emptyModel path))` (`TieLegacyScad.lean`), whose
start state differs from `{}` in never-allocated store cells.  The lemmas of `LegacyLemmas` / `SerialLemmas` are general
in the start state; here the two final theorems are proved again from any state without live objects
(`EmptyModel t0`, `TieMSerialHand.lean`: all lists empty, store cells and allocation counters arbitrary).
-/
namespace MalVerif.PyLeg.Tie
open MalVerif MalVerif.PyM MalVerif.PyM.Tie MalVerif.PyLeg MalVerif.Legacy MalVerif.MS MalVerif.Ser

/-- `loadScadObjects_emit` from any empty start state -/
theorem loadScadObjects_emit_from (L : Lang) (defsOk : Int → Bool) (t0 : St) (h0 : EmptyModel t0) (s : St) (h : Inv s)
    (hv : Valid L s) (ha : ScadAssetsOk L defsOk s) :
    ∃ s1, (emitScad L s).objects.foldlM (loadScadObject L defsOk) t0 = .ok s1 ∧ Inv s1 ∧
      s1.assets.map s1.aobj = s.assets.map (fun a => scadObj L (s.aobj a)) ∧
      s1.attackers.map s1.tobj = s.attackers.map (fun t => scadAtt (s.tobj t)) ∧ s1.associations = [] := by
  obtain ⟨s1, h1, hi1, hobjs, hl1, ht1, _, htobj⟩ := loadAssets_ok L (fun k => defsOk (k.toInt?.getD 0))
    (s.assets.map (fun a => scadEntry L (s.aobj a))) t0 h0.inv
    (by intro e he; obtain ⟨a, _, rfl⟩ := List.mem_map.1 he; rfl)
    (by intro e he; obtain ⟨a, ham, rfl⟩ := List.mem_map.1 he; exact ha.defs_ok a ham)
    (by intro e he; obtain ⟨a, ham, rfl⟩ := List.mem_map.1 he; exact (hv.assets a ham).known)
    (by
      intro e he; obtain ⟨a, ham, rfl⟩ := List.mem_map.1 he
      intro d hdm
      exact (hv.assets a ham).defenses d (List.mem_filter.1 hdm).1)
    (by rw [List.map_map]; exact asset_ids_nodup h)
    (fun _ _ hm => by rw [h0.assetIds] at hm; exact absurd hm List.not_mem_nil)
    (by rw [List.map_map]; exact asset_names_nodup h)
    (fun _ _ hm => by rw [h0.assetNames] at hm; exact absurd hm List.not_mem_nil)
  rw [h0.assets, List.map_nil, List.nil_append] at hobjs
  rw [h0.associations] at hl1
  rw [h0.attackers] at ht1
  obtain ⟨s2, h2, hi2, e3, e4, e5, _, e7⟩ := loadScadAttackers L defsOk (s.attackers.map (fun t => scadAttObj (s.tobj t)))
    (by intro o ho; obtain ⟨t, _, rfl⟩ := List.mem_map.1 ho; rfl) s1 hi1
  refine ⟨s2, ?_, hi2, ?_, ?_, ?_⟩
  · rw [emitScad_objects, List.foldlM_append, foldlM_map',
      foldlM_congr_mem _ (fun s1 a => loadAsset L (fun k => defsOk (k.toInt?.getD 0)) s1 (scadEntry L (s.aobj a))) s.assets
        (fun a ham s1 => loadScadObject_asset L defsOk s1 (s.aobj a) (ha.not_attacker a ham) (ha.def_names a ham)),
      ← foldlM_map' (loadAsset L (fun k => defsOk (k.toInt?.getD 0))) (fun a => scadEntry L (s.aobj a)), h1]
    exact h2
  · rw [e3, e4, hobjs, List.map_map]; rfl
  · rw [e7, ht1, List.map_map]; rfl
  · rw [e5, hl1]

/-- `loadScad_emit` from any empty start state: the archive written for `s` loads, to a coherent model with the assets
of `s` (non-default defense values, no extras), the pairwise expansion of its links, attackers named `Attacker:<id>` and
the same entry points -/
theorem loadScad_emit_from (L : Lang) (nodes : List AssocDecl) (defsOk : Int → Bool) (t0 : St) (h0 : EmptyModel t0)
    (s : St) (h : Inv s) (hv : Valid L s)
    (ha : ScadAssetsOk L defsOk s) (hr : PairsResolve L nodes s) (hfs : NoFirstSteps s) (hdot : StepsNoDot s) :
    ∃ s', loadScadFrom L nodes defsOk t0 (emitScad L s) = .ok s' ∧ Inv s' ∧
      s'.assets.map (assetFileView L s') = s.assets.map (fun a => objFileView L (scadObj L (s.aobj a))) ∧
      s'.assets.map (assetView L s') = s.assets.map (fun a => objView L (scadObj L (s.aobj a))) ∧
      s'.associations.map (assocView s') = (pairsOf s).map Pair.view ∧
      s'.attackers.map (fun t => ((s'.tobj t).id, (s'.tobj t).name)) =
        s.attackers.map (fun t => ((s.tobj t).id, "Attacker:" ++ toString (s.tobj t).id)) ∧
      ∀ tid aid st, EntryRel s' tid aid st ↔ EntryRel s tid aid st := by
  obtain ⟨s1, h1, hi1, hobjs, hatts, hl1⟩ := loadScadObjects_emit_from L defsOk t0 h0 s h hv ha
  have hsame : SameIdType s s1 := by
    intro a ham
    have : scadObj L (s.aobj a) ∈ s1.assets.map s1.aobj := hobjs ▸ List.mem_map.2 ⟨a, ham, rfl⟩
    obtain ⟨a1, ha1, e⟩ := List.mem_map.1 this
    exact ⟨a1, ha1, by rw [e]; rfl, by rw [e]; rfl⟩
  obtain ⟨s2, h2, hi2, hf2, hlv2, hatt2, htobj2⟩ := loadScadLinks L nodes s s1 h hr hfs hsame (pairKeys_nodup h hv)
    (pairsOf s) [] s1 rfl hi1 (AFrame.refl s1) (by rw [hl1]; rfl) rfl rfl
  have hatt_mem : ∀ t2 ∈ s2.attackers, ∃ t ∈ s.attackers, s2.tobj t2 = scadAtt (s.tobj t) := by
    intro t2 ht2
    rw [hatt2] at ht2
    have : s1.tobj t2 ∈ s.attackers.map (fun t => scadAtt (s.tobj t)) := hatts ▸ List.mem_map.2 ⟨t2, ht2, rfl⟩
    obtain ⟨t, ht, e⟩ := List.mem_map.1 this
    exact ⟨t, ht, by rw [htobj2, e]⟩
  have hs2 := hsame.of_aframe hf2
  obtain ⟨s3, h3, hi3, hf3, hl3, hlo3, hatt3, hid3, hrel3⟩ := loadScadEntries L nodes (entryTriples s) s2 hi2 (by
    intro x hx
    obtain ⟨tid, aid, st⟩ := x
    obtain ⟨t, ht, e1, ep, hep, e2, hst⟩ := (mem_entryTriples s tid aid st).1 hx
    refine ⟨?_, ?_, hdot t ht ep hep st hst⟩
    · have : scadAtt (s.tobj t) ∈ s1.attackers.map s1.tobj := hatts ▸ List.mem_map.2 ⟨t, ht, rfl⟩
      obtain ⟨t1, ht1, e⟩ := List.mem_map.1 this
      exact ⟨t1, by rw [hatt2]; exact ht1, by rw [htobj2, e]; exact e1⟩
    · obtain ⟨a2, ha2, e, _⟩ := hs2 ep.1 (h.att.entry_live t ht ep hep)
      exact ⟨a2, ha2, e.trans e2⟩)
  refine ⟨s3, ?_, hi3, ?_, ?_, ?_, ?_, ?_⟩
  · unfold loadScadFrom
    rw [h1, emitScad_associations]
    show List.foldlM _ s1 _ = _
    rw [List.foldlM_append, h2]
    exact h3
  · rw [(hf2.trans hf3).assetFileViews L]
    have : s1.assets.map (assetFileView L s1) = (s1.assets.map s1.aobj).map (objFileView L) := by
      rw [List.map_map]; rfl
    rw [this, hobjs, List.map_map]; rfl
  · rw [(hf2.trans hf3).assetViews L]
    have : s1.assets.map (assetView L s1) = (s1.assets.map s1.aobj).map (objView L) := by
      rw [List.map_map]; rfl
    rw [this, hobjs, List.map_map]; rfl
  · rw [← hlv2, hl3]
    apply List.map_congr_left
    intro l _
    exact AFrame.assocView hf3 l (by rw [hlo3])
  · rw [hatt3, hatt2]
    have e1 : s1.attackers.map (fun t => ((s3.tobj t).id, (s3.tobj t).name)) =
        (s1.attackers.map s1.tobj).map (fun o => (o.id, o.name)) := by
      rw [List.map_map]
      apply List.map_congr_left
      intro t _
      show ((s3.tobj t).id, (s3.tobj t).name) = ((s1.tobj t).id, (s1.tobj t).name)
      rw [(hid3 t).1, (hid3 t).2, htobj2]
    rw [e1, hatts, List.map_map]; rfl
  · intro tid aid st
    rw [hrel3, mem_entryTriples]
    constructor
    · rintro (⟨t2, ht2, _, ep, hep, _⟩ | h)
      · obtain ⟨t, _, e⟩ := hatt_mem t2 ht2
        rw [e] at hep; exact absurd hep List.not_mem_nil
      · exact h
    · exact Or.inr

end MalVerif.PyLeg.Tie
