import MalVerif.Py.TieMSerialFD
/-!
# The second loop of the translated `_from_dict` (association entries) against `Ser.loadAssoc`

`fdAssocBody_eq` puts the loop body (for an entry of the shape `assocShape`) into a chain of `Except.bind`s:
class constructor (`pjsNewAssoc`), one `fieldStep` per field (resolve the ids, `pjsSetField`),
`model_add_association`, `extrasStep`.  `fdAssoc_sim` walks through that chain and through `Ser.loadAssoc` at the
same time: a normal return gives a normal return with `abs` of the new heap, an exception gives a rejection.
`fdAssoc_ok` / `fdAssoc_err` are its two halves.

The only place where the two loaders differ on entries of the right shape is an entry that lists the two fields
of its class in the opposite order (`NotSwapped` excludes it): Python assigns by field name and succeeds, the
reference loader compares the first name with the left and the second with the right field and rejects.
-/
namespace MalVerif.PyM.Tie
open MalVerif MalVerif.PyM MalVerif.PyM.Gen MalVerif.Ser

/-- the entry does not list the two fields of its class in the opposite order -/
def NotSwapped (L : Lang) (e : AssocEntry) : Prop :=
  ∀ c, (MS.assocClasses L).find? (·.cls = e.cls) = some c → ¬ (e.lf = c.rf ∧ e.rf = c.lf)

theorem notSwapped_of_fieldsNotSwapped (L : Lang) (d : PyDoc) (h : FieldsNotSwapped L d) :
    ∀ e ∈ (docOf d).associations, NotSwapped L e := h

/-! ### the loop body in normal form -/

/-- ids → optional references, as the loop over the fields computes them -/
def resolveH (env : SEnv) (s : H) (ks : List Key) : Except PyErr (List (Option ARef)) :=
  ks.mapM (fun id_ => do return (model_get_asset_by_id s env.model (← keyInt id_)))

/-- one round of the loop over the fields -/
def fieldStep (env : SEnv) (l : LRef) (s : H) (ft : String × PyTargets) : Except PyErr H :=
  (resolveH env s (targetsOf ft.2)).bind (fun ms => pjsSetField env s l ft.1 ms)

/-- the optional assignment of `extras` -/
def extrasStep (x : PyAssocD) (l : LRef) (s : H) : Except PyErr H :=
  if dictHas x "extras" then
    (dictGetE x "extras").bind fun v => (assocJsonOf v).bind fun t =>
      .ok (s.setL l { s.l l with extras := some t })
  else .ok s

theorem ex_bind_assoc {ε α β γ : Type} (x : Except ε α) (f : α → Except ε β) (g : β → Except ε γ) :
    (x.bind f).bind g = x.bind (fun a => (f a).bind g) := by
  cases x <;> rfl

theorem ex_bind_ite {ε α β : Type} (c : Prop) [Decidable c] (x y : Except ε α) (g : α → Except ε β) :
    (if c then x else y).bind g = if c then x.bind g else y.bind g := by
  split <;> rfl

theorem fdAssocBody_eq (env : SEnv) (x : PyAssocD) (s : H) (lf rf : String) (l r : PyTargets)
    (hidx : pyIndex0 ((((((x).map (·.1))).filter (fun key => !(key == "extras")))).map (fun key => key)) =
      .ok (typeKeyOf x))
    (hk : dictGet x (typeKeyOf x) = some (.fields [(lf, l), (rf, r)])) :
    fdAssocBody env x s = (pjsNewAssoc env s (typeKeyOf x)).bind fun r2 =>
      (fieldStep env r2.2 r2.1 (lf, l)).bind fun s2 => (fieldStep env r2.2 s2 (rf, r)).bind fun s3 =>
      (model_add_association s3 env.model r2.2).bind fun s4 =>
      (extrasStep x r2.2 s4).bind fun s5 => .ok (ForInStep.yield s5) := by
  have hg : dictGetE x (typeKeyOf x) = .ok (.fields [(lf, l), (rf, r)]) := by
    unfold dictGetE; rw [hk]
  unfold fdAssocBody
  simp only [bind, pure, Except.pure, hidx, ok_bind, hg, assocFieldsOf, List.forIn_cons, List.forIn_nil]
  cases l <;> cases r <;>
    simp only [fieldStep, resolveH, extrasStep, targetsOf, bind, pure, Except.pure, ex_bind_assoc, ok_bind, ex_bind_ite]

/-! ### the shape of an entry -/

theorem assocShape_spec (x : PyAssocD) (h : assocShape x = true) :
    ∃ lf l rf r, dictGet x (typeKeyOf x) = some (.fields [(lf, l), (rf, r)]) ∧ lf ≠ rf ∧ typeKeyOf x ≠ "extras" ∧
      pyIndex0 ((((((x).map (·.1))).filter (fun key => !(key == "extras")))).map (fun key => key)) =
        .ok (typeKeyOf x) ∧
      (∀ d, dictGet x "extras" ≠ some (.fields d)) := by
  unfold assocShape at h
  simp only [Bool.and_eq_true] at h
  obtain ⟨⟨⟨⟨_, h2⟩, h3⟩, h4⟩, h5⟩ := h
  split at h2
  next lf l rf r hk =>
    refine ⟨lf, l, rf, r, hk, by simpa using h2, by simpa using h3, ?_, ?_⟩
    · unfold typeKeyOf Ser.typeKey
      have h4' : (List.filter (fun k => k != "extras") (List.map (fun x => x.fst) x)).length = 1 := by
        simpa using h4
      show pyIndex0 (List.map (fun key => key) (List.filter (fun k => k != "extras") (List.map (fun x => x.fst) x))) = _
      generalize List.filter (fun k => k != "extras") (List.map (fun x => x.fst) x) = K at h4' ⊢
      match K, h4' with
      | [k], _ => rfl
    · intro d hd
      rw [hd] at h5
      cases h5
  next => cases h2

theorem dictHas_eq {ν : Type} (x : List (String × ν)) (k : String) : dictHas x k = (dictGet x k).isSome := by
  unfold dictHas dictGet
  induction x with
  | nil => rfl
  | cons a t ih =>
    simp only [List.any_cons, List.find?_cons]
    cases a.1 == k
    · simpa using ih
    · rfl

theorem extrasStep_eq (x : PyAssocD) (hex : ∀ d, dictGet x "extras" ≠ some (.fields d)) (l : LRef) (s : H) :
    extrasStep x l s = .ok (match assocExtrasOf x with
      | some t => s.setL l { s.l l with extras := some t }
      | none => s) := by
  unfold extrasStep assocExtrasOf dictGetE
  rw [dictHas_eq]
  cases hg : dictGet x "extras" with
  | none => rfl
  | some v =>
    cases v with
    | fields d => exact absurd hg (hex d)
    | json t => rfl

/-! ### resolving ids -/

theorem mapM_spec {α : Type} (g : α → Except PyErr (Option Nat)) (h : α → Option Nat)
    (hgh : ∀ k, match g k with | .error _ => h k = none | .ok v => v = h k) (ks : List α) :
    match ks.mapM g with
    | .error _ => ks.mapM h = none
    | .ok ms => ms.mapM id = ks.mapM h := by
  induction ks with
  | nil => rfl
  | cons k ks ih =>
    rw [List.mapM_cons, List.mapM_cons]
    have h1 := hgh k
    revert h1 ih
    cases g k with
    | error e => intro _ h1; show _ = none; rw [h1]; rfl
    | ok v =>
      cases List.mapM g ks with
      | error e =>
        intro ih _
        show _ = none
        rw [ih]
        cases h k <;> rfl
      | ok ms =>
        intro ih h1
        show List.mapM id (v :: ms) = _
        rw [List.mapM_cons, ih, h1]
        rfl

theorem resolveH_spec (env : SEnv) (s : H) (ks : List Key) :
    match resolveH env s ks with
    | .error _ => resolveIds (abs s) ks = none
    | .ok ms => ms.mapM id = resolveIds (abs s) ks := by
  unfold resolveH resolveIds
  apply mapM_spec
  intro k
  unfold keyInt
  cases k.toInt? with
  | none => rfl
  | some i => exact get_asset_by_id_tie s env.model i

theorem mapM_id_map_some (ms : List Nat) : (ms.map some).mapM id = some ms := by
  induction ms with
  | nil => rfl
  | cons a ms ih => rw [List.map_cons, List.mapM_cons, ih]; rfl

/-- `pjsSetField` looks at the members only through `mapM id` -/
theorem pjsSetField_congr (env : SEnv) (s : H) (l : LRef) (f : String) (m m' : List (Option ARef))
    (h : m.mapM id = m'.mapM id) : pjsSetField env s l f m = pjsSetField env s l f m' := by
  unfold pjsSetField
  rw [h]

theorem fieldStep_none (env : SEnv) (s0 s : H) (hs : ∀ ks, resolveIds (abs s) ks = resolveIds (abs s0) ks) (l : LRef) (f : String) (t : PyTargets)
    (h : resolveIds (abs s0) (targetsOf t) = none) : ∃ e, fieldStep env l s (f, t) = .error e := by
  unfold fieldStep
  have h1 := resolveH_spec env s (targetsOf t)
  rw [hs] at h1
  revert h1
  cases resolveH env s (targetsOf t) with
  | error e => intro _; exact ⟨e, rfl⟩
  | ok ms =>
    intro h1
    have h2 : ms.mapM id = none := h1.trans h
    show ∃ e, pjsSetField env s l f ms = .error e
    unfold pjsSetField
    rw [h2]
    cases (MS.assocClasses env.lang).find? (fun c => c.cls == (s.l l).cls) with
    | none => exact ⟨_, rfl⟩
    | some c => exact ⟨_, rfl⟩

theorem fieldStep_some (env : SEnv) (s0 s : H) (hs : ∀ ks, resolveIds (abs s) ks = resolveIds (abs s0) ks) (l : LRef) (f : String) (t : PyTargets)
    (ms : List Nat) (h : resolveIds (abs s0) (targetsOf t) = some ms) :
    fieldStep env l s (f, t) = pjsSetField env s l f (ms.map some) := by
  unfold fieldStep
  have h1 := resolveH_spec env s (targetsOf t)
  rw [hs] at h1
  revert h1
  cases resolveH env s (targetsOf t) with
  | error e => intro h1; rw [h] at h1; cases h1
  | ok ms' =>
    intro h1
    show pjsSetField env s l f ms' = _
    apply pjsSetField_congr
    rw [mapM_id_map_some]
    exact h1.trans h

theorem newAssocObj_setL (s : H) (o o' : PyAssoc) : (newAssocObj s o).setL s.lfresh o' = newAssocObj s o' := by
  unfold newAssocObj H.setL
  simp only [H.mk.injEq, and_true, true_and]
  funext x
  by_cases hx : x = s.lfresh <;> simp [hx]

/-- setting a field of the object just allocated -/
theorem setField_new (env : SEnv) (s : H) (o : PyAssoc) (c : MS.AssocClass) (f : String) (ms : List Nat)
    (hc : (MS.assocClasses env.lang).find? (fun c => c.cls == o.cls) = some c) :
    pjsSetField env (newAssocObj s o) s.lfresh f (ms.map some) =
      if f = o.lf then
        if (ms.all (fun a => MS.okMember env.lang c.ltype (s.a a).type) && MS.okCount c.lmax ms.length) = true
        then .ok (newAssocObj s { o with left := ms }) else .error .other
      else if f = o.rf then
        if (ms.all (fun a => MS.okMember env.lang c.rtype (s.a a).type) && MS.okCount c.rmax ms.length) = true
        then .ok (newAssocObj s { o with right := ms }) else .error .other
      else .error .other := by
  unfold pjsSetField
  rw [mapM_id_map_some, newAssocObj_l_self, hc]
  simp only [newAssocObj_setL, beq_iff_eq]
  rfl

/-! ### the reference loader -/

theorem hand_err_left (L : Lang) (st : MS.St) (e : AssocEntry) (h : resolveIds st e.left = none) :
    ∃ e', loadAssoc L st e = .error e' := by
  unfold loadAssoc
  rw [h]
  exact ⟨_, rfl⟩

theorem hand_err_right (L : Lang) (st : MS.St) (e : AssocEntry) (h : resolveIds st e.right = none) :
    ∃ e', loadAssoc L st e = .error e' := by
  unfold loadAssoc
  rw [h]
  cases resolveIds st e.left <;> exact ⟨_, rfl⟩

theorem hand_err_cls (L : Lang) (st : MS.St) (e : AssocEntry)
    (h : (MS.assocClasses L).find? (·.cls = e.cls) = none) : ∃ e', loadAssoc L st e = .error e' := by
  unfold loadAssoc
  rw [h]
  cases resolveIds st e.left <;> cases resolveIds st e.right <;> exact ⟨_, rfl⟩

theorem hand_err_names (L : Lang) (st : MS.St) (e : AssocEntry) (c : MS.AssocClass)
    (h : (MS.assocClasses L).find? (·.cls = e.cls) = some c) (hn : ¬ (c.lf = e.lf ∧ c.rf = e.rf)) :
    ∃ e', loadAssoc L st e = .error e' := by
  unfold loadAssoc
  rw [h]
  cases resolveIds st e.left <;> cases resolveIds st e.right <;> first | exact ⟨_, rfl⟩ | skip
  dsimp only
  rw [if_neg hn]
  exact ⟨_, rfl⟩

/-- the type / count guards of the two field assignments -/
def fieldGuards (L : Lang) (st : MS.St) (c : MS.AssocClass) (ml mr : List Nat) : Bool :=
  ml.all (fun a => MS.okMember L c.ltype (st.aobj a).type) && MS.okCount c.lmax ml.length &&
  mr.all (fun a => MS.okMember L c.rtype (st.aobj a).type) && MS.okCount c.rmax mr.length

theorem hand_eq (L : Lang) (st : MS.St) (e : AssocEntry) (ml mr : List Nat) (c : MS.AssocClass)
    (hl : resolveIds st e.left = some ml) (hr : resolveIds st e.right = some mr)
    (hc : (MS.assocClasses L).find? (·.cls = e.cls) = some c) (hlf : c.lf = e.lf) (hrf : c.rf = e.rf) :
    loadAssoc L st e =
      if !(fieldGuards L st c ml mr) then .error .validation else
      match addAssocCore st { cls := e.cls, lf := c.lf, rf := c.rf, left := ml, right := mr } with
      | .error er => .error er
      | .ok s' => .ok (withExtras s' st.lfresh e.extras) := by
  rw [loadAssoc_eq L st e ml mr c hl hr hc hlf hrf, addAssociation_eq_core, hc]
  unfold fieldGuards
  dsimp only
  generalize (!(((ml.all fun a => MS.okMember L c.ltype (st.aobj a).type) && MS.okCount c.lmax ml.length &&
              mr.all fun a => MS.okMember L c.rtype (st.aobj a).type) && MS.okCount c.rmax mr.length)) = b
  cases b <;> rfl

/-! ### the heap after `add_association` -/

theorem addFin_l (s : H) (l : LRef) : (addFin s l).l = (s.setL l { s.l l with extras := some "{}" }).l := by
  unfold addFin
  exact appendLoop_l _ _ _

theorem addFin_a_extras (s : H) (l : LRef) (x : ARef) : ((addFin s l).a x).extras = (s.a x).extras := by
  unfold addFin
  show ((appendLoop _ _ _).a x).extras = _
  rw [appendLoop_a]
  rfl

theorem addFin_assets (s : H) (l : LRef) : (addFin s l).assets = s.assets := by
  unfold addFin
  exact appendLoop_proj (·.assets) (fun _ _ _ => rfl) _ _ _

theorem addFin_associations (s : H) (l : LRef) : (addFin s l).associations = s.associations ++ [l] := by
  unfold addFin
  show (appendLoop _ _ _).associations ++ _ = _
  rw [appendLoop_proj (·.associations) (fun _ _ _ => rfl)]
  rfl

theorem addFin_name (s : H) (l : LRef) : (addFin s l).name = s.name := by
  unfold addFin
  exact appendLoop_proj (·.name) (fun _ _ _ => rfl) _ _ _

theorem heapSet_addFin_new (s : H) (o : PyAssoc) (hs : HeapSet s) (hfr : s.lfresh ∉ s.associations)
    (hcls : o.cls ≠ "extras") : HeapSet (addFin (newAssocObj s o) s.lfresh) := by
  have hT := TFrame_addFin (newAssocObj s o) s.lfresh
  have hlold : ∀ l ∈ s.associations, (addFin (newAssocObj s o) s.lfresh).l l = s.l l := by
    intro l hl
    have hne : l ≠ s.lfresh := fun e => hfr (e ▸ hl)
    rw [addFin_l]
    show (if l = s.lfresh then _ else if l = s.lfresh then o else s.l l) = _
    rw [if_neg hne, if_neg hne]
  have hlnew : (addFin (newAssocObj s o) s.lfresh).l s.lfresh = { o with extras := some "{}" } := by
    rw [addFin_l, aa_setL_l_self, newAssocObj_l_self]
  have hmem : ∀ l, l ∈ (addFin (newAssocObj s o) s.lfresh).associations → l ∈ s.associations ∨ l = s.lfresh := by
    intro l hl
    rw [addFin_associations] at hl
    rcases List.mem_append.1 hl with h | h
    · exact Or.inl h
    · exact Or.inr (by simpa using h)
  refine ⟨?_, ?_, ?_, ?_, ?_⟩
  · intro a ha
    rw [addFin_assets] at ha
    rw [addFin_a_extras]
    exact hs.aextras a ha
  · intro l hl
    rcases hmem l hl with h | h
    · rw [hlold l h]; exact hs.lextras l h
    · rw [h, hlnew]; rfl
  · intro l hl
    rcases hmem l hl with h | h
    · rw [hlold l h]; exact hs.lcls l h
    · rw [h, hlnew]; exact hcls
  · intro t ht
    rw [hT.attackers] at ht
    rw [hT.t]
    exact hs.tid t ht
  · intro t ht
    rw [hT.attackers] at ht
    rw [hT.t]
    exact hs.tname t ht

theorem heapSet_setL_extras (s : H) (l : LRef) (t : String) (hs : HeapSet s) :
    HeapSet (s.setL l { s.l l with extras := some t }) := by
  refine ⟨hs.aextras, ?_, ?_, hs.tid, hs.tname⟩
  · intro l' hl'
    show (if l' = l then _ else s.l l').extras.isSome = true
    by_cases h : l' = l
    · rw [if_pos h]; rfl
    · rw [if_neg h]; exact hs.lextras l' hl'
  · intro l' hl'
    show (if l' = l then _ else s.l l').cls ≠ "extras"
    by_cases h : l' = l
    · rw [if_pos h]; subst h; exact hs.lcls l' hl'
    · rw [if_neg h]; exact hs.lcls l' hl'

/-! ### the simulation -/

theorem fieldGuards_eq (L : Lang) (st : MS.St) (c : MS.AssocClass) (ml mr : List Nat) :
    fieldGuards L st c ml mr =
      ((ml.all (fun a => MS.okMember L c.ltype (st.aobj a).type) && MS.okCount c.lmax ml.length) &&
       (mr.all (fun a => MS.okMember L c.rtype (st.aobj a).type) && MS.okCount c.rmax mr.length)) := by
  unfold fieldGuards
  rw [Bool.and_assoc (ml.all (fun a => MS.okMember L c.ltype (st.aobj a).type) && MS.okCount c.lmax ml.length)]

theorem hand_err_guards (L : Lang) (st : MS.St) (e : AssocEntry) (ml mr : List Nat) (c : MS.AssocClass)
    (hl : resolveIds st e.left = some ml) (hr : resolveIds st e.right = some mr)
    (hc : (MS.assocClasses L).find? (·.cls = e.cls) = some c) (hlf : c.lf = e.lf) (hrf : c.rf = e.rf)
    (hg : fieldGuards L st c ml mr = false) : ∃ e', loadAssoc L st e = .error e' := by
  rw [hand_eq L st e ml mr c hl hr hc hlf hrf, hg]
  exact ⟨_, rfl⟩

theorem hand_err_guardL (L : Lang) (st : MS.St) (e : AssocEntry) (ml : List Nat) (c : MS.AssocClass)
    (hl : resolveIds st e.left = some ml)
    (hc : (MS.assocClasses L).find? (·.cls = e.cls) = some c)
    (hg : ¬ (ml.all (fun a => MS.okMember L c.ltype (st.aobj a).type) && MS.okCount c.lmax ml.length) = true) :
    ∃ e', loadAssoc L st e = .error e' := by
  cases hr : resolveIds st e.right with
  | none => exact hand_err_right L st e hr
  | some mr =>
    by_cases hn : c.lf = e.lf ∧ c.rf = e.rf
    · refine hand_err_guards L st e ml mr c hl hr hc hn.1 hn.2 ?_
      rw [fieldGuards_eq]
      rw [Bool.not_eq_true] at hg
      rw [hg]
      rfl
    · exact hand_err_names L st e c hc hn

theorem tail_sim (env : SEnv) (hE : EqId env.model) (x : PyAssocD) (hkey : typeKeyOf x ≠ "extras")
    (hex : ∀ d, dictGet x "extras" ≠ some (.fields d)) (s : H) (hI : FDInv s) (c : MS.AssocClass)
    (hc : (MS.assocClasses env.lang).find? (·.cls = typeKeyOf x) = some c) (hd : c.lf ≠ c.rf) (ml mr : List Nat)
    (hg : fieldGuards env.lang (abs s) c ml mr = true) :
    match ((model_add_association (newAssocObj s 
      { cls := typeKeyOf x, lf := c.lf, rf := c.rf, left := ml, right := mr, distinct := hd }) env.model s.lfresh).bind fun s4 =>
        (extrasStep x s.lfresh s4).bind fun s5 => Except.ok (ForInStep.yield s5)) with
    | .ok r => ∃ s', r = .yield s' ∧ FDInv s' ∧ s'.name = s.name ∧
        (match addAssocCore (abs s) { cls := typeKeyOf x, lf := c.lf, rf := c.rf, left := ml, right := mr } with
          | .error er => .error er
          | .ok s'' => .ok (withExtras s'' (abs s).lfresh (assocExtrasOf x)) : Except MS.Err MS.St) = .ok (abs s')
    | .error _ => ∃ e',
        (match addAssocCore (abs s) { cls := typeKeyOf x, lf := c.lf, rf := c.rf, left := ml, right := mr } with
          | .error er => .error er
          | .ok s'' => .ok (withExtras s'' (abs s).lfresh (assocExtrasOf x)) : Except MS.Err MS.St) = .error e' := by
  have htie := add_association_tie hE s hI.inv 
      { cls := typeKeyOf x, lf := c.lf, rf := c.rf, left := ml, right := mr, distinct := hd }
  have hadd : MS.addAssociation env.lang (abs s) (typeKeyOf x) ml mr =
      addAssocCore (abs s) { cls := typeKeyOf x, lf := c.lf, rf := c.rf, left := ml, right := mr } := by
    rw [addAssociation_eq_core, hc]
    dsimp only
    unfold fieldGuards at hg
    rw [hg]
    rfl
  cases hm : model_add_association (newAssocObj s 
      { cls := typeKeyOf x, lf := c.lf, rf := c.rf, left := ml, right := mr, distinct := hd }) env.model s.lfresh with
  | error e =>
    rw [hm] at htie
    rw [← htie]
    exact ⟨_, rfl⟩
  | ok s4 =>
    rw [hm] at htie
    rw [← htie, ok_bind, extrasStep_eq x hex, ok_bind]
    have hs4 := (add_association_ok hm).2
    have hinv4 : MS.Inv (abs s4) := MS.addAssociation_inv' hI.inv (hadd.trans htie.symm)
    have hT := add_association_tframe _ _ _ hm
    have hhs4 : HeapSet s4 := by
      rw [hs4]; exact heapSet_addFin_new s _ hI.heapset hI.inv.links.fresh_not_mem hkey
    have hname4 : s4.name = s.name := by rw [hs4, addFin_name]; rfl
    have hep4 : ∀ u, ∀ r ∈ (s4.t u).entry_points, r < s4.efresh := by
      intro u r hr
      rw [hT.t] at hr
      rw [hT.efresh]
      exact hI.epF u r hr
    cases hx : assocExtrasOf x with
    | none => exact ⟨s4, rfl, ⟨hinv4, hhs4, hep4⟩, hname4, rfl⟩
    | some t =>
      have habs : abs (s4.setL s.lfresh { s4.l s.lfresh with extras := some t }) =
          MS.updL (abs s4) s.lfresh (fun o => { o with extras := t }) := abs_setL_updL _ _ _ _ rfl
      refine ⟨_, rfl, ⟨?_, heapSet_setL_extras _ _ _ hhs4, hep4⟩, hname4, ?_⟩
      · rw [habs]; exact updL_extras_inv _ _ _ hinv4
      · show Except.ok (MS.updL (abs s4) s.lfresh (fun o => { o with extras := t })) = _
        rw [habs]

theorem fdAssoc_sim (env : SEnv) (hE : EqId env.model) (hL : FieldsDistinct env.lang)
    (x : PyAssocD) (hsh : assocShape x = true) (hsw : NotSwapped env.lang (assocEntryOfPy x))
    (s : H) (hI : FDInv s) :
    match fdAssocBody env x s with
    | .ok r => ∃ s', r = .yield s' ∧ FDInv s' ∧ s'.name = s.name ∧
        Ser.loadAssoc env.lang (abs s) (assocEntryOfPy x) = .ok (abs s')
    | .error _ => ∃ e', Ser.loadAssoc env.lang (abs s) (assocEntryOfPy x) = .error e' := by
  obtain ⟨lf, l, rf, r, hk, hne, hkey, hidx, hex⟩ := assocShape_spec x hsh
  have hent : assocEntryOfPy x =
      { cls := typeKeyOf x, lf := lf, left := targetsOf l, rf := rf, right := targetsOf r, extras := assocExtrasOf x } := by
    unfold assocEntryOfPy; rw [hk]
  rw [hent] at hsw ⊢
  rw [fdAssocBody_eq env x s lf rf l r hidx hk]
  cases hc : (MS.assocClasses env.lang).find? (fun c => c.cls == typeKeyOf x) with
  | none =>
    have hnew : pjsNewAssoc env s (typeKeyOf x) = .error .lookupError := by unfold pjsNewAssoc; rw [hc]
    rw [hnew]
    exact hand_err_cls _ _ _ hc
  | some c =>
    have hd : c.lf ≠ c.rf := hL c (List.mem_of_find?_eq_some hc)
    have hnew : pjsNewAssoc env s (typeKeyOf x) =
        .ok (newAssocObj s { cls := typeKeyOf x, lf := c.lf, rf := c.rf, distinct := hd }, s.lfresh) := by
      unfold pjsNewAssoc; rw [hc]; exact dif_pos hd
    rw [hnew, ok_bind]
    dsimp only
    have hsw' := hsw c hc
    cases hl : resolveIds (abs s) (targetsOf l) with
    | none =>
      obtain ⟨e1, he1⟩ := fieldStep_none env s (newAssocObj s
        { cls := typeKeyOf x, lf := c.lf, rf := c.rf, distinct := hd }) (fun _ => rfl) s.lfresh lf l hl
      rw [he1]
      exact hand_err_left _ _ _ hl
    | some ml =>
      rw [fieldStep_some env s (newAssocObj s _) (fun _ => rfl) s.lfresh lf l ml hl, setField_new env s _ c lf ml hc]
      dsimp only
      by_cases h1 : lf = c.lf
      · rw [if_pos h1]
        by_cases g1 : ((ml.all fun a => MS.okMember env.lang c.ltype (s.a a).type) && MS.okCount c.lmax ml.length) = true
        · rw [if_pos g1, ok_bind]
          cases hr : resolveIds (abs s) (targetsOf r) with
          | none =>
            obtain ⟨e1, he1⟩ := fieldStep_none env s (newAssocObj s
              { cls := typeKeyOf x, lf := c.lf, rf := c.rf, left := ml, distinct := hd }) (fun _ => rfl) s.lfresh rf r hr
            rw [he1]
            exact hand_err_right _ _ _ hr
          | some mr =>
            rw [fieldStep_some env s (newAssocObj s _) (fun _ => rfl) s.lfresh rf r mr hr,
              setField_new env s _ c rf mr hc]
            dsimp only
            have h2 : rf ≠ c.lf := fun e => hne (h1.trans e.symm)
            rw [if_neg h2]
            by_cases h3 : rf = c.rf
            · rw [if_pos h3]
              by_cases g2 : ((mr.all fun a => MS.okMember env.lang c.rtype (s.a a).type) &&
                  MS.okCount c.rmax mr.length) = true
              · rw [if_pos g2, ok_bind]
                have hg : fieldGuards env.lang (abs s) c ml mr = true := by
                  rw [fieldGuards_eq]
                  exact Bool.and_eq_true_iff.2 ⟨g1, g2⟩
                rw [hand_eq env.lang (abs s) _ ml mr c hl hr hc h1.symm h3.symm, hg]
                exact tail_sim env hE x hkey hex s hI c hc hd ml mr hg
              · rw [if_neg g2]
                refine hand_err_guards env.lang (abs s) _ ml mr c hl hr hc h1.symm h3.symm ?_
                rw [fieldGuards_eq]
                rw [Bool.not_eq_true] at g2
                show (_ && ((mr.all fun a => MS.okMember env.lang c.rtype (s.a a).type) &&
                  MS.okCount c.rmax mr.length)) = false
                rw [g2, Bool.and_false]
            · rw [if_neg h3]
              exact hand_err_names env.lang (abs s) _ c hc (fun h => h3 h.2.symm)
        · rw [if_neg g1]
          exact hand_err_guardL env.lang (abs s) _ ml c hl hc g1
      · rw [if_neg h1]
        have hhand := hand_err_names env.lang (abs s) { cls := typeKeyOf x, lf := lf, left := targetsOf l, rf := rf, right := targetsOf r, extras := assocExtrasOf x } c hc (fun h => h1 h.1.symm)
        by_cases h2 : lf = c.rf
        · rw [if_pos h2]
          by_cases g1 : ((ml.all fun a => MS.okMember env.lang c.rtype (s.a a).type) && MS.okCount c.rmax ml.length) = true
          · rw [if_pos g1, ok_bind]
            cases hr : resolveIds (abs s) (targetsOf r) with
            | none =>
              obtain ⟨e1, he1⟩ := fieldStep_none env s (newAssocObj s
                { cls := typeKeyOf x, lf := c.lf, rf := c.rf, right := ml, distinct := hd }) (fun _ => rfl) s.lfresh rf r hr
              rw [he1]
              exact hhand
            | some mr =>
              rw [fieldStep_some env s (newAssocObj s _) (fun _ => rfl) s.lfresh rf r mr hr,
                setField_new env s _ c rf mr hc]
              dsimp only
              have h3 : rf ≠ c.lf := fun e => hsw' ⟨h2, e⟩
              have h4 : rf ≠ c.rf := fun e => hne (h2.trans e.symm)
              rw [if_neg h3, if_neg h4]
              exact hhand
          · rw [if_neg g1]
            exact hhand
        · rw [if_neg h2]
          exact hhand

theorem fdAssoc_ok (env : SEnv) (hE : EqId env.model) (hL : FieldsDistinct env.lang)
    (x : PyAssocD) (hsh : assocShape x = true) (hsw : NotSwapped env.lang (assocEntryOfPy x))
    (s : H) (hI : FDInv s) (r : ForInStep H) (h : fdAssocBody env x s = .ok r) :
    ∃ s', r = .yield s' ∧ FDInv s' ∧ s'.name = s.name ∧
      Ser.loadAssoc env.lang (abs s) (assocEntryOfPy x) = .ok (abs s') := by
  have := fdAssoc_sim env hE hL x hsh hsw s hI
  rw [h] at this
  exact this

theorem fdAssoc_err (env : SEnv) (hE : EqId env.model) (hL : FieldsDistinct env.lang)
    (x : PyAssocD) (hsh : assocShape x = true) (hsw : NotSwapped env.lang (assocEntryOfPy x))
    (s : H) (hI : FDInv s) (e : PyErr) (h : fdAssocBody env x s = .error e) :
    ∃ e', Ser.loadAssoc env.lang (abs s) (assocEntryOfPy x) = .error e' := by
  have := fdAssoc_sim env hE hL x hsh hsw s hI
  rw [h] at this
  exact this

end MalVerif.PyM.Tie
