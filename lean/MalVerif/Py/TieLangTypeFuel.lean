import MalVerif.Py.TieLangTypeSpec
/-!
# The fuel of the hand model's typing (`typeF`) — model-only lemmas

`LG.generate` types with `genFuel L` expansions of variables inside variables.  For a language none of whose variable
definitions uses a variable (`VarsFlat`) two expansions decide everything: `typeF (k+2) = typeF 2`.
-/
namespace MalVerif.Py.TieLangType
open MalVerif MalVerif.LG

/-- the expression contains no variable -/
def noVar : Expr → Bool
  | .step _ => true
  | .field _ => true
  | .var _ => false
  | .collect l r => noVar l && noVar r
  | .union l r => noVar l && noVar r
  | .inter l r => noVar l && noVar r
  | .diff l r => noVar l && noVar r
  | .trans e => noVar e
  | .sub _ e => noVar e

/-- no variable definition of the language uses a variable (decidable) -/
def VarsFlat (L : Lang) : Prop := ∀ a ∈ L.assets, ∀ p ∈ a.variables, noVar p.2 = true

instance (L : Lang) : Decidable (VarsFlat L) := by unfold VarsFlat; exact inferInstance

/-- the typing of a variable-free expression does not consult `self` -/
theorem typeE_noVar (L : Lang) (nodes : List AssocDecl) (self self' : Expr → String → Except Err (Option (String × Option String))) :
    ∀ (e : Expr), noVar e = true → ∀ t, typeE L nodes self e t = typeE L nodes self' e t := by
  intro e
  induction e with
  | step n => intro _ t; rfl
  | field f => intro _ t; rfl
  | var v => intro h; cases h
  | collect l r ihl ihr =>
    intro h t
    simp only [noVar, Bool.and_eq_true] at h
    simp only [typeE, ihl h.1 t]
    cases typeE L nodes self' l t with
    | error e => rfl
    | ok x =>
      cases x with
      | none => rfl
      | some p => simp only [bind, Except.bind]; exact ihr h.2 p.1
  | union l r ihl ihr =>
    intro h t
    simp only [noVar, Bool.and_eq_true] at h
    simp only [typeE, ihl h.1 t, ihr h.2 t]
  | inter l r ihl ihr =>
    intro h t
    simp only [noVar, Bool.and_eq_true] at h
    simp only [typeE, ihl h.1 t, ihr h.2 t]
  | diff l r ihl ihr =>
    intro h t
    simp only [noVar, Bool.and_eq_true] at h
    simp only [typeE, ihl h.1 t, ihr h.2 t]
  | trans e ih => intro h t; simp only [noVar] at h; simp only [typeE, ih h t]
  | sub s e ih => intro h t; simp only [noVar] at h; simp only [typeE, ih h t]

/-- a variable definition that a lookup returns is a definition of some asset -/
theorem lookupVar_mem {L : Lang} {t v : String} {d : Expr} (h : L.lookupVar t v = some d) :
    ∃ a ∈ L.assets, (v, d) ∈ a.variables := by
  unfold Lang.lookupVar at h
  obtain ⟨a, ha, hd⟩ := List.exists_of_findSome?_eq_some h
  have hmem : a ∈ L.assets := by
    have : ∀ (k : Nat) (t : String), ∀ a ∈ L.chain k t, a ∈ L.assets := by
      intro k
      induction k with
      | zero => intro t a h; simp [Lang.chain] at h
      | succ k ih =>
        intro t a h
        unfold Lang.chain at h
        cases hf : L.findAsset t with
        | none => rw [hf] at h; simp at h
        | some b =>
          rw [hf] at h
          simp only [List.mem_cons] at h
          rcases h with rfl | h
          · exact findAsset_mem hf
          · cases hs : b.superAsset with
            | none => rw [hs] at h; simp at h
            | some s => rw [hs] at h; exact ih s a h
    exact this _ _ a ha
  cases hfd : a.variables.find? (·.1 = v) with
  | none => rw [hfd] at hd; cases hd
  | some p =>
    rw [hfd] at hd
    simp only [Option.map_some, Option.some.injEq] at hd
    have hp := List.mem_of_find?_eq_some hfd
    have hv : p.1 = v := by simpa using List.find?_some hfd
    refine ⟨a, hmem, ?_⟩
    rw [← hd, ← hv]; exact hp

/-- `typeE` consults `self` only on variable definitions of the language -/
theorem typeE_congr_defs (L : Lang) (nodes : List AssocDecl)
    (self self' : Expr → String → Except Err (Option (String × Option String)))
    (hs : ∀ a ∈ L.assets, ∀ p ∈ a.variables, ∀ t, self p.2 t = self' p.2 t) :
    ∀ (e : Expr) (t : String), typeE L nodes self e t = typeE L nodes self' e t := by
  intro e
  induction e with
  | step n => intro t; rfl
  | field f => intro t; rfl
  | var v =>
    intro t
    simp only [typeE]
    cases h : L.lookupVar t v with
    | none => rfl
    | some d =>
      obtain ⟨a, ha, hd⟩ := lookupVar_mem h
      exact hs a ha (v, d) hd t
  | collect l r ihl ihr =>
    intro t
    simp only [typeE, ihl t]
    cases typeE L nodes self' l t with
    | error e => rfl
    | ok x =>
      cases x with
      | none => rfl
      | some p => simp only [bind, Except.bind]; exact ihr p.1
  | union l r ihl ihr => intro t; simp only [typeE, ihl t, ihr t]
  | inter l r ihl ihr => intro t; simp only [typeE, ihl t, ihr t]
  | diff l r ihl ihr => intro t; simp only [typeE, ihl t, ihr t]
  | trans e ih => intro t; simp only [typeE, ih t]
  | sub s e ih => intro t; simp only [typeE, ih t]

/-- with flat variable definitions every fuel `≥ 2` types like fuel `2` -/
theorem typeF_flat (L : Lang) (nodes : List AssocDecl) (hf : VarsFlat L) (k : Nat) (e : Expr) (t : String) :
    typeF L nodes (k + 2) e t = typeF L nodes 2 e t := by
  show typeE L nodes (typeF L nodes (k + 1)) e t = typeE L nodes (typeF L nodes 1) e t
  apply typeE_congr_defs
  intro a ha p hp t'
  show typeE L nodes (typeF L nodes k) p.2 t' = typeE L nodes (typeF L nodes 0) p.2 t'
  exact typeE_noVar L nodes _ _ p.2 (hf a ha p hp) t'

theorem two_le_genFuel (L : Lang) : 2 ≤ genFuel L := by unfold genFuel; omega

/-- … in particular like `genFuel L` -/
theorem typeF_flat_genFuel (L : Lang) (nodes : List AssocDecl) (hf : VarsFlat L) (k : Nat) (e : Expr) (t : String) :
    typeF L nodes (k + 2) e t = typeF L nodes (genFuel L) e t := by
  obtain ⟨j, hj⟩ : ∃ j, genFuel L = j + 2 := ⟨genFuel L - 2, by have := two_le_genFuel L; omega⟩
  rw [hj, typeF_flat L nodes hf k, typeF_flat L nodes hf j]

end MalVerif.Py.TieLangType
